/-
  Avt.Lemmas.C18 — helper lemmas for the tab-stop theorems (Props/C18.lean, also used by C05):
  sorted duplicate-free lists as sets, `takeWhile`/`dropWhile` versus `filter` on sorted lists,
  `step_by(8)` ranges versus "every multiple of 8", facts drawn from `TInv`.
-/
import Avt.Spec.C18

namespace Avt.Lemmas.C18
open Avt Avt.Spec Avt.Spec.C18

abbrev Sorted (l : List Nat) : Prop := List.Pairwise (· < ·) l

/-! ### `strictlyIncreasing` (Bool, used by the invariant) is `Pairwise (<)` -/

theorem strictlyIncreasing_cons_cons (a b : Nat) (l : List Nat) :
    strictlyIncreasing (a :: b :: l) = (decide (a < b) && strictlyIncreasing (b :: l)) := rfl

theorem sorted_of_strictlyIncreasing : ∀ (l : List Nat), strictlyIncreasing l = true → Sorted l
  | [], _ => List.Pairwise.nil
  | [a], _ => by simp [Sorted]
  | a :: b :: l, h => by
    rw [strictlyIncreasing_cons_cons, Bool.and_eq_true, decide_eq_true_eq] at h
    have ih := sorted_of_strictlyIncreasing (b :: l) h.2
    refine List.pairwise_cons.2 ⟨?_, ih⟩
    intro x hx
    rcases List.mem_cons.1 hx with rfl | hx
    · exact h.1
    · exact Nat.lt_trans h.1 ((List.pairwise_cons.1 ih).1 x hx)

theorem strictlyIncreasing_of_sorted : ∀ (l : List Nat), Sorted l → strictlyIncreasing l = true
  | [], _ => rfl
  | [_], _ => rfl
  | a :: b :: l, h => by
    rw [strictlyIncreasing_cons_cons, Bool.and_eq_true, decide_eq_true_eq]
    have h' := List.pairwise_cons.1 h
    exact ⟨h'.1 b (List.mem_cons_self ..), strictlyIncreasing_of_sorted (b :: l) h'.2⟩

theorem strictlyIncreasing_iff (l : List Nat) : strictlyIncreasing l = true ↔ Sorted l :=
  ⟨sorted_of_strictlyIncreasing l, strictlyIncreasing_of_sorted l⟩

/-- `tabsOK` in words: sorted, duplicate-free, every stop strictly between 0 and the width -/
theorem tabsOK_iff (tabs : List Nat) (cols : Nat) :
    tabsOK tabs cols = true ↔ Sorted tabs ∧ ∀ x ∈ tabs, 0 < x ∧ x < cols := by
  simp [tabsOK, strictlyIncreasing_iff, List.all_eq_true]

/-! ### sorted duplicate-free lists are determined by their members -/

theorem sorted_ext : ∀ (l₁ l₂ : List Nat), Sorted l₁ → Sorted l₂ → (∀ x, x ∈ l₁ ↔ x ∈ l₂) → l₁ = l₂
  | [], [], _, _, _ => rfl
  | [], b :: l₂, _, _, h => by have := (h b).2 (List.mem_cons_self ..); simp at this
  | a :: l₁, [], _, _, h => by have := (h a).1 (List.mem_cons_self ..); simp at this
  | a :: l₁, b :: l₂, h₁, h₂, h => by
    have p₁ := List.pairwise_cons.1 h₁
    have p₂ := List.pairwise_cons.1 h₂
    have hab : a = b := by
      have ha := (h a).1 (List.mem_cons_self ..)
      have hb := (h b).2 (List.mem_cons_self ..)
      rcases List.mem_cons.1 ha with e | ha
      · exact e
      · rcases List.mem_cons.1 hb with e | hb
        · exact e.symm
        · have := p₂.1 a ha; have := p₁.1 b hb; omega
    subst hab
    congr 1
    apply sorted_ext l₁ l₂ p₁.2 p₂.2
    intro x
    constructor
    · intro hx
      have := (h x).1 (List.mem_cons_of_mem _ hx)
      rcases List.mem_cons.1 this with e | hx'
      · have := p₁.1 x hx; omega
      · exact hx'
    · intro hx
      have := (h x).2 (List.mem_cons_of_mem _ hx)
      rcases List.mem_cons.1 this with e | hx'
      · have := p₂.1 x hx; omega
      · exact hx'

/-! ### `takeWhile` / `dropWhile` on lists where the predicate can only switch off once -/

theorem takeWhile_eq_filter (p : Nat → Bool) : ∀ (l : List Nat),
    List.Pairwise (fun a b => p a = false → p b = false) l → l.takeWhile p = l.filter p
  | [], _ => rfl
  | a :: l, h => by
    have h' := List.pairwise_cons.1 h
    rw [List.takeWhile_cons, List.filter_cons]
    cases hp : p a
    · simp only [Bool.false_eq_true, if_false]
      symm
      apply List.filter_eq_nil_iff.2
      intro x hx
      simp [h'.1 x hx hp]
    · simp only [if_true]
      rw [takeWhile_eq_filter p l h'.2]

theorem dropWhile_eq_filter (p : Nat → Bool) : ∀ (l : List Nat),
    List.Pairwise (fun a b => p a = false → p b = false) l → l.dropWhile p = l.filter (fun x => !p x)
  | [], _ => rfl
  | a :: l, h => by
    have h' := List.pairwise_cons.1 h
    rw [List.dropWhile_cons, List.filter_cons]
    cases hp : p a
    · simp only [Bool.false_eq_true, if_false, Bool.not_false, if_true]
      congr 1
      symm
      apply List.filter_eq_self.2
      intro x hx
      simp [h'.1 x hx hp]
    · simp only [if_true, Bool.not_true, Bool.false_eq_true, if_false]
      exact dropWhile_eq_filter p l h'.2

theorem takeWhile_lt_sorted (l : List Nat) (hs : Sorted l) (pos : Nat) :
    l.takeWhile (· < pos) = l.filter (· < pos) := by
  apply takeWhile_eq_filter
  refine hs.imp ?_
  intro a b hab
  simp only [decide_eq_false_iff_not]
  omega

theorem dropWhile_ge_sorted (l : List Nat) (hs : Sorted l) (pos : Nat) :
    l.dropWhile (fun t => pos ≥ t) = l.filter (pos < ·) := by
  rw [dropWhile_eq_filter]
  · congr 1; funext x; simp only [ge_iff_le, ← Nat.not_lt, decide_not, Bool.not_not]
  · refine hs.imp ?_
    intro a b hab
    simp only [decide_eq_false_iff_not]
    omega

theorem reverse_dropWhile_le_sorted (l : List Nat) (hs : Sorted l) (pos : Nat) :
    l.reverse.dropWhile (fun t => pos ≤ t) = (l.filter (· < pos)).reverse := by
  rw [dropWhile_eq_filter]
  · rw [List.filter_reverse]; congr 2; funext x; simp only [← Nat.not_lt, decide_not, Bool.not_not]
  · rw [List.pairwise_reverse]
    refine hs.imp ?_
    intro a b hab
    simp only [decide_eq_false_iff_not]
    omega

/-! ### membership in the reference sets -/

theorem mem_tabsRef {cols x : Nat} : x ∈ tabsRef cols ↔ 0 < x ∧ x < cols ∧ x % 8 = 0 := by
  simp [tabsRef, List.mem_filter, List.mem_range]; omega

theorem mem_defaultsIn {lo hi x : Nat} : x ∈ defaultsIn lo hi ↔ lo ≤ x ∧ x < hi ∧ x % 8 = 0 := by
  simp [defaultsIn, List.mem_filter, List.mem_range]; omega

theorem sorted_tabsRef (cols : Nat) : Sorted (tabsRef cols) :=
  List.Pairwise.filter _ List.pairwise_lt_range

theorem sorted_defaultsIn (lo hi : Nat) : Sorted (defaultsIn lo hi) :=
  List.Pairwise.filter _ List.pairwise_lt_range

/-! ### `(start..stop).step_by(8)` -/

theorem mem_stepFrom {a b x : Nat} : x ∈ Tabs.stepFrom a b ↔ a ≤ x ∧ x < b ∧ (x - a) % 8 = 0 := by
  simp only [Tabs.stepFrom, List.mem_map, List.mem_range]
  constructor
  · rintro ⟨i, hi, rfl⟩
    omega
  · rintro ⟨h1, h2, h3⟩
    exact ⟨(x - a) / 8, by omega, by omega⟩

theorem sorted_stepFrom (a b : Nat) : Sorted (Tabs.stepFrom a b) := by
  unfold Tabs.stepFrom Sorted
  rw [List.pairwise_map]
  refine List.pairwise_lt_range.imp ?_
  intro i j hij
  omega

/-- `Tabs::new`: the `step_by(8)` loop yields exactly every multiple of 8 strictly inside `(0, cols)` -/
theorem new_eq_tabsRef (cols : Nat) : Tabs.new cols = tabsRef cols := by
  apply sorted_ext _ _ (sorted_stepFrom ..) (sorted_tabsRef ..)
  intro x
  show x ∈ Tabs.stepFrom 8 cols ↔ _
  rw [mem_stepFrom, mem_tabsRef]
  omega

/-- the part `Tabs::expand` appends: every multiple of 8 in `[start, stop)`, `start` included -/
theorem expand_part (start stop : Nat) :
    Tabs.stepFrom (if start % 8 ≠ 0 then start + (8 - start % 8) else start) stop
      = defaultsIn start stop := by
  apply sorted_ext _ _ (sorted_stepFrom ..) (sorted_defaultsIn ..)
  intro x
  rw [mem_stepFrom, mem_defaultsIn]
  split <;> omega

/-! ### set / unset -/

theorem mem_set : ∀ (tabs : List Nat) (pos x : Nat), x ∈ Tabs.set tabs pos ↔ x = pos ∨ x ∈ tabs
  | [], pos, x => by simp [Tabs.set]
  | t :: ts, pos, x => by
    unfold Tabs.set
    split
    · simp
    · split
      · rename_i h; subst h; simp
      · simp only [List.mem_cons, mem_set ts pos x]
        constructor
        · rintro (h | h | h) <;> simp [h]
        · rintro (h | h | h) <;> simp [h]

theorem sorted_set : ∀ (tabs : List Nat) (pos : Nat), Sorted tabs → Sorted (Tabs.set tabs pos)
  | [], pos, _ => by simp [Tabs.set, Sorted]
  | t :: ts, pos, h => by
    have h' := List.pairwise_cons.1 h
    unfold Tabs.set
    split
    · rename_i hlt
      refine List.pairwise_cons.2 ⟨?_, h⟩
      intro x hx
      rcases List.mem_cons.1 hx with rfl | hx
      · exact hlt
      · have := h'.1 x hx; omega
    · split
      · exact h
      · refine List.pairwise_cons.2 ⟨?_, sorted_set ts pos h'.2⟩
        intro x hx
        rcases (mem_set ts pos x).1 hx with rfl | hx
        · omega
        · exact h'.1 x hx

theorem sorted_setRef (tabs : List Nat) (pos : Nat) (hs : Sorted tabs) : Sorted (setRef tabs pos) := by
  unfold setRef Sorted
  rw [List.pairwise_append, List.pairwise_append]
  refine ⟨⟨hs.filter _, by simp, ?_⟩, hs.filter _, ?_⟩
  · intro a ha b hb
    simp at ha hb
    omega
  · intro a ha b hb
    simp at ha hb
    rcases ha with ha | ha <;> omega

theorem mem_setRef (tabs : List Nat) (pos x : Nat) : x ∈ setRef tabs pos ↔ x = pos ∨ x ∈ tabs := by
  simp only [setRef, List.mem_append, List.mem_filter, List.mem_singleton, decide_eq_true_eq]
  constructor
  · rintro ((⟨h, _⟩ | h) | ⟨h, _⟩) <;> simp [h]
  · rintro (h | h)
    · simp [h]
    · rcases Nat.lt_trichotomy x pos with h' | h' | h'
      · exact Or.inl (Or.inl ⟨h, h'⟩)
      · exact Or.inl (Or.inr h')
      · exact Or.inr ⟨h, h'⟩

/-- `Tabs::set` (binary search + insert) is the sorted-set insert -/
theorem set_eq_setRef (tabs : List Nat) (pos : Nat) (hs : Sorted tabs) :
    Tabs.set tabs pos = setRef tabs pos := by
  apply sorted_ext _ _ (sorted_set tabs pos hs) (sorted_setRef tabs pos hs)
  intro x
  rw [mem_set, mem_setRef]

theorem sorted_unsetRef (tabs : List Nat) (pos : Nat) (hs : Sorted tabs) : Sorted (unsetRef tabs pos) := by
  unfold unsetRef Sorted
  rw [List.pairwise_append]
  refine ⟨hs.filter _, hs.filter _, ?_⟩
  intro a ha b hb
  simp at ha hb
  omega

theorem mem_unsetRef (tabs : List Nat) (pos x : Nat) : x ∈ unsetRef tabs pos ↔ x ∈ tabs ∧ x ≠ pos := by
  simp only [unsetRef, List.mem_append, List.mem_filter, decide_eq_true_eq]
  constructor
  · rintro (⟨h, h'⟩ | ⟨h, h'⟩) <;> exact ⟨h, by omega⟩
  · rintro ⟨h, h'⟩
    rcases Nat.lt_or_gt_of_ne h' with h'' | h''
    · exact Or.inl ⟨h, h''⟩
    · exact Or.inr ⟨h, h''⟩

/-- `Tabs::unset` (binary search + remove) is the sorted-set remove -/
theorem unset_eq_unsetRef (tabs : List Nat) (pos : Nat) (hs : Sorted tabs) :
    Tabs.unset tabs pos = unsetRef tabs pos := by
  apply sorted_ext _ _ (hs.filter _) (sorted_unsetRef tabs pos hs)
  intro x
  rw [mem_unsetRef]
  simp

/-! ### after / before -/

theorem after_eq (tabs : List Nat) (pos n : Nat) (hs : Sorted tabs) (hn : 0 < n) :
    Tabs.after tabs pos n = some (nthAfter tabs pos n) := by
  have : csub n 1 = some (n - 1) := by simp [csub]; omega
  simp [Tabs.after, this, nthAfter, dropWhile_ge_sorted tabs hs]

theorem before_eq (tabs : List Nat) (pos n : Nat) (hs : Sorted tabs) (hn : 0 < n) :
    Tabs.before tabs pos n = some (nthBefore tabs pos n) := by
  have : csub n 1 = some (n - 1) := by simp [csub]; omega
  simp [Tabs.before, this, nthBefore, reverse_dropWhile_le_sorted tabs hs]

theorem nthAfter_mem {tabs : List Nat} {pos n x : Nat} (h : nthAfter tabs pos n = some x) :
    x ∈ tabs ∧ pos < x := by
  have := List.mem_of_getElem? h
  simpa [List.mem_filter] using this

theorem nthBefore_mem {tabs : List Nat} {pos n x : Nat} (h : nthBefore tabs pos n = some x) :
    x ∈ tabs ∧ x < pos := by
  have := List.mem_of_getElem? h
  simpa [List.mem_filter] using this

/-! ### resize -/

theorem contract_eq (tabs : List Nat) (pos : Nat) (hs : Sorted tabs) :
    Tabs.contract tabs pos = tabs.filter (· < pos) := takeWhile_lt_sorted tabs hs pos

theorem expand_eq (tabs : List Nat) (start stop : Nat) :
    Tabs.expand tabs start stop = tabs ++ defaultsIn start stop := by
  rw [Tabs.expand, expand_part]

/-- the tab vector after `Terminal::resize` to width `cols'` -/
def resizedTabs (tabs : List Nat) (cols cols' : Nat) : List Nat :=
  if cols' < cols then Tabs.contract tabs cols'
  else if cols' > cols then Tabs.expand tabs cols cols' else tabs

theorem defaultsIn_self (c : Nat) : defaultsIn c c = [] := by
  apply List.filter_eq_nil_iff.2
  intro x hx
  have := List.mem_range.1 hx
  simp; omega

theorem resizedTabs_eq (tabs : List Nat) (cols cols' : Nat) (hs : Sorted tabs) :
    resizedTabs tabs cols cols' = resizeRef tabs cols cols' := by
  unfold resizedTabs resizeRef
  split
  · exact contract_eq tabs cols' hs
  · split
    · exact expand_eq ..
    · have : cols' = cols := by omega
      subst this
      rw [defaultsIn_self, List.append_nil]

theorem tabsOK_resizeRef (tabs : List Nat) (cols cols' : Nat) (h : tabsOK tabs cols = true)
    (hc : 1 ≤ cols) : tabsOK (resizeRef tabs cols cols') cols' = true := by
  rw [tabsOK_iff] at h ⊢
  obtain ⟨hs, hb⟩ := h
  unfold resizeRef
  split
  · refine ⟨hs.filter _, ?_⟩
    intro x hx
    simp [List.mem_filter] at hx
    have := hb x hx.1
    omega
  · refine ⟨?_, ?_⟩
    · unfold Sorted
      rw [List.pairwise_append]
      refine ⟨hs, sorted_defaultsIn .., ?_⟩
      intro a ha b hb'
      have := hb a ha
      have := (mem_defaultsIn.1 hb').1
      omega
    · intro x hx
      rcases List.mem_append.1 hx with hx | hx
      · have := hb x hx; omega
      · have := mem_defaultsIn.1 hx; omega

/-- the never-customised rule on vectors -/
theorem resizeRef_tabsRef (cols cols' : Nat) (hc : 1 ≤ cols) :
    resizeRef (tabsRef cols) cols cols' = tabsRef cols' := by
  unfold resizeRef
  split
  · apply sorted_ext _ _ ((sorted_tabsRef _).filter _) (sorted_tabsRef _)
    intro x
    simp only [List.mem_filter, mem_tabsRef, decide_eq_true_eq]
    omega
  · apply sorted_ext _ _ _ (sorted_tabsRef _)
    · intro x
      simp only [List.mem_append, mem_tabsRef, mem_defaultsIn]
      omega
    · unfold Sorted
      rw [List.pairwise_append]
      refine ⟨sorted_tabsRef _, sorted_defaultsIn .., ?_⟩
      intro a ha b hb
      have := mem_tabsRef.1 ha
      have := mem_defaultsIn.1 hb
      omega

/-! ### what `Terminal::reflow` / `Terminal::resize` leave alone -/

theorem markDirtyRange_tabs {t t' : Terminal} {a b : Nat} (h : t.markDirtyRange a b = some t') :
    t'.tabs = t.tabs ∧ t'.cols = t.cols := by
  unfold Terminal.markDirtyRange at h
  cases hd : Dirty.extend t.dirtyLines a b <;> simp [hd] at h
  subst h; exact ⟨rfl, rfl⟩

theorem reflow_tabs {t t' : Terminal} (h : t.reflow = some t') :
    t'.tabs = t.tabs ∧ t'.cols = t.cols ∧ 1 ≤ t.cols := by
  unfold Terminal.reflow at h
  simp only at h
  split at h
  · exact absurd h (by simp)
  · rename_i b col row hb
    split at h
    · exact absurd h (by simp)
    · rename_i t1 h1
      have e1 := markDirtyRange_tabs h1
      simp only at e1
      split at h
      · exact absurd h (by simp)
      · rename_i t2 h2
        have e2 : t2.tabs = t1.tabs ∧ t2.cols = t1.cols ∧ 1 ≤ t1.cols := by
          split at h2
          · cases hc : csub t1.cols 1 <;> simp [hc] at h2
            subst h2
            refine ⟨rfl, rfl, ?_⟩
            unfold csub at hc
            split at hc
            · assumption
            · exact absurd hc (by simp)
          · rename_i hge
            cases h2; exact ⟨rfl, rfl, by omega⟩
        have e3 : t'.tabs = t2.tabs ∧ t'.cols = t2.cols := by
          split at h
          · cases hc : csub t2.rows 1 <;> simp [hc] at h
            subst h; exact ⟨rfl, rfl⟩
          · cases h; exact ⟨rfl, rfl⟩
        have c1 : t1.cols = t.cols := by rw [e1.2]; split <;> rfl
        refine ⟨?_, ?_, ?_⟩
        · rw [e3.1, e2.1, e1.1]; split <;> rfl
        · rw [e3.2, e2.2.1, c1]
        · rw [← c1]; exact e2.2.2

theorem resize_tabs {t t' : Terminal} {cols rows : Nat} (h : t.resize cols rows = some t') :
    t'.tabs = resizedTabs t.tabs t.cols cols ∧ t'.cols = cols ∧ 1 ≤ cols := by
  have key : ∀ t0 : Terminal,
      (match (if rows ≠ t0.rows then (csub rows 1).map fun r1 => { t0 with topMargin := 0, bottomMargin := r1 }
              else some t0) with
        | none => none
        | some t => ({ t with cols := cols, rows := rows } : Terminal).reflow) = some t' →
      t'.tabs = t0.tabs ∧ t'.cols = cols ∧ 1 ≤ cols := by
    intro t0 h
    split at h
    · exact absurd h (by simp)
    · rename_i t1 h1
      have e := reflow_tabs h
      simp only at e
      have e1 : t1.tabs = t0.tabs := by
        split at h1
        · cases hc : csub rows 1 <;> simp [hc] at h1
          subst h1; rfl
        · cases h1; rfl
      exact ⟨e.1.trans e1, e.2⟩
  have := key _ h
  refine ⟨?_, this.2⟩
  rw [this.1]
  unfold resizedTabs
  split
  · rfl
  · split <;> rfl

/-! ### facts from the invariant -/

theorem TInv_cols_pos {t : Terminal} (h : TInv t = true) : 1 ≤ t.cols := by
  simp only [TInv, BInv, Bool.and_eq_true, beq_iff_eq, decide_eq_true_eq] at h
  omega

theorem TInv_tabsOK {t : Terminal} (h : TInv t = true) : tabsOK t.tabs t.cols = true := by
  simp only [TInv, Bool.and_eq_true] at h
  simp [h]

theorem TInv_sorted {t : Terminal} (h : TInv t = true) : Sorted t.tabs :=
  ((tabsOK_iff _ _).1 (TInv_tabsOK h)).1

/-! ### the tab functions on the terminal -/

theorem tabop_eq {t : Terminal} {f : Function} (h : TInv t = true) (hf : isTabOp f = true) :
    t.execute f = some (tabSpec t f) := by
  have hc := TInv_cols_pos h
  have hs := TInv_sorted h
  have hok := (tabsOK_iff _ _).1 (TInv_tabsOK h)
  have c1 : csub t.cols 1 = some (t.cols - 1) := by simp [csub]; omega
  have hset : t.setTab = withTabs t (setAtCursor t.tabs t.cursor.col t.cols) := by
    unfold Terminal.setTab setAtCursor withTabs
    split
    · rw [set_eq_setRef _ _ hs]
    · rfl
  have hclr : t.clearTab = withTabs t (unsetRef t.tabs t.cursor.col) := by
    unfold Terminal.clearTab withTabs
    rw [unset_eq_unsetRef _ _ hs]
  have hfwd : ∀ n, 0 < n → t.moveCursorToNextTab n = some (tabForward t n) := by
    intro n hn
    unfold Terminal.moveCursorToNextTab
    rw [after_eq _ _ _ hs hn, c1]
    simp only [Terminal.moveCursorToCol, c1, Option.map_some, tabForward, toCol,
      Terminal.doMoveCursorToCol]
    split
    · congr 3; omega
    · congr 3; omega
  have hbwd : ∀ n, 0 < n → t.moveCursorToPrevTab n = some (tabBackward t n) := by
    intro n hn
    unfold Terminal.moveCursorToPrevTab
    rw [before_eq _ _ _ hs hn]
    simp only [Terminal.moveCursorToCol, c1, Option.map_some, tabBackward, toCol,
      Terminal.doMoveCursorToCol]
    split
    · congr 3; omega
    · congr 3; omega
  have harg : ∀ n, asUsize n 1 = arg n ∧ 0 < arg n := by
    intro n; unfold asUsize arg; split <;> omega
  cases f <;> simp only [isTabOp, Bool.false_eq_true] at hf
  case cbt n => simp only [Terminal.execute, tabSpec, (harg n).1]; exact hbwd _ (harg n).2
  case cht n => simp only [Terminal.execute, tabSpec, (harg n).1]; exact hfwd _ (harg n).2
  case ht => simp only [Terminal.execute, tabSpec]; exact hfwd 1 (by omega)
  case hts => simp only [Terminal.execute, tabSpec, hset]
  case ctc op =>
    cases op <;> simp only [Terminal.execute, Terminal.ctc, tabSpec, hset, hclr] <;> rfl
  case tbc s =>
    cases s <;> simp only [Terminal.execute, Terminal.tbc, tabSpec, hclr] <;> rfl

theorem moves {t : Terminal} (h : TInv t = true) (n : Nat) :
    (tabForward t n).cursor.col = (nthAfter t.tabs t.cursor.col n).getD (t.cols - 1)
      ∧ (tabBackward t n).cursor.col = (nthBefore t.tabs t.cursor.col n).getD 0
      ∧ (tabForward t n).cursor.col < t.cols ∧ (tabBackward t n).cursor.col < t.cols
      ∧ (tabForward t n).cursor.row = t.cursor.row ∧ (tabBackward t n).cursor.row = t.cursor.row := by
  have hc := TInv_cols_pos h
  have hok := (tabsOK_iff _ _).1 (TInv_tabsOK h)
  have ha : (nthAfter t.tabs t.cursor.col n).getD (t.cols - 1) ≤ t.cols - 1 := by
    cases hx : nthAfter t.tabs t.cursor.col n with
    | none => simp
    | some x => have := hok.2 x (nthAfter_mem hx).1; simp; omega
  have hb : (nthBefore t.tabs t.cursor.col n).getD 0 ≤ t.cols - 1 := by
    cases hx : nthBefore t.tabs t.cursor.col n with
    | none => simp
    | some x => have := hok.2 x (nthBefore_mem hx).1; simp; omega
  refine ⟨?_, ?_, ?_, ?_, rfl, rfl⟩ <;> simp only [tabForward, tabBackward, toCol] <;> omega

end Avt.Lemmas.C18
