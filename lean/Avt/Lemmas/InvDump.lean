/-
  Avt.Lemmas.InvDump — the `dump` family never panics: `Pen.dump` and `Buffer.dump` unconditionally
  (resp. for `rows ≥ 1`), `Terminal.dump` under the terminal invariant, `Parser.dump` under the
  register invariant, `Vt.dump` under `Inv`.

  Side conditions found: none on colours — in the model colour components are unbounded `Nat`s that
  are only rendered in decimal; the only checked `u8` additions are `base + k` with `base ∈ {30, 40}`
  and `k ≤ 60 + 15`, which cannot overflow.  `Buffer.dump` needs `rows ≥ 1` (`rows - 1`);
  `Terminal.dump` needs `rows ≥ 1`, and for the wrap-pending re-print `cols ≥ 1`, `cursor.row < rows`
  and full-width rows; `Parser.dump` needs `cur_param < 32` and `cur_part < 6`.
-/
import Avt.Lemmas.InvTerminal

namespace Avt

theorem Color.sgrParams_ok (c : Color) {base : Nat} (hb : base ≤ 40) :
    ∃ s, c.sgrParams base = some s := by
  have e1 : Gen.colorLt1 = 8 := rfl
  have e2 : Gen.colorLt2 = 16 := rfl
  have e3 : Gen.colorBrightAdd = 52 := rfl
  have e4 : Gen.colorIdxAdd = 8 := rfl
  have e5 : Gen.colorRgbAdd = 8 := rfl
  cases c with
  | indexed n =>
    unfold Color.sgrParams
    simp only []
    by_cases h1 : n < Gen.colorLt1
    · rw [if_pos h1, if_pos (by omega)]; exact ⟨_, rfl⟩
    · rw [if_neg h1]
      by_cases h2 : n < Gen.colorLt2
      · rw [if_pos h2, if_pos (by omega)]
        simp only []
        rw [if_pos (by omega)]; exact ⟨_, rfl⟩
      · rw [if_neg h2, if_pos (by omega)]; exact ⟨_, rfl⟩
  | rgb r g b =>
    unfold Color.sgrParams
    simp only []
    rw [if_pos (by omega)]; exact ⟨_, rfl⟩

theorem Pen.dump_ok (p : Pen) : ∃ s, p.dump = some s := by
  unfold Pen.dump
  simp only []
  cases p.fg with
  | none =>
    cases p.bg with
    | none => exact ⟨_, rfl⟩
    | some c =>
      obtain ⟨s, hs⟩ := c.sgrParams_ok (base := 40) (by omega)
      simp only [hs, Option.map_some]
      exact ⟨_, rfl⟩
  | some c' =>
    obtain ⟨s', hs'⟩ := c'.sgrParams_ok (base := 30) (by omega)
    cases p.bg with
    | none =>
      simp only [hs', Option.map_some]
      exact ⟨_, rfl⟩
    | some c =>
      obtain ⟨s, hs⟩ := c.sgrParams_ok (base := 40) (by omega)
      simp only [hs, hs', Option.map_some]
      exact ⟨_, rfl⟩

namespace Line

theorem chunksGo_ne_nil (pred : Cell → Cell → Bool) (cs : List Cell) :
    ∀ cur, ∀ ch ∈ chunksGo pred cs cur, ch ≠ [] := by
  induction cs with
  | nil =>
    intro cur ch hch
    simp only [chunksGo] at hch
    split at hch
    · cases hch
    · rename_i hne
      simp only [List.mem_singleton] at hch
      subst hch
      intro h
      apply hne
      simpa using h
  | cons c cs ih =>
    intro cur ch hch
    cases cur with
    | nil => exact ih _ ch (by simpa [chunksGo] using hch)
    | cons last cur =>
      simp only [chunksGo] at hch
      split at hch
      · rcases List.mem_cons.1 hch with rfl | hch
        · simp
        · exact ih _ ch hch
      · exact ih _ ch hch

end Line

namespace Buffer

theorem dumpChunks_ok (chunks : List (List Cell)) (hne : ∀ ch ∈ chunks, ch ≠ []) :
    ∀ pen, ∃ r, dumpChunks chunks pen = some r := by
  induction chunks with
  | nil => intro pen; exact ⟨_, rfl⟩
  | cons cells rest ih =>
    intro pen
    cases cells with
    | nil => exact absurd rfl (hne [] (List.mem_cons_self ..))
    | cons c cs =>
      simp only [dumpChunks]
      obtain ⟨pre, hpre⟩ : ∃ pre : List Nat × Pen,
          (if c.pen ≠ pen then (c.pen.dump).map fun d => (d, c.pen) else some ([], pen)) = some pre := by
        split
        · obtain ⟨d, hd⟩ := c.pen.dump_ok
          exact ⟨_, by rw [hd]; rfl⟩
        · exact ⟨_, rfl⟩
      obtain ⟨d, pen'⟩ := pre
      rw [hpre]
      simp only [repEncode]
      obtain ⟨⟨more, pen''⟩, hm⟩ := ih (fun ch h => hne ch (List.mem_cons_of_mem _ h)) pen'
      rw [hm]
      exact ⟨_, rfl⟩

theorem dumpLines_ok (last : Nat) (ls : List Line) : ∀ i pen, ∃ s, dumpLines last ls i pen = some s := by
  induction ls with
  | nil => intro i pen; exact ⟨_, rfl⟩
  | cons l ls ih =>
    intro i pen
    simp only [dumpLines]
    obtain ⟨⟨s, pen'⟩, hs⟩ := dumpChunks_ok (l.chunks fun c1 c2 => c1.pen ≠ c2.pen)
      (Line.chunksGo_ne_nil _ _ _) pen
    rw [hs]
    simp only []
    obtain ⟨more, hm⟩ := ih (i + 1) pen'
    rw [hm]
    exact ⟨_, rfl⟩

theorem dump_ok {b : Buffer} (hr : 1 ≤ b.rows) : ∃ s, b.dump = some s := by
  unfold dump
  simp only [csub_eq_some hr]
  exact dumpLines_ok _ _ _ _

end Buffer

namespace Terminal

theorem dumpCtx_ok (c : SavedCtx) : ∃ s, dumpCtx c = some s := by
  unfold dumpCtx
  split
  · exact ⟨_, rfl⟩
  · obtain ⟨pd, h⟩ := c.pen.dump_ok
    rw [h]
    exact ⟨_, rfl⟩

theorem pendingPrint_ok {t : Terminal} (h : TOK t) :
    ∃ s, (if t.cursor.col ≥ t.cols then
        match csub t.cols 1 with
        | none => none
        | some c1 =>
          match t.buffer.view[t.cursor.row]? with
          | none => none
          | some line =>
            match line.cells[c1]? with
            | none => none
            | some cell => (cell.pen.dump).map fun pd => pd ++ [cell.ch]
      else some []) = some s := by
  split
  · simp only [csub_eq_some h.c1]
    have hlt : t.cursor.row < t.buffer.view.length := by rw [h.bok.hv]; exact h.brow
    rw [List.getElem?_eq_getElem hlt]
    simp only []
    have hw := h.bok.hvw _ (List.getElem_mem hlt)
    have hlt2 : t.cols - 1 < (t.buffer.view[t.cursor.row]).cells.length := by
      rw [hw, h.bcols]; have := h.c1; omega
    rw [List.getElem?_eq_getElem hlt2]
    simp only []
    obtain ⟨pd, hpd⟩ := (t.buffer.view[t.cursor.row]).cells[t.cols - 1].pen.dump_ok
    rw [hpd]; exact ⟨_, rfl⟩
  · exact ⟨_, rfl⟩

theorem dump_ok {t : Terminal} (h : TOK t) : ∃ s, t.dump = some s := by
  have hpr : 1 ≤ t.primaryBuffer.rows := by
    unfold primaryBuffer; split
    · exact h.bok.hr
    · exact h.ook.hr
  have har : 1 ≤ t.alternateBuffer.rows := by
    unfold alternateBuffer; split
    · exact h.bok.hr
    · exact h.ook.hr
  obtain ⟨prim, h1⟩ := Buffer.dump_ok hpr
  obtain ⟨alt, h1'⟩ := Buffer.dump_ok har
  obtain ⟨pend, h4⟩ := t.pen.dump_ok
  obtain ⟨sctx, h2⟩ := dumpCtx_ok t.savedCtx
  obtain ⟨actx, h3⟩ := dumpCtx_ok t.alternateSavedCtx
  obtain ⟨sp, hsp⟩ := pendingPrint_ok h
  unfold dump
  cases hab : t.activeBufferType with
  | primary =>
    simp only [h1, h2, h3, h4, csub_eq_some h.r1, reduceCtorEq, if_false]
    split
    · exact ⟨_, rfl⟩
    · rename_i hno; exact (hno _ _ rfl hsp).elim
  | alternate =>
    simp only [h1, h1', h2, h3, h4, csub_eq_some h.r1, if_true, Option.map_some]
    split
    · exact ⟨_, rfl⟩
    · rename_i hno; exact (hno _ _ rfl hsp).elim

end Terminal

/-! ### Parser.dump -/

theorem List.mapM_option_ok {α β} (f : α → Option β) (l : List α) (h : ∀ x ∈ l, ∃ y, f x = some y) :
    ∃ ys, l.mapM f = some ys := by
  induction l with
  | nil => exact ⟨[], rfl⟩
  | cons a t ih =>
    obtain ⟨y, hy⟩ := h a (List.mem_cons_self ..)
    obtain ⟨ys, hys⟩ := ih fun x hx => h x (List.mem_cons_of_mem _ hx)
    exact ⟨y :: ys, by simp [List.mapM_cons, hy, hys]⟩

namespace Parser

theorem Param.render_ok {q : Param} (h : Param.ok q = true) : ∃ s, Parser.Param.render q = some s := by
  simp only [Param.ok, Bool.and_eq_true, beq_iff_eq, decide_eq_true_eq] at h
  obtain ⟨⟨⟨h1, h2⟩, _⟩, _⟩ := h
  unfold Parser.Param.render Param.partsSlice
  rw [if_pos (by omega)]
  cases hp : q.parts with
  | nil => rw [hp] at h1; simp [Gen.maxParamLen] at h1
  | cons a t => simp only [List.take_succ_cons]; exact ⟨_, rfl⟩

theorem dump_ok {p : Parser} (h : PInv p = true) : ∃ s, p.dump = some s := by
  simp only [PInv, Bool.and_eq_true, beq_iff_eq, decide_eq_true_eq, List.all_eq_true] at h
  obtain ⟨⟨⟨h1, h2⟩, h3⟩, _⟩ := h
  have hr : ∃ s, renderParams p = some s := by
    unfold renderParams activeParams
    rw [if_pos (by omega)]
    simp only []
    obtain ⟨rs, hrs⟩ := List.mapM_option_ok Parser.Param.render (p.params.take (p.curParam + 1))
      fun q hq => Param.render_ok (h3 q (List.mem_of_mem_take hq))
    rw [hrs]; exact ⟨_, rfl⟩
  obtain ⟨rs, hrs⟩ := hr
  unfold dump
  cases p.state <;> simp only [hrs] <;> exact ⟨_, rfl⟩

end Parser

theorem Vt.dump_ok {v : Vt} (h : Inv v = true) : ∃ s, v.dump = some s := by
  simp only [Inv, Bool.and_eq_true] at h
  obtain ⟨s1, h1⟩ := Terminal.dump_ok (TOK.of_TInv h.2)
  obtain ⟨s2, h2⟩ := Parser.dump_ok h.1
  exact ⟨s1 ++ s2, by simp [Vt.dump, h1, h2]⟩

end Avt
