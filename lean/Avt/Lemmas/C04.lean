/-
  Avt.Lemmas.C04 — helper lemmas for property C04 (buffer level): the checked primitives of the
  model under their preconditions, `onRow`, and the region scroll caused by a wrap on the bottom
  margin (model code = closed formula `scrollRegionUp1`).
-/
import Avt.Spec.C04

namespace Avt.C04L
open Avt Avt.Spec Avt.Spec.C04

/-! ### checked primitives under their preconditions -/

theorem csub_eq (a b : Nat) (h : b ≤ a) : csub a b = some (a - b) := by
  simp only [csub, h, if_true]

theorem modAtM_some {α} (v : List α) (r : Nat) (f : α → Option α) (l y : α)
    (h1 : v[r]? = some l) (h2 : f l = some y) : modAtM v r f = some (v.set r y) := by
  simp only [modAtM, h1, h2]

theorem rotLRange_eq {α} (l : List α) (a b n : Nat) (h1 : a ≤ b) (h2 : b ≤ l.length) (h3 : n ≤ b - a) :
    rotLRange l a b n
      = some (l.take a ++ (((l.take b).drop a).drop n ++ ((l.take b).drop a).take n) ++ l.drop b) := by
  simp only [rotLRange, h1, h2, h3, and_self, if_true]

theorem rotRRange_eq {α} (l : List α) (a b n : Nat) (h1 : a ≤ b) (h2 : b ≤ l.length) (h3 : n ≤ b - a) :
    rotRRange l a b n
      = some (l.take a ++ (((l.take b).drop a).drop (b - a - n) ++ ((l.take b).drop a).take (b - a - n))
                ++ l.drop b) := by
  simp only [rotRRange, h1, h2, h3, and_self, if_true]

theorem fillRange_eq {α} (l : List α) (a b : Nat) (x : α) (h1 : a ≤ b) (h2 : b ≤ l.length) :
    fillRange l a b x = some (l.take a ++ List.replicate (b - a) x ++ l.drop b) := by
  simp only [fillRange, h1, h2, and_self, if_true]

theorem setAt_eq {α} (l : List α) (i : Nat) (x : α) (h : i < l.length) : setAt l i x = some (l.set i x) := by
  simp only [setAt, h, if_true]

/-! ### `onRow` -/

theorem onRow_of_get (v : List Line) (r : Nat) (f : Line → Line) (l : Line) (h : v[r]? = some l) :
    onRow v r f = v.set r (f l) := by
  simp only [onRow, h]

theorem onRow_of_lt (v : List Line) (r : Nat) (f : Line → Line) (h : r < v.length) :
    onRow v r f = v.set r (f v[r]) := onRow_of_get v r f _ (List.getElem?_eq_getElem h)

theorem onRow_of_ge (v : List Line) (r : Nat) (f : Line → Line) (h : v.length ≤ r) :
    onRow v r f = v := by
  simp only [onRow, List.getElem?_eq_none h]

@[simp] theorem onRow_length (v : List Line) (r : Nat) (f : Line → Line) :
    (onRow v r f).length = v.length := by
  unfold onRow; split <;> simp

theorem getElem?_onRow (v : List Line) (r i : Nat) (f : Line → Line) :
    (onRow v r f)[i]? = if i = r then v[i]?.map f else v[i]? := by
  by_cases h : r < v.length
  · rw [onRow_of_lt v r f h, List.getElem?_set]
    by_cases hi : r = i
    · subst hi; simp [h]
    · have : ¬ i = r := fun e => hi e.symm
      simp [hi, this]
  · rw [onRow_of_ge v r f (by omega)]
    by_cases hi : i = r
    · subst hi; simp [List.getElem?_eq_none (Nat.le_of_not_lt h)]
    · simp [hi]

@[simp] theorem onRow_nil (r : Nat) (f : Line → Line) : onRow [] r f = [] := rfl

theorem mark_clear_mark (l : Line) : markWrapped (clearWrapped (markWrapped l)) = markWrapped l := rfl

theorem blank_eq (c : Nat) (p : Pen) : Line.blank c p = blankRow c p := rfl

/-! ### buffer operations on one row -/

theorem updRow_some (b : Buffer) (r : Nat) (f : Line → Option Line) (g : Line → Line) (l : Line)
    (h1 : b.view[r]? = some l) (h2 : f l = some (g l)) : b.updRow r f = some (bufOnRow b r g) := by
  unfold Buffer.updRow
  rw [modAtM_some b.view r f l (g l) h1 h2]
  simp only [Option.map_some, bufOnRow, onRow_of_get _ _ _ _ h1]

theorem updRow_pure (b : Buffer) (r : Nat) (f : Line → Line) (h : r < b.view.length) :
    b.updRow r (fun l => some (f l)) = some (bufOnRow b r f) :=
  updRow_some b r _ f _ (List.getElem?_eq_getElem h) rfl

theorem wrap_eq (b : Buffer) (r : Nat) (h : r < b.view.length) :
    b.wrap r = some (bufOnRow b r markWrapped) := updRow_pure b r markWrapped h

theorem unwrapRow_eq (b : Buffer) (r : Nat) (h : r < b.view.length) :
    b.unwrapRow r = some (bufOnRow b r clearWrapped) := updRow_pure b r clearWrapped h

theorem clear_eq (b : Buffer) (a c : Nat) (pen : Pen) (h1 : a ≤ c) (h2 : c ≤ b.view.length) :
    b.clear a c pen
      = some { b with view := b.view.take a ++ List.replicate (c - a) (blankRow b.cols pen) ++ b.view.drop c } := by
  simp only [Buffer.clear, fillRange_eq _ _ _ _ h1 h2, Option.map_some, blank_eq]

/-- `Buffer::print` at an existing cell -/
theorem print_eq (b : Buffer) (c r : Nat) (cell : Cell) (l : Line)
    (h1 : b.view[r]? = some l) (h2 : c < l.cells.length) :
    b.print c r cell = some (bufOnRow b r (putCell c cell)) := by
  apply updRow_some b r _ (putCell c cell) l h1
  simp only [Line.print, setAt_eq _ _ _ h2, Option.map_some, putCell]

/-- the cells of a row after `Line::insert(col, 1, cell)` -/
theorem insert_cells (cs : List Cell) (c : Nat) (cell : Cell) (h : c < cs.length) :
    let r := cs.take c ++ (((cs.take cs.length).drop c).drop (cs.length - c - 1)
                ++ ((cs.take cs.length).drop c).take (cs.length - c - 1)) ++ cs.drop cs.length
    r.take c ++ List.replicate (c + 1 - c) cell ++ r.drop (c + 1)
      = cs.take c ++ [cell] ++ (cs.drop c).dropLast := by
  intro r
  apply List.ext_getElem?
  intro i
  simp only [r, List.dropLast_eq_take, List.getElem?_append, List.getElem?_take, List.getElem?_drop,
    List.length_append, List.length_take, List.length_drop, List.length_replicate, List.getElem?_replicate,
    List.length_cons, List.length_nil, List.getElem?_cons, List.getElem?_nil]
  grind

/-- `Buffer::insert` of one cell left of the last column -/
theorem insert_eq (b : Buffer) (c r : Nat) (cell : Cell) (l : Line)
    (h1 : b.view[r]? = some l) (h2 : l.cells.length = b.cols) (h3 : c < b.cols) :
    b.insert c r 1 cell = some (bufOnRow b r (insertCell c cell)) := by
  unfold Buffer.insert
  rw [csub_eq b.cols c (by omega)]
  simp only []
  apply updRow_some b r _ (insertCell c cell) l h1
  have hm : min 1 (b.cols - c) = 1 := by omega
  unfold Line.insert
  rw [hm, rotRRange_eq _ _ _ _ (by omega) (Nat.le_refl _) (by omega)]
  simp only []
  rw [fillRange_eq _ _ _ _ (by omega)
        (by simp only [List.length_append, List.length_take, List.length_drop]; omega)]
  simp only [Option.map_some, insertCell]
  have := insert_cells l.cells c cell (by omega)
  simp only [] at this
  rw [this]

/-! ### the scroll caused by a wrap on the bottom margin -/

/-- the simp set that turns `l[i]?` of take/drop/append/replicate/onRow combinations into `if`s -/
macro "list_ix" : tactic =>
  `(tactic| simp only [getElem?_onRow, List.getElem?_append, List.getElem?_take, List.getElem?_drop,
    List.length_append, List.length_take, List.length_drop, onRow_length, List.length_replicate,
    List.getElem?_replicate, List.length_cons, List.length_nil, List.getElem?_cons, List.getElem?_nil])

/-- region `s..=e1` not starting at row 0 and ending on the last row: rotate + clear -/
theorem scroll_S3 (b : Buffer) (s e1 : Nat) (pen : Pen)
    (hv : b.view.length = b.rows) (hs : 0 < s) (hse : s < e1) (he : e1 + 1 = b.rows) :
    b.scrollUp s (e1 + 1) 1 pen = some (scrollRegionUp1 b s e1 pen) := by
  have h5 : min 1 (e1 + 1 - s) = 1 := by omega
  have h6 : ¬ (e1 < b.rows - 1) := by omega
  unfold Buffer.scrollUp
  rw [csub_eq (e1 + 1) s (by omega), csub_eq (e1 + 1) 1 (by omega), csub_eq b.rows 1 (by omega)]
  simp only [h5, Nat.add_sub_cancel, if_neg h6, if_neg (Nat.ne_of_gt hs)]
  rw [csub_eq s 1 (by omega)]
  simp only []
  rw [unwrapRow_eq b (s-1) (by omega)]
  simp only []
  rw [rotLRange_eq _ _ _ _ (by omega) (by simp only [bufOnRow, onRow_length]; omega) (by omega)]
  simp only []
  rw [clear_eq _ _ _ _ (by omega) (by simp [bufOnRow]; omega)]
  simp only [scrollRegionUp1, if_neg (Nat.ne_of_gt hs), List.append_nil, bufOnRow]
  congr 2
  apply List.ext_getElem?
  intro i
  list_ix
  grind

/-- region not starting at row 0 and ending above the last row: the scroll cuts the mark of row
    `e1`, the re-mark after the scroll restores it on row `e1 - 1` -/
theorem scroll_S4 (b0 : Buffer) (s e1 : Nat) (pen : Pen)
    (hv : b0.view.length = b0.rows) (hs : 0 < s) (hse : s < e1) (he : e1 + 1 < b0.rows) :
    ∃ b', (bufOnRow b0 e1 markWrapped).scrollUp s (e1 + 1) 1 pen = some b'
      ∧ b'.wrap (e1 - 1) = some (scrollRegionUp1 (bufOnRow b0 e1 markWrapped) s e1 pen) := by
  have h5 : min 1 (e1 + 1 - s) = 1 := by omega
  have h6 : e1 < (bufOnRow b0 e1 markWrapped).rows - 1 := by simp only [bufOnRow]; omega
  unfold Buffer.scrollUp
  rw [csub_eq (e1 + 1) s (by omega), csub_eq (e1 + 1) 1 (by omega),
    csub_eq (bufOnRow b0 e1 markWrapped).rows 1 (by simp only [bufOnRow]; omega)]
  simp only [h5, Nat.add_sub_cancel, if_pos h6, if_neg (Nat.ne_of_gt hs)]
  rw [unwrapRow_eq _ e1 (by simp only [bufOnRow, onRow_length]; omega)]
  simp only []
  rw [csub_eq s 1 (by omega)]
  simp only []
  rw [unwrapRow_eq _ (s-1) (by simp only [bufOnRow, onRow_length]; omega)]
  simp only []
  rw [rotLRange_eq _ _ _ _ (by omega) (by simp only [bufOnRow, onRow_length]; omega) (by omega)]
  simp only []
  rw [clear_eq _ _ _ _ (by omega) (by simp [bufOnRow]; omega)]
  refine ⟨_, rfl, ?_⟩
  rw [wrap_eq _ _ (by simp [bufOnRow]; omega)]
  simp only [scrollRegionUp1, if_neg (Nat.ne_of_gt hs), List.append_nil, bufOnRow]
  congr 2
  apply List.ext_getElem?
  intro i
  list_ix
  grind [mark_clear_mark]

/-- region starting at row 0 and ending on the last row: the buffer is extended at the end, the
    view boundary moves down by one -/
theorem scroll_S1 (b : Buffer) (e1 : Nat) (pen : Pen)
    (hv : b.view.length = b.rows) (he : e1 + 1 = b.rows) :
    b.scrollUp 0 (e1 + 1) 1 pen = some (scrollRegionUp1 b 0 e1 pen) := by
  have h5 : min 1 (e1 + 1) = 1 := by omega
  have h6 : ¬ (e1 < b.rows - 1) := by omega
  unfold Buffer.scrollUp
  rw [csub_eq (e1 + 1) 0 (by omega), csub_eq (e1 + 1) 1 (by omega), csub_eq b.rows 1 (by omega)]
  simp only [Nat.sub_zero, h5, Nat.add_sub_cancel, if_neg h6, if_true, if_pos he]
  simp only [scrollRegionUp1, if_true, blank_eq]
  congr 2
  · congr 1
    apply List.ext_getElem?
    intro i
    list_ix
    grind
  · apply List.ext_getElem?
    intro i
    simp only [List.take_zero, onRow_nil, List.nil_append]
    list_ix
    grind

/-- region starting at row 0 and ending above the last row: a blank row is inserted below the
    region, the view boundary moves down by one; the mark of row `e1` is cut and restored -/
theorem scroll_S2 (b0 : Buffer) (e1 : Nat) (pen : Pen)
    (hv : b0.view.length = b0.rows) (h0 : 0 < e1) (he : e1 + 1 < b0.rows) :
    ∃ b', (bufOnRow b0 e1 markWrapped).scrollUp 0 (e1 + 1) 1 pen = some b'
      ∧ b'.wrap (e1 - 1) = some (scrollRegionUp1 (bufOnRow b0 e1 markWrapped) 0 e1 pen) := by
  have h5 : min 1 (e1 + 1) = 1 := by omega
  have h6 : e1 < (bufOnRow b0 e1 markWrapped).rows - 1 := by simp only [bufOnRow]; omega
  unfold Buffer.scrollUp
  rw [csub_eq (e1 + 1) 0 (by omega), csub_eq (e1 + 1) 1 (by omega),
    csub_eq (bufOnRow b0 e1 markWrapped).rows 1 (by simp only [bufOnRow]; omega)]
  simp only [Nat.sub_zero, h5, Nat.add_sub_cancel, if_pos h6, if_true]
  rw [unwrapRow_eq _ e1 (by simp only [bufOnRow, onRow_length]; omega)]
  have h7 : ¬ (e1 + 1 = (bufOnRow (bufOnRow b0 e1 markWrapped) e1 clearWrapped).rows) := by
    simp only [bufOnRow]; omega
  have h8 : e1 + 1 ≤ (bufOnRow (bufOnRow b0 e1 markWrapped) e1 clearWrapped).rows
      ∧ e1 + 1 ≤ (bufOnRow (bufOnRow b0 e1 markWrapped) e1 clearWrapped).view.length := by
    simp only [bufOnRow, onRow_length]; omega
  simp only [if_neg h7, if_pos h8]
  refine ⟨_, rfl, ?_⟩
  rw [wrap_eq _ _ (by simp [bufOnRow]; omega)]
  simp only [scrollRegionUp1, if_true, bufOnRow, blank_eq]
  congr 2
  · congr 1
    apply List.ext_getElem?
    intro i
    list_ix
    grind
  · apply List.ext_getElem?
    intro i
    simp only [List.take_zero, onRow_nil, List.nil_append]
    list_ix
    grind [mark_clear_mark]

/-- **the wrap on the bottom margin, buffer level**: mark row `e1`, scroll the region `s..=e1` up
    by one, re-mark row `e1 - 1` when the region ends above the last row — together this is the
    closed formula `scrollRegionUp1` applied to the marked buffer. -/
theorem scrollWrap (b0 : Buffer) (s e1 : Nat) (pen : Pen)
    (hv : b0.view.length = b0.rows) (hs : s ≤ e1) (he : e1 < b0.rows)
    (hm : s < e1 ∨ (s = 0 ∧ e1 + 1 = b0.rows)) :
    ∃ b', (bufOnRow b0 e1 markWrapped).scrollUp s (e1 + 1) 1 pen = some b'
      ∧ (if e1 < b0.rows - 1 then b'.wrap (e1 - 1) else some b')
          = some (scrollRegionUp1 (bufOnRow b0 e1 markWrapped) s e1 pen) := by
  have hv' : (bufOnRow b0 e1 markWrapped).view.length = (bufOnRow b0 e1 markWrapped).rows := by
    simp only [bufOnRow, onRow_length]; exact hv
  by_cases hlast : e1 + 1 = b0.rows
  · have hn : ¬ (e1 < b0.rows - 1) := by omega
    simp only [if_neg hn]
    by_cases h0 : s = 0
    · subst h0
      exact ⟨_, scroll_S1 _ e1 pen hv' hlast, rfl⟩
    · exact ⟨_, scroll_S3 _ s e1 pen hv' (by omega) (by omega) hlast, rfl⟩
  · have hn : e1 < b0.rows - 1 := by omega
    simp only [if_pos hn]
    by_cases h0 : s = 0
    · subst h0
      exact scroll_S2 b0 e1 pen hv (by omega) (by omega)
    · exact scroll_S4 b0 s e1 pen hv (by omega) (by omega) (by omega)

end Avt.C04L
