/-
  Avt.Lemmas.FrameBuffer — the frame lemma at the level of `Buffer`.

  `BRel s p x y`: the two buffers have the same view and geometry, and `x` holds `p` more (older)
  scrollback lines than `y`: `x.sb = p ++ y.sb`.  `trimNeeded` is unconstrained; `limit` is equal only
  in the strict variant (`s = true`).  No buffer operation other than `resize`/`gc` reads anything
  above the view, so every operation maps related buffers to related buffers with the SAME prefix,
  and fails on one side exactly when it fails on the other.
-/
import Avt.Model.Vt
import Avt.Spec.Inv

namespace Avt.Frame
open Avt

structure BRel (s : Bool) (p : List Line) (x y : Buffer) : Prop where
  sb : x.sb = p ++ y.sb
  view : x.view = y.view
  cols : x.cols = y.cols
  rows : x.rows = y.rows
  limit : s = true → x.limit = y.limit

/-- what every operation other than `resize` keeps of a buffer -/
structure Keep (x x' : Buffer) : Prop where
  vlen : x'.view.length = x.view.length
  cols : x'.cols = x.cols
  rows : x'.rows = x.rows
  limit : x'.limit = x.limit

theorem Keep.refl (x : Buffer) : Keep x x := ⟨rfl, rfl, rfl, rfl⟩

theorem Keep.trans {x y z : Buffer} (h1 : Keep x y) (h2 : Keep y z) : Keep x z :=
  ⟨h2.vlen.trans h1.vlen, h2.cols.trans h1.cols, h2.rows.trans h1.rows, h2.limit.trans h1.limit⟩

/-- related results of an operation that may panic: both panic, or both succeed, are related, and
    the result keeps the shape of `x0` -/
def BRelO (s : Bool) (p : List Line) (x0 : Buffer) : Option Buffer → Option Buffer → Prop
  | some x, some y => BRel s p x y ∧ Keep x0 x
  | none, none => True
  | _, _ => False

/-- close a `BRel` goal between two record updates of related buffers -/
macro "brel " h:term : tactic =>
  `(tactic| exact ⟨by simp [($h).sb], by simp [($h).view], by simp [($h).cols], by simp [($h).rows],
                   fun hs => by simp [($h).limit hs]⟩)

theorem BRel.refl (s : Bool) (x : Buffer) : BRel s [] x x :=
  ⟨rfl, rfl, rfl, rfl, fun _ => rfl⟩

theorem BRelO.elim {s p x0} {ox oy : Option Buffer} (h : BRelO s p x0 ox oy) :
    (ox = none ∧ oy = none) ∨ ∃ x y, ox = some x ∧ oy = some y ∧ BRel s p x y ∧ Keep x0 x := by
  cases ox <;> cases oy <;> simp_all [BRelO]

theorem BRelO.trans {s p x0 x1} {ox oy : Option Buffer} (hk : Keep x0 x1) (h : BRelO s p x1 ox oy) :
    BRelO s p x0 ox oy := by
  cases ox <;> cases oy <;> simp_all [BRelO]
  exact hk.trans h.2

theorem BRelO.refl' {s p x y} (h : BRel s p x y) : BRelO s p x (some x) (some y) := ⟨h, Keep.refl x⟩

/-! ### lengths kept by the checked primitives -/

theorem modAtM_length {α} {l l' : List α} {i : Nat} {f : α → Option α} (h : modAtM l i f = some l') :
    l'.length = l.length := by
  unfold modAtM at h
  split at h
  · split at h
    · cases h; simp
    · cases h
  · cases h

theorem fillRange_length {α} {l l' : List α} {a b : Nat} {x : α} (h : fillRange l a b x = some l') :
    l'.length = l.length := by
  unfold fillRange at h
  split at h
  · cases h; simp; omega
  · cases h

theorem rotLRange_length {α} {l l' : List α} {a b n : Nat} (h : rotLRange l a b n = some l') :
    l'.length = l.length := by
  unfold rotLRange at h
  split at h
  · cases h; simp; omega
  · cases h

theorem rotRRange_length {α} {l l' : List α} {a b n : Nat} (h : rotRRange l a b n = some l') :
    l'.length = l.length := by
  unfold rotRRange at h
  split at h
  · cases h; simp; omega
  · cases h

/-! ### the row-level operations -/

theorem updRow_rel {s p x y} (h : BRel s p x y) (row : Nat) (f : Line → Option Line) :
    BRelO s p x (x.updRow row f) (y.updRow row f) := by
  unfold Buffer.updRow
  cases hm : modAtM x.view row f with
  | none => rw [← h.view, hm]; trivial
  | some v =>
    rw [← h.view, hm]
    exact ⟨by brel h, ⟨modAtM_length hm, rfl, rfl, rfl⟩⟩

theorem print_rel {s p x y} (h : BRel s p x y) (col row : Nat) (cell : Cell) :
    BRelO s p x (x.print col row cell) (y.print col row cell) := updRow_rel h _ _

theorem wrap_rel {s p x y} (h : BRel s p x y) (row : Nat) : BRelO s p x (x.wrap row) (y.wrap row) :=
  updRow_rel h _ _

theorem unwrapRow_rel {s p x y} (h : BRel s p x y) (row : Nat) :
    BRelO s p x (x.unwrapRow row) (y.unwrapRow row) := updRow_rel h _ _

theorem insert_rel {s p x y} (h : BRel s p x y) (col row n : Nat) (cell : Cell) :
    BRelO s p x (x.insert col row n cell) (y.insert col row n cell) := by
  unfold Buffer.insert
  rw [← h.cols]
  cases csub x.cols col with
  | none => trivial
  | some room => exact updRow_rel h _ _

theorem delete_rel {s p x y} (h : BRel s p x y) (col row n : Nat) (pen : Pen) :
    BRelO s p x (x.delete col row n pen) (y.delete col row n pen) := by
  unfold Buffer.delete
  rw [← h.cols]
  cases csub x.cols col with
  | none => trivial
  | some room => exact updRow_rel h _ _

theorem clear_rel {s p x y} (h : BRel s p x y) (a c : Nat) (pen : Pen) :
    BRelO s p x (x.clear a c pen) (y.clear a c pen) := by
  unfold Buffer.clear
  rw [← h.view, ← h.cols]
  cases hf : fillRange x.view a c (Line.blank x.cols pen) with
  | none => trivial
  | some v => exact ⟨by brel h, ⟨fillRange_length hf, rfl, rfl, rfl⟩⟩

theorem erase_rel {s p x y} (h : BRel s p x y) (col row : Nat) (mode : Buffer.EraseMode) (pen : Pen) :
    BRelO s p x (x.erase col row mode pen) (y.erase col row mode pen) := by
  cases mode with
  | nextChars n =>
    simp only [Buffer.erase]
    rw [← h.cols]
    cases csub x.cols col with
    | none => trivial
    | some room => exact updRow_rel h _ _
  | fromCursorToEndOfView =>
    simp only [Buffer.erase]
    rw [← h.cols]
    rcases (updRow_rel h row fun l => ({ l with wrapped := false } : Line).clear col x.cols pen).elim with
      ⟨hx, hy⟩ | ⟨x', y', hx, hy, h', hk⟩
    · simp only [hx, hy]; trivial
    · simp only [hx, hy]; rw [← h'.rows]; exact (clear_rel h' _ _ _).trans hk
  | fromStartOfViewToCursor =>
    simp only [Buffer.erase]
    rw [← h.cols]
    rcases (updRow_rel h row fun l => l.clear 0 (min (col + 1) x.cols) pen).elim with
      ⟨hx, hy⟩ | ⟨x', y', hx, hy, h', hk⟩
    · simp only [hx, hy]; trivial
    · simp only [hx, hy]; exact (clear_rel h' _ _ _).trans hk
  | wholeView =>
    simp only [Buffer.erase]
    rw [← h.rows]; exact clear_rel h _ _ _
  | fromCursorToEndOfLine =>
    simp only [Buffer.erase]
    rw [← h.cols]; exact updRow_rel h _ _
  | fromStartOfLineToCursor =>
    simp only [Buffer.erase]
    rw [← h.cols]; exact updRow_rel h _ _
  | wholeLine =>
    simp only [Buffer.erase]
    rw [← h.cols]; exact updRow_rel h _ _

/-! ### scrolling -/

theorem scrollDown_rel {s p x y} (h : BRel s p x y) (a e n : Nat) (pen : Pen) :
    BRelO s p x (x.scrollDown a e n pen) (y.scrollDown a e n pen) := by
  unfold Buffer.scrollDown
  cases csub e a with
  | none => trivial
  | some hh =>
    simp only []
    rw [← h.view]
    cases hr : rotRRange x.view a e (min n hh) with
    | none => trivial
    | some v =>
      simp only []
      have h1 : BRel s p { x with view := v } { y with view := v } := by brel h
      have k1 : Keep x { x with view := v } := ⟨rotRRange_length hr, rfl, rfl, rfl⟩
      rcases (clear_rel h1 a (a + min n hh) pen).elim with ⟨hx, hy⟩ | ⟨x1, y1, hx, hy, h2, k2⟩
      · simp only [hx, hy]; trivial
      · simp only [hx, hy]
        have h3 : BRelO s p x1 (if a > 0 then x1.unwrapRow (a - 1) else some x1)
            (if a > 0 then y1.unwrapRow (a - 1) else some y1) := by
          split
          · exact unwrapRow_rel h2 _
          · exact BRelO.refl' h2
        rcases h3.elim with ⟨hx, hy⟩ | ⟨x2, y2, hx, hy, h4, k4⟩
        · simp only [hx, hy]; trivial
        · simp only [hx, hy]
          cases csub e 1 with
          | none => trivial
          | some e1 => exact (unwrapRow_rel h4 _).trans ((k1.trans k2).trans k4)

theorem scrollUp_rel {s p x y} (h : BRel s p x y) (a e n : Nat) (pen : Pen) :
    BRelO s p x (x.scrollUp a e n pen) (y.scrollUp a e n pen) := by
  unfold Buffer.scrollUp
  rw [← h.rows]
  cases csub e a with
  | none => trivial
  | some hh =>
    cases csub e 1 with
    | none => trivial
    | some e1 =>
      cases csub x.rows 1 with
      | none => trivial
      | some r1 =>
        simp only []
        have h1 : BRelO s p x (if e1 < r1 then x.unwrapRow e1 else some x)
            (if e1 < r1 then y.unwrapRow e1 else some y) := by
          split
          · exact unwrapRow_rel h _
          · exact BRelO.refl' h
        rcases h1.elim with ⟨hx, hy⟩ | ⟨x1, y1, hx, hy, h2, k2⟩
        · simp only [hx, hy]; trivial
        · simp only [hx, hy]
          by_cases ha : a = 0
          · simp only [ha, if_true]
            rw [← h2.rows, ← h2.view, ← h2.cols]
            by_cases he : e = x1.rows
            · simp only [he, if_true]
              exact ⟨by brel h2, k2.trans ⟨by simp, rfl, rfl, rfl⟩⟩
            · simp only [he, if_false]
              split
              · refine ⟨by brel h2, k2.trans ⟨?_, rfl, rfl, rfl⟩⟩
                simp; omega
              · trivial
          · simp only [ha, if_false]
            cases csub a 1 with
            | none => trivial
            | some s1 =>
              simp only []
              rcases (unwrapRow_rel h2 s1).elim with ⟨hx, hy⟩ | ⟨x2, y2, hx, hy, h3, k3⟩
              · simp only [hx, hy]; trivial
              · simp only [hx, hy]
                rw [← h3.view]
                cases hr : rotLRange x2.view a e (min n hh) with
                | none => trivial
                | some v =>
                  simp only []
                  have h4 : BRel s p { x2 with view := v } { y2 with view := v } := by brel h3
                  have k4 : Keep x2 { x2 with view := v } := ⟨rotLRange_length hr, rfl, rfl, rfl⟩
                  rcases (clear_rel h4 (e - min n hh) e pen).elim with
                    ⟨hx, hy⟩ | ⟨x3, y3, hx, hy, h5, k5⟩
                  · simp only [hx, hy]; trivial
                  · simp only [hx, hy]
                    exact ⟨by brel h5, ((k2.trans k3).trans k4).trans (k5.trans ⟨rfl, rfl, rfl, rfl⟩)⟩

/-! ### gc: drops exactly a prefix of the scrollback, leaves everything else -/

/-- number of lines the next `gc` removes -/
def gcCount (b : Buffer) : Nat :=
  if b.trimNeeded then
    match b.limit with
    | some lim => if b.sb.length > lim.hard then b.sb.length - lim.soft else 0
    | none => 0
  else 0

theorem gc_spec (b : Buffer) :
    b.gc = ({ b with sb := b.sb.drop (gcCount b), trimNeeded := false }, b.sb.take (gcCount b)) := by
  unfold Buffer.gc gcCount
  cases b with
  | mk sb view cols rows limit tn =>
    cases tn <;> cases limit <;> simp
    split <;> simp

theorem gc_sb (b : Buffer) : (b.gc).1.sb = b.sb.drop (gcCount b) ∧ (b.gc).2 = b.sb.take (gcCount b) := by
  rw [gc_spec]; exact ⟨rfl, rfl⟩

theorem gc_view (b : Buffer) : (b.gc).1.view = b.view ∧ (b.gc).1.cols = b.cols ∧ (b.gc).1.rows = b.rows
    ∧ (b.gc).1.limit = b.limit ∧ (b.gc).1.trimNeeded = false := by
  rw [gc_spec]; exact ⟨rfl, rfl, rfl, rfl, rfl⟩

/-- nothing is lost: what `gc` hands out followed by what it keeps is what was there -/
theorem gc_partition (b : Buffer) : (b.gc).2 ++ (b.gc).1.sb = b.sb := by
  rw [gc_spec]; exact List.take_append_drop _ _

theorem gc_lines (b : Buffer) : (b.gc).2 ++ (b.gc).1.lines = b.lines := by
  unfold Buffer.lines
  rw [← List.append_assoc, gc_partition, (gc_view b).1]

theorem gc_unlimited (b : Buffer) (h : b.limit = none) : (b.gc).2 = [] ∧ (b.gc).1.sb = b.sb := by
  rw [gc_spec]
  have : gcCount b = 0 := by unfold gcCount; rw [h]; simp
  simp [this]

/-- `gc` on the smaller side of a related pair: the prefix grows by what was handed out -/
theorem gc_keep (b : Buffer) : Keep b (b.gc).1 := by
  have hv := gc_view b
  exact ⟨by rw [hv.1], hv.2.1, hv.2.2.1, hv.2.2.2.1⟩

theorem gc_rel_right {s p x y} (h : BRel s p x y) : BRel s (p ++ (y.gc).2) x (y.gc).1 := by
  have hv := gc_view y
  exact { sb := by rw [List.append_assoc, gc_partition]; exact h.sb
          view := by rw [hv.1]; exact h.view
          cols := by rw [hv.2.1]; exact h.cols
          rows := by rw [hv.2.2.1]; exact h.rows
          limit := fun hs => by rw [hv.2.2.2.1]; exact h.limit hs }

/-! ### `Buffer.resize` at an unchanged geometry is the identity on the lines -/

theorem resize_same (b : Buffer) (cur : Nat × Nat) (hv : b.view.length = b.rows) :
    b.resize b.cols b.rows cur = some ({ b with trimNeeded := true }, cur) := by
  unfold Buffer.resize
  have hl : b.lines.length = b.sb.length + b.rows := by simp [Buffer.lines, hv]
  have h1 : csub b.lines.length b.rows = some b.sb.length := by
    unfold csub; rw [hl]; simp
  simp only [Buffer.logicalPosition, h1, ne_eq, not_true_eq_false, if_false, Nat.lt_irrefl]
  have ht : (b.lines).take b.sb.length = b.sb := by simp [Buffer.lines]
  have hd : (b.lines).drop b.sb.length = b.view := by simp [Buffer.lines]
  simp [ht, hd]

/-- `resize` does not read `limit` or `trimNeeded` -/
theorem resize_congr {s x y} (h : BRel s [] x y) (c r : Nat) (cur : Nat × Nat) :
    match x.resize c r cur, y.resize c r cur with
    | some (x', cx), some (y', cy) => BRel s [] x' y' ∧ cx = cy
    | none, none => True
    | _, _ => False := by
  have hl : x.lines = y.lines := by simp [Buffer.lines, h.sb, h.view]
  unfold Buffer.resize
  rw [hl, h.cols, h.rows]
  simp only []
  cases Buffer.logicalPosition y.lines cur y.cols y.rows with
  | none => trivial
  | some lp =>
    simp only []
    generalize (if c ≠ y.cols then _ else _ : Option (List Line × (Nat × Nat) × Nat)) = st1
    cases st1 with
    | none => trivial
    | some t1 =>
      obtain ⟨ls, cu, orows⟩ := t1
      simp only []
      generalize (if r < orows then _ else _ : Option (List Line × (Nat × Nat))) = st2
      cases st2 with
      | none => trivial
      | some t2 =>
        obtain ⟨ls2, cu2⟩ := t2
        simp only []
        cases csub ls2.length r with
        | none => trivial
        | some k =>
          exact ⟨{ sb := rfl, view := rfl, cols := rfl, rows := rfl, limit := h.limit }, rfl⟩

/-- what `resize` guarantees about the shape of its result, straight from its last step -/
theorem resize_shape {x x' : Buffer} {c r : Nat} {cur cur' : Nat × Nat}
    (h : x.resize c r cur = some (x', cur')) :
    x'.cols = c ∧ x'.rows = r ∧ x'.view.length = r ∧ x'.limit = x.limit := by
  unfold Buffer.resize at h
  simp only [] at h
  cases hl : Buffer.logicalPosition x.lines cur x.cols x.rows with
  | none => simp [hl] at h
  | some lp =>
    simp only [hl] at h
    generalize (if c ≠ x.cols then _ else _ : Option (List Line × (Nat × Nat) × Nat)) = st1 at h
    cases st1 with
    | none => simp at h
    | some t1 =>
      obtain ⟨ls, cu, orows⟩ := t1
      simp only [] at h
      generalize (if r < orows then _ else _ : Option (List Line × (Nat × Nat))) = st2 at h
      cases st2 with
      | none => simp at h
      | some t2 =>
        obtain ⟨ls2, cu2⟩ := t2
        simp only [] at h
        cases hk : csub ls2.length r with
        | none => simp [hk] at h
        | some k =>
          simp only [hk, Option.some.injEq, Prod.mk.injEq] at h
          obtain ⟨rfl, _⟩ := h
          unfold csub at hk
          split at hk
          · cases hk; simp; omega
          · cases hk

/-- the two ways `resize` is reached inside a feed: at an unchanged geometry (identity on the
    lines), or on a buffer that is the same on both sides -/
theorem resize_rel {s p x y} (h : BRel s p x y) (c r : Nat) (cur : Nat × Nat)
    (hc : (x.cols = c ∧ x.rows = r ∧ x.view.length = x.rows) ∨ p = []) :
    match x.resize c r cur, y.resize c r cur with
    | some (x', cx), some (y', cy) =>
        BRel s p x' y' ∧ cx = cy ∧ x'.cols = c ∧ x'.rows = r ∧ x'.view.length = r ∧ x'.limit = x.limit
    | none, none => True
    | _, _ => False := by
  rcases hc with ⟨hcc, hcr, hv⟩ | hp
  · subst hcc; subst hcr
    have hy : y.resize y.cols y.rows cur = some ({ y with trimNeeded := true }, cur) :=
      resize_same y cur (by rw [← h.view, ← h.rows]; exact hv)
    rw [resize_same x cur hv, ← h.cols, ← h.rows] at *
    rw [hy]
    exact ⟨by brel h, rfl, rfl, rfl, hv, rfl⟩
  · subst hp
    have hcg := resize_congr h c r cur
    cases hx : x.resize c r cur with
    | none => cases hy : y.resize c r cur <;> simp_all
    | some rx =>
      obtain ⟨x', cx⟩ := rx
      cases hy : y.resize c r cur with
      | none => simp_all
      | some ry =>
        obtain ⟨y', cy⟩ := ry
        rw [hx, hy] at hcg
        have hs := resize_shape hx
        exact ⟨hcg.1, hcg.2, hs⟩

end Avt.Frame
