/-
  Avt.Lemmas.C11Buffer3 — `Buffer.dump`, assembled: induction over the rows.

  * `dumpCutoff_spec`: below the cut-off every row is blank and unmarked, and so is the mark of the row
    just above it;
  * `feeds_crlf`: CR LF after an unwrapped row (never on the last row): next row, column 0, no mark;
  * `feeds_dumpLines`: the invariant `Between` over the rows;
  * `buffer_dump`: **feeding `Buffer.dump b` to a blank screen in the replay modes reproduces the view
    of `b` — cells, pens, wrap marks — and touches nothing but view, cursor position, pending wrap,
    pen and dirty flags.**
-/
import Avt.Lemmas.C11Buffer2

namespace Avt
namespace Lemmas.C11
open Avt.Spec.C11 Avt.Spec.C04 Avt.C04L

/-! ### the cut-off -/

theorem dumpCutoff_spec : ∀ (ls : List Line) (i : Nat) (w : Bool) (c : Nat), c ≤ i →
    c ≤ Buffer.dumpCutoff ls i w c ∧ Buffer.dumpCutoff ls i w c ≤ i + ls.length
      ∧ ∀ (j : Nat) (l : Line), ls[j]? = some l → Buffer.dumpCutoff ls i w c ≤ i + j →
          l.isBlank = true ∧ l.wrapped = false
            ∧ (if j = 0 then w = false else ∀ l', ls[j - 1]? = some l' → l'.wrapped = false)
  | [], i, w, c, h => by
    simp only [Buffer.dumpCutoff, List.length_nil, Nat.add_zero]
    exact ⟨Nat.le_refl _, h, fun j l hl => by simp at hl⟩
  | l :: ls, i, w, c, h => by
    simp only [Buffer.dumpCutoff]
    have hc' : (if (w || l.wrapped || !l.isBlank) = true then i + 1 else c) ≤ i + 1 := by split <;> omega
    obtain ⟨a1, a2, a3⟩ := dumpCutoff_spec ls (i + 1) l.wrapped _ hc'
    refine ⟨?_, by simp only [List.length_cons]; omega, ?_⟩
    · have : c ≤ (if (w || l.wrapped || !l.isBlank) = true then i + 1 else c) := by split <;> omega
      omega
    · intro j l0 hl0 hr
      cases j with
      | zero =>
        simp only [List.getElem?_cons_zero, Option.some.injEq] at hl0
        subst hl0
        have hne : ¬ ((w || l.wrapped || !l.isBlank) = true) := by
          intro hcon
          simp only [if_pos hcon] at a1 hr
          omega
        simp only [Bool.or_eq_true, Bool.not_eq_true', not_or, Bool.not_eq_true, Bool.not_eq_false] at hne
        simp only [if_true]
        exact ⟨hne.2, hne.1.2, hne.1.1⟩
      | succ j =>
        simp only [List.getElem?_cons_succ] at hl0
        obtain ⟨b1, b2, b3⟩ := a3 j l0 hl0 (by omega)
        refine ⟨b1, b2, ?_⟩
        simp only [Nat.add_one_ne_zero, if_false, Nat.add_sub_cancel]
        intro l' hl'
        cases j with
        | zero =>
          simp only [List.getElem?_cons_zero, Option.some.injEq] at hl'
          subst hl'
          simpa using b3
        | succ j =>
          simp only [List.getElem?_cons_succ] at hl'
          simp only [Nat.add_one_ne_zero, if_false, Nat.add_sub_cancel] at b3
          exact b3 l' hl'

/-! ### blank rows -/

theorem pen_default_of_isDefault (p : Pen) (hp : PenOK p) (h : p.isDefault = true) : p = {} := by
  obtain ⟨fg, bg, int, attrs⟩ := p
  simp only [Pen.isDefault, Bool.and_eq_true, Option.isNone_iff_eq_none, beq_iff_eq, Bool.not_eq_true'] at h
  obtain ⟨⟨⟨⟨⟨⟨⟨h1, h2⟩, h3⟩, h4⟩, h5⟩, h6⟩, h7⟩, h8⟩ := h
  have ha := attrs_rebuild attrs hp.1
  simp only [Pen.isItalic, Pen.isUnderline, Pen.isStrikethrough, Pen.isBlink, Pen.isInverse] at h4 h5 h6 h7 h8
  simp only [h4, h5, h6, h7, h8, Bool.false_eq_true, if_false] at ha
  subst h1 h2 h3
  rw [← ha]
  rfl

theorem blank_of_isBlank (l : Line) (cols : Nat) (hl : l.cells.length = cols) (hok : ∀ c ∈ l.cells, CellOK c)
    (hb : l.isBlank = true) (hw : l.wrapped = false) : l = Line.blank cols Pen.default := by
  obtain ⟨cells, w⟩ := l
  simp only at hl hw hok
  subst hw
  simp only [Line.blank, Line.mk.injEq, and_true]
  apply List.eq_replicate_iff.2
  refine ⟨hl, ?_⟩
  intro c hc
  have hd : c.isDefault = true := by
    simp only [Line.isBlank, List.all_eq_true] at hb
    exact hb c hc
  simp only [Cell.isDefault, Bool.and_eq_true, beq_iff_eq] at hd
  obtain ⟨ch, pen⟩ := c
  simp only at hd
  have := pen_default_of_isDefault pen (hok _ hc).2 hd.2
  rw [hd.1, this]
  rfl

/-! ### CR LF -/

theorem feeds_crlf {V : List Line} {cols rows i : Nat} {l : Line} {t : Terminal} (g : Geo V cols rows t)
    (hi : i + 1 < rows) (h : InRow V cols rows i l cols t) :
    ∃ t', Feeds [0x0d, 0x0a] t t' ∧ t'.buffer.view = t.buffer.view ∧ t'.cursor.col = 0
      ∧ t'.cursor.row = i + 1 ∧ t'.pen = t.pen ∧ E t' = E t ∧ Geo V cols rows t' := by
  have p := Pre_of_TInv t g.inv
  let t' : Terminal := { t with cursor := { t.cursor with col := 0, row := i + 1 }, pendingWrap := false }
  have hrows : csub t.rows 1 = some (t.rows - 1) := csub_eq _ _ p.rows_pos
  have hcols : csub t.cols 1 = some (t.cols - 1) := csub_eq _ _ p.cols_pos
  have hbm : t.bottomMargin = rows - 1 := by have := g.mode.bottom; rw [g.trows] at this; omega
  have hex : Terminal.foldM' Terminal.execute [.cr, .lf] t = some t' := by
    have hne : ¬ (i = t.bottomMargin) := by rw [hbm]; omega
    have hlt : i < t.rows - 1 := by rw [g.trows]; omega
    simp only [Terminal.foldM', Terminal.execute, Terminal.lf, Terminal.moveCursorDownWithScroll,
      Terminal.doMoveCursorToCol, Terminal.doMoveCursorToRow, hne, if_false, hrows, hlt, if_true, hcols,
      Option.map_some, Nat.zero_min, h.row]
    split <;> rfl
  have hinv : TInv t' = true :=
    TInv_upd t g.inv t.buffer ⟨0, i + 1, t.cursor.visible⟩ false t.dirtyLines p.binv p.bcols p.brows rfl
      (by show i + 1 < t.rows; rw [g.trows]; exact hi)
      (Or.inr ⟨rfl, by show 0 < t.cols; exact p.cols_pos⟩) p.dlen
  refine ⟨t', Feeds.of_emits (Emits.append emits_cr emits_lf) hex, rfl, rfl, rfl, rfl, rfl, ?_⟩
  exact ⟨g.vlen, g.clen, g.tcols, g.trows, hinv, ⟨g.mode.top, g.mode.bottom, g.mode.autoWrap, g.mode.replace, g.mode.charset⟩⟩

/-! ### between two rows -/

/-- the state after `i` rows of the target have been replayed -/
def Between (V : List Line) (cols rows i : Nat) (t : Terminal) : Prop :=
  (i < rows ∧ t.buffer.view = V.take i ++ List.replicate (rows - i) (Line.blank cols Pen.default)
      ∧ t.cursor.col = 0 ∧ t.cursor.row = i)
  ∨ ∃ j lj, i = j + 1 ∧ V[j]? = some lj ∧ InRow V cols rows j lj cols t ∧ (lj.wrapped = true ∨ i = rows)

theorem Between.ready {V : List Line} {cols rows i : Nat} {l : Line} {t : Terminal} (hi : i < rows)
    (h : Between V cols rows i t) : Ready V cols rows i l t := by
  rcases h with ⟨_, hv, hc, hr⟩ | ⟨j, lj, rfl, hlj, hin, hw⟩
  · left
    refine ⟨?_, hc, hr⟩
    rw [hv, partialRow_zero]
    obtain ⟨m, hm⟩ : ∃ m, rows - i = m + 1 := ⟨rows - i - 1, by omega⟩
    rw [hm, Nat.add_sub_cancel, List.replicate_succ]
  · right
    rcases hw with hw | hw
    · exact ⟨j, lj, rfl, hlj, hw, hin⟩
    · omega

theorem take_succ_of_get {V : List Line} {i : Nat} {l : Line} (h : V[i]? = some l) :
    V.take (i + 1) = V.take i ++ [l] := by
  rw [List.take_add_one, h]; rfl

/-- the rows below the cut-off are blank, so a completed replay shows the target -/
theorem Between.final {V : List Line} {cols rows cutoff : Nat} {t : Terminal}
    (hV : V.length = rows) (hcl : ∀ l ∈ V, l.cells.length = cols)
    (hok : ∀ l ∈ V, ∀ c ∈ l.cells, CellOK c) (hlu : lastUnwrapped V = true)
    (hcut : cutoff = Buffer.dumpCutoff V 0 false 0) (h : Between V cols rows cutoff t) :
    t.buffer.view = V := by
  obtain ⟨_, c2, c3⟩ := dumpCutoff_spec V 0 false 0 (Nat.le_refl _)
  rw [← hcut] at c2 c3
  simp only [Nat.zero_add] at c2 c3
  -- rows from the cut-off on are blank
  have hblank : ∀ j l, V[j]? = some l → cutoff ≤ j → l = Line.blank cols Pen.default := by
    intro j l hl hj
    obtain ⟨b1, b2, _⟩ := c3 j l hl hj
    exact blank_of_isBlank l cols (hcl l (List.mem_of_getElem? hl)) (hok l (List.mem_of_getElem? hl)) b1 b2
  have htail : ∀ k, k ≤ rows → cutoff ≤ k → V = V.take k ++ List.replicate (rows - k) (Line.blank cols Pen.default) := by
    intro k hk hck
    apply List.ext_getElem?
    intro j
    simp only [List.getElem?_append, List.length_take, List.getElem?_take, List.getElem?_replicate, hV]
    have hmin : min k rows = k := by omega
    rw [hmin]
    by_cases hjk : j < k
    · simp [hjk]
    · simp only [hjk, if_false]
      by_cases hjr : j < rows
      · have hj : j < V.length := by omega
        rw [List.getElem?_eq_getElem hj, if_pos (by omega)]
        exact congrArg some (hblank j _ (List.getElem?_eq_getElem hj) (by omega))
      · rw [List.getElem?_eq_none (by omega), if_neg (by omega)]
  rcases h with ⟨hi, hv, _, _⟩ | ⟨j, lj, rfl, hlj, hin, hw⟩
  · rw [hv]; exact (htail cutoff (by omega) (Nat.le_refl _)).symm
  · have hjr : j < rows := by
      have := List.getElem?_eq_some_iff.1 hlj
      obtain ⟨hlt, _⟩ := this
      omega
    have hunw : lj.wrapped = false := by
      by_cases he : j + 1 = rows
      · -- the last row of the view is never marked
        have := (lastUnwrapped_iff V).1 hlu
        cases hwr : lj.wrapped with
        | false => rfl
        | true =>
          exfalso
          have hl := (lastUnwrapped_iff V).1 hlu
          have hlast : V[V.length - 1]? = some lj := by rw [hV, ← he]; simpa using hlj
          have := hl lj hlast
          rw [hwr] at this; cases this
      · have hj1 : j + 1 < V.length := by omega
        obtain ⟨_, _, b3⟩ := c3 (j + 1) V[j + 1] (List.getElem?_eq_getElem hj1) (Nat.le_refl _)
        simp only [Nat.add_one_ne_zero, if_false, Nat.add_sub_cancel] at b3
        exact b3 lj hlj
    rw [hin.view, partialRow_full lj cols (hcl lj (List.mem_of_getElem? hlj))]
    have e : (⟨lj.cells, false⟩ : Line) = lj := by cases lj; simp only at hunw; subst hunw; rfl
    rw [e]
    have := htail (j + 1) (by omega) (Nat.le_refl _)
    rw [take_succ_of_get hlj] at this
    have e2 : rows - j - 1 = rows - (j + 1) := by omega
    rw [e2]
    conv => rhs; rw [this]
    simp

/-! ### all rows -/

theorem feeds_dumpLines {V : List Line} {cols rows cutoff : Nat} (hcut : cutoff ≤ rows)
    (hok : ∀ l ∈ V, ∀ c ∈ l.cells, CellOK c) (hcols : cols ≤ 65536) :
    ∀ (ls : List Line) (i : Nat) (pen : Pen) (t : Terminal), (V.take cutoff).drop i = ls → i ≤ cutoff →
      Geo V cols rows t → Between V cols rows i t → t.pen = pen →
      ∃ s t', Buffer.dumpLines (rows - 1) ls i pen = some s ∧ Feeds s t t' ∧ Geo V cols rows t'
        ∧ Between V cols rows cutoff t' ∧ E t' = E t
  | [], i, pen, t, hls, hi, g, hb, _ => by
    have hlen : (V.take cutoff).length = cutoff := by simp [g.vlen]; omega
    have : cutoff ≤ i := by
      have := List.drop_eq_nil_iff.1 hls
      omega
    have e : i = cutoff := by omega
    subst e
    exact ⟨[], t, rfl, Feeds.nil t, g, hb, rfl⟩
  | l :: ls', i, pen, t, hls, hi, g, hb, hpen => by
    -- row `i` of the target is `l`
    have h0 : ((V.take cutoff).drop i)[0]? = some l := by rw [hls]; rfl
    rw [List.getElem?_drop, List.getElem?_take] at h0
    have hic : i < cutoff := by
      by_cases h : i + 0 < cutoff
      · omega
      · rw [if_neg h] at h0; cases h0
    have hl : V[i]? = some l := by simpa [hic] using h0
    have hir : i < rows := by omega
    have hlV : l ∈ V := List.mem_of_getElem? hl
    have hcl : l.cells.length = cols := g.clen l hlV
    have htail : (V.take cutoff).drop (i + 1) = ls' := by
      rw [← List.tail_drop, hls]; rfl
    -- the text of the row
    obtain ⟨s, pen', hs, f1, hp1⟩ := feeds_row l pen t (hok l hlV) (by omega) g.inv g.mode hpen
    obtain ⟨r1, r2, r3⟩ := typeCells_row hir hl g (hb.ready (l := l) hir)
    by_cases hnl : i < rows - 1 ∧ l.wrapped = false
    · -- CR LF
      obtain ⟨t2, f2, v2, c2, w2, p2, e2, g2⟩ := feeds_crlf r3 (by omega) r1
      have hb2 : Between V cols rows (i + 1) t2 := by
        left
        refine ⟨by omega, ?_, c2, w2⟩
        rw [v2, r1.view, partialRow_full l cols hcl, take_succ_of_get hl]
        have e : (⟨l.cells, false⟩ : Line) = l := by
          obtain ⟨cells, w⟩ := l
          simp only at hnl
          rw [hnl.2]
        have e3 : rows - i - 1 = rows - (i + 1) := by omega
        rw [e, e3]
        simp
      obtain ⟨s3, t3, hs3, f3, g3, b3, e3⟩ := feeds_dumpLines hcut hok hcols ls' (i + 1) pen' t2 htail (by omega) g2 hb2
        (by rw [p2, hp1])
      refine ⟨s ++ [0x0d, 0x0a] ++ s3, t3, ?_, Feeds.append (Feeds.append f1 f2) f3, g3, b3, by rw [e3, e2, r2]⟩
      simp only [Buffer.dumpLines, hs, hs3, Option.map_some, hnl.1, hnl.2, decide_true, Bool.not_false, Bool.and_self, if_true]
    · have hb2 : Between V cols rows (i + 1) (typeCells l.cells t) := by
        right
        refine ⟨i, l, rfl, hl, r1, ?_⟩
        cases hw : l.wrapped with
        | true => exact Or.inl rfl
        | false =>
          right
          have : ¬ (i < rows - 1) := fun h => hnl ⟨h, hw⟩
          omega
      obtain ⟨s3, t3, hs3, f3, g3, b3, e3⟩ := feeds_dumpLines hcut hok hcols ls' (i + 1) pen' _ htail (by omega) r3 hb2 hp1
      refine ⟨s ++ [] ++ s3, t3, ?_, Feeds.append (Feeds.cast f1 (by simp)) f3, g3, b3, by rw [e3, r2]⟩
      have hcond : (decide (i < rows - 1) && !l.wrapped) = false := by
        cases hw : l.wrapped with
        | true => simp
        | false =>
          have : ¬ (i < rows - 1) := fun h => hnl ⟨h, hw⟩
          simp [this]
      simp only [Buffer.dumpLines, hs, hs3, Option.map_some, hcond, Bool.false_eq_true, if_false]

/-- **`Buffer.dump` round trip.**  `b` any buffer satisfying the buffer invariant whose cells hold
    characters the parser prints and pens `Pen::dump` can write; `t0` any terminal of the same size in
    the replay modes (full-screen margins, auto-wrap, replace mode, ASCII) showing a blank screen, with
    the cursor home and the default pen.  Feeding `Buffer.dump b` reproduces the view of `b` exactly —
    cells, pens, wrap marks — and changes nothing but view, cursor position, pending wrap, pen and dirty
    flags (`E`).  No bound on the size other than the 16-bit REP count (`cols ≤ 65536`). -/
theorem buffer_dump (b : Buffer) (t0 : Terminal) (hb : BInv b = true) (hc : b.cols = t0.cols)
    (hr : b.rows = t0.rows) (hok : ∀ l ∈ b.view, ∀ c ∈ l.cells, CellOK c) (hcols : t0.cols ≤ 65536)
    (h0 : TInv t0 = true) (hm : DMode t0)
    (hblank : t0.buffer.view = List.replicate t0.rows (Line.blank t0.cols Pen.default))
    (hcur : t0.cursor.col = 0 ∧ t0.cursor.row = 0) (hpen : t0.pen = Pen.default) :
    ∃ d t1, b.dump = some d ∧ Feeds d t0 t1 ∧ t1.buffer.view = b.view ∧ E t1 = E t0
      ∧ TInv t1 = true ∧ DMode t1 := by
  have hB := (Avt.C04L.BInv_iff b).1 hb
  have b2 := hB.2.1
  have b3 := hB.2.2.1
  have b4 := hB.2.2.2.1
  have b6 := hB.2.2.2.2.2.1
  have hclen : ∀ l ∈ b.view, l.cells.length = t0.cols := by
    intro l hl
    obtain ⟨i, hi, rfl⟩ := List.mem_iff_getElem.1 hl
    rw [← hc]
    exact b4 i _ (List.getElem?_eq_getElem hi)
  have g : Geo b.view t0.cols t0.rows t0 := ⟨by rw [b3, hr], hclen, rfl, rfl, h0, hm⟩
  obtain ⟨_, c2, _⟩ := dumpCutoff_spec b.view 0 false 0 (Nat.le_refl _)
  have hcut : Buffer.dumpCutoff b.view 0 false 0 ≤ t0.rows := by
    rw [← hr, ← b3]; simpa using c2
  have hrows : 1 ≤ t0.rows := by rw [← hr]; exact b2
  have hbt : Between b.view t0.cols t0.rows 0 t0 := by
    left
    exact ⟨by omega, by simpa using hblank, hcur.1, hcur.2⟩
  obtain ⟨s, t1, hs, f, g1, bt, e⟩ := feeds_dumpLines hcut hok hcols _ 0 Pen.default t0 rfl (Nat.zero_le _) g hbt hpen
  have hlu : lastUnwrapped b.view = true := (lastUnwrapped_iff b.view).2 b6
  refine ⟨s, t1, ?_, f, Between.final g.vlen hclen hok hlu rfl bt, e, g1.inv, g1.mode⟩
  unfold Buffer.dump
  simp only [hr, csub_eq t0.rows 1 hrows]
  simpa using hs

end Lemmas.C11
end Avt
