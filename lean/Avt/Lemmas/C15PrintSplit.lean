/-
  Avt.Lemmas.C15PrintSplit — `Terminal.print` cut into its three stages (deferred wrap, put, mark),
  so that step lemmas can be proved stage by stage.  Shared by the C15 and C16 proofs.
-/
import Avt.Model.Vt

namespace Avt
namespace Terminal

/-- stage 1 of `print`: the deferred auto-wrap (possibly scrolling the region) -/
def c15Wrap (t : Terminal) : Option Terminal :=
  if t.autoWrapMode && t.pendingWrap then
    let t := t.doMoveCursorToCol 0
    if t.cursor.row = t.bottomMargin then
      match t.buffer.wrap t.cursor.row with
      | none => none
      | some b =>
        match ({ t with buffer := b } : Terminal).scrollUpInRegion 1 with
        | none => none
        | some t =>
          match csub t.rows 1 with
          | none => none
          | some r1 =>
            if t.bottomMargin < r1 then
              match csub t.bottomMargin 1 with
              | none => none
              | some bm1 => (t.buffer.wrap bm1).map fun b => { t with buffer := b }
            else some t
    else
      match csub t.rows 1 with
      | none => none
      | some r1 =>
        if t.cursor.row < r1 then
          match t.buffer.wrap t.cursor.row with
          | none => none
          | some b => ({ t with buffer := b } : Terminal).doMoveCursorToRow (t.cursor.row + 1)
        else some t
  else some t

/-- stage 2 of `print`: put the cell and advance the cursor -/
def c15Put (t : Terminal) (cell : Cell) : Option Terminal :=
  let nextCol := t.cursor.col + 1
  if nextCol ≥ t.cols then
    match csub t.cols 1 with
    | none => none
    | some c1 =>
      match t.buffer.print c1 t.cursor.row cell with
      | none => none
      | some b =>
        let t := { t with buffer := b }
        if t.autoWrapMode then some { t.doMoveCursorToCol t.cols with pendingWrap := true }
        else some t
  else
    let b := if t.insertMode then t.buffer.insert t.cursor.col t.cursor.row 1 cell
             else t.buffer.print t.cursor.col t.cursor.row cell
    match b with
    | none => none
    | some b => some (({ t with buffer := b } : Terminal).doMoveCursorToCol nextCol)

theorem c15_print_eq (t : Terminal) (ch : Nat) :
    t.print ch =
      match t.activeCharsetValue with
      | none => none
      | some cs =>
        match cs.translate ch with
        | none => none
        | some ch =>
          match t.c15Wrap with
          | none => none
          | some t1 =>
            match t1.c15Put ⟨ch, t.pen⟩ with
            | none => none
            | some t2 => t2.markDirty t2.cursor.row := by
  unfold Terminal.print Terminal.c15Wrap Terminal.c15Put
  rfl

end Terminal
end Avt
