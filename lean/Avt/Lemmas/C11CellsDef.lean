/-
  Avt.Lemmas.C11CellsDef — the cell / pen invariant of reachable states (definitions).

  `CellsInv t`: every pen the terminal holds (current, both saved contexts) is a pen the SGR decoder can
  produce (`PenOK`: five attribute bits, `u8` colour components), and every cell of BOTH buffers,
  scrollback included, holds a character the resting parser prints (`printableCh`: `0x20..0x7F` or
  `≥ 0xA0` — after charset translation; `E` of DECALN and the blank are among them) and such a pen.
  `FnOK f`: what the parser guarantees about an emitted function (`Print` only for printable
  characters, SGR colours inside `u8`).
-/
import Avt.Lemmas.C11Buffer1
import Avt.Lemmas.C08Cells

namespace Avt
namespace Lemmas.C11
open Avt.Spec.C11 Avt.Spec.C08

/-- every cell of every line satisfies `CellOK` -/
def LinesOK (ls : List Line) : Prop := AllCells CellOK ls

structure CellsInv (t : Terminal) : Prop where
  pen : PenOK t.pen
  sctx : PenOK t.savedCtx.pen
  actx : PenOK t.alternateSavedCtx.pen
  sb : LinesOK t.buffer.sb
  view : LinesOK t.buffer.view
  osb : LinesOK t.otherBuffer.sb
  oview : LinesOK t.otherBuffer.view

def SgrOpOK : SgrOp → Prop
  | .setFg c => ColorOK c
  | .setBg c => ColorOK c
  | _ => True

/-- what `Parser.feed` guarantees about the function it emits -/
def FnOK : Function → Prop
  | .print ch => printableCh ch = true
  | .sgr ops => ∀ op ∈ ops, SgrOpOK op
  | _ => True

theorem penOK_default : PenOK ({} : Pen) :=
  ⟨by decide, (fun c h => by cases h), (fun c h => by cases h)⟩

theorem cellOK_blank {p : Pen} (h : PenOK p) : CellOK (Cell.blank p) := ⟨rfl, h⟩

end Lemmas.C11
end Avt
