/-
  Avt.Lemmas.C08Decode — the register-machine SGR decoder (`Parser.sgrOps`, model of `SgrOps::next`)
  equals the reference decoder over the written parameters.
-/
import Avt.Spec.C08

namespace Avt.Spec.C08
open Avt

theorem sgrRefOps_nil : sgrRefOps [] = [] := by rw [sgrRefOps]

theorem sgrRefOps_single (p : List Nat) (rest : List (List Nat)) (h : introducer p = none) :
    sgrRefOps (p :: rest) = (sgrSingle p).toList ++ sgrRefOps rest := by
  rw [sgrRefOps]; simp only [h]

theorem sgrRefOps_intro (p : List Nat) (rest : List (List Nat)) (mk : Color → SgrOp)
    (h : introducer p = some mk) :
    sgrRefOps (p :: rest)
      = ((extended rest).1.map mk).toList ++ sgrRefOps (rest.drop (extended rest).2) := by
  rw [sgrRefOps]; simp only [h]

/-- a parameter that is not a bare 38/48 is decoded on its own, whatever follows -/
theorem sgrStep_single (p : Param) (rest : List Param) (parts : List Nat)
    (hp : p.partsSlice = some parts) (hi : introducer parts = none) :
    Parser.sgrStep p rest = some (sgrSingle parts, 0) := by
  unfold Parser.sgrStep
  simp only [hp]
  split
  case h_26 n h0 h1 h2 h3 h4 h5 h7 h9 h21 h22 h23 h24 h25 h27 h29 h38 h39 h48 h49 =>
    have e : ∀ k, (n = k → False) → (n == k) = false := fun k h => by simpa using h
    have hl : attrTable.lookup n = none := by
      simp [attrTable, List.lookup, e _ h0, e _ h1, e _ h2, e _ h3, e _ h4, e _ h5, e _ h7, e _ h9, e _ h21,
        e _ h22, e _ h23, e _ h24, e _ h25, e _ h27, e _ h29, e _ h39, e _ h49]
    simp only [sgrSingle, hl, basicColour, Parser.u8]
    split
    · rw [Nat.mod_eq_of_lt (by omega)]
    · split
      · rw [Nat.mod_eq_of_lt (by omega)]
      · split
        · rw [Nat.mod_eq_of_lt (by omega)]
        · split
          · rw [Nat.mod_eq_of_lt (by omega)]
          · rfl
  case h_27 h0 h1 h2 h3 h4 h5 h7 h9 h21 h22 h23 h24 h25 h27 h29 f5 f6 f3 h38 h39 b5 b6 b3 h48 h49 hn =>
    have : sgrSingle parts = none := by
      unfold sgrSingle
      split
      · exact absurd rfl (hn _)
      · rename_i k s i
        by_cases hs : s = 5
        · subst hs
          have h1 : k ≠ 38 := fun h => f3 i (by rw [h])
          have h2 : k ≠ 48 := fun h => b3 i (by rw [h])
          simp [ground, h1, h2]
        · simp [hs]
      · rename_i k s r g b
        by_cases hs : s = 2
        · subst hs
          have h1 : k ≠ 38 := fun h => f5 r g b (by rw [h])
          have h2 : k ≠ 48 := fun h => b5 r g b (by rw [h])
          simp [ground, h1, h2]
        · simp [hs]
      · rename_i k s c r g b
        by_cases hs : s = 2
        · subst hs
          have h1 : k ≠ 38 := fun h => f6 c r g b (by rw [h])
          have h2 : k ≠ 48 := fun h => b6 c r g b (by rw [h])
          simp [ground, h1, h2]
        · simp [hs]
      · rfl
    rw [this]
  all_goals (simp [sgrSingle, attrTable, List.lookup, ground, byte, Parser.u8, introducer] at hi ⊢; done)


/-- written form of one register -/
def sliceOf (q : Param) : List Nat := q.parts.take (q.curPart + 1)

theorem paramsOf_cons (q : Param) (ps : List Param) : paramsOf (q :: ps) = sliceOf q :: paramsOf ps := rfl

theorem ok_slice (q : Param) (h : Param.ok q = true) : q.partsSlice = some (sliceOf q) := by
  simp only [Param.ok, Bool.and_eq_true, beq_iff_eq, decide_eq_true_eq] at h
  obtain ⟨⟨⟨hl, hc⟩, _⟩, _⟩ := h
  simp only [Param.partsSlice, sliceOf]
  rw [if_pos (by omega)]

theorem ok_asU16 (q : Param) (h : Param.ok q = true) : q.asU16 = some (first (sliceOf q)) := by
  simp only [Param.ok, Bool.and_eq_true, beq_iff_eq, decide_eq_true_eq] at h
  obtain ⟨⟨⟨hl, hc⟩, _⟩, _⟩ := h
  obtain ⟨c, parts⟩ := q
  simp only at hl hc
  match parts, hl with
  | a :: tl, _ => simp [Param.asU16, first, sliceOf]

theorem introducer_some (parts : List Nat) (mk : Color → SgrOp) (h : introducer parts = some mk) :
    (parts = [38] ∧ mk = SgrOp.setFg) ∨ (parts = [48] ∧ mk = SgrOp.setBg) := by
  unfold introducer at h
  split at h
  · rename_i k
    unfold ground at h
    split at h
    · subst_vars; left; exact ⟨rfl, (Option.some.inj h).symm⟩
    · split at h
      · subst_vars; right; exact ⟨rfl, (Option.some.inj h).symm⟩
      · cases h
  · cases h

/-- the lookahead of a bare 38/48 in the register machine is `extended` on the written parameters -/
theorem colour_spec (mk : Color → SgrOp) (rest : List Param) :
    (∀ q ∈ rest, Param.ok q = true) →
    (match rest with
      | [] => some (none, 0)
      | q :: _ =>
        match q.partsSlice with
        | none => none
        | some [2] =>
          match rest[3]?, rest[1]?, rest[2]? with
          | some b, some r, some g =>
            match r.asU16, g.asU16, b.asU16 with
            | some r, some g, some b => some (some (mk (.rgb (Parser.u8 r) (Parser.u8 g) (Parser.u8 b))), 4)
            | _, _, _ => none
          | none, _, _ => some (none, 1)
          | _, _, _ => none
        | some [5] =>
          match rest[1]? with
          | some i =>
            match i.asU16 with
            | some i => some (some (mk (.indexed (Parser.u8 i))), 2)
            | none => none
          | none => some (none, 1)
        | some _ => some (none, 0) : Option (Option SgrOp × Nat))
      = some ((extended (paramsOf rest)).1.map mk, (extended (paramsOf rest)).2) := by
  intro hr
  cases rest with
  | nil => simp [paramsOf, extended]
  | cons q rest' =>
    have hq := ok_slice q (hr q (by simp))
    have hr' : ∀ x ∈ rest', Param.ok x = true := fun x hx => hr x (by simp [hx])
    simp only [paramsOf_cons, hq]
    generalize sliceOf q = qs
    by_cases h2 : qs = [2]
    · subst h2
      match rest', hr' with
      | [], _ => simp [paramsOf, extended]
      | [r], _ => simp [paramsOf, extended]
      | [r, g], _ => simp [paramsOf, extended]
      | r :: g :: b :: tl, hr' =>
        have e1 := ok_asU16 r (hr' r (by simp))
        have e2 := ok_asU16 g (hr' g (by simp))
        have e3 := ok_asU16 b (hr' b (by simp))
        simp [paramsOf_cons, extended, e1, e2, e3, byte, Parser.u8]
    · by_cases h5 : qs = [5]
      · subst h5
        match rest', hr' with
        | [], _ => simp [paramsOf, extended]
        | i :: tl, hr' =>
          have e1 := ok_asU16 i (hr' i (by simp))
          simp [paramsOf_cons, extended, e1, byte, Parser.u8]
      · have : extended (qs :: paramsOf rest') = (none, 0) := by
          unfold extended
          split <;> simp_all
        rw [this]
        split <;> simp_all


/-- a bare 38/48 takes the parameters `extended` assigns to it -/
theorem sgrStep_intro (p : Param) (rest : List Param) (parts : List Nat) (mk : Color → SgrOp)
    (hp : p.partsSlice = some parts) (hi : introducer parts = some mk)
    (hr : ∀ q ∈ rest, Param.ok q = true) :
    Parser.sgrStep p rest
      = some ((extended (paramsOf rest)).1.map mk, (extended (paramsOf rest)).2) := by
  rcases introducer_some parts mk hi with ⟨h1, h2⟩ | ⟨h1, h2⟩
  · subst h1; subst h2
    unfold Parser.sgrStep
    simp only [hp]
    exact colour_spec SgrOp.setFg rest hr
  · subst h1; subst h2
    unfold Parser.sgrStep
    simp only [hp]
    exact colour_spec SgrOp.setBg rest hr

theorem sgrGo_spec (ps : List Param) (h : ∀ q ∈ ps, Param.ok q = true) :
    ∀ k, Parser.sgrGo k ps = some (sgrRefOps ((paramsOf ps).drop k)) := by
  induction ps with
  | nil => intro k; cases k <;> simp [Parser.sgrGo, paramsOf, sgrRefOps_nil]
  | cons p rest ih =>
    have hr : ∀ q ∈ rest, Param.ok q = true := fun q hq => h q (by simp [hq])
    have ih := ih hr
    intro k
    cases k with
    | succ k => simp only [Parser.sgrGo, paramsOf_cons, List.drop_succ_cons]; exact ih k
    | zero =>
      have hp := ok_slice p (h p (by simp))
      simp only [paramsOf_cons, List.drop_zero]
      cases hi : introducer (sliceOf p) with
      | none =>
        simp only [Parser.sgrGo, sgrStep_single p rest _ hp hi, ih 0, List.drop_zero,
          sgrRefOps_single _ _ hi]
        cases sgrSingle (sliceOf p) <;> rfl
      | some mk =>
        simp only [Parser.sgrGo, sgrStep_intro p rest _ mk hp hi hr, ih, sgrRefOps_intro _ _ mk hi]
        cases (extended (paramsOf rest)).1 <;> rfl

/-- the register-machine decoder equals the reference decoder on every well-formed register file -/
theorem sgrOps_eq_ref (ps : List Param) (h : ∀ q ∈ ps, Param.ok q = true) :
    Parser.sgrOps ps = some (sgrRefOps (paramsOf ps)) := by
  simpa [Parser.sgrOps] using sgrGo_spec ps h 0

end Avt.Spec.C08
