/-
  Avt.Lemmas.C11Steps6 — `Terminal.dump` replayed end to end, in general: primary or alternate screen
  active, arbitrary saved contexts on both screens, both routes of step 9.
-/
import Avt.Lemmas.C11Steps5

namespace Avt
namespace Lemmas.C11
open Avt.Spec.C11 Avt.Spec.C04 Avt.C04L Avt.Terminal

/-! ### the text of `Terminal.dump` in pieces -/

def tabsText (T : Terminal) : List Nat :=
  if T.tabs ≠ Tabs.new T.cols then
    [csi, 0x35, 0x57] ++ (T.tabs.map fun tb => csi :: renderDec (tb + 1) ++ [0x60, 0x1b, 0x5b, 0x57]).flatten
  else []

/-- steps 7–14, given the text of the wrap-pending re-print `s9` and of the pen `pd` -/
def dumpTail (T : Terminal) (s9 pd : List Nat) : List Nat :=
  (if T.originMode then [csi, 0x3f, 0x36, 0x68] else [])
    ++ ((if T.topMargin > 0 || T.bottomMargin < T.rows - 1
          then csi :: renderDec (T.topMargin + 1) ++ [0x3b] ++ renderDec (T.bottomMargin + 1) ++ [0x72] else [])
    ++ (T.dumpCursor ++ (s9 ++ (pd
    ++ ((if !T.cursor.visible then [csi, 0x3f, 0x32, 0x35, 0x6c] else [])
    ++ ((if T.charsets.1 = .drawing then [0x1b, 0x28, 0x30] else [])
    ++ ((if T.charsets.2 = .drawing then [0x1b, 0x29, 0x30] else [])
    ++ ((if T.activeCharset = 1 then [0x0e] else [])
    ++ ((if T.insertMode then [csi, 0x34, 0x68] else [])
    ++ ((if !T.autoWrapMode then [csi, 0x3f, 0x37, 0x6c] else [])
    ++ ((if T.newLineMode then [csi, 0x32, 0x30, 0x68] else [])
    ++ (if T.cursorKeysMode = .application then [csi, 0x3f, 0x31, 0x68] else []))))))))))))

/-- what `dump()` writes for the wrap-pending re-print -/
def PendSpec (T : Terminal) (s : List Nat) : Prop :=
  (T.cursor.col ≥ T.cols ∧ ∃ line cell pd, T.buffer.view[T.cursor.row]? = some line
      ∧ line.cells[T.cols - 1]? = some cell ∧ cell.pen.dump = some pd ∧ s = pd ++ [cell.ch])
    ∨ (¬ T.cursor.col ≥ T.cols ∧ s = [])

/-- **steps 7–14** from a stage whose active saved context is the dumped one -/
theorem g_tail {T : Terminal} (h : GenOK T) (hf : cursorStepFaithful T = true)
    (hcells : ∀ l ∈ T.buffer.view, ∀ c ∈ l.cells, CellOK c)
    (abt : BufferType) (B O : Buffer) (asc : SavedCtx) (hview : B.view = T.buffer.view)
    (c r : Nat) (pw : Bool) (p : Pen) (d : List Bool)
    (hX : TInv (stageG T abt B O T.savedCtx asc 2 true c r pw p d) = true) :
    ∃ s9 pd d', PendSpec T s9 ∧ T.pen.dump = some pd
      ∧ Feeds (dumpTail T s9 pd) (stageG T abt B O T.savedCtx asc 2 true c r pw p d)
          (stageG T abt B O T.savedCtx asc 17 true T.cursor.col T.cursor.row T.pendingWrap T.pen d') := by
  obtain ⟨c7, r7, pw7, f7⟩ := g_origin h abt B O T.savedCtx asc c r pw p d
  obtain ⟨c8, r8, pw8, f8⟩ := g_margins h abt B O T.savedCtx asc c7 r7 pw7 p d
  have i8 := f8.TInv (f7.TInv hX)
  obtain ⟨aw', p', haw1, haw2, f9⟩ : ∃ aw' p', (T.cursor.col ≥ T.cols → aw' = true)
      ∧ (T.autoWrapMode = true → aw' = true)
      ∧ Feeds T.dumpCursor (stageG T abt B O T.savedCtx asc 8 true c8 r8 pw8 p d)
          (stageG T abt B O T.savedCtx asc 8 aw' (min T.cursor.col (T.cols - 1)) T.cursor.row false p' d) := by
    cases hout : cursorOutsideRegion T with
    | false => exact ⟨true, p, fun _ => rfl, fun _ => rfl, g_cursor_inside h abt B O T.savedCtx asc hout c8 r8 pw8 p d⟩
    | true =>
      refine ⟨T.savedCtx.autoWrapMode, T.savedCtx.pen, ?_, ?_, g_cursor_outside h abt B O asc hout hf c8 r8 pw8 p d i8⟩
      all_goals
        have hm := hf
        simp only [cursorStepFaithful, hout, Bool.not_true, Bool.false_or, Bool.and_eq_true] at hm
        have hm := hm.1
        simp only [step9ModesFaithful, afterCsiU, restoreCursor, Bool.and_eq_true, Bool.or_eq_true,
          Bool.not_eq_true', decide_eq_true_eq] at hm
      · intro hge
        rcases hm.2 with h1 | h1
        · omega
        · exact h1
      · intro hat
        rcases hm.1.2 with h1 | h1
        · rw [hat] at h1; cases h1
        · exact h1
  have i9 := f9.TInv i8
  obtain ⟨s9, p9, d9, hs9, f9b⟩ := g_pending h abt B O T.savedCtx asc aw' haw1 hview hcells p' d i9
  obtain ⟨pd, hpd, f10⟩ := g_pen h abt B O T.savedCtx asc aw' T.cursor.col T.cursor.row T.pendingWrap p9 d9
  have f10b := g_vis h abt B O T.savedCtx asc aw' T.cursor.col T.cursor.row T.pendingWrap T.pen d9
  have f11 := g_g0 h abt B O T.savedCtx asc aw' T.cursor.col T.cursor.row T.pendingWrap T.pen d9
  have f12 := g_g1 h abt B O T.savedCtx asc aw' T.cursor.col T.cursor.row T.pendingWrap T.pen d9
  have f13 := g_so h abt B O T.savedCtx asc aw' T.cursor.col T.cursor.row T.pendingWrap T.pen d9
  have f14 := g_insert h abt B O T.savedCtx asc aw' T.cursor.col T.cursor.row T.pendingWrap T.pen d9
  have f15 := g_autoWrap h abt B O T.savedCtx asc aw' haw2 T.cursor.col T.cursor.row T.pendingWrap T.pen d9
  have f16 := g_newLine h abt B O T.savedCtx asc T.cursor.col T.cursor.row T.pendingWrap T.pen d9
  have f17 := g_cursorKeys h abt B O T.savedCtx asc T.cursor.col T.cursor.row T.pendingWrap T.pen d9
  exact ⟨s9, pd, d9, hs9, hpd,
    f7.append (f8.append (f9.append (f9b.append (f10.append (f10b.append (f11.append (f12.append (f13.append
      (f14.append (f15.append (f16.append f17)))))))))))⟩

/-! ### `Terminal.dump` as a concatenation of the pieces -/

theorem dump_eq_primary {T : Terminal} (hp : T.activeBufferType = .primary) (hr : 1 ≤ T.rows) (hc : 1 ≤ T.cols)
    {prim pctx actx pend s9 : List Nat} (h1 : T.buffer.dump = some prim) (h2 : dumpCtx T.savedCtx = some pctx)
    (h3 : dumpCtx T.alternateSavedCtx = some actx) (h4 : T.pen.dump = some pend) (h5 : PendSpec T s9) :
    T.dump = some (prim ++ (tabsText T ++ (pctx ++ ([0x1b, 0x5b, 0x6d]
      ++ ((if !T.alternateSavedCtx.isDefault then [csi, 0x3f, 0x31, 0x30, 0x34, 0x37, 0x68] else [])
      ++ (actx ++ ((if !T.alternateSavedCtx.isDefault then [csi, 0x3f, 0x31, 0x30, 0x34, 0x37, 0x6c] else [])
      ++ dumpTail T s9 pend))))))) := by
  simp only [Terminal.dump, hp, primaryBuffer, h1, h2, h3, h4, csub1 hr, if_true, reduceCtorEq, if_false,
    tabsText, dumpTail]
  rcases h5 with ⟨hge, line, cell, pd', hl, hcl, hpd', rfl⟩ | ⟨hge, rfl⟩
  · simp [hge, csub1 hc, hl, hcl, hpd']
  · simp [hge]

theorem dump_eq_alternate {T : Terminal} (hp : T.activeBufferType = .alternate) (hr : 1 ≤ T.rows) (hc : 1 ≤ T.cols)
    {prim pctx altd actx pend s9 : List Nat} (h1 : T.otherBuffer.dump = some prim)
    (h2 : dumpCtx T.alternateSavedCtx = some pctx) (h2' : T.buffer.dump = some altd)
    (h3 : dumpCtx T.savedCtx = some actx) (h4 : T.pen.dump = some pend) (h5 : PendSpec T s9) :
    T.dump = some (prim ++ (tabsText T ++ (pctx ++ ([0x1b, 0x5b, 0x6d]
      ++ ([csi, 0x3f, 0x31, 0x30, 0x34, 0x37, 0x68] ++ ([csi, 0x31, 0x3b, 0x31, 0x48] ++ (altd
      ++ (actx ++ dumpTail T s9 pend)))))))) := by
  simp only [Terminal.dump, hp, primaryBuffer, alternateBuffer, h1, h2, h2', h3, h4, csub1 hr, if_true, reduceCtorEq,
    if_false, tabsText, dumpTail, Option.map_some]
  rcases h5 with ⟨hge, line, cell, pd', hl, hcl, hpd', rfl⟩ | ⟨hge, rfl⟩
  · simp [hge, csub1 hc, hl, hcl, hpd']
  · simp [hge]

/-! ### assembly -/

/-- what is assumed of the dumped terminal: the invariant, well-formed cells and pens (both hold in every
    reachable state), the geometry exception KF2, the size bound KF6 — also for the parked saved position
    of the alternate screen, which no resize clamps (KF7) — and the faithfulness of step 9 (KF1 / KF3) -/
structure DumpOK (T : Terminal) : Prop where
  gen : GenOK T
  geo : resizedOnAlt T = false
  cells : ∀ l ∈ T.buffer.view, ∀ c ∈ l.cells, CellOK c
  ocells : T.activeBufferType = .alternate → ∀ l ∈ T.otherBuffer.view, ∀ c ∈ l.cells, CellOK c
  spen : PenOK T.savedCtx.pen
  apen : PenOK T.alternateSavedCtx.pen
  parked : T.activeBufferType = .primary → T.alternateSavedCtx.isDefault = true
    ∨ (T.alternateSavedCtx.cursorCol < 65535 ∧ T.alternateSavedCtx.cursorRow < 65535)
  faithful : cursorStepFaithful T = true

theorem ctx_result (ctx : SavedCtx) (cols rows : Nat) (hp : PenOK ctx.pen) (h1 : ctx.cursorCol < cols)
    (h2 : ctx.cursorRow < rows) : (if ctx.isDefault then ({} : SavedCtx) else clampCtx ctx cols rows) = ctx := by
  by_cases hd : ctx.isDefault = true
  · rw [if_pos hd]; exact (ctx_default_eq ctx hd hp).symm
  · rw [if_neg hd]; exact clampCtx_id ctx cols rows h1 h2

theorem clampCtx_idem (c : SavedCtx) (cols rows : Nat) :
    clampCtx (clampCtx c cols rows) cols rows = clampCtx c cols rows := by
  simp only [clampCtx, SavedCtx.mk.injEq, and_true]
  exact ⟨by omega, by omega⟩

theorem clampCtx_default (cols rows : Nat) : clampCtx {} cols rows = {} := by
  simp [clampCtx]

/-- the buffer the replay builds in step 1 -/
def replayB (cols rows : Nat) (view : List Line) : Buffer :=
  { Buffer.new cols rows none none with view := view }

theorem normB_replayB (b : Buffer) (cols rows : Nat) (hc : b.cols = cols) (hr : b.rows = rows) :
    normB (replayB cols rows b.view) = normB b := by
  obtain ⟨sb, vw, bc, br, lim, tn⟩ := b
  simp only at hc hr
  subst hc hr
  rfl

/-- steps 1–3 and `ESC [ m`: the primary buffer, the tab stops, the primary screen's saved context.
    `P` is the primary buffer, `pc` the primary screen's saved context (which of the terminal's fields they
    are depends on the active screen). -/
theorem g_head {T : Terminal} (h : GenOK T) (P : Buffer) (pc : SavedCtx) (hP : BInv P = true)
    (hPc : P.cols = T.cols) (hPr : P.rows = T.rows) (hcells : ∀ l ∈ P.view, ∀ c ∈ l.cells, CellOK c)
    (hpp : PenOK pc.pen) (hpc : pc.cursorCol < T.cols ∧ pc.cursorRow < T.rows) :
    ∃ d1 s3 c r pw dl, P.dump = some d1 ∧ dumpCtx pc = some s3
      ∧ Feeds (d1 ++ (tabsText T ++ (s3 ++ [0x1b, 0x5b, 0x6d]))) (freshT T.cols T.rows none)
          (stageG T .primary (replayB T.cols T.rows P.view) (Buffer.new T.cols T.rows (some 0) none) pc {} 2 true
            c r pw {} dl) := by
  have ht := TOK.of_TInv h.inv
  have h0 := freshT_TInv T.cols T.rows ht.c1 ht.r1
  obtain ⟨d1, t1, hd1, f1, v1, e1, i1, _⟩ := buffer_dump P (freshT T.cols T.rows none) hP hPc hPr
    hcells (by have := h.cols; show T.cols ≤ 65536; omega) h0 (freshT_DMode _ _ ht.r1) rfl ⟨rfl, rfl⟩ rfl
  have et1 : t1 = stageG T .primary (replayB T.cols T.rows P.view) (Buffer.new T.cols T.rows (some 0) none) {} {} 1 true
      t1.cursor.col t1.cursor.row t1.pendingWrap t1.pen t1.dirtyLines := by
    have := eq_of_E e1
    rw [v1] at this
    exact this
  rw [et1] at f1
  obtain ⟨c2, pw2, f2⟩ := g_tabs h .primary (replayB T.cols T.rows P.view) (Buffer.new T.cols T.rows (some 0) none) {} {}
    t1.cursor.col t1.cursor.row t1.pendingWrap t1.pen t1.dirtyLines
  obtain ⟨s3, c3, r3, pw3, p3, hs3, f3⟩ := g_ctx h .primary (replayB T.cols T.rows P.view)
    (Buffer.new T.cols T.rows (some 0) none) {} {} pc hpp
    (by have := h.cols; have := h.rows; omega) c2 t1.cursor.row pw2 t1.pen t1.dirtyLines
  rw [ctx_result pc T.cols T.rows hpp hpc.1 hpc.2] at f3
  have f3b := g_sgr0 (T := T) .primary (replayB T.cols T.rows P.view) (Buffer.new T.cols T.rows (some 0) none) pc {} 2 true
    c3 r3 pw3 p3 t1.dirtyLines
  exact ⟨d1, s3, c3, r3, pw3, t1.dirtyLines, hd1, hs3, f1.append (f2.append (f3.append f3b))⟩

theorem normB_trim (b : Buffer) : normB (trimmed b) = normB b := rfl

/-- **`Terminal.dump` replayed, PRIMARY screen active**, arbitrary saved contexts on both screens:
    steps 4–6 enter the alternate screen (a blank buffer), configure and save its context there, and
    leave again — the primary buffer and its context come back untouched -/
theorem dump_general_primary (T : Terminal) (h : DumpOK T) (hp : T.activeBufferType = .primary) :
    ∃ d t', T.dump = some d ∧ Feeds d (freshT T.cols T.rows none) t' ∧ normT t' = normT T := by
  have ht := TOK.of_TInv h.gen.inv
  have h0 := freshT_TInv T.cols T.rows ht.c1 ht.r1
  obtain ⟨d1, s3, c3, r3, pw3, dl, hd1, hs3, fh⟩ := g_head h.gen T.buffer T.savedCtx ht.bok.BInv ht.bcols ht.brows
    h.cells h.spen ht.sctx
  have ih := fh.TInv h0
  -- steps 4–6
  obtain ⟨s5, B', O', asc', c6, r6, pw6, p6, d6, hs5, f456, hB', hv', hasc'⟩ :
      ∃ s5 B' O' asc' c6 r6 pw6 p6 d6, dumpCtx T.alternateSavedCtx = some s5
        ∧ Feeds ((if !T.alternateSavedCtx.isDefault then [csi, 0x3f, 0x31, 0x30, 0x34, 0x37, 0x68] else [])
            ++ (s5 ++ (if !T.alternateSavedCtx.isDefault then [csi, 0x3f, 0x31, 0x30, 0x34, 0x37, 0x6c] else [])))
          (stageG T .primary (replayB T.cols T.rows T.buffer.view) (Buffer.new T.cols T.rows (some 0) none)
            T.savedCtx {} 2 true c3 r3 pw3 {} dl)
          (stageG T .primary B' O' T.savedCtx asc' 2 true c6 r6 pw6 p6 d6)
        ∧ normB B' = normB T.buffer ∧ B'.view = T.buffer.view
        ∧ clampCtx asc' T.cols T.rows = clampCtx T.alternateSavedCtx T.cols T.rows := by
    by_cases hdef : T.alternateSavedCtx.isDefault = true
    · have e := ctx_default_eq _ hdef h.apen
      refine ⟨[], replayB T.cols T.rows T.buffer.view, Buffer.new T.cols T.rows (some 0) none, {}, c3, r3, pw3, {}, dl,
        by simp [dumpCtx, hdef], ?_, normB_replayB _ _ _ ht.bcols ht.brows, rfl, by rw [e]⟩
      simp only [hdef, Bool.not_true, Bool.false_eq_true, if_false, List.append_nil]
      exact Feeds.nil _
    · have hpos : T.alternateSavedCtx.cursorCol < 65535 ∧ T.alternateSavedCtx.cursorRow < 65535 := by
        rcases h.parked hp with h1 | h1
        · exact absurd h1 hdef
        · exact h1
      have f4 := feeds_1047h _ ih
      rw [enterAlt_stageG, clampCtx_default] at f4
      obtain ⟨s5, c5, r5, pw5, p5, hs5, f5⟩ := g_ctx h.gen .alternate
        (trimmed (Buffer.new T.cols T.rows (some 0) (some {})))
        (replayB T.cols T.rows T.buffer.view) {} T.savedCtx T.alternateSavedCtx h.apen hpos c3 r3 pw3 {}
        (List.replicate T.rows true)
      rw [if_neg hdef] at f5
      have i5 := f5.TInv (f4.TInv ih)
      have f6 := feeds_1047l _ i5 (by simp [resizedOnAlt, stageG, replayB, Buffer.new, trimmed])
      rw [leaveAlt_stageG, clampCtx_id _ _ _ ht.sctx.1 ht.sctx.2] at f6
      refine ⟨s5, trimmed (replayB T.cols T.rows T.buffer.view), trimmed (Buffer.new T.cols T.rows (some 0) (some {})),
        clampCtx T.alternateSavedCtx T.cols T.rows, c5, r5, pw5, p5, List.replicate T.rows true, hs5, ?_, ?_, rfl,
        clampCtx_idem _ _ _⟩
      · simp only [hdef, Bool.not_false, if_true]
        exact f4.append (f5.append f6)
      · rw [normB_trim]; exact normB_replayB _ _ _ ht.bcols ht.brows
  have i6 := f456.TInv ih
  obtain ⟨s9, pd, d9, hs9, hpd, ft⟩ := g_tail h.gen h.faithful h.cells .primary B' O' asc' hv' c6 r6 pw6 p6 d6 i6
  have fall := fh.append (f456.append ft)
  have ifin := fall.TInv h0
  have hdl : d9.length = T.rows := (TOK.of_TInv ifin).dirty
  refine ⟨_, _, ?_, fall, ?_⟩
  · rw [dump_eq_primary hp ht.r1 ht.c1 hd1 hs3 hs5 hpd hs9]
    simp only [List.append_assoc]
  · have := normT_stageG_final T h.gen.inv B' O' asc' hB' (Or.inl hp) hasc' d9 hdl
    rw [hp] at this
    exact this

/-- the alternate buffer after `?1047h` and the replay of its dump -/
def replayAlt (cols rows : Nat) (view : List Line) : Buffer :=
  { sb := [], view := view, cols := cols, rows := rows, limit := some (Buffer.mkLimit 0), trimNeeded := true }

theorem normB_replayAlt (b : Buffer) (cols rows : Nat) (hc : b.cols = cols) (hr : b.rows = rows) :
    normB (replayAlt cols rows b.view) = normB b := by
  obtain ⟨sb, vw, bc, br, lim, tn⟩ := b
  simp only at hc hr
  subst hc hr
  rfl

theorem feeds_home (t : Terminal) (hc : 1 ≤ t.cols) (hr : 1 ≤ t.rows) (ho : t.originMode = false) :
    Feeds [csi, 0x31, 0x3b, 0x31, 0x48] t { t with cursor := { t.cursor with col := 0, row := 0 }, pendingWrap := false } := by
  have f := feeds_cup t 0 0 hc hr (by omega) (by omega)
  have e : cupSeq (0 + 1) (0 + 1) = [csi, 0x31, 0x3b, 0x31, 0x48] := by decide
  rw [e] at f
  exact f.to (by simp [ho])

/-- **`Terminal.dump` replayed, ALTERNATE screen active** (the parked primary has the terminal's geometry):
    the primary buffer and its context first, then `?1047h` (a blank alternate buffer), `CSI 1;1H`, the
    alternate buffer's own dump, its context; no switch back -/
theorem dump_general_alternate (T : Terminal) (h : DumpOK T) (hp : T.activeBufferType = .alternate) :
    ∃ d t', T.dump = some d ∧ Feeds d (freshT T.cols T.rows none) t' ∧ normT t' = normT T := by
  have ht := TOK.of_TInv h.gen.inv
  have h0 := freshT_TInv T.cols T.rows ht.c1 ht.r1
  have hgeo : T.otherBuffer.cols = T.cols ∧ T.otherBuffer.rows = T.rows := by
    simpa [resizedOnAlt, hp] using h.geo
  have hactx : T.alternateSavedCtx.cursorCol < T.cols ∧ T.alternateSavedCtx.cursorRow < T.rows := by
    rcases ht.actx with h1 | h1
    · rw [hp] at h1; cases h1
    · rw [← hgeo.1, ← hgeo.2]; exact h1
  -- steps 1–3: the parked primary
  obtain ⟨d1, s3, c3, r3, pw3, dl, hd1, hs3, fh⟩ := g_head h.gen T.otherBuffer T.alternateSavedCtx ht.ook.BInv hgeo.1 hgeo.2
    (h.ocells hp) h.apen hactx
  have ih := fh.TInv h0
  -- step 4: enter, home, the alternate buffer
  have f4 := feeds_1047h _ ih
  rw [enterAlt_stageG, clampCtx_default] at f4
  have i4 := f4.TInv ih
  have f4b : Feeds [csi, 0x31, 0x3b, 0x31, 0x48]
      (stageG T .alternate (trimmed (Buffer.new T.cols T.rows (some 0) (some {}))) (replayB T.cols T.rows T.otherBuffer.view)
        {} T.alternateSavedCtx 2 true c3 r3 pw3 {} (List.replicate T.rows true))
      (stageG T .alternate (trimmed (Buffer.new T.cols T.rows (some 0) (some {}))) (replayB T.cols T.rows T.otherBuffer.view)
        {} T.alternateSavedCtx 2 true 0 0 false {} (List.replicate T.rows true)) :=
    (feeds_home (stageG T .alternate (trimmed (Buffer.new T.cols T.rows (some 0) (some {})))
      (replayB T.cols T.rows T.otherBuffer.view) {} T.alternateSavedCtx 2 true c3 r3 pw3 {} (List.replicate T.rows true))
      ht.c1 ht.r1 rfl).to rfl
  have i4b := f4b.TInv i4
  obtain ⟨d4, t4, hd4, f4c, v4, e4, i4c, _⟩ := buffer_dump T.buffer
    (stageG T .alternate (trimmed (Buffer.new T.cols T.rows (some 0) (some {}))) (replayB T.cols T.rows T.otherBuffer.view)
        {} T.alternateSavedCtx 2 true 0 0 false {} (List.replicate T.rows true))
    ht.bok.BInv ht.bcols ht.brows h.cells
    (by have := h.gen.cols; show T.cols ≤ 65536; omega) i4b
    ⟨rfl, by show T.rows - 1 + 1 = T.rows; have := ht.r1; omega, rfl, rfl, ⟨rfl, rfl⟩⟩ rfl ⟨rfl, rfl⟩ rfl
  have et4 : t4 = stageG T .alternate (replayAlt T.cols T.rows T.buffer.view)
      (replayB T.cols T.rows T.otherBuffer.view) {} T.alternateSavedCtx 2 true
      t4.cursor.col t4.cursor.row t4.pendingWrap t4.pen t4.dirtyLines := by
    have := eq_of_E e4
    rw [v4] at this
    exact this
  rw [et4] at f4c i4c
  -- step 5: the alternate screen's own context
  obtain ⟨s5, c5, r5, pw5, p5, hs5, f5⟩ := g_ctx h.gen .alternate
    (replayAlt T.cols T.rows T.buffer.view)
    (replayB T.cols T.rows T.otherBuffer.view) {} T.alternateSavedCtx T.savedCtx h.spen
    (by have := h.gen.cols; have := h.gen.rows; have := ht.sctx; omega)
    t4.cursor.col t4.cursor.row t4.pendingWrap t4.pen t4.dirtyLines
  rw [ctx_result T.savedCtx T.cols T.rows h.spen ht.sctx.1 ht.sctx.2] at f5
  have i5 := f5.TInv i4c
  obtain ⟨s9, pd, d9, hs9, hpd, ft⟩ := g_tail h.gen h.faithful h.cells .alternate
    (replayAlt T.cols T.rows T.buffer.view) (replayB T.cols T.rows T.otherBuffer.view) T.alternateSavedCtx rfl
    c5 r5 pw5 p5 t4.dirtyLines i5
  have fall := fh.append (f4.append (f4b.append (f4c.append (f5.append ft))))
  have ifin := fall.TInv h0
  have hdl : d9.length = T.rows := (TOK.of_TInv ifin).dirty
  refine ⟨_, _, ?_, fall, ?_⟩
  · rw [dump_eq_alternate hp ht.r1 ht.c1 hd1 hs3 hd4 hs5 hpd hs9]
    simp only [List.append_assoc]
  · have := normT_stageG_final T h.gen.inv (replayAlt T.cols T.rows T.buffer.view)
      (replayB T.cols T.rows T.otherBuffer.view) T.alternateSavedCtx (normB_replayAlt _ _ _ ht.bcols ht.brows)
      (Or.inr (normB_replayB _ _ _ hgeo.1 hgeo.2)) rfl d9 hdl
    rw [hp] at this
    exact this

/-- **`Terminal.dump` replayed — every case** -/
theorem dump_general (T : Terminal) (h : DumpOK T) :
    ∃ d t', T.dump = some d ∧ Feeds d (freshT T.cols T.rows none) t' ∧ normT t' = normT T := by
  cases hp : T.activeBufferType with
  | primary => exact dump_general_primary T h hp
  | alternate => exact dump_general_alternate T h hp

end Lemmas.C11
end Avt
