/-
  Avt.Lemmas.C10Cursor — `cursorLogical` (Spec/C10.lean, read off the row structure) agrees with the
  model of `Buffer::logical_position`.
-/
import Avt.Lemmas.C10Terminal

namespace Avt.Lemmas
open Avt Avt.Spec.C10

/-- number of cells in the run of wrapped rows at the end of `ls` -/
def runLen (ls : List Line) : Nat := ((ls.reverse.takeWhile (fun l => l.wrapped)).map Line.len).sum

theorem takeWhile_eq_self_iff {α} (p : α → Bool) (l : List α) :
    (l.takeWhile p).length = l.length ↔ l.all p = true := by
  induction l with
  | nil => simp
  | cons x t ih =>
    rw [List.takeWhile_cons]
    cases hx : p x with
    | true => simp [hx, ih]
    | false => simp [hx]

theorem takeWhile_eq_self_of_all {α} (p : α → Bool) : ∀ (l : List α), l.all p = true → l.takeWhile p = l
  | [], _ => rfl
  | x :: t, h => by
    simp only [List.all_cons, Bool.and_eq_true] at h
    rw [List.takeWhile_cons, h.1]; simp [takeWhile_eq_self_of_all p t h.2]

theorem sum_map_reverse (f : Line → Nat) : ∀ (l : List Line), (l.reverse.map f).sum = (l.map f).sum
  | [] => rfl
  | x :: t => by
    rw [List.reverse_cons, List.map_append, List.sum_append, sum_map_reverse f t]
    simp; omega

theorem runLen_cons (l : Line) (t : List Line) :
    runLen (l :: t) = if t.all (fun l => l.wrapped) = true
      then runLen t + (if l.wrapped then l.len else 0) else runLen t := by
  unfold runLen
  rw [List.reverse_cons, List.takeWhile_append]
  have hall : (t.reverse.all fun l => l.wrapped) = t.all fun l => l.wrapped := by simp
  by_cases h : t.all (fun l => l.wrapped) = true
  · have hself := takeWhile_eq_self_of_all (fun l : Line => l.wrapped) t.reverse (by rw [hall]; exact h)
    rw [hself]
    simp only [if_true, h]
    cases hw : l.wrapped with
    | true => simp [List.takeWhile_cons, hw, List.sum_append]
    | false => simp [List.takeWhile_cons, hw]
  · have : ¬ (List.takeWhile (fun l => l.wrapped) t.reverse).length = t.reverse.length := by
      intro hc; exact h (by rw [← hall]; exact (takeWhile_eq_self_iff _ _).1 hc)
    rw [if_neg this, if_neg h]

theorem logLoop_spec (cols : Nat) : ∀ (ls : List Line) (off row : Nat), (∀ l ∈ ls, l.len = cols) →
    Buffer.logLoop cols ls off row
      = ((if ls.all (fun l => l.wrapped) = true then off else 0) + runLen ls,
         row + ls.countP (fun l => !l.wrapped))
  | [], off, row, _ => by simp [Buffer.logLoop, runLen]
  | l :: t, off, row, h => by
    have hl : l.len = cols := h l (by simp)
    have ht : ∀ x ∈ t, x.len = cols := fun x hx => h x (by simp [hx])
    unfold Buffer.logLoop
    cases hw : l.wrapped with
    | true =>
      rw [if_pos rfl, logLoop_spec cols t _ _ ht, runLen_cons]
      by_cases hall : t.all (fun l => l.wrapped) = true
      · simp [hall, hw, hl]; omega
      · simp [hall, hw]
    | false =>
      rw [if_neg (by simp), logLoop_spec cols t _ _ ht, runLen_cons]
      by_cases hall : t.all (fun l => l.wrapped) = true
      · simp [hall, hw]; omega
      · simp [hall, hw]; omega

/-- C10 building block: on a well-formed buffer (`view.length = rows`, every row `cols` wide) and a
    cursor row inside the screen, the structural `cursorLogical` is exactly what
    `Buffer::logical_position` computes (as `(offset, line)`) -/
theorem cursorLogical_eq_logicalPosition {b : Buffer} {cur : Nat × Nat}
    (hview : b.view.length = b.rows) (hlens : ∀ l ∈ b.lines, l.len = b.cols) (hcur : cur.2 < b.rows) :
    Buffer.logicalPosition b.lines cur b.cols b.rows
      = some ((cursorLogical b cur).2, (cursorLogical b cur).1) := by
  have hlen : b.lines.length = b.sb.length + b.rows := by simp [Buffer.lines, hview]
  unfold Buffer.logicalPosition
  have hcs : csub b.lines.length b.rows = some b.sb.length := by
    unfold csub; rw [hlen]; simp
  simp only [hcs]
  have hmin : min (cur.2 + b.sb.length) b.lines.length = cur.2 + b.sb.length := by omega
  rw [hmin, Nat.sub_self]
  have htake : ∀ l ∈ b.lines.take (cur.2 + b.sb.length), l.len = b.cols :=
    fun l hl => hlens l (List.mem_of_mem_take hl)
  rw [logLoop_spec b.cols _ 0 0 htake]
  simp only [cursorLogical, Nat.zero_add, ite_self, runLen, Nat.add_comm b.sb.length cur.2,
    Nat.add_comm cur.1]

end Avt.Lemmas
