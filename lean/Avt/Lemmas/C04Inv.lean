/-
  Avt.Lemmas.C04Inv — helper lemmas for property C04 (invariant level): the buffer invariant in
  index form, its preservation by the row operations of the specification, and the frame lemma
  for `TInv` under the fields that `Print` writes.
-/
import Avt.Lemmas.C04

namespace Avt.C04L
open Avt Avt.Spec Avt.Spec.C04

theorem lastUnwrapped_iff (v : List Line) :
    lastUnwrapped v = true ↔ ∀ l, v[v.length - 1]? = some l → l.wrapped = false := by
  induction v with
  | nil => simp [lastUnwrapped]
  | cons a v ih =>
    cases v with
    | nil => simp [lastUnwrapped]
    | cons b w =>
      simp only [lastUnwrapped, ih]
      simp only [List.length_cons, Nat.add_sub_cancel]
      constructor
      · intro h l hl
        exact h l (by simpa using hl)
      · intro h l hl
        exact h l (by simpa using hl)

theorem all_iff_get {α} (v : List α) (p : α → Bool) :
    v.all p = true ↔ ∀ (i : Nat) (l : α), v[i]? = some l → p l = true := by
  simp only [List.all_eq_true]
  constructor
  · intro h i l hl
    exact h l (List.mem_of_getElem? hl)
  · intro h l hl
    obtain ⟨i, hi⟩ := List.getElem?_of_mem hl
    exact h i l hi

/-- the buffer invariant in index form -/
theorem BInv_iff (b : Buffer) : BInv b = true ↔
    (1 ≤ b.cols ∧ 1 ≤ b.rows ∧ b.view.length = b.rows
      ∧ (∀ (i : Nat) (l : Line), b.view[i]? = some l → l.cells.length = b.cols)
      ∧ (∀ (i : Nat) (l : Line), b.sb[i]? = some l → l.cells.length = b.cols)
      ∧ (∀ l, b.view[b.view.length - 1]? = some l → l.wrapped = false)
      ∧ (match b.limit with | some l => l.hard == l.soft + l.soft / Gen.hardDiv | none => true) = true
      ∧ (b.trimNeeded = true ∨ (match b.limit with | some l => decide (b.sb.length ≤ l.hard) | none => true) = true)) := by
  simp only [BInv, Bool.and_eq_true, Bool.or_eq_true, decide_eq_true_eq, beq_iff_eq, all_iff_get,
    lastUnwrapped_iff]
  grind

@[simp] theorem blankRow_len (c : Nat) (p : Pen) : (blankRow c p).cells.length = c := by
  simp [blankRow]

@[simp] theorem blankRow_wrapped (c : Nat) (p : Pen) : (blankRow c p).wrapped = false := rfl

/-- a row operation that keeps row lengths, and either keeps wrap marks or is not applied to the last row -/
theorem BInv_onRow (b : Buffer) (r : Nat) (f : Line → Line) (h : BInv b = true)
    (hf : ∀ l : Line, l.cells.length = b.cols → (f l).cells.length = b.cols)
    (hw : r + 1 < b.rows ∨ ∀ l, (f l).wrapped = l.wrapped) :
    BInv (bufOnRow b r f) = true := by
  rw [BInv_iff] at h ⊢
  simp only [bufOnRow, onRow_length, getElem?_onRow]
  grind

/-- the wrap on the bottom margin keeps the buffer invariant -/
theorem BInv_scroll (b : Buffer) (s e1 : Nat) (pen : Pen) (h : BInv b = true)
    (hs : s ≤ e1) (he : e1 < b.rows) :
    BInv (scrollRegionUp1 (bufOnRow b e1 markWrapped) s e1 pen) = true := by
  rw [BInv_iff] at h ⊢
  obtain ⟨h1, h2, h3, h4, h5, h6, h7, h8⟩ := h
  have hlen : (onRow (List.take s (onRow b.view e1 markWrapped)) (s - 1) clearWrapped ++
      List.drop (s + 1) (List.take (e1 + 1) (onRow b.view e1 markWrapped)) ++ [blankRow b.cols pen] ++
      List.drop (e1 + 1) (onRow b.view e1 markWrapped)).length = b.rows := by
    simp only [List.length_append, List.length_take, List.length_drop, onRow_length, List.length_cons,
      List.length_nil]
    omega
  simp only [scrollRegionUp1, bufOnRow]
  refine ⟨h1, h2, hlen, ?_, ?_, ?_, h7, Or.inl trivial⟩
  · intro i l
    list_ix
    have := blankRow_len b.cols pen
    grind [markWrapped, clearWrapped]
  · intro i l
    by_cases h0 : s = 0
    · simp only [h0, if_true]
      clear hlen h6 h7 h8 h1 h2
      intro hl
      simp only [List.getElem?_append, List.getElem?_take, getElem?_onRow] at hl
      split at hl
      · exact h5 i l hl
      · split at hl
        · split at hl
          · cases hv : b.view[i - b.sb.length]? with
            | none => rw [hv] at hl; cases hl
            | some x =>
              rw [hv] at hl
              simp only [Option.map_some, Option.some.injEq] at hl
              subst hl
              exact h4 _ x hv
          · exact h4 _ l hl
        · cases hl
    · simp only [h0, if_false, List.append_nil]
      exact h5 i l
  · intro l
    rw [hlen]
    list_ix
    have := blankRow_wrapped b.cols pen
    grind [markWrapped, clearWrapped]

/-! ### the terminal invariant -/

/-- frame lemma: `Print` writes only `buffer`, `cursor`, `pending_wrap`, `dirty_lines` -/
theorem TInv_upd (t : Terminal) (h : TInv t = true) (b : Buffer) (cur : Cursor) (pw : Bool) (d : List Bool)
    (hb : BInv b = true) (hbc : b.cols = t.cols) (hbr : b.rows = t.rows) (hbl : b.limit = t.buffer.limit)
    (hrow : cur.row < t.rows) (hcol : (pw = true ∧ cur.col = t.cols) ∨ (pw = false ∧ cur.col < t.cols))
    (hd : d.length = t.rows) :
    TInv { t with buffer := b, cursor := cur, pendingWrap := pw, dirtyLines := d } = true := by
  simp only [TInv, Bool.and_eq_true, Bool.or_eq_true, decide_eq_true_eq, beq_iff_eq,
    Bool.not_eq_eq_eq_not, Bool.not_true] at h ⊢
  simp only [hbl, hbc, hbr, hb, hd, hrow, hcol, true_and, and_true]
  grind

/-- the part of `TInv` that `Print` relies on -/
structure Pre (t : Terminal) : Prop where
  cols_pos : 1 ≤ t.cols
  rows_pos : 1 ≤ t.rows
  binv : BInv t.buffer = true
  bcols : t.buffer.cols = t.cols
  brows : t.buffer.rows = t.rows
  vlen : t.buffer.view.length = t.rows
  clen : ∀ (i : Nat) (l : Line), t.buffer.view[i]? = some l → l.cells.length = t.cols
  row_lt : t.cursor.row < t.rows
  col : (t.pendingWrap = true ∧ t.cursor.col = t.cols) ∨ (t.pendingWrap = false ∧ t.cursor.col < t.cols)
  m1 : t.topMargin ≤ t.bottomMargin
  m2 : t.bottomMargin < t.rows
  m3 : t.topMargin < t.bottomMargin ∨ (t.topMargin = 0 ∧ t.bottomMargin + 1 = t.rows)
  dlen : t.dirtyLines.length = t.rows
  cs : t.activeCharset < 2

theorem Pre_of_TInv (t : Terminal) (h : TInv t = true) : Pre t := by
  simp only [TInv, Bool.and_eq_true, Bool.or_eq_true, decide_eq_true_eq, beq_iff_eq,
    Bool.not_eq_eq_eq_not, Bool.not_true] at h
  have hb := h.1.1.1.1.1.1.1.1.1.1.1.1.1.1.2
  have hb' := (BInv_iff t.buffer).1 hb
  have hc := h.1.1.1.1.1.1.1.1.1.1.1.1.1.1.1.1
  have hr := h.1.1.1.1.1.1.1.1.1.1.1.1.1.1.1.2
  constructor
  all_goals grind

end Avt.C04L
