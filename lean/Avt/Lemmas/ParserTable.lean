/-
  Avt.Lemmas.ParserTable — the generated arm list of `Parser::feed` against Williams' diagram:
  stability of both lookups on the cells of the endpoint partition, and the finite re-check that
  proves equality for all code points.
-/
import Avt.Lemmas.ParserReps

namespace Avt.ParserTable
open Avt Avt.Lookup Avt.Spec.C03

theorem stable_rowFind (l : List Row) : Stable (rowBounds l) (fun c => l.find? (fun r => r.has c)) := by
  apply Stable.find
  intro r hr
  unfold Row.has
  apply Stable.any
  intro iv hiv
  have hlo : iv.1 ∈ rowBounds l := List.mem_flatMap.2 ⟨r, hr, List.mem_flatMap.2 ⟨iv, hiv, by simp⟩⟩
  have hhi : iv.2 + 1 ∈ rowBounds l := List.mem_flatMap.2 ⟨r, hr, List.mem_flatMap.2 ⟨iv, hiv, by simp⟩⟩
  exact Stable.range hlo hhi

theorem stable_williams' (st : PState) : Stable (wbounds st) (fun c => williams st c) := by
  have h1 : Stable (wbounds st) (fun c => (anywhere ++ rows st).find? (fun r => r.has c)) :=
    (stable_rowFind _).mono (by intro b hb; simp [wbounds, hb])
  have h2 := Stable.premap (k := 0xA0) h1 (by simp [wbounds]) 0x41
  intro c d a
  have := h2 c d a
  simp only [williams, classChar]
  simp only at this
  rw [this]

theorem stable_williams (st : PState) : Stable (bounds st) (fun c => williams st c) :=
  (stable_williams' st).mono (by
    intro b hb
    simp only [wbounds, List.mem_cons] at hb
    rcases hb with rfl | hb
    · simp [bounds]
    · simp [bounds, hb])

theorem stable_inR {B : List Nat} {lo hi : Nat} (hlo : lo ∈ B) (hhi : hi + 1 ∈ B) :
    Stable B (fun c => inR lo hi c) := Stable.range hlo hhi

/-- facts about the diagram alone: a predicate that is stable for the diagram's endpoints plus some
    `extra` ones and holds on the representatives holds for every code point -/
theorem williams_forall (st : PState) (extra : List Nat) {P : Nat → Bool}
    (hP : Stable (extra ++ wbounds st) P)
    (h : ((0 :: (extra ++ wbounds st)).eraseDups).all P = true) : ∀ c, P c = true := by
  apply forall_of_reps hP
  rw [List.all_eq_true] at h ⊢
  intro b hb
  exact h b (List.mem_eraseDups.2 hb)

theorem stable_kindAndNext (st : PState) : Stable (bounds st) (fun c => kindAndNext st c) := by
  have h1 : Stable (bounds st) (fun c => Parser.findArm Gen.feedArms st c) :=
    (stable_findArm Gen.feedArms st).mono (by intro b hb; simp [bounds, hb])
  have h2 := Stable.premap (k := Gen.premapFrom) h1 (by simp [bounds]) Gen.premapTo
  intro c d a
  have := h2 c d a
  simp only [kindAndNext, Parser.premap]
  simp only at this
  rw [this]

/-- a stable predicate that holds on the (duplicate-free) representatives holds everywhere -/
theorem forall_of_reps_st {st : PState} {P : Nat → Bool} (hP : Stable (bounds st) P)
    (h : (reps st).all P = true) : ∀ c, P c = true := by
  apply forall_of_reps hP
  rw [List.all_eq_true] at h ⊢
  intro b hb
  exact h b (List.mem_eraseDups.2 hb)

def tableCheck : Bool :=
  PState.all.all fun st => (reps st).all fun b => decide (kindAndNext st b = some (williams st b))

theorem tableCheck_ok : tableCheck = true := by decide +kernel

theorem mem_all (st : PState) : st ∈ PState.all := by cases st <;> decide

/-- **Table equality**: for every state and every code point the generated `match` of `Parser::feed`
    performs the action kind and the transition of Williams' diagram. -/
theorem table_eq (st : PState) (c : Nat) : kindAndNext st c = some (williams st c) := by
  have hst := List.all_eq_true.1 tableCheck_ok st (mem_all st)
  have hP : Stable (bounds st) (fun c => decide (kindAndNext st c = some (williams st c))) :=
    Stable.map2 (stable_kindAndNext st) (stable_williams st) (fun x y => decide (x = some y))
  have := forall_of_reps_st hP hst c
  simpa using this

end Avt.ParserTable
