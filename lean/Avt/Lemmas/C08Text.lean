/-
  Avt.Lemmas.C08Text — the raw text of a complete SGR sequence, read directly (`parseSgrText`),
  and the table-driven parser (`Parser.feed` over `Gen.feedArms` / `Gen.csiArms`) agree: feeding the
  text from the ground state emits exactly one function, `.sgr (sgrRefOps written)`.
-/
import Avt.Lemmas.C08Decode

namespace Avt.Spec.C08
open Avt

/-- functions emitted while feeding `txt`, and the parser afterwards (`none` = the code panics) -/
def emit : Parser → List Nat → Option (Parser × List Function)
  | p, [] => some (p, [])
  | p, c :: cs =>
    match p.feed c with
    | none => none
    | some (p', f) =>
      match emit p' cs with
      | none => none
      | some (p'', fs) => some (p'', f.toList ++ fs)

/-- the all-zero register -/
def Z : Param := {}

/-- the register holding the written parameter `w` -/
def mkParam (w : List Nat) : Param := ⟨w.length - 1, w ++ List.replicate (6 - w.length) 0⟩

/-- a written parameter that fits a register -/
def WOK (w : List Nat) : Prop := 1 ≤ w.length ∧ w.length ≤ 6 ∧ ∀ x ∈ w, x < 65536

theorem mkParam_zero : mkParam [0] = Z := rfl

theorem mkParam_ok {w : List Nat} (h : WOK w) : Param.ok (mkParam w) = true := by
  obtain ⟨h1, h2, h3⟩ := h
  simp only [Param.ok, mkParam, Gen.maxParamLen, Bool.and_eq_true, beq_iff_eq, decide_eq_true_eq,
    List.all_eq_true, List.length_append, List.length_replicate]
  refine ⟨⟨⟨Nat.add_sub_of_le h2, by apply decide_eq_true; omega⟩, ?_⟩, ?_⟩
  · intro x hx
    have : w.length - 1 + 1 = w.length := by omega
    rw [this, List.drop_append_of_le_length (Nat.le_refl _)] at hx
    simp only [List.drop_length, List.nil_append, List.mem_replicate] at hx
    simp [hx.2]
  · intro x hx
    simp only [List.mem_append, List.mem_replicate] at hx
    rcases hx with hx | hx
    · exact h3 x hx
    · rw [hx.2]; decide

theorem sliceOf_mkParam {w : List Nat} (h : WOK w) : sliceOf (mkParam w) = w := by
  obtain ⟨h1, h2, _⟩ := h
  simp only [sliceOf, mkParam]
  have : w.length - 1 + 1 = w.length := by omega
  rw [this, List.take_append_of_le_length (Nat.le_refl _), List.take_length]

theorem paramsOf_map_mkParam {ws : List (List Nat)} (h : ∀ w ∈ ws, WOK w) :
    paramsOf (ws.map mkParam) = ws := by
  induction ws with
  | nil => rfl
  | cons w ws ih =>
    simp only [List.map_cons, paramsOf_cons]
    rw [sliceOf_mkParam (h w (by simp)), ih (fun x hx => h x (by simp [hx]))]


/-! ### list helpers -/

theorem mid_get {α} (A B : List α) (x : α) : (A ++ [x] ++ B)[A.length]? = some x := by
  induction A with
  | nil => rfl
  | cons a A ih => simp

theorem mid_set {α} (A B : List α) (x y : α) : (A ++ [x] ++ B).set A.length y = A ++ [y] ++ B := by
  induction A with
  | nil => rfl
  | cons a A ih => simp

theorem mid_take {α} (A B : List α) (x : α) : (A ++ [x] ++ B).take (A.length + 1) = A ++ [x] := by
  induction A with
  | nil => rfl
  | cons a A ih => simpa using ih

/-! ### the register file as a function of the reader state -/

def regs (r : Rd) : List Param :=
  r.done.reverse.map mkParam ++ [mkParam r.param] ++ List.replicate (31 - r.done.length) Z

structure RdOK (r : Rd) : Prop where
  nd : r.done.length < 32
  np : r.parts.length < 6
  cur : r.cur < 65536
  parts : ∀ x ∈ r.parts, x < 65536
  done : ∀ w ∈ r.done, WOK w

theorem RdOK.wok {r : Rd} (h : RdOK r) : WOK r.param := by
  refine ⟨by simp [Rd.param], by simp [Rd.param]; have := h.np; omega, ?_⟩
  intro x hx
  simp only [Rd.param, List.reverse_cons, List.mem_append, List.mem_reverse, List.mem_singleton] at hx
  rcases hx with hx | hx
  · exact h.parts x hx
  · rw [hx]; exact h.cur

theorem regs_length {r : Rd} (h : RdOK r) : (regs r).length = 32 := by
  have := h.nd
  simp [regs]; omega

theorem regs_get (r : Rd) : (regs r)[r.done.length]? = some (mkParam r.param) := by
  have := mid_get (r.done.reverse.map mkParam) (List.replicate (31 - r.done.length) Z) (mkParam r.param)
  simp [regs]

theorem regs_set (r : Rd) (q : Param) :
    (regs r).set r.done.length q
      = r.done.reverse.map mkParam ++ [q] ++ List.replicate (31 - r.done.length) Z := by
  have := mid_set (r.done.reverse.map mkParam) (List.replicate (31 - r.done.length) Z) (mkParam r.param) q
  simp [regs]

theorem regs_take (r : Rd) :
    (regs r).take (r.done.length + 1) = (r.param :: r.done).reverse.map mkParam := by
  have := mid_take (r.done.reverse.map mkParam) (List.replicate (31 - r.done.length) Z) (mkParam r.param)
  simpa [regs] using this

/-- parser `p` has read what the reader `r` has read -/
structure Rel (r : Rd) (p : Parser) : Prop where
  params : p.params = regs r
  curParam : p.curParam = r.done.length
  interm : p.intermediate = none
  state : p.state = .CsiParam


/-! ### `Parser.param` on the three kinds of body characters -/

theorem param_digit {r : Rd} {p : Parser} (ho : RdOK r) (hr : Rel r p) {c : Nat}
    (h1 : 0x30 ≤ c) (h2 : c ≤ 0x39) :
    ∃ p', p.param c = some p' ∧ Rel { r with cur := (10 * r.cur + (c - 0x30)) % 65536 } p'
      ∧ RdOK { r with cur := (10 * r.cur + (c - 0x30)) % 65536 } := by
  have hc1 : c ≠ 0x3b := by omega
  have hc2 : c ≠ 0x3a := by omega
  have hcs : csub (c % 256) 0x30 = some (c - 0x30) := by
    have : c % 256 = c := Nat.mod_eq_of_lt (by omega)
    rw [this]; unfold csub; rw [if_pos h1]
  have hget : p.params[p.curParam]? = some (mkParam r.param) := by
    rw [hr.params, hr.curParam]; exact regs_get r
  -- the digit lands on the number being written
  have hlen : r.param.length = r.parts.length + 1 := by simp [Rd.param]
  have hparts : (mkParam r.param).parts = r.parts.reverse ++ [r.cur] ++ List.replicate (5 - r.parts.length) 0 := by
    simp only [mkParam, Rd.param, List.reverse_cons, List.length_append, List.length_reverse,
      List.length_singleton]
    congr 2
    omega
  have hcp : (mkParam r.param).curPart = r.parts.reverse.length := by
    simp [mkParam, Rd.param]
  have hv : 10 * r.cur + (c - 0x30) < 4294967296 := by have := ho.cur; omega
  have hadd : (mkParam r.param).addDigit (c - 0x30)
      = some (mkParam ({ r with cur := (10 * r.cur + (c - 0x30)) % 65536 } : Rd).param) := by
    unfold Param.addDigit
    rw [hcp, hparts, mid_get]
    simp only [hv, if_true]
    rw [mid_set]
    simp only [mkParam, Rd.param, List.reverse_cons, List.length_append, List.length_reverse,
      List.length_singleton]
    have e1 : r.parts.length + 1 - 1 = r.parts.length := by omega
    have e2 : 6 - (r.parts.length + 1) = 5 - r.parts.length := by omega
    rw [e1, e2]
  let q' := mkParam ({ r with cur := (10 * r.cur + (c - 0x30)) % 65536 } : Rd).param
  refine ⟨{ p with params := p.params.set p.curParam q' }, ?_, ?_, ?_⟩
  · unfold Parser.param
    rw [if_neg hc1, if_neg hc2, hcs]
    simp only [modAtM, hget, hadd]
    rfl
  · refine ⟨?_, hr.curParam, hr.interm, hr.state⟩
    show p.params.set p.curParam _ = _
    rw [hr.params, hr.curParam, regs_set]
    rfl
  · exact ⟨ho.nd, ho.np, Nat.mod_lt _ (by decide), ho.parts, ho.done⟩


/-- the reader's step on ':' -/
def Rd.colon (r : Rd) : Rd :=
  if r.parts.length + 1 < 6 then { r with parts := r.cur :: r.parts, cur := 0 } else r

/-- the reader's step on ';' -/
def Rd.semi (r : Rd) : Rd :=
  if r.done.length + 1 < 32 then { done := r.param :: r.done, parts := [], cur := 0 } else r

theorem param_colon {r : Rd} {p : Parser} (ho : RdOK r) (hr : Rel r p) :
    ∃ p', p.param 0x3a = some p' ∧ Rel r.colon p' ∧ RdOK r.colon := by
  have hget : p.params[p.curParam]? = some (mkParam r.param) := by
    rw [hr.params, hr.curParam]; exact regs_get r
  have hadd : (mkParam r.param).addPart = mkParam r.colon.param := by
    unfold Rd.colon
    split
    · rename_i hlt
      simp only [Param.addPart, mkParam, Rd.param, Gen.maxParamLen, List.reverse_cons, List.length_append,
        List.length_reverse, List.length_singleton, List.append_assoc]
      have e1 : min (r.parts.length + 1 - 1 + 1) (6 - 1) = r.parts.length + 1 + 1 - 1 := by omega
      have e2 : 6 - (r.parts.length + 1) = (6 - (r.parts.length + 1 + 1)) + 1 := by omega
      rw [e1, e2, List.replicate_succ]
      simp
    · rename_i hge
      have := ho.np
      have e : r.parts.length = 5 := by omega
      simp only [Param.addPart, mkParam, Rd.param, Gen.maxParamLen, List.reverse_cons, List.length_append,
        List.length_reverse, List.length_singleton, e]
      rfl
  refine ⟨{ p with params := p.params.set p.curParam (mkParam r.colon.param) }, ?_, ?_, ?_⟩
  · unfold Parser.param
    simp only [show (0x3a : Nat) ≠ 0x3b by decide, if_false, if_true, modAt, hget, hadd]
  · have hd : r.colon.done = r.done := by unfold Rd.colon; split <;> rfl
    refine ⟨?_, by rw [hd]; exact hr.curParam, hr.interm, hr.state⟩
    show p.params.set p.curParam _ = _
    rw [hr.params, hr.curParam, regs_set]
    simp only [regs, hd]
  · unfold Rd.colon
    split
    · refine ⟨ho.nd, by simpa using ‹_›, by show (0 : Nat) < 65536; decide, ?_, ho.done⟩
      intro x hx
      simp only [List.mem_cons] at hx
      rcases hx with hx | hx
      · rw [hx]; exact ho.cur
      · exact ho.parts x hx
    · exact ho

theorem param_semi {r : Rd} {p : Parser} (ho : RdOK r) (hr : Rel r p) :
    ∃ p', p.param 0x3b = some p' ∧ Rel r.semi p' ∧ RdOK r.semi := by
  refine ⟨{ p with curParam := if p.curParam + 1 = Gen.paramsLen then Gen.paramsLen - 1 else p.curParam + 1 },
    ?_, ?_, ?_⟩
  · unfold Parser.param
    simp
  · unfold Rd.semi
    split
    · rename_i hlt
      refine ⟨?_, ?_, hr.interm, hr.state⟩
      · show p.params = _
        rw [hr.params]
        simp only [regs, Rd.param, List.length_cons, List.reverse_cons, List.map_append, List.map_cons,
          List.map_nil, List.append_assoc, List.cons_append, List.nil_append]
        have e : 31 - r.done.length = (31 - (r.done.length + 1)) + 1 := by omega
        rw [e, List.replicate_succ]
        rfl
      · show (if p.curParam + 1 = Gen.paramsLen then Gen.paramsLen - 1 else p.curParam + 1) = _
        rw [hr.curParam, if_neg (by simp only [Gen.paramsLen]; omega)]
        simp
    · rename_i hge
      have := ho.nd
      have e : r.done.length = 31 := by omega
      refine ⟨hr.params, ?_, hr.interm, hr.state⟩
      show (if p.curParam + 1 = Gen.paramsLen then Gen.paramsLen - 1 else p.curParam + 1) = _
      rw [hr.curParam, e]; rfl
  · unfold Rd.semi
    split
    · refine ⟨by simpa using ‹_›, by simp, by show (0 : Nat) < 65536; decide, by simp, ?_⟩
      intro w hw
      simp only [List.mem_cons] at hw
      rcases hw with hw | hw
      · rw [hw]; exact ho.wok
      · exact ho.done w hw
    · exact ho


/-! ### clearing the registers -/

theorem all_zero_eq {l : List Nat} (h : l.all (· == 0) = true) : l = List.replicate l.length 0 := by
  rw [List.eq_replicate_iff]
  refine ⟨rfl, fun x hx => ?_⟩
  simp only [List.all_eq_true, beq_iff_eq] at h
  exact h x hx

theorem clear_ok {q : Param} (h : Param.ok q = true) : q.clear = some Z := by
  simp only [Param.ok, Gen.maxParamLen, Bool.and_eq_true, beq_iff_eq] at h
  obtain ⟨⟨⟨hl, hc⟩, hz⟩, _⟩ := h
  have hc := of_decide_eq_true hc
  have hd := all_zero_eq hz
  unfold Param.clear fillRange
  rw [if_pos ⟨Nat.zero_le _, by omega⟩]
  simp only [List.take_zero, List.nil_append, Nat.sub_zero]
  rw [hd, List.replicate_append_replicate]
  have : q.curPart + 1 + (q.parts.drop (q.curPart + 1)).length = 6 := by
    rw [List.length_drop]; omega
  rw [this]; rfl

theorem zero_eq {q : Param} (h : Param.ok q = true) (hz : Param.isZero q = true) : q = Z := by
  simp only [Param.ok, Gen.maxParamLen, Bool.and_eq_true, beq_iff_eq] at h
  simp only [Param.isZero, Bool.and_eq_true, beq_iff_eq] at hz
  obtain ⟨⟨⟨hl, _⟩, _⟩, _⟩ := h
  obtain ⟨c, parts⟩ := q
  simp only at hl hz
  have := all_zero_eq hz.2
  rw [hl] at this
  rw [hz.1, this]; rfl

theorem mapM_const {α β} {f : α → Option β} {z : β} :
    ∀ (l : List α), (∀ q ∈ l, f q = some z) → l.mapM f = some (List.replicate l.length z)
  | [], _ => rfl
  | a :: l, h => by
    have ih := mapM_const l (fun q hq => h q (by simp [hq]))
    simp [List.mapM_cons, h a (by simp), ih, List.replicate_succ]

theorem parser_clear {p : Parser} (h : PInv p = true) :
    p.clear = some { p with params := List.replicate 32 Z, curParam := 0, intermediate := none } := by
  simp only [PInv, Gen.paramsLen, Bool.and_eq_true, beq_iff_eq, List.all_eq_true] at h
  obtain ⟨⟨⟨hl, hc⟩, hok⟩, hz⟩ := h
  have hc := of_decide_eq_true hc
  unfold Parser.clear
  rw [if_pos (by omega)]
  have h1 : (p.params.take (p.curParam + 1)).mapM Param.clear
      = some (List.replicate (p.curParam + 1) Z) := by
    have := mapM_const (f := Param.clear) (z := Z) (p.params.take (p.curParam + 1))
      (fun q hq => clear_ok (hok q (List.mem_of_mem_take hq)))
    rw [this, List.length_take]
    congr 2; omega
  have h2 : p.params.drop (p.curParam + 1) = List.replicate (31 - p.curParam) Z := by
    rw [List.eq_replicate_iff]
    refine ⟨by rw [List.length_drop]; omega, fun q hq => ?_⟩
    exact zero_eq (hok q (List.mem_of_mem_drop hq)) (hz q hq)
  simp only [h1, h2, List.replicate_append_replicate]
  have : p.curParam + 1 + (31 - p.curParam) = 32 := by omega
  rw [this]

theorem regs_init : regs {} = List.replicate 32 Z := rfl

theorem rdok_init : RdOK {} := ⟨by decide, by decide, by decide, by simp, by simp⟩

theorem pinv_cleared (p : Parser) (st : PState) :
    PInv { p with state := st, params := List.replicate 32 Z, curParam := 0, intermediate := none } = true := by
  show PInv { state := st, params := List.replicate 32 Z, curParam := 0, intermediate := none } = true
  cases st <;> decide


/-! ### the table-driven parser on the characters of an SGR sequence -/

theorem arm_csiParam_param : ∀ c, c < 60 → 48 ≤ c →
    Parser.findArm Gen.feedArms .CsiParam (Parser.premap c)
      = some ⟨[⟨some .CsiParam, 48, 59⟩], [.param]⟩ := by decide

theorem arm_csiEntry_param : ∀ c, c < 60 → 48 ≤ c → c ≠ 58 →
    Parser.findArm Gen.feedArms .CsiEntry (Parser.premap c)
      = some ⟨[⟨some .CsiEntry, 48, 57⟩, ⟨some .CsiEntry, 59, 59⟩], [.setState .CsiParam, .param]⟩ := by
  decide

theorem arm_csiParam_m : Parser.findArm Gen.feedArms .CsiParam (Parser.premap 0x6d)
    = some ⟨[⟨some .CsiParam, 64, 126⟩], [.setState .Ground, .retCsiDispatch]⟩ := by decide

theorem arm_csiEntry_m : Parser.findArm Gen.feedArms .CsiEntry (Parser.premap 0x6d)
    = some ⟨[⟨some .CsiEntry, 64, 126⟩], [.setState .Ground, .retCsiDispatch]⟩ := by decide

theorem arm_ground_esc : Parser.findArm Gen.feedArms .Ground (Parser.premap 0x1b)
    = some ⟨[⟨none, 27, 27⟩], [.setState .Escape, .clear]⟩ := by decide

theorem arm_escape_bracket : Parser.findArm Gen.feedArms .Escape (Parser.premap 0x5b)
    = some ⟨[⟨some .Escape, 91, 91⟩], [.setState .CsiEntry, .clear]⟩ := by decide

theorem arm_ground_csi : Parser.findArm Gen.feedArms .Ground (Parser.premap 0x9b)
    = some ⟨[⟨none, 155, 155⟩], [.setState .CsiEntry, .clear]⟩ := by decide

/-- `CSI … m` without intermediate dispatches to the SGR decoder -/
theorem csiDispatch_m {p : Parser} (hi : p.intermediate = none) :
    p.csiDispatch 0x6d
      = match p.activeParams with
        | none => none
        | some ps => (Parser.sgrOps ps).map fun ops => some (.sgr ops) := by
  unfold Parser.csiDispatch
  rw [hi]
  rfl


theorem emit_cons_none {p p' : Parser} {c : Nat} {cs : List Nat} (h : p.feed c = some (p', none)) :
    emit p (c :: cs) = emit p' cs := by
  rw [emit]
  simp only [h]
  cases emit p' cs with
  | none => rfl
  | some x => rfl

theorem feed_param {p p' : Parser} {c : Nat} (hs : p.state = .CsiParam) (h1 : 48 ≤ c) (h2 : c < 60)
    (hp : p.param c = some p') : p.feed c = some (p', none) := by
  unfold Parser.feed
  rw [hs, arm_csiParam_param c h2 h1]
  simp only [Parser.runActs, hp]

/-- the final byte: the registers in use are decoded -/
theorem feed_m {r : Rd} {p : Parser} (ho : RdOK r) (hr : Rel r p) :
    p.feed 0x6d = some ({ p with state := .Ground },
                        some (.sgr (sgrRefOps ((r.param :: r.done).reverse)))) := by
  have hws : ∀ w ∈ (r.param :: r.done).reverse, WOK w := by
    intro w hw
    simp only [List.mem_reverse, List.mem_cons] at hw
    rcases hw with hw | hw
    · rw [hw]; exact ho.wok
    · exact ho.done w hw
  have hact : ({ p with state := PState.Ground } : Parser).activeParams
      = some ((r.param :: r.done).reverse.map mkParam) := by
    unfold Parser.activeParams
    show (if p.curParam + 1 ≤ p.params.length then some (p.params.take (p.curParam + 1)) else none) = _
    have := ho.nd
    rw [hr.params, hr.curParam, regs_length ho, if_pos (by omega), regs_take]
  have hops := sgrOps_eq_ref ((r.param :: r.done).reverse.map mkParam) (by
    intro q hq
    simp only [List.mem_map] at hq
    obtain ⟨w, hw, rfl⟩ := hq
    exact mkParam_ok (hws w hw))
  rw [paramsOf_map_mkParam hws] at hops
  unfold Parser.feed
  rw [hr.state, arm_csiParam_m]
  simp only [Parser.runActs]
  rw [csiDispatch_m (by exact hr.interm), hact]
  simp only [hops, Option.map_some]

theorem body_spec : ∀ (cs : List Nat) (r : Rd) (p : Parser) (ws : List (List Nat)),
    RdOK r → Rel r p → readBody cs r = some ws →
    ∃ p', emit p cs = some (p', [.sgr (sgrRefOps ws)]) ∧ p'.state = .Ground
  | [], r, p, ws, _, _, h => by simp [readBody] at h
  | c :: cs, r, p, ws, ho, hr, h => by
    unfold readBody at h
    split at h
    · rename_i hm
      subst hm
      split at h
      · rename_i he
        cases h
        have hcs : cs = [] := by simpa using he
        subst hcs
        refine ⟨{ p with state := .Ground }, ?_, rfl⟩
        rw [emit]
        simp only [feed_m ho hr, emit]
        rfl
      · cases h
    · split at h
      · rename_i hd
        simp only [isDigit, Bool.and_eq_true, decide_eq_true_eq] at hd
        obtain ⟨p', hp, hr', ho'⟩ := param_digit ho hr hd.1 hd.2
        rw [emit_cons_none (feed_param hr.state hd.1 (by omega) hp)]
        exact body_spec cs _ p' ws ho' hr' h
      · split at h
        · rename_i hc
          subst hc
          obtain ⟨p', hp, hr', ho'⟩ := param_colon ho hr
          rw [emit_cons_none (feed_param hr.state (by decide) (by decide) hp)]
          refine body_spec cs _ p' ws ho' hr' ?_
          unfold Rd.colon
          split at h <;> rename_i hlt
          · rw [if_pos hlt]; exact h
          · rw [if_neg hlt]; exact h
        · split at h
          · rename_i hc
            subst hc
            obtain ⟨p', hp, hr', ho'⟩ := param_semi ho hr
            rw [emit_cons_none (feed_param hr.state (by decide) (by decide) hp)]
            refine body_spec cs _ p' ws ho' hr' ?_
            unfold Rd.semi
            split at h <;> rename_i hlt
            · rw [if_pos hlt]; exact h
            · rw [if_neg hlt]; exact h
          · cases h


/-! ### entry: `ESC [` / `0x9b`, and the first body character -/

theorem feed_entry_eq {p : Parser} {c : Nat} (hs : p.state = .CsiEntry)
    (hc : c = 0x6d ∨ (48 ≤ c ∧ c < 60 ∧ c ≠ 58)) :
    p.feed c = ({ p with state := .CsiParam } : Parser).feed c := by
  unfold Parser.feed
  simp only [hs]
  rcases hc with rfl | ⟨h1, h2, h3⟩
  · rw [arm_csiEntry_m, arm_csiParam_m]
    rfl
  · rw [arm_csiEntry_param c h2 h1 h3, arm_csiParam_param c h2 h1]
    rfl

theorem emit_congr {p q : Parser} {c : Nat} {cs : List Nat} (h : p.feed c = q.feed c) :
    emit p (c :: cs) = emit q (c :: cs) := by
  rw [emit, emit, h]

/-- the cleared parser at the start of a control sequence -/
def entryParser (p : Parser) (st : PState) : Parser :=
  { p with state := st, params := List.replicate 32 Z, curParam := 0, intermediate := none }

theorem feed_clearing {p : Parser} {c : Nat} {st : PState} {pats : List Pat} (hi : PInv p = true)
    (harm : Parser.findArm Gen.feedArms p.state (Parser.premap c) = some ⟨pats, [.setState st, .clear]⟩) :
    p.feed c = some (entryParser p st, none) := by
  unfold Parser.feed
  rw [harm]
  simp only [Parser.runActs]
  have : PInv ({ p with state := st } : Parser) = true := hi
  rw [parser_clear this]
  rfl

theorem sgrBody_spec {p : Parser} {body : List Nat} {ws : List (List Nat)}
    (h : sgrBody body = some ws) :
    ∃ p', emit (entryParser p .CsiEntry) body = some (p', [.sgr (sgrRefOps ws)]) ∧ p'.state = .Ground := by
  have hrel : Rel {} (entryParser p .CsiParam) := ⟨regs_init.symm, rfl, rfl, rfl⟩
  cases body with
  | nil => simp [sgrBody, readBody] at h
  | cons c cs =>
    have hc : c = 0x6d ∨ (48 ≤ c ∧ c < 60 ∧ c ≠ 58) := by
      unfold sgrBody at h
      split at h
      · cases h
      · rename_i hne
        have hne' : c ≠ 0x3a := fun e => hne cs (by rw [e])
        unfold readBody at h
        by_cases h1 : c = 0x6d
        · exact Or.inl h1
        · rw [if_neg h1] at h
          by_cases h2 : isDigit c = true
          · simp only [isDigit, Bool.and_eq_true, decide_eq_true_eq] at h2
            exact Or.inr ⟨h2.1, by omega, hne'⟩
          · rw [if_neg h2, if_neg hne'] at h
            by_cases h3 : c = 0x3b
            · exact Or.inr ⟨by omega, by omega, hne'⟩
            · rw [if_neg h3] at h; cases h
    have hb : readBody (c :: cs) {} = some ws := by
      unfold sgrBody at h
      split at h
      · cases h
      · exact h
    have e : emit (entryParser p .CsiEntry) (c :: cs) = emit (entryParser p .CsiParam) (c :: cs) :=
      emit_congr (feed_entry_eq (p := entryParser p .CsiEntry) rfl hc)
    rw [e]
    exact body_spec (c :: cs) {} _ ws rdok_init hrel hb

/-- **Text = parser.**  Feeding the text of one complete SGR sequence from the ground state emits
    exactly the function `.sgr (sgrRefOps written)` where `written = parseSgrText text`, and the
    parser is back in the ground state. -/
theorem text_spec {p : Parser} (hi : PInv p = true) (hs : p.state = .Ground) {txt : List Nat}
    {ws : List (List Nat)} (h : parseSgrText txt = some ws) :
    ∃ p', emit p txt = some (p', [.sgr (sgrRefOps ws)]) ∧ p'.state = .Ground := by
  unfold parseSgrText at h
  split at h
  · rename_i body
    -- ESC [
    have f1 : p.feed 0x1b = some (entryParser p .Escape, none) :=
      feed_clearing hi (by rw [hs]; exact arm_ground_esc)
    have f2 : (entryParser p .Escape).feed 0x5b = some (entryParser p .CsiEntry, none) := by
      have := feed_clearing (p := entryParser p .Escape) (c := 0x5b) (st := .CsiEntry)
        (pinv_cleared p .Escape) arm_escape_bracket
      exact this
    rw [emit_cons_none f1, emit_cons_none f2]
    exact sgrBody_spec h
  · rename_i body
    have f1 : p.feed 0x9b = some (entryParser p .CsiEntry, none) :=
      feed_clearing hi (by rw [hs]; exact arm_ground_csi)
    rw [emit_cons_none f1]
    exact sgrBody_spec h
  · cases h


/-! ### from the parser to the terminal -/

/-- run a list of functions -/
def execAll : List Function → Terminal → Option Terminal
  | [], t => some t
  | f :: fs, t => match t.execute f with | some t' => execAll fs t' | none => none

theorem feedAll_emit : ∀ (txt : List Nat) (v : Vt) (p' : Parser) (fs : List Function),
    emit v.parser txt = some (p', fs) →
    v.feedAll txt = (execAll fs v.terminal).map fun t => { parser := p', terminal := t }
  | [], v, p', fs, h => by
    simp only [emit, Option.some.injEq, Prod.mk.injEq] at h
    obtain ⟨rfl, rfl⟩ := h
    rfl
  | c :: cs, v, p', fs, h => by
    rw [emit] at h
    split at h
    · cases h
    · rename_i p1 f hf
      split at h
      · cases h
      · rename_i p2 fs' he
        simp only [Option.some.injEq, Prod.mk.injEq] at h
        obtain ⟨rfl, rfl⟩ := h
        cases f with
        | none =>
          have hv : v.feed c = some { v with parser := p1 } := by simp only [Vt.feed, hf]
          simp only [Vt.feedAll, hv]
          exact feedAll_emit cs { v with parser := p1 } p2 fs' he
        | some f =>
          cases hx : v.terminal.execute f with
          | none =>
            have hv : v.feed c = none := by simp only [Vt.feed, hf, hx, Option.map_none]
            simp [Vt.feedAll, hv, execAll, hx]
          | some t1 =>
            have hv : v.feed c = some { parser := p1, terminal := t1 } := by
              simp only [Vt.feed, hf, hx, Option.map_some]
            simp only [Vt.feedAll, hv, Option.toList, List.cons_append, List.nil_append, execAll, hx]
            exact feedAll_emit cs { parser := p1, terminal := t1 } p2 fs' he

end Avt.Spec.C08
