/-
  Avt.Lemmas.C09Wrap — the deferred wrap: printing with a wrap pending first marks the row wrapped and
  moves to the start of the next row (scrolling the whole screen when on the last row).
-/
import Avt.Lemmas.C09Print

namespace Avt.Lemmas
open Avt Avt.Spec.C09

/-- the state in which the pending wrap has been carried out, cursor not on the last row -/
def wrappedMove (t : Terminal) (lr : Line) : Terminal :=
  { t with
    buffer := { t.buffer with view := t.buffer.view.set t.cursor.row { lr with wrapped := true } },
    cursor := { t.cursor with col := 0, row := t.cursor.row + 1 },
    pendingWrap := false }

/-- the same on the last row: the screen scrolls, the top row goes to the scrollback -/
def wrappedScroll (t : Terminal) (lr : Line) (d : List Bool) : Terminal :=
  { t with
    buffer := { t.buffer with
      sb := t.buffer.sb ++ (t.buffer.view.set t.cursor.row { lr with wrapped := true }
              ++ [Line.blank t.buffer.cols t.pen]).take 1,
      view := (t.buffer.view.set t.cursor.row { lr with wrapped := true }
              ++ [Line.blank t.buffer.cols t.pen]).drop 1,
      trimNeeded := true },
    cursor := { t.cursor with col := 0 },
    pendingWrap := false,
    dirtyLines := d }

theorem print_pending_move {t : Terminal} (hm : TWMode t) (hg : TWGeom t)
    (hp : t.pendingWrap = true) (hrow1 : t.cursor.row + 1 < t.rows) (ch : Nat) {lr : Line}
    (hrow : t.buffer.view[t.cursor.row]? = some lr) :
    t.print ch = (wrappedMove t lr).print ch := by
  have hcs : csub t.cols 1 = some (t.cols - 1) := by
    unfold csub; have := hg.cols_pos; simp; omega
  have hrs : csub t.rows 1 = some (t.rows - 1) := by
    unfold csub; have := hg.rows_pos; simp; omega
  have hne : ¬ t.cursor.row = t.bottomMargin := by have := hm.bottom; omega
  have hlt : t.cursor.row < t.rows - 1 := by omega
  unfold Terminal.print
  simp only [Terminal.activeCharsetValue, hm.charset.1, hm.charset.2, Charset.translate, hp,
    hm.autoWrap, Bool.and_self, if_true, Terminal.doMoveCursorToCol, hne, if_false, hrs, hlt,
    Buffer.wrap, Buffer.updRow, modAtM, hrow, Option.map_some, Terminal.doMoveCursorToRow, hcs,
    wrappedMove, Bool.and_false, Bool.false_eq_true, Nat.zero_min]

theorem scrollUp_full (b : Buffer) (pen : Pen) (h : 1 ≤ b.rows) :
    b.scrollUp 0 b.rows 1 pen = some { b with
      sb := b.sb ++ (b.view ++ [Line.blank b.cols pen]).take 1,
      view := (b.view ++ [Line.blank b.cols pen]).drop 1,
      trimNeeded := true } := by
  have h1 : csub b.rows 0 = some b.rows := by unfold csub; simp
  have h2 : csub b.rows 1 = some (b.rows - 1) := by unfold csub; simp; omega
  unfold Buffer.scrollUp
  simp only [h1, h2, Nat.lt_irrefl, if_false, if_true, Nat.min_eq_left h]
  rfl

theorem scrollUpInRegion_full (t : Terminal) (htop : t.topMargin = 0) (hbot : t.bottomMargin + 1 = t.rows)
    (hbr : t.buffer.rows = t.rows) (hr : 1 ≤ t.rows) (hd : t.dirtyLines.length = t.rows) :
    t.scrollUpInRegion 1 = some { t with
      buffer := { t.buffer with
        sb := t.buffer.sb ++ (t.buffer.view ++ [Line.blank t.buffer.cols t.pen]).take 1,
        view := (t.buffer.view ++ [Line.blank t.buffer.cols t.pen]).drop 1,
        trimNeeded := true },
      dirtyLines := List.replicate t.rows true } := by
  have h1 := scrollUp_full t.buffer t.pen (by rw [hbr]; exact hr)
  rw [hbr] at h1
  have h2 : Dirty.extend t.dirtyLines 0 t.rows = some (List.replicate t.rows true) := by
    unfold Dirty.extend fillRange
    have : t.rows ≤ t.dirtyLines.length := by omega
    simp only [Nat.zero_le, this, and_self, if_true, List.take_zero, Nat.sub_zero, List.nil_append]
    rw [List.drop_of_length_le (by omega), List.append_nil]
  unfold Terminal.scrollUpInRegion
  rw [htop, hbot, h1]
  simp only [h2, Option.map_some, hbr]

/-- the first half of `Terminal::print`: carry out a pending wrap -/
def wrapPart (t : Terminal) : Option Terminal :=
  if t.autoWrapMode && t.pendingWrap then
    let t := t.doMoveCursorToCol 0
    if t.cursor.row = t.bottomMargin then
      match t.buffer.wrap t.cursor.row with
      | none => none
      | some b =>
        match ({ t with buffer := b } : Terminal).scrollUpInRegion 1 with
        | none => none
        | some t =>
          match csub t.rows 1 with
          | none => none
          | some r1 =>
            if t.bottomMargin < r1 then
              match csub t.bottomMargin 1 with
              | none => none
              | some bm1 => (t.buffer.wrap bm1).map fun b => { t with buffer := b }
            else some t
    else
      match csub t.rows 1 with
      | none => none
      | some r1 =>
        if t.cursor.row < r1 then
          match t.buffer.wrap t.cursor.row with
          | none => none
          | some b => ({ t with buffer := b } : Terminal).doMoveCursorToRow (t.cursor.row + 1)
        else some t
  else some t

/-- the second half of `Terminal::print`: write the cell and advance -/
def printRest (t : Terminal) (cell : Cell) : Option Terminal :=
  let nextCol := t.cursor.col + 1
  let t2 : Option Terminal :=
    if nextCol ≥ t.cols then
      match csub t.cols 1 with
      | none => none
      | some c1 =>
        match t.buffer.print c1 t.cursor.row cell with
        | none => none
        | some b =>
          let t := { t with buffer := b }
          if t.autoWrapMode then some { t.doMoveCursorToCol t.cols with pendingWrap := true }
          else some t
    else
      let b := if t.insertMode then t.buffer.insert t.cursor.col t.cursor.row 1 cell
               else t.buffer.print t.cursor.col t.cursor.row cell
      match b with
      | none => none
      | some b => some (({ t with buffer := b } : Terminal).doMoveCursorToCol nextCol)
  match t2 with
  | none => none
  | some t => t.markDirty t.cursor.row

theorem print_split (t : Terminal) (ch : Nat) (hcs : t.activeCharset = 0) (hascii : t.charsets.1 = .ascii) :
    t.print ch = (wrapPart t).bind (fun t1 => printRest t1 ⟨ch, t.pen⟩) := by
  unfold Terminal.print wrapPart printRest
  simp only [Terminal.activeCharsetValue, hcs, hascii, Charset.translate]
  cases h : (if (t.autoWrapMode && t.pendingWrap) = true then
      let t := t.doMoveCursorToCol 0
      if t.cursor.row = t.bottomMargin then
        match t.buffer.wrap t.cursor.row with
        | none => none
        | some b =>
          match ({ t with buffer := b } : Terminal).scrollUpInRegion 1 with
          | none => none
          | some t =>
            match csub t.rows 1 with
            | none => none
            | some r1 =>
              if t.bottomMargin < r1 then
                match csub t.bottomMargin 1 with
                | none => none
                | some bm1 => (t.buffer.wrap bm1).map fun b => { t with buffer := b }
              else some t
      else
        match csub t.rows 1 with
        | none => none
        | some r1 =>
          if t.cursor.row < r1 then
            match t.buffer.wrap t.cursor.row with
            | none => none
            | some b => ({ t with buffer := b } : Terminal).doMoveCursorToRow (t.cursor.row + 1)
          else some t
    else some t) <;> rfl

theorem wrapPart_no_pending {t : Terminal} (hp : t.pendingWrap = false) : wrapPart t = some t := by
  unfold wrapPart; simp [hp]

theorem wrapPart_scroll {t : Terminal} (hm : TWMode t) (hg : TWGeom t)
    (hp : t.pendingWrap = true) (hrow1 : t.cursor.row + 1 = t.rows) {lr : Line}
    (hrow : t.buffer.view[t.cursor.row]? = some lr) :
    wrapPart t = some (wrappedScroll t lr (List.replicate t.rows true)) := by
  have heq : t.cursor.row = t.bottomMargin := by have := hm.bottom; omega
  have hw : (t.doMoveCursorToCol 0).buffer.wrap (t.doMoveCursorToCol 0).cursor.row
      = some { t.buffer with view := t.buffer.view.set t.cursor.row { lr with wrapped := true } } := by
    simp [Buffer.wrap, Buffer.updRow, modAtM, Terminal.doMoveCursorToCol, hrow]
  have hrs : csub t.rows 1 = some (t.rows - 1) := by
    unfold csub; have := hg.rows_pos; simp; omega
  unfold wrapPart
  simp only [hm.autoWrap, hp, Bool.and_self, if_true]
  rw [if_pos (show (t.doMoveCursorToCol 0).cursor.row = (t.doMoveCursorToCol 0).bottomMargin from heq), hw]
  simp only
  rw [scrollUpInRegion_full]
  · simp only
    have hnlt : ¬ (t.doMoveCursorToCol 0).bottomMargin < t.rows - 1 := by
      show ¬ t.bottomMargin < t.rows - 1
      have := hm.bottom; omega
    show (match csub t.rows 1 with
      | none => none
      | some r1 => if (t.doMoveCursorToCol 0).bottomMargin < r1 then _ else _) = _
    rw [hrs]
    simp only [hnlt, if_false]
    rfl
  · exact hm.top
  · exact hm.bottom
  · exact hg.brows
  · exact hg.rows_pos
  · exact hg.dirty_len

theorem wrapPart_move {t : Terminal} (hm : TWMode t) (hg : TWGeom t)
    (hp : t.pendingWrap = true) (hrow1 : t.cursor.row + 1 < t.rows) {lr : Line}
    (hrow : t.buffer.view[t.cursor.row]? = some lr) :
    wrapPart t = some (wrappedMove t lr) := by
  have hcs : csub t.cols 1 = some (t.cols - 1) := by
    unfold csub; have := hg.cols_pos; simp; omega
  have hrs : csub t.rows 1 = some (t.rows - 1) := by
    unfold csub; have := hg.rows_pos; simp; omega
  have hne : ¬ t.cursor.row = t.bottomMargin := by have := hm.bottom; omega
  have hlt : t.cursor.row < t.rows - 1 := by omega
  unfold wrapPart
  simp only [hp, hm.autoWrap, Bool.and_self, if_true, Terminal.doMoveCursorToCol, hne, if_false, hrs, hlt,
    Buffer.wrap, Buffer.updRow, modAtM, hrow, Option.map_some, Terminal.doMoveCursorToRow, hcs,
    wrappedMove, Nat.zero_min]

/-- printing with a wrap pending = carrying out the wrap, then printing -/
theorem print_of_wrapPart {t t1 : Terminal} (hm : TWMode t) (h : wrapPart t = some t1)
    (h1 : t1.pendingWrap = false) (hpen : t1.pen = t.pen) (hcs : t1.activeCharset = t.activeCharset)
    (hch : t1.charsets = t.charsets) (ch : Nat) : t.print ch = t1.print ch := by
  rw [print_split t ch hm.charset.1 hm.charset.2,
    print_split t1 ch (by rw [hcs]; exact hm.charset.1) (by rw [hch]; exact hm.charset.2),
    h, wrapPart_no_pending h1, hpen]

end Avt.Lemmas
