/-
  Avt.Lemmas.C10Width3 — the full C10 relation for a width-changing `Buffer.resize`.
-/
import Avt.Lemmas.C10Width2

namespace Avt.Lemmas
open Avt Avt.Spec.C10

/-- the reflowed rows seen as a buffer of their own (`oR` rows high), on which phase 2 of
    `Buffer.resize` is a height-only resize -/
def mkBuf (ls : List Line) (c oR : Nat) (lim : Option Limit) : Buffer :=
  { sb := ls.take (ls.length - oR), view := ls.drop (ls.length - oR), cols := c, rows := oR,
    limit := lim, trimNeeded := true }

theorem mkBuf_lines (ls : List Line) (c oR : Nat) (lim : Option Limit) : (mkBuf ls c oR lim).lines = ls := by
  simp [mkBuf, Buffer.lines]

theorem mkBuf_sb_length (ls : List Line) (c oR : Nat) (lim : Option Limit) :
    (mkBuf ls c oR lim).sb.length = ls.length - oR := by
  simp [mkBuf, List.length_take]

theorem mkBuf_view_length {ls : List Line} {oR : Nat} (h : oR ≤ ls.length) (c : Nat) (lim : Option Limit) :
    (mkBuf ls c oR lim).view.length = (mkBuf ls c oR lim).rows := by
  simp [mkBuf, List.length_drop]; omega

theorem mkBuf_resize {ls : List Line} {c oR r : Nat} {lim : Option Limit} {cur1 cur2 : Nat × Nat}
    {ls2 : List Line} {k : Nat} (hoR : oR ≤ ls.length)
    (h2 : Buffer.rsStep2 c r ls cur1 oR = some (ls2, cur2)) (hk : csub ls2.length r = some k) :
    ∃ b2, (mkBuf ls c oR lim).resize c r cur1 = some (b2, cur2) ∧ b2.lines = ls2 ∧ b2.sb.length = k := by
  have hlp : ∃ lp, Buffer.logicalPosition (mkBuf ls c oR lim).lines cur1 (mkBuf ls c oR lim).cols
      (mkBuf ls c oR lim).rows = some lp := by
    rw [mkBuf_lines]
    unfold Buffer.logicalPosition
    have : csub ls.length (mkBuf ls c oR lim).rows = some (ls.length - oR) := by
      unfold csub; simp [mkBuf, hoR]
    rw [this]; exact ⟨_, rfl⟩
  obtain ⟨lp, hlp⟩ := hlp
  have hs1 : Buffer.rsStep1 (mkBuf ls c oR lim).lines (mkBuf ls c oR lim).cols (mkBuf ls c oR lim).rows c cur1 lp
      = some (ls, cur1, oR) := by
    rw [mkBuf_lines]
    unfold Buffer.rsStep1
    simp [mkBuf]
  have hkk : k = ls2.length - r ∧ r ≤ ls2.length := by
    unfold csub at hk; split at hk <;> simp at hk; omega
  refine ⟨{ sb := ls2.take k, view := ls2.drop k, cols := c, rows := r, limit := lim,
              trimNeeded := true }, ?_, ?_, ?_⟩
  · rw [Buffer.resize_eq, hlp]
    simp only [hs1, h2, hk]
    rfl
  · simp [Buffer.lines]
  · simp [List.length_take]; omega

/-- the phases of a width-changing `Buffer.resize`, spelled out -/
theorem resize_width_phases {b b' : Buffer} {c r : Nat} {cur cur' : Nat × Nat} (hne : c ≠ b.cols)
    (h : b.resize c r cur = some (b', cur')) {lp : Nat × Nat}
    (hlp : Buffer.logicalPosition b.lines cur b.cols b.rows = some lp) :
    ∃ (out ls1 : List Line) (rc : Nat) (rr : Int) (cur1 : Nat × Nat) (oR : Nat) (ls2 : List Line) (k : Nat),
      Buffer.reflow b.lines c = some out
      ∧ ls1 = (if out.length < b.rows
          then out ++ List.replicate (b.rows - out.length) (Line.blank c Pen.default) else out)
      ∧ Buffer.relativePosition ls1 lp c b.rows = some (rc, rr)
      ∧ ((0 ≤ rr ∧ cur1 = (rc, rr.toNat) ∧ oR = b.rows)
          ∨ (rr < 0 ∧ cur1 = (rc, 0) ∧ oR = b.rows + (-rr).toNat))
      ∧ Buffer.rsStep2 c r ls1 cur1 oR = some (ls2, cur') ∧ csub ls2.length r = some k
      ∧ b'.lines = ls2 ∧ b'.sb.length = k := by
  rw [Buffer.resize_eq, hlp] at h
  simp only at h
  cases hs1 : Buffer.rsStep1 b.lines b.cols b.rows c cur lp with
  | none => simp [hs1] at h
  | some s1 =>
    obtain ⟨ls1, cur1, oR⟩ := s1
    simp only [hs1] at h
    cases hs2 : Buffer.rsStep2 c r ls1 cur1 oR with
    | none => simp [hs2] at h
    | some s2 =>
      obtain ⟨ls2, cur2⟩ := s2
      simp only [hs2] at h
      cases hk : csub ls2.length r with
      | none => simp [hk] at h
      | some k =>
        simp only [hk, Option.some.injEq, Prod.mk.injEq] at h
        obtain ⟨rfl, rfl⟩ := h
        have hkk : k = ls2.length - r ∧ r ≤ ls2.length := by
          unfold csub at hk; split at hk <;> simp at hk; omega
        unfold Buffer.rsStep1 at hs1
        rw [if_pos hne] at hs1
        cases hre : Buffer.reflow b.lines c with
        | none => simp [hre] at hs1
        | some out =>
          simp only [hre] at hs1
          cases hrp : Buffer.relativePosition
              (if out.length < b.rows then out ++ List.replicate (b.rows - out.length) (Line.blank c Pen.default) else out)
              lp c b.rows with
          | none => simp [hrp] at hs1
          | some rp =>
            obtain ⟨rc, rr⟩ := rp
            simp only [hrp] at hs1
            by_cases hpos : rr ≥ 0
            · simp only [hpos, if_true, Option.some.injEq, Prod.mk.injEq] at hs1
              obtain ⟨e1, e2, e3⟩ := hs1
              refine ⟨out, ls1, rc, rr, cur1, oR, ls2, k, rfl, e1.symm, by rw [← e1]; exact hrp,
                Or.inl ⟨hpos, e2.symm, e3.symm⟩, hs2, hk, by simp [Buffer.lines], ?_⟩
              simp [List.length_take]; omega
            · simp only [hpos, if_false, Option.some.injEq, Prod.mk.injEq] at hs1
              obtain ⟨e1, e2, e3⟩ := hs1
              refine ⟨out, ls1, rc, rr, cur1, oR, ls2, k, rfl, e1.symm, by rw [← e1]; exact hrp,
                Or.inr ⟨by omega, e2.symm, e3.symm⟩, hs2, hk, by simp [Buffer.lines], ?_⟩
              simp [List.length_take]; omega

theorem joinRows_length_snoc (ini : List Line) (l : Line) :
    (joinRows (ini ++ [l])).length = ini.countP (fun x => !x.wrapped) + 1 := by
  induction ini with
  | nil => cases hw : l.wrapped <;> simp [joinRows, hw]
  | cons a t ih =>
    cases hw : a.wrapped with
    | false =>
      rw [List.cons_append, joinRows_cons_unwrapped hw, List.countP_cons]
      simp [hw, ih]
    | true =>
      cases hj : joinRows (t ++ [l]) with
      | nil => exact absurd (joinRows_eq_nil.1 hj) (by simp)
      | cons x xs =>
        rw [List.cons_append, joinRows_cons_wrapped hw hj, List.countP_cons]
        rw [hj] at ih
        simp [hw] at ih ⊢; omega

/-- **C10 for a width-changing resize of a buffer**: the complete relation between the logical text
    and the cursor's place before and after -/
theorem width_rel {b b' : Buffer} {c r : Nat} {cur cur' : Nat × Nat} (pending : Bool)
    (hview : b.view.length = b.rows) (hrows : 1 ≤ b.rows) (hlens : ∀ l ∈ b.lines, l.len = b.cols)
    (hlu : lastUnwrapped b.lines = true) (hcur : cur.2 < b.rows) (hc : 1 ≤ c) (hr : 1 ≤ r)
    (hne : c ≠ b.cols) (h : b.resize c r cur = some (b', cur')) :
    resizeRel (logicalLines b.lines) (logicalLines b'.lines)
      (cursorLogical b cur).1 (cursorLogical b cur).2
      (cursorLogical b' cur').1 (cursorLogical b' cur').2 pending = true := by
  have hlen : b.lines.length = b.sb.length + b.rows := by simp [Buffer.lines, hview]
  have hlp := cursorLogical_eq_logicalPosition hview hlens hcur
  generalize hi0 : (cursorLogical b cur).1 = i at *
  generalize ho0 : (cursorLogical b cur).2 = o at *
  obtain ⟨out, ls1, rc, rr, cur1, oR, ls2, k, hre, hls1, hrp, hcase, hs2, hk, hl', hsb'⟩ :=
    resize_width_phases hne h hlp
  -- facts about phase 1 (from the totality proof of `Buffer.resize`)
  obtain ⟨ls1', cur1', oR', hs1', hw1, hlu1, hoRle, hoRpos, hcur1⟩ :=
    Buffer.rsStep1_ok b.lines b.cols b.rows c cur (o, i) hc hrows (by omega) hlens hlu
  have hs1 : Buffer.rsStep1 b.lines b.cols b.rows c cur (o, i) = some (ls1, cur1, oR) := by
    unfold Buffer.rsStep1
    rw [if_pos hne, hre]
    simp only
    rw [← hls1, hrp]
    rcases hcase with ⟨h1, h2, h3⟩ | ⟨h1, h2, h3⟩
    · simp only [ge_iff_le, h1, if_true, h2, h3]
    · have : ¬ rr ≥ 0 := by omega
      simp only [this, if_false, h2, h3]
  rw [hs1] at hs1'
  simp only [Option.some.injEq, Prod.mk.injEq] at hs1'
  obtain ⟨rfl, rfl, rfl⟩ := hs1'
  rw [if_neg hne] at hcur1
  -- the logical lines of the reflowed rows
  have hLA : ∃ e, logicalLines ls1 = logicalLines b.lines ++ List.replicate e [] := by
    have hLL := reflow_logical hre
    rw [hls1]
    split
    · obtain ⟨m, hm⟩ := logicalLines_pad out (b.rows - out.length) c
      exact ⟨m, by rw [hm, hLL]⟩
    · exact ⟨0, by simp [hLL]⟩
  obtain ⟨e, hLA⟩ := hLA
  -- the cursor's line exists
  have hiL : i < (logicalLines b.lines).length := by
    obtain ⟨hsplit, hcount⟩ := logicalLines_at b.lines (b.sb.length + cur.2)
    have hd : b.lines.drop (b.sb.length + cur.2) ≠ [] := by
      intro h0; have := congrArg List.length h0; simp at this; omega
    have hne2 : logicalLines (((b.lines.take (b.sb.length + cur.2)).reverse.takeWhile (fun l => l.wrapped)).reverse
        ++ b.lines.drop (b.sb.length + cur.2)) ≠ [] := by
      intro h0; have := logicalLines_eq_nil.1 h0; simp at this; omega
    rw [hsplit, List.length_append, hcount]
    have : 0 < (logicalLines (((b.lines.take (b.sb.length + cur.2)).reverse.takeWhile (fun l => l.wrapped)).reverse
        ++ b.lines.drop (b.sb.length + cur.2))).length := List.length_pos_iff.2 hne2
    have hi1 : i = (b.lines.take (b.sb.length + cur.2)).countP (fun l => !l.wrapped) := by
      rw [← hi0]; rfl
    omega
  -- enough completed lines in the reflowed rows for the first loop of `relative_position`
  have hls1ne : ls1 ≠ [] := by
    intro h0; rw [h0] at hoRle; simp at hoRle; omega
  have hi1 : i ≤ (ls1.take (ls1.length - 1)).countP (fun l => !l.wrapped) := by
    obtain ⟨ini, l, hil⟩ := exists_snoc hls1ne
    have h1 : (logicalLines ls1).length = ini.countP (fun x => !x.wrapped) + 1 := by
      rw [hil]; simp only [logicalLines, List.length_map]; exact joinRows_length_snoc ini l
    have h2 : ls1.take (ls1.length - 1) = ini := by rw [hil]; simp
    rw [h2]
    rw [hLA, List.length_append] at h1
    omega
  obtain ⟨R, kk, hrr, hrowsle, hcnt, hrun, hkle, hrc, hdich⟩ := relativePosition_spec hw1 hi1 hrp
  -- the reflowed rows as a buffer; the cursor's absolute row in it
  have hR : (ls1.length - oR) + cur1.2 = R := by
    rcases hcase with ⟨h1, h2, h3⟩ | ⟨h1, h2, h3⟩
    · rw [h2, h3]; simp only; omega
    · rw [h2, h3]; simp only; omega
  have hcl1 : ∀ col, cursorLogical (mkBuf ls1 c oR b.limit) (col, cur1.2) = (i, kk * c + col) := by
    intro col
    simp only [cursorLogical, mkBuf_lines, mkBuf_sb_length, hR, hcnt]
    congr 1
    have := hrun; unfold runLen at this; rw [this]
  have hrc1 : cur1.1 = rc := by
    rcases hcase with ⟨-, h2, -⟩ | ⟨-, h2, -⟩ <;> rw [h2]
  -- phase 2, twice: at the translated cursor, and at the end of the cursor row
  obtain ⟨b2, hb2, hb2l, hb2s⟩ := mkBuf_resize (lim := b.limit) hoRle hs2 hk
  have hview1 := mkBuf_view_length hoRle c b.limit
  have hlens1 : ∀ l ∈ (mkBuf ls1 c oR b.limit).lines, l.len = (mkBuf ls1 c oR b.limit).cols := by
    rw [mkBuf_lines]; exact hw1
  have rel1 := rows_only_rel false hview1 hlens1 (cur := cur1) hcur1.2 (Nat.le_of_lt hcur1.1)
    (fun _ => hcur1.1) hb2
  obtain ⟨ls3, cur3, hs3, -, -, hr3, -, -⟩ :=
    Buffer.rsStep2_ok c r ls1 (c, cur1.2) oR hr hw1 hlu1 hoRle hoRpos (Or.inl hcur1.2)
  have hk3 : csub ls3.length r = some (ls3.length - r) := by unfold csub; simp [hr3]
  obtain ⟨b3, hb3, hb3l, hb3s⟩ := mkBuf_resize (lim := b.limit) hoRle hs3 hk3
  have rel2 := rows_only_rel true hview1 hlens1 (cur := (c, cur1.2)) hcur1.2 (Nat.le_refl _)
    (fun h0 => by cases h0) hb3
  have hsame : b3.lines = b2.lines := by
    have e2 := (resize_rows_only hview1 hcur1.2 hb2)
    have e3 := (resize_rows_only (cur := (c, cur1.2)) hview1 hcur1.2 hb3)
    simp only [rowsOnlyOK, Bool.and_eq_true, beq_iff_eq] at e2 e3
    rw [e2.1.1.1, e3.1.1.1, e2.2.2, e3.2.2]
  rw [hsame, mkBuf_lines] at rel2
  rw [mkBuf_lines] at rel1
  have hcl1' : cursorLogical (mkBuf ls1 c oR b.limit) cur1 = (i, kk * c + rc) := by
    have e1 : cur1 = (rc, cur1.2) := Prod.ext hrc1 rfl
    have := hcl1 rc
    rwa [← e1] at this
  rw [hcl1'] at rel1
  rw [hcl1 c] at rel2
  -- the result is `b'` as far as rows and cursor are concerned
  have hfin : cursorLogical b' cur' = cursorLogical b2 cur' := by
    simp only [cursorLogical, hl', hsb', hb2l, hb2s]
  rw [hfin, hl', ← hb2l]
  refine resizeRel_compose (e := e) pending hLA hiL rel1 rel2 ?_
  rcases hdich with hfit | ⟨l, hl, hlw⟩
  · left; rw [hrc]; have : 1 ≤ c := hc; omega
  · by_cases hfit : o - kk * c < c
    · left; rw [hrc]; omega
    · right
      refine ⟨by omega, ?_⟩
      intro a ha
      -- the cursor's line ends with row `R`
      obtain ⟨hsplit, hcount⟩ := logicalLines_at ls1 R
      have haA : (logicalLines ls1)[i]? = some a := by
        rw [hLA, List.getElem?_append_left hiL]; exact ha
      have hdropR : ls1.drop R = l :: ls1.drop (R + 1) := by
        have hlt : R < ls1.length := by
          by_cases h0 : R < ls1.length
          · exact h0
          · rw [List.getElem?_eq_none (by omega)] at hl; cases hl
        rw [List.drop_eq_getElem_cons hlt]
        congr 1
        exact (List.getElem?_eq_some_iff.1 hl).2
      rw [hsplit, List.getElem?_append_right (by rw [hcount, hcnt]; exact Nat.le_refl _),
        hcount, hcnt, Nat.sub_self, hdropR] at haA
      have hj := joinRows_run_append (run_all_wrapped (ls1.take R))
        (joinRows_cons_unwrapped hlw (ls1.drop (R + 1)))
      simp only [logicalLines, hj, List.map_cons, List.getElem?_cons_zero, Option.some.injEq] at haA
      rw [← haA]
      have h1 := rstrip_length_le Cell.isDefault
        (rowsCells ((ls1.take R).reverse.takeWhile (fun l => l.wrapped)).reverse ++ l.cells)
      rw [← stripDefault_eq] at h1
      rw [List.length_append, rowsCells_run_length, hrun] at h1
      have hlc : l.cells.length = c := hw1 l (List.mem_of_getElem? hl)
      omega

end Avt.Lemmas
