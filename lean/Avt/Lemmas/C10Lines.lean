/-
  Avt.Lemmas.C10Lines — cutting rows from the bottom / padding blank rows, seen on the logical lines;
  `Buffer.resize` (any width, any height) never alters, reorders or invents a logical line.
-/
import Avt.Lemmas.C10Resize

namespace Avt.Lemmas
open Avt Avt.Spec.C10

/-! ### cutting rows from the bottom -/

theorem joinRows_head (l : Line) (t : List Line) :
    ∃ s r, joinRows (l :: t) = (l.cells ++ s) :: r := by
  cases hw : l.wrapped with
  | false => exact ⟨[], joinRows t, by rw [joinRows_cons_unwrapped hw]; simp⟩
  | true =>
    cases hj : joinRows t with
    | nil =>
      have := joinRows_eq_nil.1 hj
      subst this
      exact ⟨[], [], by rw [joinRows_cons_wrapped_nil hw]; simp⟩
    | cons x xs => exact ⟨x, xs, joinRows_cons_wrapped hw hj⟩

theorem unwrapLast_cons_cons (l : Line) (y : Line) (t : List Line) :
    unwrapLast (l :: y :: t) = l :: unwrapLast (y :: t) := by
  obtain ⟨ini, z, h⟩ := exists_snoc (xs := y :: t) (by simp)
  rw [h, ← List.cons_append, unwrapLast_append_singleton, unwrapLast_append_singleton]
  rfl

/-- keeping the first `k ≥ 1` rows (and clearing the wrap mark of the last kept row) keeps the first
    `m` joined lines and a prefix `p` of the next one -/
theorem joinRows_cut : ∀ (X : List Line) (k : Nat), 0 < k → k ≤ X.length →
    ∃ m p q, joinRows (unwrapLast (X.take k)) = (joinRows X).take m ++ [p]
      ∧ (joinRows X)[m]? = some q ∧ p <+: q
  | [], k, hk, hle => by simp at hle; omega
  | l :: t, 1, _, _ => by
    refine ⟨0, l.cells, ?_⟩
    obtain ⟨s, r, hs⟩ := joinRows_head l t
    refine ⟨l.cells ++ s, ?_, by rw [hs]; rfl, List.prefix_append _ _⟩
    simp [unwrapLast, joinRows]
  | l :: t, k + 2, _, hle => by
    have hle' : k + 1 ≤ t.length := by simpa using hle
    obtain ⟨m, p, q, h1, h2, h3⟩ := joinRows_cut t (k + 1) (by omega) hle'
    cases t with
    | nil => simp at hle'
    | cons y t' =>
      have htk : (l :: y :: t').take (k + 2) = l :: y :: t'.take k := by simp
      have htk' : (y :: t').take (k + 1) = y :: t'.take k := by simp
      rw [htk, unwrapLast_cons_cons]
      rw [htk'] at h1
      cases hw : l.wrapped with
      | false =>
        refine ⟨m + 1, p, q, ?_, ?_, h3⟩
        · rw [joinRows_cons_unwrapped hw, joinRows_cons_unwrapped hw, h1]; rfl
        · rw [joinRows_cons_unwrapped hw]; simpa using h2
      | true =>
        cases hj : joinRows (y :: t') with
        | nil => exact absurd (joinRows_eq_nil.1 hj) (by simp)
        | cons x xs =>
          rw [hj] at h1 h2
          rw [joinRows_cons_wrapped hw hj]
          cases m with
          | zero =>
            simp only [List.take_zero, List.nil_append] at h1
            simp only [List.getElem?_cons_zero, Option.some.injEq] at h2
            subst h2
            refine ⟨0, l.cells ++ p, l.cells ++ x, ?_, rfl, ?_⟩
            · rw [joinRows_cons_wrapped hw h1]; rfl
            · obtain ⟨s, hs⟩ := h3
              exact ⟨s, by rw [← hs]; simp⟩
          | succ m' =>
            simp only [List.take_succ_cons, List.cons_append] at h1
            refine ⟨m' + 1, p, q, ?_, by simpa using h2, h3⟩
            rw [joinRows_cons_wrapped hw h1]; rfl

theorem logicalLines_cut (X : List Line) (k : Nat) (hk : 0 < k) (hle : k ≤ X.length) :
    ∃ m p q, logicalLines (unwrapLast (X.take k)) = (logicalLines X).take m ++ [p]
      ∧ (logicalLines X)[m]? = some q ∧ p <+: q := by
  obtain ⟨m, p, q, h1, h2, h3⟩ := joinRows_cut X k hk hle
  refine ⟨m, stripDefault p, stripDefault q, ?_, ?_, ?_⟩
  · simp only [logicalLines, h1, List.map_append, List.map_take, List.map_cons, List.map_nil]
  · simp [logicalLines, h2]
  · obtain ⟨s, rfl⟩ := h3
    exact rstrip_prefix_append _ _ _

/-! ### padding blank rows -/

theorem logicalLines_single_wrapped (a : List Cell) : logicalLines [⟨a, true⟩] = [stripDefault a] := by
  simp [logicalLines, joinRows]

theorem logicalLines_pad (xs : List Line) (k c : Nat) :
    ∃ m, logicalLines (xs ++ List.replicate k (Line.blank c Pen.default))
      = logicalLines xs ++ List.replicate m [] := by
  by_cases h : lastUnwrapped xs = true
  · exact ⟨k, by rw [logicalLines_append h, logicalLines_blank_rows]⟩
  · have hne : xs ≠ [] := by intro h0; subst h0; simp [lastUnwrapped] at h
    obtain ⟨ini, l, rfl⟩ := exists_snoc hne
    rw [lastUnwrapped_snoc] at h
    have hw : l.wrapped = true := by simpa using h
    obtain ⟨a, w⟩ := l
    simp only at hw; subst hw
    cases k with
    | zero => exact ⟨0, by simp⟩
    | succ k' =>
      refine ⟨k', ?_⟩
      let l' : Line := ⟨a ++ List.replicate c (Cell.blank Pen.default), false⟩
      have h1 : logicalLines ((ini ++ [⟨a, true⟩]) ++ List.replicate (k' + 1) (Line.blank c Pen.default))
          = logicalLines ((ini ++ [l']) ++ List.replicate k' (Line.blank c Pen.default)) := by
        rw [List.append_assoc, List.append_assoc]
        apply logicalLines_append_congr
        rw [List.replicate_succ]
        exact logicalLines_glue a _ false _
      have h2 : lastUnwrapped (ini ++ [l']) = true := by rw [lastUnwrapped_snoc]; rfl
      have h3 : logicalLines (ini ++ [l']) = logicalLines (ini ++ [⟨a, true⟩]) := by
        apply logicalLines_append_congr
        rw [logicalLines_single_wrapped, logicalLines_cons_unwrapped rfl, logicalLines_nil,
          stripDefault_append_blanks]
      rw [h1, logicalLines_append h2, logicalLines_blank_rows, h3]

/-! ### `keptOrCut` -/

theorem keptOrCut_nil_blank (m : Nat) : keptOrCut [] (List.replicate m []) = true := by
  induction m with
  | zero => rfl
  | succ n ih => simp [List.replicate_succ, keptOrCut, ih]

theorem keptOrCut_pad (L : List (List Cell)) (m : Nat) :
    keptOrCut L (L ++ List.replicate m []) = true := by
  induction L with
  | nil => exact keptOrCut_nil_blank m
  | cons a as ih => simp [keptOrCut, ih]

theorem keptOrCut_of_cut : ∀ (L : List (List Cell)) (e m : Nat) (p q : List Cell),
    (L ++ List.replicate e [])[m]? = some q → p <+: q →
    keptOrCut L ((L ++ List.replicate e []).take m ++ [p]) = true
  | [], e, m, p, q, hq, hp => by
    simp only [List.nil_append] at hq ⊢
    have hq' : q = [] := by
      have := List.mem_of_getElem? hq
      exact (List.mem_replicate.1 this).2
    subst hq'
    have hp' : p = [] := List.prefix_nil.1 hp
    subst hp'
    have : List.take m (List.replicate e ([] : List Cell)) ++ [[]] = List.replicate (min m e + 1) [] := by
      rw [List.take_replicate, List.replicate_succ']
    rw [this]; exact keptOrCut_nil_blank _
  | a :: as, e, 0, p, q, hq, hp => by
    simp only [List.cons_append, List.getElem?_cons_zero, Option.some.injEq] at hq
    subst hq
    simp only [List.take_zero, List.nil_append, keptOrCut, List.isEmpty_nil, Bool.and_true,
      Bool.or_eq_true]
    exact Or.inr (List.isPrefixOf_iff_prefix.2 hp)
  | a :: as, e, m + 1, p, q, hq, hp => by
    simp only [List.cons_append, List.getElem?_cons_succ] at hq
    simp only [List.cons_append, List.take_succ_cons, keptOrCut, beq_self_eq_true, Bool.true_and,
      Bool.or_eq_true]
    exact Or.inl (keptOrCut_of_cut as e m p q hq hp)

/-! ### every resize -/

/-- C10, line content for every resize (width and/or height): the logical lines after
    `Buffer.resize` are the old ones, possibly with the last ones dropped and one cut short at the
    bottom, possibly followed by blank filler — none altered, reordered or invented. -/
theorem resize_lines {b b' : Buffer} {c r : Nat} {cur cur' : Nat × Nat}
    (h : b.resize c r cur = some (b', cur')) :
    keptOrCut (logicalLines b.lines) (logicalLines b'.lines) = true := by
  unfold Buffer.resize at h
  cases hlp : Buffer.logicalPosition b.lines cur b.cols b.rows with
  | none => simp [hlp] at h
  | some lp =>
    simp only [hlp] at h
    -- step 1: reflow (+ padding) keeps the logical lines, up to blank lines at the end
    generalize hs1 : (if c ≠ b.cols then
        match Buffer.reflow b.lines c with
        | none => none
        | some ls =>
          let ls := if ls.length < b.rows
            then ls ++ List.replicate (b.rows - ls.length) (Line.blank c Pen.default) else ls
          match Buffer.relativePosition ls lp c b.rows with
          | none => none
          | some (rc, rr) =>
            if rr ≥ 0 then some (ls, (rc, rr.toNat), b.rows)
            else some (ls, (rc, 0), b.rows + (-rr).toNat)
      else some (b.lines, cur, b.rows)) = step1 at h
    cases step1 with
    | none => simp at h
    | some s1 =>
      obtain ⟨ls1, cur1, rows1⟩ := s1
      have hL1 : ∃ e, logicalLines ls1 = logicalLines b.lines ++ List.replicate e [] := by
        by_cases hc : c ≠ b.cols
        · rw [if_pos hc] at hs1
          cases hrf : Buffer.reflow b.lines c with
          | none => simp [hrf] at hs1
          | some ls =>
            simp only [hrf] at hs1
            have hLL := reflow_logical hrf
            cases hrp : Buffer.relativePosition
                (if ls.length < b.rows then ls ++ List.replicate (b.rows - ls.length) (Line.blank c Pen.default) else ls)
                lp c b.rows with
            | none => simp [hrp] at hs1
            | some rp =>
              obtain ⟨rc, rr⟩ := rp
              simp only [hrp] at hs1
              have hls1 : ls1 = (if ls.length < b.rows then ls ++ List.replicate (b.rows - ls.length) (Line.blank c Pen.default) else ls) := by
                split at hs1 <;> simp at hs1 <;> exact hs1.1.symm
              rw [hls1]
              split
              · obtain ⟨m, hm⟩ := logicalLines_pad ls (b.rows - ls.length) c
                exact ⟨m, by rw [hm, hLL]⟩
              · exact ⟨0, by simp [hLL]⟩
        · rw [if_neg hc] at hs1
          simp only [Option.some.injEq, Prod.mk.injEq] at hs1
          exact ⟨0, by rw [← hs1.1]; simp⟩
      obtain ⟨e, hL1⟩ := hL1
      simp only at h
      -- step 2: cut rows from the bottom or pad blank rows
      by_cases hlt : r < rows1
      · simp only [hlt, if_true] at h
        cases h1 : csub rows1 1 with
        | none => simp [h1] at h
        | some o1 =>
          simp only [h1] at h
          cases h2 : csub o1 cur1.2 with
          | none => simp [h2] at h
          | some inv =>
            simp only [h2] at h
            by_cases hex : min (rows1 - r) inv > 0
            · simp only [hex, if_true] at h
              cases h3 : csub ls1.length (min (rows1 - r) inv) with
              | none => simp [h3] at h
              | some k =>
                simp only [h3] at h
                cases h4 : Buffer.setLastUnwrapped (ls1.take k) with
                | none => simp [h4] at h
                | some ls =>
                  obtain ⟨hls, hne⟩ := setLastUnwrapped_eq h4
                  cases h5 : csub cur1.2 (rows1 - r - min (rows1 - r) inv) with
                  | none => simp [h4, h5] at h
                  | some row =>
                    simp only [h4, h5] at h
                    cases h6 : csub ls.length r with
                    | none => simp [h6] at h
                    | some k' =>
                      simp only [h6, Option.some.injEq, Prod.mk.injEq] at h
                      obtain ⟨rfl, -⟩ := h
                      simp only [Buffer.lines, List.take_append_drop]
                      have hkpos : 0 < k := by
                        cases k with
                        | zero => simp at hne
                        | succ _ => omega
                      have hkle : k ≤ ls1.length := by
                        unfold csub at h3; split at h3 <;> simp at h3; omega
                      obtain ⟨m, p, q, hc1, hc2, hc3⟩ := logicalLines_cut ls1 k hkpos hkle
                      rw [hls, hc1, hL1]
                      rw [hL1] at hc2
                      exact keptOrCut_of_cut _ _ _ _ _ hc2 hc3
            · simp only [hex, if_false] at h
              cases h5 : csub cur1.2 (rows1 - r - min (rows1 - r) inv) with
              | none => simp [h5] at h
              | some row =>
                simp only [h5] at h
                cases h6 : csub ls1.length r with
                | none => simp [h6] at h
                | some k' =>
                  simp only [h6, Option.some.injEq, Prod.mk.injEq] at h
                  obtain ⟨rfl, -⟩ := h
                  simp only [Buffer.lines, List.take_append_drop]
                  rw [hL1]; exact keptOrCut_pad _ _
      · simp only [hlt, if_false] at h
        by_cases hgt : r > rows1
        · simp only [hgt, if_true] at h
          generalize hnl : (if r - rows1 - min (ls1.length - min rows1 ls1.length) (r - rows1) > 0 then
              ls1 ++ List.replicate (r - rows1 - min (ls1.length - min rows1 ls1.length) (r - rows1))
                (Line.blank c Pen.default) else ls1) = nl at h
          cases h6 : csub nl.length r with
          | none => simp [h6] at h
          | some k' =>
            simp only [h6, Option.some.injEq, Prod.mk.injEq] at h
            obtain ⟨rfl, -⟩ := h
            simp only [Buffer.lines, List.take_append_drop]
            have : ∃ m, logicalLines nl = logicalLines b.lines ++ List.replicate m [] := by
              rw [← hnl]
              split
              · obtain ⟨m, hm⟩ := logicalLines_pad ls1 (r - rows1 - min (ls1.length - min rows1 ls1.length) (r - rows1)) c
                exact ⟨e + m, by rw [hm, hL1, List.append_assoc, List.replicate_append_replicate]⟩
              · exact ⟨e, hL1⟩
            obtain ⟨m, hm⟩ := this
            rw [hm]; exact keptOrCut_pad _ _
        · simp only [hgt, if_false] at h
          cases h6 : csub ls1.length r with
          | none => simp [h6] at h
          | some k' =>
            simp only [h6, Option.some.injEq, Prod.mk.injEq] at h
            obtain ⟨rfl, -⟩ := h
            simp only [Buffer.lines, List.take_append_drop]
            rw [hL1]; exact keptOrCut_pad _ _

end Avt.Lemmas
