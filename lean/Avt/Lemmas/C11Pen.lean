/-
  Avt.Lemmas.C11Pen — `Pen::dump` round trip.

  * parameter level: the SGR parameter list `Pen::dump` writes (`penRegs`) decodes (`SgrOps`) to
    operations that turn ANY pen into the dumped pen (`sgrOps_penRegs`, `apply_penOps`);
  * character level: `Pen.dump p` is `ESC [ <penRegs p rendered> m`, and feeding it to a parser
    resting in `Ground` emits exactly one `Sgr` function with those operations (`pfeed_pen_dump`).
-/
import Avt.Lemmas.C11ParserDump

namespace Avt
namespace Lemmas.C11
open Avt.Spec.C11

/-! ### the parameter list of `Pen::dump` -/

def colorRegs (base : Nat) : Color → Regs
  | .indexed n =>
    if n < 8 then [[base + n]] else if n < 16 then [[base + 52 + n]] else [[base + 8, 5, n]]
  | .rgb r g b => [[base + 8, 2, r, g, b]]

def optRegs (b : Bool) (n : Nat) : Regs := if b then [[n]] else []

def penRegs (p : Pen) : Regs :=
  [[0]]
    ++ (match p.fg with | some c => colorRegs 30 c | none => [])
    ++ (match p.bg with | some c => colorRegs 40 c | none => [])
    ++ (match p.intensity with | .normal => [] | .bold => [[1]] | .faint => [[2]])
    ++ optRegs p.isItalic 3 ++ optRegs p.isUnderline 4 ++ optRegs p.isBlink 5
    ++ optRegs p.isInverse 7 ++ optRegs p.isStrikethrough 9

def optOps (b : Bool) (op : SgrOp) : List SgrOp := if b then [op] else []

/-- the operations `SgrOps` decodes from `penRegs p` -/
def penOps (p : Pen) : List SgrOp :=
  [SgrOp.reset]
    ++ (match p.fg with | some c => [SgrOp.setFg c] | none => [])
    ++ (match p.bg with | some c => [SgrOp.setBg c] | none => [])
    ++ (match p.intensity with | .normal => [] | .bold => [SgrOp.setBold] | .faint => [SgrOp.setFaint])
    ++ optOps p.isItalic .setItalic ++ optOps p.isUnderline .setUnderline ++ optOps p.isBlink .setBlink
    ++ optOps p.isInverse .setInverse ++ optOps p.isStrikethrough .setStrikethrough

def ColorOK : Color → Prop
  | .indexed n => n < 256
  | .rgb r g b => r < 256 ∧ g < 256 ∧ b < 256

/-- what every pen the terminal can hold satisfies (`attrs` is a `u8` with five flag bits; colour
    components are `u8`) -/
def PenOK (p : Pen) : Prop :=
  p.attrs < 32 ∧ (∀ c, p.fg = some c → ColorOK c) ∧ (∀ c, p.bg = some c → ColorOK c)

/-! ### decoding -/

/-- `A` decodes to `ops`, one parameter per operation, none of them looking ahead -/
inductive Decodes : Regs → List SgrOp → Prop
  | nil : Decodes [] []
  | cons {ps : List Nat} {op : SgrOp} {A : Regs} {ops : List SgrOp} :
      (∀ rest, Parser.sgrStep (encParam ps) rest = some (some op, 0)) → Decodes A ops →
      Decodes (ps :: A) (op :: ops)

theorem Decodes.append {A B : Regs} {o1 o2 : List SgrOp} (h1 : Decodes A o1) (h2 : Decodes B o2) :
    Decodes (A ++ B) (o1 ++ o2) := by
  induction h1 with
  | nil => exact h2
  | cons h _ ih => exact Decodes.cons h ih

theorem Decodes.sgrOps {A : Regs} {ops : List SgrOp} (h : Decodes A ops) :
    Parser.sgrOps (A.map encParam) = some ops := by
  induction h with
  | nil => rfl
  | cons h _ ih =>
    simp only [Parser.sgrOps] at ih
    simp only [Parser.sgrOps, List.map_cons, Parser.sgrGo, h, ih]

theorem Decodes.single {ps : List Nat} {op : SgrOp}
    (h : ∀ rest, Parser.sgrStep (encParam ps) rest = some (some op, 0)) : Decodes [ps] [op] :=
  Decodes.cons h Decodes.nil

theorem decodes_small : ∀ n, n < 8 →
    Decodes [[30 + n]] [.setFg (.indexed n)] ∧ Decodes [[40 + n]] [.setBg (.indexed n)]
    ∧ Decodes [[30 + 52 + (8 + n)]] [.setFg (.indexed (8 + n))]
    ∧ Decodes [[40 + 52 + (8 + n)]] [.setBg (.indexed (8 + n))] := by
  intro n hn
  have : n = 0 ∨ n = 1 ∨ n = 2 ∨ n = 3 ∨ n = 4 ∨ n = 5 ∨ n = 6 ∨ n = 7 := by omega
  rcases this with h | h | h | h | h | h | h | h <;> subst h <;>
    exact ⟨Decodes.single fun _ => rfl, Decodes.single fun _ => rfl, Decodes.single fun _ => rfl,
      Decodes.single fun _ => rfl⟩

theorem decodes_color (c : Color) (h : ColorOK c) :
    Decodes (colorRegs 30 c) [.setFg c] ∧ Decodes (colorRegs 40 c) [.setBg c] := by
  cases c with
  | indexed n =>
    have hn : n < 256 := h
    simp only [colorRegs]
    by_cases h8 : n < 8
    · simp only [h8, if_true]
      exact ⟨(decodes_small n h8).1, (decodes_small n h8).2.1⟩
    · by_cases h16 : n < 16
      · simp only [h8, h16, if_true, if_false]
        obtain ⟨m, rfl⟩ : ∃ m, n = 8 + m := ⟨n - 8, by omega⟩
        exact ⟨(decodes_small m (by omega)).2.2.1, (decodes_small m (by omega)).2.2.2⟩
      · simp only [h8, h16, if_false]
        have hu : Parser.u8 n = n := Nat.mod_eq_of_lt hn
        constructor
        · exact Decodes.single fun _ => by
            show some (some (SgrOp.setFg (Color.indexed (Parser.u8 n))), 0) = _
            rw [hu]
        · exact Decodes.single fun _ => by
            show some (some (SgrOp.setBg (Color.indexed (Parser.u8 n))), 0) = _
            rw [hu]
  | rgb r g b =>
    obtain ⟨hr, hg, hb⟩ : r < 256 ∧ g < 256 ∧ b < 256 := h
    have h1 : Parser.u8 r = r := Nat.mod_eq_of_lt hr
    have h2 : Parser.u8 g = g := Nat.mod_eq_of_lt hg
    have h3 : Parser.u8 b = b := Nat.mod_eq_of_lt hb
    constructor
    · exact Decodes.single fun _ => by
        show some (some (SgrOp.setFg (Color.rgb (Parser.u8 r) (Parser.u8 g) (Parser.u8 b))), 0) = _
        rw [h1, h2, h3]
    · exact Decodes.single fun _ => by
        show some (some (SgrOp.setBg (Color.rgb (Parser.u8 r) (Parser.u8 g) (Parser.u8 b))), 0) = _
        rw [h1, h2, h3]

theorem decodes_opt (b : Bool) (n : Nat) (op : SgrOp)
    (h : ∀ rest, Parser.sgrStep (encParam [n]) rest = some (some op, 0)) :
    Decodes (optRegs b n) (optOps b op) := by
  cases b
  · exact Decodes.nil
  · exact Decodes.single h

/-- the parameter list `Pen::dump` writes decodes to `penOps` -/
theorem decodes_penRegs (p : Pen) (h : PenOK p) : Decodes (penRegs p) (penOps p) := by
  obtain ⟨_, hfg, hbg⟩ := h
  unfold penRegs penOps
  refine Decodes.append (Decodes.append (Decodes.append (Decodes.append (Decodes.append (Decodes.append
    (Decodes.append (Decodes.append (Decodes.single fun _ => rfl) ?_) ?_) ?_)
    (decodes_opt _ 3 _ fun _ => rfl)) (decodes_opt _ 4 _ fun _ => rfl)) (decodes_opt _ 5 _ fun _ => rfl))
    (decodes_opt _ 7 _ fun _ => rfl)) (decodes_opt _ 9 _ fun _ => rfl)
  · cases hf : p.fg with
    | none => exact Decodes.nil
    | some c => exact (decodes_color c (hfg c hf)).1
  · cases hb : p.bg with
    | none => exact Decodes.nil
    | some c => exact (decodes_color c (hbg c hb)).2
  · cases p.intensity
    · exact Decodes.nil
    · exact Decodes.single fun _ => rfl
    · exact Decodes.single fun _ => rfl

theorem sgrOps_penRegs (p : Pen) (h : PenOK p) :
    Parser.sgrOps ((penRegs p).map encParam) = some (penOps p) :=
  (decodes_penRegs p h).sgrOps

/-! ### applying the operations -/

theorem attrs_rebuild : ∀ a, a < 32 →
    ((((((0 ||| (if (a &&& Gen.italicMask != 0) = true then Gen.italicMask else 0))
      ||| (if (a &&& Gen.underlineMask != 0) = true then Gen.underlineMask else 0))
      ||| (if (a &&& Gen.blinkMask != 0) = true then Gen.blinkMask else 0))
      ||| (if (a &&& Gen.inverseMask != 0) = true then Gen.inverseMask else 0))
      ||| (if (a &&& Gen.strikethroughMask != 0) = true then Gen.strikethroughMask else 0))) = a := by
  decide

theorem foldl_optOps (b : Bool) (m : Nat) (op : SgrOp) (q : Pen)
    (h : ∀ q, Terminal.applySgr q op = q.setBit m) :
    (optOps b op).foldl Terminal.applySgr q = { q with attrs := q.attrs ||| (if b = true then m else 0) } := by
  cases b
  · simp [optOps]
  · simp [optOps, h, Pen.setBit]

/-- applying the decoded operations to ANY pen gives the dumped pen -/
theorem apply_penOps (p q : Pen) (h : PenOK p) : (penOps p).foldl Terminal.applySgr q = p := by
  obtain ⟨ha, _, _⟩ := h
  obtain ⟨fg, bg, int, attrs⟩ := p
  simp only [penOps, List.foldl_append, List.foldl_cons, List.foldl_nil, Terminal.applySgr]
  rw [foldl_optOps _ Gen.strikethroughMask _ _ (fun _ => rfl), foldl_optOps _ Gen.inverseMask _ _ (fun _ => rfl),
    foldl_optOps _ Gen.blinkMask _ _ (fun _ => rfl), foldl_optOps _ Gen.underlineMask _ _ (fun _ => rfl),
    foldl_optOps _ Gen.italicMask _ _ (fun _ => rfl)]
  simp only [Pen.isItalic, Pen.isUnderline, Pen.isBlink, Pen.isInverse, Pen.isStrikethrough]
  have hattrs := attrs_rebuild attrs ha
  cases fg <;> cases bg <;> cases int <;>
    simp only [List.foldl_cons, List.foldl_nil, Terminal.applySgr, Pen.mk.injEq, true_and] <;> exact hattrs

/-! ### a numeric CSI sequence, character by character -/

theorem renderAll_cons (ps : List Nat) : ∀ (A : Regs),
    renderAll (ps :: A) = renderParts ps ++ (A.map fun qs => 0x3b :: renderParts qs).flatten
  | [] => by simp [renderAll_single]
  | qs :: A => by
    rw [renderAll_cons₂, renderAll_cons qs A]
    simp

theorem partsSlice_encParam (ps : List Nat) (h : PartsOK ps) : (encParam ps).partsSlice = some ps := by
  obtain ⟨h1, h2, _⟩ := h
  simp only [Param.partsSlice, encParam, List.length_append, List.length_replicate]
  rw [if_pos (by omega)]
  have : ps.length - 1 + 1 = ps.length := by omega
  rw [this, List.take_left']
  rfl

theorem activeParams_conc (st : PState) (im : Option Nat) (A : Regs) (hA : RegsOK A) :
    (conc st im A).activeParams = some (A.map encParam) := by
  obtain ⟨h1, h2, _⟩ := hA
  simp only [Parser.activeParams, conc, encParams, List.length_append, List.length_map, List.length_replicate]
  rw [if_pos (by omega)]
  have : A.length - 1 + 1 = (A.map encParam).length := by simp; omega
  rw [this, List.take_left' rfl]

theorem csiParam_final : ∀ c, c < 127 → 64 ≤ c →
    Parser.findArm Gen.feedArms .CsiParam (Parser.premap c)
      = some ⟨[⟨some PState.CsiParam, 64, 126⟩], [Act.setState PState.Ground, Act.retCsiDispatch]⟩ := by
  decide

/-- `CSI p;p:q;… F`: the parameter list is rebuilt in the registers and the final byte dispatches on
    them; the parser is back in `Ground` -/
theorem pfeed_csi_body (A : Regs) (hA : RegsOK A) (fin : Nat) (h1 : 64 ≤ fin) (h2 : fin ≤ 126) :
    pfeedAll (clean .CsiEntry) (renderAll A ++ [fin])
      = (Parser.csiDispatch (conc .Ground none A) fin).map fun f => (conc .Ground none A, f.toList) := by
  have hA' := hA
  have h := pfeed_entry paramState_csi csiEntry_digit csiEntry_marker none (Or.inl rfl) A hA
    (fun c hc => renderAll_chars _ c hc)
  simp only [Option.toList_none, List.nil_append] at h
  rw [pfeedAll_append, h]
  simp only [Option.bind_some, pfeedAll, Parser.feed, conc, csiParam_final fin (by omega) h1, Parser.runActs]
  cases Parser.csiDispatch _ fin with
  | none => rfl
  | some f => cases f <;> rfl

theorem escape_bracket : (clean .Escape).feed 0x5b = some (clean .CsiEntry, none) := by decide

theorem csiArm_sgr : Gen.csiArms.find? (fun a => Parser.CsiArm.matches a none 0x6d)
    = some ⟨none, 109, CsiRhs.sgr⟩ := rfl

/-- `ESC [ <params> m` from a parser resting in `Ground`: exactly one `Sgr` with the decoded ops -/
theorem pfeed_sgr (q0 : Parser) (hG : q0.state = .Ground) (hP : PInv q0 = true) (A : Regs) (hA : RegsOK A)
    (ops : List SgrOp) (hops : Parser.sgrOps (A.map encParam) = some ops) :
    pfeedAll q0 (0x1b :: 0x5b :: renderAll A ++ [0x6d]) = some (conc .Ground none A, [Function.sgr ops]) := by
  obtain ⟨hE, _, _⟩ := feed_clearing q0 hG hP
  rw [List.cons_append, List.cons_append, pfeedAll_cons_silent _ _ _ _ hE,
    pfeedAll_cons_silent _ _ _ _ escape_bracket, pfeed_csi_body A hA 0x6d (by decide) (by decide)]
  simp only [Parser.csiDispatch, conc, csiArm_sgr]
  have := activeParams_conc .Ground none A hA
  simp only [conc] at this
  simp only [this, hops]
  rfl

/-! ### `Pen::dump`, character level -/

theorem regsOK_penRegs (p : Pen) (h : PenOK p) : RegsOK (penRegs p) := by
  obtain ⟨_, hfg, hbg⟩ := h
  have hc : ∀ base c, base ≤ 40 → ColorOK c → (colorRegs base c).length = 1 ∧ ∀ ps ∈ colorRegs base c, PartsOK ps := by
    intro base c hb hc
    cases c with
    | indexed n =>
      have hn : n < 256 := hc
      simp only [colorRegs]
      split
      · simp [PartsOK]; omega
      · split
        · simp [PartsOK]; omega
        · simp [PartsOK]; omega
    | rgb r g b =>
      obtain ⟨hr, hg, hb'⟩ : r < 256 ∧ g < 256 ∧ b < 256 := hc
      simp [colorRegs, PartsOK]; omega
  have hf : (match p.fg with | some c => colorRegs 30 c | none => []).length ≤ 1
      ∧ ∀ ps ∈ (match p.fg with | some c => colorRegs 30 c | none => []), PartsOK ps := by
    cases hfg' : p.fg with
    | none => simp
    | some c =>
      have := hc 30 c (by omega) (hfg c hfg')
      show (colorRegs 30 c).length ≤ 1 ∧ ∀ ps ∈ colorRegs 30 c, PartsOK ps
      exact ⟨by omega, this.2⟩
  have hb : (match p.bg with | some c => colorRegs 40 c | none => []).length ≤ 1
      ∧ ∀ ps ∈ (match p.bg with | some c => colorRegs 40 c | none => []), PartsOK ps := by
    cases hbg' : p.bg with
    | none => simp
    | some c =>
      have := hc 40 c (by omega) (hbg c hbg')
      show (colorRegs 40 c).length ≤ 1 ∧ ∀ ps ∈ colorRegs 40 c, PartsOK ps
      exact ⟨by omega, this.2⟩
  have hi : (match p.intensity with | .normal => ([] : Regs) | .bold => [[1]] | .faint => [[2]]).length ≤ 1
      ∧ ∀ ps ∈ (match p.intensity with | .normal => ([] : Regs) | .bold => [[1]] | .faint => [[2]]), PartsOK ps := by
    cases p.intensity <;> simp [PartsOK]
  have ho : ∀ b n, n < 10 → (optRegs b n).length ≤ 1 ∧ ∀ ps ∈ optRegs b n, PartsOK ps := by
    intro b n hn
    cases b <;> simp [optRegs, PartsOK]; omega
  have o1 := ho p.isItalic 3 (by omega)
  have o2 := ho p.isUnderline 4 (by omega)
  have o3 := ho p.isBlink 5 (by omega)
  have o4 := ho p.isInverse 7 (by omega)
  have o5 := ho p.isStrikethrough 9 (by omega)
  refine ⟨by simp [penRegs], ?_, ?_⟩
  · simp only [penRegs, List.length_append, List.length_cons, List.length_nil]
    omega
  · intro ps hps
    simp only [penRegs, List.mem_append, List.mem_cons, List.not_mem_nil, or_false] at hps
    rcases hps with (((((((h | h) | h) | h) | h) | h) | h) | h) | h
    · subst h; simp [PartsOK]
    · exact hf.2 ps h
    · exact hb.2 ps h
    · exact hi.2 ps h
    · exact o1.2 ps h
    · exact o2.2 ps h
    · exact o3.2 ps h
    · exact o4.2 ps h
    · exact o5.2 ps h

theorem flatten_optRegs (b : Bool) (n : Nat) :
    ((optRegs b n).map fun qs => 0x3b :: renderParts qs).flatten = if b = true then 0x3b :: renderDec n else [] := by
  cases b <;> simp [optRegs, renderParts]

theorem renderDec_2 : renderDec 2 = [0x32] := rfl
theorem renderDec_5 : renderDec 5 = [0x35] := rfl

theorem sgrParams_eq (base : Nat) (hb : base ≤ 40) (c : Color) (h : ColorOK c) :
    c.sgrParams base = some (renderAll (colorRegs base c)) := by
  cases c with
  | indexed n =>
    have hn : n < 256 := h
    have e2 : base + 52 < 256 := by omega
    have e4 : base + 8 < 256 := by omega
    by_cases h8 : n < 8
    · have e1 : base + n < 256 := by omega
      simp [Color.sgrParams, colorRegs, Gen.colorLt1, h8, e1, renderAll_single, renderParts]
    · by_cases h16 : n < 16
      · have e3 : base + 52 + n < 256 := by omega
        simp [Color.sgrParams, colorRegs, Gen.colorLt1, Gen.colorLt2, Gen.colorBrightAdd, h8, h16, e2, e3,
          renderAll_single, renderParts]
      · simp [Color.sgrParams, colorRegs, Gen.colorLt1, Gen.colorLt2, Gen.colorIdxAdd, h8, h16, e4,
          renderAll_single, renderParts, renderDec_5]
  | rgb r g b =>
    have e4 : base + 8 < 256 := by omega
    simp [Color.sgrParams, colorRegs, Gen.colorRgbAdd, e4, renderAll_single, renderParts, renderDec_2]

theorem colorRegs_single (base : Nat) (hb : base ≤ 40) (c : Color) (h : ColorOK c) :
    ∃ ps, colorRegs base c = [ps] ∧ c.sgrParams base = some (renderParts ps) := by
  have := sgrParams_eq base hb c h
  cases c with
  | indexed n =>
    simp only [colorRegs] at this ⊢
    split
    · rename_i h8; simp only [h8, if_true, renderAll_single] at this; exact ⟨_, rfl, this⟩
    · split
      · rename_i h8 h16; simp only [h8, h16, if_true, if_false, renderAll_single] at this; exact ⟨_, rfl, this⟩
      · rename_i h8 h16; simp only [h8, h16, if_false, renderAll_single] at this; exact ⟨_, rfl, this⟩
  | rgb r g b =>
    simp only [colorRegs, renderAll_single] at this ⊢
    exact ⟨_, rfl, this⟩

/-- `Pen::dump` writes `ESC [`, the parameter list `penRegs p`, `m` -/
theorem pen_dump_eq (p : Pen) (h : PenOK p) :
    p.dump = some (0x1b :: 0x5b :: renderAll (penRegs p) ++ [0x6d]) := by
  obtain ⟨_, hfg, hbg⟩ := h
  obtain ⟨fg, bg, int, attrs⟩ := p
  have r0 : renderParts [0] = [0x30] := rfl
  have r1 : renderParts [1] = [0x31] := rfl
  have r2 : renderParts [2] = [0x32] := rfl
  have r3 : renderDec 3 = [0x33] := rfl
  have r4 : renderDec 4 = [0x34] := rfl
  have r5 : renderDec 5 = [0x35] := rfl
  have r7 : renderDec 7 = [0x37] := rfl
  have r9 : renderDec 9 = [0x39] := rfl
  cases fg with
  | none =>
    cases bg with
    | none =>
      cases int <;>
        simp only [Pen.dump, penRegs, List.cons_append, List.nil_append, List.append_nil, renderAll_cons,
          List.map_append, List.flatten_append, flatten_optRegs, List.map_cons,  List.flatten_cons,
          r0, r1, r2, r3, r4, r5, r7, r9, List.append_assoc]
    | some cb =>
      obtain ⟨pb, hpb, hsb⟩ := colorRegs_single 40 (by omega) cb (hbg cb rfl)
      cases int <;>
        simp only [Pen.dump, penRegs, hpb, hsb, Option.map_some, List.cons_append, List.nil_append, List.append_nil,
          renderAll_cons, List.map_append, List.flatten_append, flatten_optRegs, List.map_cons, 
          List.flatten_cons, r0, r1, r2, r3, r4, r5, r7, r9, List.append_assoc]
  | some cf =>
    obtain ⟨pf, hpf, hsf⟩ := colorRegs_single 30 (by omega) cf (hfg cf rfl)
    cases bg with
    | none =>
      cases int <;>
        simp only [Pen.dump, penRegs, hpf, hsf, Option.map_some, List.cons_append, List.nil_append, List.append_nil,
          renderAll_cons, List.map_append, List.flatten_append, flatten_optRegs, List.map_cons, 
          List.flatten_cons, r0, r1, r2, r3, r4, r5, r7, r9, List.append_assoc]
    | some cb =>
      obtain ⟨pb, hpb, hsb⟩ := colorRegs_single 40 (by omega) cb (hbg cb rfl)
      cases int <;>
        simp only [Pen.dump, penRegs, hpf, hsf, hpb, hsb, Option.map_some, List.cons_append, List.nil_append,
          List.append_nil, renderAll_cons, List.map_append, List.flatten_append, flatten_optRegs, List.map_cons,  List.flatten_cons, r0, r1, r2, r3, r4, r5, r7, r9, List.append_assoc]

/-- **`Pen::dump` round trip at character level.**  Feeding `Pen.dump p` to a parser resting in
    `Ground` emits exactly one `Sgr` function, and executing it on ANY pen yields `p`. -/
theorem pfeed_pen_dump (p : Pen) (h : PenOK p) (q0 : Parser) (hG : q0.state = .Ground) (hP : PInv q0 = true) :
    ∃ d q, p.dump = some d ∧ pfeedAll q0 d = some (q, [Function.sgr (penOps p)])
      ∧ q.state = .Ground ∧ ∀ pen, (penOps p).foldl Terminal.applySgr pen = p :=
  ⟨_, _, pen_dump_eq p h, pfeed_sgr q0 hG hP _ (regsOK_penRegs p h) _ (sgrOps_penRegs p h), rfl,
    fun pen => apply_penOps p pen h⟩

end Lemmas.C11
end Avt
