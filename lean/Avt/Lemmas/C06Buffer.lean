/-
  Avt.Lemmas.C06Buffer — `Buffer.scrollUp` / `Buffer.scrollDown` meet their specification.
-/
import Avt.Lemmas.PrimScroll
import Avt.Spec.C06

namespace Avt.C06L
open Avt.PrimL
open Avt.Spec.C06

theorem BInv_facts {b : Buffer} (h : BInv b = true) :
    1 ≤ b.cols ∧ 1 ≤ b.rows ∧ b.view.length = b.rows ∧ (∀ l ∈ b.view, l.cells.length = b.cols) := by
  simp [BInv] at h
  grind

theorem unmarkAt_eq_set (v : List Line) (i : Nat) (h : i < v.length) :
    v.set i (unmark v[i]) = unmarkAt v i := by
  unfold unmarkAt
  list_pw

@[simp] theorem length_unmarkAt (v : List Line) (i : Nat) : (unmarkAt v i).length = v.length := by
  unfold unmarkAt
  simp
  omega

theorem unwrapRow_eq (b : Buffer) (i : Nat) (h : i < b.view.length) :
    b.unwrapRow i = some { b with view := unmarkAt b.view i } := by
  unfold Buffer.unwrapRow Buffer.updRow
  rw [modAtM_eq b.view i _ (unmark b.view[i]) h rfl, unmarkAt_eq_set _ _ h]
  rfl

theorem clear_eq (b : Buffer) (a c : Nat) (pen : Pen) (h1 : a ≤ c) (h2 : c ≤ b.view.length) :
    b.clear a c pen = some { b with view := b.view.take a ++ blankRows (c - a) b.cols pen ++ b.view.drop c } := by
  unfold Buffer.clear
  rw [fillRange_eq _ _ _ _ h1 h2]
  rfl

theorem csub_eq (a b : Nat) (h : b ≤ a) : csub a b = some (a - b) := by simp [csub, h]

theorem scrollUp_eq (b : Buffer) (s e n : Nat) (pen : Pen) (hb : BInv b = true) (hse : s < e)
    (he : e ≤ b.rows) : b.scrollUp s e n pen = some (scrollUpSpec s e n pen b) := by
  obtain ⟨hc, hr, hv, _⟩ := BInv_facts hb
  unfold Buffer.scrollUp
  simp only [csub_eq e s (by omega), csub_eq e 1 (by omega), csub_eq b.rows 1 hr]
  have h1 : (if e - 1 < b.rows - 1 then b.unwrapRow (e - 1) else some b)
      = some { b with view := if e < b.rows then unmarkAt b.view (e - 1) else b.view } := by
    by_cases hlt : e < b.rows
    · have h' : e - 1 < b.rows - 1 := by omega
      simp only [h', hlt, if_true]
      exact unwrapRow_eq _ _ (by omega)
    · have h' : ¬ (e - 1 < b.rows - 1) := by omega
      simp only [h', hlt, if_false]
  rw [h1]
  unfold scrollUpSpec upMarks
  have hw : (if e < b.rows then unmarkAt b.view (e - 1) else b.view).length = b.rows := by
    split <;> simp [hv]
  generalize (if e < b.rows then unmarkAt b.view (e - 1) else b.view) = w at hw ⊢
  have hk : min n (e - s) ≤ e - s := Nat.min_le_right _ _
  generalize min n (e - s) = k at hk ⊢
  simp only [blankRows]
  by_cases hs : s = 0
  · subst hs
    simp only [if_true, Nat.lt_irrefl, if_false, Nat.zero_add]
    by_cases hee : e = b.rows
    · subst hee
      simp only [if_true]
      congr 2 <;> list_pw
    · have : e ≤ b.rows ∧ e ≤ w.length := by omega
      simp only [hee, if_false, this, and_self, if_true]
      congr 2 <;> list_pw
  · have hs0 : s > 0 := by omega
    simp only [hs, hs0, if_false, if_true, csub_eq s 1 (by omega)]
    rw [unwrapRow_eq _ _ (by simp only; omega)]
    simp only
    have hw2 : (unmarkAt w (s - 1)).length = b.rows := by simp [hw]
    generalize unmarkAt w (s - 1) = w2 at hw2 ⊢
    rw [rotLRange_eq _ _ _ _ (by omega) (by omega) hk]
    simp only
    rw [clear_eq _ _ _ _ (by omega) (by simp; omega)]
    simp only [blankRows]
    congr 2
    list_pw

theorem scrollDown_eq (b : Buffer) (s e n : Nat) (pen : Pen) (hb : BInv b = true) (hse : s < e)
    (he : e ≤ b.rows) : b.scrollDown s e n pen = some (scrollDownSpec s e n pen b) := by
  obtain ⟨hc, hr, hv, _⟩ := BInv_facts hb
  unfold Buffer.scrollDown scrollDownSpec
  simp only [csub_eq e s (by omega), csub_eq e 1 (by omega)]
  have hk : min n (e - s) ≤ e - s := Nat.min_le_right _ _
  generalize min n (e - s) = k at hk ⊢
  rw [rotRRange_eq _ _ _ _ (by omega) (by omega) hk]
  simp only
  rw [clear_eq _ _ _ _ (by omega) (by simp; omega)]
  simp only [blankRows]
  have hw : (List.take s b.view ++ List.replicate k (Line.blank b.cols pen) ++ List.drop s (List.take (e - k) b.view) ++
      List.drop e b.view).length = b.rows := by simp; omega
  have hw' : List.take s (List.take s b.view ++ List.drop (e - k) (List.take e b.view) ++ List.drop s (List.take (e - k) b.view) ++
        List.drop e b.view) ++ List.replicate (s + k - s) (Line.blank b.cols pen) ++
      List.drop (s + k) (List.take s b.view ++ List.drop (e - k) (List.take e b.view) ++ List.drop s (List.take (e - k) b.view) ++
        List.drop e b.view)
      = List.take s b.view ++ List.replicate k (Line.blank b.cols pen) ++ List.drop s (List.take (e - k) b.view) ++
      List.drop e b.view := by list_pw
  rw [hw']
  generalize (List.take s b.view ++ List.replicate k (Line.blank b.cols pen) ++ List.drop s (List.take (e - k) b.view) ++
      List.drop e b.view) = w at hw ⊢
  by_cases hs : s > 0
  · simp only [hs, if_true]
    rw [unwrapRow_eq _ _ (by simp only; omega)]
    simp only
    rw [unwrapRow_eq _ _ (by simp; omega)]
  · simp only [hs, if_false]
    rw [unwrapRow_eq _ _ (by simp only; omega)]

end Avt.C06L
