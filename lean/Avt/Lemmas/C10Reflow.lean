/-
  Avt.Lemmas.C10Reflow — `Line.contract`, `Line.extend` and the `Reflow` iterator preserve the
  logical lines (rows joined along wrap marks, trailing default cells removed).
-/
import Avt.Lemmas.C10Logical

namespace Avt.Lemmas
open Avt Avt.Spec.C10

/-- `Line.contract` splits a row into a first part and a rest without changing the logical lines:
    the row followed by anything reads the same as the two pieces followed by the same thing -/
theorem contract_content (l : Line) (len : Nat) (tail : List Line) :
    logicalLines ((l.contract len).1 :: ((l.contract len).2.toList ++ tail))
      = logicalLines (l :: tail) := by
  obtain ⟨cells, w⟩ := l
  cases w with
  | true =>
    simp only [Line.contract, Bool.not_true, Bool.false_eq_true, if_false]
    by_cases hlen : cells.length > len
    · simp only [hlen, if_true]
      have hne : (List.drop len cells).isEmpty = false := by
        cases hd : List.drop len cells with
        | nil =>
          have := congrArg List.length hd
          simp at this; omega
        | cons _ _ => rfl
      simp only [hne, Bool.false_eq_true, if_false, Option.toList_some, List.singleton_append]
      rw [logicalLines_glue, List.take_append_drop]
    · simp only [hlen, if_false, Option.toList_none, List.nil_append]
  | false =>
    simp only [Line.contract, Bool.not_false, if_true]
    -- the kept cells differ from the original ones by trailing default cells only
    have hkeep : stripDefault (List.take (max len (Line.len ⟨cells, false⟩ - Line.trailers ⟨cells, false⟩)) cells)
        = stripDefault cells := by
      rw [stripDefault_eq, stripDefault_eq]
      apply rstrip_take_of_le
      have := stripDefault_length_eq ⟨cells, false⟩
      rw [stripDefault_eq] at this
      simp only at this
      omega
    generalize List.take (max len (Line.len ⟨cells, false⟩ - Line.trailers ⟨cells, false⟩)) cells = kept at hkeep
    by_cases hlen : kept.length > len
    · simp only [hlen, if_true]
      rw [trim_eq]
      simp only
      by_cases hemp : (stripDefault (List.drop len kept)).isEmpty = true
      · simp only [hemp, if_true, Option.toList_none, List.nil_append]
        apply logicalLines_cons_strip_congr
        rw [← hkeep]
        have hall := (rstrip_eq_nil_iff Cell.isDefault).1 (List.isEmpty_iff.1 hemp)
        conv => rhs; rw [← List.take_append_drop len kept]
        rw [stripDefault_eq, stripDefault_eq, rstrip_append_of_all _ hall]
      · simp only [hemp, Bool.false_eq_true, ↓reduceIte, Option.toList_some, List.singleton_append]
        rw [logicalLines_glue]
        apply logicalLines_cons_strip_congr
        rw [← hkeep, stripDefault_eq, stripDefault_eq, stripDefault_eq, rstrip_append_rstrip,
          List.take_append_drop]
    · simp only [hlen, if_false, Option.toList_none, List.nil_append]
      exact logicalLines_cons_strip_congr hkeep tail

/-- when `Line.extend` says "do not emit yet" it never leaves a rest -/
theorem extend_false_rest {l other : Line} {len : Nat} {l' : Line} {r : Option Line}
    (h : l.extend other len = some (l', false, r)) : r = none := by
  obtain ⟨a, w⟩ := l
  obtain ⟨b, wo⟩ := other
  unfold Line.extend at h
  cases hs : csub len (Line.len ⟨a, w⟩) with
  | none => simp [hs] at h
  | some needed =>
    simp only [hs] at h
    by_cases hn : needed = 0
    · simp [hn] at h
    · simp only [hn, if_false] at h
      cases w with
      | false =>
        simp only [Bool.not_false, if_true, Option.map_eq_some_iff] at h
        obtain ⟨x, -, hx2⟩ := h
        simp at hx2
      | true =>
        simp only [Bool.not_true, Bool.false_eq_true, if_false] at h
        cases wo with
        | false =>
          simp only [Bool.not_false, if_true] at h
          split at h
          · simp at h
          · split at h
            · split at h
              · simp only [Option.map_eq_some_iff] at h
                obtain ⟨x, -, hx2⟩ := h
                simp at hx2
              · simp at h
            · simp only [Option.some.injEq, Prod.mk.injEq] at h
              exact h.2.2.symm
        | true =>
          simp only [Bool.not_true, Bool.false_eq_true, if_false] at h
          split at h
          · simp at h
          · simp only [Option.some.injEq, Prod.mk.injEq] at h
            exact h.2.2.symm

/-- `Line.extend` moves cells from the next row into this one without changing the logical lines:
    whatever it returns (`l'`, then the rest if any) reads the same as the two rows it was given -/
theorem extend_content {l other : Line} {len : Nat} {l' : Line} {emit : Bool} {r : Option Line}
    (h : l.extend other len = some (l', emit, r)) (tail : List Line) :
    logicalLines (l' :: (r.toList ++ tail)) = logicalLines (l :: other :: tail) := by
  obtain ⟨a, w⟩ := l
  obtain ⟨b, wo⟩ := other
  unfold Line.extend at h
  cases hs : csub len (Line.len ⟨a, w⟩) with
  | none => simp [hs] at h
  | some needed =>
    simp only [hs] at h
    by_cases hn : needed = 0
    · simp only [hn, if_true, Option.some.injEq, Prod.mk.injEq] at h
      obtain ⟨rfl, -, rfl⟩ := h
      rfl
    · simp only [hn, if_false] at h
      cases w with
      | false =>
        simp only [Bool.not_false, if_true, Line.expand, Option.map_eq_some_iff] at h
        obtain ⟨x, hx, hx2⟩ := h
        obtain ⟨k, -, rfl⟩ := hx
        simp only [Prod.mk.injEq] at hx2
        obtain ⟨rfl, -, rfl⟩ := hx2
        simp only [Option.toList_some, List.singleton_append]
        exact logicalLines_cons_strip_congr (stripDefault_append_blanks a k) _
      | true =>
        simp only [Bool.not_true, Bool.false_eq_true, if_false] at h
        -- the next row, trimmed when it ends its logical line
        have hother : ∃ b', (if (!wo) = true then Line.trim ⟨b, wo⟩ else ⟨b, wo⟩) = ⟨b', wo⟩
            ∧ logicalLines (⟨a, true⟩ :: ⟨b', wo⟩ :: tail) = logicalLines (⟨a, true⟩ :: ⟨b, wo⟩ :: tail) := by
          cases wo with
          | true => exact ⟨b, rfl, rfl⟩
          | false =>
            refine ⟨stripDefault b, by simp [trim_eq], ?_⟩
            apply logicalLines_cons_congr
            apply logicalLines_cons_strip_congr
            rw [stripDefault_eq, stripDefault_eq, rstrip_idem]
        obtain ⟨b', hb', hLL⟩ := hother
        rw [hb'] at h
        rw [← hLL]
        by_cases hlt : needed < Line.len ⟨b', wo⟩
        · simp only [hlt, if_true, Option.some.injEq, Prod.mk.injEq] at h
          obtain ⟨rfl, -, rfl⟩ := h
          simp only [Option.toList_some, List.singleton_append]
          rw [logicalLines_glue, logicalLines_glue, List.append_assoc, List.take_append_drop]
        · simp only [hlt, if_false] at h
          cases wo with
          | false =>
            simp only [Bool.not_false, if_true] at h
            split at h
            · simp only [Line.expand, Option.map_eq_some_iff] at h
              obtain ⟨x, hx, hx2⟩ := h
              obtain ⟨k, -, rfl⟩ := hx
              simp only [Prod.mk.injEq] at hx2
              obtain ⟨rfl, -, rfl⟩ := hx2
              simp only [Option.toList_none, List.nil_append]
              rw [logicalLines_glue]
              exact logicalLines_cons_strip_congr (stripDefault_append_blanks _ k) _
            · simp only [Option.some.injEq, Prod.mk.injEq] at h
              obtain ⟨rfl, -, rfl⟩ := h
              simp only [Option.toList_none, List.nil_append]
              rw [logicalLines_glue]
          | true =>
            simp only [Bool.not_true, Bool.false_eq_true, if_false, Option.some.injEq,
              Prod.mk.injEq] at h
            obtain ⟨rfl, -, rfl⟩ := h
            simp only [Option.toList_none, List.nil_append]
            rw [logicalLines_glue]

/-- the `Reflow` iterator preserves the logical lines of (pending rest, remaining input) -/
theorem reflowGo_logical (cols : Nat) :
    ∀ (fuel : Nat) (rest : Option Line) (iter out : List Line),
      Buffer.reflowGo cols fuel rest iter = some out →
      logicalLines out = logicalLines (rest.toList ++ iter) := by
  intro fuel
  induction fuel with
  | zero => intro rest iter out h; simp [Buffer.reflowGo] at h
  | succ fuel ih =>
    intro rest iter out h
    -- the current line and the remaining input
    have key : ∀ (line : Line) (iter' : List Line),
        (match (some (line, iter') : Option (Line × List Line)) with
          | none => some []
          | some (line, iter) =>
            if cols < line.len then
              let (line', rest') := line.contract cols
              (Buffer.reflowGo cols fuel rest' iter).map fun out => line' :: out
            else if cols = line.len then
              (Buffer.reflowGo cols fuel none iter).map fun out => line :: out
            else
              match iter with
              | next :: iter' =>
                match line.extend next cols with
                | none => none
                | some (line', true, some r) => (Buffer.reflowGo cols fuel (some r) iter').map fun out => line' :: out
                | some (line', true, none) => (Buffer.reflowGo cols fuel none iter').map fun out => line' :: out
                | some (line', false, _) => Buffer.reflowGo cols fuel (some line') iter'
              | [] =>
                match line.expand cols Pen.default with
                | none => none
                | some l' => (Buffer.reflowGo cols fuel none []).map fun out => { l' with wrapped := false } :: out)
          = some out → logicalLines out = logicalLines (line :: iter') := by
      intro line iter' h
      simp only at h
      by_cases h1 : cols < line.len
      · simp only [h1, if_true, Option.map_eq_some_iff] at h
        obtain ⟨o', ho', rfl⟩ := h
        have := ih _ _ _ ho'
        rw [← contract_content line cols iter']
        exact logicalLines_cons_congr _ this
      · simp only [h1, if_false] at h
        by_cases h2 : cols = line.len
        · rw [if_pos h2] at h
          simp only [Option.map_eq_some_iff] at h
          obtain ⟨o', ho', rfl⟩ := h
          have := ih _ _ _ ho'
          exact logicalLines_cons_congr _ (by simpa using this)
        · rw [if_neg h2] at h
          cases iter' with
          | nil =>
            simp only at h
            cases he : line.expand cols Pen.default with
            | none => simp [he] at h
            | some l' =>
              simp only [he, Option.map_eq_some_iff] at h
              obtain ⟨o', ho', rfl⟩ := h
              have h0 := ih _ _ _ ho'
              simp only [Option.toList_none, List.nil_append] at h0
              simp only [Line.expand, Option.map_eq_some_iff] at he
              obtain ⟨k, -, rfl⟩ := he
              have hnil := logicalLines_eq_nil.1 h0
              subst hnil
              obtain ⟨a, w⟩ := line
              cases w with
              | false => exact logicalLines_cons_strip_congr (stripDefault_append_blanks a k) _
              | true =>
                simp only [logicalLines, joinRows, List.map_cons, List.map_nil, if_true,
                  Bool.false_eq_true, if_false]
                rw [stripDefault_append_blanks]
          | cons next iter'' =>
            simp only at h
            cases he : line.extend next cols with
            | none => simp [he] at h
            | some res =>
              obtain ⟨line', emit, r⟩ := res
              have hc := extend_content he iter''
              cases emit with
              | false =>
                have hr := extend_false_rest he
                subst hr
                simp only [he] at h
                have := ih _ _ _ h
                simp only [Option.toList_some, List.singleton_append] at this
                rw [this, ← hc]; rfl
              | true =>
                cases r with
                | none =>
                  simp only [he, Option.map_eq_some_iff] at h
                  obtain ⟨o', ho', rfl⟩ := h
                  have := ih _ _ _ ho'
                  rw [← hc]
                  exact logicalLines_cons_congr _ (by simpa using this)
                | some r =>
                  simp only [he, Option.map_eq_some_iff] at h
                  obtain ⟨o', ho', rfl⟩ := h
                  have := ih _ _ _ ho'
                  rw [← hc]
                  exact logicalLines_cons_congr _ (by simpa using this)
    unfold Buffer.reflowGo at h
    cases rest with
    | some l => exact key l iter h
    | none =>
      cases iter with
      | nil =>
        simp only [Option.some.injEq] at h
        subst h; rfl
      | cons l ls => exact key l ls h

/-- C10 building block: reflowing to any width leaves the logical lines unchanged -/
theorem reflow_logical {ls out : List Line} {c : Nat} (h : Buffer.reflow ls c = some out) :
    logicalLines out = logicalLines ls := by
  unfold Buffer.reflow at h
  split at h
  · simp at h
  · cases hg : Buffer.reflowGo c (Buffer.reflowFuel ls) none ls with
    | none => simp [hg] at h
    | some o =>
      simp only [hg] at h
      split at h
      · simp only [Option.some.injEq] at h
        subst h
        simpa using reflowGo_logical c _ _ _ _ hg
      · simp at h

end Avt.Lemmas
