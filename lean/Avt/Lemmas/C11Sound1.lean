/-
  Avt.Lemmas.C11Sound1 — soundness of the normal form `normT` for the buffer-touching functions
  (print / REP, the scrolling commands, erase / insert / delete / DECALN), via their closed-form
  specifications (C04 `printSpec`/`repSpec`, C06 `scrollCmdSpec`, C07 `editSpec`):
  `execute t f = some (spec t f)` under `TInv`, and each specification maps terminals with equal
  normal forms to terminals with equal normal forms.

  `NEq u v` is `normT u = normT v` spelled out field by field.  What each family READS of the normal
  form: the view, `cols`/`rows`, cursor, pen, margins, the modes — never the scrollback, the limits, the
  trim flag, the dirty flags (only their number), the parked buffer or the parked saved context.
-/
import Avt.Lemmas.C11Steps3
import Avt.Props.C06
import Avt.Props.C07
namespace Avt
namespace Lemmas.C11
open Avt.Spec.C11 Avt.Terminal

/-- `normT u = normT v`, field by field -/
structure NEq (u v : Terminal) : Prop where
  cols : u.cols = v.cols
  rows : u.rows = v.rows
  abt : u.activeBufferType = v.activeBufferType
  cursor : u.cursor = v.cursor
  pen : u.pen = v.pen
  charsets : u.charsets = v.charsets
  activeCharset : u.activeCharset = v.activeCharset
  tabs : u.tabs = v.tabs
  insertMode : u.insertMode = v.insertMode
  originMode : u.originMode = v.originMode
  autoWrapMode : u.autoWrapMode = v.autoWrapMode
  newLineMode : u.newLineMode = v.newLineMode
  cursorKeysMode : u.cursorKeysMode = v.cursorKeysMode
  pendingWrap : u.pendingWrap = v.pendingWrap
  topMargin : u.topMargin = v.topMargin
  bottomMargin : u.bottomMargin = v.bottomMargin
  savedCtx : u.savedCtx = v.savedCtx
  xtwinops : u.xtwinops = v.xtwinops
  view : u.buffer.view = v.buffer.view
  bcols : u.buffer.cols = v.buffer.cols
  brows : u.buffer.rows = v.buffer.rows
  other : u.activeBufferType = .primary ∨ (u.otherBuffer.view = v.otherBuffer.view
    ∧ u.otherBuffer.cols = v.otherBuffer.cols ∧ u.otherBuffer.rows = v.otherBuffer.rows)
  actx : clampCtx u.alternateSavedCtx u.cols u.rows = clampCtx v.alternateSavedCtx v.cols v.rows
  dirty : u.dirtyLines.length = v.dirtyLines.length

theorem normB_eq_iff (x y : Buffer) : normB x = normB y ↔ (x.view = y.view ∧ x.cols = y.cols ∧ x.rows = y.rows) := by
  cases x; cases y; simp [normB]

theorem NEq.of_norm {u v : Terminal} (h : normT u = normT v) : NEq u v := by
  have f : ∀ {α : Type} (p : Terminal → α), p (normT u) = p (normT v) := fun p => congrArg p h
  have hb := (normB_eq_iff _ _).1 (f (·.buffer))
  have habt : u.activeBufferType = v.activeBufferType := f (·.activeBufferType)
  have hcols : u.cols = v.cols := f (·.cols)
  have hrows : u.rows = v.rows := f (·.rows)
  refine ⟨hcols, hrows, habt, f (·.cursor), f (·.pen), f (·.charsets), f (·.activeCharset), f (·.tabs),
    f (·.insertMode), f (·.originMode), f (·.autoWrapMode), f (·.newLineMode), f (·.cursorKeysMode),
    f (·.pendingWrap), f (·.topMargin), f (·.bottomMargin), f (·.savedCtx), f (·.xtwinops),
    hb.1, hb.2.1, hb.2.2, ?_, f (·.alternateSavedCtx), ?_⟩
  · have ho := f (·.otherBuffer)
    simp only [normT] at ho
    cases hp : u.activeBufferType with
    | primary => exact Or.inl rfl
    | alternate =>
      right
      rw [← habt, hp] at ho
      simp only [reduceCtorEq, if_false] at ho
      exact (normB_eq_iff _ _).1 ho
  · have hd := f (·.dirtyLines)
    simp only [normT, Dirty.clear] at hd
    have := congrArg List.length hd
    simpa using this

theorem NEq.norm {u v : Terminal} (h : NEq u v) : normT u = normT v := by
  obtain ⟨h1, h2, h3, h4, h5, h6, h7, h8, h9, h10, h11, h12, h13, h14, h15, h16, h17, h18, h19, h20, h21, h22, h23, h24⟩ := h
  have hb : normB u.buffer = normB v.buffer := (normB_eq_iff _ _).2 ⟨h19, h20, h21⟩
  have hd := dirty_clear_eq _ _ h24
  have ho : (if u.activeBufferType = .primary then deadBuffer else normB u.otherBuffer)
      = (if v.activeBufferType = .primary then deadBuffer else normB v.otherBuffer) := by
    rw [← h3]
    rcases h22 with hp | ho
    · simp [hp]
    · rw [(normB_eq_iff _ _).2 ho]
  simp only [normT, hb, hd, ho, h23]
  cases u; cases v
  simp_all

theorem NEq.refl (u : Terminal) : NEq u u := NEq.of_norm rfl
theorem NEq.symm {u v : Terminal} (h : NEq u v) : NEq v u := NEq.of_norm h.norm.symm
theorem NEq.trans {u v w : Terminal} (h1 : NEq u v) (h2 : NEq v w) : NEq u w := NEq.of_norm (h1.norm.trans h2.norm)


/-- destructure two `NEq`-related terminals so that the shared fields are the same variables -/
theorem NEq.elim {u v : Terminal} (h : NEq u v) {motive : Terminal → Terminal → Prop}
    (k : ∀ (c r : Nat) (sb1 sb2 vw : List Line) (bc br : Nat) (l1 l2 : Option Limit) (t1 t2 : Bool)
      (ob1 ob2 : Buffer) (abt : BufferType) (sl1 sl2 : Option Nat) (cur : Cursor) (pen : Pen)
      (cs : Charset × Charset) (acs : Nat) (tabs : List Nat) (im om aw nl : Bool) (ck : CursorKeysMode) (pw : Bool)
      (tm bm : Nat) (sc asc1 asc2 : SavedCtx) (d1 d2 : List Bool) (xt : Bool),
      (abt = .primary ∨ (ob1.view = ob2.view ∧ ob1.cols = ob2.cols ∧ ob1.rows = ob2.rows)) →
      clampCtx asc1 c r = clampCtx asc2 c r → d1.length = d2.length →
      motive ⟨c, r, ⟨sb1, vw, bc, br, l1, t1⟩, ob1, abt, sl1, cur, pen, cs, acs, tabs, im, om, aw, nl, ck, pw, tm, bm, sc, asc1, d1, xt⟩
             ⟨c, r, ⟨sb2, vw, bc, br, l2, t2⟩, ob2, abt, sl2, cur, pen, cs, acs, tabs, im, om, aw, nl, ck, pw, tm, bm, sc, asc2, d2, xt⟩) :
    motive u v := by
  obtain ⟨h1, h2, h3, h4, h5, h6, h7, h8, h9, h10, h11, h12, h13, h14, h15, h16, h17, h18, h19, h20, h21, h22, h23, h24⟩ := h
  obtain ⟨c, r, ⟨sb, vw, bc, br, lim, tn⟩, ob, abt, sl, cur, pen, cs, acs, tabs, im, om, aw, nl, ck, pw, tm, bm,
    sc, asc, dl, xt⟩ := u
  obtain ⟨c', r', ⟨sb', vw', bc', br', lim', tn'⟩, ob', abt', sl', cur', pen', cs', acs', tabs', im', om', aw',
    nl', ck', pw', tm', bm', sc', asc', dl', xt'⟩ := v
  simp only at h1 h2 h3 h4 h5 h6 h7 h8 h9 h10 h11 h12 h13 h14 h15 h16 h17 h18 h19 h20 h21 h22 h23 h24
  subst h1 h2 h3 h4 h5 h6 h7 h8 h9 h10 h11 h12 h13 h14 h15 h16 h17 h18 h19 h20 h21
  exact k _ _ _ _ _ _ _ _ _ _ _ _ _ _ _ _ _ _ _ _ _ _ _ _ _ _ _ _ _ _ _ _ _ _ _ h22 h23 h24

/-- close a goal `NEq (mk …) (mk …)` between explicit records -/
macro "neq_close" : tactic =>
  `(tactic| (constructor <;> first | rfl | assumption | (simp_all; done) | (simp_all [List.length_set]; omega)))

section print
open Avt.Spec.C04

theorem putStep_neq {u v : Terminal} (h : NEq u v) (g : Nat) : NEq (putStep u g) (putStep v g) := by
  refine h.elim (motive := fun u v => NEq (putStep u g) (putStep v g)) ?_
  intro c r sb1 sb2 vw bc br l1 l2 t1 t2 ob1 ob2 abt sl1 sl2 cur pen cs acs tabs im om aw nl ck pw tm bm sc asc1 asc2 d1 d2 xt ho ha hd
  simp only [putStep, bufOnRow]
  split
  · split
    · neq_close
    · neq_close
  · neq_close

theorem wrapStep_neq {u v : Terminal} (h : NEq u v) : NEq (wrapStep u) (wrapStep v) := by
  refine h.elim (motive := fun u v => NEq (wrapStep u) (wrapStep v)) ?_
  intro c r sb1 sb2 vw bc br l1 l2 t1 t2 ob1 ob2 abt sl1 sl2 cur pen cs acs tabs im om aw nl ck pw tm bm sc asc1 asc2 d1 d2 xt ho ha hd
  simp only [wrapStep, bufOnRow, scrollRegionUp1, dirtyRange]
  split
  · neq_close
  · split
    · neq_close
    · neq_close

theorem printSpec_neq {u v : Terminal} (h : NEq u v) (ch : Nat) : NEq (printSpec u ch) (printSpec v ch) := by
  have hg : glyph u ch = glyph v ch := by
    simp only [glyph, activeSet, h.activeCharset, h.charsets]
  unfold printSpec
  rw [hg, h.autoWrapMode, h.pendingWrap]
  split
  · exact putStep_neq (wrapStep_neq h) _
  · exact putStep_neq h _

theorem printTimes_neq (ch : Nat) : ∀ (k : Nat) {u v : Terminal}, NEq u v → NEq (printTimes ch k u) (printTimes ch k v)
  | 0, _, _, h => h
  | k + 1, _, _, h => printTimes_neq ch k (printSpec_neq h ch)

theorem repSpec_neq {u v : Terminal} (h : NEq u v) (n : Nat) : NEq (repSpec u n) (repSpec v n) := by
  have hc : charLeftOfCursor u = charLeftOfCursor v := by
    simp only [charLeftOfCursor, h.view, h.cursor]
  unfold repSpec
  rw [h.cursor, hc]
  split
  · exact h
  · exact printTimes_neq _ _ h

end print

/-! ### scrolling commands (C06) -/

section scroll
open Avt.Spec.C06

theorem regionUp_neq {u v : Terminal} (h : NEq u v) (n : Nat) : NEq (regionUp u n) (regionUp v n) := by
  refine h.elim (motive := fun u v => NEq (regionUp u n) (regionUp v n)) ?_
  intro c r sb1 sb2 vw bc br l1 l2 t1 t2 ob1 ob2 abt sl1 sl2 cur pen cs acs tabs im om aw nl ck pw tm bm sc asc1 asc2 d1 d2 xt ho ha hd
  simp only [regionUp, scrollUpSpec, markRange]
  neq_close

theorem regionDown_neq {u v : Terminal} (h : NEq u v) (n : Nat) : NEq (regionDown u n) (regionDown v n) := by
  refine h.elim (motive := fun u v => NEq (regionDown u n) (regionDown v n)) ?_
  intro c r sb1 sb2 vw bc br l1 l2 t1 t2 ob1 ob2 abt sl1 sl2 cur pen cs acs tabs im om aw nl ck pw tm bm sc asc1 asc2 d1 d2 xt ho ha hd
  simp only [regionDown, scrollDownSpec, markRange]
  neq_close

theorem toCol0_neq {u v : Terminal} (h : NEq u v) : NEq (toCol0 u) (toCol0 v) := by
  refine h.elim (motive := fun u v => NEq (toCol0 u) (toCol0 v)) ?_
  intro c r sb1 sb2 vw bc br l1 l2 t1 t2 ob1 ob2 abt sl1 sl2 cur pen cs acs tabs im om aw nl ck pw tm bm sc asc1 asc2 d1 d2 xt ho ha hd
  simp only [toCol0]
  neq_close

theorem toRow_neq {u v : Terminal} (h : NEq u v) (row : Nat) : NEq (toRow u row) (toRow v row) := by
  refine h.elim (motive := fun u v => NEq (toRow u row) (toRow v row)) ?_
  intro c r sb1 sb2 vw bc br l1 l2 t1 t2 ob1 ob2 abt sl1 sl2 cur pen cs acs tabs im om aw nl ck pw tm bm sc asc1 asc2 d1 d2 xt ho ha hd
  simp only [toRow]
  neq_close

theorem down1_neq {u v : Terminal} (h : NEq u v) : NEq (down1 u) (down1 v) := by
  unfold down1
  rw [h.cursor, h.bottomMargin, h.rows]
  split
  · exact regionUp_neq h 1
  · split
    · exact toRow_neq h _
    · exact h

theorem up1_neq {u v : Terminal} (h : NEq u v) : NEq (up1 u) (up1 v) := by
  unfold up1
  rw [h.cursor, h.topMargin]
  split
  · exact regionDown_neq h 1
  · split
    · exact toRow_neq h _
    · exact h

theorem insertLines_neq {u v : Terminal} (h : NEq u v) (n : Nat) : NEq (insertLines u n) (insertLines v n) := by
  refine h.elim (motive := fun u v => NEq (insertLines u n) (insertLines v n)) ?_
  intro c r sb1 sb2 vw bc br l1 l2 t1 t2 ob1 ob2 abt sl1 sl2 cur pen cs acs tabs im om aw nl ck pw tm bm sc asc1 asc2 d1 d2 xt ho ha hd
  simp only [insertLines, lineRange, scrollDownSpec, markRange]
  neq_close

theorem deleteLines_neq {u v : Terminal} (h : NEq u v) (n : Nat) : NEq (deleteLines u n) (deleteLines v n) := by
  refine h.elim (motive := fun u v => NEq (deleteLines u n) (deleteLines v n)) ?_
  intro c r sb1 sb2 vw bc br l1 l2 t1 t2 ob1 ob2 abt sl1 sl2 cur pen cs acs tabs im om aw nl ck pw tm bm sc asc1 asc2 d1 d2 xt ho ha hd
  simp only [deleteLines, lineRange, scrollUpSpec, markRange]
  neq_close

/-- the buffer-touching scrolling commands -/
def scrollFn : Function → Bool
  | .lf | .nel | .ri | .su _ | .sd _ | .il _ | .dl _ => true
  | _ => false

theorem scrollCmdSpec_neq {u v : Terminal} (h : NEq u v) (f : Function) (hf : scrollFn f = true) :
    NEq (scrollCmdSpec u f) (scrollCmdSpec v f) := by
  cases f <;> simp only [scrollFn, Bool.false_eq_true] at hf <;> simp only [scrollCmdSpec]
  case lf =>
    have hd := down1_neq h
    rw [hd.newLineMode]
    split
    · exact toCol0_neq hd
    · exact hd
  case nel => exact toCol0_neq (down1_neq h)
  case ri => exact up1_neq h
  case su n => exact regionUp_neq h _
  case sd n => exact regionDown_neq h _
  case il n => exact insertLines_neq h _
  case dl n => exact deleteLines_neq h _

end scroll

/-! ### erase / insert / delete / DECALN (C07) -/

section edit
open Avt.Spec.C07

theorem editSpec_neq {u v : Terminal} (h : NEq u v) (f : Function) (hf : coveredEdit f = true) :
    NEq (editSpec u f) (editSpec v f) := by
  refine h.elim (motive := fun u v => NEq (editSpec u f) (editSpec v f)) ?_
  intro c r sb1 sb2 vw bc br l1 l2 t1 t2 ob1 ob2 abt sl1 sl2 cur pen cs acs tabs im om aw nl ck pw tm bm sc asc1 asc2 d1 d2 xt ho ha hd
  cases f <;> simp only [coveredEdit, Bool.false_eq_true] at hf
  case dch n =>
    simp only [editSpec, onRow, withView, leavePending, markRange]
    split <;> neq_close
  case decaln =>
    simp only [editSpec, withView, markRange]
    neq_close
  case ech n =>
    simp only [editSpec, onRow, withView, markRange]
    neq_close
  case ich n =>
    simp only [editSpec, onRow, withView, markRange]
    neq_close
  case ed sc =>
    cases sc <;> simp only [editSpec, withView, markRange] <;> neq_close
  case el sc =>
    cases sc <;> simp only [editSpec, onRow, withView, markRange] <;> neq_close

end edit

/-! ### the step theorem for these families -/

/-- print / REP, scrolling commands, erase / insert / delete / DECALN -/
def bufferFn (f : Function) : Bool :=
  Spec.C04.covered f || scrollFn f || Spec.C07.coveredEdit f

/-- **normal-form soundness, buffer-touching functions**: terminals satisfying the invariant with equal
    normal forms stay so -/
theorem norm_sound_buffer (f : Function) (hf : bufferFn f = true) (s t : Terminal)
    (hs : TInv s = true) (ht : TInv t = true) (e : normT s = normT t) :
    (s.execute f).map normT = (t.execute f).map normT := by
  have h := NEq.of_norm e
  simp only [bufferFn, Bool.or_eq_true] at hf
  rcases hf with (hf | hf) | hf
  · cases f <;> simp only [Spec.C04.covered, Bool.false_eq_true] at hf
    case print ch =>
      rw [Props.C04.C04_print s ch hs, Props.C04.C04_print t ch ht]
      exact congrArg some (printSpec_neq h ch).norm
    case rep n =>
      rw [Props.C04.C04_rep s n hs, Props.C04.C04_rep t n ht]
      exact congrArg some (repSpec_neq h n).norm
  · have hc : Spec.C06.coveredScroll f = true := by
      cases f <;> simp only [scrollFn, Bool.false_eq_true] at hf <;> rfl
    rw [Props.C06.C06_cmd s f hs hc, Props.C06.C06_cmd t f ht hc]
    exact congrArg some (scrollCmdSpec_neq h f hf).norm
  · rw [Props.C07.C07_edit s f hs hf, Props.C07.C07_edit t f ht hf]
    exact congrArg some (editSpec_neq h f hf).norm

end Lemmas.C11
end Avt
