/-
  Avt.Lemmas.C08Pen — the pen fold: every SGR operation changes exactly the observations the
  property names (through the generated mask constants), the nine accessors determine the pen.
-/
import Avt.Spec.C08

namespace Avt.Spec.C08
open Avt

/-- the five attribute accessors as functions of the raw `attrs` byte -/
def bits (a : Nat) : Bool × Bool × Bool × Bool × Bool :=
  ((a &&& Gen.italicMask) != 0, (a &&& Gen.underlineMask) != 0, (a &&& Gen.strikethroughMask) != 0,
   (a &&& Gen.blinkMask) != 0, (a &&& Gen.inverseMask) != 0)

set_option synthInstance.maxSize 2048 in
/-- bit-level facts about the generated masks, checked for every attribute byte in use:
    setting one mask sets its accessor and leaves the other four -/
theorem mask_set : ∀ a, a < 32 →
    (bits (a ||| Gen.italicMask) = (true, (bits a).2.1, (bits a).2.2.1, (bits a).2.2.2.1, (bits a).2.2.2.2)
    ∧ bits (a ||| Gen.underlineMask) = ((bits a).1, true, (bits a).2.2.1, (bits a).2.2.2.1, (bits a).2.2.2.2)
    ∧ bits (a ||| Gen.strikethroughMask) = ((bits a).1, (bits a).2.1, true, (bits a).2.2.2.1, (bits a).2.2.2.2)
    ∧ bits (a ||| Gen.blinkMask) = ((bits a).1, (bits a).2.1, (bits a).2.2.1, true, (bits a).2.2.2.2)
    ∧ bits (a ||| Gen.inverseMask) = ((bits a).1, (bits a).2.1, (bits a).2.2.1, (bits a).2.2.2.1, true)) := by
  decide

set_option synthInstance.maxSize 2048 in
/-- clearing one mask clears its accessor and leaves the other four -/
theorem mask_unset : ∀ a, a < 32 →
    (bits (a &&& (255 - Gen.italicMask % 256)) = (false, (bits a).2.1, (bits a).2.2.1, (bits a).2.2.2.1, (bits a).2.2.2.2)
    ∧ bits (a &&& (255 - Gen.underlineMask % 256)) = ((bits a).1, false, (bits a).2.2.1, (bits a).2.2.2.1, (bits a).2.2.2.2)
    ∧ bits (a &&& (255 - Gen.strikethroughMask % 256)) = ((bits a).1, (bits a).2.1, false, (bits a).2.2.2.1, (bits a).2.2.2.2)
    ∧ bits (a &&& (255 - Gen.blinkMask % 256)) = ((bits a).1, (bits a).2.1, (bits a).2.2.1, false, (bits a).2.2.2.2)
    ∧ bits (a &&& (255 - Gen.inverseMask % 256)) = ((bits a).1, (bits a).2.1, (bits a).2.2.1, (bits a).2.2.2.1, false)) := by
  decide

/-- the attribute byte stays inside the five bits in use -/
theorem mask_set_lt : ∀ a, a < 32 →
    ((a ||| Gen.italicMask) < 32 ∧ (a ||| Gen.underlineMask) < 32 ∧ (a ||| Gen.strikethroughMask) < 32
       ∧ (a ||| Gen.blinkMask) < 32 ∧ (a ||| Gen.inverseMask) < 32) := by
  decide

theorem mask_unset_lt : ∀ a, a < 32 →
    ((a &&& (255 - Gen.italicMask % 256)) < 32 ∧ (a &&& (255 - Gen.underlineMask % 256)) < 32
       ∧ (a &&& (255 - Gen.strikethroughMask % 256)) < 32 ∧ (a &&& (255 - Gen.blinkMask % 256)) < 32
       ∧ (a &&& (255 - Gen.inverseMask % 256)) < 32) := by
  decide

theorem bits_injective_bool : ∀ a, a < 32 → ∀ b, b < 32 → (bits a != bits b || a == b) = true := by
  decide

/-- the attribute byte is determined by the five accessors -/
theorem bits_injective (a b : Nat) (ha : a < 32) (hb : b < 32) (h : bits a = bits b) : a = b := by
  have := bits_injective_bool a ha b hb
  simpa [h] using this

/-- the byte assembled from five flags reports those flags -/
theorem bits_assemble : ∀ it un st bl iv : Bool,
    bits ((if it then Gen.italicMask else 0) ||| (if un then Gen.underlineMask else 0)
          ||| (if st then Gen.strikethroughMask else 0) ||| (if bl then Gen.blinkMask else 0)
          ||| (if iv then Gen.inverseMask else 0)) = (it, un, st, bl, iv)
    ∧ ((if it then Gen.italicMask else 0) ||| (if un then Gen.underlineMask else 0)
          ||| (if st then Gen.strikethroughMask else 0) ||| (if bl then Gen.blinkMask else 0)
          ||| (if iv then Gen.inverseMask else 0)) < 32 := by decide

theorem bits_zero : bits 0 = (false, false, false, false, false) := by decide

theorem obs_eq_bits (p : Pen) :
    Pen.obs p = (p.fg, p.bg, p.intensity == .bold, p.intensity == .faint, (bits p.attrs).1,
                 (bits p.attrs).2.1, (bits p.attrs).2.2.1, (bits p.attrs).2.2.2.1, (bits p.attrs).2.2.2.2) := rfl


/-- every operation does to the nine observations exactly what `obsStep` says -/
theorem obs_applySgr (p : Pen) (op : SgrOp) (h : p.attrs < 32) :
    Pen.obs (Terminal.applySgr p op) = obsStep (Pen.obs p) op := by
  obtain ⟨fg, bg, int, a⟩ := p
  have hs := mask_set a h
  have hu := mask_unset a h
  simp only [obs_eq_bits]
  cases op <;>
    simp [Terminal.applySgr, Pen.setBit, Pen.unsetBit, obsStep, Obs.default, hs, hu, bits_zero]

/-- the attribute byte never leaves the five bits in use -/
theorem attrs_applySgr (p : Pen) (op : SgrOp) (h : p.attrs < 32) :
    (Terminal.applySgr p op).attrs < 32 := by
  obtain ⟨fg, bg, int, a⟩ := p
  have hs := mask_set_lt a h
  have hu := mask_unset_lt a h
  cases op <;> simp [Terminal.applySgr, Pen.setBit, Pen.unsetBit, hs, hu] <;> exact h

theorem attrs_foldl (ops : List SgrOp) (p : Pen) (h : p.attrs < 32) :
    (ops.foldl Terminal.applySgr p).attrs < 32 := by
  induction ops generalizing p with
  | nil => exact h
  | cons op ops ih => exact ih _ (attrs_applySgr p op h)

theorem obs_foldl (ops : List SgrOp) (p : Pen) (h : p.attrs < 32) :
    Pen.obs (ops.foldl Terminal.applySgr p) = obsRef (Pen.obs p) ops := by
  induction ops generalizing p with
  | nil => rfl
  | cons op ops ih =>
    simp only [List.foldl_cons, obsRef]
    rw [ih _ (attrs_applySgr p op h), obs_applySgr p op h]; rfl

/-- a pen is determined by what its nine accessors report -/
theorem obs_injective (p q : Pen) (hp : p.attrs < 32) (hq : q.attrs < 32) (h : Pen.obs p = Pen.obs q) :
    p = q := by
  obtain ⟨fg, bg, int, a⟩ := p
  obtain ⟨fg', bg', int', a'⟩ := q
  simp only [obs_eq_bits, Prod.mk.injEq] at h
  obtain ⟨h1, h2, h3, h4, h5, h6, h7, h8, h9⟩ := h
  have hb : bits a = bits a' := by
    apply Prod.ext; exact h5; apply Prod.ext; exact h6; apply Prod.ext; exact h7
    apply Prod.ext; exact h8; exact h9
  have ha := bits_injective a a' hp hq hb
  have hi : int = int' := by
    cases int <;> cases int' <;> simp_all
  subst h1; subst h2; subst ha; subst hi; rfl

theorem attrs_ofObs (o : Obs) : (Pen.ofObs o).attrs < 32 := by
  obtain ⟨fg, bg, bo, fa, it, un, st, bl, iv⟩ := o
  exact (bits_assemble it un st bl iv).2

/-- observations that can be reported by a pen: not bold and faint at once -/
def Obs.valid (o : Obs) : Prop := ¬ (o.2.2.1 = true ∧ o.2.2.2.1 = true)

theorem obs_valid (p : Pen) : Obs.valid (Pen.obs p) := by
  obtain ⟨fg, bg, int, a⟩ := p
  cases int <;> simp [Obs.valid, Pen.obs, Pen.isBold, Pen.isFaint]

theorem obs_ofObs (o : Obs) (h : Obs.valid o) : Pen.obs (Pen.ofObs o) = o := by
  obtain ⟨fg, bg, bo, fa, it, un, st, bl, iv⟩ := o
  have hb := (bits_assemble it un st bl iv).1
  simp only [obs_eq_bits, Pen.ofObs, hb]
  cases bo <;> cases fa <;> simp_all [Obs.valid]

theorem ofObs_obs (p : Pen) (h : p.attrs < 32) : Pen.ofObs (Pen.obs p) = p :=
  obs_injective _ _ (attrs_ofObs _) h (obs_ofObs _ (obs_valid p))

theorem obsStep_valid (o : Obs) (op : SgrOp) (h : Obs.valid o) : Obs.valid (obsStep o op) := by
  obtain ⟨fg, bg, bo, fa, it, un, st, bl, iv⟩ := o
  cases op <;> simp_all [obsStep, Obs.valid, Obs.default]

theorem obsRef_valid (ops : List SgrOp) (o : Obs) (h : Obs.valid o) : Obs.valid (obsRef o ops) := by
  induction ops generalizing o with
  | nil => exact h
  | cons op ops ih => exact ih _ (obsStep_valid o op h)

/-- the reference pen reports the reference observations -/
theorem obs_penRef (p : Pen) (ops : List SgrOp) : Pen.obs (penRef p ops) = obsRef (Pen.obs p) ops :=
  obs_ofObs _ (obsRef_valid ops _ (obs_valid p))

/-- the fold of `applySgr` is the reference pen -/
theorem foldl_eq_penRef (p : Pen) (ops : List SgrOp) (h : p.attrs < 32) :
    ops.foldl Terminal.applySgr p = penRef p ops :=
  obs_injective _ _ (attrs_foldl ops p h) (attrs_ofObs _) (by rw [obs_foldl ops p h, obs_penRef])

end Avt.Spec.C08
