/-
  Avt.Lemmas.C06Props — consequences of the scroll specification in the property's words, and the
  remaining frame lemmas (DECSET/DECRST without an alternate-screen mode, XTWINOPS).
-/
import Avt.Lemmas.C06Only

namespace Avt.C06L
open Avt.PrimL
open Avt.Spec.C06

/-- the cells of a list of rows -/
def cellsOf (v : List Line) : List (List Cell) := v.map Line.cells

@[simp] theorem cellsOf_append (a b : List Line) : cellsOf (a ++ b) = cellsOf a ++ cellsOf b := by
  simp [cellsOf]

theorem cellsOf_unmarkAt (v : List Line) (i : Nat) : cellsOf (unmarkAt v i) = cellsOf v := by
  unfold cellsOf unmarkAt
  apply List.ext_getElem?
  intro j
  simp only [List.getElem?_map, List.getElem?_append, List.getElem?_take, List.getElem?_drop,
    List.length_take, List.length_drop, List.length_map, List.map_append, List.map_map, List.length_append]
  have : (Line.cells ∘ unmark) = Line.cells := by funext l; rfl
  grind

theorem cellsOf_upMarks (s e rows : Nat) (v : List Line) : cellsOf (upMarks s e rows v) = cellsOf v := by
  unfold upMarks
  simp only
  split <;> split <;> simp only [cellsOf_unmarkAt]

theorem cellsOf_take (v : List Line) (n : Nat) : cellsOf (v.take n) = (cellsOf v).take n := by
  simp [cellsOf, List.map_take]

theorem cellsOf_drop (v : List Line) (n : Nat) : cellsOf (v.drop n) = (cellsOf v).drop n := by
  simp [cellsOf, List.map_drop]

/-- cells after a scroll-up: rows above and below the range as before, the rest of the range moved
    up by `k`, `k` blank rows at the bottom of the range -/
theorem scrollUp_cells (s e n : Nat) (pen : Pen) (b : Buffer) :
    cellsOf (scrollUpSpec s e n pen b).view
      = (cellsOf b.view).take s ++ ((cellsOf b.view).take e).drop (s + min n (e - s))
        ++ List.replicate (min n (e - s)) (List.replicate b.cols (Cell.blank pen))
        ++ (cellsOf b.view).drop e := by
  unfold scrollUpSpec
  simp only [cellsOf_append, cellsOf_take, cellsOf_drop, cellsOf_upMarks]
  simp [cellsOf, blankRows, Line.blank]

theorem scrollDown_cells (s e n : Nat) (pen : Pen) (b : Buffer) :
    cellsOf (scrollDownSpec s e n pen b).view
      = (cellsOf b.view).take s
        ++ List.replicate (min n (e - s)) (List.replicate b.cols (Cell.blank pen))
        ++ ((cellsOf b.view).take (e - min n (e - s))).drop s
        ++ (cellsOf b.view).drop e := by
  unfold scrollDownSpec
  simp only
  rw [cellsOf_unmarkAt]
  split
  · rw [cellsOf_unmarkAt]
    simp only [cellsOf_append, cellsOf_take, cellsOf_drop]
    simp [cellsOf, blankRows, Line.blank]
  · simp only [cellsOf_append, cellsOf_take, cellsOf_drop]
    simp [cellsOf, blankRows, Line.blank]

@[simp] theorem length_cellsOf (v : List Line) : (cellsOf v).length = v.length := by simp [cellsOf]

syntax "pw_simp" : tactic
macro_rules
  | `(tactic| pw_simp) => `(tactic|
      simp only [List.getElem?_take, List.getElem?_append, List.getElem?_drop, List.length_take,
         List.length_drop, List.length_append, List.length_replicate, List.getElem?_replicate,
         List.getElem?_map, List.length_map, List.getElem?_set, List.length_set,
         List.length_cons, List.length_nil, List.getElem?_cons, List.getElem?_nil])

theorem scrollUp_outside (s e n : Nat) (pen : Pen) (b : Buffer) (hse : s ≤ e) (he : e ≤ b.view.length)
    (i : Nat) (hi : i < s ∨ e ≤ i) :
    (cellsOf (scrollUpSpec s e n pen b).view)[i]? = (cellsOf b.view)[i]? := by
  rw [scrollUp_cells]
  have hl := length_cellsOf b.view
  have hk : min n (e - s) ≤ e - s := Nat.min_le_right _ _
  generalize cellsOf b.view = c at hl ⊢
  generalize min n (e - s) = k at hk ⊢
  pw_simp
  grind

theorem scrollUp_shifted (s e n : Nat) (pen : Pen) (b : Buffer) (hse : s ≤ e) (he : e ≤ b.view.length)
    (i : Nat) (h1 : s ≤ i) (h2 : i + min n (e - s) < e) :
    (cellsOf (scrollUpSpec s e n pen b).view)[i]? = (cellsOf b.view)[i + min n (e - s)]? := by
  rw [scrollUp_cells]
  have hl := length_cellsOf b.view
  have hk : min n (e - s) ≤ e - s := Nat.min_le_right _ _
  generalize cellsOf b.view = c at hl ⊢
  generalize min n (e - s) = k at hk h2 ⊢
  pw_simp
  grind

theorem length_upMarks (s e rows : Nat) (v : List Line) : (upMarks s e rows v).length = v.length := by
  unfold upMarks
  simp only
  split <;> split <;> simp

theorem scrollUp_filled (s e n : Nat) (pen : Pen) (b : Buffer) (hse : s ≤ e) (he : e ≤ b.view.length)
    (i : Nat) (h1 : e ≤ i + min n (e - s)) (h2 : i < e) :
    (scrollUpSpec s e n pen b).view[i]? = some (Line.blank b.cols pen) := by
  unfold scrollUpSpec blankRows
  simp only
  have hl := length_upMarks s e b.rows b.view
  have hk : min n (e - s) ≤ e - s := Nat.min_le_right _ _
  generalize upMarks s e b.rows b.view = c at hl ⊢
  generalize min n (e - s) = k at hk h1 ⊢
  pw_simp
  grind

theorem scrollDown_outside (s e n : Nat) (pen : Pen) (b : Buffer) (hse : s ≤ e) (he : e ≤ b.view.length)
    (i : Nat) (hi : i < s ∨ e ≤ i) :
    (cellsOf (scrollDownSpec s e n pen b).view)[i]? = (cellsOf b.view)[i]? := by
  rw [scrollDown_cells]
  have hl := length_cellsOf b.view
  have hk : min n (e - s) ≤ e - s := Nat.min_le_right _ _
  generalize cellsOf b.view = c at hl ⊢
  generalize min n (e - s) = k at hk ⊢
  pw_simp
  grind

theorem scrollDown_shifted (s e n : Nat) (pen : Pen) (b : Buffer) (hse : s ≤ e) (he : e ≤ b.view.length)
    (i : Nat) (h1 : s ≤ i) (h2 : i + min n (e - s) < e) :
    (cellsOf (scrollDownSpec s e n pen b).view)[i + min n (e - s)]? = (cellsOf b.view)[i]? := by
  rw [scrollDown_cells]
  have hl := length_cellsOf b.view
  have hk : min n (e - s) ≤ e - s := Nat.min_le_right _ _
  generalize cellsOf b.view = c at hl ⊢
  generalize min n (e - s) = k at hk h2 ⊢
  pw_simp
  grind

theorem scrollDown_filled (s e n : Nat) (pen : Pen) (b : Buffer) (hse : s ≤ e) (he : e ≤ b.view.length)
    (i : Nat) (h1 : s ≤ i) (h2 : i < s + min n (e - s)) :
    (cellsOf (scrollDownSpec s e n pen b).view)[i]? = some (List.replicate b.cols (Cell.blank pen)) := by
  rw [scrollDown_cells]
  have hl := length_cellsOf b.view
  have hk : min n (e - s) ≤ e - s := Nat.min_le_right _ _
  generalize cellsOf b.view = c at hl ⊢
  generalize min n (e - s) = k at hk h2 ⊢
  pw_simp
  grind

/-! wrap marks -/

theorem getElem?_unmarkAt (v : List Line) (j i : Nat) :
    (unmarkAt v j)[i]? = if i = j then (v[i]?).map unmark else v[i]? := by
  unfold unmarkAt
  pw_simp
  grind

theorem getElem?_upMarks (s e rows : Nat) (v : List Line) (i : Nat) :
    (upMarks s e rows v)[i]? =
      if (s > 0 ∧ i = s - 1) ∨ (e < rows ∧ i = e - 1) then (v[i]?).map unmark else v[i]? := by
  unfold upMarks
  simp only
  by_cases h1 : e < rows <;> by_cases h2 : s > 0 <;>
    simp only [h1, h2, if_true, if_false, getElem?_unmarkAt, true_and, false_and, or_false, false_or]
  all_goals (generalize v[i]? = o; cases o <;> simp only [Option.map_none, Option.map_some] <;> try grind)
  all_goals (unfold unmark; grind)

/-- rows outside the range, except the row just above it, are unchanged including their wrap marks -/
theorem scrollUp_rows_outside (s e n : Nat) (pen : Pen) (b : Buffer) (hse : s < e)
    (he : e ≤ b.view.length) (i : Nat) (hi : i + 1 < s ∨ e ≤ i) :
    (scrollUpSpec s e n pen b).view[i]? = b.view[i]? := by
  unfold scrollUpSpec blankRows
  simp only
  have hl := length_upMarks s e b.rows b.view
  have hg := getElem?_upMarks s e b.rows b.view i
  have hk : min n (e - s) ≤ e - s := Nat.min_le_right _ _
  generalize upMarks s e b.rows b.view = c at hl hg ⊢
  generalize min n (e - s) = k at hk ⊢
  pw_simp
  grind

/-- the row just above the range loses its wrap mark -/
theorem scrollUp_row_above (s e n : Nat) (pen : Pen) (b : Buffer) (hse : s < e)
    (he : e ≤ b.view.length) (hs : 0 < s) :
    (scrollUpSpec s e n pen b).view[s - 1]? = (b.view[s - 1]?).map unmark := by
  unfold scrollUpSpec blankRows
  simp only
  have hl := length_upMarks s e b.rows b.view
  have hg := getElem?_upMarks s e b.rows b.view (s - 1)
  have hk : min n (e - s) ≤ e - s := Nat.min_le_right _ _
  generalize upMarks s e b.rows b.view = c at hl hg ⊢
  generalize min n (e - s) = k at hk ⊢
  pw_simp
  grind

/-- rows that stay in the range move up with their wrap marks; only the old last row of a range
    that ends above the last row of the screen loses its mark -/
theorem scrollUp_rows_moved (s e n : Nat) (pen : Pen) (b : Buffer) (hse : s < e)
    (he : e ≤ b.view.length) (i : Nat) (h1 : s ≤ i)
    (h2 : i + min n (e - s) < e) :
    (scrollUpSpec s e n pen b).view[i]? =
      if i + min n (e - s) + 1 = e ∧ e < b.rows then (b.view[i + min n (e - s)]?).map unmark
      else b.view[i + min n (e - s)]? := by
  unfold scrollUpSpec blankRows
  simp only
  have hl := length_upMarks s e b.rows b.view
  have hg := getElem?_upMarks s e b.rows b.view (i + min n (e - s))
  have hk : min n (e - s) ≤ e - s := Nat.min_le_right _ _
  generalize upMarks s e b.rows b.view = c at hl hg ⊢
  generalize min n (e - s) = k at hk h2 hg ⊢
  pw_simp
  grind

/-- scrollback after a scroll-up: appended exactly when the range starts at row 0 -/
theorem scrollUp_sb (s e n : Nat) (pen : Pen) (b : Buffer) :
    (scrollUpSpec s e n pen b).sb =
      if s = 0 then b.sb ++ (upMarks 0 e b.rows b.view).take (min n e) else b.sb := by
  unfold scrollUpSpec
  simp only
  split
  · subst_vars; simp
  · rfl

/-- the appended rows are the old top rows of the view, cell for cell and in order -/
theorem scrollUp_sb_cells (e n : Nat) (pen : Pen) (b : Buffer) :
    cellsOf (scrollUpSpec 0 e n pen b).sb = cellsOf b.sb ++ (cellsOf b.view).take (min n e) := by
  rw [scrollUp_sb]
  simp only [if_true, cellsOf_append, cellsOf_take, cellsOf_upMarks]

/-- … and keep their wrap marks, except the old last row of a range ending above the last row -/
theorem scrollUp_sb_rows (e n : Nat) (pen : Pen) (b : Buffer) (i : Nat) (hi : i < min n e)
    (hm : i + 1 ≠ e ∨ e = b.rows) :
    (scrollUpSpec 0 e n pen b).sb[b.sb.length + i]? = b.view[i]? := by
  rw [scrollUp_sb]
  simp only [if_true]
  have hl := length_upMarks 0 e b.rows b.view
  have hg := getElem?_upMarks 0 e b.rows b.view i
  generalize upMarks 0 e b.rows b.view = c at hl hg ⊢
  pw_simp
  grind

/-- the complete line sequence after a scroll-up from row 0: old scrollback, then the scrolled-off
    rows, then the new view -/
theorem scrollUp_lines (e n : Nat) (pen : Pen) (b : Buffer) :
    (scrollUpSpec 0 e n pen b).lines
      = b.sb ++ (upMarks 0 e b.rows b.view).take (min n e) ++ (scrollUpSpec 0 e n pen b).view := by
  unfold Buffer.lines
  rw [scrollUp_sb]
  simp

theorem scrollDown_sb (s e n : Nat) (pen : Pen) (b : Buffer) : (scrollDownSpec s e n pen b).sb = b.sb := rfl

/-- scroll-down: rows outside the range, except the one just above, keep cells and marks -/
theorem scrollDown_rows_outside (s e n : Nat) (pen : Pen) (b : Buffer) (hse : s < e)
    (he : e ≤ b.view.length) (i : Nat) (hi : i + 1 < s ∨ e ≤ i) :
    (scrollDownSpec s e n pen b).view[i]? = b.view[i]? := by
  unfold scrollDownSpec blankRows
  simp only
  have hk : min n (e - s) ≤ e - s := Nat.min_le_right _ _
  generalize min n (e - s) = k at hk ⊢
  split <;> simp only [getElem?_unmarkAt] <;> pw_simp <;> grind

theorem wrapped_unmarkAt_self (v : List Line) (j : Nat) (h : j < v.length) :
    ((unmarkAt v j)[j]?).map Line.wrapped = some false := by
  rw [getElem?_unmarkAt, if_pos rfl, List.getElem?_eq_getElem h]
  rfl

theorem wrapped_unmarkAt_keep (v : List Line) (j i : Nat)
    (h : (v[i]?).map Line.wrapped = some false) :
    ((unmarkAt v j)[i]?).map Line.wrapped = some false := by
  rw [getElem?_unmarkAt]
  split
  · cases hv : v[i]? with
    | none => rw [hv] at h; cases h
    | some l => rfl
  · exact h

/-- scroll-down: the row just above the range and the new last row of the range are unmarked -/
theorem scrollDown_unmarked (s e n : Nat) (pen : Pen) (b : Buffer) (hse : s < e)
    (he : e ≤ b.view.length) (i : Nat) (hi : (0 < s ∧ i = s - 1) ∨ i = e - 1) :
    ((scrollDownSpec s e n pen b).view[i]?).map Line.wrapped = some false := by
  unfold scrollDownSpec blankRows
  simp only
  have hk : min n (e - s) ≤ e - s := Nat.min_le_right _ _
  generalize min n (e - s) = k at hk ⊢
  have hw : (List.take s b.view ++ List.replicate k (Line.blank b.cols pen) ++ List.drop s (List.take (e - k) b.view)
      ++ List.drop e b.view).length = b.view.length := by simp; omega
  generalize (List.take s b.view ++ List.replicate k (Line.blank b.cols pen) ++ List.drop s (List.take (e - k) b.view)
      ++ List.drop e b.view) = w at hw ⊢
  rcases hi with ⟨h0, h1⟩ | h1
  · subst h1
    simp only [h0, if_true]
    apply wrapped_unmarkAt_keep
    apply wrapped_unmarkAt_self
    omega
  · subst h1
    apply wrapped_unmarkAt_self
    split <;> (try simp only [length_unmarkAt]) <;> omega

/-! ### remaining frame facts -/

/-- the DEC private modes that switch buffers -/
def altMode (m : DecMode) : Bool := m == .altScreenBuffer || m == .saveCursorAltScreenBuffer

theorem decsetOne_same {t t' : Terminal} {m : DecMode} (hm : altMode m = false)
    (he : Terminal.decsetOne t m = some t') : SameBufs t t' := by
  cases m <;> simp only [altMode, beq_self_eq_true, Bool.or_true, Bool.true_or, Bool.true_eq_false] at hm
    <;> simp only [Terminal.decsetOne] at he
  · cases he; exact ⟨rfl, rfl⟩
  · have := moveCursorHome_same he; exact ⟨this.1, this.2⟩
  · cases he; exact ⟨rfl, rfl⟩
  · cases he; exact ⟨rfl, rfl⟩
  · exact saveCursor_same he

theorem decrstOne_same {t t' : Terminal} {m : DecMode} (hm : altMode m = false)
    (he : Terminal.decrstOne t m = some t') : SameBufs t t' := by
  cases m <;> simp only [altMode, beq_self_eq_true, Bool.or_true, Bool.true_or, Bool.true_eq_false] at hm
    <;> simp only [Terminal.decrstOne] at he
  · cases he; exact ⟨rfl, rfl⟩
  · have := moveCursorHome_same he; exact ⟨this.1, this.2⟩
  · cases he; exact ⟨rfl, rfl⟩
  · cases he; exact ⟨rfl, rfl⟩
  · cases he; exact ⟨rfl, rfl⟩

theorem foldM'_same (f : Terminal → DecMode → Option Terminal) (ms : List DecMode)
    (hf : ∀ t m t', m ∈ ms → f t m = some t' → SameBufs t t') :
    ∀ t t', Terminal.foldM' f ms t = some t' → SameBufs t t' := by
  induction ms with
  | nil => intro t t' h; simp only [Terminal.foldM'] at h; cases h; exact ⟨rfl, rfl⟩
  | cons m ms ih =>
    intro t t' h
    simp only [Terminal.foldM'] at h
    split at h
    · rename_i t1 h1
      exact (hf t m t1 (List.mem_cons_self) h1).trans
        (ih (fun t m t' hm => hf t m t' (List.mem_cons_of_mem _ hm)) t1 t' h)
    · cases h

/-- DECSET/DECRST without an alternate-screen mode touch neither buffer -/
theorem decModes_same (t t' : Terminal) (f : Function) (hf : replacesBuffer f = false)
    (hd : (∃ ms, f = .decset ms) ∨ (∃ ms, f = .decrst ms)) (he : t.execute f = some t') :
    SameBufs t t' := by
  rcases hd with ⟨ms, h⟩ | ⟨ms, h⟩ <;> subst h <;> simp only [Terminal.execute] at he
    <;> simp only [replacesBuffer, List.any_eq_false] at hf
  · refine foldM'_same _ ms (fun t m t' hm h => decsetOne_same ?_ h) t t' he
    have := hf m hm
    simpa [altMode] using this
  · refine foldM'_same _ ms (fun t m t' hm h => decrstOne_same ?_ h) t t' he
    have := hf m hm
    simpa [altMode] using this

/-- XTWINOPS is inert (the `xtwinops` flag is never set) -/
theorem xtwinops_inert (t : Terminal) (c r : Nat) (h : TInv t = true) :
    t.execute (.xtwinops c r) = some t := by
  obtain ⟨_, _, _, _, _, _, _, _, hx⟩ := TInv_facts h
  simp only [Terminal.execute, Terminal.xtwinopsF, hx, Bool.false_eq_true, if_false]

theorem alt_limit (t : Terminal) (h : TInv t = true) (ha : t.activeBufferType = .alternate) :
    t.buffer.limit = some (Buffer.mkLimit 0) := by
  simp [TInv, ha] at h
  grind

theorem sb_le_hard (b : Buffer) (l : Limit) (h : BInv b = true) (hl : b.limit = some l)
    (ht : b.trimNeeded = false) : b.sb.length ≤ l.hard := by
  simp [BInv, hl, ht] at h
  grind

/-- the alternate screen keeps no scrollback: after `changes()` + `gc()` nothing is above the view -/
theorem alt_keeps_none (t : Terminal) (h : TInv t = true) (ha : t.activeBufferType = .alternate) :
    (Spec.finishT t).buffer.sb = [] := by
  have hlim := alt_limit t h ha
  obtain ⟨_, _, hb, _⟩ := TInv_facts h
  have h0 : (Buffer.mkLimit 0).hard = 0 := by simp [Buffer.mkLimit]
  have h00 : (Buffer.mkLimit 0).soft = 0 := rfl
  unfold Spec.finishT Terminal.gc Terminal.changes Buffer.gc
  cases htn : t.buffer.trimNeeded
  · have := sb_le_hard _ _ hb hlim htn
    simp only [Bool.false_eq_true, if_false]
    exact List.eq_nil_of_length_eq_zero (by omega)
  · simp only [if_true, hlim, h0, h00]
    split
    · simp
    · simp only
      exact List.eq_nil_of_length_eq_zero (by omega)

end Avt.C06L
