/-
  Avt.Lemmas.C11Sound3 — soundness of the normal form `normD` at `Vt` level: one character (every
  parser state, every emitted function), then whole continuations.

  The continuation invariant `Good`: the global invariant `Inv`, the register-shape invariant `PRegOK`
  of the parser, and "not resized while on the alternate screen".  `Inv` is preserved by C02,
  `resizedOnAlt = false` by `pre_execute`; the preservation of `PRegOK` by `Parser.feed` is the explicit
  contract `PRegOKStable` (evaluated on the implementation's states by the C11 oracle after every dump).
-/
import Avt.Lemmas.C11Sound2

namespace Avt
namespace Lemmas.C11
open Avt.Spec.C11 Avt.Terminal

/-- **`normD` is sound for one character** — every parser state, every emitted function -/
theorem norm_sound_feed_all (a b : Vt) (hp : Agree a.parser b.parser) (ha : Pre a.terminal) (hb : Pre b.terminal)
    (ht : normT a.terminal = normT b.terminal) (c : Nat) :
    (a.feed c).map normD = (b.feed c).map normD := by
  have hstep := nstep_eq hp c
  unfold Vt.feed
  cases hfa : a.parser.feed c with
  | none =>
    cases hfb : b.parser.feed c with
    | none => rfl
    | some rb => simp [nstep, hfa, hfb] at hstep
  | some ra =>
    cases hfb : b.parser.feed c with
    | none => simp [nstep, hfa, hfb] at hstep
    | some rb =>
      obtain ⟨pa, fa⟩ := ra
      obtain ⟨pb, fb⟩ := rb
      simp only [nstep, hfa, hfb, Option.map_some, Option.some.injEq, Prod.mk.injEq] at hstep
      obtain ⟨hpn, hf⟩ := hstep
      subst hf
      cases fa with
      | none => simp only [Option.map_some, normD, hpn, ht]
      | some f =>
        have hs := norm_sound_execute_all f a.terminal b.terminal ha hb ht
        simp only
        cases hea : a.terminal.execute f with
        | none =>
          cases heb : b.terminal.execute f with
          | none => rfl
          | some tb => simp [hea, heb] at hs
        | some ta =>
          cases heb : b.terminal.execute f with
          | none => simp [hea, heb] at hs
          | some tb =>
            simp only [hea, heb, Option.map_some, Option.some.injEq] at hs
            simp only [Option.map_some, normD, hpn, hs]

/-- the contract: the register-shape invariant of the parser is preserved by every character -/
def PRegOKStable : Prop :=
  ∀ (p p' : Parser) (c : Nat) (f : Option Function), PInv p = true → PRegOK p = true →
    p.feed c = some (p', f) → PRegOK p' = true

/-- what holds of every state along a continuation -/
structure Good (v : Vt) : Prop where
  inv : Inv v = true
  reg : PRegOK v.parser = true
  geo : resizedOnAlt v.terminal = false

theorem Good.pre {v : Vt} (h : Good v) : Pre v.terminal := by
  have := h.inv
  simp only [Inv, Bool.and_eq_true] at this
  exact ⟨this.2, h.geo⟩

theorem Good.feed (hst : PRegOKStable) {v v' : Vt} (h : Good v) {c : Nat} (hf : v.feed c = some v') : Good v' := by
  obtain ⟨v2, e2, i2⟩ := Props.Closed.C02_feed c h.inv
  rw [hf] at e2; cases e2
  have hi := h.inv
  simp only [Inv, Bool.and_eq_true] at hi
  unfold Vt.feed at hf
  cases hp : v.parser.feed c with
  | none => simp [hp] at hf
  | some r =>
    obtain ⟨p', fo⟩ := r
    have hreg := hst v.parser p' c fo hi.1 h.reg hp
    cases fo with
    | none =>
      simp only [hp, Option.some.injEq] at hf
      subst hf
      exact ⟨i2, hreg, h.geo⟩
    | some f =>
      simp only [hp, Option.map_eq_some_iff] at hf
      obtain ⟨t', ht', rfl⟩ := hf
      exact ⟨i2, hreg, (pre_execute h.pre ht').2⟩

theorem Good.feedAll (hst : PRegOKStable) : ∀ (xs : List Nat) {v v' : Vt}, Good v → v.feedAll xs = some v' → Good v'
  | [], v, v', h, hf => by simp only [Vt.feedAll, Option.some.injEq] at hf; subst hf; exact h
  | c :: cs, v, v', h, hf => by
    simp only [Vt.feedAll] at hf
    cases h1 : v.feed c with
    | none => simp [h1] at hf
    | some v1 =>
      simp only [h1] at hf
      exact Good.feedAll hst cs (h.feed hst h1) hf

/-- `changes()` + `gc()` keep the invariant of the continuation -/
theorem Good.finish {v : Vt} (h : Good v) (hi : Inv (Vt.finish v).1 = true) : Good (Vt.finish v).1 :=
  ⟨hi, h.reg, by
    have := h.geo
    simp only [Vt.finish, Terminal.changes, Terminal.gc, Buffer.gc, resizedOnAlt] at this ⊢
    exact this⟩

theorem agree_of {a b : Vt} (ha : Good a) (hb : Good b) (h : normD a = normD b) : Agree a.parser b.parser := by
  have ia := ha.inv
  have ib := hb.inv
  simp only [Inv, Bool.and_eq_true] at ia ib
  exact ⟨ia.1, ib.1, ha.reg, hb.reg, congrArg Vt.parser h⟩

/-- **`normD` is sound for whole continuations** -/
theorem norm_sound_feedAll (hst : PRegOKStable) : ∀ (xs : List Nat) (a b : Vt), Good a → Good b →
    normD a = normD b → (a.feedAll xs).map normD = (b.feedAll xs).map normD
  | [], a, b, _, _, h => by simp [Vt.feedAll, h]
  | c :: cs, a, b, ha, hb, h => by
    have step := norm_sound_feed_all a b (agree_of ha hb h) ha.pre hb.pre (congrArg Vt.terminal h) c
    simp only [Vt.feedAll]
    cases hfa : a.feed c with
    | none =>
      cases hfb : b.feed c with
      | none => rfl
      | some b' => simp [hfa, hfb] at step
    | some a' =>
      cases hfb : b.feed c with
      | none => simp [hfa, hfb] at step
      | some b' =>
        simp only [hfa, hfb, Option.map_some, Option.some.injEq] at step
        exact norm_sound_feedAll hst cs a' b' (ha.feed hst hfa) (hb.feed hst hfb) step

end Lemmas.C11
end Avt
