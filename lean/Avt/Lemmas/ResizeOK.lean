/-
  Avt.Lemmas.ResizeOK — `Buffer.resize` never panics and re-establishes the buffer invariant
  (the `ResizeOK` contract of Avt/Spec/ResizeOK.lean; C01 + C02 for resize).
-/
import Avt.Lemmas.Resize
import Avt.Spec.ResizeOK

namespace Avt

theorem widths_of_all {ls : List Line} {c : Nat}
    (h : ls.all (fun l => l.cells.length == c) = true) : ∀ l ∈ ls, l.len = c := by
  intro l hl
  rw [List.all_eq_true] at h
  simpa [Line.len] using h l hl

theorem all_of_widths {ls : List Line} {c : Nat}
    (h : ∀ l ∈ ls, l.len = c) : ls.all (fun l => l.cells.length == c) = true := by
  rw [List.all_eq_true]
  intro l hl
  simpa [Line.len] using h l hl

/-- `BInv` unpacked -/
theorem BInv_unpack (b : Buffer) : BInv b = true ↔
    (1 ≤ b.cols ∧ 1 ≤ b.rows ∧ b.view.length = b.rows
      ∧ b.view.all (fun l => l.cells.length == b.cols) = true
      ∧ b.sb.all (fun l => l.cells.length == b.cols) = true
      ∧ lastUnwrapped b.view = true
      ∧ (match b.limit with | some l => l.hard == l.soft + l.soft / Gen.hardDiv | none => true) = true
      ∧ (b.trimNeeded || match b.limit with | some l => decide (b.sb.length ≤ l.hard) | none => true) = true) := by
  simp only [BInv, Bool.and_eq_true, decide_eq_true_eq, beq_iff_eq, and_assoc]
  exact Iff.rfl

theorem resizeOK : ResizeOK := by
  intro b c r cur hinv hc hr hcur
  obtain ⟨hbc, hbr, hvl, hvw, hsw, hvlu, hlim, _⟩ := (BInv_unpack b).mp hinv
  have hvne : b.view ≠ [] := by
    intro e; rw [e] at hvl; simp at hvl; omega
  have hw : ∀ l ∈ b.lines, l.len = b.cols := by
    intro l hl
    simp only [Buffer.lines, List.mem_append] at hl
    cases hl with
    | inl h => exact widths_of_all hsw l h
    | inr h => exact widths_of_all hvw l h
  have hlu : lastUnwrapped b.lines = true := by
    simp only [Buffer.lines]
    rw [lastUnwrapped_append_of_ne_nil _ hvne]; exact hvlu
  have hlen : b.rows ≤ b.lines.length := by
    simp only [Buffer.lines, List.length_append]; omega
  obtain ⟨lp, hlp⟩ := Buffer.logicalPosition_ok b.lines cur b.cols b.rows hlen
  obtain ⟨ls1, cur1, oR, h1, hw1, hlu1, hlen1, hoR, hcase⟩ :=
    Buffer.rsStep1_ok b.lines b.cols b.rows c cur lp hc hbr hlen hw hlu
  have hcur1 : cur1.2 < oR ∨ cur1.2 < r := by
    by_cases hcc : c = b.cols
    · rw [if_pos hcc] at hcase
      obtain ⟨_, h2, h3⟩ := hcase
      rw [h2, h3]; exact hcur
    · rw [if_neg hcc] at hcase
      exact Or.inl hcase.2
  obtain ⟨ls2, cur2, h2, hw2, hlu2, hlen2, hcol2, hrow2⟩ :=
    Buffer.rsStep2_ok c r ls1 cur1 oR hr hw1 hlu1 hlen1 hoR hcur1
  have hk : csub ls2.length r = some (ls2.length - r) := by simp [csub, hlen2]
  refine ⟨{ b with sb := ls2.take (ls2.length - r), view := ls2.drop (ls2.length - r), cols := c,
                    rows := r, trimNeeded := true }, cur2, ?_, ?_, rfl, rfl, rfl, hrow2, ?_⟩
  · rw [Buffer.resize_eq]
    simp only [hlp, h1, h2, hk]
  · rw [BInv_unpack]
    refine ⟨hc, hr, ?_, ?_, ?_, ?_, hlim, rfl⟩
    · simp only [List.length_drop]; omega
    · exact all_of_widths fun l hl => hw2 l (List.mem_of_mem_drop hl)
    · exact all_of_widths fun l hl => hw2 l (List.mem_of_mem_take hl)
    · exact lastUnwrapped_drop _ hlu2 (by omega)
  · by_cases hcc : c = b.cols
    · rw [if_pos hcc] at hcase ⊢
      rw [hcol2, hcase.2.1]
    · rw [if_neg hcc] at hcase ⊢
      rw [hcol2]; exact hcase.1

/-- the hypotheses are satisfiable on a non-trivial state (a wrapped scrollback line, a width and a
    height change at once) -/
example :
    let c (n : Nat) : Cell := ⟨n, Pen.default⟩
    let b0 : Buffer :=
      { sb := [⟨[c 97, c 98, c 99, c 100], true⟩],
        view := [⟨[c 101, c 102, c 32, c 32], false⟩, Line.blank 4 Pen.default],
        cols := 4, rows := 2, limit := some (Buffer.mkLimit 10), trimNeeded := false }
    ResizeOKAt b0 3 1 (1, 0) := by
  intro c b0
  exact resizeOK b0 3 1 (1, 0) (by decide) (by decide) (by decide) (Or.inl (by decide))

end Avt
