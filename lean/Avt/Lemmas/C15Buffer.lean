/-
  Avt.Lemmas.C15Buffer — which view rows a buffer operation can change (cells only; wrap marks are
  not cells).  `BChg S b b'`: same number of rows, and every row `i < rows` outside `S` has the same
  cells in `b'` as in `b`.
-/
import Avt.Model.Vt
import Avt.Lemmas.Prim

namespace Avt.C15
open Avt

/-- the cells of view row `i` -/
def cellsAt (b : Buffer) (i : Nat) : Option (List Cell) := (b.view[i]?).map (·.cells)

structure BChg (S : Nat → Prop) (b b' : Buffer) : Prop where
  rows : b'.rows = b.rows
  cols : b'.cols = b.cols
  same : ∀ i, i < b.rows → ¬ S i → cellsAt b' i = cellsAt b i

def Never : Nat → Prop := fun _ => False

theorem BChg.refl (S : Nat → Prop) (b : Buffer) : BChg S b b := ⟨rfl, rfl, fun _ _ _ => rfl⟩

theorem BChg.mono {S S' : Nat → Prop} {b b' : Buffer} (h : BChg S b b') (hs : ∀ i, S i → S' i) :
    BChg S' b b' := ⟨h.rows, h.cols, fun i hi hn => h.same i hi (fun hs' => hn (hs i hs'))⟩

theorem BChg.trans {S : Nat → Prop} {b b1 b2 : Buffer} (h1 : BChg S b b1) (h2 : BChg S b1 b2) :
    BChg S b b2 :=
  ⟨h2.rows.trans h1.rows, h2.cols.trans h1.cols,
   fun i hi hn => (h2.same i (h1.rows ▸ hi) hn).trans (h1.same i hi hn)⟩

/-- a change of fields other than `view`, `rows`, `cols` -/
theorem BChg.of_view {S : Nat → Prop} {b b' : Buffer} (hr : b'.rows = b.rows) (hc : b'.cols = b.cols)
    (hv : ∀ i, i < b.rows → ¬ S i → b'.view[i]? = b.view[i]?) : BChg S b b' :=
  ⟨hr, hc, fun i hi hn => by simp only [cellsAt, hv i hi hn]⟩

theorem updRow_view {b b' : Buffer} {row : Nat} {f : Line → Option Line} (h : b.updRow row f = some b') :
    b'.rows = b.rows ∧ b'.cols = b.cols ∧ ∀ j, b'.view[j]? = if row = j then b.view[row]?.bind f else b.view[j]? := by
  unfold Buffer.updRow at h
  simp only [Option.map_eq_some_iff] at h
  obtain ⟨v, hv, rfl⟩ := h
  exact ⟨rfl, rfl, fun j => modAtM_getElem? hv⟩

/-- an update of one row changes that row only -/
theorem updRow_chg {b b' : Buffer} {row : Nat} {f : Line → Option Line} (h : b.updRow row f = some b') :
    BChg (· = row) b b' := by
  obtain ⟨hr, hc, hv⟩ := updRow_view h
  refine BChg.of_view hr hc fun i _ hn => ?_
  rw [hv, if_neg (fun e => hn e.symm)]

/-- an update of one row that keeps the cells (wrap marks) changes no cells -/
theorem updRow_keep {b b' : Buffer} {row : Nat} {f : Line → Option Line} (h : b.updRow row f = some b')
    (hf : ∀ l l', f l = some l' → l'.cells = l.cells) : BChg Never b b' := by
  obtain ⟨hr, hc, hv⟩ := updRow_view h
  refine ⟨hr, hc, fun i _ _ => ?_⟩
  simp only [cellsAt, hv]
  split
  · rename_i e; subst e
    cases hl : b.view[row]? with
    | none => simp
    | some l =>
      simp only [Option.bind_some, Option.map_some]
      cases hfl : f l with
      | none =>
        -- impossible: the update succeeded
        unfold Buffer.updRow at h
        simp only [Option.map_eq_some_iff] at h
        obtain ⟨v, hv', _⟩ := h
        obtain ⟨_, y, hy, _⟩ := modAtM_eq_some_iff.1 hv'
        rw [List.getElem?_eq_getElem (by assumption)] at hl
        simp only [Option.some.injEq] at hl
        rw [hl] at hy; rw [hfl] at hy; cases hy
      | some l' => simp [hf l l' hfl]
  · rfl

theorem wrap_chg {b b' : Buffer} {row : Nat} (h : b.wrap row = some b') : BChg Never b b' :=
  updRow_keep h (fun l l' e => by simp only [Option.some.injEq] at e; subst e; rfl)

theorem unwrapRow_chg {b b' : Buffer} {row : Nat} (h : b.unwrapRow row = some b') : BChg Never b b' :=
  updRow_keep h (fun l l' e => by simp only [Option.some.injEq] at e; subst e; rfl)

theorem print_chg {b b' : Buffer} {col row : Nat} {cell : Cell} (h : b.print col row cell = some b') :
    BChg (· = row) b b' := updRow_chg h

theorem insert_chg {b b' : Buffer} {col row n : Nat} {cell : Cell} (h : b.insert col row n cell = some b') :
    BChg (· = row) b b' := by
  unfold Buffer.insert at h
  split at h
  · simp at h
  · exact updRow_chg h

theorem delete_chg {b b' : Buffer} {col row n : Nat} {pen : Pen} (h : b.delete col row n pen = some b') :
    BChg (· = row) b b' := by
  unfold Buffer.delete at h
  split at h
  · simp at h
  · exact updRow_chg h

theorem clear_chg {b b' : Buffer} {a c : Nat} {pen : Pen} (h : b.clear a c pen = some b') :
    BChg (fun i => a ≤ i ∧ i < c) b b' := by
  unfold Buffer.clear at h
  simp only [Option.map_eq_some_iff] at h
  obtain ⟨v, hv, rfl⟩ := h
  refine BChg.of_view rfl rfl fun i _ hn => ?_
  show v[i]? = _
  rw [fillRange_getElem? hv, if_neg hn]

/-- the rows an erase mode may change -/
def eraseRows (mode : Buffer.EraseMode) (row i : Nat) : Prop :=
  match mode with
  | .fromCursorToEndOfView => row ≤ i
  | .fromStartOfViewToCursor => i ≤ row
  | .wholeView => True
  | _ => i = row

theorem erase_chg {b b' : Buffer} {col row : Nat} {mode : Buffer.EraseMode} {pen : Pen}
    (h : b.erase col row mode pen = some b') : BChg (eraseRows mode row) b b' := by
  show BChg (fun i => eraseRows mode row i) b b'
  cases mode <;> simp only [Buffer.erase] at h <;> simp only [eraseRows]
  · split at h
    · simp at h
    · exact updRow_chg h
  · split at h
    · simp at h
    · rename_i b1 h1
      exact ((updRow_chg h1).mono (fun i (e : i = row) => by show row ≤ i; omega)).trans
        ((clear_chg h).mono (fun i e => by show row ≤ i; omega))
  · split at h
    · simp at h
    · rename_i b1 h1
      exact ((updRow_chg h1).mono (fun i (e : i = row) => by show i ≤ row; omega)).trans
        ((clear_chg h).mono (fun i e => by show i ≤ row; omega))
  · exact (clear_chg h).mono (fun _ _ => trivial)
  · exact updRow_chg h
  · exact updRow_chg h
  · exact updRow_chg h


theorem optUnwrap_chg {b b1 : Buffer} {c : Prop} [Decidable c] {row : Nat}
    (h : (if c then b.unwrapRow row else some b) = some b1) : BChg Never b b1 := by
  split at h
  · exact unwrapRow_chg h
  · simp only [Option.some.injEq] at h; subst h; exact BChg.refl _ _

/-- `scroll_up(s..e, n)` changes rows `s..e` only -/
theorem scrollUp_chg {b b' : Buffer} {s e n : Nat} {pen : Pen} (h : b.scrollUp s e n pen = some b') :
    BChg (fun i => s ≤ i ∧ i < e) b b' := by
  unfold Buffer.scrollUp at h
  split at h
  · rename_i hh e1 r1 hh' he1 hr1
    dsimp only at h
    split at h
    · simp at h
    · rename_i b1 hb1
      have c1 : BChg (fun i => s ≤ i ∧ i < e) b b1 := (optUnwrap_chg hb1).mono (fun _ f => f.elim)
      refine c1.trans ?_
      split at h
      · rename_i hs
        split at h
        · rename_i he
          simp only [Option.some.injEq] at h; subst h
          exact ⟨rfl, rfl, fun i hi hn => absurd ⟨by omega, by omega⟩ hn⟩
        · split at h
          · rename_i he
            simp only [Option.some.injEq] at h; subst h
            refine BChg.of_view rfl rfl fun i _ hn => ?_
            have hie : e ≤ i := by
              rcases Nat.lt_or_ge i e with hlt | hge
              · exact absurd ⟨by omega, hlt⟩ hn
              · exact hge
            show (List.drop _ _)[i]? = _
            rw [List.getElem?_drop, List.getElem?_append_right (by simp; omega)]
            simp only [List.length_append, List.length_take, List.length_replicate, List.getElem?_drop]
            congr 1
            have : min e b1.view.length = e := by omega
            omega
          · simp at h
      · split at h
        · simp at h
        · rename_i s1 hs1
          split at h
          · simp at h
          · rename_i b2 hb2
            split at h
            · simp at h
            · rename_i v hv
              split at h
              · simp at h
              · rename_i b3 hb3
                simp only [Option.some.injEq] at h; subst h
                have c2 : BChg (fun i => s ≤ i ∧ i < e) b1 b2 := (unwrapRow_chg hb2).mono (fun _ f => f.elim)
                have c3 : BChg (fun i => s ≤ i ∧ i < e) b2 { b2 with view := v } :=
                  BChg.of_view rfl rfl fun i _ hn => by
                    show v[i]? = _
                    rw [rotLRange_getElem? hv, if_neg hn]
                have hh2 : hh ≤ e - s := by
                  have := (csub_eq_some_iff.1 hh').2; omega
                have c4 : BChg (fun i => s ≤ i ∧ i < e) { b2 with view := v } b3 :=
                  (clear_chg hb3).mono (fun i hi => by
                    have : min n hh ≤ e - s := by omega
                    omega)
                exact (c2.trans (c3.trans c4)).trans ⟨rfl, rfl, fun _ _ _ => rfl⟩
  · simp at h

/-- `scroll_down(s..e, n)` changes rows `s..e` only -/
theorem scrollDown_chg {b b' : Buffer} {s e n : Nat} {pen : Pen} (h : b.scrollDown s e n pen = some b') :
    BChg (fun i => s ≤ i ∧ i < e) b b' := by
  unfold Buffer.scrollDown at h
  split at h
  · simp at h
  · rename_i hh hh'
    dsimp only at h
    split at h
    · simp at h
    · rename_i v hv
      split at h
      · simp at h
      · rename_i b1 hb1
        split at h
        · simp at h
        · rename_i b2 hb2
          split at h
          · simp at h
          · rename_i e1 he1
            have c1 : BChg (fun i => s ≤ i ∧ i < e) b { b with view := v } :=
              BChg.of_view rfl rfl fun i _ hn => by
                show v[i]? = _
                rw [rotRRange_getElem? hv, if_neg hn]
            have c2 : BChg (fun i => s ≤ i ∧ i < e) { b with view := v } b1 :=
              (clear_chg hb1).mono (fun i hi => by
                have := (csub_eq_some_iff.1 hh').2
                have : min n hh ≤ e - s := by omega
                omega)
            have c3 : BChg (fun i => s ≤ i ∧ i < e) b1 b2 := (optUnwrap_chg hb2).mono (fun _ f => f.elim)
            have c4 : BChg (fun i => s ≤ i ∧ i < e) b2 b' := (unwrapRow_chg h).mono (fun _ f => f.elim)
            exact c1.trans (c2.trans (c3.trans c4))

/-- the inner loop of DECALN changes one row -/
theorem decalnCols_chg {j : Nat} {b b' : Buffer} {row col : Nat} (h : Terminal.decalnCols b row col j = some b') :
    BChg (· = row) b b' := by
  induction j generalizing b col with
  | zero => simp only [Terminal.decalnCols, Option.some.injEq] at h; subst h; exact BChg.refl _ _
  | succ j ih =>
    unfold Terminal.decalnCols at h
    split at h
    · simp at h
    · rename_i b1 hb1
      exact (print_chg hb1).trans (ih h)

end Avt.C15
