/-
  Avt.Lemmas.GenEqBuffer — simulation between the generated, Rust-shaped translation of src/buffer.rs
  (Avt/Gen/BufferGen.lean, namespace `Avt.GenB`: ONE `lines` vector whose last `rows` entries are the view,
  indices `lines.len() - rows + row` exactly as the Rust code computes them) and the hand-written model
  (`Avt.Buffer`, split as `sb ++ view`, DESIGN.md D2).

  Abstraction: `join b = { lines := b.sb ++ b.view, .. }`.  Under the model invariant `b.view.length = b.rows`
  (a clause of `BInv`) every operation commutes with `join`:

      GenB.op (join b) args = (Buffer.op b args).map join          (an equation between `Option`s)

  so the extra panic sites of the Rust shape (`lines.len() - rows` underflow in `view()`/`view_mut()`, the slice
  bounds of `self.lines[len - rows..]`) cannot fire under the hypothesis: the left side is `none` exactly when
  the model's is.  D2's "trusted tie" is thereby a theorem.
-/
import Avt.Gen.BufferGen
import Avt.Lemmas.GenEqLine
import Avt.Lemmas.Prim
import Avt.Spec.Inv

set_option linter.unusedSimpArgs false
set_option linter.unusedVariables false

namespace Avt.GenEqBuffer
open Avt

/-- the Rust-shaped buffer of a model buffer -/
def join (b : Buffer) : GenB.Buffer :=
  { lines := b.sb ++ b.view, cols := b.cols, rows := b.rows, scrollbackLimit := b.limit,
    trimNeeded := b.trimNeeded }

@[simp] theorem join_lines (b : Buffer) : (join b).lines = b.sb ++ b.view := rfl
@[simp] theorem join_cols (b : Buffer) : (join b).cols = b.cols := rfl
@[simp] theorem join_rows (b : Buffer) : (join b).rows = b.rows := rfl
@[simp] theorem join_limit (b : Buffer) : (join b).scrollbackLimit = b.limit := rfl
@[simp] theorem join_trim (b : Buffer) : (join b).trimNeeded = b.trimNeeded := rfl

theorem join_setLines (b : Buffer) (v : List Line) :
    ({ join b with lines := b.sb ++ v } : GenB.Buffer) = join { b with view := v } := rfl

/-! ### the index arithmetic of `view_mut()` / `self[row]` on the joined vector -/

/-- `lines.len() - self.rows` is the length of the scrollback: no underflow under the invariant -/
theorem off_join (sb view : List Line) (rows : Nat) (h : view.length = rows) :
    csub (sb ++ view).length rows = some sb.length := by
  simp [csub, List.length_append, ← h]

theorem getRow_join (sb view : List Line) (i : Nat) : (sb ++ view)[sb.length + i]? = view[i]? := by
  rw [List.getElem?_append_right (by omega)]; congr 1; omega

theorem setRow_join (sb view : List Line) (i : Nat) (x : Line) :
    List.set (sb ++ view) (sb.length + i) x = sb ++ view.set i x := by
  rw [List.set_append_right _ _ (by omega)]; congr 2; omega

theorem drop_take_join {α} (sb v : List α) (a c : Nat) :
    ((sb ++ v).take (sb.length + c)).drop (sb.length + a) = (v.take c).drop a := by
  rw [List.take_length_add_append, List.drop_length_add_append]

theorem fillRange_join {α} (sb v : List α) (a c : Nat) (x : α) :
    fillRange (sb ++ v) (sb.length + a) (sb.length + c) x = (fillRange v a c x).map (sb ++ ·) := by
  unfold fillRange
  have e1 : sb.length + c - (sb.length + a) = c - a := by omega
  by_cases h : a ≤ c ∧ c ≤ v.length
  · have h' : sb.length + a ≤ sb.length + c ∧ sb.length + c ≤ (sb ++ v).length := by
      simp only [List.length_append]; omega
    simp only [h, h', and_self, if_true, Option.map_some, e1, List.take_length_add_append,
      List.drop_length_add_append, List.append_assoc]
  · have h' : ¬ (sb.length + a ≤ sb.length + c ∧ sb.length + c ≤ (sb ++ v).length) := by
      simp only [List.length_append]; omega
    simp only [h, h', if_false, Option.map_none]

theorem rotLRange_join {α} (sb v : List α) (a c n : Nat) :
    rotLRange (sb ++ v) (sb.length + a) (sb.length + c) n = (rotLRange v a c n).map (sb ++ ·) := by
  unfold rotLRange
  have e1 : sb.length + c - (sb.length + a) = c - a := by omega
  by_cases h : a ≤ c ∧ c ≤ v.length ∧ n ≤ c - a
  · have h' : sb.length + a ≤ sb.length + c ∧ sb.length + c ≤ (sb ++ v).length
        ∧ n ≤ sb.length + c - (sb.length + a) := by
      simp only [List.length_append]; omega
    simp only [h, h', and_self, if_true, Option.map_some, drop_take_join, List.take_length_add_append,
      List.drop_length_add_append, List.append_assoc]
  · have h' : ¬ (sb.length + a ≤ sb.length + c ∧ sb.length + c ≤ (sb ++ v).length
        ∧ n ≤ sb.length + c - (sb.length + a)) := by
      simp only [List.length_append]; omega
    simp only [h, h', if_false, Option.map_none]

theorem rotRRange_join {α} (sb v : List α) (a c n : Nat) :
    rotRRange (sb ++ v) (sb.length + a) (sb.length + c) n = (rotRRange v a c n).map (sb ++ ·) := by
  unfold rotRRange
  have e1 : sb.length + c - (sb.length + a) = c - a := by omega
  by_cases h : a ≤ c ∧ c ≤ v.length ∧ n ≤ c - a
  · have h' : sb.length + a ≤ sb.length + c ∧ sb.length + c ≤ (sb ++ v).length
        ∧ n ≤ sb.length + c - (sb.length + a) := by
      simp only [List.length_append]; omega
    simp only [h, h', and_self, if_true, Option.map_some, drop_take_join, List.take_length_add_append,
      List.drop_length_add_append, List.append_assoc, e1]
  · have h' : ¬ (sb.length + a ≤ sb.length + c ∧ sb.length + c ≤ (sb ++ v).length
        ∧ n ≤ sb.length + c - (sb.length + a)) := by
      simp only [List.length_append]; omega
    simp only [h, h', if_false, Option.map_none]

/-! ### operations on one row (`self[row]`, `&mut self[row]`) -/

theorem print_sim (b : Buffer) (h : b.view.length = b.rows) (col row : Nat) (cell : Cell) :
    GenB.print (join b) col row cell = (b.print col row cell).map join := by
  simp only [GenB.print, Buffer.print, Buffer.updRow, modAtM, join_lines, join_rows, off_join _ _ _ h,
    getRow_join, setRow_join, GenEqLine.print_eq]
  cases b.view[row]? with
  | none => rfl
  | some x => simp only []; cases x.print col cell <;> rfl

theorem wrap_sim (b : Buffer) (h : b.view.length = b.rows) (row : Nat) :
    GenB.wrap (join b) row = (b.wrap row).map join := by
  simp only [GenB.wrap, Buffer.wrap, Buffer.updRow, modAtM, join_lines, join_rows, off_join _ _ _ h,
    getRow_join, setRow_join]
  cases b.view[row]? <;> rfl

theorem insert_sim (b : Buffer) (h : b.view.length = b.rows) (col row n : Nat) (cell : Cell) :
    GenB.insert (join b) col row n cell = (b.insert col row n cell).map join := by
  simp only [GenB.insert, Buffer.insert, Buffer.updRow, modAtM, join_lines, join_rows, join_cols,
    off_join _ _ _ h, getRow_join, setRow_join, GenEqLine.insert_eq]
  cases csub b.cols col with
  | none => rfl
  | some room =>
    simp only []
    cases b.view[row]? with
    | none => rfl
    | some x => simp only []; cases x.insert col (min n room) cell <;> rfl

theorem delete_sim (b : Buffer) (h : b.view.length = b.rows) (col row n : Nat) (pen : Pen) :
    GenB.delete (join b) col row n pen = (b.delete col row n pen).map join := by
  simp only [GenB.delete, Buffer.delete, Buffer.updRow, modAtM, join_lines, join_rows, join_cols,
    off_join _ _ _ h, getRow_join, setRow_join, GenEqLine.delete_eq, List.set_set]
  cases csub b.cols col with
  | none => rfl
  | some room =>
    simp only []
    cases b.view[row]? with
    | none => rfl
    | some x => simp only []; cases x.delete col (min n room) pen <;> rfl

theorem clear_sim (b : Buffer) (h : b.view.length = b.rows) (a c : Nat) (pen : Pen) :
    GenB.clear (join b) (a, c) pen = (b.clear a c pen).map join := by
  simp only [GenB.clear, Buffer.clear, join_lines, join_rows, join_cols, off_join _ _ _ h,
    fillRange_join, GenEqLine.blank_eq]
  cases fillRange b.view a c (Line.blank b.cols pen) <;> rfl

theorem erase_sim (b : Buffer) (h : b.view.length = b.rows) (col row : Nat) (mode : Buffer.EraseMode)
    (pen : Pen) : GenB.erase (join b) col row mode pen = (b.erase col row mode pen).map join := by
  cases mode with
  | nextChars n =>
    simp only [GenB.erase, Buffer.erase, Buffer.updRow, modAtM, join_lines, join_rows, join_cols,
      off_join _ _ _ h, getRow_join, setRow_join, GenEqLine.clear_eq, List.set_set]
    cases csub b.cols col with
    | none => rfl
    | some room =>
      simp only []
      cases b.view[row]? with
      | none => rfl
      | some x =>
        simp only []
        cases x.clear col (col + min n room) pen with
        | none => rfl
        | some y =>
          by_cases hc : col + min n room = b.cols
          · simp only [hc, decide_true, if_true, beq_self_eq_true]; rfl
          · have hc' : (col + min n room == b.cols) = false := by simpa using hc
            simp only [hc, decide_false, hc', Bool.false_eq_true, if_false]; rfl
  | fromCursorToEndOfView =>
    simp only [GenB.erase, Buffer.erase, Buffer.updRow, modAtM, join_lines, join_rows, join_cols,
      off_join _ _ _ h, getRow_join, setRow_join, GenEqLine.clear_eq, List.set_set]
    cases hx : b.view[row]? with
    | none => rfl
    | some x =>
      simp only []
      cases hy : Line.clear { x with wrapped := false } col b.cols pen with
      | none => rfl
      | some y =>
        simp only [Option.map_some, join_setLines]
        exact clear_sim { b with view := b.view.set row y } (by simpa using h) (row + 1) b.rows pen
  | fromStartOfViewToCursor =>
    simp only [GenB.erase, Buffer.erase, Buffer.updRow, modAtM, join_lines, join_rows, join_cols,
      off_join _ _ _ h, getRow_join, setRow_join, GenEqLine.clear_eq, List.set_set]
    cases hx : b.view[row]? with
    | none => rfl
    | some x =>
      simp only []
      cases hy : Line.clear x 0 (min (col + 1) b.cols) pen with
      | none => rfl
      | some y =>
        simp only [Option.map_some, join_setLines]
        exact clear_sim { b with view := b.view.set row y } (by simpa using h) 0 row pen
  | wholeView => exact clear_sim b h 0 b.rows pen
  | fromCursorToEndOfLine =>
    simp only [GenB.erase, Buffer.erase, Buffer.updRow, modAtM, join_lines, join_rows, join_cols,
      off_join _ _ _ h, getRow_join, setRow_join, GenEqLine.clear_eq, List.set_set]
    cases b.view[row]? with
    | none => rfl
    | some x => simp only []; cases x.clear col b.cols pen <;> rfl
  | fromStartOfLineToCursor =>
    simp only [GenB.erase, Buffer.erase, Buffer.updRow, modAtM, join_lines, join_rows, join_cols,
      off_join _ _ _ h, getRow_join, setRow_join, GenEqLine.clear_eq, List.set_set]
    cases b.view[row]? with
    | none => rfl
    | some x => simp only []; cases x.clear 0 (min (col + 1) b.cols) pen <;> rfl
  | wholeLine =>
    simp only [GenB.erase, Buffer.erase, Buffer.updRow, modAtM, join_lines, join_rows, join_cols,
      off_join _ _ _ h, getRow_join, setRow_join, GenEqLine.clear_eq, List.set_set]
    cases b.view[row]? with
    | none => rfl
    | some x => simp only []; cases x.clear 0 b.cols pen <;> rfl

/-! ### scrolling -/

theorem scrollDown_sim (b : Buffer) (h : b.view.length = b.rows) (s e n : Nat) (pen : Pen) :
    GenB.scrollDown (join b) (s, e) n pen = (b.scrollDown s e n pen).map join := by
  simp only [GenB.scrollDown, GenB.clear, Buffer.scrollDown, Buffer.clear, Buffer.unwrapRow, Buffer.updRow,
    modAtM, join_lines, join_rows, join_cols, off_join _ _ _ h, rotRRange_join, GenEqLine.blank_eq]
  cases csub e s with
  | none => rfl
  | some hh =>
    simp only []
    cases hv : rotRRange b.view s e (min n hh) with
    | none => rfl
    | some v =>
      have hvl : v.length = b.rows := by rw [rotRRange_length hv, h]
      simp only [Option.map_some, off_join _ _ _ hvl, fillRange_join]
      cases hc : fillRange v s (s + min n hh) (Line.blank b.cols pen) with
      | none => rfl
      | some v1 =>
        have hv1 : v1.length = b.rows := by rw [fillRange_length hc, hvl]
        simp only [Option.map_some, off_join _ _ _ hv1, getRow_join, setRow_join]
        have fin : ∀ v2 : List Line, v2.length = b.rows →
            (match csub e 1 with
              | none => none
              | some x9 =>
                match csub (b.sb ++ v2).length b.rows with
                | none => none
                | some x11 =>
                  match (b.sb ++ v2)[x11 + x9]? with
                  | none => none
                  | some x12 =>
                    some ({ lines := (b.sb ++ v2).set (x11 + x9) { cells := x12.cells, wrapped := false },
                            cols := b.cols, rows := b.rows, scrollbackLimit := (join b).scrollbackLimit,
                            trimNeeded := (join b).trimNeeded } : GenB.Buffer)) =
            Option.map join
              (match csub e 1 with
              | none => none
              | some e1 => Buffer.unwrapRow { b with view := v2 } e1) := by
          intro v2 hv2
          cases csub e 1 with
          | none => rfl
          | some e1 =>
            simp only [off_join _ _ _ hv2, getRow_join, setRow_join, Buffer.unwrapRow, Buffer.updRow, modAtM]
            cases v2[e1]? <;> rfl
        by_cases hs : s > 0
        · have hs1 : csub s 1 = some (s - 1) := csub_eq_some (by omega)
          simp only [hs, if_true, hs1]
          cases hx : v1[s - 1]? with
          | none => rfl
          | some x =>
            simp only [Option.map_some]
            exact fin (v1.set (s - 1) { x with wrapped := false }) (by simp [hv1])
        · simp only [hs, if_false]
          exact fin v1 hv1

/-- `for _ in 0..n { self.lines.insert(index, line.clone()) }` -/
theorem insertFold (f : GenB.Buffer → Nat → Option GenB.Buffer) (idx : Nat) (line : Line)
    (hf : ∀ g x, f g x = (GenL.insertAt g.lines idx line).map (fun ls => { g with lines := ls }))
    (xs : List Nat) (g : GenB.Buffer) :
    Terminal.foldM' f xs g =
      if xs.length = 0 ∨ idx ≤ g.lines.length then
        some { g with lines := g.lines.take idx ++ List.replicate xs.length line ++ g.lines.drop idx }
      else none := by
  induction xs generalizing g with
  | nil => simp [Terminal.foldM']
  | cons x xs ih =>
    simp only [Terminal.foldM', hf, GenL.insertAt]
    by_cases hi : idx ≤ g.lines.length
    · simp only [hi, if_true, Option.map_some, ih, List.length_cons, or_true]
      have hl : idx ≤ (List.take idx g.lines ++ line :: List.drop idx g.lines).length := by
        simp only [List.length_append, List.length_take, List.length_cons, List.length_drop]; omega
      simp only [hl, or_true, if_true]
      congr 2
      rw [List.take_append_of_le_length (by simp; omega), List.take_take, Nat.min_self,
        List.drop_append_of_le_length (by simp; omega)]
      have e0 : List.drop idx (List.take idx g.lines) = [] := by
        apply List.drop_of_length_le; simp; omega
      rw [e0, List.nil_append, List.replicate_succ', List.append_assoc, List.append_assoc, List.append_assoc]
      rfl
    · simp [hi]

/-- the part of the generated `scroll_up` after the first `wrapped = false` (text copied from BufferGen.lean and
    tied to the generated definition by `exact` in `scrollUp_sim`: a change of `scroll_up` is reported there) -/
def genTail (g : GenB.Buffer) (s e n : Nat) (pen : Pen) : Option GenB.Buffer :=
  let r2 :=
    if s = 0 then
      if e = g.rows then
        some (GenB.extend g n g.cols pen)
      else
        let line := GenL.blank g.cols pen
        match csub g.lines.length g.rows with
        | none => none
        | some x8 =>
          let index := x8 + e
          Terminal.foldM' (fun b _unused =>
              match GenL.insertAt b.lines index line with
              | none => none
              | some x9 =>
                some { b with lines := x9 }
            ) (List.range' 0 n) g
    else
      match csub s 1 with
      | none => none
      | some x10 =>
        let len11 := g.lines.length
        match csub len11 g.rows with
        | none => none
        | some x12 =>
          match g.lines[x12 + x10]? with
          | none => none
          | some x13 =>
            let g := { g with lines := List.set g.lines (x12 + x10) { x13 with wrapped := false } }
            let end' := e
            let len14 := g.lines.length
            match csub len14 g.rows with
            | none => none
            | some x15 =>
              match rotLRange g.lines (x15 + s) (x15 + e) n with
              | none => none
              | some x16 =>
                let g := { g with lines := x16 }
                match csub end' n with
                | none => none
                | some x17 =>
                  GenB.clear g (x17, end') pen
  match r2 with
  | none => none
  | some g =>
    some { g with trimNeeded := true }

/-- the part of the model's `scrollUp` after the first `unwrapRow` -/
def modTail (b1 : Buffer) (s e n : Nat) (pen : Pen) : Option Buffer :=
  if s = 0 then
    if e = b1.rows then
      let all := b1.view ++ List.replicate n (Line.blank b1.cols pen)
      some { b1 with sb := b1.sb ++ all.take n, view := all.drop n, trimNeeded := true }
    else
      if e ≤ b1.rows ∧ e ≤ b1.view.length then
        let all := b1.view.take e ++ List.replicate n (Line.blank b1.cols pen) ++ b1.view.drop e
        some { b1 with sb := b1.sb ++ all.take n, view := all.drop n, trimNeeded := true }
      else none
  else
    match csub s 1 with
    | none => none
    | some s1 =>
      match b1.unwrapRow s1 with
      | none => none
      | some b2 =>
        match rotLRange b2.view s e n with
        | none => none
        | some v =>
          match ({ b2 with view := v } : Buffer).clear (e - n) e pen with
          | none => none
          | some b3 => some { b3 with trimNeeded := true }

theorem tail_sim (b1 : Buffer) (h : b1.view.length = b1.rows) (s e n : Nat) (pen : Pen)
    (hn : s = 0 → (0 < n ∨ e ≤ b1.rows)) (hne : n ≤ e) :
    genTail (join b1) s e n pen = (modTail b1 s e n pen).map join := by
  unfold genTail modTail
  by_cases hs : s = 0
  · have hn := hn hs
    simp only [hs, if_true, join_rows, join_cols, join_lines]
    by_cases her : e = b1.rows
    · simp only [her, if_true, GenB.extend, GenEqLine.blank_eq, Option.map_some]
      simp only [join, List.append_assoc, List.take_append_drop]
    · simp only [her, if_false, off_join _ _ _ h]
      rw [insertFold _ (b1.sb.length + e) (GenL.blank b1.cols pen)
        (fun g x => by cases GenL.insertAt g.lines (b1.sb.length + e) (GenL.blank b1.cols pen) <;> rfl)]
      simp only [List.length_range', join_lines, List.length_append]
      by_cases hle : e ≤ b1.rows
      · have c1 : n = 0 ∨ b1.sb.length + e ≤ b1.sb.length + b1.view.length := by omega
        have c2 : e ≤ b1.rows ∧ e ≤ b1.view.length := by omega
        simp only [c1, c2, and_self, if_true, Option.map_some, List.take_length_add_append,
          List.drop_length_add_append, GenEqLine.blank_eq]
        simp only [join, List.append_assoc, List.take_append_drop]
      · have c1 : ¬ (n = 0 ∨ b1.sb.length + e ≤ b1.sb.length + b1.view.length) := by omega
        have c2 : ¬ (e ≤ b1.rows ∧ e ≤ b1.view.length) := by omega
        simp only [c1, c2, if_false, Option.map_none]
  · simp only [hs, if_false, join_rows, join_cols, join_lines, off_join _ _ _ h, getRow_join, setRow_join,
      Buffer.unwrapRow, Buffer.updRow, modAtM]
    cases csub s 1 with
    | none => rfl
    | some s1 =>
      simp only []
      cases hx : b1.view[s1]? with
      | none => rfl
      | some x =>
        have hv2 : (b1.view.set s1 { x with wrapped := false }).length = b1.rows := by simp [h]
        simp only [Option.map_some, off_join _ _ _ hv2, rotLRange_join]
        cases hv : rotLRange (b1.view.set s1 { x with wrapped := false }) s e n with
        | none => rfl
        | some v =>
          have hvl : v.length = b1.rows := by rw [rotLRange_length hv, hv2]
          have hc : csub e n = some (e - n) := csub_eq_some hne
          simp only [Option.map_some, hc]
          have := clear_sim { b1 with view := v } hvl (e - n) e pen
          simp only [join] at this ⊢
          rw [this]
          cases Buffer.clear { b1 with view := v } (e - n) e pen <;> rfl

theorem scrollUp_sim (b : Buffer) (h : b.view.length = b.rows) (s e n : Nat) (pen : Pen)
    (hn : 0 < n ∨ e ≤ b.rows) :
    GenB.scrollUp (join b) (s, e) n pen = (b.scrollUp s e n pen).map join := by
  have gshape : ∀ g : GenB.Buffer, GenB.scrollUp g (s, e) n pen =
      (match csub e s with
       | none => none
       | some x1 =>
         let n := min n x1
         let r1 :=
           match csub e 1 with
           | none => none
           | some x2 =>
             match csub g.rows 1 with
             | none => none
             | some x3 =>
               if x2 < x3 then
                 match csub e 1 with
                 | none => none
                 | some x4 =>
                   let len5 := g.lines.length
                   match csub len5 g.rows with
                   | none => none
                   | some x6 =>
                     match g.lines[x6 + x4]? with
                     | none => none
                     | some x7 =>
                       some { g with lines := List.set g.lines (x6 + x4) { x7 with wrapped := false } }
               else
                 some g
         match r1 with
         | none => none
         | some g => genTail g s e n pen) := fun g => rfl
  have mshape : b.scrollUp s e n pen =
      (match csub e s, csub e 1, csub b.rows 1 with
       | some h, some e1, some r1 =>
         let n := min n h
         match (if e1 < r1 then b.unwrapRow e1 else some b) with
         | none => none
         | some b1 => modTail b1 s e n pen
       | _, _, _ => none) := by
    unfold Buffer.scrollUp modTail
    cases csub e s <;> cases csub e 1 <;> cases csub b.rows 1 <;> rfl
  rw [gshape, mshape]
  simp only [join_lines, join_rows, off_join _ _ _ h, getRow_join, setRow_join]
  cases hh : csub e s with
  | none => rfl
  | some hh' =>
    cases he1 : csub e 1 with
    | none => rfl
    | some e1 =>
      cases hr1 : csub b.rows 1 with
      | none => rfl
      | some r1 =>
        simp only []
        have hne : min n hh' ≤ e := by
          have := (csub_eq_some_iff.1 hh).2; omega
        have hn' : ∀ rows', rows' = b.rows → s = 0 → (0 < min n hh' ∨ e ≤ rows') := by
          intro rows' hr hs
          have := (csub_eq_some_iff.1 hh)
          have := (csub_eq_some_iff.1 he1)
          omega
        by_cases he : e1 < r1
        · simp only [he, if_true, Buffer.unwrapRow, Buffer.updRow, modAtM]
          cases hx : b.view[e1]? with
          | none => rfl
          | some x =>
            simp only [Option.map_some]
            exact tail_sim { b with view := b.view.set e1 { x with wrapped := false } } (by simp [h]) s e _ pen
              (hn' _ rfl) hne
        · simp only [he, if_false]
          exact tail_sim b h s e _ pen (hn' _ rfl) hne

/-- DISCREPANCY between model and code, outside every caller's range (`Terminal` only scrolls ranges inside
    the view): `scroll_up(0..e, 0, pen)` with `e > rows` does not panic in the Rust code (the `for _ in 0..0`
    loop never calls `Vec::insert`), the model rejects it.  Concrete input: a 1-row buffer, range `0..2`, `n = 0`. -/
example :
    let b : Buffer := { sb := [], view := [Line.blank 1 Pen.default], cols := 1, rows := 1, limit := none,
                        trimNeeded := false }
    (GenB.scrollUp (join b) (0, 2) 0 Pen.default).isSome = true ∧ b.scrollUp 0 2 0 Pen.default = none := by
  decide

/-! ### construction, queries, gc -/

theorem new_sim (cols rows : Nat) (limit : Option Nat) (pen : Option Pen) :
    GenB.new cols rows limit pen = join (Buffer.new cols rows limit pen) := by
  simp only [GenB.new, Buffer.new, join, GenEqLine.blank_eq, GenEqLine.penDefault_eq, List.nil_append]
  cases limit <;> rfl

theorem view_sim (b : Buffer) (h : b.view.length = b.rows) : GenB.view (join b) = some b.view := by
  simp only [GenB.view, join_lines, join_rows, off_join _ _ _ h, GenL.slice]
  simp [List.take_of_length_le]

theorem lines_sim (b : Buffer) : GenB.lines (join b) = b.lines := rfl

theorem extend_eq (g : GenB.Buffer) (n cols : Nat) (pen : Pen) :
    GenB.extend g n cols pen = { g with lines := g.lines ++ List.replicate n (Line.blank cols pen) } := rfl

/-- one iteration of the `for line in &self.lines` loop of `text`, as the generated code writes it -/
def textStep : List Nat × List (List Nat) → Line → List Nat × List (List Nat) :=
  fun (current, text) line =>
    let current := current ++ (GenL.text line)
    if !line.wrapped then
      let text := text ++ [trimEnd current]
      let current := []
      (current, text)
    else
      (current, text)

def textFin (r : List Nat × List (List Nat)) : List (List Nat) :=
  if !r.1.isEmpty then r.2 ++ [trimEnd r.1] else r.2

theorem text_fold (ls : List Line) (cur : List Nat) (out : List (List Nat)) :
    textFin (List.foldl textStep (cur, out) ls) = out ++ Buffer.textGo ls cur := by
  induction ls generalizing cur out with
  | nil => simp only [List.foldl_nil, Buffer.textGo, textFin]; cases cur <;> simp
  | cons l ls ih =>
    simp only [List.foldl_cons, Buffer.textGo, textStep, GenEqLine.text_eq]
    cases l.wrapped
    · simp only [Bool.not_false, if_true]
      rw [ih]; simp
    · simp only [Bool.not_true, if_false, Bool.false_eq_true]
      rw [ih]

theorem text_eq (g : GenB.Buffer) : GenB.text g = Buffer.textGo g.lines [] := by
  have shape : GenB.text g = textFin (List.foldl textStep ([], []) g.lines) := rfl
  rw [shape, text_fold, List.nil_append]

theorem text_sim (b : Buffer) : GenB.text (join b) = b.text := text_eq (join b)

/-- one iteration of the loop of `logical_position`, as the generated code writes it -/
def logStep (cols : Nat) : Nat × Nat → Line → Nat × Nat :=
  fun (logColOffset, logRow) line =>
    if line.wrapped then
      let logColOffset := logColOffset + cols
      (logColOffset, logRow)
    else
      let logColOffset := 0
      let logRow := logRow + 1
      (logColOffset, logRow)

theorem log_fold (cols : Nat) (ls : List Line) (c r : Nat) :
    List.foldl (logStep cols) (c, r) ls = Buffer.logLoop cols ls c r := by
  induction ls generalizing c r with
  | nil => rfl
  | cons l ls ih =>
    simp only [List.foldl_cons, Buffer.logLoop, logStep]
    cases l.wrapped <;> simp only [if_true, if_false, Bool.false_eq_true] <;> exact ih _ _

theorem logicalPosition_eq (g : GenB.Buffer) (pos : Nat × Nat) (cols rows : Nat) :
    GenB.logicalPosition g pos cols rows = Buffer.logicalPosition g.lines pos cols rows := by
  have shape : GenB.logicalPosition g pos cols rows =
      (match csub g.lines.length rows with
       | none => none
       | some x1 =>
         match csub (pos.2 + x1) (min (pos.2 + x1) g.lines.length) with
         | none => none
         | some x2 =>
           let r := List.foldl (logStep cols) (0, x2) (List.take (pos.2 + x1) g.lines)
           some (pos.1 + r.1, r.2)) := rfl
  rw [shape]
  unfold Buffer.logicalPosition
  cases csub g.lines.length rows with
  | none => rfl
  | some off =>
    simp only [log_fold]
    rw [csub_eq_some (Nat.min_le_left _ _)]

theorem logicalPosition_sim (b : Buffer) (pos : Nat × Nat) (cols rows : Nat) :
    GenB.logicalPosition (join b) pos cols rows = Buffer.logicalPosition b.lines pos cols rows :=
  logicalPosition_eq (join b) pos cols rows

/-- `hard ≥ soft` for the scrollback limit (a clause of `BInv`: `hard = soft + soft / 10`) -/
def limOK (b : Buffer) : Prop := ∀ lim, b.limit = some lim → lim.soft ≤ lim.hard

theorem limOK_of_BInv {b : Buffer} (hb : BInv b = true) : limOK b := by
  intro lim hl
  simp only [BInv, Bool.and_eq_true, hl] at hb
  have := hb.1.2
  simp only [beq_iff_eq] at this
  rw [this]; exact Nat.le_add_right _ _

theorem len_of_BInv {b : Buffer} (hb : BInv b = true) : b.view.length = b.rows := by
  simp only [BInv, Bool.and_eq_true] at hb
  simpa using hb.1.1.1.1.1.2

theorem trimScrollback_sim (b : Buffer) (h : b.view.length = b.rows) (hl : limOK b) :
    GenB.trimScrollback (join b) =
      some (match b.limit with
            | some lim =>
              if b.sb.length > lim.hard then
                (join { b with sb := b.sb.drop (b.sb.length - lim.soft) }, some (b.sb.take (b.sb.length - lim.soft)))
              else (join b, none)
            | none => (join b, none)) := by
  simp only [GenB.trimScrollback, join_limit, join_lines, join_rows, off_join _ _ _ h]
  cases hlim : b.limit with
  | none => rfl
  | some lim =>
    simp only []
    by_cases hgt : b.sb.length > lim.hard
    · have hs := hl lim hlim
      have hex : b.sb.length - lim.soft ≤ b.sb.length := Nat.sub_le _ _
      simp only [hgt, if_true, csub_eq_some (by omega : lim.soft ≤ b.sb.length), GenL.slice,
        List.length_append, List.drop_zero]
      have c : 0 ≤ b.sb.length - lim.soft ∧ b.sb.length - lim.soft ≤ b.sb.length + b.view.length := by omega
      simp only [c, and_self, if_true, List.take_append_of_le_length hex, List.drop_append_of_le_length hex]
      rfl
    · simp only [hgt, if_false]

theorem gc_sim (b : Buffer) (h : b.view.length = b.rows) (hl : limOK b) :
    (GenB.gc (join b)).map (fun r => (r.1, r.2.getD [])) = some (join b.gc.1, b.gc.2) := by
  unfold GenB.gc Buffer.gc
  cases ht : b.trimNeeded with
  | false => simp [join, ht]
  | true =>
    simp only [join_trim, ht, if_true]
    have := trimScrollback_sim { b with trimNeeded := false } h hl
    simp only [join] at this ⊢
    rw [this]
    cases b.limit with
    | none => rfl
    | some lim =>
      simp only [Option.map_some]
      by_cases hgt : b.sb.length > lim.hard <;> simp [hgt]

/-- the same under the full buffer invariant -/
theorem gc_sim_BInv (b : Buffer) (hb : BInv b = true) :
    (GenB.gc (join b)).map (fun r => (r.1, r.2.getD [])) = some (join b.gc.1, b.gc.2) :=
  gc_sim b (len_of_BInv hb) (limOK_of_BInv hb)

/-- `gc` hands lines out exactly when the scrollback exceeded the hard limit -/
theorem gc_some_iff (b : Buffer) (h : b.view.length = b.rows) (hl : limOK b) (g : GenB.Buffer)
    (o : Option (List Line)) (hg : GenB.gc (join b) = some (g, o)) :
    o.isSome = true ↔ (b.trimNeeded = true ∧ ∃ lim, b.limit = some lim ∧ b.sb.length > lim.hard) := by
  unfold GenB.gc at hg
  cases ht : b.trimNeeded with
  | false => simp [join, ht] at hg; simp [← hg.2]
  | true =>
    simp only [join_trim, ht, if_true] at hg
    have := trimScrollback_sim { b with trimNeeded := false } h hl
    simp only [join] at this hg
    rw [this] at hg
    cases hlim : b.limit with
    | none => simp [hlim] at hg; simp [← hg.2]
    | some lim =>
      simp only [hlim, Option.some.injEq] at hg
      by_cases hgt : b.sb.length > lim.hard
      · simp only [hgt, if_true, Prod.mk.injEq] at hg; simp [← hg.2, hgt]
      · simp only [hgt, if_false, Prod.mk.injEq] at hg; simp [← hg.2, hgt]

/-! ### coverage -/

/-- the functions of buffer.rs that have a simulation / equality theorem above -/
def provedFunctions : List String := [
  "Buffer::new", "Buffer::text", "Buffer::print", "Buffer::wrap", "Buffer::insert", "Buffer::delete",
  "Buffer::erase", "Buffer::scroll_up", "Buffer::scroll_down", "Buffer::logical_position", "Buffer::view",
  "Buffer::lines", "Buffer::gc", "Buffer::clear", "Buffer::extend", "Buffer::trim_scrollback"]

/-- each of them is a function the translator emitted (the complete tie — every emitted function has a theorem —
    is `GenEqReflow.coverage_complete`, which adds `resize`, `relative_position`, `reflow`, `Reflow::next`) -/
theorem proved_are_translated : provedFunctions.all (fun f => GenB.translated.contains f) = true := by decide

end Avt.GenEqBuffer
