/-
  Avt.Lemmas.C10RowsOnly — the full C10 relation (`resizeRel`) for resizes that keep the width.
-/
import Avt.Lemmas.C10Cursor

namespace Avt.Lemmas
open Avt Avt.Spec.C10

/-! ### splitting the rows at the cursor row -/

theorem rstrip_append_run {α} (p : α → Bool) (xs : List α) :
    rstrip p xs ++ (xs.reverse.takeWhile p).reverse = xs := by
  have h := (List.takeWhile_append_dropWhile (p := p) (l := xs.reverse))
  have h2 := congrArg List.reverse h
  rw [List.reverse_append, List.reverse_reverse] at h2
  exact h2

theorem lastUnwrapped_dropWhile_reverse : ∀ (ys : List Line),
    lastUnwrapped ((ys.dropWhile (fun l => l.wrapped)).reverse) = true
  | [] => rfl
  | y :: t => by
    rw [List.dropWhile_cons]
    cases hw : y.wrapped with
    | true => simpa using lastUnwrapped_dropWhile_reverse t
    | false =>
      simp only [Bool.false_eq_true, if_false, List.reverse_cons]
      rw [lastUnwrapped_snoc, hw]; rfl

theorem lastUnwrapped_rstrip (P : List Line) : lastUnwrapped (rstrip (fun l => l.wrapped) P) = true :=
  lastUnwrapped_dropWhile_reverse P.reverse

theorem joinRows_length : ∀ {xs : List Line}, lastUnwrapped xs = true →
    (joinRows xs).length = xs.countP (fun l => !l.wrapped)
  | [], _ => rfl
  | [l], h => by
    have hl : l.wrapped = false := by simpa [lastUnwrapped] using h
    simp [joinRows, hl]
  | l :: l2 :: t, h => by
    have h' : lastUnwrapped (l2 :: t) = true := by simpa [lastUnwrapped] using h
    have ih := joinRows_length h'
    cases hw : l.wrapped with
    | false => rw [joinRows_cons_unwrapped hw, List.countP_cons]; simp [hw, ih]
    | true =>
      cases hj : joinRows (l2 :: t) with
      | nil => exact absurd (joinRows_eq_nil.1 hj) (by simp)
      | cons x xs =>
        rw [joinRows_cons_wrapped hw hj, List.countP_cons, ← ih, hj]; simp [hw]

theorem countP_run_zero {P2 : List Line} (h : ∀ l ∈ P2, l.wrapped = true) :
    P2.countP (fun l => !l.wrapped) = 0 := by
  rw [List.countP_eq_zero]
  intro l hl; simp [h l hl]

theorem run_all_wrapped (P : List Line) :
    ∀ l ∈ (P.reverse.takeWhile (fun l => l.wrapped)).reverse, l.wrapped = true := by
  intro l hl
  exact mem_takeWhile_pos (List.mem_reverse.1 hl)

/-- all the cells of a list of rows -/
def rowsCells (rows : List Line) : List Cell := (rows.map Line.cells).flatten

theorem rowsCells_length (rows : List Line) : (rowsCells rows).length = (rows.map Line.len).sum := by
  induction rows with
  | nil => rfl
  | cons l t ih => simp [rowsCells, Line.len] at ih ⊢; omega

theorem rowsCells_run_length (P : List Line) :
    (rowsCells (P.reverse.takeWhile (fun l => l.wrapped)).reverse).length = runLen P := by
  rw [rowsCells_length, sum_map_reverse]; rfl

theorem joinRows_run_append {P2 : List Line} (h : ∀ l ∈ P2, l.wrapped = true) {R : List Line}
    {x : List Cell} {xs : List (List Cell)} (hR : joinRows R = x :: xs) :
    joinRows (P2 ++ R) = (rowsCells P2 ++ x) :: xs := by
  induction P2 with
  | nil => simpa [rowsCells] using hR
  | cons l t ih =>
    have hl : l.wrapped = true := h l (by simp)
    have := ih (fun z hz => h z (by simp [hz]))
    rw [List.cons_append, joinRows_cons_wrapped hl this]
    simp [rowsCells]

/-- the logical lines of `ls`, split at row `n`: the lines completed above row `n`, then the lines
    made of the open run of wrapped rows just above row `n` together with rows `n…` -/
theorem logicalLines_at (ls : List Line) (n : Nat) :
    logicalLines ls
        = logicalLines (rstrip (fun l => l.wrapped) (ls.take n))
          ++ logicalLines (((ls.take n).reverse.takeWhile (fun l => l.wrapped)).reverse ++ ls.drop n)
      ∧ (logicalLines (rstrip (fun l => l.wrapped) (ls.take n))).length
          = (ls.take n).countP (fun l => !l.wrapped) := by
  constructor
  · conv => lhs; rw [← List.take_append_drop n ls, ← rstrip_append_run (fun l => l.wrapped) (ls.take n),
      List.append_assoc]
    exact logicalLines_append (lastUnwrapped_rstrip _) _
  · simp only [logicalLines, List.length_map]
    rw [joinRows_length (lastUnwrapped_rstrip _)]
    conv => rhs; rw [← rstrip_append_run (fun l => l.wrapped) (ls.take n), List.countP_append,
      countP_run_zero (run_all_wrapped _), Nat.add_zero]

/-! ### the relation, reduced to the lines from the cursor's line on -/

theorem resizeRel_of_tail (A : List (List Cell)) {mh mh' : List Cell} {mt mt' : List (List Cell)}
    (o : Nat) (pending : Bool)
    (hbefore : eqUpToBlanks (mh'.take o) (mh.take o) = true)
    (hchar : pending = false → o < mh.length → cellEq mh'[o]? mh[o]? = true)
    (hkept : keptOrCut (mh :: mt) (mh' :: mt') = true) :
    resizeRel (A ++ mh :: mt) (A ++ mh' :: mt') A.length o A.length o pending = true := by
  simp only [resizeRel, aboveOK, beforeOK, onChar, onCharOK, afterOK, Bool.and_eq_true, beq_iff_eq,
    decide_eq_true_eq, Bool.or_eq_true, Bool.not_eq_true']
  have hget : ∀ (m : List Cell) (t : List (List Cell)), (A ++ m :: t)[A.length]? = some m := by
    intro m t; rw [List.getElem?_append_right (Nat.le_refl _)]; simp
  refine ⟨⟨⟨⟨⟨⟨trivial, by simp⟩, by simp⟩, ?_⟩, ?_⟩, ?_⟩, ?_⟩
  · simp
  · rw [hget, hget]; exact hbefore
  · rw [hget, hget]
    by_cases hp : pending = false
    · by_cases ho : o < mh.length
      · right; exact ⟨trivial, hchar hp ho⟩
      · left; simp [ho]
    · left; simp [hp]
  · simpa using hkept

/-! ### facts about prefixes and trailing default cells -/

theorem stripDefault_take_strip (J : List Cell) (o : Nat) :
    stripDefault ((stripDefault J).take o) = stripDefault (J.take o) := by
  obtain ⟨d, hd, hall⟩ := rstrip_decomp Cell.isDefault J
  rw [stripDefault_eq, stripDefault_eq, stripDefault_eq]
  by_cases ho : o ≤ (rstrip Cell.isDefault J).length
  · conv => rhs; rw [hd, List.take_append_of_le_length ho]
  · have h1 : (rstrip Cell.isDefault J).take o = rstrip Cell.isDefault J :=
      List.take_of_length_le (by omega)
    have h2 : J.take o = rstrip Cell.isDefault J ++ d.take (o - (rstrip Cell.isDefault J).length) := by
      conv => lhs; rw [hd, List.take_append]
      rw [h1]
    rw [h1, h2, rstrip_append_of_all _ (fun x hx => hall x (List.mem_of_mem_take hx))]

/-- cutting a joined line short below the cursor keeps what is before the cursor, up to blanks -/
theorem before_of_prefix {J J' : List Cell} {o : Nat} (hpre : J' <+: J) (ho : o ≤ J'.length) :
    eqUpToBlanks ((stripDefault J').take o) ((stripDefault J).take o) = true := by
  obtain ⟨s, rfl⟩ := hpre
  simp only [eqUpToBlanks, beq_iff_eq]
  rw [stripDefault_take_strip, stripDefault_take_strip, List.take_append_of_le_length ho]

theorem getElem?_stripDefault (J : List Cell) (o : Nat) (ho : o < (stripDefault J).length) :
    (stripDefault J)[o]? = J[o]? := by
  obtain ⟨d, hd, -⟩ := rstrip_decomp Cell.isDefault J
  conv => rhs; rw [hd]
  rw [List.getElem?_append_left (by rw [stripDefault_eq] at ho; exact ho)]; rfl

theorem char_of_prefix {J J' : List Cell} {o : Nat} (hpre : J' <+: J) (ho : o < J'.length)
    (hin : o < (stripDefault J).length) :
    cellEq (stripDefault J')[o]? (stripDefault J)[o]? = true := by
  obtain ⟨s, rfl⟩ := hpre
  rw [getElem?_stripDefault _ _ hin, List.getElem?_append_left ho]
  by_cases h2 : o < (stripDefault J').length
  · rw [getElem?_stripDefault _ _ h2]
    cases hc : J'[o]? with
    | none => rfl
    | some c => simp [cellEq]
  · have hnone : (stripDefault J')[o]? = none := List.getElem?_eq_none (by omega)
    rw [hnone]
    obtain ⟨d, hd, hall⟩ := rstrip_decomp Cell.isDefault J'
    have hc : J'[o]? = d[o - (stripDefault J').length]? := by
      conv => lhs; rw [hd]
      rw [List.getElem?_append_right (by rw [stripDefault_eq] at h2; omega)]; rfl
    cases hv : J'[o]? with
    | none => rfl
    | some c =>
      rw [hv] at hc
      exact hall c (List.mem_of_getElem? hc.symm)

end Avt.Lemmas
