/-
  Avt.Lemmas.C11ParserNorm — soundness of `normP`: parsers that agree up to dead registers emit the
  same function for every further character and keep agreeing (over the tables regenerated from
  `Parser::feed`, `esc_dispatch`, `csi_dispatch`).
-/
import Avt.Lemmas.C11ParserDump
import Avt.Lemmas.C11Norm

namespace Avt
namespace Lemmas.C11
open Avt.Spec.C11

/-- a parser step seen up to dead registers -/
def nstep (r : Option (Parser × Option Function)) : Option (Parser × Option Function) :=
  r.map fun x => (normP x.1, x.2)

/-! ### which arm bodies can run in a state whose parameter registers are dead -/

/-- can a pattern of this arm match in state `s`? -/
def Arm.applicable (arm : Arm) (s : PState) : Bool :=
  arm.pats.any fun pt => match pt.st with | none => true | some s' => s' == s

theorem applicable_of_matches (arm : Arm) (s : PState) (c : Nat) (h : Parser.Arm.matches arm s c = true) :
    Arm.applicable arm s = true := by
  simp only [Parser.Arm.matches, List.any_eq_true] at h
  obtain ⟨pt, hpt, hm⟩ := h
  simp only [Arm.applicable, List.any_eq_true]
  refine ⟨pt, hpt, ?_⟩
  simp only [Parser.Pat.matches, Bool.and_eq_true] at hm
  exact hm.1.1

/-- the arm bodies that occur in the states with dead parameter registers, by what they do -/
inductive BodyKind where
  | keep            -- the parser is unchanged (print / execute / put / osc_put)
  | toDead (s : PState)   -- `self.state = s` for a state in which every register is dead
  | toDeadExec      -- `self.state = Ground; return self.execute(input)`
  | clearTo (s : PState)  -- `self.state = s; self.clear()`
  | collect
  | escDispatch
  | csiDispatch
  deriving DecidableEq, Repr

def allDead (s : PState) : Bool := !paramsLive s && !intermediateLive s
  && s != .Escape && s != .CsiEntry && s != .DcsEntry

def bodyKind (acts : List Act) : Option BodyKind :=
  match acts with
  | [.retPrint] | [.retExecute] | [.put] | [.oscPut] => some .keep
  | [.setState s] => if allDead s then some (.toDead s) else none
  | [.setState .Ground, .retExecute] => some .toDeadExec
  | [.setState s, .clear] => some (.clearTo s)
  | [.collect] => some .collect
  | [.setState .Ground, .retEscDispatch] => some .escDispatch
  | [.setState .Ground, .retCsiDispatch] => some .csiDispatch
  | _ => none

/-- the states of case (3): parameters dead, and not one of the always-clean entry states -/
def deadParams (s : PState) : Bool :=
  !paramsLive s && s != .Escape && s != .CsiEntry && s != .DcsEntry

/-- the check made on every arm: if it can match in state `s`, its body is one of the kinds above,
    and the dispatching / collecting bodies occur only where the intermediate register is live -/
def armOK (s : PState) (arm : Arm) : Bool :=
  !Arm.applicable arm s ||
    (match bodyKind arm.acts with
     | none => false
     | some .escDispatch => s == .EscapeIntermediate
     | some .csiDispatch => s == .CsiIntermediate
     | some .collect => intermediateLive s
     | some _ => true)

theorem arms_of_dead_states_bool :
    (PState.all.all fun s => !deadParams s || Gen.feedArms.all (armOK s)) = true := by decide

/-- every arm of `Parser::feed` that can match in such a state has one of the bodies above -/
theorem arms_of_dead_states (s : PState) (hs : s ∈ PState.all) (hd : deadParams s = true) (arm : Arm)
    (hm : arm ∈ Gen.feedArms) (ha : Arm.applicable arm s = true) :
    match bodyKind arm.acts with
    | none => False
    | some .escDispatch => s = .EscapeIntermediate
    | some .csiDispatch => s = .CsiIntermediate
    | some .collect => intermediateLive s = true
    | some _ => True := by
  have h := arms_of_dead_states_bool
  simp only [List.all_eq_true] at h
  have h1 := h s hs
  simp only [hd, Bool.not_true, Bool.false_or, List.all_eq_true] at h1
  have h2 := h1 arm hm
  simp only [armOK, ha, Bool.not_true, Bool.false_or] at h2
  split <;> simp_all

theorem mem_all (s : PState) : s ∈ PState.all := by cases s <;> decide

/-! ### `csi_dispatch` with an intermediate from `0x20..0x2f` never looks at the parameters -/

def CsiRhs.isConst : CsiRhs → Bool
  | .const _ => true
  | _ => false

theorem csiArms_intermediate_const_bool :
    (Gen.csiArms.all fun arm => match arm.interm with
      | some i => !(decide (32 ≤ i) && decide (i ≤ 47)) || CsiRhs.isConst arm.rhs
      | none => true) = true := by decide

theorem csiArms_intermediate_const (arm : CsiArm) (hm : arm ∈ Gen.csiArms) (i : Nat)
    (hi : arm.interm = some i) (h1 : 32 ≤ i) (h2 : i ≤ 47) : CsiRhs.isConst arm.rhs = true := by
  have h := csiArms_intermediate_const_bool
  simp only [List.all_eq_true] at h
  have := h arm hm
  simp only [hi, Bool.or_eq_true, Bool.not_eq_true', Bool.and_eq_false_iff, decide_eq_false_iff_not] at this
  rcases this with (h | h) | h
  · omega
  · omega
  · exact h

theorem csiDispatch_dead_params (a b : Parser) (c i : Nat) (ha : a.intermediate = some i)
    (hb : b.intermediate = some i) (h1 : 32 ≤ i) (h2 : i ≤ 47) :
    a.csiDispatch c = b.csiDispatch c := by
  unfold Parser.csiDispatch
  rw [ha, hb]
  cases hf : Gen.csiArms.find? (fun arm => Parser.CsiArm.matches arm (some i) c) with
  | none => rfl
  | some arm =>
    have hmem := List.mem_of_find?_eq_some hf
    have hm := List.find?_some hf
    simp only [Parser.CsiArm.matches, Bool.and_eq_true, beq_iff_eq] at hm
    have hc := csiArms_intermediate_const arm hmem i hm.1 h1 h2
    cases hr : arm.rhs <;> simp [hr, CsiRhs.isConst] at hc ⊢

/-! ### the step -/

theorem normP_dead (s : PState) (ps : List Param) (cp : Nat) (im : Option Nat) (h : allDead s = true) :
    normP { state := s, params := ps, curParam := cp, intermediate := im } = clean s := by
  simp only [allDead, Bool.and_eq_true, Bool.not_eq_true'] at h
  simp [normP, clean, h.1.1.1.1, h.1.1.1.2]

/-- hypotheses on a pair of parsers that agree up to dead registers -/
structure Agree (a b : Parser) : Prop where
  inva : PInv a = true
  invb : PInv b = true
  rega : PRegOK a = true
  regb : PRegOK b = true
  norm : normP a = normP b

theorem Agree.state {a b : Parser} (h : Agree a b) : a.state = b.state := by
  have := congrArg Parser.state h.norm
  exact this

theorem Agree.im {a b : Parser} (h : Agree a b) (hl : intermediateLive a.state = true) :
    a.intermediate = b.intermediate := by
  have := congrArg Parser.intermediate h.norm
  simp only [normP, hl, ← h.state, if_true] at this
  exact this

/-- live parameter registers: the two parsers are equal -/
theorem Agree.eq_of_paramsLive {a b : Parser} (h : Agree a b) (hl : paramsLive a.state = true) : a = b := by
  have hs := h.state
  have h1 := congrArg Parser.params h.norm
  have h2 := congrArg Parser.curParam h.norm
  have hil : intermediateLive a.state = true := by
    cases hst : a.state <;> simp [paramsLive, intermediateLive, hst] at hl ⊢
  have h3 := h.im hil
  simp only [normP, hl, ← hs, if_true] at h1 h2
  obtain ⟨sa, pa, ca, ia⟩ := a
  obtain ⟨sb, pb, cb, ib⟩ := b
  simp only at hs h1 h2 h3
  subst hs h1 h2 h3
  rfl

/-- entry states: both parsers are clean, hence equal -/
theorem Agree.eq_of_entry {a b : Parser} (h : Agree a b)
    (he : a.state = .Escape ∨ a.state = .CsiEntry ∨ a.state = .DcsEntry) : a = b := by
  have hs := h.state
  have key : ∀ p : Parser, PInv p = true → PRegOK p = true →
      (p.state = .Escape ∨ p.state = .CsiEntry ∨ p.state = .DcsEntry) → p = clean p.state := by
    intro p hinv hreg hst
    have hr : p.intermediate.isNone = true ∧ p.curParam = 0 ∧ p.params.all Param.isZero = true := by
      rcases hst with hst | hst | hst <;> simpa [PRegOK, hst, and_assoc] using hreg
    simp only [PInv, Bool.and_eq_true, beq_iff_eq, decide_eq_true_eq] at hinv
    have hparams := Lemmas.C19.eq_replicate_default p.params hinv.1.2 hr.2.2
    have hlen : p.params.length = 32 := hinv.1.1.1
    obtain ⟨st, ps, cp, im⟩ := p
    simp only at hr hparams hlen
    obtain ⟨h1, h2, _⟩ := hr
    cases im with
    | some x => simp at h1
    | none =>
      subst h2
      rw [hparams, hlen]
      rfl
  rw [key a h.inva h.rega he, key b h.invb h.regb (by rw [← hs]; exact he), hs]

theorem findArm_mem {arms : List Arm} {s : PState} {c : Nat} {arm : Arm}
    (h : Parser.findArm arms s c = some arm) : arm ∈ arms ∧ Parser.Arm.matches arm s c = true := by
  unfold Parser.findArm at h
  have h2 := List.find?_some (p := fun a => Parser.Arm.matches a s c) h
  exact ⟨List.mem_of_find?_eq_some h, h2⟩

/-- **`normP` is sound for one character**: two parsers that satisfy the register invariants and
    agree up to dead registers emit the same function (or panic together) and agree afterwards. -/
theorem nstep_eq {a b : Parser} (h : Agree a b) (c : Nat) : nstep (a.feed c) = nstep (b.feed c) := by
  by_cases hpl : paramsLive a.state = true
  · rw [h.eq_of_paramsLive hpl]
  by_cases he : a.state = .Escape ∨ a.state = .CsiEntry ∨ a.state = .DcsEntry
  · rw [h.eq_of_entry he]
  -- parameters dead
  have hs := h.state
  have hdead : deadParams a.state = true := by
    simp only [not_or] at he
    simp [deadParams, hpl, he.1, he.2.1, he.2.2]
  unfold Parser.feed
  rw [← hs]
  cases hf : Parser.findArm Gen.feedArms a.state (Parser.premap c) with
  | none => simp only [nstep, Option.map_some, h.norm]
  | some arm =>
    obtain ⟨hmem, hmatch⟩ := findArm_mem hf
    have hk := arms_of_dead_states a.state (mem_all _) hdead arm hmem (applicable_of_matches _ _ _ hmatch)
    simp only
    generalize hacts : arm.acts = acts at hk
    have hpl' : paramsLive a.state = false := by simpa using hpl
    -- normal forms when the state does not change
    have hkeep : ∀ (ia ib : Option Nat), (intermediateLive a.state = true → ia = ib) →
        normP { a with intermediate := ia } = normP { b with intermediate := ib } := by
      intro ia ib hi
      simp only [normP, ← hs, hpl', Bool.false_eq_true, if_false]
      by_cases hil : intermediateLive a.state = true
      · simp [hil, hi hil]
      · simp [hil]
    match acts, hk with
    | [.retPrint], _ => simp only [Parser.runActs, nstep, Option.map_some, h.norm]
    | [.retExecute], _ => simp only [Parser.runActs, nstep, Option.map_some, h.norm]
    | [.put], _ => simp only [Parser.runActs, nstep, Option.map_some, h.norm]
    | [.oscPut], _ => simp only [Parser.runActs, nstep, Option.map_some, h.norm]
    | [.setState s], hk =>
      have hd : allDead s = true := by
        simp only [bodyKind] at hk
        split at hk <;> simp_all
      simp only [Parser.runActs, nstep, Option.map_some, normP_dead _ _ _ _ hd]
    | [.setState .Ground, .retExecute], _ =>
      simp only [Parser.runActs, nstep, Option.map_some, normP_dead _ _ _ _ (by decide : allDead .Ground = true)]
    | [.setState s, .clear], _ =>
      have ca : ({ a with state := s } : Parser).clear = some (clean s) := by
        rw [Lemmas.C19.Parser.clear_of_PInv _ (by simpa [PInv] using h.inva)]; rfl
      have cb : ({ b with state := s } : Parser).clear = some (clean s) := by
        rw [Lemmas.C19.Parser.clear_of_PInv _ (by simpa [PInv] using h.invb)]; rfl
      simp only [Parser.runActs, ca, cb]
    | [.collect], _ =>
      simp only [Parser.runActs, Parser.collect, nstep, Option.map_some]
      rw [hkeep (some c) (some c) (fun _ => rfl)]
    | [.setState .Ground, .retEscDispatch], hk =>
      have hst : a.state = .EscapeIntermediate := by simpa [bodyKind] using hk
      have him := h.im (by rw [hst]; rfl)
      simp only [Parser.runActs, Parser.escDispatch, him]
      cases Gen.escArms.find? (fun x => Parser.EscArm.matches x b.intermediate c) with
      | none => simp only [nstep, Option.map_some, normP_dead _ _ _ _ (by decide : allDead .Ground = true)]
      | some ea =>
        obtain ⟨_, _, _, rhs⟩ := ea
        cases rhs with
        | execPlus k =>
          simp only
          split
          · simp only [nstep, Option.map_some, normP_dead _ _ _ _ (by decide : allDead .Ground = true)]
          · rfl
        | fn f => simp only [nstep, Option.map_some, normP_dead _ _ _ _ (by decide : allDead .Ground = true)]
        | fnGround f => simp only [nstep, Option.map_some, normP_dead _ _ _ _ (by decide : allDead .Ground = true)]
    | [.setState .Ground, .retCsiDispatch], hk =>
      have hst : a.state = .CsiIntermediate := by simpa [bodyKind] using hk
      have him := h.im (by rw [hst]; rfl)
      obtain ⟨i, hi, h1, h2⟩ := imIn_elim (by simpa [PRegOK, hst] using h.rega : imIn 0x20 0x2f a.intermediate = true)
      have hd := csiDispatch_dead_params { a with state := .Ground } { b with state := .Ground } c i hi
        (by rw [← him]; exact hi) h1 h2
      simp only [Parser.runActs, hd]
      cases Parser.csiDispatch { b with state := .Ground } c with
      | none => rfl
      | some f => simp only [nstep, Option.map_some, normP_dead _ _ _ _ (by decide : allDead .Ground = true)]

/-- **`normD` is sound for one character**, for every character whose emitted function (if any)
    touches no buffer: states whose parsers satisfy the register invariants and which agree up to
    `normD` stay so, and panic together. -/
theorem norm_sound_feed (a b : Vt) (hp : Agree a.parser b.parser) (ht : normT a.terminal = normT b.terminal)
    (c : Nat) (hsimple : ∀ p' f, a.parser.feed c = some (p', some f) → simpleFn f = true) :
    (a.feed c).map normD = (b.feed c).map normD := by
  have hstep := nstep_eq hp c
  unfold Vt.feed
  cases hfa : a.parser.feed c with
  | none =>
    cases hfb : b.parser.feed c with
    | none => rfl
    | some rb => simp [nstep, hfa, hfb] at hstep
  | some ra =>
    cases hfb : b.parser.feed c with
    | none => simp [nstep, hfa, hfb] at hstep
    | some rb =>
      obtain ⟨pa, fa⟩ := ra
      obtain ⟨pb, fb⟩ := rb
      simp only [nstep, hfa, hfb, Option.map_some, Option.some.injEq, Prod.mk.injEq] at hstep
      obtain ⟨hpn, hf⟩ := hstep
      subst hf
      cases fa with
      | none => simp only [Option.map_some, normD, hpn, ht]
      | some f =>
        have hs := norm_sound_execute f (hsimple pa f hfa) a.terminal b.terminal ht
        simp only
        cases hea : a.terminal.execute f with
        | none =>
          cases heb : b.terminal.execute f with
          | none => rfl
          | some tb => simp [hea, heb] at hs
        | some ta =>
          cases heb : b.terminal.execute f with
          | none => simp [hea, heb] at hs
          | some tb =>
            simp only [hea, heb, Option.map_some, Option.some.injEq] at hs
            simp only [Option.map_some, normD, hpn, hs]

end Lemmas.C11
end Avt
