/-
  Avt.Lemmas.C09Vt — the parser side of C09: from the ground state a printable character is
  dispatched as `Print`, CR and LF as `Cr` and `Lf`, and the parser stays in the ground state; hence
  `Vt.feedStr` of printable lines joined by CR LF executes exactly `textFuns`.
-/
import Avt.Lemmas.C09Run

namespace Avt.Lemmas
open Avt Avt.Spec.C09

/-- the first arm of the (regenerated) table of `Parser::feed`: printable ASCII in the ground state
    is printed.  If the source changes this arm, this lemma — and with it the C09 theorems — no longer
    checks. -/
theorem feedArms_head : ∃ rest, Gen.feedArms = ⟨[⟨some PState.Ground, 32, 127⟩], [Act.retPrint]⟩ :: rest :=
  ⟨_, rfl⟩

theorem feed_printable (p : Parser) (hp : p.state = .Ground) {ch : Nat} (h : isPrintable ch = true) :
    p.feed ch = some (p, some (.print ch)) := by
  obtain ⟨rest, hrest⟩ := feedArms_head
  simp only [isPrintable, Bool.and_eq_true, decide_eq_true_eq, Bool.not_eq_true', Bool.and_eq_false_iff,
    decide_eq_false_iff_not] at h
  obtain ⟨⟨h1, h2⟩, -⟩ := h
  have hm : Parser.Arm.matches ⟨[⟨some PState.Ground, 32, 127⟩], [Act.retPrint]⟩ PState.Ground
      (Parser.premap ch) = true := by
    simp only [Parser.Arm.matches, Parser.Pat.matches, List.any_cons, List.any_nil, Bool.or_false,
      beq_self_eq_true, Bool.true_and, Bool.and_eq_true, Parser.premap]
    have e1 : Gen.premapFrom = 160 := rfl
    have e2 : Gen.premapTo = 65 := rfl
    split
    · rw [e2]; simp
    · rename_i hc; rw [e1] at hc; simp only [decide_eq_true_eq]; omega
  unfold Parser.feed Parser.findArm
  rw [hrest, hp, List.find?_cons, hm]
  rfl

theorem feed_cr (p : Parser) (hp : p.state = .Ground) : p.feed 0x0d = some (p, some .cr) := by
  unfold Parser.feed
  rw [hp]
  have : Parser.findArm Gen.feedArms PState.Ground (Parser.premap 0x0d)
      = some ⟨[⟨some PState.Ground, 0, 23⟩, ⟨some PState.Ground, 25, 25⟩, ⟨some PState.Ground, 28, 31⟩],
          [Act.retExecute]⟩ := by decide
  rw [this]
  rfl

theorem feed_lf (p : Parser) (hp : p.state = .Ground) : p.feed 0x0a = some (p, some .lf) := by
  unfold Parser.feed
  rw [hp]
  have : Parser.findArm Gen.feedArms PState.Ground (Parser.premap 0x0a)
      = some ⟨[⟨some PState.Ground, 0, 23⟩, ⟨some PState.Ground, 25, 25⟩, ⟨some PState.Ground, 28, 31⟩],
          [Act.retExecute]⟩ := by decide
  rw [this]
  rfl

/-- character by character, from the ground state, the parser dispatches these functions and stays
    in the ground state with its registers untouched -/
inductive Dispatch : List Nat → List Function → Prop
  | nil : Dispatch [] []
  | cons {c : Nat} {f : Function} {cs : List Nat} {fs : List Function}
      (h : ∀ q : Parser, q.state = .Ground → q.feed c = some (q, some f)) (t : Dispatch cs fs) :
      Dispatch (c :: cs) (f :: fs)

/-- feeding characters whose dispatch is known: the parser is unchanged, the terminal executes the
    functions in order -/
theorem feedAll_funs (p : Parser) (hp : p.state = .Ground) :
    ∀ (cs : List Nat) (fs : List Function) (t : Terminal),
      Dispatch cs fs →
      Vt.feedAll ⟨p, t⟩ cs = (execAll t fs).map fun t' => ⟨p, t'⟩
  | [], [], t, _ => rfl
  | c :: cs, f :: fs, t, h => by
    cases h with
    | cons h1 h2 =>
      simp only [Vt.feedAll, Vt.feed, h1 p hp, execAll_cons]
      cases he : t.execute f with
      | none => rfl
      | some t' =>
        simp only [Option.map_some, Option.bind_some]
        exact feedAll_funs p hp cs fs t' h2
  | [], _ :: _, _, h => by cases h
  | _ :: _, [], _, h => by cases h

theorem forall₂_append {a1 a2 : List Nat} {b1 b2 : List Function}
    (h1 : Dispatch a1 b1) (h2 : Dispatch a2 b2) : Dispatch (a1 ++ a2) (b1 ++ b2) := by
  induction h1 with
  | nil => exact h2
  | cons h _ ih => exact Dispatch.cons h ih

theorem line_dispatch (l : List Nat) (hl : l.all isPrintable = true) :
    Dispatch l (lineFuns l) := by
  induction l with
  | nil => exact Dispatch.nil
  | cons c cs ih =>
    simp only [List.all_cons, Bool.and_eq_true] at hl
    exact Dispatch.cons (fun q hq => feed_printable q hq hl.1) (ih hl.2)

theorem text_dispatch : ∀ (ls : List (List Nat)), allPrintable ls = true →
    Dispatch
      (inputOf ls) (textFuns ls)
  | [], _ => Dispatch.nil
  | [l], h => by
    simp only [allPrintable, List.all_cons, List.all_nil, Bool.and_true] at h
    exact line_dispatch l h
  | l :: l2 :: rest, h => by
    simp only [allPrintable, List.all_cons, Bool.and_eq_true] at h
    have ih := text_dispatch (l2 :: rest) (by simp [allPrintable, h.2.1, h.2.2])
    show Dispatch (l ++ [0x0d, 0x0a] ++ inputOf (l2 :: rest))
      (lineFuns l ++ [Function.cr, Function.lf] ++ textFuns (l2 :: rest))
    refine forall₂_append (forall₂_append (line_dispatch l h.1) ?_) ih
    exact Dispatch.cons (fun q hq => feed_cr q hq)
      (Dispatch.cons (fun q hq => feed_lf q hq) Dispatch.nil)

end Avt.Lemmas

namespace Avt.Lemmas
open Avt Avt.Spec.C09

theorem gc_lines_none {b : Buffer} (h : b.limit = none) : b.gc.1.lines = b.lines := by
  unfold Buffer.gc
  split
  · simp [h, Buffer.lines]
  · rfl

/-- `changes()` + `gc()` keep the rows of an unlimited primary buffer, hence `text()` and `lines()` -/
theorem finish_lines (p : Parser) (t : Terminal) (h : t.buffer.limit = none) :
    (Vt.finish ⟨p, t⟩).1.terminal.buffer.lines = t.buffer.lines
      ∧ (Vt.finish ⟨p, t⟩).1.terminal.activeBufferType = t.activeBufferType := by
  simp only [Vt.finish, Terminal.changes, Terminal.gc]
  exact ⟨gc_lines_none h, trivial⟩

theorem expectedText_fresh : expectedText [[]] = expectedText [] := by decide

/-- what `typeText` makes of a fresh terminal's text, as far as `expectedText` can tell -/
theorem expectedText_typeText (ls : List (List Nat)) : expectedText (typeText [[]] ls) = expectedText ls := by
  by_cases h : ls = []
  · subst h; exact expectedText_fresh
  · rw [typeText_fresh ls h]

/-- **C09 on the model**: a fresh terminal of any size with unlimited scrollback, fed printable lines
    joined by CR LF, accepts the input and ends in the typewriter state for exactly those lines -/
theorem feedStr_TW {c r : Nat} (hc : 1 ≤ c) (hr : 1 ≤ r) (ls : List (List Nat))
    (hp : allPrintable ls = true) :
    ∃ (v : Vt) (ch : Changes) (t1 : Terminal),
      (Vt.new c r none).bind (fun v0 => v0.feedStr (inputOf ls)) = some (v, ch)
      ∧ TWMode t1 ∧ TW t1 (typeText [[]] ls)
      ∧ v.terminal.buffer.lines = t1.buffer.lines
      ∧ v.terminal.activeBufferType = t1.activeBufferType := by
  have hcs : csub r 1 = some (r - 1) := by unfold csub; simp; omega
  obtain ⟨t0, ht0⟩ : ∃ t0, Terminal.new c r none = some t0 := by
    unfold Terminal.new; rw [hcs]; exact ⟨_, rfl⟩
  obtain ⟨hm0, hg0, hw0⟩ := TW_init hc hr ht0
  obtain ⟨t1, h1, hm1, hg1, hw1⟩ := TW_text_run hm0 hg0 hw0 ls
  have hfeed := feedAll_funs Parser.new rfl (inputOf ls) (textFuns ls) t0 (text_dispatch ls hp)
  rw [h1] at hfeed
  obtain ⟨hl, ha⟩ := finish_lines Parser.new t1 hm1.unlimited
  refine ⟨(Vt.finish ⟨Parser.new, t1⟩).1, (Vt.finish ⟨Parser.new, t1⟩).2, t1, ?_, hm1, hw1, hl, ha⟩
  simp only [Vt.new, ht0, Option.map_some, Option.bind_some, Vt.feedStr, hfeed]

end Avt.Lemmas
