/-
  Avt.Lemmas.C11Steps2 — tab stops (dump step 2), the wrap-pending re-print (step 9), and the
  preservation of `TInv` along `Feeds`.
-/
import Avt.Lemmas.C11Steps1

namespace Avt
namespace Lemmas.C11
open Avt.Spec.C11 Avt.Spec.C04 Avt.C04L Avt.Terminal

/-! ### `TInv` along `Feeds` -/

theorem Feeds.TInv {s : List Nat} {t t' : Terminal} (h : Feeds s t t') (ht : TInv t = true) : TInv t' = true := by
  obtain ⟨q', hq, _⟩ := h Parser.new GP_new
  have hi : Inv ⟨Parser.new, t⟩ = true := by simp [Inv, ht, GP_new.2]
  obtain ⟨v', hv, hinv⟩ := Props.Closed.C02_feedAll s hi
  rw [hq] at hv
  cases hv
  simp only [Inv, Bool.and_eq_true] at hinv
  exact hinv.2

/-! ### tab stops -/

/-- the text `dump()` writes per tab stop: `CSI t+1 \`` then `ESC [ W` -/
def tabFrag (tb : Nat) : List Nat := csi :: renderDec (tb + 1) ++ [0x60, 0x1b, 0x5b, 0x57]

/-- one stop: move there, set it -/
theorem feeds_tab (t : Terminal) (tb : Nat) (h1 : 0 < tb) (h2 : tb < t.cols) (h3 : t.cols ≤ 65535) :
    Feeds (tabFrag tb) t
      { t with tabs := Tabs.set t.tabs tb, cursor := { t.cursor with col := tb }, pendingWrap := false } := by
  have f1 : Feeds (csi :: renderDec (tb + 1) ++ [0x60]) t
      { t with cursor := { t.cursor with col := tb }, pendingWrap := false } :=
    Feeds.one (emits_hpa (tb + 1) (by omega)) (by
      have e1 : asUsize (tb + 1) 1 - 1 = tb := by simp [asUsize]
      have : ¬ tb ≥ t.cols := by omega
      simp [Terminal.execute, e1, moveCursorToCol, this, doMoveCursorToCol])
  have f2 : Feeds [0x1b, 0x5b, 0x57] { t with cursor := { t.cursor with col := tb }, pendingWrap := false }
      { t with tabs := Tabs.set t.tabs tb, cursor := { t.cursor with col := tb }, pendingWrap := false } :=
    Feeds.one emits_setTab (by
      simp [Terminal.execute, ctc, setTab, h1, h2])
  exact Feeds.cast (Feeds.append f1 f2) (by simp [tabFrag])

/-- the effect of the whole tab-stop loop -/
def tabsRes : List Nat → Terminal → Terminal
  | [], t => t
  | tb :: L, t =>
    tabsRes L { t with tabs := Tabs.set t.tabs tb, cursor := { t.cursor with col := tb }, pendingWrap := false }

theorem feeds_tabsLoop : ∀ (L : List Nat) (t : Terminal), (∀ tb ∈ L, 0 < tb ∧ tb < t.cols) → t.cols ≤ 65535 →
    Feeds (L.map tabFrag).flatten t (tabsRes L t)
  | [], t, _, _ => Feeds.nil t
  | tb :: L, t, h, hc => by
    obtain ⟨h1, h2⟩ := h tb (List.mem_cons_self ..)
    have f1 := feeds_tab t tb h1 h2 hc
    have f2 := feeds_tabsLoop L
      { t with tabs := Tabs.set t.tabs tb, cursor := { t.cursor with col := tb }, pendingWrap := false }
      (fun x hx => h x (List.mem_cons_of_mem _ hx)) hc
    simp only [List.map_cons, List.flatten_cons]
    exact Feeds.append f1 f2

theorem tabsRes_eq : ∀ (L : List Nat) (t : Terminal), ∃ c pw,
    tabsRes L t = { t with tabs := L.foldl Tabs.set t.tabs, cursor := { t.cursor with col := c }, pendingWrap := pw }
  | [], t => ⟨t.cursor.col, t.pendingWrap, rfl⟩
  | tb :: L, t => by
    obtain ⟨c, pw, e⟩ := tabsRes_eq L
      { t with tabs := Tabs.set t.tabs tb, cursor := { t.cursor with col := tb }, pendingWrap := false }
    exact ⟨c, pw, e⟩

theorem Tabs.set_append (xs : List Nat) (p : Nat) (h : ∀ x ∈ xs, x < p) : Tabs.set xs p = xs ++ [p] := by
  induction xs with
  | nil => rfl
  | cons x xs ih =>
    have hx : x < p := h x (List.mem_cons_self ..)
    simp only [Tabs.set, show ¬ p < x by omega, show ¬ p = x by omega, if_false, List.cons_append]
    rw [ih (fun y hy => h y (List.mem_cons_of_mem _ hy))]

theorem strictlyIncreasing_cons_lt : ∀ (L : List Nat) (a : Nat), strictlyIncreasing (a :: L) = true →
    (∀ x ∈ L, a < x) ∧ strictlyIncreasing L = true
  | [], _, _ => ⟨fun x hx => (by cases hx), rfl⟩
  | b :: L, a, h => by
    simp only [strictlyIncreasing, Bool.and_eq_true, decide_eq_true_eq] at h
    obtain ⟨h1, h2⟩ := strictlyIncreasing_cons_lt L b h.2
    refine ⟨?_, h.2⟩
    intro x hx
    rcases List.mem_cons.1 hx with rfl | hx
    · exact h.1
    · have := h1 x hx; omega

theorem foldl_set_sorted : ∀ (L xs : List Nat), strictlyIncreasing L = true → (∀ x ∈ xs, ∀ y ∈ L, x < y) →
    L.foldl Tabs.set xs = xs ++ L
  | [], xs, _, _ => by simp
  | a :: L, xs, h, hlt => by
    obtain ⟨h1, h2⟩ := strictlyIncreasing_cons_lt L a h
    simp only [List.foldl_cons]
    rw [Tabs.set_append xs a (fun x hx => hlt x hx a (List.mem_cons_self ..)),
      foldl_set_sorted L (xs ++ [a]) h2 (by
        intro x hx y hy
        rcases List.mem_append.1 hx with hx | hx
        · exact hlt x hx y (List.mem_cons_of_mem _ hy)
        · simp only [List.mem_singleton] at hx; subst hx; exact h1 y hy)]
    simp

/-- **dump step 2**: `CSI 5 W` and one `CSI t+1 \` ESC [ W` per stop re-create exactly the tab stops
    `L` (sorted, inside `(0, cols)`); only the cursor column and the pending wrap are disturbed -/
theorem feeds_tabs (t : Terminal) (L : List Nat) (hL : tabsOK L t.cols = true) (hc : t.cols ≤ 65535) :
    ∃ c pw, Feeds ([csi, 0x35, 0x57] ++ (L.map fun tb => csi :: renderDec (tb + 1) ++ [0x60, 0x1b, 0x5b, 0x57]).flatten) t
      { t with tabs := L, cursor := { t.cursor with col := c }, pendingWrap := pw } := by
  simp only [tabsOK, Bool.and_eq_true, List.all_eq_true, decide_eq_true_eq] at hL
  have f1 : Feeds [csi, 0x35, 0x57] t { t with tabs := [] } := Feeds.one emits_clearAllTabs rfl
  have f2 := feeds_tabsLoop L { t with tabs := [] } (fun tb h => hL.2 tb h) hc
  obtain ⟨c, pw, e⟩ := tabsRes_eq L { t with tabs := [] }
  rw [e] at f2
  have e2 : L.foldl Tabs.set [] = L := by
    have := foldl_set_sorted L [] hL.1 (fun x hx => by cases hx)
    simpa using this
  simp only [e2] at f2
  exact ⟨c, pw, Feeds.append f1 f2⟩

/-! ### the wrap-pending re-print -/

theorem set_self {α} (l : List α) (i : Nat) (x : α) (h : l[i]? = some x) : l.set i x = l := by
  apply List.ext_getElem?
  intro j
  rw [List.getElem?_set]
  split
  · rename_i hij
    subst hij
    split
    · exact h.symm
    · rename_i hlt
      rw [List.getElem?_eq_none (by omega)] at h
      cases h
  · rfl

theorem onRow_id (v : List Line) (r : Nat) (f : Line → Line) (h : ∀ l, v[r]? = some l → f l = l) : onRow v r f = v := by
  unfold onRow
  cases hv : v[r]? with
  | none => rfl
  | some l =>
    simp only
    rw [h l hv]
    exact set_self v r l hv

/-- **dump step 9, second half**: with the cursor in the last column (no wrap pending), auto-wrap on,
    replace mode and ASCII active: the pen of the last cell, then its character — the cell is rewritten
    with itself and the cursor is parked in the wrap-pending position -/
theorem feeds_pendingPrint (t : Terminal) (line : Line) (cell : Cell) (ht : TInv t = true)
    (hcol : t.cursor.col + 1 = t.cols) (haw : t.autoWrapMode = true)
    (hcs : t.activeCharset = 0 ∧ t.charsets.1 = .ascii)
    (hl : t.buffer.view[t.cursor.row]? = some line) (hcell : line.cells[t.cols - 1]? = some cell)
    (hok : CellOK cell) :
    ∃ pd, cell.pen.dump = some pd ∧
      Feeds (pd ++ [cell.ch]) t
        { t with pen := cell.pen, cursor := { t.cursor with col := t.cols }, pendingWrap := true,
                 dirtyLines := t.dirtyLines.set t.cursor.row true } := by
  obtain ⟨pd, hpd, f1⟩ := feeds_pen cell.pen hok.2 t
  refine ⟨pd, hpd, Feeds.append f1 ?_⟩
  let u : Terminal := { t with pen := cell.pen }
  have hu : TInv u = true := TInv_withPen ht _
  have f2 := feeds_print hok.1 u hu
  have p := Pre_of_TInv t ht
  have hpw : t.pendingWrap = false := by
    rcases p.col with ⟨_, h2⟩ | ⟨h1, _⟩
    · omega
    · exact h1
  have hnw : (u.autoWrapMode && u.pendingWrap) = false := by
    show (t.autoWrapMode && t.pendingWrap) = false
    rw [hpw]; simp
  have hg : glyph u cell.ch = cell.ch := by
    show translateRef (activeSet u) cell.ch = cell.ch
    have : activeSet u = .ascii := by
      show (if t.activeCharset = 0 then t.charsets.1 else t.charsets.2) = .ascii
      rw [if_pos hcs.1, hcs.2]
    rw [this]; rfl
  have e : printSpec u cell.ch = { t with pen := cell.pen, cursor := { t.cursor with col := t.cols }, pendingWrap := true, dirtyLines := t.dirtyLines.set t.cursor.row true } := by
    rw [printSpec_nowrap u _ hnw, hg]
    unfold putStep
    have hge : u.cursor.col + 1 ≥ u.cols := by show t.cursor.col + 1 ≥ t.cols; omega
    have hau : u.autoWrapMode = true := haw
    simp only [hge, if_true]
    rw [if_pos hau]
    have hb : bufOnRow u.buffer u.cursor.row (putCell (u.cols - 1) ⟨cell.ch, u.pen⟩) = t.buffer := by
      show ({ t.buffer with view := onRow t.buffer.view t.cursor.row (putCell (t.cols - 1) ⟨cell.ch, cell.pen⟩) } : Buffer) = t.buffer
      rw [onRow_id]
      intro l hl'
      rw [hl] at hl'
      cases hl'
      show ({ line with cells := line.cells.set (t.cols - 1) ⟨cell.ch, cell.pen⟩ } : Line) = line
      have : (⟨cell.ch, cell.pen⟩ : Cell) = cell := rfl
      rw [this, set_self _ _ _ hcell]
    rw [hb]
  rw [e] at f2
  exact f2

end Lemmas.C11
end Avt
