/-
  Avt.Lemmas.C11Steps1 — the fragments of `Terminal.dump` other than the buffer part, one lemma each:
  what the parser makes of the fragment (`Emits`) and what executing it does to an arbitrary terminal
  (`Feeds frag t t'` with `t'` an explicit record update of `t`).
-/
import Avt.Lemmas.C11Buffer3

namespace Avt
namespace Lemmas.C11
open Avt.Spec.C11 Avt.Spec.C04 Avt.C04L Avt.Terminal

/-! ### closed strings: what the parser emits -/

theorem emits_sgr0 : Emits [0x1b, 0x5b, 0x6d] [.sgr [.reset]] :=
  emits_fixed _ _ _ (Or.inl rfl) (by decide)

theorem emits_originOn : Emits [csi, 0x3f, 0x36, 0x68] [.decset [.origin]] :=
  emits_fixed _ _ _ (Or.inr (Or.inl rfl)) (by decide)

theorem emits_originOff : Emits [csi, 0x3f, 0x36, 0x6c] [.decrst [.origin]] :=
  emits_fixed _ _ _ (Or.inr (Or.inl rfl)) (by decide)

theorem emits_autoWrapOff : Emits [csi, 0x3f, 0x37, 0x6c] [.decrst [.autoWrap]] :=
  emits_fixed _ _ _ (Or.inr (Or.inl rfl)) (by decide)

theorem emits_autoWrapOn : Emits [csi, 0x3f, 0x37, 0x68] [.decset [.autoWrap]] :=
  emits_fixed _ _ _ (Or.inr (Or.inl rfl)) (by decide)

theorem emits_1047h : Emits [csi, 0x3f, 0x31, 0x30, 0x34, 0x37, 0x68] [.decset [.altScreenBuffer]] :=
  emits_fixed _ _ _ (Or.inr (Or.inl rfl)) (by decide)

theorem emits_1047l : Emits [csi, 0x3f, 0x31, 0x30, 0x34, 0x37, 0x6c] [.decrst [.altScreenBuffer]] :=
  emits_fixed _ _ _ (Or.inr (Or.inl rfl)) (by decide)

theorem emits_hideCursor : Emits [csi, 0x3f, 0x32, 0x35, 0x6c] [.decrst [.textCursorEnable]] :=
  emits_fixed _ _ _ (Or.inr (Or.inl rfl)) (by decide)

theorem emits_cursorKeys : Emits [csi, 0x3f, 0x31, 0x68] [.decset [.cursorKeys]] :=
  emits_fixed _ _ _ (Or.inr (Or.inl rfl)) (by decide)

theorem emits_insertOn : Emits [csi, 0x34, 0x68] [.sm [.insert]] :=
  emits_fixed _ _ _ (Or.inr (Or.inl rfl)) (by decide)

theorem emits_newLineOn : Emits [csi, 0x32, 0x30, 0x68] [.sm [.newLine]] :=
  emits_fixed _ _ _ (Or.inr (Or.inl rfl)) (by decide)

theorem emits_g0Drawing : Emits [0x1b, 0x28, 0x30] [.gzd4 .drawing] :=
  emits_fixed _ _ _ (Or.inl rfl) (by decide)

theorem emits_g1Drawing : Emits [0x1b, 0x29, 0x30] [.g1d4 .drawing] :=
  emits_fixed _ _ _ (Or.inl rfl) (by decide)

theorem emits_decsc : Emits [0x1b, 0x37] [.decsc] :=
  emits_fixed _ _ _ (Or.inl rfl) (by decide)

theorem emits_clearAllTabs : Emits [csi, 0x35, 0x57] [.ctc .clearAll] :=
  emits_fixed _ _ _ (Or.inr (Or.inl rfl)) (by decide)

theorem emits_setTab : Emits [0x1b, 0x5b, 0x57] [.ctc .set] :=
  emits_fixed _ _ _ (Or.inl rfl) (by decide)

theorem emits_scorc : Emits [csi, 0x75] [.scorc] :=
  emits_fixed _ _ _ (Or.inr (Or.inl rfl)) (by decide)

theorem emits_home : Emits [csi, 0x31, 0x3b, 0x31, 0x48] [.cup 1 1] :=
  emits_fixed _ _ _ (Or.inr (Or.inl rfl)) (by decide)

/-! ### numeric sequences -/

theorem emits_cup (a b : Nat) (ha : a < 65536) (hb : b < 65536) : Emits (cupSeq a b) [.cup a b] := by
  have := emits_csi2 a b ha hb 0x48 Function.cup rfl (by decide) (by decide)
  simpa [cupSeq, csi] using this

theorem emits_decstbm (a b : Nat) (ha : a < 65536) (hb : b < 65536) :
    Emits (csi :: renderDec a ++ [0x3b] ++ renderDec b ++ [0x72]) [.decstbm a b] := by
  have := emits_csi2 a b ha hb 0x72 Function.decstbm rfl (by decide) (by decide)
  simpa [csi] using this

theorem emits_hpa (n : Nat) (hn : n < 65536) : Emits (csi :: renderDec n ++ [0x60]) [.cha n] :=
  emits_csi1 n hn 0x60 Function.cha rfl (by decide) (by decide)

theorem emits_cub (n : Nat) (hn : n < 65536) : Emits (csi :: renderDec n ++ [0x44]) [.cub n] :=
  emits_csi1 n hn 0x44 Function.cub rfl (by decide) (by decide)

theorem emits_cuf (n : Nat) (hn : n < 65536) : Emits (csi :: renderDec n ++ [0x43]) [.cuf n] :=
  emits_csi1 n hn 0x43 Function.cuf rfl (by decide) (by decide)

theorem emits_cuu (n : Nat) (hn : n < 65536) : Emits (csi :: renderDec n ++ [0x41]) [.cuu n] :=
  emits_csi1 n hn 0x41 Function.cuu rfl (by decide) (by decide)

theorem emits_cud (n : Nat) (hn : n < 65536) : Emits (csi :: renderDec n ++ [0x42]) [.cud n] :=
  emits_csi1 n hn 0x42 Function.cud rfl (by decide) (by decide)

/-! ### executing them -/

theorem csub1 {n : Nat} (h : 1 ≤ n) : csub n 1 = some (n - 1) := csub_eq n 1 h

/-- `ESC [ m`: default pen -/
theorem feeds_sgr0 (t : Terminal) : Feeds [0x1b, 0x5b, 0x6d] t { t with pen := {} } :=
  Feeds.one emits_sgr0 rfl

/-- `CSI ?6h`: origin mode on, cursor to the top-left of the region -/
theorem feeds_originOn (t : Terminal) (hc : 1 ≤ t.cols) :
    Feeds [csi, 0x3f, 0x36, 0x68] t
      { t with originMode := true, cursor := { t.cursor with col := 0, row := t.topMargin }, pendingWrap := false } :=
  Feeds.one emits_originOn (by
    simp [Terminal.execute, foldM', decsetOne, moveCursorHome, doMoveCursorToCol, doMoveCursorToRow, csub1 hc,
      actualTopMargin])

/-- `CSI ?6l`: origin mode off, cursor home -/
theorem feeds_originOff (t : Terminal) (hc : 1 ≤ t.cols) :
    Feeds [csi, 0x3f, 0x36, 0x6c] t
      { t with originMode := false, cursor := { t.cursor with col := 0, row := 0 }, pendingWrap := false } :=
  Feeds.one emits_originOff (by
    simp [Terminal.execute, foldM', decrstOne, moveCursorHome, doMoveCursorToCol, doMoveCursorToRow, csub1 hc,
      actualTopMargin])

theorem feeds_autoWrapOff (t : Terminal) : Feeds [csi, 0x3f, 0x37, 0x6c] t { t with autoWrapMode := false } :=
  Feeds.one emits_autoWrapOff rfl

theorem feeds_autoWrapOn (t : Terminal) : Feeds [csi, 0x3f, 0x37, 0x68] t { t with autoWrapMode := true } :=
  Feeds.one emits_autoWrapOn rfl

theorem feeds_hideCursor (t : Terminal) :
    Feeds [csi, 0x3f, 0x32, 0x35, 0x6c] t { t with cursor := { t.cursor with visible := false } } :=
  Feeds.one emits_hideCursor rfl

theorem feeds_cursorKeys (t : Terminal) : Feeds [csi, 0x3f, 0x31, 0x68] t { t with cursorKeysMode := .application } :=
  Feeds.one emits_cursorKeys rfl

theorem feeds_insertOn (t : Terminal) : Feeds [csi, 0x34, 0x68] t { t with insertMode := true } :=
  Feeds.one emits_insertOn rfl

theorem feeds_newLineOn (t : Terminal) : Feeds [csi, 0x32, 0x30, 0x68] t { t with newLineMode := true } :=
  Feeds.one emits_newLineOn rfl

theorem feeds_g0Drawing (t : Terminal) : Feeds [0x1b, 0x28, 0x30] t { t with charsets := (.drawing, t.charsets.2) } :=
  Feeds.one emits_g0Drawing rfl

theorem feeds_g1Drawing (t : Terminal) : Feeds [0x1b, 0x29, 0x30] t { t with charsets := (t.charsets.1, .drawing) } :=
  Feeds.one emits_g1Drawing rfl

theorem feeds_so (t : Terminal) : Feeds [0x0e] t { t with activeCharset := 1 } :=
  Feeds.one emits_so rfl

/-- `ESC 7`: save the cursor context -/
theorem feeds_decsc (t : Terminal) (hc : 1 ≤ t.cols) :
    Feeds [0x1b, 0x37] t
      { t with savedCtx := { cursorCol := min t.cursor.col (t.cols - 1), cursorRow := t.cursor.row, pen := t.pen,
                             originMode := t.originMode, autoWrapMode := t.autoWrapMode } } :=
  Feeds.one emits_decsc (by simp [Terminal.execute, saveCursor, csub1 hc])

/-- `CSI top+1 ; bottom+1 r` with a valid region: the margins are set, the cursor goes home -/
theorem feeds_decstbm (t : Terminal) (top bottom : Nat) (hc : 1 ≤ t.cols) (h1 : top < bottom)
    (h2 : bottom < t.rows) (h3 : t.rows ≤ 65535) :
    Feeds (csi :: renderDec (top + 1) ++ [0x3b] ++ renderDec (bottom + 1) ++ [0x72]) t
      { t with topMargin := top, bottomMargin := bottom,
               cursor := { t.cursor with col := 0, row := if t.originMode then top else 0 },
               pendingWrap := false } :=
  Feeds.one (emits_decstbm (top + 1) (bottom + 1) (by omega) (by omega)) (by
    have e1 : asUsize (top + 1) 1 - 1 = top := by simp [asUsize]
    have e2 : csub (asUsize (bottom + 1) t.rows) 1 = some bottom := by simp [asUsize, csub]
    simp only [Terminal.execute, decstbm, e1, e2, h1, h2, and_self, if_true, moveCursorHome, doMoveCursorToCol,
      doMoveCursorToRow, csub1 hc, actualTopMargin, Option.map_some, Nat.zero_min])

/-- `CSI r+1 ; c+1 H` -/
theorem feeds_cup (t : Terminal) (r c : Nat) (hc : 1 ≤ t.cols) (hr : 1 ≤ t.rows) (h1 : r < 65535) (h2 : c < 65535) :
    Feeds (cupSeq (r + 1) (c + 1)) t
      { t with cursor := { t.cursor with
                 col := min c (t.cols - 1),
                 row := if t.originMode then min (t.topMargin + r) t.bottomMargin else min r (t.rows - 1) },
               pendingWrap := false } :=
  Feeds.one (emits_cup (r + 1) (c + 1) (by omega) (by omega)) (by
    have e1 : asUsize (c + 1) 1 - 1 = c := by simp [asUsize]
    have e2 : asUsize (r + 1) 1 - 1 = r := by simp [asUsize]
    have hcs := csub1 hc
    have hrs := csub1 hr
    have hmm : min (min c (t.cols - 1)) (t.cols - 1) = min c (t.cols - 1) := by omega
    have hx1 : max r 0 = r := by omega
    have hx2 : max (t.topMargin + r) t.topMargin = t.topMargin + r := by omega
    by_cases hcc : c ≥ t.cols
    · have hm : min c (t.cols - 1) = t.cols - 1 := by omega
      cases ho : t.originMode <;>
        simp [Terminal.execute, cup, e1, e2, moveCursorToCol, moveCursorToRow, doMoveCursorToCol, doMoveCursorToRow,
          actualTopMargin, actualBottomMargin, hcs, hrs, ho, hcc, hm, hx1, hx2]
    · have hm : min c (t.cols - 1) = c := by omega
      cases ho : t.originMode <;>
        simp [Terminal.execute, cup, e1, e2, moveCursorToCol, moveCursorToRow, doMoveCursorToCol, doMoveCursorToRow,
          actualTopMargin, actualBottomMargin, hcs, hrs, ho, hcc, hm, hx1, hx2])

end Lemmas.C11
end Avt
