/-
  Avt.Lemmas.C06Cmd — the scrolling commands of `Terminal.execute` meet `scrollCmdSpec`.
-/
import Avt.Lemmas.C06Buffer

namespace Avt.C06L
open Avt.PrimL
open Avt.Spec.C06

theorem TInv_facts {t : Terminal} (h : TInv t = true) :
    t.buffer.cols = t.cols ∧ t.buffer.rows = t.rows ∧ BInv t.buffer = true
    ∧ t.cursor.row < t.rows
    ∧ ((t.pendingWrap = true ∧ t.cursor.col = t.cols) ∨ (t.pendingWrap = false ∧ t.cursor.col < t.cols))
    ∧ t.topMargin ≤ t.bottomMargin ∧ t.bottomMargin < t.rows
    ∧ t.dirtyLines.length = t.rows ∧ t.xtwinops = false := by
  simp [TInv] at h
  grind

theorem dirtyExtend_eq (d : List Bool) (a b : Nat) (h1 : a ≤ b) (h2 : b ≤ d.length) :
    Dirty.extend d a b = some (markRange d a b) := by
  unfold Dirty.extend markRange
  exact fillRange_eq _ _ _ _ h1 h2

theorem scrollUpInRegion_eq (t : Terminal) (n : Nat) (h : TInv t = true) :
    t.scrollUpInRegion n = some (regionUp t n) := by
  obtain ⟨hc, hr, hb, hrow, hcol, htb, hbr, hd, hx⟩ := TInv_facts h
  unfold Terminal.scrollUpInRegion regionUp
  rw [scrollUp_eq _ _ _ _ _ hb (by omega) (by omega), dirtyExtend_eq _ _ _ (by omega) (by omega)]
  rfl

theorem scrollDownInRegion_eq (t : Terminal) (n : Nat) (h : TInv t = true) :
    t.scrollDownInRegion n = some (regionDown t n) := by
  obtain ⟨hc, hr, hb, hrow, hcol, htb, hbr, hd, hx⟩ := TInv_facts h
  unfold Terminal.scrollDownInRegion regionDown
  rw [scrollDown_eq _ _ _ _ _ hb (by omega) (by omega), dirtyExtend_eq _ _ _ (by omega) (by omega)]
  rfl

theorem doMoveCursorToRow_eq (t : Terminal) (row : Nat) (h : 1 ≤ t.cols) :
    t.doMoveCursorToRow row = some (toRow t row) := by
  unfold Terminal.doMoveCursorToRow toRow
  rw [csub_eq _ _ h]
  rfl

theorem cols_pos {t : Terminal} (h : TInv t = true) : 1 ≤ t.cols ∧ 1 ≤ t.rows := by
  obtain ⟨hc, hr, hb, _⟩ := TInv_facts h
  obtain ⟨h1, h2, _⟩ := BInv_facts hb
  omega

theorem moveCursorDownWithScroll_eq (t : Terminal) (h : TInv t = true) :
    t.moveCursorDownWithScroll = some (down1 t) := by
  obtain ⟨hcp, hrp⟩ := cols_pos h
  unfold Terminal.moveCursorDownWithScroll down1
  by_cases h1 : t.cursor.row = t.bottomMargin
  · simp only [h1, if_true]
    exact scrollUpInRegion_eq t 1 h
  · simp only [h1, if_false, csub_eq _ _ hrp]
    by_cases h2 : t.cursor.row + 1 < t.rows
    · have : t.cursor.row < t.rows - 1 := by omega
      simp only [h2, this, if_true]
      exact doMoveCursorToRow_eq _ _ hcp
    · have : ¬ t.cursor.row < t.rows - 1 := by omega
      simp only [h2, this, if_false]

theorem ri_eq (t : Terminal) (h : TInv t = true) : t.ri = some (up1 t) := by
  obtain ⟨hcp, hrp⟩ := cols_pos h
  unfold Terminal.ri up1
  by_cases h1 : t.cursor.row = t.topMargin
  · simp only [h1, if_true]
    exact scrollDownInRegion_eq t 1 h
  · simp only [h1, if_false]
    split
    · exact doMoveCursorToRow_eq _ _ hcp
    · rfl

theorem il_eq (t : Terminal) (n : Nat) (h : TInv t = true) :
    t.il n = some (insertLines t (asUsize n 1)) := by
  obtain ⟨hc, hr, hb, hrow, hcol, htb, hbr, hd, hx⟩ := TInv_facts h
  unfold Terminal.il Terminal.ilRange insertLines lineRange Terminal.markDirtyRange
  by_cases h1 : t.cursor.row ≤ t.bottomMargin
  · simp only [h1, if_true]
    rw [scrollDown_eq _ _ _ _ _ hb (by omega) (by omega)]
    simp only
    rw [dirtyExtend_eq _ _ _ (by omega) (by omega)]
    rfl
  · simp only [h1, if_false]
    rw [scrollDown_eq _ _ _ _ _ hb (by omega) (by omega)]
    simp only
    rw [dirtyExtend_eq _ _ _ (by omega) (by omega)]
    rfl

theorem dl_eq (t : Terminal) (n : Nat) (h : TInv t = true) :
    t.dl n = some (deleteLines t (asUsize n 1)) := by
  obtain ⟨hc, hr, hb, hrow, hcol, htb, hbr, hd, hx⟩ := TInv_facts h
  unfold Terminal.dl Terminal.ilRange deleteLines lineRange Terminal.markDirtyRange
  by_cases h1 : t.cursor.row ≤ t.bottomMargin
  · simp only [h1, if_true]
    rw [scrollUp_eq _ _ _ _ _ hb (by omega) (by omega)]
    simp only
    rw [dirtyExtend_eq _ _ _ (by omega) (by omega)]
    rfl
  · simp only [h1, if_false]
    rw [scrollUp_eq _ _ _ _ _ hb (by omega) (by omega)]
    simp only
    rw [dirtyExtend_eq _ _ _ (by omega) (by omega)]
    rfl

theorem asUsize_pos (v d : Nat) (h : 1 ≤ d) : 1 ≤ asUsize v d := by
  unfold asUsize; split <;> omega

theorem decstbm_eq (t : Terminal) (a b : Nat) (h : TInv t = true) :
    t.decstbm a b = some (setMargins t a b) := by
  obtain ⟨hcp, hrp⟩ := cols_pos h
  have hA := asUsize_pos a 1 (Nat.le_refl 1)
  have hB := asUsize_pos b t.rows hrp
  unfold Terminal.decstbm setMargins marginsAfter validMargins
  simp only [csub_eq _ _ hB]
  by_cases hv : asUsize a 1 - 1 < asUsize b t.rows - 1 ∧ asUsize b t.rows - 1 < t.rows
  · have hv' : (decide (1 ≤ asUsize a 1) && decide (asUsize a 1 < asUsize b t.rows)
        && decide (asUsize b t.rows ≤ t.rows)) = true := by
      simp only [Bool.and_eq_true, decide_eq_true_eq]; omega
    simp only [hv, hv', and_self, if_true]
    unfold Terminal.moveCursorHome Terminal.doMoveCursorToCol Terminal.doMoveCursorToRow Terminal.actualTopMargin
    simp only [csub_eq _ _ hcp, Option.map_some, Nat.zero_min]
  · have hv' : (decide (1 ≤ asUsize a 1) && decide (asUsize a 1 < asUsize b t.rows)
        && decide (asUsize b t.rows ≤ t.rows)) = false := by
      rw [Bool.eq_false_iff]
      simp only [ne_eq, Bool.and_eq_true, decide_eq_true_eq]; omega
    simp only [hv, hv', if_false, Bool.false_eq_true]
    unfold Terminal.moveCursorHome Terminal.doMoveCursorToCol Terminal.doMoveCursorToRow Terminal.actualTopMargin
    simp only [csub_eq _ _ hcp, Option.map_some, Nat.zero_min]

theorem lf_eq (t : Terminal) (h : TInv t = true) : t.lf = some (scrollCmdSpec t .lf) := by
  unfold Terminal.lf scrollCmdSpec
  rw [moveCursorDownWithScroll_eq t h]
  simp only [Option.map_some, Terminal.doMoveCursorToCol, toCol0]

theorem nel_eq (t : Terminal) (h : TInv t = true) : t.nel = some (scrollCmdSpec t .nel) := by
  unfold Terminal.nel scrollCmdSpec
  rw [moveCursorDownWithScroll_eq t h]
  rfl

/-- C06, command level: every covered scrolling function does exactly what `scrollCmdSpec` says -/
theorem scrollCmd_eq (t : Terminal) (f : Function) (h : TInv t = true) (hf : coveredScroll f = true) :
    t.execute f = some (scrollCmdSpec t f) := by
  cases f <;> simp only [coveredScroll, Bool.false_eq_true] at hf
  case lf => exact lf_eq t h
  case nel => exact nel_eq t h
  case ri => exact ri_eq t h
  case su n => exact scrollUpInRegion_eq t _ h
  case sd n => exact scrollDownInRegion_eq t _ h
  case il n => exact il_eq t n h
  case dl n => exact dl_eq t n h
  case decstbm a b => exact decstbm_eq t a b h
  case cr => rfl

end Avt.C06L
