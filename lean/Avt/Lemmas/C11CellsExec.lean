/-
  Avt.Lemmas.C11CellsExec — the cell / pen invariant `CellsInv` is kept by EVERY control function
  (`cellsInv_execute`), given what the parser guarantees about the function (`FnOK`,
  `parser_emits_fnOK` in C11CellsExec3) and the two contracts on reflow / resize proved elsewhere.
-/
import Avt.Lemmas.C11CellsExec3
import Avt.Lemmas.C11CellsExec4

namespace Avt
namespace Lemmas.C11
open Avt.Spec.C11 Avt.Spec.C08

/-- contracts proved by another worker (resize/reflow only move cells or fill with default blanks) -/
def ReflowCells : Prop := ∀ t t' : Terminal, CellsInv t → t.reflow = some t' → CellsInv t'
def ResizeCells : Prop := ∀ (t t' : Terminal) (c r : Nat), CellsInv t → t.resize c r = some t' → CellsInv t'

theorem cellsInv_saveCursor {t t' : Terminal} (hc : CellsInv t) (h : t.saveCursor = some t') :
    CellsInv t' := by
  unfold Terminal.saveCursor at h
  simp only [Option.map_eq_some_iff] at h
  obtain ⟨_, _, rfl⟩ := h
  exact ⟨hc.pen, hc.pen, hc.actx, hc.sb, hc.view, hc.osb, hc.oview⟩

theorem cellsInv_restoreCursor {t : Terminal} (hc : CellsInv t) : CellsInv t.restoreCursor :=
  ⟨hc.sctx, hc.sctx, hc.actx, hc.sb, hc.view, hc.osb, hc.oview⟩

theorem cellsInv_softReset {t t' : Terminal} (hc : CellsInv t) (h : t.softReset = some t') :
    CellsInv t' := by
  unfold Terminal.softReset at h
  simp only [Option.map_eq_some_iff] at h
  obtain ⟨_, _, rfl⟩ := h
  exact ⟨penOK_default, penOK_default, hc.actx, hc.sb, hc.view, hc.osb, hc.oview⟩

theorem cellsInv_hardReset {t t' : Terminal} (h : t.hardReset = some t') : CellsInv t' := by
  unfold Terminal.hardReset at h
  simp only [Option.map_eq_some_iff] at h
  obtain ⟨_, _, rfl⟩ := h
  have h1 := bufOK_new t.cols t.rows t.scrollbackLimit none (fun _ h => by cases h)
  have h2 := bufOK_new t.cols t.rows (some 0) none (fun _ h => by cases h)
  exact ⟨penOK_default, penOK_default, penOK_default, h1.1, h1.2, h2.1, h2.2⟩

theorem cellsInv_switchToAlternate {t t' : Terminal} (hc : CellsInv t)
    (h : t.switchToAlternateBuffer = some t') : CellsInv t' := by
  unfold Terminal.switchToAlternateBuffer at h
  split at h
  · refine cellsInv_of_core (core_markDirtyRange h) ?_
    have hb := bufOK_new t.cols t.rows (some 0) (some t.pen) (fun p hp => by cases hp; exact hc.pen)
    exact ⟨hc.pen, hc.actx, hc.sctx, hb.1, hb.2, hc.sb, hc.view⟩
  · cases h; exact hc

theorem cellsInv_switchToPrimary {t t' : Terminal} (hc : CellsInv t)
    (h : t.switchToPrimaryBuffer = some t') : CellsInv t' := by
  unfold Terminal.switchToPrimaryBuffer at h
  split at h
  · refine cellsInv_of_core (core_markDirtyRange h) ?_
    exact ⟨hc.pen, hc.actx, hc.sctx, hc.osb, hc.oview, hc.sb, hc.view⟩
  · cases h; exact hc

theorem cellsInv_decsetOne (hRf : ReflowCells) {t t' : Terminal} {m : DecMode} (hc : CellsInv t)
    (h : t.decsetOne m = some t') : CellsInv t' := by
  cases m <;> simp only [Terminal.decsetOne] at h
  · simp only [Option.some.injEq] at h; subst h; exact cellsInv_of_core (t := t) rfl hc
  · exact cellsInv_of_core (t := t) ((core_moveCursorHome h).trans rfl) hc
  · simp only [Option.some.injEq] at h; subst h; exact cellsInv_of_core (t := t) rfl hc
  · simp only [Option.some.injEq] at h; subst h; exact cellsInv_of_core (t := t) rfl hc
  · split at h
    · cases h
    · rename_i t1 h1
      exact hRf _ _ (cellsInv_switchToAlternate hc h1) h
  · exact cellsInv_saveCursor hc h
  · split at h
    · cases h
    · rename_i t1 h1
      split at h
      · cases h
      · rename_i t2 h2
        exact hRf _ _ (cellsInv_switchToAlternate (cellsInv_saveCursor hc h1) h2) h

theorem cellsInv_decrstOne (hRf : ReflowCells) {t t' : Terminal} {m : DecMode} (hc : CellsInv t)
    (h : t.decrstOne m = some t') : CellsInv t' := by
  cases m <;> simp only [Terminal.decrstOne] at h
  · simp only [Option.some.injEq] at h; subst h; exact cellsInv_of_core (t := t) rfl hc
  · exact cellsInv_of_core (t := t) ((core_moveCursorHome h).trans rfl) hc
  · simp only [Option.some.injEq] at h; subst h; exact cellsInv_of_core (t := t) rfl hc
  · simp only [Option.some.injEq] at h; subst h; exact cellsInv_of_core (t := t) rfl hc
  · split at h
    · cases h
    · rename_i t1 h1
      exact hRf _ _ (cellsInv_switchToPrimary hc h1) h
  · simp only [Option.some.injEq] at h; subst h; exact cellsInv_restoreCursor hc
  · split at h
    · cases h
    · rename_i t1 h1
      exact hRf _ _ (cellsInv_restoreCursor (cellsInv_switchToPrimary hc h1)) h

/-- the functions that neither write cells nor touch a pen -/
theorem core_execute_movers {t t' : Terminal} {f : Function} (h : t.execute f = some t')
    (hf : match f with
      | .bs | .cbt _ | .cha _ | .cht _ | .cnl _ | .cpl _ | .cr | .ctc _ | .cub _ | .cud _ | .cuf _
      | .cup _ _ | .cuu _ | .decstbm _ _ | .g1d4 _ | .gzd4 _ | .ht | .hts | .rm _ | .si | .sm _ | .so
      | .tbc _ | .vpa _ | .vpr _ => True
      | _ => False) : core t' = core t := by
  cases f <;> simp only at hf <;> simp only [Terminal.execute] at h
  all_goals grind [core, core_ctc, core_tbc, core_sm, core_rm, core_setTab, Terminal.doMoveCursorToCol]

set_option linter.unusedVariables false in
/-- EVERY control function preserves the cell/pen invariant (`hi` is not needed) -/
theorem cellsInv_execute (hRf : ReflowCells) (hRs : ResizeCells) {t t' : Terminal} {f : Function}
    (hi : TInv t = true) (hc : CellsInv t) (hf : FnOK f) (h : t.execute f = some t') : CellsInv t' := by
  have hs : St2 t.pen t := ⟨rfl, hc⟩
  cases f
  case print ch => exact (print_st hf hs h).2
  case rep n => exact (rep_st hs h).2
  case ich n => exact (ich_st hs h).2
  case dch n => exact (dch_st hs h).2
  case ech n => exact (ech_st hs h).2
  case ed sc => exact (ed_st hs h).2
  case el sc => exact (el_st hs h).2
  case il n => exact (il_st hs h).2
  case dl n => exact (dl_st hs h).2
  case su n => exact (scrollUpInRegion_st hs h).2
  case sd n => exact (scrollDownInRegion_st hs h).2
  case lf => exact (lf_st hs h).2
  case nel => exact (nel_st hs h).2
  case ri => exact (ri_st hs h).2
  case decaln => exact (decaln_st hs h).2
  case sgr ops =>
    simp only [Terminal.execute, Option.some.injEq] at h; subst h
    exact ⟨penOK_foldl_applySgr ops t.pen hc.pen hf, hc.sctx, hc.actx, hc.sb, hc.view, hc.osb, hc.oview⟩
  case decsc => exact cellsInv_saveCursor hc h
  case scosc => exact cellsInv_saveCursor hc h
  case decrc =>
    simp only [Terminal.execute, Option.some.injEq] at h; subst h; exact cellsInv_restoreCursor hc
  case scorc =>
    simp only [Terminal.execute, Option.some.injEq] at h; subst h; exact cellsInv_restoreCursor hc
  case decstr => exact cellsInv_softReset hc h
  case ris => exact cellsInv_hardReset h
  case decset ms =>
    exact C16.foldM'_inv (f := Terminal.decsetOne) CellsInv (ms := ms)
      (fun b a b' _ hb hs => cellsInv_decsetOne hRf hb hs) hc h
  case decrst ms =>
    exact C16.foldM'_inv (f := Terminal.decrstOne) CellsInv (ms := ms)
      (fun b a b' _ hb hs => cellsInv_decrstOne hRf hb hs) hc h
  case xtwinops c r =>
    simp only [Terminal.execute, Terminal.xtwinopsF] at h
    split at h
    · exact hRs _ _ _ _ hc h
    · cases h; exact hc
  all_goals exact cellsInv_of_core (core_execute_movers h trivial) hc

end Lemmas.C11
end Avt
