/-
  Avt.Lemmas.FrameStream — whole sessions of `feed_str` calls against the "ghost" run that feeds the
  concatenated input in one go and never collects garbage.
-/
import Avt.Lemmas.FrameVt

namespace Avt.Frame
open Avt

/-- a session of `feed_str` calls; returns the final state and everything handed out through
    `Changes.scrollback`, in order -/
def runFeeds : Vt → List (List Nat) → Option (Vt × List Line)
  | v, [] => some (v, [])
  | v, s :: ss =>
    match v.feedStr s with
    | none => none
    | some (v', ch) => (runFeeds v' ss).map fun r => (r.1, ch.scrollback ++ r.2)

/-- **Ghost lemma.**  `g` is `v` with more scrollback.  A session of `feed_str` calls on `v` is
    shadowed by ONE `feedAll` of the concatenated input on `g` (no `gc`, no `changes`): the results are
    related again, and the extra scrollback of the primary buffer has grown by exactly the lines the
    session handed out.  Strict + unlimited: nothing is handed out. -/
theorem runFeeds_ghost {P : Par} {g v v' : Vt} {d : List Line} (ss : List (List Nat))
    (R : VRel P g v) (hg : P.g = true)
    (hs : P.s = true ∨ Function.ris ∉ emitted v.parser ss.flatten)
    (h : runFeeds v ss = some (v', d)) :
    ∃ g' P', g.feedAll ss.flatten = some g' ∧ VRel P' g' v' ∧ P'.g = true ∧ P'.s = P.s ∧ P'.L = P.L
      ∧ (Function.ris ∉ emitted v.parser ss.flatten → P'.prim = P.prim ++ d)
      ∧ (P.s = true → P.L = none → d = [])
      ∧ (P.s = true → P.L = none → P.prim = [] → P'.prim = []) := by
  induction ss generalizing P g v d with
  | nil =>
    simp only [runFeeds, Option.some.injEq, Prod.mk.injEq] at h
    obtain ⟨rfl, rfl⟩ := h
    exact ⟨g, P, rfl, R, hg, rfl, rfl, fun _ => by simp, fun _ _ => rfl, fun _ _ h => h⟩
  | cons s ss ih =>
    simp only [runFeeds] at h
    unfold Vt.feedStr at h
    cases hr : v.feedAll s with
    | none => simp [hr] at h
    | some r =>
      simp only [hr, Option.map_some] at h
      cases hrest : runFeeds r.finish.1 ss with
      | none => simp [hrest] at h
      | some rest =>
        simp only [hrest, Option.map_some, Option.some.injEq, Prod.mk.injEq] at h
        obtain ⟨rfl, rfl⟩ := h
        have hem : emitted v.parser (s ++ ss.flatten) = emitted v.parser s ++ emitted r.parser ss.flatten :=
          emitted_feedAll hr _
        have hs1 : P.s = true ∨ Function.ris ∉ emitted v.parser s :=
          hs.imp id (fun h h' => h (by rw [List.flatten_cons, hem]; exact List.mem_append_left _ h'))
        have h1 := feedAll_rel R hg s hs1
        rw [hr] at h1
        cases hg1 : g.feedAll s with
        | none => rw [hg1] at h1; exact False.elim h1
        | some g1 =>
          rw [hg1] at h1
          obtain ⟨P1, R1, st1⟩ := h1
          obtain ⟨P2, R2, h2g, h2s, h2L, _, h2p⟩ := finish_rel R1
          have hs2 : P2.s = true ∨ Function.ris ∉ emitted r.finish.1.parser ss.flatten := by
            rcases hs with h | h
            · exact Or.inl ((h2s.trans st1.s).trans h)
            · exact Or.inr (fun h' => h (by rw [List.flatten_cons, hem]; exact List.mem_append_right _ h'))
          obtain ⟨g', P', hg', R', h3g, h3s, h3L, h3p, h3d, h3e⟩ :=
            ih R2 (h2g.trans st1.g) hs2 (by rw [hrest])
          refine ⟨g', P', ?_, R', h3g, (h3s.trans h2s).trans st1.s, (h3L.trans h2L).trans st1.L, ?_, ?_, ?_⟩
          · rw [List.flatten_cons, feedAll_append, hg1]; exact hg'
          · intro hn
            rw [List.flatten_cons, hem] at hn
            have hn1 : Function.ris ∉ emitted v.parser s := fun h' => hn (List.mem_append_left _ h')
            have hn2 : Function.ris ∉ emitted r.parser ss.flatten := fun h' => hn (List.mem_append_right _ h')
            rw [h3p hn2, h2p, st1.keep hn1, List.append_assoc]
          · intro hP hL
            have e1 : r.finish.2.scrollback = [] := finish_unlimited R1 (st1.s.trans hP) (st1.L.trans hL)
            have e2 : rest.2 = [] := h3d ((h2s.trans st1.s).trans hP) ((h2L.trans st1.L).trans hL)
            rw [e1, e2]; rfl
          · intro hP hL hp
            have e1 : r.finish.2.scrollback = [] := finish_unlimited R1 (st1.s.trans hP) (st1.L.trans hL)
            have p1 : P1.prim = [] := by
              rcases st1.reset with h | h
              · rw [h, hp]
              · exact h
            have p2 : P2.prim = [] := by rw [h2p, p1, e1]; rfl
            exact h3e ((h2s.trans st1.s).trans hP) ((h2L.trans st1.L).trans hL) p2

/-- the lines of the active PRIMARY buffer, from two relatives of the same terminal that have not
    dropped anything of the primary scrollback -/
theorem lines_of {P Q : Par} {w x y : Terminal} (R1 : Rel P w x) (R2 : Rel Q w y)
    (h1 : P.prim = []) (h2 : Q.prim = []) (hT : x.activeBufferType = .primary) :
    x.buffer.lines = y.buffer.lines := by
  have hs := primarySb_of R1 R2 h1 h2
  have hTy : y.activeBufferType = .primary := by
    rw [← R2.activeBufferType, R1.activeBufferType]; exact hT
  unfold Terminal.primaryBuffer at hs
  simp only [hT, hTy, if_true] at hs
  unfold Buffer.lines
  rw [hs, ← R1.buf.view, ← R2.buf.view]

/-- the lines of a relative whose primary screen is showing: the ghost's lines are the extra
    scrollback followed by the relative's lines -/
theorem lines_ghost {P : Par} {w x : Terminal} (R : Rel P w x) (hT : x.activeBufferType = .primary) :
    w.buffer.lines = P.prim ++ x.buffer.lines := by
  have hPT : P.T = .primary := by rw [← R.abt, R.activeBufferType]; exact hT
  unfold Buffer.lines Par.prim
  rw [hPT, R.buf.sb, R.buf.view, List.append_assoc]

/-- two fresh terminals of the same size, one unlimited, one with any limit, are related
    (non-strictly) -/
theorem new_rel {c r : Nat} {lim : Option Nat} {u0 v0 : Vt} (hu : Vt.new c r none = some u0)
    (hv : Vt.new c r lim = some v0) :
    VRel ⟨false, true, none, .primary, [], []⟩ u0 v0 := by
  unfold Vt.new Terminal.new at hu hv
  cases hr : csub r 1 with
  | none => simp [hr] at hu
  | some r1 =>
    simp only [hr, Option.map_some, Option.some.injEq] at hu hv
    subst hu; subst hv
    refine ⟨rfl, ?_⟩
    exact
      { buf := ⟨rfl, rfl, rfl, rfl, (fun h => by cases h)⟩, other := BRel.refl _ _, dirty := rfl, abt := rfl
        slA := rfl, slB := (fun h => by cases h), stale := fun _ => rfl, xtw := rfl
        geoC := fun _ => rfl, geoR := fun _ => rfl
        vlen := by simp [Buffer.new]
        ovlen := by simp [Buffer.new]
        limA := rfl, limO := (fun h => by cases h)
        cols := rfl, rows := rfl, activeBufferType := rfl, cursor := rfl, pen := rfl
        charsets := rfl, activeCharset := rfl, tabs := rfl
        insertMode := rfl, originMode := rfl, autoWrapMode := rfl
        newLineMode := rfl, cursorKeysMode := rfl, pendingWrap := rfl
        topMargin := rfl, bottomMargin := rfl, savedCtx := rfl
        alternateSavedCtx := rfl, xtwinops := rfl }

/-- the strict variant: a fresh terminal is related to itself (no invariant needed) -/
theorem new_rel_self {c r : Nat} {lim : Option Nat} {u0 : Vt} (hu : Vt.new c r lim = some u0) :
    VRel ⟨true, true, lim, .primary, [], []⟩ u0 u0 := by
  unfold Vt.new Terminal.new at hu
  cases hr : csub r 1 with
  | none => simp [hr] at hu
  | some r1 =>
    simp only [hr, Option.map_some, Option.some.injEq] at hu
    subst hu
    refine ⟨rfl, ?_⟩
    exact
      { buf := BRel.refl _ _, other := BRel.refl _ _, dirty := rfl, abt := rfl
        slA := rfl, slB := fun _ => rfl, stale := fun _ => rfl, xtw := rfl
        geoC := fun _ => rfl, geoR := fun _ => rfl
        vlen := by simp [Buffer.new]
        ovlen := by simp [Buffer.new]
        limA := rfl, limO := (fun h => by cases h)
        cols := rfl, rows := rfl, activeBufferType := rfl, cursor := rfl, pen := rfl
        charsets := rfl, activeCharset := rfl, tabs := rfl
        insertMode := rfl, originMode := rfl, autoWrapMode := rfl
        newLineMode := rfl, cursorKeysMode := rfl, pendingWrap := rfl
        topMargin := rfl, bottomMargin := rfl, savedCtx := rfl
        alternateSavedCtx := rfl, xtwinops := rfl }

end Avt.Frame
