/-
  Avt.Lemmas.Lookup — the lifting lemma for interval-pattern tables.

  A function `f : Nat → α` is `Stable B f` when its value depends on the argument `c` only through the
  truth values of the comparisons `b ≤ c`, `b ∈ B`.  First-match lookup in a list of arms whose
  patterns are closed intervals `[lo, hi]` is stable for the list `B` of all `lo` and `hi + 1`
  occurring in the table; so are range tests, the `c ≥ k ↦ v` pre-mapping of `Parser::feed`, pairs
  and post-compositions of stable functions.  Every `c` agrees (in that sense) with its
  representative `rep B c ∈ 0 :: B` (the largest endpoint `≤ c`), hence

      (0 :: B).all P = true   →   ∀ c, P c = true                       (`forall_of_reps`)

  for every stable Boolean `P`: a finite check over one representative per cell of the partition of ℕ
  induced by the endpoints proves the statement for ALL code points.  Core Lean only.
-/
import Avt.Model.Parser

namespace Avt.Lookup

/-- `c` and `d` lie in the same cell of the partition induced by `B` -/
def Agree (B : List Nat) (c d : Nat) : Prop := ∀ b ∈ B, (b ≤ c ↔ b ≤ d)

/-- `f` is constant on every cell of the partition induced by `B` -/
def Stable {α : Type} (B : List Nat) (f : Nat → α) : Prop := ∀ c d, Agree B c d → f c = f d

/-- the representative of `c`: the largest element of `0 :: B` that is `≤ c` -/
def rep (B : List Nat) (c : Nat) : Nat := B.foldl (fun m b => if b ≤ c then max m b else m) 0

theorem foldl_rep_le (B : List Nat) (c m : Nat) (hm : m ≤ c) :
    B.foldl (fun m b => if b ≤ c then max m b else m) m ≤ c := by
  induction B generalizing m with
  | nil => simpa using hm
  | cons b bs ih =>
    simp only [List.foldl_cons]
    apply ih
    split <;> omega

theorem foldl_rep_ge_init (B : List Nat) (c m : Nat) :
    m ≤ B.foldl (fun m b => if b ≤ c then max m b else m) m := by
  induction B generalizing m with
  | nil => simp
  | cons b bs ih =>
    simp only [List.foldl_cons]
    refine Nat.le_trans ?_ (ih _)
    split <;> omega

theorem foldl_rep_ge (B : List Nat) (c m b : Nat) (hb : b ∈ B) (hbc : b ≤ c) :
    b ≤ B.foldl (fun m b => if b ≤ c then max m b else m) m := by
  induction B generalizing m with
  | nil => cases hb
  | cons x xs ih =>
    simp only [List.foldl_cons]
    rcases List.mem_cons.1 hb with h | h
    · subst h
      refine Nat.le_trans ?_ (foldl_rep_ge_init xs c _)
      simp [hbc]; omega
    · exact ih _ h

theorem foldl_rep_mem (B : List Nat) (c m : Nat) :
    B.foldl (fun m b => if b ≤ c then max m b else m) m = m
      ∨ B.foldl (fun m b => if b ≤ c then max m b else m) m ∈ B := by
  induction B generalizing m with
  | nil => simp
  | cons x xs ih =>
    simp only [List.foldl_cons]
    rcases ih (if x ≤ c then max m x else m) with h | h
    · rw [h]
      split
      · rcases Nat.le_total m x with hmx | hmx
        · right; rw [Nat.max_eq_right hmx]; exact List.mem_cons_self
        · left; exact Nat.max_eq_left hmx
      · left; rfl
    · right; exact List.mem_cons_of_mem _ h

theorem rep_le (B : List Nat) (c : Nat) : rep B c ≤ c := foldl_rep_le B c 0 (Nat.zero_le _)

theorem le_rep {B : List Nat} {c b : Nat} (hb : b ∈ B) (hbc : b ≤ c) : b ≤ rep B c :=
  foldl_rep_ge B c 0 b hb hbc

theorem rep_mem (B : List Nat) (c : Nat) : rep B c ∈ 0 :: B := by
  rcases foldl_rep_mem B c 0 with h | h
  · unfold rep; rw [h]; exact List.mem_cons_self
  · exact List.mem_cons_of_mem _ h

theorem agree_rep (B : List Nat) (c : Nat) : Agree B c (rep B c) := by
  intro b hb
  constructor
  · exact le_rep hb
  · intro h; exact Nat.le_trans h (rep_le B c)

/-- **The lifting lemma.**  A stable Boolean predicate that holds at `0` and at every endpoint holds
    everywhere. -/
theorem forall_of_reps {B : List Nat} {P : Nat → Bool} (hP : Stable B P)
    (h : (0 :: B).all P = true) : ∀ c, P c = true := by
  intro c
  rw [hP c (rep B c) (agree_rep B c)]
  exact List.all_eq_true.1 h _ (rep_mem B c)

/-! ### closure properties of `Stable` -/

theorem Agree.mono {B B' : List Nat} (h : ∀ b ∈ B, b ∈ B') {c d : Nat} (a : Agree B' c d) : Agree B c d :=
  fun b hb => a b (h b hb)

theorem Stable.mono {α : Type} {B B' : List Nat} {f : Nat → α} (hf : Stable B f) (h : ∀ b ∈ B, b ∈ B') :
    Stable B' f := fun c d a => hf c d (a.mono h)

theorem Stable.const {α : Type} (B : List Nat) (x : α) : Stable B (fun _ => x) := fun _ _ _ => rfl

theorem Stable.post {α β : Type} {B : List Nat} {f : Nat → α} (hf : Stable B f) (g : α → β) :
    Stable B (fun c => g (f c)) := fun c d a => congrArg g (hf c d a)

theorem Stable.pair {α β : Type} {B : List Nat} {f : Nat → α} {g : Nat → β} (hf : Stable B f)
    (hg : Stable B g) : Stable B (fun c => (f c, g c)) := fun c d a => by
  show (f c, g c) = (f d, g d)
  rw [hf c d a, hg c d a]

theorem Stable.map2 {α β γ : Type} {B : List Nat} {f : Nat → α} {g : Nat → β} (hf : Stable B f)
    (hg : Stable B g) (h : α → β → γ) : Stable B (fun c => h (f c) (g c)) := fun c d a => by
  show h (f c) (g c) = h (f d) (g d)
  rw [hf c d a, hg c d a]

/-- `k ≤ c` for an endpoint `k` -/
theorem Stable.le {B : List Nat} {k : Nat} (hk : k ∈ B) : Stable B (fun c => decide (k ≤ c)) :=
  fun c d a => by
    have := a k hk
    simp only [decide_eq_decide]; exact this

/-- the closed-interval test `lo ≤ c ≤ hi` -/
theorem Stable.range {B : List Nat} {lo hi : Nat} (hlo : lo ∈ B) (hhi : hi + 1 ∈ B) :
    Stable B (fun c => decide (lo ≤ c) && decide (c ≤ hi)) := fun c d a => by
  have h1 := a lo hlo
  have h2 := a (hi + 1) hhi
  have e1 : decide (lo ≤ c) = decide (lo ≤ d) := by simp only [decide_eq_decide]; exact h1
  have e2 : decide (c ≤ hi) = decide (d ≤ hi) := by simp only [decide_eq_decide]; omega
  show (decide (lo ≤ c) && decide (c ≤ hi)) = (decide (lo ≤ d) && decide (d ≤ hi))
  rw [e1, e2]

/-- the pre-mapping `input2 = if input >= k { v } else { input }` of `Parser::feed` -/
theorem Stable.premap {α : Type} {B : List Nat} {f : Nat → α} (hf : Stable B f) {k : Nat} (hk : k ∈ B)
    (v : Nat) : Stable B (fun c => f (if c ≥ k then v else c)) := fun c d a => by
  have h := a k hk
  by_cases hc : k ≤ c
  · have hd : k ≤ d := h.1 hc
    simp [hc, hd]
  · have hd : ¬ k ≤ d := fun x => hc (h.2 x)
    simp only [ge_iff_le, hc, hd, if_false]
    exact hf c d a

theorem Stable.any {α : Type} {B : List Nat} (l : List α) (m : α → Nat → Bool)
    (h : ∀ x ∈ l, Stable B (m x)) : Stable B (fun c => l.any (fun x => m x c)) := fun c d a => by
  show l.any (fun x => m x c) = l.any (fun x => m x d)
  induction l with
  | nil => rfl
  | cons x xs ih =>
    simp only [List.any_cons]
    rw [h x List.mem_cons_self c d a, ih (fun y hy => h y (List.mem_cons_of_mem _ hy))]

theorem Stable.find {α : Type} {B : List Nat} (l : List α) (m : α → Nat → Bool)
    (h : ∀ x ∈ l, Stable B (m x)) : Stable B (fun c => l.find? (fun x => m x c)) := fun c d a => by
  show l.find? (fun x => m x c) = l.find? (fun x => m x d)
  induction l with
  | nil => rfl
  | cons x xs ih =>
    simp only [List.find?_cons]
    rw [h x List.mem_cons_self c d a, ih (fun y hy => h y (List.mem_cons_of_mem _ hy))]

/-! ### the arm list of `Parser::feed` -/

/-- all interval endpoints (`lo` and `hi + 1`) of an arm list -/
def armBounds (arms : List Arm) : List Nat :=
  arms.flatMap fun a => a.pats.flatMap fun pt => [pt.lo, pt.hi + 1]

theorem mem_armBounds {arms : List Arm} {a : Arm} {pt : Pat} (ha : a ∈ arms) (hpt : pt ∈ a.pats) :
    pt.lo ∈ armBounds arms ∧ pt.hi + 1 ∈ armBounds arms := by
  unfold armBounds
  constructor
  · exact List.mem_flatMap.2 ⟨a, ha, List.mem_flatMap.2 ⟨pt, hpt, by simp⟩⟩
  · exact List.mem_flatMap.2 ⟨a, ha, List.mem_flatMap.2 ⟨pt, hpt, by simp⟩⟩

theorem stable_patMatches {B : List Nat} (pt : Pat) (st : PState) (hlo : pt.lo ∈ B) (hhi : pt.hi + 1 ∈ B) :
    Stable B (fun c => Parser.Pat.matches pt st c) := by
  have h := Stable.range hlo hhi
  intro c d a
  have := h c d a
  simp only [Parser.Pat.matches, Bool.and_assoc]
  simp only at this
  rw [this]

/-- first-match lookup in an arm list is constant on the cells induced by its endpoints -/
theorem stable_findArm (arms : List Arm) (st : PState) :
    Stable (armBounds arms) (fun c => Parser.findArm arms st c) := by
  unfold Parser.findArm
  apply Stable.find
  intro a ha
  unfold Parser.Arm.matches
  apply Stable.any
  intro pt hpt
  have := mem_armBounds ha hpt
  exact stable_patMatches pt st this.1 this.2

/-! ### the arm list of `esc_dispatch` (pattern: optional intermediate × interval of finals) -/

def escBounds (arms : List EscArm) : List Nat := arms.flatMap fun a => [a.lo, a.hi + 1]

theorem stable_findEsc (arms : List EscArm) (interm : Option Nat) :
    Stable (escBounds arms) (fun c => arms.find? (fun a => Parser.EscArm.matches a interm c)) := by
  apply Stable.find
  intro a ha
  have hlo : a.lo ∈ escBounds arms := List.mem_flatMap.2 ⟨a, ha, by simp⟩
  have hhi : a.hi + 1 ∈ escBounds arms := List.mem_flatMap.2 ⟨a, ha, by simp⟩
  have h := Stable.range hlo hhi
  intro c d ag
  have := h c d ag
  simp only [Parser.EscArm.matches, Bool.and_assoc]
  simp only at this
  rw [this]

end Avt.Lookup
