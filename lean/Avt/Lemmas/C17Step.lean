/-
  Avt.Lemmas.C17Step — save, restore, screen switch, reflow and the resets do to the two saved
  contexts exactly what `Spec.C17.stepOK` says.
-/
import Avt.Lemmas.C17Frame

namespace Avt.Spec.C17
open Avt

theorem csub_one {n c : Nat} (h : csub n 1 = some c) : 1 ≤ n ∧ c = n - 1 := by
  unfold csub at h
  split at h
  · cases h; exact ⟨by assumption, rfl⟩
  · cases h

/-- clause (1): a save records `ctxOf t` and touches nothing else -/
theorem saveCursor_eq {t t' : Terminal} (h : t.saveCursor = some t') :
    t' = { t with savedCtx := ctxOf t } := by
  unfold Terminal.saveCursor at h
  cases hc : csub t.cols 1 with
  | none => simp [hc] at h
  | some c1 =>
    simp only [hc, Option.map_some, Option.some.injEq] at h
    subst h
    rw [(csub_one hc).2]; rfl

/-- a resize of a buffer to its own geometry leaves the cursor where it is -/
theorem resize_same {b b' : Buffer} {cur cur' : Nat × Nat}
    (h : b.resize b.cols b.rows cur = some (b', cur')) : cur' = cur := by
  unfold Buffer.resize at h
  simp only [ne_eq, not_true_eq_false, if_false, Nat.lt_irrefl, gt_iff_lt] at h
  split at h
  · cases h
  · split at h
    · cases h
    · simp only [Option.some.injEq, Prod.mk.injEq] at h
      exact h.2.symm


/-- what `Terminal.reflow` does to everything C17 talks about -/
structure ReflowFacts (t t' : Terminal) : Prop where
  saved : t'.savedCtx = clampCtx t.cols t.rows t.savedCtx
  alt : t'.alternateSavedCtx = t.alternateSavedCtx
  pen : t'.pen = t.pen
  origin : t'.originMode = t.originMode
  autoWrap : t'.autoWrapMode = t.autoWrapMode
  cols : t'.cols = t.cols
  rows : t'.rows = t.rows
  abt : t'.activeBufferType = t.activeBufferType
  visible : t'.cursor.visible = t.cursor.visible
  pending : t.pendingWrap = false → t'.pendingWrap = false
  cursor : t.buffer.cols = t.cols → t.buffer.rows = t.rows →
    t'.cursor.col = t.cursor.col ∧ t'.cursor.row = t.cursor.row

/-- the two clamping stages at the end of `Terminal.reflow` -/
def clampColStage (t : Terminal) : Option Terminal :=
  if t.savedCtx.cursorCol ≥ t.cols
  then (csub t.cols 1).map fun c1 => { t with savedCtx := { t.savedCtx with cursorCol := c1 } }
  else some t

def clampRowStage (t : Terminal) : Option Terminal :=
  if t.savedCtx.cursorRow ≥ t.rows
  then (csub t.rows 1).map fun r1 => { t with savedCtx := { t.savedCtx with cursorRow := r1 } }
  else some t

theorem clampCol_eq {t t' : Terminal} (h : clampColStage t = some t') :
    t' = { t with savedCtx := { t.savedCtx with cursorCol := min t.savedCtx.cursorCol (t.cols - 1) } } := by
  unfold clampColStage at h
  split at h
  · cases hc : csub t.cols 1 with
    | none => simp [hc] at h
    | some c1 =>
      simp only [hc, Option.map_some, Option.some.injEq] at h
      subst h
      have := csub_one hc
      have e : c1 = min t.savedCtx.cursorCol (t.cols - 1) := by omega
      rw [e]
  · cases h
    have e : min t.savedCtx.cursorCol (t.cols - 1) = t.savedCtx.cursorCol := by omega
    rw [e]

theorem clampRow_eq {t t' : Terminal} (h : clampRowStage t = some t') :
    t' = { t with savedCtx := { t.savedCtx with cursorRow := min t.savedCtx.cursorRow (t.rows - 1) } } := by
  unfold clampRowStage at h
  split at h
  · cases hc : csub t.rows 1 with
    | none => simp [hc] at h
    | some c1 =>
      simp only [hc, Option.map_some, Option.some.injEq] at h
      subst h
      have := csub_one hc
      have e : c1 = min t.savedCtx.cursorRow (t.rows - 1) := by omega
      rw [e]
  · cases h
    have e : min t.savedCtx.cursorRow (t.rows - 1) = t.savedCtx.cursorRow := by omega
    rw [e]

/-- `Terminal.reflow` after its first statement (the pending-wrap reset) -/
def reflowCore (t : Terminal) : Option Terminal :=
  match t.buffer.resize t.cols t.rows (t.cursor.col, t.cursor.row) with
  | none => none
  | some (b, (col, row)) =>
    let t := { t with buffer := b, cursor := { t.cursor with col := col, row := row },
                      dirtyLines := Dirty.resize t.dirtyLines t.rows }
    match t.markDirtyRange 0 t.rows with
    | none => none
    | some t =>
      match clampColStage t with
      | none => none
      | some t => clampRowStage t

theorem reflow_eq (t : Terminal) :
    t.reflow = reflowCore (if t.cols ≠ t.buffer.cols then { t with pendingWrap := false } else t) := rfl

theorem reflowCore_eq {t t' : Terminal} (h : reflowCore t = some t') :
    ∃ b col row d, t.buffer.resize t.cols t.rows (t.cursor.col, t.cursor.row) = some (b, (col, row))
      ∧ t' = { t with buffer := b, cursor := { t.cursor with col := col, row := row }, dirtyLines := d,
                      savedCtx := clampCtx t.cols t.rows t.savedCtx } := by
  unfold reflowCore at h
  split at h
  · cases h
  · rename_i b col row hres
    simp only at h
    split at h
    · cases h
    · rename_i t2 ht2
      obtain ⟨d, _, rfl⟩ := Option.map_eq_some_iff.mp ht2
      split at h
      · cases h
      · rename_i t3 ht3
        have e3 := clampCol_eq ht3
        have e4 := clampRow_eq h
        subst e3
        subst e4
        exact ⟨b, col, row, d, hres, rfl⟩

theorem reflow_facts {t t' : Terminal} (h : t.reflow = some t') : ReflowFacts t t' := by
  rw [reflow_eq] at h
  by_cases hc : t.cols ≠ t.buffer.cols
  · rw [if_pos hc] at h
    obtain ⟨b, col, row, d, _, rfl⟩ := reflowCore_eq h
    exact ⟨rfl, rfl, rfl, rfl, rfl, rfl, rfl, rfl, rfl, fun _ => rfl, fun h1 _ => absurd h1.symm hc⟩
  · rw [if_neg hc] at h
    obtain ⟨b, col, row, d, hres, rfl⟩ := reflowCore_eq h
    refine ⟨rfl, rfl, rfl, rfl, rfl, rfl, rfl, rfl, rfl, fun h => h, fun h1 h2 => ?_⟩
    rw [← h1, ← h2] at hres
    have := resize_same hres
    simp only [Prod.mk.injEq] at this
    exact this


/-! ### switching screens -/

theorem switchAlt_primary {t t' : Terminal} (hp : t.activeBufferType = .primary)
    (h : t.switchToAlternateBuffer = some t') :
    ∃ d, t' = { t with activeBufferType := .alternate, savedCtx := t.alternateSavedCtx,
                       alternateSavedCtx := t.savedCtx, otherBuffer := t.buffer,
                       buffer := Buffer.new t.cols t.rows (some 0) (some t.pen), dirtyLines := d } := by
  unfold Terminal.switchToAlternateBuffer at h
  rw [hp] at h
  simp only at h
  obtain ⟨d, _, rfl⟩ := Option.map_eq_some_iff.mp h
  exact ⟨d, rfl⟩

theorem switchAlt_alternate {t t' : Terminal} (hp : t.activeBufferType = .alternate)
    (h : t.switchToAlternateBuffer = some t') : t' = t := by
  unfold Terminal.switchToAlternateBuffer at h
  rw [hp] at h
  cases h; rfl

theorem switchPrim_alternate {t t' : Terminal} (hp : t.activeBufferType = .alternate)
    (h : t.switchToPrimaryBuffer = some t') :
    ∃ d, t' = { t with activeBufferType := .primary, savedCtx := t.alternateSavedCtx,
                       alternateSavedCtx := t.savedCtx, buffer := t.otherBuffer,
                       otherBuffer := t.buffer, dirtyLines := d } := by
  unfold Terminal.switchToPrimaryBuffer at h
  rw [hp] at h
  simp only at h
  obtain ⟨d, _, rfl⟩ := Option.map_eq_some_iff.mp h
  exact ⟨d, rfl⟩

theorem switchPrim_primary {t t' : Terminal} (hp : t.activeBufferType = .primary)
    (h : t.switchToPrimaryBuffer = some t') : t' = t := by
  unfold Terminal.switchToPrimaryBuffer at h
  rw [hp] at h
  cases h; rfl

theorem abt_cases (t : Terminal) : t.activeBufferType = .primary ∨ t.activeBufferType = .alternate := by
  cases t.activeBufferType <;> simp

theorem ctxKept_of {t t' : Terminal} (h : CtxSame t t') : ctxKept t t' = true := by
  simp [ctxKept, h.1, h.2]

theorem tinv_geom {t : Terminal} (hi : TInv t = true) : t.buffer.cols = t.cols ∧ t.buffer.rows = t.rows := by
  simp only [TInv, Bool.and_eq_true, beq_iff_eq] at hi
  exact ⟨hi.1.1.1.1.1.1.1.1.1.1.1.1.1.1.1.1, hi.1.1.1.1.1.1.1.1.1.1.1.1.1.1.1.2⟩


theorem foldM_single {f : Terminal → DecMode → Option Terminal} {m : DecMode} {t t' : Terminal}
    (h : Terminal.foldM' f [m] t = some t') : f t m = some t' := by
  unfold Terminal.foldM' at h
  split at h
  · rename_i t1 h1
    unfold Terminal.foldM' at h
    cases h; exact h1
  · cases h

/-- contexts after "switch to the alternate screen, then reflow", from any `t0` with the geometry of `t` -/
theorem showAlt_pair {t0 t1 t' : Terminal} (h1 : t0.switchToAlternateBuffer = some t1)
    (h2 : t1.reflow = some t') :
    (t'.savedCtx, t'.alternateSavedCtx)
      = (if t0.activeBufferType = .alternate
         then (clampCtx t0.cols t0.rows t0.savedCtx, t0.alternateSavedCtx)
         else (clampCtx t0.cols t0.rows t0.alternateSavedCtx, t0.savedCtx)) := by
  have F := reflow_facts h2
  rcases abt_cases t0 with hp | hp
  · obtain ⟨d, rfl⟩ := switchAlt_primary hp h1
    rw [F.saved, F.alt, hp]; simp
  · have := switchAlt_alternate hp h1
    subst this
    rw [F.saved, F.alt, hp]; simp

theorem showPrim_pair {t0 t1 t' : Terminal} (h1 : t0.switchToPrimaryBuffer = some t1)
    (h2 : t1.reflow = some t') :
    (t'.savedCtx, t'.alternateSavedCtx)
      = (if t0.activeBufferType = .primary
         then (clampCtx t0.cols t0.rows t0.savedCtx, t0.alternateSavedCtx)
         else (clampCtx t0.cols t0.rows t0.alternateSavedCtx, t0.savedCtx)) := by
  have F := reflow_facts h2
  rcases abt_cases t0 with hp | hp
  · have := switchPrim_primary hp h1
    subst this
    rw [F.saved, F.alt, hp]; simp
  · obtain ⟨d, rfl⟩ := switchPrim_alternate hp h1
    rw [F.saved, F.alt, hp]; simp

/-- setting one DEC mode -/
theorem decset_single_ok {t t' : Terminal} {m : DecMode} (h : t.decsetOne m = some t') :
    stepOK t (.decset [m]) t' = true := by
  cases m <;> simp only [Terminal.decsetOne] at h
  case cursorKeys => cases h; simp [stepOK, modeCtx]
  case origin =>
    have := moveCursorHome_ctx h
    simp [stepOK, modeCtx, this.1, this.2]
  case autoWrap => cases h; simp [stepOK, modeCtx]
  case textCursorEnable => cases h; simp [stepOK, modeCtx]
  case altScreenBuffer =>
    split at h
    · cases h
    · rename_i t1 h1
      have := showAlt_pair h1 h
      simp only [stepOK, modeCtx, showScreen, this]
      simp
  case saveCursor =>
    have := saveCursor_eq h
    subst this
    simp [stepOK, modeCtx, sameVisible]
  case saveCursorAltScreenBuffer =>
    split at h
    · cases h
    · rename_i t0 h0
      have e0 := saveCursor_eq h0
      subst e0
      split at h
      · cases h
      · rename_i t1 h1
        have := showAlt_pair h1 h
        simp only [stepOK, modeCtx, showScreen, this]
        simp


theorem restoredFrom_restore (t : Terminal) : restoredFrom t.savedCtx t.restoreCursor = true := by
  simp [restoredFrom, Terminal.restoreCursor]

/-- resetting one DEC mode -/
theorem decrst_single_ok {t t' : Terminal} {m : DecMode} (hi : TInv t = true)
    (h : t.decrstOne m = some t') : stepOK t (.decrst [m]) t' = true := by
  cases m <;> simp only [Terminal.decrstOne] at h
  case cursorKeys => cases h; simp [stepOK, modeCtx]
  case origin =>
    have := moveCursorHome_ctx h
    simp [stepOK, modeCtx, this.1, this.2]
  case autoWrap => cases h; simp [stepOK, modeCtx]
  case textCursorEnable => cases h; simp [stepOK, modeCtx]
  case altScreenBuffer =>
    split at h
    · cases h
    · rename_i t1 h1
      have := showPrim_pair h1 h
      simp only [stepOK, modeCtx, showScreen, this]
      simp
  case saveCursor =>
    cases h
    simp [stepOK, modeCtx, restoredFrom_restore]
    simp [Terminal.restoreCursor]
  case saveCursorAltScreenBuffer =>
    split at h
    · cases h
    · rename_i t1 h1
      have hp := showPrim_pair (t' := t') h1 (t1 := t1)
      have F := reflow_facts h
      have hpair : (t'.savedCtx, t'.alternateSavedCtx)
          = (if t.activeBufferType = .primary
             then (clampCtx t.cols t.rows t.savedCtx, t.alternateSavedCtx)
             else (clampCtx t.cols t.rows t.alternateSavedCtx, t.savedCtx)) := by
        rcases abt_cases t with hq | hq
        · have := switchPrim_primary hq h1
          subst this
          rw [F.saved, F.alt, hq]; simp [Terminal.restoreCursor]
        · obtain ⟨d, rfl⟩ := switchPrim_alternate hq h1
          rw [F.saved, F.alt, hq]; simp [Terminal.restoreCursor]
      have hmodes : restoredModes (primaryCtx t) t' = true := by
        have hpw := F.pending rfl
        rcases abt_cases t with hq | hq
        · have := switchPrim_primary hq h1
          subst this
          simp [restoredModes, primaryCtx, hq, F.pen, F.origin, F.autoWrap, hpw, Terminal.restoreCursor]
        · obtain ⟨d, rfl⟩ := switchPrim_alternate hq h1
          simp [restoredModes, primaryCtx, hq, F.pen, F.origin, F.autoWrap, hpw, Terminal.restoreCursor]
      have hcur : primaryFresh t = true →
          t'.cursor.col = (primaryCtx t).cursorCol ∧ t'.cursor.row = (primaryCtx t).cursorRow := by
        intro hf
        have hg := tinv_geom hi
        rcases abt_cases t with hq | hq
        · have := switchPrim_primary hq h1
          subst this
          have := F.cursor hg.1 hg.2
          simpa [primaryCtx, hq, Terminal.restoreCursor] using this
        · obtain ⟨d, rfl⟩ := switchPrim_alternate hq h1
          simp only [primaryFresh, hq, Bool.or_eq_true, beq_iff_eq, Bool.and_eq_true] at hf
          have hf' : t.otherBuffer.cols = t.cols ∧ t.otherBuffer.rows = t.rows := by
            rcases hf with hf | hf
            · cases hf
            · exact hf
          have := F.cursor hf'.1 hf'.2
          simpa [primaryCtx, hq, Terminal.restoreCursor] using this
      simp only [stepOK, modeCtx, showScreen, hpair, hmodes]
      by_cases hf : primaryFresh t = true
      · have := hcur hf
        simp [hf, this.1, this.2]
      · simp [hf]


theorem defaultCtx_eq : ({} : SavedCtx) = defaultCtx := rfl

/- `step_ok` (the per-step specification holds for every function of the model) is in
   Avt/Lemmas/C17Multi.lean, after the lemmas about lists of DEC modes. -/

/-- the first two statements of `Terminal.resize` -/
def resizeTabs (t : Terminal) (cols : Nat) : Terminal :=
  if cols < t.cols then { t with tabs := Tabs.contract t.tabs cols }
  else if cols > t.cols then { t with tabs := Tabs.expand t.tabs t.cols cols } else t

def resizeMargins (t : Terminal) (rows : Nat) : Option Terminal :=
  if rows ≠ t.rows then (csub rows 1).map fun r1 => { t with topMargin := 0, bottomMargin := r1 }
  else some t

theorem resize_eq (t : Terminal) (cols rows : Nat) :
    t.resize cols rows
      = match resizeMargins (resizeTabs t cols) rows with
        | none => none
        | some t => ({ t with cols := cols, rows := rows } : Terminal).reflow := rfl

/-- a resize clamps the active context into the new screen and leaves the other one alone -/
theorem resize_ok {t t' : Terminal} {cols rows : Nat} (h : t.resize cols rows = some t') :
    t'.savedCtx = clampCtx cols rows t.savedCtx ∧ t'.alternateSavedCtx = t.alternateSavedCtx := by
  rw [resize_eq] at h
  have e1 : CtxSame t (resizeTabs t cols) := by
    unfold resizeTabs
    split
    · exact ⟨rfl, rfl⟩
    · split <;> exact ⟨rfl, rfl⟩
  split at h
  · cases h
  · rename_i t2 ht2
    have e2 : CtxSame (resizeTabs t cols) t2 := by
      unfold resizeMargins at ht2
      split at ht2
      · exact map_ctx ht2 (fun _ => ⟨rfl, rfl⟩)
      · cases ht2; exact ⟨rfl, rfl⟩
    have e := e1.trans e2
    have F := reflow_facts h
    exact ⟨by rw [F.saved]; simp only [e.1], by rw [F.alt]; exact e.2⟩

end Avt.Spec.C17
