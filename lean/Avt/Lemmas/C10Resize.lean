/-
  Avt.Lemmas.C10Resize — `Buffer.resize` without a width change: what happens to the rows and to the
  cursor (`rowsOnlyOK`), and the shape of `Buffer.resize` in general (reflow, pad, cut or pad).
-/
import Avt.Lemmas.C10Reflow

namespace Avt.Lemmas
open Avt Avt.Spec.C10

/-! ### `unwrapLast` / `setLastUnwrapped` -/

theorem unwrapLast_append_singleton (xs : List Line) (l : Line) :
    unwrapLast (xs ++ [l]) = xs ++ [{ l with wrapped := false }] := by
  simp [unwrapLast]

theorem setLastUnwrapped_eq : ∀ {xs ys : List Line},
    Buffer.setLastUnwrapped xs = some ys → ys = unwrapLast xs ∧ xs ≠ []
  | [], _, h => by simp [Buffer.setLastUnwrapped] at h
  | [l], ys, h => by
    simp only [Buffer.setLastUnwrapped, Option.some.injEq] at h
    subst h; simp [unwrapLast]
  | l :: l2 :: t, ys, h => by
    simp only [Buffer.setLastUnwrapped, Option.map_eq_some_iff] at h
    obtain ⟨t', ht', rfl⟩ := h
    obtain ⟨rfl, -⟩ := setLastUnwrapped_eq ht'
    refine ⟨?_, by simp⟩
    simp only [unwrapLast, List.getLast?_cons_cons]
    cases hg : (l2 :: t).getLast? with
    | none => simp at hg
    | some z => simp

theorem unwrapLast_length (xs : List Line) : (unwrapLast xs).length = xs.length := by
  by_cases h : xs = []
  · subst h; rfl
  · obtain ⟨ini, l, rfl⟩ := exists_snoc h
    rw [unwrapLast_append_singleton]; simp

theorem unwrapLast_take {xs : List Line} {n : Nat} (h : n < xs.length) :
    (unwrapLast xs).take n = xs.take n := by
  by_cases hx : xs = []
  · subst hx; rfl
  · obtain ⟨ini, l, rfl⟩ := exists_snoc hx
    rw [unwrapLast_append_singleton]
    simp only [List.length_append, List.length_cons, List.length_nil] at h
    rw [List.take_append_of_le_length (by omega), List.take_append_of_le_length (by omega)]

theorem lastUnwrapped_unwrapLast (xs : List Line) : lastUnwrapped (unwrapLast xs) = true := by
  by_cases hx : xs = []
  · subst hx; rfl
  · obtain ⟨ini, l, rfl⟩ := exists_snoc hx
    rw [unwrapLast_append_singleton, lastUnwrapped_snoc]; rfl

/-! ### height-only resize -/

/-- C10 building block: with the width unchanged `Buffer.resize` only drops rows below the cursor
    (clearing the wrap mark of the new last row) or appends blank rows; the cursor keeps its column
    and its absolute row.  No reflow is involved. -/
theorem resize_rows_only {b b' : Buffer} {r' : Nat} {cur cur' : Nat × Nat}
    (hview : b.view.length = b.rows) (hcur : cur.2 < b.rows)
    (h : b.resize b.cols r' cur = some (b', cur')) :
    rowsOnlyOK b b' cur cur' = true ∧ b'.cols = b.cols ∧ b'.rows = r' := by
  have hlen : b.lines.length = b.sb.length + b.rows := by simp [Buffer.lines, hview]
  unfold Buffer.resize at h
  cases hlp : Buffer.logicalPosition b.lines cur b.cols b.rows with
  | none => simp [hlp] at h
  | some lp =>
    simp only [hlp, ne_eq, not_true_eq_false, if_false] at h
    by_cases hlt : r' < b.rows
    · -- shrinking
      simp only [hlt, if_true] at h
      cases h1 : csub b.rows 1 with
      | none => simp [h1] at h
      | some o1 =>
        simp only [h1] at h
        cases h2 : csub o1 cur.2 with
        | none => simp [h2] at h
        | some inv =>
          simp only [h2] at h
          have ho1 : o1 = b.rows - 1 := by
            unfold csub at h1; split at h1 <;> simp at h1; omega
          have hinv : inv = b.rows - 1 - cur.2 := by
            unfold csub at h2; split at h2 <;> simp at h2; omega
          subst ho1; subst hinv
          by_cases hex : min (b.rows - r') (b.rows - 1 - cur.2) > 0
          · simp only [hex, if_true] at h
            cases h3 : csub b.lines.length (min (b.rows - r') (b.rows - 1 - cur.2)) with
            | none => simp [h3] at h
            | some k =>
              simp only [h3] at h
              have hk : k = b.lines.length - min (b.rows - r') (b.rows - 1 - cur.2) := by
                unfold csub at h3; split at h3 <;> simp at h3; omega
              cases h4 : Buffer.setLastUnwrapped (b.lines.take k) with
              | none => simp [h4] at h
              | some ls =>
                obtain ⟨hls, hne⟩ := setLastUnwrapped_eq h4
                cases h5 : csub cur.2 (b.rows - r' - min (b.rows - r') (b.rows - 1 - cur.2)) with
                | none => simp [h4, h5] at h
                | some row =>
                  simp only [h4, h5] at h
                  cases h6 : csub ls.length r' with
                  | none => simp [h6] at h
                  | some k' =>
                    simp only [h6, Option.some.injEq, Prod.mk.injEq] at h
                    obtain ⟨rfl, rfl⟩ := h
                    have hrow : row = cur.2 - (b.rows - r' - min (b.rows - r') (b.rows - 1 - cur.2))
                        ∧ (b.rows - r' - min (b.rows - r') (b.rows - 1 - cur.2)) ≤ cur.2 := by
                      unfold csub at h5; split at h5 <;> simp at h5; omega
                    have hk' : k' = ls.length - r' ∧ r' ≤ ls.length := by
                      unfold csub at h6; split at h6 <;> simp at h6; omega
                    have hlsl : ls.length = k := by
                      rw [hls, unwrapLast_length, List.length_take]; omega
                    refine ⟨?_, rfl, rfl⟩
                    simp only [rowsOnlyOK, Buffer.lines, List.take_append_drop, Bool.and_eq_true,
                      beq_iff_eq, List.length_take]
                    refine ⟨⟨?_, by simp⟩, ?_⟩
                    · simp only [rowsOnlyLines, hlt, if_true]
                      have : ¬ (min (b.rows - r') (b.rows - 1 - cur.2) = 0) := by omega
                      simp only [this, if_false]
                      rw [hls, hk]; rfl
                    · omega
          · simp only [hex, if_false] at h
            cases h5 : csub cur.2 (b.rows - r' - min (b.rows - r') (b.rows - 1 - cur.2)) with
            | none => simp [h5] at h
            | some row =>
              simp only [h5] at h
              cases h6 : csub b.lines.length r' with
              | none => simp [h6] at h
              | some k' =>
                simp only [h6, Option.some.injEq, Prod.mk.injEq] at h
                obtain ⟨rfl, rfl⟩ := h
                have hrow : row = cur.2 - (b.rows - r' - min (b.rows - r') (b.rows - 1 - cur.2))
                    ∧ (b.rows - r' - min (b.rows - r') (b.rows - 1 - cur.2)) ≤ cur.2 := by
                  unfold csub at h5; split at h5 <;> simp at h5; omega
                have hk' : k' = b.lines.length - r' ∧ r' ≤ b.lines.length := by
                  unfold csub at h6; split at h6 <;> simp at h6; omega
                refine ⟨?_, rfl, rfl⟩
                simp only [rowsOnlyOK, Buffer.lines, List.take_append_drop, Bool.and_eq_true,
                  beq_iff_eq, List.length_take]
                refine ⟨⟨?_, by simp⟩, ?_⟩
                · simp only [rowsOnlyLines, hlt, if_true]
                  have : min (b.rows - r') (b.rows - 1 - cur.2) = 0 := by omega
                  simp only [this, if_true]
                · simp only [Buffer.lines] at hk' hlen; omega
    · simp only [hlt, if_false] at h
      by_cases hgt : r' > b.rows
      · -- growing
        simp only [hgt, if_true, hcur] at h
        generalize hnl : (if r' - b.rows - min (b.lines.length - min b.rows b.lines.length) (r' - b.rows) > 0 then
            b.lines ++ List.replicate (r' - b.rows - min (b.lines.length - min b.rows b.lines.length) (r' - b.rows))
              (Line.blank b.cols Pen.default) else b.lines) = nl at h
        have hnl' : nl = b.lines ++ List.replicate ((r' - b.rows) - min (b.lines.length - b.rows) (r' - b.rows))
            (Line.blank b.cols Pen.default) := by
          have hm : min b.rows b.lines.length = b.rows := by omega
          rw [hm] at hnl
          split at hnl
          · exact hnl.symm
          · rw [← hnl]
            have : r' - b.rows - min (b.lines.length - b.rows) (r' - b.rows) = 0 := by omega
            rw [this]; simp
        cases h6 : csub nl.length r' with
        | none => simp [h6] at h
        | some k' =>
          simp only [h6, Option.some.injEq, Prod.mk.injEq] at h
          obtain ⟨rfl, rfl⟩ := h
          have hk' : k' = nl.length - r' ∧ r' ≤ nl.length := by
            unfold csub at h6; split at h6 <;> simp at h6; omega
          refine ⟨?_, rfl, rfl⟩
          simp only [rowsOnlyOK, Buffer.lines, List.take_append_drop, Bool.and_eq_true,
            beq_iff_eq, List.length_take]
          refine ⟨⟨?_, by simp⟩, ?_⟩
          · simp only [rowsOnlyLines, hlt, if_false]
            rw [hnl']; rfl
          · have : nl.length = b.lines.length + ((r' - b.rows) - min (b.lines.length - b.rows) (r' - b.rows)) := by
              rw [hnl']; simp
            have hm : min b.rows b.lines.length = b.rows := by omega
            simp only [Buffer.lines] at this hk' hlen hm ⊢
            rw [hm]
            omega
      · -- same height
        simp only [hgt, if_false] at h
        cases h6 : csub b.lines.length r' with
        | none => simp [h6] at h
        | some k' =>
          simp only [h6, Option.some.injEq, Prod.mk.injEq] at h
          obtain ⟨rfl, rfl⟩ := h
          have hk' : k' = b.lines.length - r' ∧ r' ≤ b.lines.length := by
            unfold csub at h6; split at h6 <;> simp at h6; omega
          have hr : r' = b.rows := by omega
          refine ⟨?_, rfl, rfl⟩
          simp only [rowsOnlyOK, Buffer.lines, List.take_append_drop, Bool.and_eq_true,
            beq_iff_eq, List.length_take]
          refine ⟨⟨?_, by simp⟩, ?_⟩
          · simp [rowsOnlyLines, hr]
          · simp only [Buffer.lines] at hk' hlen; omega

end Avt.Lemmas
