/-
  Avt.Lemmas.C09Print — one printable character on a typewriter-mode terminal.
-/
import Avt.Lemmas.C09Typewriter

namespace Avt.Lemmas
open Avt Avt.Spec.C09

/-- the terminal after printing `ch` when no wrap is pending: the cell under the cursor is replaced,
    the cursor advances (and parks in the wrap-pending column when it was in the last column) -/
def printedNoWrap (t : Terminal) (lr : Line) (ch : Nat) : Terminal :=
  { t with
    buffer := { t.buffer with
      view := t.buffer.view.set t.cursor.row { lr with cells := lr.cells.set t.cursor.col ⟨ch, t.pen⟩ } },
    cursor := { t.cursor with col := t.cursor.col + 1 },
    pendingWrap := decide (t.cursor.col + 1 ≥ t.cols),
    dirtyLines := t.dirtyLines.set t.cursor.row true }

theorem print_no_pending {t : Terminal} (hm : TWMode t) (hg : TWGeom t)
    (hp : t.pendingWrap = false) (ch : Nat) {lr : Line}
    (hrow : t.buffer.view[t.cursor.row]? = some lr) (hlen : lr.cells.length = t.cols) :
    t.print ch = some (printedNoWrap t lr ch) := by
  have hcol : t.cursor.col < t.cols := by
    rcases hg.pending with ⟨h1, _⟩ | ⟨_, h2⟩
    · rw [hp] at h1; cases h1
    · exact h2
  have hdirty : t.cursor.row < t.dirtyLines.length := by rw [hg.dirty_len]; exact hg.row_lt
  unfold Terminal.print
  simp only [Terminal.activeCharsetValue, hm.charset.1, hm.charset.2, Charset.translate, hp,
    Bool.and_false, Bool.false_eq_true, if_false]
  by_cases hc : t.cursor.col + 1 ≥ t.cols
  · have hc1 : t.cols - 1 = t.cursor.col := by omega
    have hcs : csub t.cols 1 = some (t.cols - 1) := by unfold csub; simp; have := hg.cols_pos; omega
    simp only [hc, if_true, hcs, Buffer.print, Buffer.updRow, modAtM, hrow, Line.print, setAt, hc1,
      hlen, hcol, Option.map_some, hm.autoWrap, Terminal.doMoveCursorToCol, Terminal.markDirty,
      Dirty.add, hdirty]
    simp [printedNoWrap, hc]
    exact ⟨by omega, hm.charset.1.symm, hm.autoWrap⟩
  · simp only [hc, if_false, hm.replace, Bool.false_eq_true, Buffer.print, Buffer.updRow, modAtM,
      hrow, Line.print, setAt, hlen, hcol, if_true, Option.map_some, Terminal.doMoveCursorToCol,
      Terminal.markDirty, Dirty.add, hdirty]
    simp [printedNoWrap, hc]
    exact ⟨hm.charset.1.symm, hm.replace⟩

end Avt.Lemmas

namespace Avt.Lemmas
open Avt Avt.Spec.C09

/-- typing one character extends the last logical line -/
def typeChar (logical : List (List Nat)) (ch : Nat) : List (List Nat) :=
  logical.dropLast ++ [logical.getLast?.getD [] ++ [ch]]

/-- CR LF starts a new logical line -/
def typeNewline (logical : List (List Nat)) : List (List Nat) := logical ++ [[]]

theorem typeChar_snoc (done : List (List Nat)) (cur : List Nat) (ch : Nat) :
    typeChar (done ++ [cur]) ch = done ++ [cur ++ [ch]] := by
  simp [typeChar]

theorem rowsText_append (a b : List Line) : rowsText (a ++ b) = rowsText a ++ rowsText b := by
  simp [rowsText]

theorem rowsText_singleton (l : Line) : rowsText [l] = l.text := by simp [rowsText]

theorem rowsText_length (rows : List Line) (c : Nat) (h : ∀ l ∈ rows, l.len = c) :
    (rowsText rows).length = rows.length * c := by
  induction rows with
  | nil => simp [rowsText]
  | cons l t ih =>
    have hl : l.text.length = c := by simpa [Line.text, Line.len] using h l (by simp)
    have := ih (fun x hx => h x (by simp [hx]))
    simp only [rowsText, List.map_cons, List.flatten_cons, List.length_append, List.length_cons] at this ⊢
    rw [this, hl, Nat.add_mul]; omega

theorem set_mid {α} (A B : List α) (x y : α) : (A ++ [x] ++ B).set A.length y = A ++ [y] ++ B := by
  rw [List.append_assoc, List.set_append_right _ _ (Nat.le_refl _)]
  simp

theorem getElem?_mid {α} (A B : List α) (x : α) : (A ++ [x] ++ B)[A.length]? = some x := by
  rw [List.append_assoc, List.getElem?_append_right (Nat.le_refl _)]
  simp

/-- **C09, print step without wrap**: on a typewriter-mode terminal with no wrap pending, printing a
    character keeps the typewriter invariant for the text extended by that character — the cursor
    advances, or parks in the wrap-pending column exactly when the line length reaches a multiple of
    the width -/
theorem TW_print_no_pending {t : Terminal} {logical : List (List Nat)} (hm : TWMode t) (hg : TWGeom t)
    (h : TW t logical) (hp : t.pendingWrap = false) (ch : Nat) :
    ∃ t', t.print ch = some t' ∧ TWMode t' ∧ TWGeom t' ∧ TW t' (typeChar logical ch) := by
  obtain ⟨done, cur, closedRows, ws, lr, belowRows, pad, rfl, hlines, hlu, htext, hpx, hws, hlr, hlens, hrt,
    hcur, hrow, hbelow⟩ := h
  have hcol : t.cursor.col < t.cols := by
    rcases hg.pending with ⟨h1, _⟩ | ⟨_, h2⟩
    · rw [hp] at h1; cases h1
    · exact h2
  -- the cursor row is `lr`
  have hlines' : t.buffer.sb ++ t.buffer.view = (closedRows ++ ws) ++ [lr] ++ belowRows := by
    have := hlines; simp only [Buffer.lines] at this; rw [this]; simp
  have hn : t.buffer.sb.length + t.cursor.row = (closedRows ++ ws).length := by simp [hrow]
  have hview : t.buffer.view[t.cursor.row]? = some lr := by
    have := getElem?_mid (closedRows ++ ws) belowRows lr
    rw [← hlines', ← hn, List.getElem?_append_right (Nat.le_add_right _ _)] at this
    simpa using this
  have hlrlen : lr.cells.length = t.cols := hlens lr (by simp)
  refine ⟨_, print_no_pending hm hg hp ch hview hlrlen, ?_, ?_, ?_⟩
  · exact ⟨hm.top, hm.bottom, hm.autoWrap, hm.replace, hm.charset, hm.primary, hm.unlimited⟩
  · refine ⟨hg.cols_pos, hg.rows_pos, hg.bcols, hg.brows, ?_, hg.row_lt, ?_, ?_⟩
    · simp [printedNoWrap, hg.view_len]
    · simp only [printedNoWrap, decide_eq_true_eq, decide_eq_false_iff_not]
      by_cases hc : t.cursor.col + 1 ≥ t.cols
      · left; exact ⟨hc, by omega⟩
      · right; exact ⟨hc, by omega⟩
    · simp [printedNoWrap, hg.dirty_len]
  · -- the invariant for `done ++ [cur ++ [ch]]`
    let lr' : Line := { lr with cells := lr.cells.set t.cursor.col ⟨ch, t.pen⟩ }
    have hlines2 : (printedNoWrap t lr ch).buffer.lines = closedRows ++ (ws ++ [lr']) ++ belowRows := by
      simp only [printedNoWrap, Buffer.lines]
      have : t.buffer.sb ++ t.buffer.view.set t.cursor.row lr'
          = (t.buffer.sb ++ t.buffer.view).set (t.buffer.sb.length + t.cursor.row) lr' := by
        rw [List.set_append_right _ _ (Nat.le_add_right _ _)]; simp
      rw [this, hlines', hn, set_mid]; simp
    -- padding is not exhausted
    have hlenAll : (rowsText (ws ++ [lr])).length = (ws.length + 1) * t.cols := by
      have := rowsText_length (ws ++ [lr]) t.cols (fun l hl => hlens l (by
        simp only [List.mem_append] at hl ⊢; exact Or.inl (Or.inr hl)))
      simpa using this
    have hpad : pad = t.cols - t.cursor.col := by
      rw [hrt] at hlenAll
      simp only [List.length_append, List.length_replicate, Nat.add_mul, Nat.one_mul] at hlenAll
      omega
    have hwsLen : (rowsText ws).length = ws.length * t.cols :=
      rowsText_length ws t.cols (fun l hl => hlens l (by simp [hl]))
    have hrt' : rowsText (ws ++ [lr']) = (cur ++ [ch]) ++ List.replicate (pad - 1) 0x20 := by
      have h1 : rowsText (ws ++ [lr']) = (rowsText (ws ++ [lr])).set (ws.length * t.cols + t.cursor.col) ch := by
        rw [rowsText_append, rowsText_append, rowsText_singleton, rowsText_singleton,
          ← hwsLen, List.set_append_right _ _ (Nat.le_add_right _ _)]
        simp [lr', Line.text]
      rw [h1, hrt, ← hcur, List.set_append_right _ _ (Nat.le_refl _)]
      have : pad = (pad - 1) + 1 := by omega
      rw [Nat.sub_self, this, List.replicate_succ]
      simp
    refine ⟨done, cur ++ [ch], closedRows, ws, lr', belowRows, pad - 1, typeChar_snoc _ _ _, hlines2,
      hlu, htext, hpx, hws, hlr, ?_, hrt', ?_, ?_, hbelow⟩
    · intro l hl
      show l.len = t.cols
      simp only [List.mem_append, List.mem_singleton] at hl
      rcases hl with (hl | hl | hl) | hl
      · exact hlens l (by simp [hl])
      · exact hlens l (by simp [hl])
      · subst hl; simpa [lr', Line.len] using hlrlen
      · exact hlens l (by simp [hl])
    · simp only [printedNoWrap, List.length_append, List.length_cons, List.length_nil]; omega
    · simpa [printedNoWrap] using hrow

end Avt.Lemmas
