/-
  Avt.Lemmas.FrameVt — the frame lemma lifted to `Vt`: one character, a string (`feedAll`), the tail of
  `feed_str` (`finish` = `changes()` + `gc()`), and the connection with the decidable predicates of
  Spec/C12 and Spec/C14.
-/
import Avt.Lemmas.FrameExec
import Avt.Spec.C12
import Avt.Spec.C14

namespace Avt.Frame
open Avt

/-- functions the parser emits for `input` from parser state `p` (what the driver calls `emitted`) -/
def emitted : Parser → List Nat → List Function
  | _, [] => []
  | p, c :: cs =>
    match p.feed c with
    | none => []
    | some (p', none) => emitted p' cs
    | some (p', some f) => f :: emitted p' cs

/-- same parser, related terminals -/
structure VRel (P : Par) (u v : Vt) : Prop where
  parser : u.parser = v.parser
  term : Rel P u.terminal v.terminal

/-- how the parameters may move along a run: strictness, limit and geometry flag stay; the extra
    scrollback of the primary buffer stays unless RIS was executed, which empties it -/
structure Step (P P' : Par) (noRis : Prop) : Prop where
  g : P'.g = true
  s : P'.s = P.s
  L : P'.L = P.L
  keep : noRis → P'.prim = P.prim
  reset : P'.prim = P.prim ∨ P'.prim = []

theorem Step.refl {P : Par} (hg : P.g = true) (n : Prop) : Step P P n :=
  ⟨hg, rfl, rfl, fun _ => rfl, Or.inl rfl⟩

theorem Step.trans {P P' P'' : Par} {n n' : Prop} (h1 : Step P P' n) (h2 : Step P' P'' n') :
    Step P P'' (n ∧ n') :=
  ⟨h2.g, h2.s.trans h1.s, h2.L.trans h1.L, fun h => (h2.keep h.2).trans (h1.keep h.1), by
    rcases h2.reset with h | h
    · rcases h1.reset with h' | h'
      · exact Or.inl (h.trans h')
      · exact Or.inr (h.trans h')
    · exact Or.inr h⟩

theorem Step.mono {P P' : Par} {n n' : Prop} (h : Step P P' n) (hn : n' → n) : Step P P' n' :=
  ⟨h.g, h.s, h.L, fun x => h.keep (hn x), h.reset⟩

def VRelX (P : Par) (noRis : Prop) : Option Vt → Option Vt → Prop
  | some u', some v' => ∃ P', VRel P' u' v' ∧ Step P P' noRis
  | none, none => True
  | _, _ => False

theorem VRelX.mono {P n n'} {ou ov : Option Vt} (h : VRelX P n ou ov) (hn : n' → n) : VRelX P n' ou ov := by
  cases ou <;> cases ov <;> simp_all [VRelX]
  obtain ⟨P', R, st⟩ := h
  exact ⟨P', R, st.mono hn⟩

/-! ### the parser is threaded through unchanged -/

theorem emitted_cons (p : Parser) (c : Nat) (cs : List Nat) :
    emitted p (c :: cs) = emitted p [c] ++
      (match p.feed c with | some (p', _) => emitted p' cs | none => []) := by
  simp only [emitted]
  cases p.feed c with
  | none => rfl
  | some r =>
    obtain ⟨p', of⟩ := r
    cases of <;> simp [emitted]

theorem feed_parser {v v' : Vt} {c : Nat} (h : v.feed c = some v') :
    ∃ o, v.parser.feed c = some (v'.parser, o) := by
  unfold Vt.feed at h
  cases hp : v.parser.feed c with
  | none => simp [hp] at h
  | some r =>
    obtain ⟨p, of⟩ := r
    cases of with
    | none => simp [hp] at h; subst h; exact ⟨none, rfl⟩
    | some f =>
      simp only [hp] at h
      cases he : v.terminal.execute f with
      | none => simp [he] at h
      | some t => simp [he] at h; subst h; exact ⟨some f, rfl⟩

theorem emitted_feed {v v' : Vt} {c : Nat} (h : v.feed c = some v') (cs : List Nat) :
    emitted v.parser (c :: cs) = emitted v.parser [c] ++ emitted v'.parser cs := by
  obtain ⟨o, ho⟩ := feed_parser h
  rw [emitted_cons, ho]

theorem emitted_feedAll {v v' : Vt} {xs : List Nat} (h : v.feedAll xs = some v') (ys : List Nat) :
    emitted v.parser (xs ++ ys) = emitted v.parser xs ++ emitted v'.parser ys := by
  induction xs generalizing v with
  | nil => simp [Vt.feedAll] at h; subst h; simp [emitted]
  | cons c cs ih =>
    simp only [Vt.feedAll] at h
    cases hf : v.feed c with
    | none => simp [hf] at h
    | some v1 =>
      simp only [hf] at h
      rw [List.cons_append, emitted_feed hf (cs ++ ys), ih h, emitted_feed hf cs, List.append_assoc]

theorem feedAll_append (v : Vt) (xs ys : List Nat) :
    v.feedAll (xs ++ ys) = match v.feedAll xs with | some v' => v'.feedAll ys | none => none := by
  induction xs generalizing v with
  | nil => simp [Vt.feedAll]
  | cons c cs ih =>
    simp only [List.cons_append, Vt.feedAll]
    cases v.feed c with
    | none => rfl
    | some v1 => exact ih v1

/-! ### one character, a string -/

theorem feed_rel {P : Par} {u v : Vt} (R : VRel P u v) (hg : P.g = true) (c : Nat)
    (hs : P.s = true ∨ Function.ris ∉ emitted v.parser [c]) :
    VRelX P (Function.ris ∉ emitted v.parser [c]) (u.feed c) (v.feed c) := by
  unfold Vt.feed
  rw [R.parser]
  cases hp : v.parser.feed c with
  | none => trivial
  | some r =>
    obtain ⟨p, of⟩ := r
    cases of with
    | none => exact ⟨P, ⟨rfl, R.term⟩, Step.refl hg _⟩
    | some f =>
      simp only []
      have hem : emitted v.parser [c] = [f] := by simp [emitted, hp]
      have hs' : P.s = true ∨ f ≠ .ris := hs.imp id (fun h hf => h (by rw [hem, hf]; simp))
      cases hu : u.terminal.execute f with
      | none =>
        cases hv : v.terminal.execute f with
        | none => trivial
        | some v' =>
          obtain ⟨a', _, ha, _⟩ := frame_execute_rev hg R.term hs' hv
          rw [hu] at ha; cases ha
      | some u' =>
        obtain ⟨b', P', hb, R', h1, h2, h3, h4, h5⟩ := frame_execute hg R.term hs' rfl hu
        rw [hb]
        refine ⟨P', ⟨rfl, R'⟩, ⟨h1, h2, h3, fun hn => h4 ?_, ?_⟩⟩
        · intro hf; apply hn; rw [hem, hf]; simp
        · by_cases hf : f = .ris
          · exact Or.inr (h5 hf)
          · exact Or.inl (h4 hf)

theorem feedAll_rel {P : Par} {u v : Vt} (R : VRel P u v) (hg : P.g = true) (xs : List Nat)
    (hs : P.s = true ∨ Function.ris ∉ emitted v.parser xs) :
    VRelX P (Function.ris ∉ emitted v.parser xs) (u.feedAll xs) (v.feedAll xs) := by
  induction xs generalizing P u v with
  | nil => exact ⟨P, R, Step.refl hg _⟩
  | cons c cs ih =>
    simp only [Vt.feedAll]
    have hsub : Function.ris ∉ emitted v.parser (c :: cs) → Function.ris ∉ emitted v.parser [c] := by
      intro h h'; apply h; rw [emitted_cons]; exact List.mem_append_left _ h'
    have h1 := feed_rel R hg c (hs.imp id hsub)
    cases hu : u.feed c with
    | none =>
      cases hv : v.feed c with
      | none => trivial
      | some v1 => rw [hu, hv] at h1; exact False.elim h1
    | some u1 =>
      cases hv : v.feed c with
      | none => rw [hu, hv] at h1; exact False.elim h1
      | some v1 =>
        rw [hu, hv] at h1
        obtain ⟨P1, R1, st1⟩ := h1
        simp only []
        have hem := emitted_feed hv cs
        have hs2 : P1.s = true ∨ Function.ris ∉ emitted v1.parser cs := by
          rcases hs with h | h
          · exact Or.inl (st1.s.trans h)
          · exact Or.inr (fun h' => h (by rw [hem]; exact List.mem_append_right _ h'))
        have h2 := ih R1 st1.g hs2
        cases hu2 : u1.feedAll cs with
        | none =>
          cases hv2 : v1.feedAll cs with
          | none => trivial
          | some v2 => rw [hu2, hv2] at h2; exact False.elim h2
        | some u2 =>
          cases hv2 : v1.feedAll cs with
          | none => rw [hu2, hv2] at h2; exact False.elim h2
          | some v2 =>
            rw [hu2, hv2] at h2
            obtain ⟨P2, R2, st2⟩ := h2
            refine ⟨P2, R2, (st1.trans st2).mono ?_⟩
            intro h
            rw [hem] at h
            exact ⟨fun h' => h (List.mem_append_left _ h'), fun h' => h (List.mem_append_right _ h')⟩

/-! ### the tail of `feed_str`: `changes()` then `gc()` -/

theorem finish_fst (v : Vt) :
    (v.finish).1 = { v with terminal :=
      { v.terminal with dirtyLines := Dirty.clear v.terminal.dirtyLines,
                        buffer := (v.terminal.buffer.gc).1 } } := rfl

theorem finish_scrollback (v : Vt) :
    (v.finish).2.scrollback =
      if v.terminal.activeBufferType = .alternate then [] else (v.terminal.buffer.gc).2 := rfl

/-- `finish` on the smaller side: the extra scrollback of the primary buffer grows by exactly what is
    handed out; nothing is handed out on the alternate screen -/
theorem finish_rel {P : Par} {u v : Vt} (R : VRel P u v) :
    ∃ P', VRel P' u (v.finish).1 ∧ P'.g = P.g ∧ P'.s = P.s ∧ P'.L = P.L ∧ P'.T = P.T
      ∧ P'.prim = P.prim ++ (v.finish).2.scrollback := by
  refine ⟨{ P with pa := P.pa ++ (v.terminal.buffer.gc).2 }, ⟨R.parser, ?_⟩, rfl, rfl, rfl, rfl, ?_⟩
  · rw [finish_fst]
    exact { R.term with
      buf := gc_rel_right R.term.buf
      dirty := by simp [Dirty.clear, R.term.dirty] }
  · rw [finish_scrollback]
    have hT : v.terminal.activeBufferType = P.T := R.term.activeBufferType.symm.trans R.term.abt
    rw [hT]
    unfold Par.prim
    cases P.T <;> simp

/-- strict, unlimited: `finish` hands out nothing -/
theorem finish_unlimited {P : Par} {u v : Vt} (R : VRel P u v) (hs : P.s = true) (hL : P.L = none) :
    (v.finish).2.scrollback = [] := by
  rw [finish_scrollback]
  split
  · rfl
  · rename_i hT
    have hT' : P.T = .primary := by
      have : v.terminal.activeBufferType = P.T := R.term.activeBufferType.symm.trans R.term.abt
      cases h : P.T
      · rfl
      · rw [h] at this; exact absurd this hT
    have hl : v.terminal.buffer.limit = none := by
      rw [← R.term.buf.limit hs, R.term.limA]
      simp [Par.activeLimit, hT', hL]
    exact (gc_unlimited _ hl).1

/-! ### a state that satisfies the invariant is related to itself -/

theorem Rel.ofTInv {t : Terminal} (h : TInv t = true) :
    Rel ⟨true, true, t.scrollbackLimit, t.activeBufferType, [], []⟩ t t := by
  have hx : t.xtwinops = false := by
    simp only [TInv, Bool.and_eq_true, Bool.not_eq_true'] at h; exact h.2
  have hc : t.buffer.cols = t.cols := by
    simp only [TInv, Bool.and_eq_true, beq_iff_eq] at h; exact h.1.1.1.1.1.1.1.1.1.1.1.1.1.1.1.1
  have hr : t.buffer.rows = t.rows := by
    simp only [TInv, Bool.and_eq_true, beq_iff_eq] at h; exact h.1.1.1.1.1.1.1.1.1.1.1.1.1.1.1.2
  have hb : BInv t.buffer = true := by
    simp only [TInv, Bool.and_eq_true] at h; exact h.1.1.1.1.1.1.1.1.1.1.1.1.1.1.2
  have ho : BInv t.otherBuffer = true := by
    simp only [TInv, Bool.and_eq_true] at h; exact h.1.1.1.1.1.1.1.1.1.1.1.1.1.2
  have hv : t.buffer.view.length = t.buffer.rows := by
    simp only [BInv, Bool.and_eq_true, beq_iff_eq] at hb; exact hb.1.1.1.1.1.2
  have hov : t.otherBuffer.view.length = t.otherBuffer.rows := by
    simp only [BInv, Bool.and_eq_true, beq_iff_eq] at ho; exact ho.1.1.1.1.1.2
  have hlim : (match t.activeBufferType with
        | .primary => t.buffer.limit == t.scrollbackLimit.map Buffer.mkLimit
        | .alternate => t.buffer.limit == some (Buffer.mkLimit 0)
                        && t.otherBuffer.limit == t.scrollbackLimit.map Buffer.mkLimit) = true := by
    simp only [TInv, Bool.and_eq_true] at h; exact h.1.2
  exact
    { buf := BRel.refl _ _, other := BRel.refl _ _, dirty := rfl, abt := rfl, slA := rfl
      slB := fun _ => rfl, stale := fun _ => rfl, xtw := hx
      geoC := fun _ => hc, geoR := fun _ => hr, vlen := hv, ovlen := hov
      limA := by
        unfold Par.activeLimit
        cases hT : t.activeBufferType <;> simp only [hT] at hlim ⊢
        · simpa using hlim
        · simp only [Bool.and_eq_true, beq_iff_eq] at hlim; exact hlim.1
      limO := fun hT => by
        have hT : t.activeBufferType = .alternate := hT
        simp only [hT, Bool.and_eq_true, beq_iff_eq] at hlim; exact hlim.2
      cols := rfl, rows := rfl, activeBufferType := rfl, cursor := rfl, pen := rfl
      charsets := rfl, activeCharset := rfl, tabs := rfl
      insertMode := rfl, originMode := rfl, autoWrapMode := rfl
      newLineMode := rfl, cursorKeysMode := rfl, pendingWrap := rfl
      topMargin := rfl, bottomMargin := rfl, savedCtx := rfl
      alternateSavedCtx := rfl, xtwinops := rfl }

theorem VRel.ofInv {v : Vt} (h : Inv v = true) :
    VRel ⟨true, true, v.terminal.scrollbackLimit, v.terminal.activeBufferType, [], []⟩ v v := by
  simp only [Inv, Bool.and_eq_true] at h
  exact ⟨rfl, Rel.ofTInv h.2⟩

/-! ### from the relation to the decidable predicates of Spec/C12 -/

theorem isSuffix_append (c y : List Line) : Spec.C12.isSuffix y (c ++ y) = true := by
  simp [Spec.C12.isSuffix]

theorem sbCompatible_of {p q x y : List Line} (h : p ++ x = q ++ y) :
    Spec.C12.sbCompatible x y = true := by
  unfold Spec.C12.sbCompatible
  rcases List.append_eq_append_iff.mp h with ⟨c, _, hc⟩ | ⟨c, _, hc⟩
  · rw [hc]; simp [isSuffix_append]
  · rw [hc]; simp [isSuffix_append]

theorem bufEqv_of {p q : List Line} {w x y : Buffer} (h1 : BRel true p w x) (h2 : BRel true q w y) :
    Spec.C12.bufEqv x y = true := by
  unfold Spec.C12.bufEqv
  have hs : Spec.C12.sbCompatible x.sb y.sb = true :=
    sbCompatible_of (p := p) (q := q) (by rw [← h1.sb, ← h2.sb])
  simp [← h1.view, ← h2.view, ← h1.cols, ← h2.cols, ← h1.rows, ← h2.rows, ← h1.limit rfl, ← h2.limit rfl, hs]

/-- two strict relatives of the same terminal are `termEqv` -/
theorem termEqv_of {P Q : Par} {w x y : Terminal} (R1 : Rel P w x) (R2 : Rel Q w y)
    (h1 : P.s = true) (h2 : Q.s = true) : Spec.C12.termEqv x y = true := by
  have hb : Spec.C12.bufEqv x.buffer y.buffer = true :=
    bufEqv_of (h1 ▸ R1.buf) (h2 ▸ R2.buf)
  have ho : Spec.C12.bufEqv x.otherBuffer y.otherBuffer = true :=
    bufEqv_of (h1 ▸ R1.other) (h2 ▸ R2.other)
  have hsl : x.scrollbackLimit = y.scrollbackLimit := by
    rw [R1.slB h1, R2.slB h2, ← R1.slA, ← R2.slA]
  unfold Spec.C12.termEqv Spec.C12.scalarsEq
  simp [hb, ho, hsl, ← R1.cols, ← R2.cols, ← R1.rows, ← R2.rows, ← R1.activeBufferType,
    ← R2.activeBufferType, ← R1.cursor, ← R2.cursor, ← R1.pen, ← R2.pen, ← R1.charsets, ← R2.charsets,
    ← R1.activeCharset, ← R2.activeCharset, ← R1.tabs, ← R2.tabs, ← R1.insertMode, ← R2.insertMode,
    ← R1.originMode, ← R2.originMode, ← R1.autoWrapMode, ← R2.autoWrapMode, ← R1.newLineMode,
    ← R2.newLineMode, ← R1.cursorKeysMode, ← R2.cursorKeysMode, ← R1.pendingWrap, ← R2.pendingWrap,
    ← R1.topMargin, ← R2.topMargin, ← R1.bottomMargin, ← R2.bottomMargin, ← R1.savedCtx, ← R2.savedCtx,
    ← R1.alternateSavedCtx, ← R2.alternateSavedCtx, ← R1.xtwinops, ← R2.xtwinops, ← R1.dirty, ← R2.dirty]

theorem equivChunk_of {P Q : Par} {w x y : Vt} (R1 : VRel P w x) (R2 : VRel Q w y)
    (h1 : P.s = true) (h2 : Q.s = true) : Spec.C12.equivChunk x y = true := by
  unfold Spec.C12.equivChunk
  simp [← R1.parser, ← R2.parser, termEqv_of R1.term R2.term h1 h2]

/-- the primary scrollback agrees when neither side has dropped anything of it -/
theorem primarySb_of {P Q : Par} {w x y : Terminal} (R1 : Rel P w x) (R2 : Rel Q w y)
    (h1 : P.prim = []) (h2 : Q.prim = []) : x.primaryBuffer.sb = y.primaryBuffer.sb := by
  have hT : P.T = Q.T := R1.abt.symm.trans R2.abt
  unfold Terminal.primaryBuffer
  rw [← R1.activeBufferType, ← R2.activeBufferType]
  unfold Par.prim at h1 h2
  rw [← hT] at h2
  have ha := R1.abt
  cases hP : P.T <;> rw [hP] at h1 h2 ha <;> simp only [] at h1 h2 <;> simp only [ha]
  · have e1 := R1.buf.sb; have e2 := R2.buf.sb
    rw [h1] at e1; rw [h2] at e2
    simpa using e1.symm.trans e2
  · have e1 := R1.other.sb; have e2 := R2.other.sb
    rw [h1] at e1; rw [h2] at e2
    simpa using e1.symm.trans e2

end Avt.Frame
