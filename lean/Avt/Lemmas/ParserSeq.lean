/-
  Avt.Lemmas.ParserSeq — the reference parser on whole sequences: control strings, CSI and ESC
  sequences, single controls; the text-level classifier of `Avt.Spec.C20` is sound for it.
-/
import Avt.Lemmas.ParserSem
import Avt.Spec.C20

namespace Avt.ParserSeq
open Avt Avt.Lookup Avt.Spec.C03 Avt.Spec.C20 Avt.ParserTable Avt.ParserSem

/-! ### generic facts about `refStep` / `refRun` -/

theorem refRun_append (a : AState) (s t : List Nat) :
    refRun a (s ++ t) = ((refRun (refRun a s).1 t).1, (refRun a s).2 ++ (refRun (refRun a s).1 t).2) := by
  induction s generalizing a with
  | nil => simp [refRun]
  | cons c cs ih =>
    simp only [List.cons_append, refRun, ih, List.append_assoc]

theorem refStep_state (a : AState) (c : Nat) : (refStep a c).1.state = (williams a.state c).2 := by
  unfold refStep
  generalize williams a.state c = w
  obtain ⟨k, s⟩ := w
  cases k <;> rfl

/-- kinds that emit nothing and do not leave their group of states by themselves -/
def silent : Kind → Bool
  | .ignore | .put | .oscPut | .collect | .param | .clear => true
  | _ => false

theorem refStep_silent (a : AState) (c : Nat) (h : silent (williams a.state c).1 = true) :
    (refStep a c).2 = none := by
  unfold refStep
  generalize williams a.state c = w at h
  obtain ⟨k, s⟩ := w
  cases k <;> first | rfl | cases h

theorem refStep_ignore {a : AState} {c : Nat} {s : PState} (h : williams a.state c = (.ignore, s)) :
    refStep a c = ({ a with state := s }, none) := by unfold refStep; rw [h]

theorem refStep_collect {a : AState} {c : Nat} {s : PState} (h : williams a.state c = (.collect, s)) :
    refStep a c = ({ a with state := s, interm := some c }, none) := by unfold refStep; rw [h]

theorem refStep_param {a : AState} {c : Nat} {s : PState} (h : williams a.state c = (.param, s)) :
    refStep a c = ({ a with state := s, ps := stepW a.ps c }, none) := by unfold refStep; rw [h]

theorem refStep_clear {a : AState} {c : Nat} {s : PState} (h : williams a.state c = (.clear, s)) :
    refStep a c = ({ state := s, interm := none, ps := [[0]] }, none) := by unfold refStep; rw [h]

theorem refStep_execute {a : AState} {c : Nat} {s : PState} (h : williams a.state c = (.execute, s)) :
    refStep a c = ({ a with state := s }, refExecute c) := by unfold refStep; rw [h]

theorem refStep_dispatchCsi {a : AState} {c : Nat} {s : PState} (h : williams a.state c = (.dispatchCsi, s)) :
    refStep a c = ({ a with state := s }, refDispatchCsi a.interm c a.ps) := by unfold refStep; rw [h]

theorem refStep_dispatchEsc {a : AState} {c : Nat} {s : PState} (h : williams a.state c = (.dispatchEsc, s)) :
    refStep a c = ({ a with state := s }, refDispatchEsc a.interm c) := by unfold refStep; rw [h]

/-- a bounded range is checked point by point -/
theorem forall_range {P : Nat → Prop} (lo n : Nat) (h : ∀ c ∈ List.range' lo n, P c) :
    ∀ c, lo ≤ c → c < lo + n → P c :=
  fun c h1 h2 => h c (List.mem_range'_1.2 ⟨h1, h2⟩)

/-- ESC from anywhere: into Escape with cleared registers -/
theorem williams_esc (st : PState) : williams st 0x1B = (.clear, .Escape) := by cases st <;> decide

/-- ST (8-bit) from anywhere: to Ground, nothing else -/
theorem williams_st (st : PState) : williams st 0x9C = (.ignore, .Ground) := by cases st <;> decide

theorem refStep_esc (a : AState) : refStep a 0x1B = ({ state := .Escape, interm := none, ps := [[0]] }, none) :=
  refStep_clear (williams_esc a.state)

theorem inR_iff (lo hi c : Nat) : inR lo hi c = true ↔ lo ≤ c ∧ c ≤ hi := by
  simp [inR]

/-! ### control strings -/

def strFact (k : StrKind) (st : PState) (c : Nat) : Bool :=
  !(strStates k).contains st || !payloadCharOK k c
    || (silent (williams st c).1 && (williams st c).1 != .clear && (strStates k).contains (williams st c).2)

def strExtra : List Nat := [0x20, 0x80, 0xA0, 0x110000, 0x00, 0x18, 0x19, 0x1A, 0x1C, 0x07, 0x08]

theorem stable_payloadCharOK (k : StrKind) {B : List Nat} (hB : ∀ b ∈ strExtra, b ∈ B) :
    Stable B (fun c => payloadCharOK k c) := by
  intro c d a
  have m : ∀ b, b ∈ strExtra → b ∈ B := hB
  have h1 := stable_inR (B := B) (lo := 0x20) (hi := 0x7F) (m _ (by decide)) (m _ (by decide)) c d a
  have h2 := stable_inR (B := B) (lo := 0xA0) (hi := 0x10FFFF) (m _ (by decide)) (m _ (by decide)) c d a
  have h3 := stable_inR (B := B) (lo := 0x00) (hi := 0x17) (m _ (by decide)) (m _ (by decide)) c d a
  have h4 := stable_inR (B := B) (lo := 0x19) (hi := 0x19) (m _ (by decide)) (m _ (by decide)) c d a
  have h5 := stable_inR (B := B) (lo := 0x1C) (hi := 0x1F) (m _ (by decide)) (m _ (by decide)) c d a
  have h6 := stable_inR (B := B) (lo := 0x07) (hi := 0x07) (m _ (by decide)) (m _ (by decide)) c d a
  simp only at h1 h2 h3 h4 h5 h6
  simp only [payloadCharOK, h1, h2, h3, h4, h5, h6]

/-- the string states are closed under every payload character and emit nothing on it -/
theorem strFact_all (k : StrKind) (st : PState) (c : Nat) : strFact k st c = true := by
  revert c
  apply williams_forall st strExtra
  · intro c d a
    have hw := stable_williams' st c d (a.mono (by intro b hb; simp [hb]))
    have hp := stable_payloadCharOK k (B := strExtra ++ wbounds st) (by intro b hb; simp [hb]) c d a
    simp only at hw hp
    simp only [strFact, hw, hp]
  · cases k <;> cases st <;> decide +kernel

theorem payloadChar_lt {k : StrKind} {c : Nat} (h : payloadCharOK k c = true) : c < 0x110000 := by
  simp only [payloadCharOK, Bool.and_eq_true, Bool.or_eq_true, inR_iff] at h
  omega

theorem str_payload (k : StrKind) (payload : List Nat) (a : AState)
    (ha : (strStates k).contains a.state = true) (hp : payloadOK k payload = true) :
    (refRun a payload).2 = [] ∧ (strStates k).contains (refRun a payload).1.state = true := by
  induction payload generalizing a with
  | nil => exact ⟨rfl, ha⟩
  | cons c cs ih =>
    simp only [payloadOK, List.all_cons, Bool.and_eq_true] at hp
    have hf := strFact_all k a.state c
    simp only [strFact, ha, hp.1, Bool.not_true, Bool.false_or, Bool.and_eq_true] at hf
    have hs := refStep_silent a c hf.1.1
    have hst := refStep_state a c
    have := ih (refStep a c).1 (by rw [hst]; exact hf.2) hp.2
    simp only [refRun, hs, Option.toList_none, List.nil_append]
    exact this

theorem williams_intro8 (k : StrKind) : silent (williams .Ground k.intro8).1 = true
    ∧ (strStates k).contains (williams .Ground k.intro8).2 = true := by cases k <;> decide

theorem str_intro (k : StrKind) (intro : List Nat) (hi : intro ∈ k.intros) (a : AState) (ha : a.state = .Ground) :
    (refRun a intro).2 = [] ∧ (strStates k).contains (refRun a intro).1.state = true := by
  obtain ⟨st, im, ps⟩ := a
  simp only at ha
  subst ha
  simp only [StrKind.intros, List.mem_cons, List.not_mem_nil, or_false] at hi
  rcases hi with rfl | rfl
  · simp only [refRun, refStep_esc]
    cases k <;> decide
  · simp only [refRun]
    have h1 := refStep_silent ⟨.Ground, im, ps⟩ k.intro8 (williams_intro8 k).1
    have h2 := refStep_state ⟨.Ground, im, ps⟩ k.intro8
    rw [h1, h2]
    exact ⟨rfl, (williams_intro8 k).2⟩

theorem str_term (k : StrKind) (term : List Nat) (ht : term ∈ k.terms) (a : AState)
    (ha : (strStates k).contains a.state = true) :
    (refRun a term).2 = [] ∧ (refRun a term).1.state = .Ground := by
  simp only [StrKind.terms, List.mem_append, List.mem_cons, List.not_mem_nil, or_false] at ht
  rcases ht with (rfl | rfl) | ht
  · simp only [refRun, refStep_esc]
    decide
  · simp [refRun, refStep_ignore (williams_st a.state)]
  · split at ht
    · rename_i hk
      subst hk
      simp only [List.mem_cons, List.not_mem_nil, or_false] at ht
      subst ht
      have hs : a.state = .OscString := by simpa [strStates] using ha
      have hw : williams a.state 0x07 = (.ignore, .Ground) := by rw [hs]; decide
      simp [refRun, refStep_ignore hw]
    · cases ht

/-- a complete control string, fed to the reference parser in Ground: nothing emitted, back in Ground -/
theorem str_inert (k : StrKind) (intro payload term : List Nat) (hi : intro ∈ k.intros)
    (hp : payloadOK k payload = true) (ht : term ∈ k.terms) (a : AState) (ha : a.state = .Ground) :
    (refRun a (intro ++ payload ++ term)).2 = [] ∧ (refRun a (intro ++ payload ++ term)).1.state = .Ground := by
  have h1 := str_intro k intro hi a ha
  have h2 := str_payload k payload _ h1.2 hp
  have h3 := str_term k term ht _ h2.2
  rw [refRun_append, refRun_append]
  simp only [h1.1, h2.1, h3.1, List.append_nil]
  exact ⟨trivial, h3.2⟩

/-! ### CSI sequences -/

def csiLive : List PState := [.CsiEntry, .CsiParam, .CsiIntermediate]

theorem csi_final_w : ∀ st ∈ csiLive, ∀ c, 0x40 ≤ c → c < 0x40 + 63 → williams st c = (.dispatchCsi, .Ground) := by
  intro st hst
  apply forall_range
  revert st
  decide

theorem csi_int_w : ∀ st ∈ csiLive, ∀ c, 0x20 ≤ c → c < 0x20 + 16 → williams st c = (.collect, .CsiIntermediate) := by
  intro st hst
  apply forall_range
  revert st
  decide

theorem csi_param_w : ∀ c, 0x30 ≤ c → c < 0x30 + 12 → williams .CsiParam c = (.param, .CsiParam) := by
  apply forall_range
  decide

theorem csi_entry_param_w : ∀ c, 0x30 ≤ c → c < 0x30 + 12 → c ≠ 0x3A → williams .CsiEntry c = (.param, .CsiParam) := by
  apply forall_range
  decide

theorem csi_marker_w : ∀ c, 0x3C ≤ c → c < 0x3C + 4 → williams .CsiEntry c = (.collect, .CsiParam) := by
  apply forall_range
  decide

/-- parameter characters in CsiParam: the written parameters follow `stepW` -/
theorem csi_params_run (params : List Nat) (a : AState) (ha : a.state = .CsiParam)
    (hp : params.all (inR 0x30 0x3B) = true) :
    refRun a params = ({ a with ps := params.foldl stepW a.ps }, []) := by
  induction params generalizing a with
  | nil => rfl
  | cons c cs ih =>
    simp only [List.all_cons, Bool.and_eq_true, inR_iff] at hp
    have hw : williams a.state c = (.param, .CsiParam) := by
      rw [ha]; exact csi_param_w c hp.1.1 (by omega)
    simp only [refRun, refStep_param hw, List.foldl_cons]
    rw [ih _ rfl hp.2]
    simp only [Option.toList_none, List.nil_append, ← ha]

/-- intermediates: only the last one is kept -/
theorem csi_ints_run (ints : List Nat) (a : AState) (ha : a.state ∈ csiLive)
    (hi : ints.all (inR 0x20 0x2F) = true) :
    (refRun a ints).2 = [] ∧ (refRun a ints).1.state ∈ csiLive ∧ (refRun a ints).1.ps = a.ps
      ∧ (refRun a ints).1.interm = (match ints.getLast? with | some i => some i | none => a.interm) := by
  induction ints generalizing a with
  | nil => exact ⟨rfl, ha, rfl, rfl⟩
  | cons c cs ih =>
    simp only [List.all_cons, Bool.and_eq_true, inR_iff] at hi
    have hw := csi_int_w a.state ha c hi.1.1 (by omega)
    simp only [refRun, refStep_collect hw, Option.toList_none, List.nil_append]
    have := ih { a with state := .CsiIntermediate, interm := some c } (by show PState.CsiIntermediate ∈ csiLive; decide) hi.2
    refine ⟨this.1, this.2.1, this.2.2.1, ?_⟩
    rw [this.2.2.2]
    cases cs with
    | nil => rfl
    | cons d ds =>
      rw [List.getLast?_cons_cons]
      cases h : (d :: ds).getLast? with
      | none => simp at h
      | some x => rfl

/-- **A well-formed CSI sequence** (after the introducer): the reference parser ends in Ground holding
    the last intermediate / marker and the parameters as written, and emits exactly the function
    the reference dispatch table selects for them (nothing if it selects none). -/
theorem csi_run (t : CsiText) (ht : t.wf = true) :
    refRun { state := .CsiEntry, interm := none, ps := [[0]] } t.body
      = ({ state := .Ground, interm := t.eff, ps := parseParams t.params }, t.fn.toList) := by
  obtain ⟨marker, params, ints, final⟩ := t
  simp only [CsiText.wf, Bool.and_eq_true, Bool.or_eq_true, bne_iff_ne, ne_eq] at ht
  obtain ⟨⟨⟨⟨hm, hp⟩, hcolon⟩, hi⟩, hf⟩ := ht
  rw [inR_iff] at hf
  -- marker and parameters
  have hAB : ∃ st, st ∈ csiLive ∧ refRun { state := .CsiEntry, interm := none, ps := [[0]] } (marker.toList ++ params)
      = ({ state := st, interm := marker, ps := parseParams params }, []) := by
    cases marker with
    | some m =>
      rw [inR_iff] at hm
      have hw := csi_marker_w m hm.1 (by omega)
      refine ⟨.CsiParam, by decide, ?_⟩
      simp only [Option.toList_some, List.cons_append, List.nil_append, refRun]
      rw [refStep_collect (a := { state := .CsiEntry, interm := none, ps := [[0]] }) hw]
      rw [csi_params_run params _ rfl hp]
      rfl
    | none =>
      cases params with
      | nil => exact ⟨.CsiEntry, by decide, rfl⟩
      | cons d ds =>
        simp only [List.all_cons, Bool.and_eq_true, inR_iff] at hp
        have hd : d ≠ 0x3A := by
          rcases hcolon with h | h
          · cases h
          · simpa using h
        have hw := csi_entry_param_w d hp.1.1 (by omega) hd
        refine ⟨.CsiParam, by decide, ?_⟩
        simp only [Option.toList_none, List.nil_append, refRun]
        rw [refStep_param (a := { state := .CsiEntry, interm := none, ps := [[0]] }) hw]
        rw [csi_params_run ds _ rfl hp.2]
        rfl
  obtain ⟨st, hst, hAB⟩ := hAB
  have hC := csi_ints_run ints { state := st, interm := marker, ps := parseParams params } hst hi
  have hw := csi_final_w _ hC.2.1 final hf.1 (by omega)
  unfold CsiText.body
  simp only
  rw [refRun_append, refRun_append, hAB]
  simp only [refRun, refStep_dispatchCsi hw, hC.1, hC.2.2.1, hC.2.2.2, List.nil_append, List.append_nil]
  rfl

/-! ### ESC sequences -/

theorem esc_int_w : ∀ st ∈ [PState.Escape, PState.EscapeIntermediate], ∀ c, 0x20 ≤ c → c < 0x20 + 16 →
    williams st c = (.collect, .EscapeIntermediate) := by
  intro st hst
  apply forall_range
  revert st
  decide

theorem escint_final_w : ∀ c, 0x30 ≤ c → c < 0x30 + 79 → williams .EscapeIntermediate c = (.dispatchEsc, .Ground) := by
  apply forall_range
  decide

theorem esc_final_w : ∀ c, 0x30 ≤ c → c < 0x30 + 79 → escIntroducers.contains c = false →
    williams .Escape c = (.dispatchEsc, .Ground) := by
  apply forall_range
  decide

theorem esc_ints_run (ints : List Nat) (a : AState) (ha : a.state ∈ [PState.Escape, PState.EscapeIntermediate])
    (hi : ints.all (inR 0x20 0x2F) = true) :
    (refRun a ints).2 = [] ∧ (refRun a ints).1.ps = a.ps
      ∧ (refRun a ints).1.state = (if ints.isEmpty then a.state else .EscapeIntermediate)
      ∧ (refRun a ints).1.interm = (match ints.getLast? with | some i => some i | none => a.interm) := by
  induction ints generalizing a with
  | nil => exact ⟨rfl, rfl, rfl, rfl⟩
  | cons c cs ih =>
    simp only [List.all_cons, Bool.and_eq_true, inR_iff] at hi
    have hw := esc_int_w a.state ha c hi.1.1 (by omega)
    simp only [refRun, refStep_collect hw, Option.toList_none, List.nil_append]
    have := ih { a with state := .EscapeIntermediate, interm := some c }
      (by show PState.EscapeIntermediate ∈ [PState.Escape, PState.EscapeIntermediate]; decide) hi.2
    refine ⟨this.1, this.2.1, ?_, ?_⟩
    · rw [this.2.2.1]; cases cs <;> rfl
    · rw [this.2.2.2]
      cases cs with
      | nil => rfl
      | cons d ds =>
        rw [List.getLast?_cons_cons]
        cases h : (d :: ds).getLast? with
        | none => simp at h
        | some x => rfl

/-- **A well-formed ESC sequence** (after ESC) -/
theorem esc_run (t : EscText) (ht : t.wf = true) :
    refRun { state := .Escape, interm := none, ps := [[0]] } t.body
      = ({ state := .Ground, interm := t.ints.getLast?, ps := [[0]] }, t.fn.toList) := by
  obtain ⟨ints, final⟩ := t
  simp only [EscText.wf, Bool.and_eq_true, Bool.or_eq_true, Bool.not_eq_true'] at ht
  obtain ⟨⟨hi, hf⟩, hintro⟩ := ht
  rw [inR_iff] at hf
  have hC := esc_ints_run ints { state := .Escape, interm := none, ps := [[0]] } (by decide) hi
  have hw : williams (refRun { state := .Escape, interm := none, ps := [[0]] } ints).1.state final
      = (.dispatchEsc, .Ground) := by
    rw [hC.2.2.1]
    cases ints with
    | nil =>
      have : escIntroducers.contains final = false := by
        rcases hintro with h | h
        · cases h
        · exact h
      exact esc_final_w final hf.1 (by omega) this
    | cons d ds => exact escint_final_w final hf.1 (by omega)
  unfold EscText.body EscText.fn
  simp only
  rw [refRun_append]
  simp only [refRun, refStep_dispatchEsc hw, hC.1, hC.2.1, hC.2.2.2, List.nil_append, List.append_nil]
  cases h : ints.getLast? <;> rfl

/-! ### single controls -/

theorem control_w : ∀ c ∈ List.range' 0 0x20 ++ List.range' 0x80 0x20, unassignedControl c = true →
    (williams .Ground c = (.ignore, .Ground) ∨ (williams .Ground c = (.execute, .Ground) ∧ refExecute c = none)) := by
  decide

theorem control_run (c : Nat) (hc : unassignedControl c = true) (a : AState) (ha : a.state = .Ground) :
    refStep a c = (a, none) := by
  have hm : c ∈ List.range' 0 0x20 ++ List.range' 0x80 0x20 := by
    simp only [unassignedControl, Bool.and_eq_true, Bool.or_eq_true, inR_iff] at hc
    rw [List.mem_append, List.mem_range'_1, List.mem_range'_1]
    omega
  obtain ⟨st, im, ps⟩ := a
  simp only at ha
  subst ha
  rcases control_w c hm hc with h | ⟨h, he⟩
  · rw [refStep_ignore (a := ⟨.Ground, im, ps⟩) h]
  · rw [refStep_execute (a := ⟨.Ground, im, ps⟩) h, he]

/-! ### the text classifier is sound -/

theorem splitMarker_spec (s : List Nat) : (splitMarker s).1.toList ++ (splitMarker s).2 = s := by
  unfold splitMarker
  split
  · split <;> rfl
  · rfl

theorem parseCsi_spec {s : List Nat} {t : CsiText} {rest : List Nat} (h : parseCsi s = some (t, rest)) :
    s = t.body ++ rest ∧ t.wf = true := by
  unfold parseCsi at h
  simp only at h
  split at h
  · rename_i f rest' hd
    split at h
    · rename_i hwf
      simp only [Option.some.injEq, Prod.mk.injEq] at h
      obtain ⟨rfl, rfl⟩ := h
      refine ⟨?_, hwf⟩
      unfold CsiText.body
      simp only [List.append_assoc, List.cons_append, List.nil_append]
      rw [← hd, List.takeWhile_append_dropWhile, List.takeWhile_append_dropWhile, splitMarker_spec]
    · cases h
  · cases h

theorem parseEsc_spec {s : List Nat} {t : EscText} {rest : List Nat} (h : parseEsc s = some (t, rest)) :
    s = t.body ++ rest ∧ t.wf = true := by
  unfold parseEsc at h
  simp only at h
  split at h
  · rename_i f rest' hd
    split at h
    · rename_i hwf
      simp only [Option.some.injEq, Prod.mk.injEq] at h
      obtain ⟨rfl, rfl⟩ := h
      refine ⟨?_, hwf⟩
      unfold EscText.body
      simp only [List.append_assoc, List.cons_append, List.nil_append]
      rw [← hd, List.takeWhile_append_dropWhile]
    · cases h
  · cases h

theorem scanStr_spec (k : StrKind) {s rest : List Nat} (h : scanStr k s = some rest) :
    ∃ payload term, s = payload ++ term ++ rest ∧ payloadOK k payload = true ∧ term ∈ k.terms := by
  induction s with
  | nil => cases h
  | cons c r ih =>
    unfold scanStr at h
    split at h
    · rename_i hc
      cases h
      exact ⟨[], [0x9C], by simp [hc], rfl, by simp [StrKind.terms]⟩
    · split at h
      · rename_i hc
        cases h
        exact ⟨[], [0x07], by simp [hc.1], rfl, by simp [StrKind.terms, hc.2]⟩
      · split at h
        · rename_i hc
          split at h
          · rename_i r' 
            cases h
            exact ⟨[], [0x1B, 0x5C], by simp [hc], rfl, by simp [StrKind.terms]⟩
          · cases h
        · split at h
          · rename_i hc
            obtain ⟨payload, term, h1, h2, h3⟩ := ih h
            refine ⟨c :: payload, term, by simp [h1], ?_, h3⟩
            simp only [payloadOK, List.all_cons, hc, Bool.true_and]
            exact h2
          · cases h

theorem kindOfIntro7_spec {x : Nat} {k : StrKind} (h : kindOfIntro7 x = some k) : k.intro7 = x := by
  have := List.find?_some h
  simpa using this

theorem kindOfIntro8_spec {x : Nat} {k : StrKind} (h : kindOfIntro8 x = some k) : k.intro8 = x := by
  have := List.find?_some h
  simpa using this

/-- an inert piece of text: all code points, and from Ground the reference parser emits nothing on it
    and is back in Ground -/
def InertPre (pre : List Nat) : Prop :=
  (∀ c ∈ pre, c < 0x110000) ∧
    ∀ a : AState, a.state = .Ground → (refRun a pre).2 = [] ∧ (refRun a pre).1.state = .Ground

theorem all_inR_lt {l : List Nat} {lo hi : Nat} (h : l.all (inR lo hi) = true) (hh : hi < 0x110000) :
    ∀ c ∈ l, c < 0x110000 := by
  intro c hc
  have := List.all_eq_true.1 h c hc
  rw [inR_iff] at this
  omega

theorem csi_body_lt {t : CsiText} (ht : t.wf = true) : ∀ c ∈ t.body, c < 0x110000 := by
  obtain ⟨marker, params, ints, final⟩ := t
  simp only [CsiText.wf, Bool.and_eq_true] at ht
  obtain ⟨⟨⟨⟨hm, hp⟩, -⟩, hi⟩, hf⟩ := ht
  intro c hc
  simp only [CsiText.body, List.mem_append, List.mem_cons, List.not_mem_nil, or_false] at hc
  rcases hc with ((hc | hc) | hc) | hc
  · cases marker with
    | none => cases hc
    | some m =>
      simp only [Option.toList_some, List.mem_cons, List.not_mem_nil, or_false] at hc
      subst hc
      rw [inR_iff] at hm; omega
  · exact all_inR_lt hp (by decide) c hc
  · exact all_inR_lt hi (by decide) c hc
  · subst hc; rw [inR_iff] at hf; omega

theorem esc_body_lt {t : EscText} (ht : t.wf = true) : ∀ c ∈ t.body, c < 0x110000 := by
  obtain ⟨ints, final⟩ := t
  simp only [EscText.wf, Bool.and_eq_true] at ht
  obtain ⟨⟨hi, hf⟩, -⟩ := ht
  intro c hc
  simp only [EscText.body, List.mem_append, List.mem_cons, List.not_mem_nil, or_false] at hc
  rcases hc with hc | hc
  · exact all_inR_lt hi (by decide) c hc
  · subst hc; rw [inR_iff] at hf; omega

theorem term_lt {k : StrKind} {term : List Nat} (ht : term ∈ k.terms) : ∀ c ∈ term, c < 0x110000 := by
  simp only [StrKind.terms, List.mem_append, List.mem_cons, List.not_mem_nil, or_false] at ht
  intro c hc
  rcases ht with (rfl | rfl) | ht
  · simp at hc; omega
  · simp at hc; omega
  · split at ht
    · simp at ht; subst ht; simp at hc; omega
    · cases ht

theorem payload_lt {k : StrKind} {payload : List Nat} (hp : payloadOK k payload = true) :
    ∀ c ∈ payload, c < 0x110000 :=
  fun c hc => payloadChar_lt (List.all_eq_true.1 hp c hc)

theorem intro7_lt (k : StrKind) : k.intro7 < 0x110000 := by cases k <;> decide
theorem intro8_lt (k : StrKind) : k.intro8 < 0x110000 := by cases k <;> decide

theorem inert_csi (intro : List Nat) (hi : intro = [0x1B, 0x5B] ∨ intro = [0x9B]) (t : CsiText) (ht : t.wf = true)
    (hf : t.fn.isNone = true) : InertPre (intro ++ t.body) := by
  have hfn : t.fn = none := by simpa using hf
  constructor
  · intro c hc
    rw [List.mem_append] at hc
    rcases hc with hc | hc
    · rcases hi with rfl | rfl <;> simp at hc <;> omega
    · exact csi_body_lt ht c hc
  · intro a ha
    obtain ⟨st, im, ps⟩ := a
    simp only at ha
    subst ha
    have h0 : refRun ⟨.Ground, im, ps⟩ intro = ({ state := .CsiEntry, interm := none, ps := [[0]] }, []) := by
      rcases hi with rfl | rfl
      · simp only [refRun, refStep_esc]
        rw [refStep_clear (a := { state := .Escape, interm := none, ps := [[0]] }) (s := .CsiEntry) (by decide)]
        rfl
      · simp only [refRun]
        rw [refStep_clear (a := ⟨.Ground, im, ps⟩) (s := .CsiEntry) (by show williams .Ground 0x9B = _; decide)]
        rfl
    rw [refRun_append, h0, csi_run t ht, hfn]
    exact ⟨rfl, rfl⟩

theorem inert_esc (t : EscText) (ht : t.wf = true) (hf : t.fn.isNone = true) : InertPre (0x1B :: t.body) := by
  have hfn : t.fn = none := by simpa using hf
  constructor
  · intro c hc
    rcases List.mem_cons.1 hc with rfl | hc
    · decide
    · exact esc_body_lt ht c hc
  · intro a _
    simp only [refRun, refStep_esc]
    rw [esc_run t ht, hfn]
    exact ⟨rfl, rfl⟩

theorem inert_str (k : StrKind) (intro payload term : List Nat) (hi : intro ∈ k.intros)
    (hp : payloadOK k payload = true) (ht : term ∈ k.terms) : InertPre (intro ++ payload ++ term) := by
  constructor
  · intro c hc
    simp only [List.mem_append] at hc
    rcases hc with (hc | hc) | hc
    · simp only [StrKind.intros, List.mem_cons, List.not_mem_nil, or_false] at hi
      have h7 := intro7_lt k
      have h8 := intro8_lt k
      rcases hi with rfl | rfl <;> simp at hc <;> omega
    · exact payload_lt hp c hc
    · exact term_lt ht c hc
  · intro a ha
    exact str_inert k intro payload term hi hp ht a ha

theorem inert_control (c : Nat) (hc : unassignedControl c = true) : InertPre [c] := by
  constructor
  · intro x hx
    simp only [List.mem_cons, List.not_mem_nil, or_false] at hx
    subst hx
    simp only [unassignedControl, Bool.and_eq_true, Bool.or_eq_true, inR_iff] at hc
    omega
  · intro a ha
    simp only [refRun, control_run c hc a ha]
    exact ⟨rfl, ha⟩

/-- one item recognised by the classifier is an inert prefix of the text -/
theorem stripInert_spec {s rest : List Nat} (h : stripInert s = some rest) :
    ∃ pre, s = pre ++ rest ∧ InertPre pre := by
  unfold stripInert at h
  split at h
  · cases h
  · -- ESC …
    rename_i r
    split at h
    · cases h
    · rename_i x r'
      split at h
      · -- ESC [ : a CSI sequence
        rename_i hx
        subst hx
        split at h
        · rename_i t rest' hp
          split at h
          · rename_i hf
            cases h
            obtain ⟨h1, h2⟩ := parseCsi_spec hp
            refine ⟨[0x1B, 0x5B] ++ t.body, by simp [h1], inert_csi _ (Or.inl rfl) t h2 hf⟩
          · cases h
        · cases h
      · split at h
        · -- ESC ] P X ^ _ : a control string
          rename_i k hk
          obtain ⟨payload, term, h1, h2, h3⟩ := scanStr_spec k h
          have hx := kindOfIntro7_spec hk
          refine ⟨[0x1B, k.intro7] ++ payload ++ term, by simp [h1, hx], inert_str k _ payload term (by simp [StrKind.intros]) h2 h3⟩
        · -- any other ESC sequence
          split at h
          · rename_i t rest' hp
            split at h
            · rename_i hf
              cases h
              obtain ⟨h1, h2⟩ := parseEsc_spec hp
              exact ⟨0x1B :: t.body, by simp [h1], inert_esc t h2 hf⟩
            · cases h
          · cases h
  · rename_i c r hne
    split at h
    · -- 8-bit CSI
      rename_i hc
      subst hc
      split at h
      · rename_i t rest' hp
        split at h
        · rename_i hf
          cases h
          obtain ⟨h1, h2⟩ := parseCsi_spec hp
          exact ⟨[0x9B] ++ t.body, by simp [h1], inert_csi _ (Or.inr rfl) t h2 hf⟩
        · cases h
      · cases h
    · split at h
      · -- 8-bit string introducer
        rename_i k hk
        obtain ⟨payload, term, h1, h2, h3⟩ := scanStr_spec k h
        have hx := kindOfIntro8_spec hk
        exact ⟨[k.intro8] ++ payload ++ term, by simp [h1, hx], inert_str k _ payload term (by simp [StrKind.intros]) h2 h3⟩
      · split at h
        · rename_i hc
          cases h
          exact ⟨[c], rfl, inert_control c hc⟩
        · cases h

theorem InertPre.nil : InertPre [] := by
  refine ⟨?_, ?_⟩
  · intro c hc; cases hc
  · intro a ha; exact ⟨rfl, ha⟩

theorem InertPre.append {s t : List Nat} (hs : InertPre s) (ht : InertPre t) : InertPre (s ++ t) := by
  constructor
  · intro c hc
    rcases List.mem_append.1 hc with h | h
    · exact hs.1 c h
    · exact ht.1 c h
  · intro a ha
    have h1 := hs.2 a ha
    have h2 := ht.2 _ h1.2
    rw [refRun_append]
    simp only [h1.1, h2.1, List.append_nil]
    exact ⟨trivial, h2.2⟩

theorem inertGo_spec (n : Nat) (s : List Nat) (h : inertGo n s = true) : InertPre s := by
  induction n generalizing s with
  | zero =>
    cases s with
    | nil => exact InertPre.nil
    | cons c r => cases h
  | succ n ih =>
    cases s with
    | nil => exact InertPre.nil
    | cons c r =>
      unfold inertGo at h
      split at h
      · rename_i rest hs
        obtain ⟨pre, h1, h2⟩ := stripInert_spec hs
        rw [h1]
        exact h2.append (ih rest h)
      · cases h

/-- **Soundness of the text classifier** for the reference parser -/
theorem isInertInput_spec {s : List Nat} (h : isInertInput s = true) : InertPre s := by
  simp only [isInertInput, Bool.and_eq_true] at h
  exact inertGo_spec _ _ h.2

/-! ### dead registers: memorylessness -/

/-- from a state whose registers are dead, no transition reads a register, and the registers stay
    dead until a `clear` -/
def deadFact (st : PState) (c : Nat) : Bool :=
  !dead st ||
    (((williams st c).1 == .ignore || (williams st c).1 == .put || (williams st c).1 == .oscPut
        || (williams st c).1 == .print || (williams st c).1 == .execute) && dead (williams st c).2)
    || (williams st c).1 == .clear

theorem deadFact_all (st : PState) (c : Nat) : deadFact st c = true := by
  revert c
  apply williams_forall st []
  · intro c d a
    have hw := stable_williams' st c d (a.mono (by intro b hb; simp [hb]))
    simp only at hw
    simp only [deadFact, hw]
  · cases st <;> decide +kernel

theorem norm_state (a : AState) : a.norm.state = a.state := by
  unfold AState.norm; split <;> rfl

theorem norm_of_dead {a : AState} (h : dead a.state = true) : a.norm = { state := a.state } := by
  unfold AState.norm; rw [if_pos h]

theorem norm_of_live {a : AState} (h : dead a.state = false) : a.norm = a := by
  unfold AState.norm; rw [if_neg (by simp [h])]

/-- one step respects the normal form: equal up to dead registers before ⇒ same function emitted and
    equal up to dead registers after -/
theorem refStep_norm {a b : AState} (h : a.norm = b.norm) (c : Nat) :
    (refStep a c).2 = (refStep b c).2 ∧ (refStep a c).1.norm = (refStep b c).1.norm := by
  have hs : a.state = b.state := by rw [← norm_state a, ← norm_state b, h]
  cases hd : dead a.state with
  | false =>
    have hdb : dead b.state = false := by rw [← hs]; exact hd
    have : a = b := (norm_of_live hd).symm.trans (h.trans (norm_of_live hdb))
    subst this
    exact ⟨rfl, rfl⟩
  | true =>
    have hf := deadFact_all a.state c
    unfold deadFact at hf
    rw [hd] at hf
    simp only [Bool.not_true, Bool.false_or, Bool.or_eq_true, Bool.and_eq_true, beq_iff_eq] at hf
    unfold refStep
    rw [← hs]
    generalize williams a.state c = w at hf
    obtain ⟨k, s⟩ := w
    simp only at hf
    rcases hf with ⟨hk, hds⟩ | hk
    · have e1 : ∀ x : AState, ({ x with state := s } : AState).norm = { state := s } :=
        fun x => norm_of_dead (a := { x with state := s }) hds
      rcases hk with (((hk | hk) | hk) | hk) | hk <;> subst hk <;> exact ⟨rfl, by simp only [e1]⟩
    · subst hk
      exact ⟨rfl, rfl⟩

theorem refRun_norm {a b : AState} (h : a.norm = b.norm) (s : List Nat) :
    (refRun a s).2 = (refRun b s).2 ∧ (refRun a s).1.norm = (refRun b s).1.norm := by
  induction s generalizing a b with
  | nil => exact ⟨rfl, h⟩
  | cons c cs ih =>
    have h1 := refStep_norm h c
    have h2 := ih h1.2
    simp only [refRun, h1.1, h2.1]
    exact ⟨trivial, h2.2⟩

/-! ### 7-bit `ESC Fe` = 8-bit C1 -/

/-- the finite check behind Fe folding: for every state and every `c` in `@`…`_`, `ESC c` and the C1
    control `c + 0x40` do the same thing -/
def feCheck (st : PState) (c : Nat) : Bool :=
  let w2 := williams .Escape c
  let w3 := williams st (c + 0x40)
  w2.2 == w3.2 &&
    ((w2.1 == .clear && w3.1 == .clear)
      || (w2.1 == .ignore && w3.1 == .ignore && dead w2.2)
      || (w2.1 == .dispatchEsc && w3.1 == .execute && dead w2.2
            && refDispatchEsc none c == refExecute (c + 0x40))
      || (w2.1 == .dispatchEsc && w3.1 == .ignore && dead w2.2 && refDispatchEsc none c == none))

theorem feCheck_all : ∀ st ∈ PState.all, ∀ c ∈ List.range' 0x40 0x20, feCheck st c = true := by decide

theorem fe_fold (a : AState) (c : Nat) (h1 : 0x40 ≤ c) (h2 : c ≤ 0x5F) :
    (refStep a 0x1B).2 = none
      ∧ (refStep (refStep a 0x1B).1 c).2 = (refStep a (c + 0x40)).2
      ∧ (refStep (refStep a 0x1B).1 c).1.state = (refStep a (c + 0x40)).1.state
      ∧ (refStep (refStep a 0x1B).1 c).1.norm = (refStep a (c + 0x40)).1.norm := by
  have hf := feCheck_all a.state (mem_all a.state) c (List.mem_range'_1.2 ⟨h1, by omega⟩)
  rw [refStep_esc]
  refine ⟨rfl, ?_⟩
  unfold feCheck at hf
  simp only at hf
  unfold refStep
  simp only
  generalize williams .Escape c = w2 at hf
  generalize williams a.state (c + 0x40) = w3 at hf
  obtain ⟨k2, s2⟩ := w2
  obtain ⟨k3, s3⟩ := w3
  simp only [Bool.and_eq_true, Bool.or_eq_true, beq_iff_eq] at hf
  obtain ⟨hs, hk⟩ := hf
  subst hs
  rcases hk with ((⟨rfl, rfl⟩ | ⟨⟨rfl, rfl⟩, hd⟩) | ⟨⟨⟨rfl, rfl⟩, hd⟩, he⟩) | ⟨⟨⟨rfl, rfl⟩, hd⟩, he⟩
  · exact ⟨rfl, rfl, rfl⟩
  · refine ⟨rfl, rfl, ?_⟩
    rw [norm_of_dead (a := { state := s2, interm := none, ps := [[0]] }) hd,
      norm_of_dead (a := { a with state := s2 }) hd]
  · refine ⟨he, rfl, ?_⟩
    rw [norm_of_dead (a := { state := s2, interm := none, ps := [[0]] }) hd,
      norm_of_dead (a := { a with state := s2 }) hd]
  · refine ⟨he, rfl, ?_⟩
    rw [norm_of_dead (a := { state := s2, interm := none, ps := [[0]] }) hd,
      norm_of_dead (a := { a with state := s2 }) hd]

/-! ### introducers from any state; decimal reading; shape of the written parameters -/

theorem williams_csi8 (st : PState) : williams st 0x9B = (.clear, .CsiEntry) := by cases st <;> decide

theorem csi_intro_run (intro : List Nat) (hi : intro = [0x1B, 0x5B] ∨ intro = [0x9B]) (a : AState) :
    refRun a intro = ({ state := .CsiEntry, interm := none, ps := [[0]] }, []) := by
  rcases hi with rfl | rfl
  · simp only [refRun, refStep_esc]
    rw [refStep_clear (a := { state := .Escape, interm := none, ps := [[0]] }) (s := .CsiEntry) (by decide)]
    rfl
  · simp only [refRun, refStep_clear (williams_csi8 a.state)]
    rfl

/-- the value of a decimal digit string -/
def decVal (ds : List Nat) : Nat := ds.foldl (fun v c => 10 * v + (c - 0x30)) 0

theorem stepW_digit (v c : Nat) (h1 : 0x30 ≤ c) (h2 : c ≤ 0x39) :
    stepW [[v]] c = [[(10 * v + (c - 0x30)) % 65536]] := by
  unfold stepW
  rw [if_neg (by omega), if_neg (by omega)]
  rfl

theorem foldl_digits (ds : List Nat) (hd : ds.all (inR 0x30 0x39) = true) (v : Nat) :
    ds.foldl stepW [[v % 65536]] = [[ds.foldl (fun v c => 10 * v + (c - 0x30)) v % 65536]] := by
  induction ds generalizing v with
  | nil => rfl
  | cons c cs ih =>
    simp only [List.all_cons, Bool.and_eq_true, inR_iff] at hd
    simp only [List.foldl_cons]
    rw [stepW_digit _ c hd.1.1 hd.1.2]
    have : (10 * (v % 65536) + (c - 48)) % 65536 = (10 * v + (c - 48)) % 65536 := by omega
    rw [this]
    exact ih hd.2 _

/-- a single number is read in decimal, modulo 65536 (so every value up to 65535 is exact) -/
theorem parseParams_digits (ds : List Nat) (hd : ds.all (inR 0x30 0x39) = true) :
    parseParams ds = [[decVal ds % 65536]] := by
  have := foldl_digits ds hd 0
  exact this

theorem modLast_length {α : Type} (l : List α) (f : α → α) : (modLast l f).length = l.length := by
  induction l with
  | nil => rfl
  | cons a as ih =>
    cases as with
    | nil => rfl
    | cons b bs => simp only [modLast, List.length_cons] at ih ⊢; rw [ih]

theorem mem_modLast {α : Type} {l : List α} {f : α → α} {x : α} (h : x ∈ modLast l f) :
    x ∈ l ∨ ∃ y ∈ l, x = f y := by
  induction l with
  | nil => cases h
  | cons a as ih =>
    cases as with
    | nil =>
      simp only [modLast, List.mem_cons, List.not_mem_nil, or_false] at h
      exact Or.inr ⟨a, List.mem_cons_self, h⟩
    | cons b bs =>
      simp only [modLast, List.mem_cons] at h
      rcases h with h | h
      · exact Or.inl (h ▸ List.mem_cons_self)
      · rcases ih (by simpa [modLast] using h) with h' | ⟨y, hy, e⟩
        · exact Or.inl (List.mem_cons_of_mem _ h')
        · exact Or.inr ⟨y, List.mem_cons_of_mem _ hy, e⟩

/-- shape of written parameters: 1–32 parameters, 1–6 sub-parts each, every value below 65536 -/
def shapeOK (ps : List (List Nat)) : Prop :=
  1 ≤ ps.length ∧ ps.length ≤ 32 ∧ ∀ q ∈ ps, 1 ≤ q.length ∧ q.length ≤ 6 ∧ ∀ v ∈ q, v < 65536

theorem shapeOK_stepW {ps : List (List Nat)} (h : shapeOK ps) (c : Nat) : shapeOK (stepW ps c) := by
  obtain ⟨h1, h2, h3⟩ := h
  unfold stepW
  split
  · split
    · refine ⟨by simp, by simp; omega, ?_⟩
      intro q hq
      rcases List.mem_append.1 hq with hq | hq
      · exact h3 q hq
      · simp only [List.mem_cons, List.not_mem_nil, or_false] at hq
        subst hq
        exact ⟨by decide, by decide, by intro v hv; simp at hv; omega⟩
    · exact ⟨h1, h2, h3⟩
  · split
    · refine ⟨by rw [modLast_length]; exact h1, by rw [modLast_length]; exact h2, ?_⟩
      intro q hq
      rcases mem_modLast hq with hq | ⟨y, hy, rfl⟩
      · exact h3 q hq
      · have := h3 y hy
        split
        · refine ⟨by simp, by simp; omega, ?_⟩
          intro v hv
          rcases List.mem_append.1 hv with hv | hv
          · exact this.2.2 v hv
          · simp at hv; omega
        · exact this
    · refine ⟨by rw [modLast_length]; exact h1, by rw [modLast_length]; exact h2, ?_⟩
      intro q hq
      rcases mem_modLast hq with hq | ⟨y, hy, rfl⟩
      · exact h3 q hq
      · have := h3 y hy
        refine ⟨by rw [modLast_length]; exact this.1, by rw [modLast_length]; exact this.2.1, ?_⟩
        intro v hv
        rcases mem_modLast hv with hv | ⟨w, _, rfl⟩
        · exact this.2.2 v hv
        · exact Nat.mod_lt _ (by decide)

theorem shapeOK_parseParams (body : List Nat) : shapeOK (parseParams body) := by
  unfold parseParams
  have h0 : shapeOK [[0]] := ⟨by decide, by decide, by intro q hq; simp at hq; subst hq; simp⟩
  generalize ([[0]] : List (List Nat)) = ps at h0
  induction body generalizing ps with
  | nil => exact h0
  | cons c cs ih => exact ih _ (shapeOK_stepW h0 c)

end Avt.ParserSeq
