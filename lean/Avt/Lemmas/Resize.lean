/-
  Avt.Lemmas.Resize — cursor translation (`logicalPosition`, `relativePosition`), `setLastUnwrapped`
  and the two phases of `Buffer.resize` (reflow + cursor translation; height change).
-/
import Avt.Lemmas.Reflow

namespace Avt
namespace Buffer

/-! ### cursor translation -/

theorem logicalPosition_ok (lines : List Line) (pos : Nat × Nat) (cols rows : Nat)
    (h : rows ≤ lines.length) : ∃ p, logicalPosition lines pos cols rows = some p := by
  simp only [logicalPosition, csub, h, if_true]
  exact ⟨_, rfl⟩

theorem relLoop1_bounds (target : Nat) : ∀ (ls : List Line) (r rr : Nat),
    rr ≤ relLoop1 target ls r rr ∧ relLoop1 target ls r rr ≤ rr + ls.length := by
  intro ls
  induction ls with
  | nil => intro r rr; simp [relLoop1]
  | cons l ls ih =>
    intro r rr
    simp only [relLoop1]
    split
    · have := ih (if (!l.wrapped) = true then r + 1 else r) (rr + 1)
      simp only [List.length_cons]; omega
    · simp only [List.length_cons]; omega

/-- the second loop of `relative_position` cannot run off the end of the lines when the last line is
    not wrapped -/
theorem relLoop2_ok (cols : Nat) : ∀ (ls : List Line) (c r : Nat), ls ≠ [] →
    lastUnwrapped ls = true →
    ∃ c' r', relLoop2 cols ls c r = some (c', r') ∧ r ≤ r' ∧ r' + 1 ≤ r + ls.length := by
  intro ls
  induction ls with
  | nil => intro c r h; exact absurd rfl h
  | cons l ls ih =>
    intro c r _ hlu
    simp only [relLoop2]
    split
    · rename_i hcond
      simp only [Bool.and_eq_true, decide_eq_true_eq] at hcond
      cases ls with
      | nil => simp [lastUnwrapped, hcond.2] at hlu
      | cons y ys =>
        obtain ⟨c', r', he, h1, h2⟩ := ih (c - cols) (r + 1) (by simp) hlu
        refine ⟨c', r', he, ?_, ?_⟩
        · omega
        · simp only [List.length_cons] at *; omega
    · exact ⟨c, r, rfl, Nat.le_refl _, by simp only [List.length_cons]; omega⟩

/-- `relative_position` never panics on a non-empty list of lines whose last line is unwrapped; the
    column is inside the screen, the row is at most `rows - 1` and not further above the view than
    there are lines above the view -/
theorem relativePosition_ok (lines : List Line) (pos : Nat × Nat) (cols rows : Nat)
    (hne : lines ≠ []) (hc : 1 ≤ cols) (hr : rows ≤ lines.length)
    (hlu : lastUnwrapped lines = true) :
    ∃ rc rr, relativePosition lines pos cols rows = some (rc, rr) ∧ rc < cols ∧
      rr < (rows : Int) ∧ (rows : Int) - rr ≤ (lines.length : Int) := by
  have hlen : 1 ≤ lines.length := by
    cases lines with
    | nil => exact absurd rfl hne
    | cons a b => simp
  have h1 : csub lines.length 1 = some (lines.length - 1) := by simp [csub, hlen]
  have h2 : csub cols 1 = some (cols - 1) := by simp [csub, hc]
  have h3 : csub lines.length rows = some (lines.length - rows) := by simp [csub, hr]
  simp only [relativePosition, h1, h2, h3]
  have hb := relLoop1_bounds pos.2 (lines.take (lines.length - 1)) 0 0
  generalize relLoop1 pos.2 (lines.take (lines.length - 1)) 0 0 = rr0 at hb
  simp only [List.length_take] at hb
  have hrr : rr0 < lines.length := by omega
  have hne' : lines.drop rr0 ≠ [] := by
    intro e
    have := congrArg List.length e
    simp at this; omega
  obtain ⟨c', r', he, hr1, hr2⟩ :=
    relLoop2_ok cols (lines.drop rr0) pos.1 rr0 hne' (lastUnwrapped_drop rr0 hlu hrr)
  simp only [he]
  simp only [List.length_drop] at hr2
  refine ⟨_, _, rfl, ?_, ?_, ?_⟩
  · omega
  · omega
  · omega

/-! ### setLastUnwrapped -/

theorem setLastUnwrapped_ok (c : Nat) : ∀ (ls : List Line), ls ≠ [] → (∀ l ∈ ls, l.len = c) →
    ∃ out, setLastUnwrapped ls = some out ∧ out.length = ls.length ∧ (∀ l ∈ out, l.len = c) ∧
      lastUnwrapped out = true := by
  intro ls
  induction ls with
  | nil => intro h; exact absurd rfl h
  | cons l ls ih =>
    intro _ hw
    cases ls with
    | nil =>
      refine ⟨[{ l with wrapped := false }], rfl, rfl, ?_, rfl⟩
      intro x hx
      simp only [List.mem_singleton] at hx
      subst hx
      exact hw l (by simp)
    | cons y ys =>
      obtain ⟨out, he, hlen, hw', hlu⟩ := ih (by simp) (fun x hx => hw x (List.mem_cons_of_mem _ hx))
      refine ⟨l :: out, ?_, ?_, ?_, ?_⟩
      · simp only [setLastUnwrapped, he, Option.map_some]
      · simp only [List.length_cons] at *; omega
      · intro x hx
        cases hx with
        | head => exact hw l (by simp)
        | tail _ h' => exact hw' x h'
      · have : out ≠ [] := by
          intro e; subst e; simp at hlen
        rw [lastUnwrapped_cons_of_ne_nil l this]; exact hlu

/-! ### the phases of `Buffer.resize` -/

/-- phase 1: reflow to the new width and translate the cursor (only when the width changes) -/
def rsStep1 (lines : List Line) (oldCols oldRows newCols : Nat) (cursor logPos : Nat × Nat) :
    Option (List Line × (Nat × Nat) × Nat) :=
  if newCols ≠ oldCols then
    match reflow lines newCols with
    | none => none
    | some ls =>
      let ls := if ls.length < oldRows
        then ls ++ List.replicate (oldRows - ls.length) (Line.blank newCols Pen.default) else ls
      match relativePosition ls logPos newCols oldRows with
      | none => none
      | some (rc, rr) =>
        if rr ≥ 0 then some (ls, (rc, rr.toNat), oldRows)
        else some (ls, (rc, 0), oldRows + (-rr).toNat)
  else some (lines, cursor, oldRows)

/-- phase 2: change of height -/
def rsStep2 (newCols newRows : Nat) (lines : List Line) (cursor : Nat × Nat) (oldRows : Nat) :
    Option (List Line × (Nat × Nat)) :=
  let lineCount := lines.length
  if newRows < oldRows then
    let heightDelta := oldRows - newRows
    match csub oldRows 1 with
    | none => none
    | some o1 =>
      match csub o1 cursor.2 with
      | none => none
      | some inv =>
        let excess := min heightDelta inv
        let lines' : Option (List Line) :=
          if excess > 0 then
            match csub lineCount excess with
            | none => none
            | some k => setLastUnwrapped (lines.take k)
          else some lines
        match lines', csub cursor.2 (heightDelta - excess) with
        | some ls, some row => some (ls, (cursor.1, row))
        | _, _ => none
  else if newRows > oldRows then
    let heightDelta := newRows - oldRows
    let sbSize := lineCount - min oldRows lineCount
    let shift := min sbSize heightDelta
    let heightDelta := heightDelta - shift
    let cursor := if cursor.2 < oldRows then (cursor.1, cursor.2 + shift) else cursor
    let lines := if heightDelta > 0
      then lines ++ List.replicate heightDelta (Line.blank newCols Pen.default) else lines
    some (lines, cursor)
  else some (lines, cursor)

theorem resize_eq (b : Buffer) (c r : Nat) (cur : Nat × Nat) :
    b.resize c r cur =
      match logicalPosition b.lines cur b.cols b.rows with
      | none => none
      | some lp =>
        match rsStep1 b.lines b.cols b.rows c cur lp with
        | none => none
        | some (lines, cursor, oldRows) =>
          match rsStep2 c r lines cursor oldRows with
          | none => none
          | some (lines, cursor) =>
            match csub lines.length r with
            | none => none
            | some k =>
              some ({ b with sb := lines.take k, view := lines.drop k, cols := c, rows := r,
                             trimNeeded := true }, cursor) := by
  unfold resize rsStep1 rsStep2
  rfl

theorem blank_len (cols : Nat) (pen : Pen) : (Line.blank cols pen).len = cols := by
  simp [Line.blank, Line.len]

theorem widths_append_blank {c : Nat} {ls : List Line} (n : Nat) (pen : Pen)
    (hw : ∀ l ∈ ls, l.len = c) : ∀ l ∈ ls ++ List.replicate n (Line.blank c pen), l.len = c := by
  intro l hl
  rw [List.mem_append] at hl
  cases hl with
  | inl h => exact hw l h
  | inr h => rw [(List.mem_replicate.mp h).2]; exact blank_len c pen

theorem rsStep1_ok (lines : List Line) (oldCols oldRows newCols : Nat) (cursor logPos : Nat × Nat)
    (hc : 1 ≤ newCols) (hr : 1 ≤ oldRows) (hlen : oldRows ≤ lines.length)
    (hw : ∀ l ∈ lines, l.len = oldCols) (hlu : lastUnwrapped lines = true) :
    ∃ ls cur' oR, rsStep1 lines oldCols oldRows newCols cursor logPos = some (ls, cur', oR) ∧
      (∀ l ∈ ls, l.len = newCols) ∧ lastUnwrapped ls = true ∧ oR ≤ ls.length ∧ 1 ≤ oR ∧
      (if newCols = oldCols then ls = lines ∧ cur' = cursor ∧ oR = oldRows
       else cur'.1 < newCols ∧ cur'.2 < oR) := by
  unfold rsStep1
  by_cases hcc : newCols = oldCols
  · simp only [hcc, ne_eq, not_true_eq_false, if_false, if_true]
    exact ⟨lines, cursor, oldRows, rfl, hw, hlu, hlen, hr, rfl, rfl, rfl⟩
  · have hcc' : newCols ≠ oldCols := hcc
    rw [if_pos hcc']
    simp only [if_neg hcc]
    have hne : lines ≠ [] := by
      intro e; subst e; simp at hlen; omega
    obtain ⟨out, he, hwo, hneo, hluo⟩ := reflow_ok lines newCols hc hlu
    have hneo := hneo hne
    simp only [he]
    generalize hls : (if out.length < oldRows
        then out ++ List.replicate (oldRows - out.length) (Line.blank newCols Pen.default)
        else out) = ls
    have hls_w : ∀ l ∈ ls, l.len = newCols := by
      rw [← hls]; split
      · exact widths_append_blank _ _ hwo
      · exact hwo
    have hls_lu : lastUnwrapped ls = true := by
      rw [← hls]; split
      · exact lastUnwrapped_append_blank _ _ _ _ (by omega)
      · exact hluo
    have hls_len : oldRows ≤ ls.length := by
      rw [← hls]; split
      · simp only [List.length_append, List.length_replicate]; omega
      · omega
    have hls_ne : ls ≠ [] := by
      intro e; subst e; simp at hls_len; omega
    obtain ⟨rc, rr, hrel, hrc, hrr1, hrr2⟩ :=
      relativePosition_ok ls logPos newCols oldRows hls_ne hc hls_len hls_lu
    simp only [hrel]
    by_cases hpos : rr ≥ 0
    · simp only [hpos, if_true]
      refine ⟨ls, (rc, rr.toNat), oldRows, rfl, hls_w, hls_lu, hls_len, hr, hrc, ?_⟩
      simp only; omega
    · simp only [hpos, if_false]
      refine ⟨ls, (rc, 0), oldRows + (-rr).toNat, rfl, hls_w, hls_lu, ?_, by omega, hrc, ?_⟩
      · omega
      · simp only; omega

theorem rsStep2_ok (c r : Nat) (lines : List Line) (cursor : Nat × Nat) (oR : Nat)
    (hr : 1 ≤ r) (hw : ∀ l ∈ lines, l.len = c) (hlu : lastUnwrapped lines = true)
    (hlen : oR ≤ lines.length) (hoR : 1 ≤ oR) (hcur : cursor.2 < oR ∨ cursor.2 < r) :
    ∃ ls cur', rsStep2 c r lines cursor oR = some (ls, cur') ∧ (∀ l ∈ ls, l.len = c) ∧
      lastUnwrapped ls = true ∧ r ≤ ls.length ∧ cur'.1 = cursor.1 ∧ cur'.2 < r := by
  unfold rsStep2
  by_cases h1 : r < oR
  · -- Less
    simp only [h1, if_true]
    have hcur' : cursor.2 < oR := by omega
    have e1 : csub oR 1 = some (oR - 1) := by simp [csub, hoR]
    have e2 : csub (oR - 1) cursor.2 = some (oR - 1 - cursor.2) := by
      simp only [csub]; rw [if_pos (by omega)]
    simp only [e1, e2]
    generalize hex : min (oR - r) (oR - 1 - cursor.2) = excess
    have e3 : csub cursor.2 (oR - r - excess) = some (cursor.2 - (oR - r - excess)) := by
      simp only [csub]; rw [if_pos (by omega)]
    by_cases hpos : excess > 0
    · simp only [hpos, if_true]
      have e4 : csub lines.length excess = some (lines.length - excess) := by
        simp only [csub]; rw [if_pos (by omega)]
      simp only [e4]
      have hne : lines.take (lines.length - excess) ≠ [] := by
        intro e
        have := congrArg List.length e
        simp at this; omega
      have hw' : ∀ l ∈ lines.take (lines.length - excess), l.len = c :=
        fun l hl => hw l (List.mem_of_mem_take hl)
      obtain ⟨out, hs, hol, how, holu⟩ := setLastUnwrapped_ok c _ hne hw'
      simp only [hs, e3]
      refine ⟨_, _, rfl, how, holu, ?_, rfl, ?_⟩
      · rw [hol, List.length_take]; omega
      · simp only; omega
    · simp only [hpos, if_false, e3]
      refine ⟨_, _, rfl, hw, hlu, by omega, rfl, ?_⟩
      simp only; omega
  · simp only [h1, if_false]
    by_cases h2 : r > oR
    · -- Greater
      simp only [h2, if_true]
      refine ⟨_, _, rfl, ?_, ?_, ?_, ?_, ?_⟩
      · split
        · exact widths_append_blank _ _ hw
        · exact hw
      · split
        · rename_i hp
          exact lastUnwrapped_append_blank _ _ _ _ hp
        · exact hlu
      · split
        · simp only [List.length_append, List.length_replicate]; omega
        · omega
      · split <;> rfl
      · split
        · simp only; omega
        · omega
    · simp only [h2, if_false]
      exact ⟨_, _, rfl, hw, hlu, by omega, rfl, by omega⟩

end Buffer
end Avt
