/-
  Avt.Lemmas.ParserReps — the endpoint partition of the parser table (definitions only): the
  representatives at which the generated arm list and Williams' diagram are compared.  Kept apart
  from Lemmas/ParserTable.lean (which PROVES the two equal on the current tables) so that the
  exhaustive table checker of the driver (Driver/PTable.lean) still runs - and names the failing
  cells - when a change to the source has made that proof fail.
-/
import Avt.Lemmas.Lookup
import Avt.Spec.C03

namespace Avt.ParserTable
open Avt Avt.Lookup Avt.Spec.C03

/-- endpoints of a list of diagram rows -/
def rowBounds (l : List Row) : List Nat := l.flatMap fun r => r.ranges.flatMap fun iv => [iv.1, iv.2 + 1]

/-- the endpoints that matter for state `st`: the premap thresholds, the generated arm list's and the
    diagram's -/
def bounds (st : PState) : List Nat :=
  0xA0 :: Gen.premapFrom :: (armBounds Gen.feedArms ++ rowBounds (anywhere ++ rows st))

/-- the diagram's own endpoints for state `st` (plus the threshold of D4) -/
def wbounds (st : PState) : List Nat := 0xA0 :: rowBounds (anywhere ++ rows st)

/-- the finite re-check: one representative per cell, all 14 states -/
def reps (st : PState) : List Nat := (0 :: bounds st).eraseDups

end Avt.ParserTable
