/-
  Avt.Lemmas.C11KF7 — finding KF7, kernel-checked (NOT part of the default build: nothing imports this
  module; check it with `lake env lean Avt/Lemmas/C11KF7.lean`, ~45 s and ~3 GB, because the kernel has
  to reflow a 70000-cell row).

  `C11_dump_full'` (the restore half with the exceptions KF1/KF2/KF3/KF6) is FALSE: the state below is
  reachable, none of those exceptions applies, and its `dump()` does not restore it.  The corrected
  statement is `Avt.Props.C11.C11_dump_full''` (a theorem: `C11_dump_full''_holds`).
-/
import Avt.Props.C11

namespace Avt.Props.C11
open Avt Avt.Spec.C11 Avt.Lemmas.C11

def kf7State : Option Vt := (Vt.new 70000 1 none).bind fun v => runHist v kf7Hist

/-- on the KF7 state: the classifier says KF7 and nothing else, the parked position is column 65536 on a
    10-column screen, and the restored state differs -/
def kf7Check : Bool :=
  match kf7State with
  | some s => (findings s.terminal == [.kf7]) && (s.terminal.alternateSavedCtx.cursorCol == 65536)
      && (s.terminal.cols == 10)
      && (match restoreOf s with | some r => normD r != normD s | none => false)
  | none => false

theorem kf7Check_true : kf7Check = true := by decide +kernel

/-- **`C11_dump_full'` is FALSE** (finding KF7) -/
theorem C11_dump_full'_false : ¬ C11_dump_full' := by
  have hc := kf7Check_true
  unfold kf7Check at hc
  cases hs : kf7State with
  | none => simp [hs] at hc
  | some s =>
    simp only [hs, Bool.and_eq_true, beq_iff_eq] at hc
    obtain ⟨⟨⟨hf, _⟩, _⟩, hr⟩ := hc
    cases hres : restoreOf s with
    | none => simp [hres] at hr
    | some r =>
      simp only [hres, bne_iff_ne, ne_eq] at hr
      have valid : ∀ op ∈ kf7Hist, ∀ c r, op = HOp.resize c r → 1 ≤ c ∧ 1 ≤ r := by
        intro op hop c r he
        simp only [kf7Hist, List.mem_cons, List.not_mem_nil, or_false] at hop
        rcases hop with rfl | rfl | rfl | rfl | rfl | rfl <;> cases he
        exact ⟨by decide, by decide⟩
      have reach : Lemmas.C11.Reach s := ⟨70000, 1, none, kf7Hist, by decide, by decide, valid, hs⟩
      exact C11_dump_full'_false_of_witness s r reach hf hres hr

end Avt.Props.C11
