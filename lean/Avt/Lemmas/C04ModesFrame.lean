/-
  Avt.Lemmas.C04ModesFrame — the four pieces of state that steer printing (`autoWrapMode`,
  `insertMode`, the G0 / G1 designations `charsets`, and `activeCharset`) are state that only their
  setters (SM / RM 4, DECSET / DECRST ?7, the designations, SO / SI), the restores of the saved
  context (DECRC, SCORC, DECRST ?1048 / ?1049 — auto-wrap is part of the context) and the two resets
  may change: every other function leaves all four exactly as they are — cursor movement, scrolling,
  erasing, printing itself, DECSTBM, tabs, SGR, every other mode, entering the alternate screen,
  leaving it with ?47l / ?1047l, XTWINOPS (a resize).  Helper by helper, as in Lemmas/C06Margins.lean;
  no invariant is needed.  Then lifted to the fold `Vt.feed` / `Vt.feedAll` / `Vt.feedStr` perform
  over the functions the parser emits, and to `Vt.resize`.
-/
import Avt.Spec.C04
import Avt.Lemmas.C17Step
import Avt.Lemmas.FrameVt

namespace Avt.C04M
open Avt Avt.Spec Avt.Spec.C04

/-- the modes that steer printing are the same -/
def PSame (t t' : Terminal) : Prop :=
  t'.autoWrapMode = t.autoWrapMode ∧ t'.insertMode = t.insertMode ∧ t'.charsets = t.charsets
    ∧ t'.activeCharset = t.activeCharset

theorem PSame.refl (t : Terminal) : PSame t t := ⟨rfl, rfl, rfl, rfl⟩

theorem PSame.trans {a b c : Terminal} (h1 : PSame a b) (h2 : PSame b c) : PSame a c :=
  ⟨h2.1.trans h1.1, h2.2.1.trans h1.2.1, h2.2.2.1.trans h1.2.2.1, h2.2.2.2.trans h1.2.2.2⟩

/-- the oracle's `samePrintModes` says exactly this -/
theorem samePrintModes_iff (p n : Terminal) : samePrintModes p n = true ↔ PSame p n := by
  simp [samePrintModes, PSame, and_assoc]

theorem map_pm {α} {t t' : Terminal} {o : Option α} {g : α → Terminal}
    (h : o.map g = some t') (hg : ∀ a, PSame t (g a)) : PSame t t' := by
  cases o with
  | none => cases h
  | some a => cases h; exact hg a

theorem markDirty_pm {t t' : Terminal} {r : Nat} (h : t.markDirty r = some t') : PSame t t' :=
  map_pm h (fun _ => ⟨rfl, rfl, rfl, rfl⟩)

theorem markDirtyRange_pm {t t' : Terminal} {a b : Nat} (h : t.markDirtyRange a b = some t') :
    PSame t t' := map_pm h (fun _ => ⟨rfl, rfl, rfl, rfl⟩)

theorem doMoveCursorToRow_pm {t t' : Terminal} {r : Nat} (h : t.doMoveCursorToRow r = some t') :
    PSame t t' := map_pm h (fun _ => ⟨rfl, rfl, rfl, rfl⟩)

theorem moveCursorToCol_pm {t t' : Terminal} {c : Nat} (h : t.moveCursorToCol c = some t') :
    PSame t t' := by
  unfold Terminal.moveCursorToCol at h
  split at h
  · exact map_pm h (fun _ => ⟨rfl, rfl, rfl, rfl⟩)
  · cases h; exact ⟨rfl, rfl, rfl, rfl⟩

theorem moveCursorToRow_pm {t t' : Terminal} {r : Nat} (h : t.moveCursorToRow r = some t') :
    PSame t t' := by
  unfold Terminal.moveCursorToRow at h
  simp only at h
  split at h
  · cases h
  · exact doMoveCursorToRow_pm h

theorem moveCursorToRelCol_pm {t t' : Terminal} {r : Int} (h : t.moveCursorToRelCol r = some t') :
    PSame t t' := by
  unfold Terminal.moveCursorToRelCol at h
  simp only at h
  split at h
  · cases h; exact ⟨rfl, rfl, rfl, rfl⟩
  · split at h
    · exact map_pm h (fun _ => ⟨rfl, rfl, rfl, rfl⟩)
    · cases h; exact ⟨rfl, rfl, rfl, rfl⟩

theorem moveCursorHome_pm {t t' : Terminal} (h : t.moveCursorHome = some t') : PSame t t' := by
  unfold Terminal.moveCursorHome at h
  exact PSame.trans (b := t.doMoveCursorToCol 0) ⟨rfl, rfl, rfl, rfl⟩ (doMoveCursorToRow_pm h)

theorem moveCursorToNextTab_pm {t t' : Terminal} {n : Nat} (h : t.moveCursorToNextTab n = some t') :
    PSame t t' := by
  unfold Terminal.moveCursorToNextTab at h
  split at h
  · exact moveCursorToCol_pm h
  · cases h

theorem moveCursorToPrevTab_pm {t t' : Terminal} {n : Nat} (h : t.moveCursorToPrevTab n = some t') :
    PSame t t' := by
  unfold Terminal.moveCursorToPrevTab at h
  split at h
  · exact moveCursorToCol_pm h
  · cases h

theorem scrollUpInRegion_pm {t t' : Terminal} {n : Nat} (h : t.scrollUpInRegion n = some t') :
    PSame t t' := by
  unfold Terminal.scrollUpInRegion at h
  split at h
  · cases h
  · exact map_pm h (fun _ => ⟨rfl, rfl, rfl, rfl⟩)

theorem scrollDownInRegion_pm {t t' : Terminal} {n : Nat} (h : t.scrollDownInRegion n = some t') :
    PSame t t' := by
  unfold Terminal.scrollDownInRegion at h
  split at h
  · cases h
  · exact map_pm h (fun _ => ⟨rfl, rfl, rfl, rfl⟩)

theorem moveCursorDownWithScroll_pm {t t' : Terminal} (h : t.moveCursorDownWithScroll = some t') :
    PSame t t' := by
  unfold Terminal.moveCursorDownWithScroll at h
  split at h
  · exact scrollUpInRegion_pm h
  · split at h
    · cases h
    · split at h
      · exact doMoveCursorToRow_pm h
      · cases h; exact ⟨rfl, rfl, rfl, rfl⟩

theorem cursorDown_pm {t t' : Terminal} {n : Nat} (h : t.cursorDown n = some t') : PSame t t' := by
  unfold Terminal.cursorDown at h
  split at h
  · split at h
    · cases h
    · exact doMoveCursorToRow_pm h
  · exact doMoveCursorToRow_pm h

theorem cursorUp_pm {t t' : Terminal} {n : Nat} (h : t.cursorUp n = some t') : PSame t t' := by
  unfold Terminal.cursorUp at h
  exact doMoveCursorToRow_pm h

theorem setTab_pm (t : Terminal) : PSame t t.setTab := by
  unfold Terminal.setTab; split <;> exact ⟨rfl, rfl, rfl, rfl⟩

theorem ctc_pm (t : Terminal) (op : CtcOp) : PSame t (t.ctc op) := by
  cases op
  · exact setTab_pm t
  · exact ⟨rfl, rfl, rfl, rfl⟩
  · exact ⟨rfl, rfl, rfl, rfl⟩

theorem tbc_pm (t : Terminal) (s : TbcScope) : PSame t (t.tbc s) := by
  cases s <;> exact ⟨rfl, rfl, rfl, rfl⟩

theorem bs_pm {t t' : Terminal} (h : t.bs = some t') : PSame t t' := by
  unfold Terminal.bs at h
  split at h <;> exact moveCursorToRelCol_pm h

theorem lf_pm {t t' : Terminal} (h : t.lf = some t') : PSame t t' := by
  unfold Terminal.lf at h
  cases hm : t.moveCursorDownWithScroll with
  | none => simp [hm] at h
  | some t1 =>
    simp only [hm, Option.map_some, Option.some.injEq] at h
    subst h
    refine (moveCursorDownWithScroll_pm hm).trans ?_
    split <;> exact ⟨rfl, rfl, rfl, rfl⟩

theorem nel_pm {t t' : Terminal} (h : t.nel = some t') : PSame t t' := by
  unfold Terminal.nel at h
  cases hm : t.moveCursorDownWithScroll with
  | none => simp [hm] at h
  | some t1 =>
    simp only [hm, Option.map_some, Option.some.injEq] at h
    subst h
    exact (moveCursorDownWithScroll_pm hm).trans ⟨rfl, rfl, rfl, rfl⟩

theorem ri_pm {t t' : Terminal} (h : t.ri = some t') : PSame t t' := by
  unfold Terminal.ri at h
  split at h
  · exact scrollDownInRegion_pm h
  · split at h
    · exact doMoveCursorToRow_pm h
    · cases h; exact ⟨rfl, rfl, rfl, rfl⟩

theorem decalnRows_pm : ∀ (k row : Nat) {t t' : Terminal}, Terminal.decalnRows t row k = some t' → PSame t t'
  | 0, _, t, t', h => by cases h; exact ⟨rfl, rfl, rfl, rfl⟩
  | k + 1, row, t, t', h => by
    unfold Terminal.decalnRows at h
    split at h
    · cases h
    · rename_i b _
      split at h
      · cases h
      · rename_i t1 h1
        exact (PSame.trans (b := { t with buffer := b }) ⟨rfl, rfl, rfl, rfl⟩ (markDirty_pm h1)).trans
          (decalnRows_pm k (row + 1) h)

theorem ich_pm {t t' : Terminal} {n : Nat} (h : t.ich n = some t') : PSame t t' := by
  unfold Terminal.ich at h
  split at h
  · cases h
  · rename_i b _
    exact PSame.trans (b := { t with buffer := b }) ⟨rfl, rfl, rfl, rfl⟩ (markDirty_pm h)

theorem cub_pm {t t' : Terminal} {n : Nat} (h : t.cub n = some t') : PSame t t' := by
  unfold Terminal.cub at h
  exact moveCursorToRelCol_pm h

theorem cup_pm {t t' : Terminal} {r c : Nat} (h : t.cup r c = some t') : PSame t t' := by
  unfold Terminal.cup at h
  split at h
  · cases h
  · rename_i t1 h1
    exact (moveCursorToCol_pm h1).trans (moveCursorToRow_pm h)

theorem eraseWith_pm {t t' : Terminal} {m : Buffer.EraseMode} (h : t.eraseWith m = some t') :
    PSame t t' := map_pm h (fun _ => ⟨rfl, rfl, rfl, rfl⟩)

theorem ed_pm {t t' : Terminal} {s : EdScope} (h : t.ed s = some t') : PSame t t' := by
  unfold Terminal.ed at h
  cases s with
  | savedLines => cases h; exact ⟨rfl, rfl, rfl, rfl⟩
  | below | above | all =>
    simp only at h
    split at h
    · cases h
    · rename_i t1 h1
      exact (eraseWith_pm h1).trans (markDirtyRange_pm h)

theorem el_pm {t t' : Terminal} {s : ElScope} (h : t.el s = some t') : PSame t t' := by
  unfold Terminal.el at h
  simp only at h
  split at h
  · cases h
  · rename_i t1 h1
    exact (eraseWith_pm h1).trans (markDirty_pm h)

theorem ech_pm {t t' : Terminal} {n : Nat} (h : t.ech n = some t') : PSame t t' := by
  unfold Terminal.ech at h
  split at h
  · cases h
  · rename_i t1 h1
    exact (eraseWith_pm h1).trans (markDirty_pm h)

theorem il_pm {t t' : Terminal} {n : Nat} (h : t.il n = some t') : PSame t t' := by
  unfold Terminal.il at h
  simp only at h
  split at h
  · cases h
  · rename_i b _
    exact PSame.trans (b := { t with buffer := b }) ⟨rfl, rfl, rfl, rfl⟩ (markDirtyRange_pm h)

theorem dl_pm {t t' : Terminal} {n : Nat} (h : t.dl n = some t') : PSame t t' := by
  unfold Terminal.dl at h
  simp only at h
  split at h
  · cases h
  · rename_i b _
    exact PSame.trans (b := { t with buffer := b }) ⟨rfl, rfl, rfl, rfl⟩ (markDirtyRange_pm h)

theorem dch_pm {t t' : Terminal} {n : Nat} (h : t.dch n = some t') : PSame t t' := by
  unfold Terminal.dch at h
  simp only at h
  split at h
  · cases h
  · rename_i t1 ht1
    have h1 : PSame t t1 := by
      split at ht1
      · split at ht1
        · cases ht1
        · exact moveCursorToCol_pm ht1
      · cases ht1; exact ⟨rfl, rfl, rfl, rfl⟩
    split at h
    · cases h
    · rename_i b _
      exact h1.trans (PSame.trans (b := { t1 with buffer := b }) ⟨rfl, rfl, rfl, rfl⟩ (markDirty_pm h))


theorem print_pm {t t' : Terminal} {ch : Nat} (h : t.print ch = some t') : PSame t t' := by
  unfold Terminal.print at h
  split at h
  · cases h
  · split at h
    · cases h
    · simp only at h
      split at h
      · cases h
      · rename_i t1 ht1
        split at h
        · cases h
        · rename_i t2 ht2
          have h1 : PSame t t1 := by
            split at ht1
            · have h0 : PSame t (t.doMoveCursorToCol 0) := ⟨rfl, rfl, rfl, rfl⟩
              generalize t.doMoveCursorToCol 0 = t0 at ht1 h0
              split at ht1
              · split at ht1
                · cases ht1
                · rename_i b hb
                  have hb' : PSame t { t0 with buffer := b } := h0.trans ⟨rfl, rfl, rfl, rfl⟩
                  split at ht1
                  · cases ht1
                  · rename_i t3 ht3
                    have h3 := hb'.trans (scrollUpInRegion_pm ht3)
                    split at ht1
                    · cases ht1
                    · split at ht1
                      · split at ht1
                        · cases ht1
                        · exact h3.trans (map_pm ht1 (fun _ => ⟨rfl, rfl, rfl, rfl⟩))
                      · cases ht1; exact h3
              · split at ht1
                · cases ht1
                · split at ht1
                  · split at ht1
                    · cases ht1
                    · rename_i b hb
                      have hb' : PSame t { t0 with buffer := b } := h0.trans ⟨rfl, rfl, rfl, rfl⟩
                      exact hb'.trans (doMoveCursorToRow_pm ht1)
                  · cases ht1; exact h0
            · cases ht1; exact ⟨rfl, rfl, rfl, rfl⟩
          have h2 : PSame t1 t2 := by
            split at ht2
            · split at ht2
              · cases ht2
              · split at ht2
                · cases ht2
                · split at ht2
                  · cases ht2; exact ⟨rfl, rfl, rfl, rfl⟩
                  · cases ht2; exact ⟨rfl, rfl, rfl, rfl⟩
            · split at ht2
              · cases ht2
              · cases ht2; exact ⟨rfl, rfl, rfl, rfl⟩
          exact (h1.trans h2).trans (markDirty_pm h)

theorem printN_pm {ch : Nat} : ∀ (k : Nat) {t t' : Terminal}, t.printN ch k = some t' → PSame t t'
  | 0, t, t', h => by cases h; exact ⟨rfl, rfl, rfl, rfl⟩
  | k + 1, t, t', h => by
    unfold Terminal.printN at h
    split at h
    · cases h
    · rename_i t1 h1
      exact (print_pm h1).trans (printN_pm k h)

theorem rep_pm {t t' : Terminal} {n : Nat} (h : t.rep n = some t') : PSame t t' := by
  unfold Terminal.rep at h
  split at h
  · split at h
    · cases h
    · split at h
      · cases h
      · exact printN_pm _ h
  · cases h; exact ⟨rfl, rfl, rfl, rfl⟩

theorem sm_pm (ms : List AnsiMode) (hm : ms.any (· == AnsiMode.insert) = false) :
    ∀ t : Terminal, PSame t (t.sm ms) := by
  induction ms with
  | nil => intro t; exact ⟨rfl, rfl, rfl, rfl⟩
  | cons m ms ih =>
    intro t
    simp only [Terminal.sm, List.foldl_cons]
    simp only [List.any_cons, Bool.or_eq_false_iff] at hm
    cases m
    · exact absurd hm.1 (by decide)
    · exact PSame.trans (b := { t with newLineMode := true }) ⟨rfl, rfl, rfl, rfl⟩ (ih hm.2 _)

theorem rm_pm (ms : List AnsiMode) (hm : ms.any (· == AnsiMode.insert) = false) :
    ∀ t : Terminal, PSame t (t.rm ms) := by
  induction ms with
  | nil => intro t; exact ⟨rfl, rfl, rfl, rfl⟩
  | cons m ms ih =>
    intro t
    simp only [Terminal.rm, List.foldl_cons]
    simp only [List.any_cons, Bool.or_eq_false_iff] at hm
    cases m
    · exact absurd hm.1 (by decide)
    · exact PSame.trans (b := { t with newLineMode := false }) ⟨rfl, rfl, rfl, rfl⟩ (ih hm.2 _)

/-! ### save / restore, the switches of screens, reflow -/

theorem saveCursor_pm {t t' : Terminal} (h : t.saveCursor = some t') : PSame t t' :=
  map_pm h (fun _ => ⟨rfl, rfl, rfl, rfl⟩)

theorem switchToAlternateBuffer_pm {t t' : Terminal} (h : t.switchToAlternateBuffer = some t') :
    PSame t t' := by
  unfold Terminal.switchToAlternateBuffer at h
  split at h
  · simp only at h
    exact map_pm h (fun _ => ⟨rfl, rfl, rfl, rfl⟩)
  · cases h; exact ⟨rfl, rfl, rfl, rfl⟩

theorem switchToPrimaryBuffer_pm {t t' : Terminal} (h : t.switchToPrimaryBuffer = some t') :
    PSame t t' := by
  unfold Terminal.switchToPrimaryBuffer at h
  split at h
  · simp only at h
    exact map_pm h (fun _ => ⟨rfl, rfl, rfl, rfl⟩)
  · cases h; exact ⟨rfl, rfl, rfl, rfl⟩

/-- `Terminal.reflow` (the tail of every switch of screens) resizes the buffer, moves the cursor,
    flags rows and clamps the saved context — never the modes -/
theorem reflow_pm {t t' : Terminal} (h : t.reflow = some t') : PSame t t' := by
  rw [Spec.C17.reflow_eq] at h
  obtain ⟨b, col, row, d, _, rfl⟩ := Spec.C17.reflowCore_eq h
  split <;> exact ⟨rfl, rfl, rfl, rfl⟩

/-- `Terminal.resize` (what XTWINOPS performs when enabled, and `Vt::resize`) moves tab stops, resets
    the margins and reflows — never the modes that steer printing -/
theorem resize_pm {t t' : Terminal} {cols rows : Nat} (h : t.resize cols rows = some t') :
    PSame t t' := by
  unfold Terminal.resize at h
  simp only at h
  generalize ht0 : (if cols < t.cols then ({ t with tabs := Tabs.contract t.tabs cols } : Terminal)
      else if cols > t.cols then { t with tabs := Tabs.expand t.tabs t.cols cols } else t) = t0 at h
  have h0 : PSame t t0 := by
    subst ht0
    split
    · exact ⟨rfl, rfl, rfl, rfl⟩
    · split <;> exact ⟨rfl, rfl, rfl, rfl⟩
  split at h
  · cases h
  · rename_i t1 ht1
    have h1 : PSame t0 t1 := by
      split at ht1
      · exact map_pm ht1 (fun _ => ⟨rfl, rfl, rfl, rfl⟩)
      · cases ht1; exact ⟨rfl, rfl, rfl, rfl⟩
    exact (h0.trans h1).trans
      (PSame.trans (b := { t1 with cols := cols, rows := rows }) ⟨rfl, rfl, rfl, rfl⟩ (reflow_pm h))

theorem xtwinopsF_pm {t t' : Terminal} {c r : Nat} (h : t.xtwinopsF c r = some t') : PSame t t' := by
  unfold Terminal.xtwinopsF at h
  split at h
  · exact resize_pm h
  · cases h; exact ⟨rfl, rfl, rfl, rfl⟩

theorem decstbm_pm {t t' : Terminal} {a b : Nat} (h : t.decstbm a b = some t') : PSame t t' := by
  unfold Terminal.decstbm at h
  simp only at h
  split at h
  · cases h
  · rename_i bm _
    refine PSame.trans ?_ (moveCursorHome_pm h)
    split <;> exact ⟨rfl, rfl, rfl, rfl⟩

/-- setting a DEC mode other than auto-wrap — entering the alternate screen included -/
theorem decsetOne_pm {t t' : Terminal} {m : DecMode} (hm : m ≠ .autoWrap)
    (h : t.decsetOne m = some t') : PSame t t' := by
  cases m <;> simp only [Terminal.decsetOne] at h
  case cursorKeys => cases h; exact ⟨rfl, rfl, rfl, rfl⟩
  case origin => exact PSame.trans (b := { t with originMode := true }) ⟨rfl, rfl, rfl, rfl⟩ (moveCursorHome_pm h)
  case autoWrap => exact absurd rfl hm
  case textCursorEnable => cases h; exact ⟨rfl, rfl, rfl, rfl⟩
  case altScreenBuffer =>
    split at h
    · cases h
    · rename_i t1 h1
      exact (switchToAlternateBuffer_pm h1).trans (reflow_pm h)
  case saveCursor => exact saveCursor_pm h
  case saveCursorAltScreenBuffer =>
    split at h
    · cases h
    · rename_i t0 h0
      split at h
      · cases h
      · rename_i t1 h1
        exact ((saveCursor_pm h0).trans (switchToAlternateBuffer_pm h1)).trans (reflow_pm h)

/-- resetting a DEC mode other than auto-wrap and the two that restore the saved context — leaving
    the alternate screen with ?47l / ?1047l included -/
theorem decrstOne_pm {t t' : Terminal} {m : DecMode}
    (hm : m ≠ .autoWrap ∧ m ≠ .saveCursor ∧ m ≠ .saveCursorAltScreenBuffer)
    (h : t.decrstOne m = some t') : PSame t t' := by
  cases m <;> simp only [Terminal.decrstOne] at h
  case cursorKeys => cases h; exact ⟨rfl, rfl, rfl, rfl⟩
  case origin => exact PSame.trans (b := { t with originMode := false }) ⟨rfl, rfl, rfl, rfl⟩ (moveCursorHome_pm h)
  case autoWrap => exact absurd rfl hm.1
  case textCursorEnable => cases h; exact ⟨rfl, rfl, rfl, rfl⟩
  case altScreenBuffer =>
    split at h
    · cases h
    · rename_i t1 h1
      exact (switchToPrimaryBuffer_pm h1).trans (reflow_pm h)
  case saveCursor => exact absurd rfl hm.2.1
  case saveCursorAltScreenBuffer => exact absurd rfl hm.2.2

theorem foldM_pm {α} {f : Terminal → α → Option Terminal} :
    ∀ (as : List α) {t t' : Terminal}, (∀ a ∈ as, ∀ t t', f t a = some t' → PSame t t') →
      Terminal.foldM' f as t = some t' → PSame t t'
  | [], t, t', _, h => by cases h; exact ⟨rfl, rfl, rfl, rfl⟩
  | a :: as, t, t', hf, h => by
    unfold Terminal.foldM' at h
    split at h
    · rename_i t1 h1
      exact (hf a (by simp) _ _ h1).trans (foldM_pm as (fun b hb => hf b (by simp [hb])) h)
    · cases h

/-- **frame**: every function for which `setsPrintModes` is false leaves `autoWrapMode`, `insertMode`,
    `charsets` and `activeCharset` exactly as they are (all constructors of `Function`; no invariant) -/
theorem frame {t t' : Terminal} {f : Function} (hf : setsPrintModes f = false)
    (h : t.execute f = some t') : PSame t t' := by
  cases f <;> simp only [setsPrintModes, Bool.true_eq_false] at hf <;> simp only [Terminal.execute] at h
  case bs => exact bs_pm h
  case cbt n => exact moveCursorToPrevTab_pm h
  case cha n => exact moveCursorToCol_pm h
  case cht n => exact moveCursorToNextTab_pm h
  case cnl n =>
    cases hc : t.cursorDown (asUsize n 1) with
    | none => simp [hc] at h
    | some t1 =>
      simp only [hc, Option.map_some, Option.some.injEq] at h; subst h
      exact (cursorDown_pm hc).trans ⟨rfl, rfl, rfl, rfl⟩
  case cpl n =>
    cases hc : t.cursorUp (asUsize n 1) with
    | none => simp [hc] at h
    | some t1 =>
      simp only [hc, Option.map_some, Option.some.injEq] at h; subst h
      exact (cursorUp_pm hc).trans ⟨rfl, rfl, rfl, rfl⟩
  case cr => cases h; exact ⟨rfl, rfl, rfl, rfl⟩
  case ctc op => cases h; exact ctc_pm t op
  case cub n => exact cub_pm h
  case cud n => exact cursorDown_pm h
  case cuf n => exact moveCursorToRelCol_pm h
  case cup r c => exact cup_pm h
  case cuu n => exact cursorUp_pm h
  case dch n => exact dch_pm h
  case decaln => exact decalnRows_pm _ _ h
  case decrst ms =>
    refine foldM_pm ms (fun m hm _ _ hh => decrstOne_pm ?_ hh) h
    have := List.any_eq_false.mp hf m hm
    refine ⟨?_, ?_, ?_⟩ <;> rintro rfl <;> simp at this
  case decsc => exact saveCursor_pm h
  case decset ms =>
    refine foldM_pm ms (fun m hm _ _ hh => decsetOne_pm ?_ hh) h
    have := List.any_eq_false.mp hf m hm
    rintro rfl; simp at this
  case decstbm a b => exact decstbm_pm h
  case dl n => exact dl_pm h
  case ech n => exact ech_pm h
  case ed s => exact ed_pm h
  case el s => exact el_pm h
  case ht => exact moveCursorToNextTab_pm h
  case hts => cases h; exact setTab_pm t
  case ich n => exact ich_pm h
  case il n => exact il_pm h
  case lf => exact lf_pm h
  case nel => exact nel_pm h
  case print ch => exact print_pm h
  case rep n => exact rep_pm h
  case ri => exact ri_pm h
  case rm ms => cases h; exact rm_pm ms hf t
  case scosc => exact saveCursor_pm h
  case sd n => exact scrollDownInRegion_pm h
  case sgr ops => cases h; exact ⟨rfl, rfl, rfl, rfl⟩
  case sm ms => cases h; exact sm_pm ms hf t
  case su n => exact scrollUpInRegion_pm h
  case tbc s => cases h; exact tbc_pm t s
  case vpa n => exact moveCursorToRow_pm h
  case vpr n => exact cursorDown_pm h
  case xtwinops c r => exact xtwinopsF_pm h

/-! ### lifted to a list of functions, and to the public calls -/

/-- the fold of `execute` over functions none of which sets a mode that steers printing -/
theorem frame_many {fs : List Function} (hf : ∀ f ∈ fs, setsPrintModes f = false) :
    ∀ {t t' : Terminal}, Terminal.foldM' Terminal.execute fs t = some t' → PSame t t' := by
  induction fs with
  | nil => intro t t' h; cases h; exact ⟨rfl, rfl, rfl, rfl⟩
  | cons f fs ih =>
    intro t t' h
    unfold Terminal.foldM' at h
    split at h
    · rename_i t1 h1
      exact (frame (hf f (by simp)) h1).trans (ih (fun g hg => hf g (by simp [hg])) h)
    · cases h

/-- one character through `Vt.feed` -/
theorem feed_pm {v v' : Vt} {c : Nat} (hf : ∀ f ∈ Frame.emitted v.parser [c], setsPrintModes f = false)
    (h : v.feed c = some v') : PSame v.terminal v'.terminal := by
  unfold Vt.feed at h
  split at h
  · cases h
  · cases h; exact ⟨rfl, rfl, rfl, rfl⟩
  · rename_i p f hp
    obtain ⟨t1, h1, rfl⟩ := Option.map_eq_some_iff.mp h
    exact frame (hf f (by simp [Frame.emitted, hp])) h1

/-- a string through `Vt.feedAll` (per-character `Vt::feed`, no `changes()` / `gc()`) -/
theorem feedAll_pm : ∀ (xs : List Nat) {v v' : Vt},
    (∀ f ∈ Frame.emitted v.parser xs, setsPrintModes f = false) → v.feedAll xs = some v' →
    PSame v.terminal v'.terminal
  | [], v, v', _, h => by cases h; exact ⟨rfl, rfl, rfl, rfl⟩
  | c :: cs, v, v', hf, h => by
    simp only [Vt.feedAll] at h
    split at h
    · rename_i v1 h1
      rw [Frame.emitted_feed h1 cs] at hf
      exact (feed_pm (fun f hm => hf f (by simp [hm])) h1).trans
        (feedAll_pm cs (fun f hm => hf f (by simp [hm])) h)
    · cases h

/-- `changes()` + `gc()` do not touch the modes -/
theorem finish_pm (v : Vt) : PSame v.terminal v.finish.1.terminal := ⟨rfl, rfl, rfl, rfl⟩

/-- `Vt.feedStr` -/
theorem feedStr_pm {xs : List Nat} {v v' : Vt} {ch : Changes}
    (hf : ∀ f ∈ Frame.emitted v.parser xs, setsPrintModes f = false) (h : v.feedStr xs = some (v', ch)) :
    PSame v.terminal v'.terminal := by
  unfold Vt.feedStr at h
  obtain ⟨v1, h1, h2⟩ := Option.map_eq_some_iff.mp h
  have e : v' = v1.finish.1 := by rw [h2]
  subst e
  exact (feedAll_pm xs hf h1).trans (finish_pm v1)

/-- `Vt::resize` -/
theorem vtResize_pm {v v' : Vt} {ch : Changes} {cols rows : Nat}
    (h : v.resize cols rows = some (v', ch)) : PSame v.terminal v'.terminal := by
  unfold Vt.resize at h
  obtain ⟨t1, h1, h2⟩ := Option.map_eq_some_iff.mp h
  have e : v' = (Vt.finish { v with terminal := t1 }).1 := by rw [h2]
  subst e
  exact (resize_pm h1).trans (finish_pm { v with terminal := t1 })

end Avt.C04M
