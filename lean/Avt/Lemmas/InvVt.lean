/-
  Avt.Lemmas.InvVt — the invariant at the level of `Vt`: public operations, reachable states,
  `finish` (= `changes()` + `gc()`), and totality of the `dump` family.

  The parser half (`PInv` preserved by `Parser.feed`, which never panics) is proved elsewhere; here it
  is the explicit hypothesis `ParserOK`.
-/
import Avt.Lemmas.InvTerminal

namespace Avt

/-- contract of `Parser.feed` (proved in the parser block, C03/C20): under the register invariant it
    never panics and re-establishes the invariant.  Nothing is assumed about the emitted function:
    `Terminal.execute` is total on *every* `Function` value (`Terminal.execute_ok`). -/
def ParserOK : Prop :=
  ∀ (p : Parser) (c : Nat), PInv p = true → ∃ p' f, p.feed c = some (p', f) ∧ PInv p' = true

/-! ### public operations -/

/-- the four public mutators: `feed_str` (scrollback iterator consumed / dropped — the same state
    in the model), `feed` once per character (no `changes()`, no `gc()`), `resize` -/
inductive PubOp where
  | feedStr (s : List Nat)
  | feedDrop (s : List Nat)
  | feedChars (s : List Nat)
  | resize (c r : Nat)
  deriving DecidableEq, Repr

/-- the API contract of `resize`: at least one column and one row -/
def PubOp.valid : PubOp → Prop
  | .resize c r => 1 ≤ c ∧ 1 ≤ r
  | _ => True

instance : DecidablePred PubOp.valid := fun op => by
  cases op <;> simp only [PubOp.valid] <;> exact inferInstance

/-- does the call end with `changes()` + `gc()`? -/
def PubOp.finishes : PubOp → Bool
  | .feedChars _ => false
  | _ => true

/-- one public call -/
def step (v : Vt) : PubOp → Option Vt
  | .feedStr s => (v.feedStr s).map (·.1)
  | .feedDrop s => (v.feedStr s).map (·.1)
  | .feedChars s => v.feedAll s
  | .resize c r => (v.resize c r).map (·.1)

/-- a finite list of public calls -/
def run : Vt → List PubOp → Option Vt
  | v, [] => some v
  | v, op :: ops => match step v op with | some v' => run v' ops | none => none

/-- `v` is obtained from a fresh terminal (`cols, rows ≥ 1`, any scrollback limit) by a finite list of
    public calls -/
def Reach (v : Vt) : Prop :=
  ∃ (cols rows : Nat) (lim : Option Nat) (v0 : Vt) (ops : List PubOp),
    1 ≤ cols ∧ 1 ≤ rows ∧ Vt.new cols rows lim = some v0 ∧ (∀ op ∈ ops, op.valid) ∧ run v0 ops = some v

/-- the queries that can panic in Rust: `dump()` and `line(n)` for `n < rows`.  (`text`, `view`,
    `lines`, `cursor`, `size`, `cursor_key_app_mode`, draining `Changes.scrollback` and
    `TextCollector.flush` are total functions of the model: they contain no checked primitive.) -/
def queriesOK (v : Vt) : Prop :=
  v.dump.isSome = true ∧ ∀ n, n < v.terminal.rows → (v.line n).isSome = true

/-! ### geometry bookkeeping (no invariant needed) -/

namespace Terminal

theorem clampSavedCol_size {t t' : Terminal} (h : t.clampSavedCol = some t') :
    t'.cols = t.cols ∧ t'.rows = t.rows := by
  unfold clampSavedCol at h
  split at h
  · cases hc : csub t.cols 1 <;> simp [hc] at h
    subst h; exact ⟨rfl, rfl⟩
  · cases h; exact ⟨rfl, rfl⟩

theorem clampSavedRow_size {t t' : Terminal} (h : t.clampSavedRow = some t') :
    t'.cols = t.cols ∧ t'.rows = t.rows := by
  unfold clampSavedRow at h
  split at h
  · cases hc : csub t.rows 1 <;> simp [hc] at h
    subst h; exact ⟨rfl, rfl⟩
  · cases h; exact ⟨rfl, rfl⟩

theorem reflowTail_size {t t' : Terminal} (h : t.reflowTail = some t') :
    t'.cols = t.cols ∧ t'.rows = t.rows := by
  unfold reflowTail at h
  cases h1 : t.markDirtyRange 0 t.rows with
  | none => simp [h1] at h
  | some t1 =>
    have e1 : t1.cols = t.cols ∧ t1.rows = t.rows := by
      simp only [markDirtyRange] at h1
      cases hd : Dirty.extend t.dirtyLines 0 t.rows <;> simp [hd] at h1
      subst h1; exact ⟨rfl, rfl⟩
    simp only [h1] at h
    cases h2 : t1.clampSavedCol with
    | none => simp [h2] at h
    | some t2 =>
      simp only [h2] at h
      have e2 := clampSavedCol_size h2
      have e3 := clampSavedRow_size h
      exact ⟨e3.1.trans (e2.1.trans e1.1), e3.2.trans (e2.2.trans e1.2)⟩

theorem reflow_size {t t' : Terminal} (h : t.reflow = some t') :
    t'.cols = t.cols ∧ t'.rows = t.rows := by
  rw [reflow_eq] at h
  split at h
  · simp only [] at h
    split at h
    · cases h
    · have e := reflowTail_size h; exact e
  · simp only [] at h
    split at h
    · cases h
    · have e := reflowTail_size h; exact e

theorem resize_size {t t' : Terminal} {cols rows : Nat} (h : t.resize cols rows = some t') :
    t'.cols = cols ∧ t'.rows = rows := by
  rw [resize_eq] at h
  split at h
  · split at h
    · cases h
    · exact reflow_size h
  · exact reflow_size h

end Terminal

/-! ### the invariant along public calls -/

namespace Vt

theorem inv_iff (v : Vt) : Inv v = true ↔ PInv v.parser = true ∧ TOK v.terminal := by
  simp [Inv, TInv_iff]

theorem new_ok {cols rows : Nat} (lim : Option Nat) (hc : 1 ≤ cols) (hr : 1 ≤ rows) :
    ∃ v, Vt.new cols rows lim = some v ∧ Inv v = true := by
  obtain ⟨t, h1, h2⟩ := Terminal.new_ok lim hc hr
  refine ⟨{ parser := Parser.new, terminal := t }, by simp [Vt.new, h1], ?_⟩
  rw [inv_iff]
  exact ⟨show PInv Parser.new = true by decide, h2⟩

theorem feed_ok (hR : ResizeOK) (hP : ParserOK) {v : Vt} (c : Nat) (h : Inv v = true) :
    ∃ v', v.feed c = some v' ∧ Inv v' = true := by
  obtain ⟨hp, ht⟩ := (inv_iff v).1 h
  obtain ⟨p', f, h1, h2⟩ := hP v.parser c hp
  unfold Vt.feed
  rw [h1]
  cases f with
  | none => exact ⟨_, rfl, (inv_iff _).2 ⟨h2, ht⟩⟩
  | some f =>
    obtain ⟨t', h3, h4⟩ := Terminal.execute_ok hR f ht
    simp only [h3]
    exact ⟨_, rfl, (inv_iff _).2 ⟨h2, h4⟩⟩

theorem feedAll_ok (hR : ResizeOK) (hP : ParserOK) (s : List Nat) :
    ∀ {v : Vt}, Inv v = true → ∃ v', v.feedAll s = some v' ∧ Inv v' = true := by
  induction s with
  | nil => intro v h; exact ⟨v, rfl, h⟩
  | cons c cs ih =>
    intro v h
    obtain ⟨v1, h1, h2⟩ := feed_ok hR hP c h
    simp only [feedAll, h1]
    exact ih h2

/-- `feed` and `feedAll` never change the size -/
theorem finish_fst (v : Vt) :
    (v.finish).1 = { v with terminal := (v.terminal.changes.1.gc).1 } := rfl

theorem finish_snd_lines (v : Vt) : (v.finish).2.lines = Dirty.toVec v.terminal.dirtyLines := rfl

theorem finish_size (v : Vt) :
    (v.finish).1.terminal.cols = v.terminal.cols ∧ (v.finish).1.terminal.rows = v.terminal.rows :=
  ⟨rfl, rfl⟩

theorem finish_ok {v : Vt} (h : Inv v = true) :
    Inv (v.finish).1 = true ∧ (v.finish).1.terminal.buffer.trimNeeded = false
      ∧ changesOK (v.finish).1.terminal.rows (v.finish).2.lines = true := by
  obtain ⟨hp, ht⟩ := (inv_iff v).1 h
  have h1 := Terminal.changes_ok ht
  refine ⟨(inv_iff _).2 ⟨hp, Terminal.gc_ok h1⟩, ?_, ?_⟩
  · exact (Buffer.gc_ok h1.bok).2.2.1
  · rw [finish_snd_lines, (finish_size v).2, ← ht.dirty]
    exact Dirty.toVec_ok _

theorem feedStr_ok (hR : ResizeOK) (hP : ParserOK) {v : Vt} (s : List Nat) (h : Inv v = true) :
    ∃ v' ch, v.feedStr s = some (v', ch) ∧ Inv v' = true
      ∧ v'.terminal.buffer.trimNeeded = false ∧ changesOK v'.terminal.rows ch.lines = true := by
  obtain ⟨v1, h1, h2⟩ := feedAll_ok hR hP s h
  obtain ⟨h3, h4, h5⟩ := finish_ok h2
  exact ⟨v1.finish.1, v1.finish.2, by simp [feedStr, h1], h3, h4, h5⟩

theorem resize_ok (hR : ResizeOK) {v : Vt} {c r : Nat} (h : Inv v = true) (hc : 1 ≤ c)
    (hr : 1 ≤ r) :
    ∃ v' ch, v.resize c r = some (v', ch) ∧ Inv v' = true
      ∧ v'.terminal.buffer.trimNeeded = false ∧ changesOK v'.terminal.rows ch.lines = true
      ∧ v'.size = (c, r) := by
  obtain ⟨hp, ht⟩ := (inv_iff v).1 h
  obtain ⟨t', h1, h2⟩ := Terminal.resize_ok hR ht hc hr
  have hs := Terminal.resize_size h1
  have hi : Inv ({ v with terminal := t' } : Vt) = true := (inv_iff _).2 ⟨hp, h2⟩
  obtain ⟨h3, h4, h5⟩ := finish_ok hi
  refine ⟨_, _, by simp only [Vt.resize, h1, Option.map_some], h3, h4, h5, ?_⟩
  show ((finish { v with terminal := t' }).1.terminal.cols, (finish { v with terminal := t' }).1.terminal.rows) = (c, r)
  rw [(finish_size _).1, (finish_size _).2]
  exact Prod.ext hs.1 hs.2

end Vt

theorem step_ok (hR : ResizeOK) (hP : ParserOK) {v : Vt} (op : PubOp) (h : Inv v = true)
    (hv : op.valid) : ∃ v', step v op = some v' ∧ Inv v' = true := by
  cases op with
  | feedStr s =>
    obtain ⟨v', ch, h1, h2, _⟩ := Vt.feedStr_ok hR hP s h
    exact ⟨v', by simp [step, h1], h2⟩
  | feedDrop s =>
    obtain ⟨v', ch, h1, h2, _⟩ := Vt.feedStr_ok hR hP s h
    exact ⟨v', by simp [step, h1], h2⟩
  | feedChars s => exact Vt.feedAll_ok hR hP s h
  | resize c r =>
    obtain ⟨v', ch, h1, h2, _⟩ := Vt.resize_ok hR h hv.1 hv.2
    exact ⟨v', by simp [step, h1], h2⟩

/-- after a finishing call (`feed_str`, `resize`) the active buffer has been trimmed -/
theorem step_trimmed (hR : ResizeOK) (hP : ParserOK) {v v' : Vt} {op : PubOp} (h : Inv v = true)
    (hv : op.valid) (hf : op.finishes = true) (hs : step v op = some v') :
    v'.terminal.buffer.trimNeeded = false := by
  cases op with
  | feedStr s =>
    obtain ⟨v1, ch, h1, _, h3, _⟩ := Vt.feedStr_ok hR hP s h
    simp [step, h1] at hs; subst hs; exact h3
  | feedDrop s =>
    obtain ⟨v1, ch, h1, _, h3, _⟩ := Vt.feedStr_ok hR hP s h
    simp [step, h1] at hs; subst hs; exact h3
  | feedChars s => cases hf
  | resize c r =>
    obtain ⟨v1, ch, h1, _, h3, _⟩ := Vt.resize_ok hR h hv.1 hv.2
    simp [step, h1] at hs; subst hs; exact h3

theorem run_ok (hR : ResizeOK) (hP : ParserOK) (ops : List PubOp) :
    ∀ {v : Vt}, Inv v = true → (∀ op ∈ ops, op.valid) → ∃ v', run v ops = some v' ∧ Inv v' = true := by
  induction ops with
  | nil => intro v h _; exact ⟨v, rfl, h⟩
  | cons op ops ih =>
    intro v h hv
    obtain ⟨v1, h1, h2⟩ := step_ok hR hP op h (hv op (List.mem_cons_self ..))
    simp only [run, h1]
    exact ih h2 fun o ho => hv o (List.mem_cons_of_mem _ ho)

theorem reach_inv (hR : ResizeOK) (hP : ParserOK) {v : Vt} (h : Reach v) : Inv v = true := by
  obtain ⟨cols, rows, lim, v0, ops, hc, hr, h0, hv, hrun⟩ := h
  obtain ⟨v0', h1, h2⟩ := Vt.new_ok lim hc hr
  rw [h0] at h1; cases h1
  obtain ⟨v', h3, h4⟩ := run_ok hR hP ops h2 hv
  rw [hrun] at h3; cases h3
  exact h4

end Avt
