/-
  Avt.Lemmas.C11Steps5 — the switches `?1047h` / `?1047l` on stages, and dump steps 7–14 on the general
  stage `stageG`, including the `CSI u` route of step 9 (origin mode on, cursor outside the region) under
  `cursorStepFaithful`.
-/
import Avt.Lemmas.C11Steps4

namespace Avt
namespace Lemmas.C11
open Avt.Spec.C11 Avt.Spec.C04 Avt.C04L Avt.Terminal

/-! ### the switches -/

theorem feeds_1047h (t : Terminal) (h : TInv t = true) :
    Feeds [csi, 0x3f, 0x31, 0x30, 0x34, 0x37, 0x68] t (enterAlt t) :=
  Feeds.one emits_1047h (by simp [Terminal.execute, foldM', decset_alt_eq t h])

theorem feeds_1047l (t : Terminal) (h : TInv t = true) (hg : resizedOnAlt t = false) :
    Feeds [csi, 0x3f, 0x31, 0x30, 0x34, 0x37, 0x6c] t (leaveAlt t false) :=
  Feeds.one emits_1047l (by simp [Terminal.execute, foldM', decrst_alt_eq' t h hg])

/-- `reflow` at an unchanged geometry flags the buffer for trimming -/
def trimmed (b : Buffer) : Buffer := { b with trimNeeded := true }

theorem enterAlt_stageG (T : Terminal) (B O : Buffer) (sc asc : SavedCtx) (k : Nat) (aw : Bool) (c r : Nat)
    (pw : Bool) (p : Pen) (d : List Bool) :
    enterAlt (stageG T .primary B O sc asc k aw c r pw p d)
      = stageG T .alternate (trimmed (Buffer.new T.cols T.rows (some 0) (some p))) B
          (clampCtx asc T.cols T.rows) sc k aw c r pw p (List.replicate T.rows true) := rfl

theorem leaveAlt_stageG (T : Terminal) (B O : Buffer) (sc asc : SavedCtx) (k : Nat) (aw : Bool) (c r : Nat)
    (pw : Bool) (p : Pen) (d : List Bool) :
    leaveAlt (stageG T .alternate B O sc asc k aw c r pw p d) false
      = stageG T .primary (trimmed O) B (clampCtx asc T.cols T.rows) sc k aw c r pw p
          (List.replicate T.rows true) := rfl

/-! ### relative cursor moves depend on, and change, the cursor only -/

open Avt.Spec.C05 in
/-- CUB / CUF / CUU / CUD -/
def relMove : Function → Bool
  | .cub _ | .cuf _ | .cuu _ | .cud _ => true
  | _ => false

/-- the fields a relative move reads -/
structure SameCur (a b : Terminal) : Prop where
  col : a.cursor.col = b.cursor.col
  row : a.cursor.row = b.cursor.row
  cols : a.cols = b.cols
  rows : a.rows = b.rows
  top : a.topMargin = b.topMargin
  bottom : a.bottomMargin = b.bottomMargin

open Avt.Spec.C05 in
theorem relMove_spec {a b : Terminal} {f : Function} (hf : relMove f = true) (hab : SameCur a b) :
    ∃ col row, moveSpec a f = cursorAt a col row ∧ moveSpec b f = cursorAt b col row := by
  obtain ⟨h1, h2, h3, h4, h5, h6⟩ := hab
  cases f <;> simp only [relMove, Bool.false_eq_true] at hf
  case cub n => exact ⟨_, _, rfl, by simp only [moveSpec, left, realCol, lastCol, h1, h2, h3]⟩
  case cuf n => exact ⟨_, _, rfl, by simp only [moveSpec, right, lastCol, h1, h2, h3]⟩
  case cuu n => exact ⟨_, _, rfl, by simp only [moveSpec, up, realCol, lastCol, h1, h2, h3, h5]⟩
  case cud n => exact ⟨_, _, rfl, by simp only [moveSpec, down, realCol, lastCol, lastRow, h1, h2, h3, h4, h6]⟩

open Avt.Spec.C05 in
theorem relMove_covered {a : Terminal} {f : Function} (hf : relMove f = true) : covered a f = true := by
  cases f <;> simp only [relMove, Bool.false_eq_true] at hf <;> rfl

open Avt.Spec.C05 in
/-- a list of relative moves run on two terminals that agree on what the moves read: both succeed and
    place the cursor at the same position, touching nothing else -/
theorem moves_sim : ∀ (fs : List Function), (∀ f ∈ fs, relMove f = true) → ∀ (a b : Terminal),
    TInv a = true → TInv b = true → a.pendingWrap = false → b.pendingWrap = false → SameCur a b →
    ∃ col row, foldM' Terminal.execute fs a = some (cursorAt a col row)
      ∧ foldM' Terminal.execute fs b = some (cursorAt b col row)
  | [], _, a, b, _, _, pa, pb, hab => by
    refine ⟨a.cursor.col, a.cursor.row, ?_, ?_⟩
    · simp only [foldM', cursorAt, ← pa]
    · simp only [foldM', cursorAt, ← pb, hab.col, hab.row]
  | f :: fs, hfs, a, b, ha, hb, _, _, hab => by
    have hf := hfs f (List.mem_cons_self ..)
    obtain ⟨col, row, ea, eb⟩ := relMove_spec hf hab
    have xa := C05_move ha (relMove_covered (a := a) hf)
    have xb := C05_move hb (relMove_covered (a := b) hf)
    rw [ea] at xa
    rw [eb] at xb
    have ia : TInv (cursorAt a col row) = true := by
      obtain ⟨t', e, i⟩ := Props.Closed.C02_execute f ha
      rw [xa] at e; cases e; exact i
    have ib : TInv (cursorAt b col row) = true := by
      obtain ⟨t', e, i⟩ := Props.Closed.C02_execute f hb
      rw [xb] at e; cases e; exact i
    obtain ⟨col', row', e1, e2⟩ := moves_sim fs (fun g hg => hfs g (List.mem_cons_of_mem _ hg))
      (cursorAt a col row) (cursorAt b col row) ia ib rfl rfl
      ⟨rfl, rfl, hab.cols, hab.rows, hab.top, hab.bottom⟩
    exact ⟨col', row', by simp only [foldM', xa, e1]; rfl, by simp only [foldM', xb, e2]; rfl⟩

/-! ### dump steps 7–14 on the general stage -/

section late
set_option linter.unusedSectionVars false
variable {T : Terminal} (h : GenOK T) (abt : BufferType) (B O : Buffer) (sc asc : SavedCtx)
include h

theorem g_origin (c r : Nat) (pw : Bool) (p : Pen) (d : List Bool) :
    ∃ c' r' pw', Feeds (if T.originMode then [csi, 0x3f, 0x36, 0x68] else [])
      (stageG T abt B O sc asc 2 true c r pw p d) (stageG T abt B O sc asc 7 true c' r' pw' p d) := by
  have ht := TOK.of_TInv h.inv
  cases ho : T.originMode with
  | true =>
    simp only [if_true]
    have f := feeds_originOn (stageG T abt B O sc asc 2 true c r pw p d) ht.c1
    refine ⟨0, 0, false, ?_⟩
    exact (f).to (by simp only [stageG, ho]; rfl)
  | false =>
    simp only [Bool.false_eq_true, if_false]
    refine ⟨c, r, pw, ?_⟩
    have : stageG T abt B O sc asc 7 true c r pw p d = stageG T abt B O sc asc 2 true c r pw p d := by
      simp only [stageG, ho]; rfl
    rw [this]; exact Feeds.nil _

theorem g_margins (c r : Nat) (pw : Bool) (p : Pen) (d : List Bool) :
    ∃ c' r' pw', Feeds (if T.topMargin > 0 || T.bottomMargin < T.rows - 1
        then csi :: renderDec (T.topMargin + 1) ++ [0x3b] ++ renderDec (T.bottomMargin + 1) ++ [0x72] else [])
      (stageG T abt B O sc asc 7 true c r pw p d) (stageG T abt B O sc asc 8 true c' r' pw' p d) := by
  have ht := TOK.of_TInv h.inv
  obtain ⟨m1, m2, m3⟩ := ht.marg
  by_cases hcnd : (decide (T.topMargin > 0) || decide (T.bottomMargin < T.rows - 1)) = true
  · rw [if_pos hcnd]
    have hlt : T.topMargin < T.bottomMargin := by
      simp only [Bool.or_eq_true, decide_eq_true_eq] at hcnd
      omega
    have f := feeds_decstbm (stageG T abt B O sc asc 7 true c r pw p d) T.topMargin T.bottomMargin ht.c1 hlt m2 h.rows
    refine ⟨0, if T.originMode then T.topMargin else 0, false, ?_⟩
    exact f.to (by simp only [stageG]; rfl)
  · rw [if_neg hcnd]
    simp only [Bool.or_eq_true, decide_eq_true_eq, not_or, Nat.not_lt, Nat.le_zero_eq] at hcnd
    have e1 : T.topMargin = 0 := by omega
    have e2 : T.bottomMargin = T.rows - 1 := by omega
    refine ⟨c, r, pw, ?_⟩
    have : stageG T abt B O sc asc 8 true c r pw p d = stageG T abt B O sc asc 7 true c r pw p d := by
      simp only [stageG, e1, e2]; rfl
    rw [this]; exact Feeds.nil _

/-- step 9, CUP route (origin mode off, or the cursor inside the region) -/
theorem g_cursor_inside (hin : cursorOutsideRegion T = false) (c r : Nat) (pw : Bool) (p : Pen) (d : List Bool) :
    Feeds T.dumpCursor (stageG T abt B O sc asc 8 true c r pw p d)
      (stageG T abt B O sc asc 8 true (min T.cursor.col (T.cols - 1)) T.cursor.row false p d) := by
  have ht := TOK.of_TInv h.inv
  obtain ⟨m1, m2, m3⟩ := ht.marg
  have hins : T.originMode = false ∨ (T.topMargin ≤ T.cursor.row ∧ T.cursor.row ≤ T.bottomMargin) := by
    simp only [cursorOutsideRegion, Bool.and_eq_false_iff, Bool.or_eq_false_iff, decide_eq_false_iff_not] at hin
    rcases hin with hin | hin
    · exact Or.inl hin
    · exact Or.inr ⟨by omega, by omega⟩
  have hdc : T.dumpCursor
      = cupSeq ((if T.originMode then T.cursor.row - T.topMargin else T.cursor.row) + 1) (T.cursor.col + 1) := by
    unfold dumpCursor
    cases ho : T.originMode with
    | false => simp
    | true =>
      rcases hins with hi | ⟨h1, h2⟩
      · rw [ho] at hi; cases hi
      · have : (decide (T.cursor.row < T.topMargin) || decide (T.cursor.row > T.bottomMargin)) = false := by
          simp; omega
        simp [this]
  rw [hdc]
  have hrow := ht.crow
  have hcol : T.cursor.col ≤ T.cols := by
    rcases ht.ccol with ⟨_, h2⟩ | ⟨_, h2⟩ <;> omega
  have f := feeds_cup (stageG T abt B O sc asc 8 true c r pw p d)
    (if T.originMode then T.cursor.row - T.topMargin else T.cursor.row)
    T.cursor.col ht.c1 ht.r1 (by have := h.rows; split <;> omega) (by have := h.cols; omega)
  have hrw : (if T.originMode
      then min (T.topMargin + (if T.originMode then T.cursor.row - T.topMargin else T.cursor.row)) T.bottomMargin
      else min (if T.originMode then T.cursor.row - T.topMargin else T.cursor.row) (T.rows - 1)) = T.cursor.row := by
    cases ho : T.originMode with
    | false => simp; omega
    | true =>
      rcases hins with hi | ⟨h1, h2⟩
      · rw [ho] at hi; cases hi
      · simp; omega
  exact f.to (by simp only [stageG]; simp only [Nat.reduceLeDiff, if_true, hrw])

omit h in
/-- the relative moves of step 9 as the parser reads them -/
theorem emits_step9 (ht : TOK T) (hc : T.cols < 65535) (hr : T.rows ≤ 65535) :
    Emits ((if T.cursor.col < T.savedCtx.cursorCol then csi :: renderDec (T.savedCtx.cursorCol - T.cursor.col) ++ [0x44]
            else if T.cursor.col > T.savedCtx.cursorCol then csi :: renderDec (T.cursor.col - T.savedCtx.cursorCol) ++ [0x43]
            else [])
        ++ (if T.cursor.row < T.savedCtx.cursorRow then csi :: renderDec (T.savedCtx.cursorRow - T.cursor.row) ++ [0x41]
            else if T.cursor.row > T.savedCtx.cursorRow then csi :: renderDec (T.cursor.row - T.savedCtx.cursorRow) ++ [0x42]
            else []))
      (step9Moves T) := by
  have hcol : T.cursor.col ≤ T.cols := ht.ccol_le
  have hrow := ht.crow
  obtain ⟨s1, s2⟩ := ht.sctx
  unfold step9Moves
  apply Emits.append
  · split
    · exact emits_cub _ (by omega)
    · split
      · exact emits_cuf _ (by omega)
      · exact Emits.nil
  · split
    · exact emits_cuu _ (by omega)
    · split
      · exact emits_cud _ (by omega)
      · exact Emits.nil

omit h in
theorem step9Moves_rel (T : Terminal) : ∀ f ∈ step9Moves T, relMove f = true := by
  intro f hf
  unfold step9Moves at hf
  simp only [List.mem_append] at hf
  rcases hf with hf | hf
  · split at hf
    · simp only [List.mem_singleton] at hf; subst hf; rfl
    · split at hf
      · simp only [List.mem_singleton] at hf; subst hf; rfl
      · cases hf
  · split at hf
    · simp only [List.mem_singleton] at hf; subst hf; rfl
    · split at hf
      · simp only [List.mem_singleton] at hf; subst hf; rfl
      · cases hf

/-- step 9, `CSI u` route (origin mode on, the cursor outside the region) under `cursorStepFaithful`:
    `CSI u` restores the active saved context — position, pen, origin mode, auto-wrap; pending wrap
    cleared — and the emitted CUB/CUF/CUU/CUD reach the cursor.  Auto-wrap and pen are left as the saved
    context has them (later steps re-establish them). -/
theorem g_cursor_outside (hout : cursorOutsideRegion T = true) (hf : cursorStepFaithful T = true)
    (c r : Nat) (pw : Bool) (p : Pen) (d : List Bool)
    (hX : TInv (stageG T abt B O T.savedCtx asc 8 true c r pw p d) = true) :
    Feeds T.dumpCursor (stageG T abt B O T.savedCtx asc 8 true c r pw p d)
      (stageG T abt B O T.savedCtx asc 8 T.savedCtx.autoWrapMode (min T.cursor.col (T.cols - 1)) T.cursor.row false
        T.savedCtx.pen d) := by
  have ht := TOK.of_TInv h.inv
  simp only [cursorStepFaithful, hout, Bool.not_true, Bool.false_or, Bool.and_eq_true] at hf
  obtain ⟨hm, hp⟩ := hf
  have hom : T.savedCtx.originMode = T.originMode := by
    simp only [step9ModesFaithful, afterCsiU, restoreCursor, Bool.and_eq_true, beq_iff_eq] at hm
    exact hm.1.1
  have hout' := hout
  simp only [cursorOutsideRegion, Bool.and_eq_true, Bool.or_eq_true, decide_eq_true_eq] at hout'
  obtain ⟨ho, hrr⟩ := hout'
  -- the text
  have hdc : T.dumpCursor = [csi, 0x75]
      ++ ((if T.cursor.col < T.savedCtx.cursorCol then csi :: renderDec (T.savedCtx.cursorCol - T.cursor.col) ++ [0x44]
            else if T.cursor.col > T.savedCtx.cursorCol then csi :: renderDec (T.cursor.col - T.savedCtx.cursorCol) ++ [0x43]
            else [])
        ++ (if T.cursor.row < T.savedCtx.cursorRow then csi :: renderDec (T.savedCtx.cursorRow - T.cursor.row) ++ [0x41]
            else if T.cursor.row > T.savedCtx.cursorRow then csi :: renderDec (T.cursor.row - T.savedCtx.cursorRow) ++ [0x42]
            else [])) := by
    unfold dumpCursor
    have : (decide (T.cursor.row < T.topMargin) || decide (T.cursor.row > T.bottomMargin)) = true := by
      simpa using hrr
    simp only [ho, if_true, this, List.append_assoc]
  rw [hdc]
  -- CSI u
  have f1 : Feeds [csi, 0x75] (stageG T abt B O T.savedCtx asc 8 true c r pw p d)
      (stageG T abt B O T.savedCtx asc 8 T.savedCtx.autoWrapMode T.savedCtx.cursorCol T.savedCtx.cursorRow false
        T.savedCtx.pen d) :=
    (Feeds.one emits_scorc (t := stageG T abt B O T.savedCtx asc 8 true c r pw p d) rfl).to (by
      simp only [restoreCursor, stageG, hom]; rfl)
  have i1 := f1.TInv hX
  -- the moves
  have iT : TInv T.restoreCursor = true := by
    obtain ⟨t', e, i⟩ := Props.Closed.C02_execute .scorc h.inv
    simp only [Terminal.execute, Option.some.injEq] at e
    rw [e]; exact i
  obtain ⟨col, row, e1, e2⟩ := moves_sim (step9Moves T) (step9Moves_rel T)
    (stageG T abt B O T.savedCtx asc 8 T.savedCtx.autoWrapMode T.savedCtx.cursorCol T.savedCtx.cursorRow false
        T.savedCtx.pen d) T.restoreCursor i1 iT rfl rfl ⟨rfl, rfl, rfl, rfl, rfl, rfl⟩
  have hpos : row = T.cursor.row ∧ col = min T.cursor.col (T.cols - 1) := by
    simp only [step9PositionFaithful, step9Sim, afterCsiU, e2, Bool.and_eq_true, beq_iff_eq] at hp
    exact ⟨hp.1, hp.2⟩
  have f2 := Feeds.of_emits (emits_step9 ht h.cols h.rows) e1
  rw [hpos.1, hpos.2] at f2
  exact f1.append (f2.to rfl)

/-- step 9, second half: the wrap-pending re-print (needs auto-wrap on at this point — on the `CSI u`
    route this is a clause of `cursorStepFaithful`) -/
theorem g_pending (aw : Bool) (haw : T.cursor.col ≥ T.cols → aw = true) (hview : B.view = T.buffer.view)
    (hcell : ∀ l ∈ T.buffer.view, ∀ c ∈ l.cells, CellOK c) (p : Pen) (d : List Bool)
    (hinv : TInv (stageG T abt B O sc asc 8 aw (min T.cursor.col (T.cols - 1)) T.cursor.row false p d) = true) :
    ∃ s p' d',
      ((T.cursor.col ≥ T.cols ∧ ∃ line cell pd, T.buffer.view[T.cursor.row]? = some line
          ∧ line.cells[T.cols - 1]? = some cell ∧ cell.pen.dump = some pd ∧ s = pd ++ [cell.ch])
        ∨ (¬ T.cursor.col ≥ T.cols ∧ s = []))
      ∧ Feeds s (stageG T abt B O sc asc 8 aw (min T.cursor.col (T.cols - 1)) T.cursor.row false p d)
          (stageG T abt B O sc asc 8 aw T.cursor.col T.cursor.row T.pendingWrap p' d') := by
  have ht := TOK.of_TInv h.inv
  by_cases hge : T.cursor.col ≥ T.cols
  · have hpw : T.pendingWrap = true ∧ T.cursor.col = T.cols := by
      rcases ht.ccol with h1 | ⟨_, h2⟩
      · exact h1
      · omega
    have hlt : T.cursor.row < T.buffer.view.length := by rw [ht.bok.hv, ht.brows]; exact ht.crow
    have hw := ht.bok.hvw _ (List.getElem_mem hlt)
    have hlt2 : T.cols - 1 < (T.buffer.view[T.cursor.row]).cells.length := by
      rw [hw, ht.bcols]; have := ht.c1; omega
    have hcellOK : CellOK (T.buffer.view[T.cursor.row]).cells[T.cols - 1] :=
      hcell _ (List.getElem_mem hlt) _ (List.getElem_mem hlt2)
    have hm : min T.cursor.col (T.cols - 1) = T.cols - 1 := by omega
    have hawt := haw hge
    subst hawt
    obtain ⟨pd, hpd, f⟩ := feeds_pendingPrint (stageG T abt B O sc asc 8 true (min T.cursor.col (T.cols - 1)) T.cursor.row false p d)
      (T.buffer.view[T.cursor.row]) ((T.buffer.view[T.cursor.row]).cells[T.cols - 1]) hinv
      (by show min T.cursor.col (T.cols - 1) + 1 = T.cols; have := ht.c1; omega) rfl ⟨rfl, rfl⟩
      (by show B.view[T.cursor.row]? = _; rw [hview]; exact List.getElem?_eq_getElem hlt)
      (List.getElem?_eq_getElem hlt2) hcellOK
    refine ⟨pd ++ [(T.buffer.view[T.cursor.row]).cells[T.cols - 1].ch],
      (T.buffer.view[T.cursor.row]).cells[T.cols - 1].pen, d.set T.cursor.row true, ?_, ?_⟩
    · exact Or.inl ⟨hge, _, _, pd, List.getElem?_eq_getElem hlt, List.getElem?_eq_getElem hlt2, hpd, rfl⟩
    · exact f.to (by simp only [stageG, hpw.1, hpw.2])
  · have hpw : T.pendingWrap = false := by
      rcases ht.ccol with ⟨_, h2⟩ | ⟨h1, _⟩
      · omega
      · exact h1
    have hm : min T.cursor.col (T.cols - 1) = T.cursor.col := by omega
    refine ⟨[], p, d, Or.inr ⟨hge, rfl⟩, ?_⟩
    rw [hm, hpw]; exact Feeds.nil _

theorem g_pen (aw : Bool) (c r : Nat) (pw : Bool) (p : Pen) (d : List Bool) :
    ∃ pd, T.pen.dump = some pd ∧ Feeds pd (stageG T abt B O sc asc 8 aw c r pw p d) (stageG T abt B O sc asc 8 aw c r pw T.pen d) := by
  obtain ⟨pd, hpd, f⟩ := feeds_pen T.pen h.pen (stageG T abt B O sc asc 8 aw c r pw p d)
  exact ⟨pd, hpd, f⟩

theorem g_vis (aw : Bool) (c r : Nat) (pw : Bool) (p : Pen) (d : List Bool) :
    Feeds (if !T.cursor.visible then [csi, 0x3f, 0x32, 0x35, 0x6c] else [])
      (stageG T abt B O sc asc 8 aw c r pw p d) (stageG T abt B O sc asc 10 aw c r pw p d) := by
  cases hv : T.cursor.visible with
  | false =>
    simp only [Bool.not_false, if_true]
    exact (feeds_hideCursor _).to (by simp only [stageG, hv]; rfl)
  | true =>
    simp only [Bool.not_true, Bool.false_eq_true, if_false]
    have : stageG T abt B O sc asc 10 aw c r pw p d = stageG T abt B O sc asc 8 aw c r pw p d := by
      simp only [stageG, hv]; rfl
    rw [this]; exact Feeds.nil _

theorem g_g0 (aw : Bool) (c r : Nat) (pw : Bool) (p : Pen) (d : List Bool) :
    Feeds (if T.charsets.1 = .drawing then [0x1b, 0x28, 0x30] else [])
      (stageG T abt B O sc asc 10 aw c r pw p d) (stageG T abt B O sc asc 11 aw c r pw p d) := by
  cases hv : T.charsets.1 with
  | drawing =>
    simp only [if_true]
    exact (feeds_g0Drawing _).to (by simp only [stageG, hv]; rfl)
  | ascii =>
    simp only [reduceCtorEq, if_false]
    have : stageG T abt B O sc asc 11 aw c r pw p d = stageG T abt B O sc asc 10 aw c r pw p d := by
      simp only [stageG, hv]; rfl
    rw [this]; exact Feeds.nil _

theorem g_g1 (aw : Bool) (c r : Nat) (pw : Bool) (p : Pen) (d : List Bool) :
    Feeds (if T.charsets.2 = .drawing then [0x1b, 0x29, 0x30] else [])
      (stageG T abt B O sc asc 11 aw c r pw p d) (stageG T abt B O sc asc 12 aw c r pw p d) := by
  cases hv : T.charsets.2 with
  | drawing =>
    simp only [if_true]
    exact (feeds_g1Drawing _).to (by simp only [stageG, hv]; rfl)
  | ascii =>
    simp only [reduceCtorEq, if_false]
    have : stageG T abt B O sc asc 12 aw c r pw p d = stageG T abt B O sc asc 11 aw c r pw p d := by
      simp only [stageG, hv]; rfl
    rw [this]; exact Feeds.nil _

theorem g_so (aw : Bool) (c r : Nat) (pw : Bool) (p : Pen) (d : List Bool) :
    Feeds (if T.activeCharset = 1 then [0x0e] else [])
      (stageG T abt B O sc asc 12 aw c r pw p d) (stageG T abt B O sc asc 13 aw c r pw p d) := by
  have ht := TOK.of_TInv h.inv
  by_cases hv : T.activeCharset = 1
  · rw [if_pos hv]
    exact (feeds_so _).to (by simp only [stageG, hv]; rfl)
  · rw [if_neg hv]
    have h0 : T.activeCharset = 0 := by have := ht.cs; omega
    have : stageG T abt B O sc asc 13 aw c r pw p d = stageG T abt B O sc asc 12 aw c r pw p d := by
      simp only [stageG, h0]; rfl
    rw [this]; exact Feeds.nil _

theorem g_insert (aw : Bool) (c r : Nat) (pw : Bool) (p : Pen) (d : List Bool) :
    Feeds (if T.insertMode then [csi, 0x34, 0x68] else [])
      (stageG T abt B O sc asc 13 aw c r pw p d) (stageG T abt B O sc asc 14 aw c r pw p d) := by
  cases hv : T.insertMode with
  | true =>
    simp only [if_true]
    exact (feeds_insertOn _).to (by simp only [stageG, hv]; rfl)
  | false =>
    simp only [Bool.false_eq_true, if_false]
    have : stageG T abt B O sc asc 14 aw c r pw p d = stageG T abt B O sc asc 13 aw c r pw p d := by
      simp only [stageG, hv]; rfl
    rw [this]; exact Feeds.nil _

/-- step 12: auto-wrap is only ever switched OFF here, so it must be on before unless it ends off -/
theorem g_autoWrap (aw : Bool) (haw : T.autoWrapMode = true → aw = true) (c r : Nat) (pw : Bool) (p : Pen)
    (d : List Bool) :
    Feeds (if !T.autoWrapMode then [csi, 0x3f, 0x37, 0x6c] else [])
      (stageG T abt B O sc asc 14 aw c r pw p d) (stageG T abt B O sc asc 15 true c r pw p d) := by
  cases hv : T.autoWrapMode with
  | false =>
    simp only [Bool.not_false, if_true]
    exact (feeds_autoWrapOff _).to (by simp only [stageG, hv]; rfl)
  | true =>
    simp only [Bool.not_true, Bool.false_eq_true, if_false]
    have e := haw hv
    subst e
    have : stageG T abt B O sc asc 15 true c r pw p d = stageG T abt B O sc asc 14 true c r pw p d := by
      simp only [stageG, hv]; rfl
    rw [this]; exact Feeds.nil _

theorem g_newLine (c r : Nat) (pw : Bool) (p : Pen) (d : List Bool) :
    Feeds (if T.newLineMode then [csi, 0x32, 0x30, 0x68] else [])
      (stageG T abt B O sc asc 15 true c r pw p d) (stageG T abt B O sc asc 16 true c r pw p d) := by
  cases hv : T.newLineMode with
  | true =>
    simp only [if_true]
    exact (feeds_newLineOn _).to (by simp only [stageG, hv]; rfl)
  | false =>
    simp only [Bool.false_eq_true, if_false]
    have : stageG T abt B O sc asc 16 true c r pw p d = stageG T abt B O sc asc 15 true c r pw p d := by
      simp only [stageG, hv]; rfl
    rw [this]; exact Feeds.nil _

theorem g_cursorKeys (c r : Nat) (pw : Bool) (p : Pen) (d : List Bool) :
    Feeds (if T.cursorKeysMode = .application then [csi, 0x3f, 0x31, 0x68] else [])
      (stageG T abt B O sc asc 16 true c r pw p d) (stageG T abt B O sc asc 17 true c r pw p d) := by
  cases hv : T.cursorKeysMode with
  | application =>
    simp only [if_true]
    exact (feeds_cursorKeys _).to (by simp only [stageG, hv]; rfl)
  | normal =>
    simp only [reduceCtorEq, if_false]
    have : stageG T abt B O sc asc 17 true c r pw p d = stageG T abt B O sc asc 16 true c r pw p d := by
      simp only [stageG, hv]; rfl
    rw [this]; exact Feeds.nil _

end late

/-! ### the last stage is the dumped terminal, up to `normT` -/

theorem normT_stageG_final (T : Terminal) (hinv : TInv T = true) (B O : Buffer) (asc : SavedCtx)
    (hB : normB B = normB T.buffer)
    (hO : T.activeBufferType = .primary ∨ normB O = normB T.otherBuffer)
    (hasc : clampCtx asc T.cols T.rows = clampCtx T.alternateSavedCtx T.cols T.rows)
    (d : List Bool) (hd : d.length = T.rows) :
    normT (stageG T T.activeBufferType B O T.savedCtx asc 17 true T.cursor.col T.cursor.row T.pendingWrap T.pen d)
      = normT T := by
  have ht := TOK.of_TInv hinv
  have hdl := dirty_clear_eq d T.dirtyLines (by rw [hd, ht.dirty])
  have hx := ht.xt
  obtain ⟨c, r, b, ob, abt, sl, ⟨cc, cr, cv⟩, pen, ⟨cs1, cs2⟩, acs, tabs, im, om, aw, nl, ck, pw, tm, bm,
    sc, asc', dl, xt⟩ := T
  simp only at hB hO hasc hdl hx
  subst hx
  cases abt with
  | primary =>
    simp only [normT, stageG, hdl, hasc, hB, Nat.reduceLeDiff, if_true]
  | alternate =>
    have hO' : normB O = normB ob := by
      rcases hO with hO | hO
      · cases hO
      · exact hO
    simp only [normT, stageG, hdl, hasc, hB, hO', Nat.reduceLeDiff, if_true, reduceCtorEq, if_false]

end Lemmas.C11
end Avt
