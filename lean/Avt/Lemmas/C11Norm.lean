/-
  Avt.Lemmas.C11Norm — soundness of the normal form `normD` for the functions that neither read nor
  write a buffer: `normT` commutes with their execution, hence terminals with equal normal forms
  stay so.
-/
import Avt.Spec.C11

namespace Avt
namespace Lemmas.C11
open Avt.Spec.C11 Avt.Terminal

/-- `normT` commutes with `g` -/
def Commutes (g : Terminal → Option Terminal) : Prop :=
  ∀ t, g (normT t) = (g t).map normT

theorem Commutes.sound {g : Terminal → Option Terminal} (h : Commutes g) (s t : Terminal)
    (e : normT s = normT t) : (g s).map normT = (g t).map normT := by
  rw [← h s, ← h t, e]

theorem commutes_pure (g : Terminal → Terminal) (h : ∀ t, g (normT t) = normT (g t)) :
    Commutes (fun t => some (g t)) := by
  intro t; simp [h]

theorem Commutes.bind {g k : Terminal → Option Terminal} (hg : Commutes g) (hk : Commutes k) :
    Commutes (fun t => (g t).bind k) := by
  intro t
  simp only [hg t]
  cases g t with
  | none => rfl
  | some t' => simp [hk t']

theorem c_doMoveCursorToCol (c : Nat) (t : Terminal) :
    (normT t).doMoveCursorToCol c = normT (t.doMoveCursorToCol c) := rfl

theorem c_moveCursorToCol (c : Nat) : Commutes (fun t => t.moveCursorToCol c) := by
  intro t
  simp only [moveCursorToCol]
  show (if c ≥ t.cols then _ else _) = _
  split
  · show Option.map _ (csub t.cols 1) = _
    cases csub t.cols 1 <;> rfl
  · rfl

theorem c_doMoveCursorToRow (r : Nat) : Commutes (fun t => t.doMoveCursorToRow r) := by
  intro t
  simp only [doMoveCursorToRow]
  show Option.map _ (csub t.cols 1) = _
  cases csub t.cols 1 <;> rfl

theorem c_moveCursorToRow (r : Nat) : Commutes (fun t => t.moveCursorToRow r) := by
  intro t
  simp only [moveCursorToRow]
  show (match t.actualBottomMargin with
    | none => none
    | some b => (normT t).doMoveCursorToRow (min (max (t.actualTopMargin + r) t.actualTopMargin) b)) = _
  cases t.actualBottomMargin with
  | none => rfl
  | some b => exact c_doMoveCursorToRow _ t

theorem c_moveCursorToRelCol (rel : Int) : Commutes (fun t => t.moveCursorToRelCol rel) := by
  intro t
  simp only [moveCursorToRelCol]
  show (if (t.cursor.col : Int) + rel < 0 then _ else if ((t.cursor.col : Int) + rel).toNat ≥ t.cols then _ else _) = _
  split
  · rfl
  · split
    · show Option.map _ (csub t.cols 1) = _
      cases csub t.cols 1 <;> rfl
    · rfl

theorem c_moveCursorHome : Commutes (fun t => t.moveCursorHome) := by
  intro t
  simp only [moveCursorHome]
  exact c_doMoveCursorToRow _ (t.doMoveCursorToCol 0)

theorem c_moveCursorToNextTab (n : Nat) : Commutes (fun t => t.moveCursorToNextTab n) := by
  intro t
  simp only [moveCursorToNextTab]
  show (match Tabs.after t.tabs t.cursor.col n, csub t.cols 1 with
    | some r, some c1 => (normT t).moveCursorToCol (r.getD c1)
    | _, _ => none) = _
  cases Tabs.after t.tabs t.cursor.col n with
  | none => rfl
  | some r =>
    cases csub t.cols 1 with
    | none => rfl
    | some c1 => exact c_moveCursorToCol _ t

theorem c_moveCursorToPrevTab (n : Nat) : Commutes (fun t => t.moveCursorToPrevTab n) := by
  intro t
  simp only [moveCursorToPrevTab]
  show (match Tabs.before t.tabs t.cursor.col n with
    | some r => (normT t).moveCursorToCol (r.getD 0)
    | none => none) = _
  cases Tabs.before t.tabs t.cursor.col n with
  | none => rfl
  | some r => exact c_moveCursorToCol _ t

theorem c_cursorDown (n : Nat) : Commutes (fun t => t.cursorDown n) := by
  intro t
  simp only [cursorDown]
  show (if t.cursor.row > t.bottomMargin then
      match csub t.rows 1 with
      | none => none
      | some r1 => (normT t).doMoveCursorToRow (min r1 (t.cursor.row + n))
    else (normT t).doMoveCursorToRow (min t.bottomMargin (t.cursor.row + n))) = _
  split
  · cases csub t.rows 1 with
    | none => rfl
    | some r1 => exact c_doMoveCursorToRow _ t
  · exact c_doMoveCursorToRow _ t

theorem c_cursorUp (n : Nat) : Commutes (fun t => t.cursorUp n) := by
  intro t
  simp only [cursorUp]
  exact c_doMoveCursorToRow _ t

theorem c_saveCursor : Commutes (fun t => t.saveCursor) := by
  intro t
  simp only [saveCursor]
  show Option.map _ (csub t.cols 1) = _
  cases csub t.cols 1 <;> rfl

theorem c_restoreCursor (t : Terminal) : (normT t).restoreCursor = normT t.restoreCursor := rfl
theorem c_setTab (t : Terminal) : (normT t).setTab = normT t.setTab := by
  simp only [setTab]
  show (if 0 < t.cursor.col ∧ t.cursor.col < t.cols then _ else _) = _
  split <;> rfl
theorem c_clearTab (t : Terminal) : (normT t).clearTab = normT t.clearTab := rfl
theorem c_clearAllTabs (t : Terminal) : (normT t).clearAllTabs = normT t.clearAllTabs := rfl

theorem c_bs : Commutes (fun t => t.bs) := by
  intro t
  simp only [bs]
  show (if t.pendingWrap = true then _ else _) = _
  split
  · exact c_moveCursorToRelCol _ t
  · exact c_moveCursorToRelCol _ t

theorem c_cub (n : Nat) : Commutes (fun t => t.cub n) := by
  intro t
  simp only [cub]
  exact c_moveCursorToRelCol _ t

theorem c_cup (r c : Nat) : Commutes (fun t => t.cup r c) := by
  intro t
  simp only [cup]
  have e : (normT t).moveCursorToCol (asUsize c 1 - 1) = (t.moveCursorToCol (asUsize c 1 - 1)).map normT :=
    c_moveCursorToCol _ t
  rw [e]
  cases t.moveCursorToCol (asUsize c 1 - 1) with
  | none => rfl
  | some t' => exact c_moveCursorToRow _ t'

theorem c_sm (ms : List AnsiMode) (t : Terminal) : (normT t).sm ms = normT (t.sm ms) := by
  induction ms generalizing t with
  | nil => rfl
  | cons m ms ih =>
    simp only [sm, List.foldl_cons] at ih ⊢
    cases m
    · exact ih { t with insertMode := true }
    · exact ih { t with newLineMode := true }

theorem c_rm (ms : List AnsiMode) (t : Terminal) : (normT t).rm ms = normT (t.rm ms) := by
  induction ms generalizing t with
  | nil => rfl
  | cons m ms ih =>
    simp only [rm, List.foldl_cons] at ih ⊢
    cases m
    · exact ih { t with insertMode := false }
    · exact ih { t with newLineMode := false }

theorem c_ctc (op : CtcOp) (t : Terminal) : (normT t).ctc op = normT (t.ctc op) := by
  cases op
  · exact c_setTab t
  · rfl
  · rfl

theorem c_tbc (sc : TbcScope) (t : Terminal) : (normT t).tbc sc = normT (t.tbc sc) := by
  cases sc <;> rfl

theorem c_decstbm (a b : Nat) : Commutes (fun t => t.decstbm a b) := by
  intro t
  simp only [decstbm]
  show (match csub (asUsize b t.rows) 1 with
    | none => none
    | some bottom =>
      moveCursorHome (if asUsize a 1 - 1 < bottom ∧ bottom < t.rows
        then { normT t with topMargin := asUsize a 1 - 1, bottomMargin := bottom } else normT t)) = _
  cases csub (asUsize b t.rows) 1 with
  | none => rfl
  | some bottom =>
    simp only
    split
    · exact c_moveCursorHome { t with topMargin := asUsize a 1 - 1, bottomMargin := bottom }
    · exact c_moveCursorHome t

theorem c_softReset : Commutes (fun t => t.softReset) := by
  intro t
  simp only [softReset]
  show Option.map _ (csub t.rows 1) = _
  cases csub t.rows 1 <;> rfl

/-- DEC private modes that do not involve the alternate screen -/
def simpleDecMode : DecMode → Bool
  | .altScreenBuffer | .saveCursorAltScreenBuffer => false
  | _ => true

theorem c_decsetOne (m : DecMode) (h : simpleDecMode m = true) : Commutes (fun t => decsetOne t m) := by
  intro t
  cases m
  · rfl
  · exact c_moveCursorHome { t with originMode := true }
  · rfl
  · rfl
  · simp [simpleDecMode] at h
  · exact c_saveCursor t
  · simp [simpleDecMode] at h

theorem c_decrstOne (m : DecMode) (h : simpleDecMode m = true) : Commutes (fun t => decrstOne t m) := by
  intro t
  cases m
  · rfl
  · exact c_moveCursorHome { t with originMode := false }
  · rfl
  · rfl
  · simp [simpleDecMode] at h
  · rfl
  · simp [simpleDecMode] at h

theorem c_foldM' (g : Terminal → DecMode → Option Terminal) (ms : List DecMode)
    (h : ∀ m ∈ ms, Commutes (fun t => g t m)) : Commutes (fun t => foldM' g ms t) := by
  induction ms with
  | nil => intro t; rfl
  | cons m ms ih =>
    intro t
    simp only [foldM']
    have e : g (normT t) m = (g t m).map normT := h m (List.mem_cons_self ..) t
    rw [e]
    cases g t m with
    | none => rfl
    | some t' => exact ih (fun m' hm' => h m' (List.mem_cons_of_mem _ hm')) t'

/-- the functions that neither read nor write a buffer (cursor movement and addressing, tab stops,
    modes, SGR, character sets, save/restore, margins, soft reset) -/
def simpleFn : Function → Bool
  | .bs | .cbt _ | .cha _ | .cht _ | .cnl _ | .cpl _ | .cr | .ctc _ | .cub _ | .cud _ | .cuf _ | .cup _ _
  | .cuu _ | .decrc | .decsc | .decstbm _ _ | .decstr | .g1d4 _ | .gzd4 _ | .ht | .hts | .rm _ | .scorc
  | .scosc | .sgr _ | .si | .sm _ | .so | .tbc _ | .vpa _ | .vpr _ => true
  | .decset ms | .decrst ms => ms.all simpleDecMode
  | _ => false

theorem c_map {g : Terminal → Option Terminal} (hg : Commutes g) (k : Terminal → Terminal)
    (hk : ∀ t, k (normT t) = normT (k t)) : Commutes (fun t => (g t).map k) := by
  intro t
  simp only [hg t]
  cases g t with
  | none => rfl
  | some t' => simp [hk t']

/-- `normT` commutes with the execution of every simple function -/
theorem c_execute (f : Function) (h : simpleFn f = true) : Commutes (fun t => t.execute f) := by
  cases f <;> simp only [simpleFn] at h <;> try (exact absurd h (by decide))
  case bs => exact c_bs
  case cbt n => exact c_moveCursorToPrevTab _
  case cha n => exact c_moveCursorToCol _
  case cht n => exact c_moveCursorToNextTab _
  case cnl n => exact c_map (c_cursorDown _) _ (fun _ => rfl)
  case cpl n => exact c_map (c_cursorUp _) _ (fun _ => rfl)
  case cr => intro t; rfl
  case ctc op => intro t; exact congrArg some (c_ctc op t)
  case cub n => exact c_cub n
  case cud n => exact c_cursorDown _
  case cuf n => exact c_moveCursorToRelCol ((asUsize n 1 : Nat) : Int)
  case cup r c => exact c_cup r c
  case cuu n => exact c_cursorUp _
  case decrc => intro t; rfl
  case decrst ms =>
    exact c_foldM' _ ms (fun m hm => c_decrstOne m (by simpa using (List.all_eq_true.mp h) m hm))
  case decsc => exact c_saveCursor
  case decset ms =>
    exact c_foldM' _ ms (fun m hm => c_decsetOne m (by simpa using (List.all_eq_true.mp h) m hm))
  case decstbm a b => exact c_decstbm a b
  case decstr => exact c_softReset
  case g1d4 c => intro t; rfl
  case gzd4 c => intro t; rfl
  case ht => exact c_moveCursorToNextTab 1
  case hts => intro t; exact congrArg some (c_setTab t)
  case rm ms => intro t; exact congrArg some (c_rm ms t)
  case scorc => intro t; rfl
  case scosc => exact c_saveCursor
  case sgr ops => intro t; rfl
  case si => intro t; rfl
  case sm ms => intro t; exact congrArg some (c_sm ms t)
  case so => intro t; rfl
  case tbc sc => intro t; exact congrArg some (c_tbc sc t)
  case vpa n => exact c_moveCursorToRow _
  case vpr n => exact c_cursorDown _

/-- **normal-form soundness, simple functions**: terminals with equal normal forms stay so -/
theorem norm_sound_execute (f : Function) (h : simpleFn f = true) (s t : Terminal)
    (e : normT s = normT t) : (s.execute f).map normT = (t.execute f).map normT :=
  (c_execute f h).sound s t e

end Lemmas.C11
end Avt
