/-
  Avt.Lemmas.C11CellsExec4 — the cell / pen invariant, part 3: the functions that write cells
  (scrolls, erasures, insertions, deletions, Print, REP, DECALN).
-/
import Avt.Lemmas.C11CellsExec2
import Avt.Props.C04

namespace Avt
namespace Lemmas.C11
open Avt.Spec.C11 Avt.Spec.C08

/-- the pen is `pen` and the cell / pen invariant holds -/
def St2 (pen : Pen) (t : Terminal) : Prop := t.pen = pen ∧ CellsInv t

theorem St2.keeps {pen : Pen} {t t' : Terminal} (h : St2 pen t) (k : core t' = core t) : St2 pen t' := by
  refine ⟨?_, cellsInv_of_core k h.2⟩
  simp only [core, Prod.mk.injEq] at k
  exact k.2.2.1.trans h.1

theorem St2.bufOK {pen : Pen} {t : Terminal} (h : St2 pen t) : BufOK t.buffer := ⟨h.2.sb, h.2.view⟩

theorem St2.penOK {pen : Pen} {t : Terminal} (h : St2 pen t) : PenOK pen := h.1 ▸ h.2.pen

theorem St2.withBuffer {pen : Pen} {t : Terminal} {b : Buffer} (h : St2 pen t) (hb : BufOK b) :
    St2 pen { t with buffer := b } :=
  ⟨h.1, ⟨h.2.pen, h.2.sctx, h.2.actx, hb.1, hb.2, h.2.osb, h.2.oview⟩⟩

theorem scrollUpInRegion_st {pen : Pen} {t t' : Terminal} {n : Nat}
    (hs : St2 pen t) (h : t.scrollUpInRegion n = some t') : St2 pen t' := by
  unfold Terminal.scrollUpInRegion at h
  split at h
  · cases h
  · rename_i b hb
    cases hd : Dirty.extend t.dirtyLines t.topMargin (t.bottomMargin + 1) with
    | none => simp [hd] at h
    | some d =>
      simp only [hd, Option.map_some, Option.some.injEq] at h; subst h
      rw [hs.1] at hb
      exact (hs.withBuffer (bufScrollUp_bufOK hs.penOK hs.bufOK hb)).keeps rfl

theorem scrollDownInRegion_st {pen : Pen} {t t' : Terminal} {n : Nat}
    (hs : St2 pen t) (h : t.scrollDownInRegion n = some t') : St2 pen t' := by
  unfold Terminal.scrollDownInRegion at h
  split at h
  · cases h
  · rename_i b hb
    cases hd : Dirty.extend t.dirtyLines t.topMargin (t.bottomMargin + 1) with
    | none => simp [hd] at h
    | some d =>
      simp only [hd, Option.map_some, Option.some.injEq] at h; subst h
      rw [hs.1] at hb
      exact (hs.withBuffer (bufScrollDown_bufOK hs.penOK hs.bufOK hb)).keeps rfl

theorem moveCursorDownWithScroll_st {pen : Pen} {t t' : Terminal}
    (hs : St2 pen t) (h : t.moveCursorDownWithScroll = some t') : St2 pen t' := by
  unfold Terminal.moveCursorDownWithScroll at h
  split at h
  · exact scrollUpInRegion_st hs h
  · split at h
    · cases h
    · split at h
      · exact hs.keeps (core_doMoveCursorToRow h)
      · cases h; exact hs

theorem c15Wrap_st {pen : Pen} {t t' : Terminal} (hs : St2 pen t) (h : t.c15Wrap = some t') :
    St2 pen t' := by
  unfold Terminal.c15Wrap at h
  split at h
  · have hs0 : St2 pen (t.doMoveCursorToCol 0) := hs.keeps rfl
    simp only at h
    generalize t.doMoveCursorToCol 0 = t0 at h hs0
    split at h
    · split at h
      · cases h
      · rename_i b hb
        have hsb : St2 pen { t0 with buffer := b } := hs0.withBuffer (bufWrap_bufOK hs0.bufOK hb)
        split at h
        · cases h
        · rename_i t3 ht3
          have hs3 := scrollUpInRegion_st hsb ht3
          split at h
          · cases h
          · split at h
            · split at h
              · cases h
              · rename_i bm1 _
                cases hw : t3.buffer.wrap bm1 with
                | none => simp [hw] at h
                | some b4 =>
                  simp only [hw, Option.map_some, Option.some.injEq] at h
                  subst h
                  exact hs3.withBuffer (bufWrap_bufOK hs3.bufOK hw)
            · cases h; exact hs3
    · split at h
      · cases h
      · split at h
        · split at h
          · cases h
          · rename_i b hb
            have hsb : St2 pen { t0 with buffer := b } := hs0.withBuffer (bufWrap_bufOK hs0.bufOK hb)
            exact hsb.keeps (core_doMoveCursorToRow h)
        · cases h; exact hs0
  · cases h; exact hs

theorem c15Put_st {pen : Pen} {t t' : Terminal} {cell : Cell} (hc : CellOK cell)
    (hs : St2 pen t) (h : t.c15Put cell = some t') : St2 pen t' := by
  unfold Terminal.c15Put at h
  simp only at h
  split at h
  · split at h
    · cases h
    · split at h
      · cases h
      · rename_i b hb
        have hsb : St2 pen { t with buffer := b } := hs.withBuffer (bufPrint_bufOK hc hs.bufOK hb)
        split at h
        · cases h; exact hsb.keeps rfl
        · cases h; exact hsb
  · split at h
    · cases h
    · rename_i b hb
      cases h
      have hvb : BufOK b := by
        split at hb
        · exact bufInsert_bufOK hc hs.bufOK hb
        · exact bufPrint_bufOK hc hs.bufOK hb
      exact (hs.withBuffer hvb).keeps rfl

/-- every character of the DEC special graphics table is printable -/
theorem gfxChars_printable : ∀ c ∈ Gen.gfxChars, printableCh c = true := by decide

theorem translate_printable {cs : Charset} {ch ch' : Nat} (hp : printableCh ch = true)
    (h : cs.translate ch = some ch') : printableCh ch' = true := by
  unfold Charset.translate at h
  cases cs with
  | ascii => simp only [Option.some.injEq] at h; subst h; exact hp
  | drawing =>
    simp only at h
    split at h
    · split at h
      · exact gfxChars_printable _ (List.mem_of_getElem? h)
      · cases h
    · simp only [Option.some.injEq] at h; subst h; exact hp

theorem print_st {pen : Pen} {t t' : Terminal} {ch : Nat} (hp : printableCh ch = true)
    (hs : St2 pen t) (h : t.print ch = some t') : St2 pen t' := by
  rw [Terminal.c15_print_eq] at h
  split at h
  · cases h
  · split at h
    · cases h
    · rename_i cs _ ch' hch
      split at h
      · cases h
      · rename_i t1 ht1
        split at h
        · cases h
        · rename_i t2 ht2
          have hs1 := c15Wrap_st hs ht1
          have hc : CellOK ⟨ch', t.pen⟩ := ⟨translate_printable hp hch, hs.2.pen⟩
          exact (c15Put_st hc hs1 ht2).keeps (core_markDirty h)

theorem printN_st {pen : Pen} {ch : Nat} (hp : printableCh ch = true) :
    ∀ (k : Nat) {t t' : Terminal}, St2 pen t → t.printN ch k = some t' → St2 pen t'
  | 0, t, t', hs, h => by cases h; exact hs
  | k + 1, t, t', hs, h => by
    unfold Terminal.printN at h
    split at h
    · cases h
    · rename_i t1 h1
      exact printN_st hp k (print_st hp hs h1) h

theorem rep_st {pen : Pen} {t t' : Terminal} {n : Nat}
    (hs : St2 pen t) (h : t.rep n = some t') : St2 pen t' := by
  unfold Terminal.rep at h
  split at h
  · split at h
    · cases h
    · rename_i line hl
      split at h
      · cases h
      · rename_i cell hc
        have : CellOK cell := hs.2.view line (List.mem_of_getElem? hl) cell (List.mem_of_getElem? hc)
        exact printN_st this.1 _ hs h
  · cases h; exact hs

theorem eraseWith_st {pen : Pen} {t t' : Terminal} {mode : Buffer.EraseMode}
    (hs : St2 pen t) (h : t.eraseWith mode = some t') : St2 pen t' := by
  unfold Terminal.eraseWith at h
  cases he : t.buffer.erase t.cursor.col t.cursor.row mode t.pen with
  | none => simp [he] at h
  | some b =>
    simp only [he, Option.map_some, Option.some.injEq] at h
    subst h
    rw [hs.1] at he
    exact hs.withBuffer (bufErase_bufOK hs.penOK hs.bufOK he)

theorem ich_st {pen : Pen} {t t' : Terminal} {n : Nat}
    (hs : St2 pen t) (h : t.ich n = some t') : St2 pen t' := by
  unfold Terminal.ich at h
  split at h
  · cases h
  · rename_i b hb
    rw [hs.1] at hb
    exact (hs.withBuffer (bufInsert_bufOK (cellOK_blank hs.penOK) hs.bufOK hb)).keeps (core_markDirty h)

theorem dch_st {pen : Pen} {t t' : Terminal} {n : Nat}
    (hs : St2 pen t) (h : t.dch n = some t') : St2 pen t' := by
  unfold Terminal.dch at h
  simp only at h
  split at h
  · cases h
  · rename_i t1 ht1
    have hs1 : St2 pen t1 := by
      split at ht1
      · split at ht1
        · cases ht1
        · exact hs.keeps (core_moveCursorToCol ht1)
      · cases ht1; exact hs
    split at h
    · cases h
    · rename_i b hb
      rw [hs1.1] at hb
      exact (hs1.withBuffer (bufDelete_bufOK hs.penOK hs1.bufOK hb)).keeps (core_markDirty h)

theorem ech_st {pen : Pen} {t t' : Terminal} {n : Nat}
    (hs : St2 pen t) (h : t.ech n = some t') : St2 pen t' := by
  unfold Terminal.ech at h
  split at h
  · cases h
  · rename_i t1 ht1
    exact (eraseWith_st hs ht1).keeps (core_markDirty h)

theorem ed_st {pen : Pen} {t t' : Terminal} {sc : EdScope}
    (hs : St2 pen t) (h : t.ed sc = some t') : St2 pen t' := by
  unfold Terminal.ed at h
  cases sc with
  | below =>
    simp only at h
    split at h
    · cases h
    · rename_i t1 ht1
      exact (eraseWith_st hs ht1).keeps (core_markDirtyRange h)
  | above =>
    simp only at h
    split at h
    · cases h
    · rename_i t1 ht1
      exact (eraseWith_st hs ht1).keeps (core_markDirtyRange h)
  | all =>
    simp only at h
    split at h
    · cases h
    · rename_i t1 ht1
      exact (eraseWith_st hs ht1).keeps (core_markDirtyRange h)
  | savedLines => cases h; exact hs

theorem el_st {pen : Pen} {t t' : Terminal} {sc : ElScope}
    (hs : St2 pen t) (h : t.el sc = some t') : St2 pen t' := by
  unfold Terminal.el at h
  simp only at h
  split at h
  · cases h
  · rename_i t1 ht1
    exact (eraseWith_st hs ht1).keeps (core_markDirty h)

theorem il_st {pen : Pen} {t t' : Terminal} {n : Nat}
    (hs : St2 pen t) (h : t.il n = some t') : St2 pen t' := by
  unfold Terminal.il at h
  simp only at h
  split at h
  · cases h
  · rename_i b hb
    rw [hs.1] at hb
    exact (hs.withBuffer (bufScrollDown_bufOK hs.penOK hs.bufOK hb)).keeps (core_markDirtyRange h)

theorem dl_st {pen : Pen} {t t' : Terminal} {n : Nat}
    (hs : St2 pen t) (h : t.dl n = some t') : St2 pen t' := by
  unfold Terminal.dl at h
  simp only at h
  split at h
  · cases h
  · rename_i b hb
    rw [hs.1] at hb
    exact (hs.withBuffer (bufScrollUp_bufOK hs.penOK hs.bufOK hb)).keeps (core_markDirtyRange h)

theorem lf_st {pen : Pen} {t t' : Terminal}
    (hs : St2 pen t) (h : t.lf = some t') : St2 pen t' := by
  unfold Terminal.lf at h
  cases hm : t.moveCursorDownWithScroll with
  | none => simp [hm] at h
  | some t1 =>
    simp only [hm, Option.map_some, Option.some.injEq] at h
    subst h
    have := moveCursorDownWithScroll_st hs hm
    split
    · exact this.keeps rfl
    · exact this

theorem nel_st {pen : Pen} {t t' : Terminal}
    (hs : St2 pen t) (h : t.nel = some t') : St2 pen t' := by
  unfold Terminal.nel at h
  cases hm : t.moveCursorDownWithScroll with
  | none => simp [hm] at h
  | some t1 =>
    simp only [hm, Option.map_some, Option.some.injEq] at h
    subst h
    exact (moveCursorDownWithScroll_st hs hm).keeps rfl

theorem ri_st {pen : Pen} {t t' : Terminal}
    (hs : St2 pen t) (h : t.ri = some t') : St2 pen t' := by
  unfold Terminal.ri at h
  split at h
  · exact scrollDownInRegion_st hs h
  · split at h
    · exact hs.keeps (core_doMoveCursorToRow h)
    · cases h; exact hs

/-! ### DECALN -/

theorem cellOK_E : CellOK ⟨0x45, Pen.default⟩ := ⟨by decide, penOK_default⟩

theorem decalnCols_bufOK : ∀ (j : Nat) {b b' : Buffer} {row col : Nat}, BufOK b →
    Terminal.decalnCols b row col j = some b' → BufOK b'
  | 0, b, b', _, _, hb, h => by
    simp only [Terminal.decalnCols, Option.some.injEq] at h; subst h; exact hb
  | j + 1, b, b', row, col, hb, h => by
    unfold Terminal.decalnCols at h
    split at h
    · cases h
    · rename_i b1 h1
      exact decalnCols_bufOK j (bufPrint_bufOK cellOK_E hb h1) h

theorem decalnRows_st {pen : Pen} : ∀ (k : Nat) {t t' : Terminal} {row : Nat}, St2 pen t →
    Terminal.decalnRows t row k = some t' → St2 pen t'
  | 0, t, t', _, hs, h => by
    simp only [Terminal.decalnRows, Option.some.injEq] at h; subst h; exact hs
  | k + 1, t, t', row, hs, h => by
    unfold Terminal.decalnRows at h
    split at h
    · cases h
    · rename_i b hb
      split at h
      · cases h
      · rename_i t1 h1
        exact decalnRows_st k ((hs.withBuffer (decalnCols_bufOK _ hs.bufOK hb)).keeps (core_markDirty h1)) h

theorem decaln_st {pen : Pen} {t t' : Terminal} (hs : St2 pen t) (h : t.decaln = some t') : St2 pen t' :=
  decalnRows_st _ hs h

end Lemmas.C11
end Avt
