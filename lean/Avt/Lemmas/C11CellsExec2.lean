/-
  Avt.Lemmas.C11CellsExec2 — the cell / pen invariant, part 2: frame lemmas (`core`: the part of the
  terminal `CellsInv` looks at) for everything that only moves the cursor / changes modes.
-/
import Avt.Lemmas.C11CellsExec1
import Avt.Lemmas.C16Frame

namespace Avt
namespace Lemmas.C11
open Avt.Spec.C11 Avt.Spec.C08

/-- the part of the state `CellsInv` looks at -/
def core (t : Terminal) : Buffer × Buffer × Pen × Pen × Pen :=
  (t.buffer, t.otherBuffer, t.pen, t.savedCtx.pen, t.alternateSavedCtx.pen)

theorem cellsInv_of_core {t t' : Terminal} (k : core t' = core t) (h : CellsInv t) : CellsInv t' := by
  simp only [core, Prod.mk.injEq] at k
  obtain ⟨k1, k2, k3, k4, k5⟩ := k
  exact ⟨k3 ▸ h.pen, k4 ▸ h.sctx, k5 ▸ h.actx, k1 ▸ h.sb, k1 ▸ h.view, k2 ▸ h.osb, k2 ▸ h.oview⟩

set_option hygiene false in
macro "core_split" : tactic => `(tactic| (
  repeat' (first | split at h | (dsimp only at h; split at h))
  all_goals (try simp only [Option.map_eq_some_iff, Option.some.injEq, reduceCtorEq, exists_and_left] at h)))

set_option hygiene false in
macro "core_auto" : tactic => `(tactic| (
  core_split
  all_goals (try (obtain ⟨_, _, rfl⟩ := h))
  all_goals (try subst h)
  all_goals grind [core, Terminal.doMoveCursorToCol, Terminal.setTab, Terminal.clearTab,
    Terminal.clearAllTabs]))

theorem core_moveCursorToCol {t t' : Terminal} {k} (h : t.moveCursorToCol k = some t') : core t' = core t := by
  unfold Terminal.moveCursorToCol at h; core_auto
grind_pattern core_moveCursorToCol => t.moveCursorToCol k, some t'

theorem core_doMoveCursorToRow {t t' : Terminal} {k} (h : t.doMoveCursorToRow k = some t') : core t' = core t := by
  unfold Terminal.doMoveCursorToRow at h; core_auto
grind_pattern core_doMoveCursorToRow => t.doMoveCursorToRow k, some t'

theorem core_moveCursorToRelCol {t t' : Terminal} {k} (h : t.moveCursorToRelCol k = some t') : core t' = core t := by
  unfold Terminal.moveCursorToRelCol at h; core_auto
grind_pattern core_moveCursorToRelCol => t.moveCursorToRelCol k, some t'

theorem core_markDirty {t t' : Terminal} {k} (h : t.markDirty k = some t') : core t' = core t := by
  unfold Terminal.markDirty at h; core_auto
grind_pattern core_markDirty => t.markDirty k, some t'

theorem core_markDirtyRange {t t' : Terminal} {a b} (h : t.markDirtyRange a b = some t') : core t' = core t := by
  unfold Terminal.markDirtyRange at h; core_auto
grind_pattern core_markDirtyRange => t.markDirtyRange a b, some t'

theorem core_moveCursorToRow {t t' : Terminal} {k} (h : t.moveCursorToRow k = some t') : core t' = core t := by
  unfold Terminal.moveCursorToRow at h; core_auto
grind_pattern core_moveCursorToRow => t.moveCursorToRow k, some t'

theorem core_moveCursorHome {t t' : Terminal} (h : t.moveCursorHome = some t') : core t' = core t := by
  unfold Terminal.moveCursorHome at h; core_auto
grind_pattern core_moveCursorHome => t.moveCursorHome, some t'

theorem core_moveCursorToNextTab {t t' : Terminal} {n} (h : t.moveCursorToNextTab n = some t') : core t' = core t := by
  unfold Terminal.moveCursorToNextTab at h; core_auto
grind_pattern core_moveCursorToNextTab => t.moveCursorToNextTab n, some t'

theorem core_moveCursorToPrevTab {t t' : Terminal} {n} (h : t.moveCursorToPrevTab n = some t') : core t' = core t := by
  unfold Terminal.moveCursorToPrevTab at h; core_auto
grind_pattern core_moveCursorToPrevTab => t.moveCursorToPrevTab n, some t'

theorem core_cursorDown {t t' : Terminal} {n} (h : t.cursorDown n = some t') : core t' = core t := by
  unfold Terminal.cursorDown at h; core_auto
grind_pattern core_cursorDown => t.cursorDown n, some t'

theorem core_cursorUp {t t' : Terminal} {n} (h : t.cursorUp n = some t') : core t' = core t := by
  unfold Terminal.cursorUp at h; core_auto
grind_pattern core_cursorUp => t.cursorUp n, some t'

theorem core_bs {t t' : Terminal} (h : t.bs = some t') : core t' = core t := by
  unfold Terminal.bs at h; core_auto
grind_pattern core_bs => t.bs, some t'

theorem core_cub {t t' : Terminal} {n} (h : t.cub n = some t') : core t' = core t := by
  unfold Terminal.cub at h; core_auto
grind_pattern core_cub => t.cub n, some t'

theorem core_cup {t t' : Terminal} {a b} (h : t.cup a b = some t') : core t' = core t := by
  unfold Terminal.cup at h; core_auto
grind_pattern core_cup => t.cup a b, some t'

theorem core_decstbm {t t' : Terminal} {a b} (h : t.decstbm a b = some t') : core t' = core t := by
  unfold Terminal.decstbm at h; core_auto
grind_pattern core_decstbm => t.decstbm a b, some t'

theorem core_ctc {t : Terminal} {op} : core (t.ctc op) = core t := by
  cases op <;> simp only [Terminal.ctc, Terminal.setTab, Terminal.clearTab, Terminal.clearAllTabs] <;> (try split) <;> rfl

theorem core_tbc {t : Terminal} {s} : core (t.tbc s) = core t := by
  cases s <;> rfl

theorem core_sm {ms : List AnsiMode} {t : Terminal} : core (t.sm ms) = core t := by
  unfold Terminal.sm
  induction ms generalizing t with
  | nil => rfl
  | cons m ms ih => cases m <;> exact ih

theorem core_rm {ms : List AnsiMode} {t : Terminal} : core (t.rm ms) = core t := by
  unfold Terminal.rm
  induction ms generalizing t with
  | nil => rfl
  | cons m ms ih => cases m <;> exact ih

theorem core_setTab {t : Terminal} : core t.setTab = core t := by
  unfold Terminal.setTab; split <;> rfl

end Lemmas.C11
end Avt
