/-
  Avt.Lemmas.C09Steps — the typewriter invariant is preserved by the deferred wrap, hence by every
  printed character, and by CR LF.
-/
import Avt.Lemmas.C09Wrap

namespace Avt.Lemmas
open Avt Avt.Spec.C09

/-- the rows below the cursor row, counted -/
theorem TW_counts {t : Terminal} (hg : TWGeom t) {closedRows ws belowRows : List Line} {lr : Line}
    (hlines : t.buffer.lines = closedRows ++ (ws ++ [lr]) ++ belowRows)
    (hrow : t.buffer.sb.length + t.cursor.row = closedRows.length + ws.length) :
    belowRows.length + t.cursor.row + 1 = t.rows := by
  have h1 : t.buffer.lines.length = t.buffer.sb.length + t.rows := by simp [Buffer.lines, hg.view_len]
  rw [hlines] at h1
  simp only [List.length_append, List.length_cons, List.length_nil] at h1
  omega

theorem TW_cursor_row {t : Terminal} {closedRows ws belowRows : List Line} {lr : Line}
    (hlines : t.buffer.lines = closedRows ++ (ws ++ [lr]) ++ belowRows)
    (hrow : t.buffer.sb.length + t.cursor.row = closedRows.length + ws.length) :
    t.buffer.view[t.cursor.row]? = some lr
      ∧ ∀ x, t.buffer.sb ++ t.buffer.view.set t.cursor.row x = closedRows ++ (ws ++ [x]) ++ belowRows := by
  have hlines' : t.buffer.sb ++ t.buffer.view = (closedRows ++ ws) ++ [lr] ++ belowRows := by
    have := hlines; simp only [Buffer.lines] at this; rw [this]; simp
  have hn : t.buffer.sb.length + t.cursor.row = (closedRows ++ ws).length := by simp [hrow]
  constructor
  · have := getElem?_mid (closedRows ++ ws) belowRows lr
    rw [← hlines', ← hn, List.getElem?_append_right (Nat.le_add_right _ _)] at this
    simpa using this
  · intro x
    have : t.buffer.sb ++ t.buffer.view.set t.cursor.row x
        = (t.buffer.sb ++ t.buffer.view).set (t.buffer.sb.length + t.cursor.row) x := by
      rw [List.set_append_right _ _ (Nat.le_add_right _ _)]; simp
    rw [this, hlines', hn, set_mid]; simp

theorem blank_text (c : Nat) (pen : Pen) : (Line.blank c pen).text = List.replicate c 0x20 := by
  simp [Line.blank, Line.text, Cell.blank]

/-- with a wrap pending the padding is used up -/
theorem TW_pad_zero {t : Terminal} {ws : List Line} {lr : Line} {cur : List Nat} {pad : Nat}
    (hlens : ∀ l ∈ ws ++ [lr], l.len = t.cols)
    (hrt : rowsText (ws ++ [lr]) = cur ++ List.replicate pad 0x20)
    (hcur : cur.length = ws.length * t.cols + t.cursor.col) (hcol : t.cursor.col = t.cols) : pad = 0 := by
  have := rowsText_length (ws ++ [lr]) t.cols hlens
  rw [hrt] at this
  simp only [List.length_append, List.length_replicate, List.length_cons, List.length_nil,
    Nat.add_mul, Nat.one_mul] at this
  omega

/-- the unwrapped form of the line being typed (wrapped rows untrimmed, last row trimmed) is a prefix
    of the typed line -/
theorem cur_prefix {cols col : Nat} {ws : List Line} {lr : Line} {cur : List Nat} {pad : Nat}
    (hlens : ∀ l ∈ ws, l.len = cols)
    (hrt : rowsText (ws ++ [lr]) = cur ++ List.replicate pad 0x20)
    (hcur : cur.length = ws.length * cols + col) :
    rowsText ws ++ trimEnd lr.text <+: cur := by
  have hwl : (rowsText ws).length = ws.length * cols := rowsText_length ws cols hlens
  have hle : (rowsText ws).length ≤ cur.length := by rw [hwl, hcur]; omega
  have hsplit : rowsText ws ++ lr.text = cur ++ List.replicate pad 0x20 := by
    rw [← hrt, rowsText_append, rowsText_singleton]
  have h1 : rowsText ws = cur.take (rowsText ws).length := by
    have := congrArg (List.take (rowsText ws).length) hsplit
    rw [List.take_append_of_le_length (Nat.le_refl _), List.take_length,
      List.take_append_of_le_length hle] at this
    exact this
  have h2 : lr.text = cur.drop (rowsText ws).length ++ List.replicate pad 0x20 := by
    have := congrArg (List.drop (rowsText ws).length) hsplit
    rw [List.drop_append_of_le_length (Nat.le_refl _), List.drop_length, List.nil_append,
      List.drop_append_of_le_length hle] at this
    exact this
  have h3 : trimEnd lr.text <+: cur.drop (rowsText ws).length := by
    rw [h2, trimEnd_append_spaces]; exact trimEnd_prefix _
  obtain ⟨z, hz⟩ := h3
  refine ⟨z, ?_⟩
  conv => rhs; rw [← List.take_append_drop (rowsText ws).length cur, ← h1, ← hz]
  simp

/-- **the deferred wrap keeps the invariant** (same typed text; the cursor is now at the start of the
    next row, which belongs to the same logical line because the row above is marked wrapped) -/
theorem TW_wrap {t : Terminal} {logical : List (List Nat)} (hm : TWMode t) (hg : TWGeom t)
    (h : TW t logical) (hp : t.pendingWrap = true) :
    ∃ t1, wrapPart t = some t1 ∧ TWMode t1 ∧ TWGeom t1 ∧ TW t1 logical ∧ t1.pendingWrap = false
      ∧ t1.pen = t.pen ∧ t1.activeCharset = t.activeCharset ∧ t1.charsets = t.charsets := by
  obtain ⟨done, cur, closedRows, ws, lr, belowRows, pad, rfl, hlines, hlu, htext, hpx, hws, hlr, hlens, hrt,
    hcur, hrow, hbelow⟩ := h
  have hcol : t.cursor.col = t.cols := by
    rcases hg.pending with ⟨_, h2⟩ | ⟨h1, _⟩
    · exact h2
    · rw [hp] at h1; cases h1
  obtain ⟨hview, hset⟩ := TW_cursor_row hlines hrow
  have hcount := TW_counts hg hlines hrow
  have hpad : pad = 0 :=
    TW_pad_zero (fun l hl => hlens l (by
      simp only [List.mem_append] at hl ⊢; exact Or.inl (Or.inr hl))) hrt hcur hcol
  subst hpad
  let lrw : Line := { lr with wrapped := true }
  have hlrw_text : lrw.text = lr.text := rfl
  have hws' : ∀ l ∈ ws ++ [lrw], l.wrapped = true := by
    intro l hl
    simp only [List.mem_append, List.mem_singleton] at hl
    rcases hl with hl | hl
    · exact hws l hl
    · subst hl; rfl
  have hrt1 : rowsText (ws ++ [lrw]) = cur := by
    have : rowsText (ws ++ [lrw]) = rowsText (ws ++ [lr]) := by
      simp [rowsText_append, rowsText_singleton, hlrw_text]
    rw [this, hrt]; simp
  by_cases hlast : t.cursor.row + 1 = t.rows
  · -- scroll
    have hb : belowRows = [] := by
      cases belowRows with
      | nil => rfl
      | cons _ _ => simp at hcount; omega
    subst hb
    refine ⟨_, wrapPart_scroll hm hg hp hlast hview, ?_, ?_, ?_, rfl, rfl, rfl, rfl⟩
    · exact ⟨hm.top, hm.bottom, hm.autoWrap, hm.replace, hm.charset, hm.primary, hm.unlimited⟩
    · refine ⟨hg.cols_pos, hg.rows_pos, hg.bcols, hg.brows, ?_, hg.row_lt, ?_, ?_⟩
      · simp [wrappedScroll, hg.view_len]
      · right; exact ⟨rfl, hg.cols_pos⟩
      · simp [wrappedScroll]
    · have hne : (t.buffer.view.set t.cursor.row lrw ++ [Line.blank t.buffer.cols t.pen]) ≠ [] := by simp
      have hl1 : (wrappedScroll t lr (List.replicate t.rows true)).buffer.lines
          = closedRows ++ ((ws ++ [lrw]) ++ [Line.blank t.buffer.cols t.pen]) ++ [] := by
        simp only [wrappedScroll, Buffer.lines]
        rw [List.append_assoc, List.take_append_drop, ← List.append_assoc, hset lrw]
        simp
      refine ⟨done, cur, closedRows, ws ++ [lrw], Line.blank t.buffer.cols t.pen, [], t.cols, rfl, hl1,
        hlu, htext, hpx, hws', rfl, ?_, ?_, ?_, ?_, by simp⟩
      · intro l hl
        show l.len = t.cols
        simp only [List.mem_append, List.mem_singleton, List.append_nil] at hl
        rcases hl with hl | (hl | hl) | hl
        · exact hlens l (by simp [hl])
        · exact hlens l (by simp [hl])
        · subst hl; exact hlens lr (by simp)
        · subst hl; simp [Line.blank, Line.len, hg.bcols]
      · rw [rowsText_append, hrt1, rowsText_singleton, blank_text, hg.bcols]
      · show cur.length = (ws ++ [lrw]).length * t.cols + 0
        simp only [List.length_append, List.length_cons, List.length_nil, Nat.add_mul, Nat.one_mul]
        omega
      · show (t.buffer.sb ++ (t.buffer.view.set t.cursor.row lrw ++ [Line.blank t.buffer.cols t.pen]).take 1).length
            + t.cursor.row = closedRows.length + (ws ++ [lrw]).length
        have : ((t.buffer.view.set t.cursor.row lrw ++ [Line.blank t.buffer.cols t.pen]).take 1).length = 1 := by
          rw [List.length_take]; simp
        simp only [List.length_append, this, List.length_cons, List.length_nil]
        omega
  · -- move down
    have hlt : t.cursor.row + 1 < t.rows := by have := hg.row_lt; omega
    obtain ⟨b0, below', rfl⟩ : ∃ b0 below', belowRows = b0 :: below' := by
      cases belowRows with
      | nil => simp at hcount; omega
      | cons b0 below' => exact ⟨b0, below', rfl⟩
    have hb0 := hbelow b0 (by simp)
    refine ⟨_, wrapPart_move hm hg hp hlt hview, ?_, ?_, ?_, rfl, rfl, rfl, rfl⟩
    · exact ⟨hm.top, hm.bottom, hm.autoWrap, hm.replace, hm.charset, hm.primary, hm.unlimited⟩
    · refine ⟨hg.cols_pos, hg.rows_pos, hg.bcols, hg.brows, ?_, hlt, ?_, hg.dirty_len⟩
      · simp [wrappedMove, hg.view_len]
      · right; exact ⟨rfl, hg.cols_pos⟩
    · have hl1 : (wrappedMove t lr).buffer.lines = closedRows ++ ((ws ++ [lrw]) ++ [b0]) ++ below' := by
        simp only [wrappedMove, Buffer.lines]
        rw [hset lrw]; simp
      refine ⟨done, cur, closedRows, ws ++ [lrw], b0, below', t.cols, rfl, hl1, hlu, htext, hpx, hws', hb0.1,
        ?_, ?_, ?_, ?_, fun l hl => hbelow l (by simp [hl])⟩
      · intro l hl
        show l.len = t.cols
        simp only [List.mem_append, List.mem_singleton] at hl
        rcases hl with (hl | (hl | hl) | hl) | hl
        · exact hlens l (by simp [hl])
        · exact hlens l (by simp [hl])
        · subst hl; exact hlens lr (by simp)
        · subst hl; exact hlens l (by simp)
        · exact hlens l (by simp [hl])
      · rw [rowsText_append, hrt1, rowsText_singleton, hb0.2]
      · show cur.length = (ws ++ [lrw]).length * t.cols + 0
        simp only [List.length_append, List.length_cons, List.length_nil, Nat.add_mul, Nat.one_mul]
        omega
      · show t.buffer.sb.length + (t.cursor.row + 1) = closedRows.length + (ws ++ [lrw]).length
        simp only [List.length_append, List.length_cons, List.length_nil]
        omega

/-- **C09, print step** (`C09_print_step`): on a typewriter-mode terminal every printed character keeps
    the typewriter invariant for the text extended by that character — with or without a pending
    wrap, with or without scrolling -/
theorem TW_print {t : Terminal} {logical : List (List Nat)} (hm : TWMode t) (hg : TWGeom t)
    (h : TW t logical) (ch : Nat) :
    ∃ t', t.print ch = some t' ∧ TWMode t' ∧ TWGeom t' ∧ TW t' (typeChar logical ch) := by
  cases hp : t.pendingWrap with
  | false => exact TW_print_no_pending hm hg h hp ch
  | true =>
    obtain ⟨t1, hw, hm1, hg1, h1, hp1, hpen, hcs, hch⟩ := TW_wrap hm hg h hp
    rw [print_of_wrapPart hm hw hp1 hpen hcs hch ch]
    exact TW_print_no_pending hm1 hg1 h1 hp1 ch

end Avt.Lemmas

namespace Avt.Lemmas
open Avt Avt.Spec.C09

/-- CR then LF, as the parser dispatches them -/
def crlf (t : Terminal) : Option Terminal := (t.execute .cr).bind fun t1 => t1.execute .lf

/-- the fields of a terminal the typewriter invariant and its side conditions look at -/
structure SameBut (t t' : Terminal) : Prop where
  cols : t'.cols = t.cols
  rows : t'.rows = t.rows
  bcols : t'.buffer.cols = t.buffer.cols
  brows : t'.buffer.rows = t.buffer.rows
  top : t'.topMargin = t.topMargin
  bottom : t'.bottomMargin = t.bottomMargin
  autoWrap : t'.autoWrapMode = t.autoWrapMode
  insert : t'.insertMode = t.insertMode
  acs : t'.activeCharset = t.activeCharset
  css : t'.charsets = t.charsets
  abt : t'.activeBufferType = t.activeBufferType
  blimit : t'.buffer.limit = t.buffer.limit
  col : t'.cursor.col = 0
  pend : t'.pendingWrap = false

/-- the last step of `lf`: under LNM the cursor also returns to column 0 (it is there already) -/
def lfFinish (X : Terminal) : Terminal := if X.newLineMode then X.doMoveCursorToCol 0 else X

theorem lfFinish_buffer (X : Terminal) : (lfFinish X).buffer = X.buffer := by
  unfold lfFinish; split <;> rfl
theorem lfFinish_row (X : Terminal) : (lfFinish X).cursor.row = X.cursor.row := by
  unfold lfFinish; split <;> rfl
theorem lfFinish_dirty (X : Terminal) : (lfFinish X).dirtyLines = X.dirtyLines := by
  unfold lfFinish; split <;> rfl

theorem lfFinish_sameBut {t X : Terminal} (h : SameBut t X) : SameBut t (lfFinish X) := by
  unfold lfFinish
  split
  · exact ⟨h.cols, h.rows, h.bcols, h.brows, h.top, h.bottom, h.autoWrap, h.insert, h.acs, h.css, h.abt,
      h.blimit, rfl, rfl⟩
  · exact h

/-- the terminal after CR and the scrolling part of LF on the last row -/
def scrolledCr (t : Terminal) : Terminal :=
  { t.doMoveCursorToCol 0 with
    buffer := { t.buffer with
      sb := t.buffer.sb ++ (t.buffer.view ++ [Line.blank t.buffer.cols t.pen]).take 1,
      view := (t.buffer.view ++ [Line.blank t.buffer.cols t.pen]).drop 1,
      trimNeeded := true },
    dirtyLines := List.replicate t.rows true }

theorem crlf_scroll {t : Terminal} (hm : TWMode t) (hg : TWGeom t) (hlast : t.cursor.row + 1 = t.rows) :
    crlf t = some (lfFinish (scrolledCr t)) := by
  have heq : (t.doMoveCursorToCol 0).cursor.row = (t.doMoveCursorToCol 0).bottomMargin := by
    show t.cursor.row = t.bottomMargin
    have := hm.bottom; omega
  have hs : (t.doMoveCursorToCol 0).scrollUpInRegion 1 = some (scrolledCr t) :=
    scrollUpInRegion_full (t.doMoveCursorToCol 0) hm.top hm.bottom hg.brows hg.rows_pos hg.dirty_len
  simp only [crlf, Terminal.execute, Option.bind_some, Terminal.lf, Terminal.moveCursorDownWithScroll,
    heq, if_true, hs, Option.map_some, lfFinish]

/-- the terminal after CR and the moving part of LF above the last row -/
def movedCr (t : Terminal) : Terminal :=
  { t with cursor := { t.cursor with col := 0, row := t.cursor.row + 1 }, pendingWrap := false }

theorem crlf_move {t : Terminal} (hm : TWMode t) (hg : TWGeom t) (hlt : t.cursor.row + 1 < t.rows) :
    crlf t = some (lfFinish (movedCr t)) := by
  have hne : ¬ (t.doMoveCursorToCol 0).cursor.row = (t.doMoveCursorToCol 0).bottomMargin := by
    show ¬ t.cursor.row = t.bottomMargin
    have := hm.bottom; omega
  have hrs : csub (t.doMoveCursorToCol 0).rows 1 = some (t.rows - 1) := by
    show csub t.rows 1 = _
    unfold csub; have := hg.rows_pos; simp; omega
  have hcs : csub (t.doMoveCursorToCol 0).cols 1 = some (t.cols - 1) := by
    show csub t.cols 1 = _
    unfold csub; have := hg.cols_pos; simp; omega
  have hlt' : (t.doMoveCursorToCol 0).cursor.row < t.rows - 1 := by
    show t.cursor.row < t.rows - 1; omega
  simp only [crlf, Terminal.execute, Option.bind_some, Terminal.lf, Terminal.moveCursorDownWithScroll,
    hne, if_false, hrs, hlt', if_true, Terminal.doMoveCursorToRow, hcs, Option.map_some, lfFinish]
  cases hn : t.newLineMode <;> simp [movedCr, Terminal.doMoveCursorToCol, hn]

theorem TWMode_of_sameBut {t t' : Terminal} (hm : TWMode t) (h : SameBut t t') : TWMode t' :=
  ⟨by rw [h.top]; exact hm.top, by rw [h.bottom, h.rows]; exact hm.bottom, by rw [h.autoWrap]; exact hm.autoWrap,
   by rw [h.insert]; exact hm.replace, by rw [h.acs, h.css]; exact hm.charset, by rw [h.abt]; exact hm.primary,
   by rw [h.blimit]; exact hm.unlimited⟩

theorem TWGeom_of_sameBut {t t' : Terminal} (hg : TWGeom t) (h : SameBut t t')
    (hv : t'.buffer.view.length = t.rows) (hr : t'.cursor.row < t.rows) (hd : t'.dirtyLines.length = t.rows) :
    TWGeom t' :=
  ⟨by rw [h.cols]; exact hg.cols_pos, by rw [h.rows]; exact hg.rows_pos,
   by rw [h.bcols, h.cols]; exact hg.bcols, by rw [h.brows, h.rows]; exact hg.brows,
   by rw [h.rows]; exact hv, by rw [h.rows]; exact hr,
   Or.inr ⟨h.pend, by rw [h.col, h.cols]; exact hg.cols_pos⟩, by rw [h.rows]; exact hd⟩

theorem scrolledCr_sameBut (t : Terminal) : SameBut t (scrolledCr t) :=
  ⟨rfl, rfl, rfl, rfl, rfl, rfl, rfl, rfl, rfl, rfl, rfl, rfl, rfl, rfl⟩

theorem movedCr_sameBut (t : Terminal) : SameBut t (movedCr t) :=
  ⟨rfl, rfl, rfl, rfl, rfl, rfl, rfl, rfl, rfl, rfl, rfl, rfl, rfl, rfl⟩

/-- **C09, CR LF step** (`C09_crlf_step`): CR LF closes the line being typed and opens an empty one on
    the next row (scrolling the whole screen, the top row going to the scrollback, when on the last
    row); the row just left is NOT marked wrapped, whatever the length of the line -/
theorem TW_crlf {t : Terminal} {logical : List (List Nat)} (hm : TWMode t) (hg : TWGeom t)
    (h : TW t logical) :
    ∃ t', crlf t = some t' ∧ TWMode t' ∧ TWGeom t' ∧ TW t' (typeNewline logical) := by
  obtain ⟨done, cur, closedRows, ws, lr, belowRows, pad, rfl, hlines, hlu, htext, hpx, hws, hlr, hlens, hrt,
    hcur, hrow, hbelow⟩ := h
  have hcount := TW_counts hg hlines hrow
  -- the rows of the finished lines, now including the line just typed
  have hclosed : lastUnwrapped (closedRows ++ (ws ++ [lr])) = true := by
    rw [← List.append_assoc, lastUnwrapped_snoc, hlr]; rfl
  have hrun : Buffer.textGo (ws ++ [lr]) [] = [trimEnd cur] := by
    have := textGo_wrapped_run ws hws lr hlr [] []
    rw [List.append_nil] at this
    rw [this, hrt, List.nil_append, trimEnd_append_spaces]; rfl
  have htext' : Buffer.textGo (closedRows ++ (ws ++ [lr])) [] = (done ++ [cur]).map trimEnd := by
    by_cases hc : closedRows = []
    · subst hc
      have : done = [] := by
        have := congrArg List.length htext
        simpa [Buffer.textGo] using this.symm
      subst this
      rw [List.nil_append, hrun]; rfl
    · rw [textGo_append hlu hc, htext, hrun]; simp
  have hlines' : t.buffer.sb ++ t.buffer.view = closedRows ++ (ws ++ [lr]) ++ belowRows := hlines
  have hprefix : rowsText ws ++ trimEnd lr.text <+: cur :=
    cur_prefix (fun l hl => hlens l (by simp [hl])) hrt hcur
  have hpx' : prefixwise (unwrapOut (closedRows ++ (ws ++ [lr])) []) (done ++ [cur]) = true := by
    have hone : unwrapOut (ws ++ [lr]) [] = [rowsText ws ++ trimEnd lr.text] := by
      have := unwrapOut_wrapped_run ws hws lr hlr [] []
      rw [List.append_nil] at this
      rw [this]; rfl
    have hlast1 : prefixwise [rowsText ws ++ trimEnd lr.text] [cur] = true := by
      simp [prefixwise, List.isPrefixOf_iff_prefix.2 hprefix]
    by_cases hc : closedRows = []
    · subst hc
      have : done = [] := by
        have := congrArg List.length htext
        simpa [Buffer.textGo] using this.symm
      subst this
      rw [List.nil_append, hone]; exact hlast1
    · rw [unwrapOut_append hlu hc, hone]
      refine prefixwise_append ?_ hpx hlast1
      rw [unwrapOut_length hlu, htext]; simp
  by_cases hlast : t.cursor.row + 1 = t.rows
  · -- scroll
    have hb : belowRows = [] := by
      cases belowRows with
      | nil => rfl
      | cons _ _ => simp at hcount; omega
    subst hb
    have hsb := lfFinish_sameBut (scrolledCr_sameBut t)
    have hbuf := lfFinish_buffer (scrolledCr t)
    have hvl : (lfFinish (scrolledCr t)).buffer.view.length = t.rows := by
      rw [hbuf]; simp [scrolledCr, Terminal.doMoveCursorToCol, hg.view_len]
    have hrw : (lfFinish (scrolledCr t)).cursor.row = t.cursor.row := lfFinish_row _
    refine ⟨_, crlf_scroll hm hg hlast, TWMode_of_sameBut hm hsb,
      TWGeom_of_sameBut hg hsb hvl (by rw [hrw]; exact hg.row_lt)
        (by rw [lfFinish_dirty]; simp [scrolledCr]), ?_⟩
    have hl1 : (lfFinish (scrolledCr t)).buffer.lines
        = (closedRows ++ (ws ++ [lr])) ++ ([] ++ [Line.blank t.buffer.cols t.pen]) ++ [] := by
      rw [hbuf]
      simp only [scrolledCr, Buffer.lines, Terminal.doMoveCursorToCol]
      rw [List.append_assoc, List.take_append_drop, ← List.append_assoc, hlines']
      simp
    refine ⟨done ++ [cur], [], closedRows ++ (ws ++ [lr]), [], Line.blank t.buffer.cols t.pen, [], t.cols,
      rfl, hl1, hclosed, htext', hpx', by simp, rfl, ?_, ?_, ?_, ?_, by simp⟩
    · intro l hl
      rw [hsb.cols]
      simp only [List.mem_append, List.mem_singleton, List.append_nil, List.nil_append] at hl
      rcases hl with (hl | hl | hl) | hl
      · exact hlens l (by simp [hl])
      · exact hlens l (by simp [hl])
      · rw [hl]; exact hlens lr (by simp)
      · subst hl; simp [Line.blank, Line.len, hg.bcols]
    · rw [List.nil_append, rowsText_singleton, blank_text, hg.bcols]; rfl
    · rw [hsb.col]; simp
    · rw [hbuf, hrw]
      have : ((t.buffer.view ++ [Line.blank t.buffer.cols t.pen]).take 1).length = 1 := by
        rw [List.length_take]; simp
      simp only [scrolledCr, Terminal.doMoveCursorToCol, List.length_append, this, List.length_cons,
        List.length_nil]
      omega
  · -- move down
    have hlt : t.cursor.row + 1 < t.rows := by have := hg.row_lt; omega
    obtain ⟨b0, below', rfl⟩ : ∃ b0 below', belowRows = b0 :: below' := by
      cases belowRows with
      | nil => simp at hcount; omega
      | cons b0 below' => exact ⟨b0, below', rfl⟩
    have hb0 := hbelow b0 (by simp)
    have hsb := lfFinish_sameBut (movedCr_sameBut t)
    have hbuf : (lfFinish (movedCr t)).buffer = t.buffer := lfFinish_buffer _
    have hrw : (lfFinish (movedCr t)).cursor.row = t.cursor.row + 1 := lfFinish_row _
    refine ⟨_, crlf_move hm hg hlt, TWMode_of_sameBut hm hsb,
      TWGeom_of_sameBut hg hsb (by rw [hbuf]; exact hg.view_len) (by rw [hrw]; exact hlt)
        (by rw [lfFinish_dirty]; exact hg.dirty_len), ?_⟩
    have hl1 : (lfFinish (movedCr t)).buffer.lines
        = (closedRows ++ (ws ++ [lr])) ++ ([] ++ [b0]) ++ below' := by
      rw [hbuf, hlines]; simp
    refine ⟨done ++ [cur], [], closedRows ++ (ws ++ [lr]), [], b0, below', t.cols,
      rfl, hl1, hclosed, htext', hpx', by simp, hb0.1, ?_, ?_, ?_, ?_, ?_⟩
    · intro l hl
      rw [hsb.cols]
      simp only [List.mem_append, List.mem_singleton, List.nil_append] at hl
      rcases hl with ((hl | hl | hl) | hl) | hl
      · exact hlens l (by simp [hl])
      · exact hlens l (by simp [hl])
      · rw [hl]; exact hlens lr (by simp)
      · rw [hl]; exact hlens b0 (by simp)
      · exact hlens l (by simp [hl])
    · rw [List.nil_append, rowsText_singleton, hb0.2]; rfl
    · rw [hsb.col]; simp
    · rw [hbuf, hrw]
      simp only [List.length_append, List.length_cons, List.length_nil]
      omega
    · intro l hl
      rw [hsb.cols]
      exact hbelow l (by simp [hl])

/-- C09, second clause, the part "white space is only ever removed": every line the `TextUnwrapper`
    produces is a prefix of the corresponding typed line -/
theorem TW_unwrap_prefix {t : Terminal} {logical : List (List Nat)} (h : TW t logical) :
    prefixwise (unwrapAll t.buffer.lines) logical = true := by
  have hlast := TW_lastUnwrapped h
  obtain ⟨done, cur, closedRows, ws, lr, belowRows, pad, rfl, hlines, hlu, htext, hpx, hws, hlr, hlens, hrt,
    hcur, hrow, hbelow⟩ := h
  have hne : t.buffer.lines ≠ [] := by rw [hlines]; simp
  have hall : unwrapAll t.buffer.lines = unwrapOut t.buffer.lines [] := by
    have hacc : (unwrapMany [] t.buffer.lines).1 = [] := by
      rw [unwrapMany_spec]; exact unwrapAcc_lastUnwrapped hlast hne []
    simp only [unwrapAll, hacc, unwrapFlush, List.isEmpty_nil, if_true, Option.toList_none,
      List.append_nil]
    rw [unwrapMany_spec]
  have hprefix : rowsText ws ++ trimEnd lr.text <+: cur :=
    cur_prefix (fun l hl => hlens l (by simp [hl])) hrt hcur
  have hrun : unwrapOut ((ws ++ [lr]) ++ belowRows) []
      = (rowsText ws ++ trimEnd lr.text) :: unwrapOut belowRows [] := by
    rw [unwrapOut_wrapped_run ws hws lr hlr]; rfl
  have htail : prefixwise ((rowsText ws ++ trimEnd lr.text) :: unwrapOut belowRows []) [cur] = true := by
    simp only [prefixwise, Bool.and_eq_true]
    refine ⟨List.isPrefixOf_iff_prefix.2 hprefix, ?_⟩
    cases unwrapOut belowRows [] <;> rfl
  rw [hall, hlines, List.append_assoc]
  by_cases hc : closedRows = []
  · subst hc
    have : done = [] := by
      have := congrArg List.length htext
      simpa [Buffer.textGo] using this.symm
    subst this
    rw [List.nil_append, hrun]; exact htail
  · rw [unwrapOut_append hlu hc, hrun]
    refine prefixwise_append ?_ hpx htail
    rw [unwrapOut_length hlu, htext]; simp

/-- C09, second clause complete: `unwrapOK` -/
theorem TW_unwrapOK {t : Terminal} {logical : List (List Nat)} (h : TW t logical) :
    unwrapOK logical (unwrapAll t.buffer.lines) = true := by
  simp only [unwrapOK, Bool.and_eq_true, beq_iff_eq]
  exact ⟨TW_unwrap h, TW_unwrap_prefix h⟩

end Avt.Lemmas
