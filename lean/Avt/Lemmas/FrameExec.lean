/-
  Avt.Lemmas.FrameExec — the frame lemma for the buffer switches, `reflow`, RIS, and `Terminal.execute`
  as a whole.  Covered: ALL 48 functions (`coveredFrame f = true` for every `f`).
-/
import Avt.Lemmas.FrameTerm

namespace Avt.Frame
open Avt

/-- like `mkrel`, for a step that replaces the active buffer by one of a possibly different shape
    (`Buffer.resize`): the four facts about the new buffer are given explicitly -/
macro "mkrelG " R:term ", " hb:term ", " hd:term ", " hgc:term ", " hgr:term ", " hvl:term ", " hlim:term : tactic =>
  `(tactic| exact
      { buf := $hb, other := by scalf $R, ($R).other, dirty := $hd,
        abt := by scalf $R, ($R).abt, slA := by scalf $R, ($R).slA, slB := by scalf $R, ($R).slB,
        stale := by scalf $R, ($R).stale, xtw := by scalf $R, ($R).xtw,
        geoC := by scalf $R, $hgc, geoR := by scalf $R, $hgr, vlen := $hvl,
        ovlen := by scalf $R, ($R).ovlen, limA := $hlim, limO := by scalf $R, ($R).limO,
        cols := by scalf $R, ($R).cols, rows := by scalf $R, ($R).rows,
        activeBufferType := by scalf $R, ($R).activeBufferType,
        cursor := by scalf $R, ($R).cursor, pen := by scalf $R, ($R).pen,
        charsets := by scalf $R, ($R).charsets, activeCharset := by scalf $R, ($R).activeCharset,
        tabs := by scalf $R, ($R).tabs, insertMode := by scalf $R, ($R).insertMode,
        originMode := by scalf $R, ($R).originMode, autoWrapMode := by scalf $R, ($R).autoWrapMode,
        newLineMode := by scalf $R, ($R).newLineMode, cursorKeysMode := by scalf $R, ($R).cursorKeysMode,
        pendingWrap := by scalf $R, ($R).pendingWrap, topMargin := by scalf $R, ($R).topMargin,
        bottomMargin := by scalf $R, ($R).bottomMargin, savedCtx := by scalf $R, ($R).savedCtx,
        alternateSavedCtx := by scalf $R, ($R).alternateSavedCtx, xtwinops := by scalf $R, ($R).xtwinops })

section
variable {P : Par} {a b : Terminal}

/-- forgetting / asserting the geometry flag -/
theorem Rel.setG (R : Rel P a b) (g : Bool) (hc : g = true → a.buffer.cols = a.cols)
    (hr : g = true → a.buffer.rows = a.rows) : Rel { P with g := g } a b :=
  { R with geoC := hc, geoR := hr }

theorem markDirtyRange_rel2 (R : Rel P a b) (lo : Nat) {hi hi' : Nat} (h : hi = hi') :
    RelO P (a.markDirtyRange lo hi) (b.markDirtyRange lo hi') := h ▸ markDirtyRange_rel R lo hi

/-! ### reflow -/

/-- `Terminal.reflow`, last part: clamp the saved cursor into the screen -/
def reflowClamp (t : Terminal) : Option Terminal :=
  match (if t.savedCtx.cursorCol ≥ t.cols
         then (csub t.cols 1).map fun c1 => { t with savedCtx := { t.savedCtx with cursorCol := c1 } }
         else some t) with
  | none => none
  | some t =>
    if t.savedCtx.cursorRow ≥ t.rows
    then (csub t.rows 1).map fun r1 => { t with savedCtx := { t.savedCtx with cursorRow := r1 } }
    else some t

/-- `Terminal.reflow` after the pending wrap was dropped -/
def reflowCore (t : Terminal) : Option Terminal :=
  match t.buffer.resize t.cols t.rows (t.cursor.col, t.cursor.row) with
  | none => none
  | some (b, (col, row)) =>
    let t := { t with buffer := b, cursor := { t.cursor with col := col, row := row },
                      dirtyLines := Dirty.resize t.dirtyLines t.rows }
    match t.markDirtyRange 0 t.rows with
    | none => none
    | some t => reflowClamp t

theorem reflow_eq (t : Terminal) :
    t.reflow = reflowCore (if t.cols ≠ t.buffer.cols then { t with pendingWrap := false } else t) := rfl

theorem reflowClamp_rel (R : Rel P a b) : RelO P (reflowClamp a) (reflowClamp b) := by
  unfold reflowClamp
  scal R
  refine bindT (Q := RelO P) (P := P) ?_ trivial fun a' b' R' => ?_
  · split
    · exact RelO.mapSame _ fun _ => by mkrel R
    · exact R
  · rw [R'.savedCtx, R'.rows]
    split
    · exact RelO.mapSame _ fun _ => by mkrel R'
    · exact R'

theorem reflowCore_rel (R : Rel P a b)
    (hc : (a.buffer.cols = a.cols ∧ a.buffer.rows = a.rows) ∨ P.pa = []) :
    RelO { P with g := true } (reflowCore a) (reflowCore b) := by
  unfold reflowCore
  have h := resize_rel R.buf a.cols a.rows (a.cursor.col, a.cursor.row)
    (hc.imp (fun h => ⟨h.1, h.2, R.vlen⟩) id)
  rw [← R.cols, ← R.rows, ← R.cursor]
  cases hx : a.buffer.resize a.cols a.rows (a.cursor.col, a.cursor.row) with
  | none =>
    cases hy : b.buffer.resize a.cols a.rows (a.cursor.col, a.cursor.row) with
    | none => trivial
    | some ry => rw [hx, hy] at h; exact False.elim h
  | some rx =>
    obtain ⟨x', cx⟩ := rx
    cases hy : b.buffer.resize a.cols a.rows (a.cursor.col, a.cursor.row) with
    | none => rw [hx, hy] at h; exact False.elim h
    | some ry =>
      obtain ⟨y', cy⟩ := ry
      rw [hx, hy] at h
      obtain ⟨hb, hcur, hxc, hxr, hxv, hxl⟩ := h
      subst hcur
      obtain ⟨col, row⟩ := cx
      simp only []
      refine bindT (Q := RelO { P with g := true }) (markDirtyRange_rel (P := { P with g := true }) ?_ _ _) trivial
        fun a' b' R' => reflowClamp_rel R'
      mkrelG R, hb, dirtyResize_length R.dirty _, (fun _ => hxc), (fun _ => hxr),
        hxv.trans hxr.symm, hxl.trans R.limA

theorem reflow_rel (R : Rel P a b)
    (hc : (a.buffer.cols = a.cols ∧ a.buffer.rows = a.rows) ∨ P.pa = []) :
    RelO { P with g := true } a.reflow b.reflow := by
  rw [reflow_eq, reflow_eq, R.cols, R.buf.cols]
  split
  · exact reflowCore_rel (by mkrel R) (by rw [← R.cols]; exact hc)
  · exact reflowCore_rel R hc

/-! ### the buffer switches -/

theorem switchToAlternateBuffer_rel (R : Rel P a b) (hg : P.g = true) :
    RelX P a.switchToAlternateBuffer b.switchToAlternateBuffer := by
  unfold Terminal.switchToAlternateBuffer
  rw [← R.activeBufferType]
  cases hT : a.activeBufferType with
  | alternate => exact RelO.toX (P := P) (oa := some a) (ob := some b) R
  | primary =>
    simp only []
    have hPT : P.T = .primary := by rw [← R.abt, hT]
    refine RelX.trans (P' := ⟨P.s, true, P.L, .alternate, [], P.pa⟩)
      (RelO.toX (markDirtyRange_rel2 ?_ _ R.rows)) rfl hg.symm rfl (by simp [Par.prim, hPT])
    exact
      { buf := by rw [R.cols, R.rows, R.pen]; exact BRel.refl _ _
        other := R.buf, dirty := R.dirty, abt := rfl, slA := R.slA, slB := R.slB
        stale := fun h => by
          exfalso
          rcases h with h | h
          · exact h (R.geoC hg)
          · exact h (R.geoR hg)
        xtw := R.xtw, geoC := fun _ => rfl, geoR := fun _ => rfl
        vlen := by simp [Buffer.new]
        ovlen := R.vlen, limA := rfl
        limO := fun _ => by have := R.limA; simpa [Par.activeLimit, hPT] using this
        cols := R.cols, rows := R.rows, activeBufferType := rfl, cursor := R.cursor, pen := R.pen
        charsets := R.charsets, activeCharset := R.activeCharset, tabs := R.tabs
        insertMode := R.insertMode, originMode := R.originMode, autoWrapMode := R.autoWrapMode
        newLineMode := R.newLineMode, cursorKeysMode := R.cursorKeysMode, pendingWrap := R.pendingWrap
        topMargin := R.topMargin, bottomMargin := R.bottomMargin, savedCtx := R.alternateSavedCtx
        alternateSavedCtx := R.savedCtx, xtwinops := R.xtwinops }

/-- result of the switch back: the geometry flag is dropped, but either the new active buffer has
    the terminal's geometry or it is the same on both sides -/
def RelY (P : Par) : Option Terminal → Option Terminal → Prop
  | some a, some b => ∃ P', Rel P' a b ∧ P'.s = P.s ∧ P'.L = P.L ∧ P'.prim = P.prim
      ∧ ((a.buffer.cols = a.cols ∧ a.buffer.rows = a.rows) ∨ P'.pa = [])
  | none, none => True
  | _, _ => False

theorem switchToPrimaryBuffer_rel (R : Rel P a b) (hg : P.g = true) :
    RelY P a.switchToPrimaryBuffer b.switchToPrimaryBuffer := by
  unfold Terminal.switchToPrimaryBuffer
  rw [← R.activeBufferType]
  cases hT : a.activeBufferType with
  | primary => exact ⟨P, R, rfl, rfl, rfl, Or.inl ⟨R.geoC hg, R.geoR hg⟩⟩
  | alternate =>
    simp only []
    have hPT : P.T = .alternate := by rw [← R.abt, hT]
    have R1 : Rel ⟨P.s, false, P.L, .primary, P.po, P.pa⟩
        { a with activeBufferType := .primary, savedCtx := a.alternateSavedCtx,
                 alternateSavedCtx := a.savedCtx, buffer := a.otherBuffer, otherBuffer := a.buffer }
        { b with activeBufferType := .primary, savedCtx := b.alternateSavedCtx,
                 alternateSavedCtx := b.savedCtx, buffer := b.otherBuffer, otherBuffer := b.buffer } :=
      { buf := R.other, other := R.buf, dirty := R.dirty, abt := rfl, slA := R.slA, slB := R.slB
        stale := fun h => by
          exfalso
          rcases h with h | h
          · exact h (R.geoC hg)
          · exact h (R.geoR hg)
        xtw := R.xtw, geoC := (fun h => by cases h), geoR := (fun h => by cases h)
        vlen := R.ovlen, ovlen := R.vlen
        limA := by have := R.limO hPT; simpa [Par.activeLimit] using this
        limO := fun h => by cases h
        cols := R.cols, rows := R.rows, activeBufferType := rfl, cursor := R.cursor, pen := R.pen
        charsets := R.charsets, activeCharset := R.activeCharset, tabs := R.tabs
        insertMode := R.insertMode, originMode := R.originMode, autoWrapMode := R.autoWrapMode
        newLineMode := R.newLineMode, cursorKeysMode := R.cursorKeysMode, pendingWrap := R.pendingWrap
        topMargin := R.topMargin, bottomMargin := R.bottomMargin, savedCtx := R.alternateSavedCtx
        alternateSavedCtx := R.savedCtx, xtwinops := R.xtwinops }
    have hgeo : (a.otherBuffer.cols = a.cols ∧ a.otherBuffer.rows = a.rows) ∨ P.po = [] := by
      by_cases h1 : a.otherBuffer.cols = a.cols
      · by_cases h2 : a.otherBuffer.rows = a.rows
        · exact Or.inl ⟨h1, h2⟩
        · exact Or.inr (R.stale (Or.inr h2))
      · exact Or.inr (R.stale (Or.inl h1))
    rcases (markDirtyRange_rel2 R1 0 R.rows).elim with ⟨ha, hb⟩ | ⟨a', b', ha, hb, R'⟩
    · show RelY P (Terminal.markDirtyRange _ 0 a.rows) (Terminal.markDirtyRange _ 0 b.rows)
      rw [ha, hb]; trivial
    · show RelY P (Terminal.markDirtyRange _ 0 a.rows) (Terminal.markDirtyRange _ 0 b.rows)
      rw [ha, hb]
      refine ⟨_, R', rfl, rfl, by simp [Par.prim, hPT], ?_⟩
      -- `markDirtyRange` only touches the dirty flags
      unfold Terminal.markDirtyRange at ha
      cases hd : Dirty.extend a.dirtyLines 0 a.rows with
      | none => simp [hd] at ha
      | some d =>
        simp only [hd, Option.map_some, Option.some.injEq] at ha
        subst ha
        exact hgeo

/-- switch back to the primary screen, then `reflow` (possibly after `restoreCursor`) -/
theorem leaveAlt_rel (R : Rel P a b) (hg : P.g = true) (restore : Bool) :
    RelX P
      (match a.switchToPrimaryBuffer with
       | none => none
       | some t => (if restore then t.restoreCursor else t).reflow)
      (match b.switchToPrimaryBuffer with
       | none => none
       | some t => (if restore then t.restoreCursor else t).reflow) := by
  have h := switchToPrimaryBuffer_rel R hg
  cases ha : a.switchToPrimaryBuffer with
  | none =>
    cases hb : b.switchToPrimaryBuffer with
    | none => trivial
    | some b' => rw [ha, hb] at h; exact False.elim h
  | some a' =>
    cases hb : b.switchToPrimaryBuffer with
    | none => rw [ha, hb] at h; exact False.elim h
    | some b' =>
      rw [ha, hb] at h
      obtain ⟨P', R', h1, h2, h3, h4⟩ := h
      simp only []
      have R'' : Rel P' (if restore then a'.restoreCursor else a') (if restore then b'.restoreCursor else b') := by
        split
        · exact restoreCursor_rel R'
        · exact R'
      have h4' : (((if restore then a'.restoreCursor else a').buffer.cols = (if restore then a'.restoreCursor else a').cols
          ∧ (if restore then a'.restoreCursor else a').buffer.rows = (if restore then a'.restoreCursor else a').rows)
          ∨ P'.pa = []) := by
        split
        · exact h4
        · exact h4
      exact RelX.trans (RelO.toX (reflow_rel R'' h4')) h1 hg.symm h2 h3

/-! ### DECSET / DECRST -/

theorem decsetOne_rel (R : Rel P a b) (hg : P.g = true) (m : DecMode) :
    RelX P (a.decsetOne m) (b.decsetOne m) := by
  have enter : ∀ {P : Par} {a b : Terminal}, Rel P a b → P.g = true →
      RelX P (match a.switchToAlternateBuffer with | none => none | some t => t.reflow)
             (match b.switchToAlternateBuffer with | none => none | some t => t.reflow) := by
    intro P a b R hg
    refine bindX (switchToAlternateBuffer_rel R hg) fun P' a' b' R' h1 h2 h3 h4 => ?_
    have hg' : P'.g = true := h2.trans hg
    exact RelX.trans (RelO.toX (reflow_rel R' (Or.inl ⟨R'.geoC hg', R'.geoR hg'⟩))) rfl hg'.symm rfl rfl
  cases m with
  | cursorKeys =>
    simp only [Terminal.decsetOne]
    refine RelO.toX (P := P) ?_
    simp only [RelO.some_some]; mkrel R
  | origin =>
    simp only [Terminal.decsetOne]
    exact RelO.toX (moveCursorHome_rel (by mkrel R))
  | autoWrap =>
    simp only [Terminal.decsetOne]
    refine RelO.toX (P := P) ?_
    simp only [RelO.some_some]; mkrel R
  | textCursorEnable =>
    simp only [Terminal.decsetOne]
    refine RelO.toX (P := P) ?_
    simp only [RelO.some_some]; mkrel R
  | altScreenBuffer =>
    simp only [Terminal.decsetOne]
    exact enter R hg
  | saveCursor =>
    simp only [Terminal.decsetOne]
    exact RelO.toX (saveCursor_rel R)
  | saveCursorAltScreenBuffer =>
    simp only [Terminal.decsetOne]
    exact bindT (Q := RelX P) (saveCursor_rel R) trivial fun a' b' R' => enter R' hg

theorem decrstOne_rel (R : Rel P a b) (hg : P.g = true) (m : DecMode) :
    RelX P (a.decrstOne m) (b.decrstOne m) := by
  cases m with
  | cursorKeys =>
    simp only [Terminal.decrstOne]
    refine RelO.toX (P := P) ?_
    simp only [RelO.some_some]; mkrel R
  | origin =>
    simp only [Terminal.decrstOne]
    exact RelO.toX (moveCursorHome_rel (by mkrel R))
  | autoWrap =>
    simp only [Terminal.decrstOne]
    refine RelO.toX (P := P) ?_
    simp only [RelO.some_some]; mkrel R
  | textCursorEnable =>
    simp only [Terminal.decrstOne]
    refine RelO.toX (P := P) ?_
    simp only [RelO.some_some]; mkrel R
  | altScreenBuffer =>
    simp only [Terminal.decrstOne]
    exact leaveAlt_rel R hg false
  | saveCursor =>
    simp only [Terminal.decrstOne]
    exact RelO.toX (P := P) (oa := some _) (ob := some _) (restoreCursor_rel R)
  | saveCursorAltScreenBuffer =>
    simp only [Terminal.decrstOne]
    exact leaveAlt_rel R hg true

theorem foldM_rel {α} {f : Terminal → α → Option Terminal}
    (step : ∀ (P : Par) (a b : Terminal) (m : α), Rel P a b → P.g = true → RelX P (f a m) (f b m))
    (ms : List α) : ∀ (P : Par) (a b : Terminal), Rel P a b → P.g = true →
      RelX P (Terminal.foldM' f ms a) (Terminal.foldM' f ms b) := by
  induction ms with
  | nil => intro P a b R _; exact RelO.toX (P := P) (oa := some a) (ob := some b) R
  | cons m ms ih =>
    intro P a b R hg
    simp only [Terminal.foldM']
    rcases (step P a b m R hg).elim with ⟨ha, hb⟩ | ⟨a', b', P', ha, hb, R', h1, h2, h3, h4⟩
    · simp only [ha, hb]; trivial
    · simp only [ha, hb]
      exact RelX.trans (ih P' a' b' R' (h2.trans hg)) h1 h2 h3 h4

/-! ### RIS -/

theorem hardReset_rel (R : Rel P a b) (hs : P.s = true) :
    RelO ⟨true, true, P.L, .primary, [], []⟩ a.hardReset b.hardReset := by
  unfold Terminal.hardReset
  scal R
  rw [R.slA, R.slB hs]
  refine RelO.mapSame _ fun r1 => ?_
  exact
    { buf := BRel.refl _ _, other := BRel.refl _ _, dirty := rfl, abt := rfl
      slA := by first | rfl | exact R.slA
      slB := fun _ => by first | rfl | exact R.slB hs
      stale := fun _ => rfl, xtw := by scalf R, R.xtw
      geoC := fun _ => rfl, geoR := fun _ => rfl
      vlen := by simp [Buffer.new]
      ovlen := by simp [Buffer.new]
      limA := rfl, limO := fun h => by cases h
      cols := rfl, rows := rfl, activeBufferType := rfl, cursor := rfl, pen := rfl
      charsets := rfl, activeCharset := rfl, tabs := rfl
      insertMode := rfl, originMode := rfl, autoWrapMode := rfl
      newLineMode := rfl, cursorKeysMode := rfl, pendingWrap := rfl
      topMargin := rfl, bottomMargin := rfl, savedCtx := rfl
      alternateSavedCtx := rfl, xtwinops := by scalf R, R.xtwinops }

/-! ### `Terminal.execute` -/

/-- the functions the frame lemma covers: all of them -/
def coveredFrame (_ : Function) : Bool := true

theorem execute_rel (R : Rel P a b) (hg : P.g = true) (f : Function) (hf : f ≠ .ris) :
    RelX P (a.execute f) (b.execute f) := by
  cases f with
  | ris => exact absurd rfl hf
  | decset ms => exact foldM_rel (fun P a b m R hg => decsetOne_rel R hg m) ms P a b R hg
  | decrst ms => exact foldM_rel (fun P a b m R hg => decrstOne_rel R hg m) ms P a b R hg
  | bs => exact RelO.toX (bs_rel R)
  | cbt n => exact RelO.toX (moveCursorToPrevTab_rel R _)
  | cha n => exact RelO.toX (moveCursorToCol_rel R _)
  | cht n => exact RelO.toX (moveCursorToNextTab_rel R _)
  | cnl n => exact RelO.toX (RelO.map (cursorDown_rel R _) fun _ _ R' => doMoveCursorToCol_rel R' _)
  | cpl n => exact RelO.toX (RelO.map (cursorUp_rel R _) fun _ _ R' => doMoveCursorToCol_rel R' _)
  | cr => exact RelO.toX (P := P) (oa := some _) (ob := some _) (doMoveCursorToCol_rel R 0)
  | ctc op => exact RelO.toX (P := P) (oa := some _) (ob := some _) (ctc_rel R op)
  | cub n => exact RelO.toX (cub_rel R n)
  | cud n => exact RelO.toX (cursorDown_rel R _)
  | cuf n => exact RelO.toX (moveCursorToRelCol_rel R ((asUsize n 1 : Nat) : Int))
  | cup r c => exact RelO.toX (cup_rel R r c)
  | cuu n => exact RelO.toX (cursorUp_rel R _)
  | dch n => exact RelO.toX (dch_rel R n)
  | decaln => exact RelO.toX (decaln_rel R)
  | decrc => exact RelO.toX (P := P) (oa := some _) (ob := some _) (restoreCursor_rel R)
  | decsc => exact RelO.toX (saveCursor_rel R)
  | decstbm t bt => exact RelO.toX (decstbm_rel R t bt)
  | decstr => exact RelO.toX (softReset_rel R)
  | dl n => exact RelO.toX (dl_rel R n)
  | ech n => exact RelO.toX (ech_rel R n)
  | ed s => exact RelO.toX (ed_rel R s)
  | el s => exact RelO.toX (el_rel R s)
  | g1d4 c =>
    refine RelO.toX (P := P) (oa := some _) (ob := some _) ?_
    simp only [RelO.some_some]; mkrel R
  | gzd4 c =>
    refine RelO.toX (P := P) (oa := some _) (ob := some _) ?_
    simp only [RelO.some_some]; mkrel R
  | ht => exact RelO.toX (moveCursorToNextTab_rel R 1)
  | hts => exact RelO.toX (P := P) (oa := some _) (ob := some _) (setTab_rel R)
  | ich n => exact RelO.toX (ich_rel R n)
  | il n => exact RelO.toX (il_rel R n)
  | lf => exact RelO.toX (lf_rel R)
  | nel => exact RelO.toX (nel_rel R)
  | print ch => exact RelO.toX (print_rel' R ch)
  | rep n => exact RelO.toX (rep_rel R n)
  | ri => exact RelO.toX (ri_rel R)
  | rm ms => exact RelO.toX (P := P) (oa := some _) (ob := some _) (rm_rel R ms)
  | scorc => exact RelO.toX (P := P) (oa := some _) (ob := some _) (restoreCursor_rel R)
  | scosc => exact RelO.toX (saveCursor_rel R)
  | sd n => exact RelO.toX (scrollDownInRegion_rel R _)
  | sgr ops => exact RelO.toX (P := P) (oa := some _) (ob := some _) (sgr_rel R ops)
  | si =>
    refine RelO.toX (P := P) (oa := some _) (ob := some _) ?_
    simp only [RelO.some_some]; mkrel R
  | sm ms => exact RelO.toX (P := P) (oa := some _) (ob := some _) (sm_rel R ms)
  | so =>
    refine RelO.toX (P := P) (oa := some _) (ob := some _) ?_
    simp only [RelO.some_some]; mkrel R
  | su n => exact RelO.toX (scrollUpInRegion_rel R _)
  | tbc s => exact RelO.toX (P := P) (oa := some _) (ob := some _) (tbc_rel R s)
  | vpa n => exact RelO.toX (moveCursorToRow_rel R _)
  | vpr n => exact RelO.toX (cursorDown_rel R _)
  | xtwinops c r => exact RelO.toX (xtwinopsF_rel R c r)

/-- **Frame lemma.**  One `Function` executed on two related terminals: either both panic, or both
    succeed and the results are related again; strictness, limit and geometry flag are kept; the
    extra scrollback of the primary buffer is kept, except by RIS (strict variant only), after
    which nothing is extra. -/
theorem frame_execute {a' : Terminal} {f : Function} (hg : P.g = true) (R : Rel P a b)
    (hs : P.s = true ∨ f ≠ .ris) (_hc : coveredFrame f = true) (h : a.execute f = some a') :
    ∃ b' P', b.execute f = some b' ∧ Rel P' a' b' ∧ P'.g = true ∧ P'.s = P.s ∧ P'.L = P.L
      ∧ (f ≠ .ris → P'.prim = P.prim) ∧ (f = .ris → P'.prim = []) := by
  by_cases hf : f = .ris
  · subst hf
    have hs' : P.s = true := hs.resolve_right (fun h => h rfl)
    have hr := hardReset_rel R hs'
    simp only [Terminal.execute] at h ⊢
    rw [h] at hr
    cases hb : b.hardReset with
    | none => rw [hb] at hr; exact False.elim hr
    | some b' =>
      rw [hb] at hr
      exact ⟨b', _, rfl, hr, rfl, hs'.symm, rfl, fun h => absurd rfl h, fun _ => rfl⟩
  · have hr := execute_rel R hg f hf
    rw [h] at hr
    cases hb : b.execute f with
    | none => rw [hb] at hr; exact False.elim hr
    | some b' =>
      rw [hb] at hr
      obtain ⟨P', R', h1, h2, h3, h4⟩ := hr
      exact ⟨b', P', rfl, R', h2.trans hg, h1, h3, fun _ => h4, fun h => absurd h hf⟩

/-- the converse direction: if the smaller side succeeds, so does the larger one -/
theorem frame_execute_rev {b' : Terminal} {f : Function} (hg : P.g = true) (R : Rel P a b)
    (hs : P.s = true ∨ f ≠ .ris) (h : b.execute f = some b') :
    ∃ a' P', a.execute f = some a' ∧ Rel P' a' b' ∧ P'.g = true ∧ P'.s = P.s ∧ P'.L = P.L
      ∧ (f ≠ .ris → P'.prim = P.prim) ∧ (f = .ris → P'.prim = []) := by
  cases ha : a.execute f with
  | none =>
    exfalso
    by_cases hf : f = .ris
    · subst hf
      have hr := hardReset_rel R (hs.resolve_right (fun h => h rfl))
      simp only [Terminal.execute] at h ha
      rw [h, ha] at hr; exact hr
    · have hr := execute_rel R hg f hf
      rw [h, ha] at hr; exact hr
  | some a' =>
    obtain ⟨b'', P', hb, R', r⟩ := frame_execute hg R hs rfl ha
    rw [h] at hb; cases hb
    exact ⟨a', P', rfl, R', r⟩

end
end Avt.Frame
