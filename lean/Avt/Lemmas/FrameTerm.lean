/-
  Avt.Lemmas.FrameTerm — the frame lemma at the level of `Terminal`.

  `Rel P a b` ("`a` is `b` with more scrollback"): every field of the two terminals is equal except
    * the scrollback of the two buffers, where `a` holds `P.pa` (active buffer) resp. `P.po` (parked
      buffer) more lines on top: `a.buffer.sb = P.pa ++ b.buffer.sb`;
    * `trimNeeded` of both buffers, the dirty flags (only their number agrees);
    * in the non-strict variant (`P.s = false`) also the scrollback limits.
  `Rel` also carries the few facts about `a` alone that the buffer switches need (the active buffer
  has the terminal's geometry, both views have `rows` lines, where the limits come from), so that the
  frame lemma needs no separate invariant.

  No `Function` reads anything above the view except through `Buffer.resize`, which inside a feed is
  only reached from the buffer switches: at an unchanged geometry it is the identity on the lines
  (`resize_same`), and a parked buffer with a stale geometry is identical on both sides (`Rel.stale`).
-/
import Avt.Lemmas.FrameBuffer

namespace Avt.Frame
open Avt

structure Par where
  s : Bool             -- strict: the scrollback limits agree too
  g : Bool             -- the active buffer has the geometry of the terminal
  L : Option Nat       -- `a.scrollbackLimit`
  T : BufferType       -- the active buffer type (of both)
  pa : List Line       -- extra scrollback of `a.buffer`
  po : List Line       -- extra scrollback of `a.otherBuffer`

/-- the extra scrollback of the PRIMARY buffer, active or parked -/
def Par.prim (P : Par) : List Line := match P.T with | .primary => P.pa | .alternate => P.po

/-- where the limit of the active buffer comes from -/
def Par.activeLimit (P : Par) : Option Limit :=
  match P.T with | .primary => P.L.map Buffer.mkLimit | .alternate => some (Buffer.mkLimit 0)

structure Rel (P : Par) (a b : Terminal) : Prop where
  buf : BRel P.s P.pa a.buffer b.buffer
  other : BRel P.s P.po a.otherBuffer b.otherBuffer
  dirty : a.dirtyLines.length = b.dirtyLines.length
  abt : a.activeBufferType = P.T
  slA : a.scrollbackLimit = P.L
  slB : P.s = true → b.scrollbackLimit = P.L
  stale : (a.otherBuffer.cols ≠ a.cols ∨ a.otherBuffer.rows ≠ a.rows) → P.po = []
  xtw : a.xtwinops = false
  geoC : P.g = true → a.buffer.cols = a.cols
  geoR : P.g = true → a.buffer.rows = a.rows
  vlen : a.buffer.view.length = a.buffer.rows
  ovlen : a.otherBuffer.view.length = a.otherBuffer.rows
  limA : a.buffer.limit = P.activeLimit
  limO : P.T = .alternate → a.otherBuffer.limit = P.L.map Buffer.mkLimit
  cols : a.cols = b.cols
  rows : a.rows = b.rows
  activeBufferType : a.activeBufferType = b.activeBufferType
  cursor : a.cursor = b.cursor
  pen : a.pen = b.pen
  charsets : a.charsets = b.charsets
  activeCharset : a.activeCharset = b.activeCharset
  tabs : a.tabs = b.tabs
  insertMode : a.insertMode = b.insertMode
  originMode : a.originMode = b.originMode
  autoWrapMode : a.autoWrapMode = b.autoWrapMode
  newLineMode : a.newLineMode = b.newLineMode
  cursorKeysMode : a.cursorKeysMode = b.cursorKeysMode
  pendingWrap : a.pendingWrap = b.pendingWrap
  topMargin : a.topMargin = b.topMargin
  bottomMargin : a.bottomMargin = b.bottomMargin
  savedCtx : a.savedCtx = b.savedCtx
  alternateSavedCtx : a.alternateSavedCtx = b.alternateSavedCtx
  xtwinops : a.xtwinops = b.xtwinops

/-- related results of a step that may panic -/
def RelO (P : Par) : Option Terminal → Option Terminal → Prop
  | some a, some b => Rel P a b
  | none, none => True
  | _, _ => False

@[simp] theorem RelO.some_some {P a b} : RelO P (some a) (some b) ↔ Rel P a b := Iff.rfl
@[simp] theorem RelO.none_none {P} : RelO P none none ↔ True := Iff.rfl
@[simp] theorem RelO.some_none {P a} : RelO P (some a) none ↔ False := Iff.rfl
@[simp] theorem RelO.none_some {P b} : RelO P none (some b) ↔ False := Iff.rfl

theorem RelO.elim {P} {oa ob : Option Terminal} (h : RelO P oa ob) :
    (oa = none ∧ ob = none) ∨ ∃ a b, oa = some a ∧ ob = some b ∧ Rel P a b := by
  cases oa <;> cases ob <;> simp_all

/-- related results where the parameters may have changed (buffer switches), but strictness, the
    limit, the geometry flag and the extra scrollback of the PRIMARY buffer are kept -/
def RelX (P : Par) : Option Terminal → Option Terminal → Prop
  | some a, some b => ∃ P', Rel P' a b ∧ P'.s = P.s ∧ P'.g = P.g ∧ P'.L = P.L ∧ P'.prim = P.prim
  | none, none => True
  | _, _ => False

@[simp] theorem RelX.none_none {P} : RelX P none none ↔ True := Iff.rfl

theorem RelO.toX {P} {oa ob : Option Terminal} (h : RelO P oa ob) : RelX P oa ob := by
  cases oa <;> cases ob <;> simp_all [RelX]
  exact ⟨P, h, rfl, rfl, rfl, rfl⟩

theorem RelX.elim {P} {oa ob : Option Terminal} (h : RelX P oa ob) :
    (oa = none ∧ ob = none) ∨ ∃ a b P', oa = some a ∧ ob = some b ∧ Rel P' a b ∧ P'.s = P.s ∧ P'.g = P.g
      ∧ P'.L = P.L ∧ P'.prim = P.prim := by
  cases oa <;> cases ob <;> simp_all [RelX]

theorem RelX.trans {P P'} {oa ob : Option Terminal} (h : RelX P' oa ob)
    (hs : P'.s = P.s) (hg : P'.g = P.g) (hL : P'.L = P.L) (hp : P'.prim = P.prim) : RelX P oa ob := by
  cases oa <;> cases ob <;> simp_all [RelX]

/-! ### combinators: sequencing related partial steps (the model's `match … with | none => none | some t => …`) -/

theorem bindT {Q : Option Terminal → Option Terminal → Prop} {P} {oa ob : Option Terminal}
    {f g : Terminal → Option Terminal} (h : RelO P oa ob) (hn : Q none none)
    (hs : ∀ a b, Rel P a b → Q (f a) (g b)) :
    Q (match (generalizing := false) oa with | none => none | some t => f t)
      (match (generalizing := false) ob with | none => none | some t => g t) := by
  rcases h.elim with ⟨ha, hb⟩ | ⟨a, b, ha, hb, R⟩
  · subst ha; subst hb; exact hn
  · subst ha; subst hb; exact hs a b R

theorem bindX {P} {oa ob : Option Terminal} {f g : Terminal → Option Terminal} (h : RelX P oa ob)
    (hs : ∀ P' a b, Rel P' a b → P'.s = P.s → P'.g = P.g → P'.L = P.L → P'.prim = P.prim → RelX P' (f a) (g b)) :
    RelX P (match (generalizing := false) oa with | none => none | some t => f t)
      (match (generalizing := false) ob with | none => none | some t => g t) := by
  rcases h.elim with ⟨ha, hb⟩ | ⟨a, b, P', ha, hb, R, h1, h2, h3, h4⟩
  · subst ha; subst hb; trivial
  · subst ha; subst hb; exact (hs P' a b R h1 h2 h3 h4).trans h1 h2 h3 h4

theorem bindB {Q : Option Terminal → Option Terminal → Prop} {s p x0} {ox oy : Option Buffer}
    {f g : Buffer → Option Terminal} (h : BRelO s p x0 ox oy) (hn : Q none none)
    (hs : ∀ x y, BRel s p x y → Keep x0 x → Q (f x) (g y)) :
    Q (match (generalizing := false) ox with | none => none | some t => f t)
      (match (generalizing := false) oy with | none => none | some t => g t) := by
  rcases h.elim with ⟨ha, hb⟩ | ⟨a, b, ha, hb, R, K⟩
  · subst ha; subst hb; exact hn
  · subst ha; subst hb; exact hs a b R K

theorem mapB {P s p x0} {ox oy : Option Buffer} {f g : Buffer → Terminal} (h : BRelO s p x0 ox oy)
    (hs : ∀ x y, BRel s p x y → Keep x0 x → Rel P (f x) (g y)) : RelO P (ox.map f) (oy.map g) := by
  rcases h.elim with ⟨ha, hb⟩ | ⟨a, b, ha, hb, R, K⟩
  · subst ha; subst hb; trivial
  · subst ha; subst hb; exact hs a b R K

theorem RelO.map {P} {oa ob : Option Terminal} (h : RelO P oa ob) {f g : Terminal → Terminal}
    (hfg : ∀ a b, Rel P a b → Rel P (f a) (g b)) : RelO P (oa.map f) (ob.map g) := by
  rcases h.elim with ⟨ha, hb⟩ | ⟨a, b, ha, hb, R⟩
  · simp [ha, hb]
  · simp [ha, hb, hfg a b R]

theorem RelO.mapSame {P} {α} (o : Option α) {f g : α → Terminal} (h : ∀ x, Rel P (f x) (g x)) :
    RelO P (o.map f) (o.map g) := by
  cases o <;> simp [h]

/-! ### dirty flags: only their number matters -/

theorem dirtyExtend_map {P} {da db : List Bool} (h : da.length = db.length) (lo hi : Nat)
    {f g : List Bool → Terminal} (hfg : ∀ d e, d.length = e.length → Rel P (f d) (g e)) :
    RelO P ((Dirty.extend da lo hi).map f) ((Dirty.extend db lo hi).map g) := by
  unfold Dirty.extend fillRange
  rw [h]
  split
  · simp only [Option.map_some, RelO.some_some]
    apply hfg
    simp [h]
  · trivial

theorem dirtyAdd_map {P} {da db : List Bool} (h : da.length = db.length) (n : Nat)
    {f g : List Bool → Terminal} (hfg : ∀ d e, d.length = e.length → Rel P (f d) (g e)) :
    RelO P ((Dirty.add da n).map f) ((Dirty.add db n).map g) := by
  unfold Dirty.add setAt
  rw [h]
  split
  · simp only [Option.map_some, RelO.some_some]
    apply hfg
    simp [h]
  · trivial

theorem dirtyResize_length {da db : List Bool} (h : da.length = db.length) (n : Nat) :
    (Dirty.resize da n).length = (Dirty.resize db n).length := by
  unfold Dirty.resize
  rw [h]
  split <;> simp [h]

/-! ### building `Rel` for record updates -/

/-- rewrite every scalar field of `a` into the field of `b` -/
macro "scal " R:term : tactic =>
  `(tactic| try simp only [($R).cols, ($R).rows, ($R).activeBufferType, ($R).cursor, ($R).pen, ($R).charsets,
      ($R).activeCharset, ($R).tabs, ($R).insertMode, ($R).originMode, ($R).autoWrapMode,
      ($R).newLineMode, ($R).cursorKeysMode, ($R).pendingWrap, ($R).topMargin, ($R).bottomMargin,
      ($R).savedCtx, ($R).alternateSavedCtx, ($R).xtwinops])

macro "scalf " R:term ", " f:term : tactic =>
  `(tactic| first
      | exact $f
      | (simp [($R).cols, ($R).rows, ($R).activeBufferType, ($R).cursor, ($R).pen, ($R).charsets,
          ($R).activeCharset, ($R).tabs, ($R).insertMode, ($R).originMode, ($R).autoWrapMode,
          ($R).newLineMode, ($R).cursorKeysMode, ($R).pendingWrap, ($R).topMargin, ($R).bottomMargin,
          ($R).savedCtx, ($R).alternateSavedCtx, ($R).xtwinops]; done)
      | (simpa [($R).cols, ($R).rows, ($R).activeBufferType, ($R).cursor, ($R).pen, ($R).charsets,
          ($R).activeCharset, ($R).tabs, ($R).insertMode, ($R).originMode, ($R).autoWrapMode,
          ($R).newLineMode, ($R).cursorKeysMode, ($R).pendingWrap, ($R).topMargin, ($R).bottomMargin,
          ($R).savedCtx, ($R).alternateSavedCtx, ($R).xtwinops] using $f))

/-- build `Rel P a' b'` where `a'`, `b'` are record updates of `a`, `b` (related by `R`) that leave the
    parked buffer alone; `hb`, `hk`, `hd` are the proofs for the new active buffer (related, keeps the
    shape of the old one) and the dirty flags -/
macro "mkrel " R:term ", " hb:term ", " hk:term ", " hd:term : tactic =>
  `(tactic| exact
      { buf := $hb, other := by scalf $R, ($R).other, dirty := $hd,
        abt := by scalf $R, ($R).abt, slA := by scalf $R, ($R).slA, slB := by scalf $R, ($R).slB,
        stale := by scalf $R, ($R).stale, xtw := by scalf $R, ($R).xtw,
        geoC := by scalf $R, (fun hg => (Keep.cols $hk).trans (($R).geoC hg)),
        geoR := by scalf $R, (fun hg => (Keep.rows $hk).trans (($R).geoR hg)),
        vlen := (Keep.vlen $hk).trans ((($R).vlen).trans (Keep.rows $hk).symm),
        ovlen := by scalf $R, ($R).ovlen,
        limA := (Keep.limit $hk).trans ($R).limA,
        limO := by scalf $R, ($R).limO,
        cols := by scalf $R, ($R).cols, rows := by scalf $R, ($R).rows,
        activeBufferType := by scalf $R, ($R).activeBufferType,
        cursor := by scalf $R, ($R).cursor, pen := by scalf $R, ($R).pen,
        charsets := by scalf $R, ($R).charsets, activeCharset := by scalf $R, ($R).activeCharset,
        tabs := by scalf $R, ($R).tabs, insertMode := by scalf $R, ($R).insertMode,
        originMode := by scalf $R, ($R).originMode, autoWrapMode := by scalf $R, ($R).autoWrapMode,
        newLineMode := by scalf $R, ($R).newLineMode, cursorKeysMode := by scalf $R, ($R).cursorKeysMode,
        pendingWrap := by scalf $R, ($R).pendingWrap, topMargin := by scalf $R, ($R).topMargin,
        bottomMargin := by scalf $R, ($R).bottomMargin, savedCtx := by scalf $R, ($R).savedCtx,
        alternateSavedCtx := by scalf $R, ($R).alternateSavedCtx, xtwinops := by scalf $R, ($R).xtwinops })

/-- the common case: only scalar fields were updated -/
macro "mkrel " R:term : tactic => `(tactic| mkrel $R, ($R).buf, Keep.refl _, ($R).dirty)

section
variable {P : Par} {a b : Terminal}

/-! ### cursor helpers (scalar fields only) -/

theorem saveCursor_rel (R : Rel P a b) : RelO P a.saveCursor b.saveCursor := by
  unfold Terminal.saveCursor
  scal R
  exact RelO.mapSame _ fun _ => by mkrel R

theorem restoreCursor_rel (R : Rel P a b) : Rel P a.restoreCursor b.restoreCursor := by
  unfold Terminal.restoreCursor
  mkrel R

theorem doMoveCursorToCol_rel (R : Rel P a b) (c : Nat) :
    Rel P (a.doMoveCursorToCol c) (b.doMoveCursorToCol c) := by
  unfold Terminal.doMoveCursorToCol
  mkrel R

theorem moveCursorToCol_rel (R : Rel P a b) (c : Nat) :
    RelO P (a.moveCursorToCol c) (b.moveCursorToCol c) := by
  unfold Terminal.moveCursorToCol
  scal R
  split
  · exact RelO.mapSame _ fun _ => doMoveCursorToCol_rel R _
  · exact doMoveCursorToCol_rel R _

theorem doMoveCursorToRow_rel (R : Rel P a b) (r : Nat) :
    RelO P (a.doMoveCursorToRow r) (b.doMoveCursorToRow r) := by
  unfold Terminal.doMoveCursorToRow
  scal R
  exact RelO.mapSame _ fun _ => by mkrel R

theorem actualTopMargin_eq (R : Rel P a b) : a.actualTopMargin = b.actualTopMargin := by
  unfold Terminal.actualTopMargin
  scal R

theorem actualBottomMargin_eq (R : Rel P a b) : a.actualBottomMargin = b.actualBottomMargin := by
  unfold Terminal.actualBottomMargin
  scal R

theorem moveCursorToRow_rel (R : Rel P a b) (r : Nat) :
    RelO P (a.moveCursorToRow r) (b.moveCursorToRow r) := by
  unfold Terminal.moveCursorToRow
  rw [actualTopMargin_eq R, actualBottomMargin_eq R]
  try simp only []
  cases b.actualBottomMargin with
  | none => trivial
  | some bottom => exact doMoveCursorToRow_rel R _

theorem moveCursorToRelCol_rel (R : Rel P a b) (rel : Int) :
    RelO P (a.moveCursorToRelCol rel) (b.moveCursorToRelCol rel) := by
  unfold Terminal.moveCursorToRelCol
  scal R
  try simp only []
  split
  · exact doMoveCursorToCol_rel R _
  · split
    · exact RelO.mapSame _ fun _ => doMoveCursorToCol_rel R _
    · exact doMoveCursorToCol_rel R _

theorem moveCursorHome_rel (R : Rel P a b) : RelO P a.moveCursorHome b.moveCursorHome := by
  unfold Terminal.moveCursorHome
  have R1 := doMoveCursorToCol_rel R 0
  try simp only []
  rw [actualTopMargin_eq R1]
  exact doMoveCursorToRow_rel R1 _

theorem moveCursorToNextTab_rel (R : Rel P a b) (n : Nat) :
    RelO P (a.moveCursorToNextTab n) (b.moveCursorToNextTab n) := by
  unfold Terminal.moveCursorToNextTab
  scal R
  cases Tabs.after b.tabs b.cursor.col n <;> cases csub b.cols 1 <;>
    first | trivial | exact moveCursorToCol_rel R _

theorem moveCursorToPrevTab_rel (R : Rel P a b) (n : Nat) :
    RelO P (a.moveCursorToPrevTab n) (b.moveCursorToPrevTab n) := by
  unfold Terminal.moveCursorToPrevTab
  scal R
  cases Tabs.before b.tabs b.cursor.col n <;>
    first | trivial | exact moveCursorToCol_rel R _

theorem cursorDown_rel (R : Rel P a b) (n : Nat) : RelO P (a.cursorDown n) (b.cursorDown n) := by
  unfold Terminal.cursorDown
  scal R
  split
  · cases csub b.rows 1 with
    | none => trivial
    | some r1 => exact doMoveCursorToRow_rel R _
  · exact doMoveCursorToRow_rel R _

theorem cursorUp_rel (R : Rel P a b) (n : Nat) : RelO P (a.cursorUp n) (b.cursorUp n) := by
  unfold Terminal.cursorUp
  scal R
  exact doMoveCursorToRow_rel R _

theorem setTab_rel (R : Rel P a b) : Rel P a.setTab b.setTab := by
  unfold Terminal.setTab
  scal R
  split
  · mkrel R
  · exact R

theorem clearTab_rel (R : Rel P a b) : Rel P a.clearTab b.clearTab := by
  unfold Terminal.clearTab
  mkrel R

theorem clearAllTabs_rel (R : Rel P a b) : Rel P a.clearAllTabs b.clearAllTabs := by
  unfold Terminal.clearAllTabs
  mkrel R

theorem markDirty_rel (R : Rel P a b) (row : Nat) : RelO P (a.markDirty row) (b.markDirty row) := by
  unfold Terminal.markDirty
  exact dirtyAdd_map R.dirty _ fun d e h => by mkrel R, R.buf, Keep.refl _, h

theorem markDirtyRange_rel (R : Rel P a b) (lo hi : Nat) :
    RelO P (a.markDirtyRange lo hi) (b.markDirtyRange lo hi) := by
  unfold Terminal.markDirtyRange
  exact dirtyExtend_map R.dirty _ _ fun d e h => by mkrel R, R.buf, Keep.refl _, h

/-- replacing the active buffer by related buffers of the same shape -/
theorem setBuffer_rel (R : Rel P a b) {x y : Buffer} (hb : BRel P.s P.pa x y) (hk : Keep a.buffer x) :
    Rel P { a with buffer := x } { b with buffer := y } := by
  mkrel R, hb, hk, R.dirty

/-! ### scrolling -/

theorem scrollUpInRegion_rel (R : Rel P a b) (n : Nat) :
    RelO P (a.scrollUpInRegion n) (b.scrollUpInRegion n) := by
  unfold Terminal.scrollUpInRegion
  scal R
  refine bindB (Q := RelO P) (scrollUp_rel R.buf _ _ _ _) trivial fun x y hb hk => ?_
  exact dirtyExtend_map R.dirty _ _ fun d e h => by mkrel R, hb, hk, h

theorem scrollDownInRegion_rel (R : Rel P a b) (n : Nat) :
    RelO P (a.scrollDownInRegion n) (b.scrollDownInRegion n) := by
  unfold Terminal.scrollDownInRegion
  scal R
  refine bindB (Q := RelO P) (scrollDown_rel R.buf _ _ _ _) trivial fun x y hb hk => ?_
  exact dirtyExtend_map R.dirty _ _ fun d e h => by mkrel R, hb, hk, h

theorem moveCursorDownWithScroll_rel (R : Rel P a b) :
    RelO P a.moveCursorDownWithScroll b.moveCursorDownWithScroll := by
  unfold Terminal.moveCursorDownWithScroll
  scal R
  split
  · exact scrollUpInRegion_rel R _
  · cases csub b.rows 1 with
    | none => trivial
    | some r1 =>
      try simp only []
      split
      · exact doMoveCursorToRow_rel R _
      · exact R

theorem lf_rel (R : Rel P a b) : RelO P a.lf b.lf := by
  unfold Terminal.lf
  refine RelO.map (moveCursorDownWithScroll_rel R) fun a' b' R' => ?_
  rw [R'.newLineMode]
  split
  · exact doMoveCursorToCol_rel R' _
  · exact R'

theorem nel_rel (R : Rel P a b) : RelO P a.nel b.nel := by
  unfold Terminal.nel
  exact RelO.map (moveCursorDownWithScroll_rel R) fun a' b' R' => doMoveCursorToCol_rel R' _

theorem ri_rel (R : Rel P a b) : RelO P a.ri b.ri := by
  unfold Terminal.ri
  scal R
  split
  · exact scrollDownInRegion_rel R _
  · split
    · exact doMoveCursorToRow_rel R _
    · exact R

theorem bs_rel (R : Rel P a b) : RelO P a.bs b.bs := by
  unfold Terminal.bs
  scal R
  split <;> exact moveCursorToRelCol_rel R _

theorem cub_rel (R : Rel P a b) (n : Nat) : RelO P (a.cub n) (b.cub n) := by
  unfold Terminal.cub
  scal R
  exact moveCursorToRelCol_rel R _

theorem cup_rel (R : Rel P a b) (r c : Nat) : RelO P (a.cup r c) (b.cup r c) := by
  unfold Terminal.cup
  exact bindT (Q := RelO P) (moveCursorToCol_rel R _) trivial fun a' b' R' => moveCursorToRow_rel R' _

/-! ### editing -/

theorem eraseWith_rel (R : Rel P a b) (mode : Buffer.EraseMode) :
    RelO P (a.eraseWith mode) (b.eraseWith mode) := by
  unfold Terminal.eraseWith
  scal R
  exact mapB (erase_rel R.buf _ _ _ _) fun x y hb hk => by mkrel R, hb, hk, R.dirty

theorem ed_rel (R : Rel P a b) (s : EdScope) : RelO P (a.ed s) (b.ed s) := by
  cases s with
  | below =>
    simp only [Terminal.ed]
    refine bindT (Q := RelO P) (eraseWith_rel R _) trivial fun a' b' R' => ?_
    rw [R'.cursor, R'.rows]; exact markDirtyRange_rel R' _ _
  | above =>
    simp only [Terminal.ed]
    refine bindT (Q := RelO P) (eraseWith_rel R _) trivial fun a' b' R' => ?_
    rw [R'.cursor]; exact markDirtyRange_rel R' _ _
  | all =>
    simp only [Terminal.ed]
    refine bindT (Q := RelO P) (eraseWith_rel R _) trivial fun a' b' R' => ?_
    rw [R'.rows]; exact markDirtyRange_rel R' _ _
  | savedLines => exact R

theorem el_rel (R : Rel P a b) (s : ElScope) : RelO P (a.el s) (b.el s) := by
  unfold Terminal.el
  try simp only []
  refine bindT (Q := RelO P) (eraseWith_rel R _) trivial fun a' b' R' => ?_
  rw [R'.cursor]; exact markDirty_rel R' _

theorem ech_rel (R : Rel P a b) (n : Nat) : RelO P (a.ech n) (b.ech n) := by
  unfold Terminal.ech
  refine bindT (Q := RelO P) (eraseWith_rel R _) trivial fun a' b' R' => ?_
  rw [R'.cursor]; exact markDirty_rel R' _

theorem ich_rel (R : Rel P a b) (n : Nat) : RelO P (a.ich n) (b.ich n) := by
  unfold Terminal.ich
  scal R
  refine bindB (Q := RelO P) (insert_rel R.buf _ _ _ _) trivial fun x y hb hk => ?_
  exact markDirty_rel (by mkrel R, hb, hk, R.dirty) _

theorem ilRange_eq (R : Rel P a b) : a.ilRange = b.ilRange := by
  unfold Terminal.ilRange
  scal R

theorem il_rel (R : Rel P a b) (n : Nat) : RelO P (a.il n) (b.il n) := by
  unfold Terminal.il
  rw [ilRange_eq R]
  scal R
  generalize b.ilRange = rg
  obtain ⟨lo, hi⟩ := rg
  try simp only []
  refine bindB (Q := RelO P) (scrollDown_rel R.buf _ _ _ _) trivial fun x y hb hk => ?_
  exact markDirtyRange_rel (by mkrel R, hb, hk, R.dirty) _ _

theorem dl_rel (R : Rel P a b) (n : Nat) : RelO P (a.dl n) (b.dl n) := by
  unfold Terminal.dl
  rw [ilRange_eq R]
  scal R
  generalize b.ilRange = rg
  obtain ⟨lo, hi⟩ := rg
  try simp only []
  refine bindB (Q := RelO P) (scrollUp_rel R.buf _ _ _ _) trivial fun x y hb hk => ?_
  exact markDirtyRange_rel (by mkrel R, hb, hk, R.dirty) _ _

/-- the second half of `dch`, after the cursor was pulled back from the wrap-pending column -/
def dchCore (t : Terminal) (n : Nat) : Option Terminal :=
  match t.buffer.delete t.cursor.col t.cursor.row (asUsize n 1) t.pen with
  | none => none
  | some b => ({ t with buffer := b } : Terminal).markDirty t.cursor.row

theorem dchCore_rel (R : Rel P a b) (n : Nat) : RelO P (dchCore a n) (dchCore b n) := by
  unfold dchCore
  scal R
  refine bindB (Q := RelO P) (delete_rel R.buf _ _ _ _) trivial fun x y hb hk => ?_
  exact markDirty_rel (by mkrel R, hb, hk, R.dirty) _

theorem dch_eq (t : Terminal) (n : Nat) :
    t.dch n = match (if t.cursor.col ≥ t.cols then
                      match csub t.cols 1 with
                      | none => none
                      | some c1 => t.moveCursorToCol c1
                    else some t) with
              | none => none
              | some t => dchCore t n := rfl

theorem dch_rel (R : Rel P a b) (n : Nat) : RelO P (a.dch n) (b.dch n) := by
  rw [dch_eq, dch_eq]
  scal R
  refine bindT (Q := RelO P) ?_ trivial fun a' b' R' => dchCore_rel R' _
  split
  · cases csub b.cols 1 with
    | none => trivial
    | some c1 => exact moveCursorToCol_rel R _
  · exact R

theorem ctc_rel (R : Rel P a b) (op : CtcOp) : Rel P (a.ctc op) (b.ctc op) := by
  cases op <;> simp only [Terminal.ctc]
  · exact setTab_rel R
  · exact clearTab_rel R
  · exact clearAllTabs_rel R

theorem tbc_rel (R : Rel P a b) (s : TbcScope) : Rel P (a.tbc s) (b.tbc s) := by
  cases s <;> simp only [Terminal.tbc]
  · exact clearTab_rel R
  · exact clearAllTabs_rel R

theorem sm_rel (R : Rel P a b) (ms : List AnsiMode) : Rel P (a.sm ms) (b.sm ms) := by
  unfold Terminal.sm
  induction ms generalizing a b with
  | nil => exact R
  | cons m ms ih =>
    simp only [List.foldl_cons]
    apply ih
    cases m <;> simp only [] <;> mkrel R

theorem rm_rel (R : Rel P a b) (ms : List AnsiMode) : Rel P (a.rm ms) (b.rm ms) := by
  unfold Terminal.rm
  induction ms generalizing a b with
  | nil => exact R
  | cons m ms ih =>
    simp only [List.foldl_cons]
    apply ih
    cases m <;> simp only [] <;> mkrel R

theorem sgr_rel (R : Rel P a b) (ops : List SgrOp) : Rel P (a.sgr ops) (b.sgr ops) := by
  unfold Terminal.sgr
  mkrel R

theorem decstbm_rel (R : Rel P a b) (top bottom : Nat) :
    RelO P (a.decstbm top bottom) (b.decstbm top bottom) := by
  unfold Terminal.decstbm
  scal R
  try simp only []
  cases csub (asUsize bottom b.rows) 1 with
  | none => trivial
  | some bot =>
    try simp only []
    split
    · exact moveCursorHome_rel (by mkrel R)
    · exact moveCursorHome_rel R

theorem softReset_rel (R : Rel P a b) : RelO P a.softReset b.softReset := by
  unfold Terminal.softReset
  scal R
  exact RelO.mapSame _ fun _ => by mkrel R

theorem xtwinopsF_rel (R : Rel P a b) (c r : Nat) : RelO P (a.xtwinopsF c r) (b.xtwinopsF c r) := by
  unfold Terminal.xtwinopsF
  rw [← R.xtwinops, R.xtw]
  exact R

/-! ### printing -/

theorem activeCharsetValue_eq (R : Rel P a b) : a.activeCharsetValue = b.activeCharsetValue := by
  unfold Terminal.activeCharsetValue
  scal R

/-- `print`, third part: re-mark the row above a bottom margin that is not the last row -/
def printWrap2 (t : Terminal) : Option Terminal :=
  match csub t.rows 1 with
  | none => none
  | some r1 =>
    if t.bottomMargin < r1 then
      match csub t.bottomMargin 1 with
      | none => none
      | some bm1 => (t.buffer.wrap bm1).map fun b => { t with buffer := b }
    else some t

/-- `print`, second part: the pending wrap is carried out (cursor already in column 0) -/
def printWrap1 (t : Terminal) : Option Terminal :=
  if t.cursor.row = t.bottomMargin then
    match t.buffer.wrap t.cursor.row with
    | none => none
    | some b =>
      match ({ t with buffer := b } : Terminal).scrollUpInRegion 1 with
      | none => none
      | some t => printWrap2 t
  else
    match csub t.rows 1 with
    | none => none
    | some r1 =>
      if t.cursor.row < r1 then
        match t.buffer.wrap t.cursor.row with
        | none => none
        | some b => ({ t with buffer := b } : Terminal).doMoveCursorToRow (t.cursor.row + 1)
      else some t

/-- `print`, last part: the cell is written and the cursor advances -/
def printPut (t : Terminal) (cell : Cell) : Option Terminal :=
  let nextCol := t.cursor.col + 1
  let t2 : Option Terminal :=
    if nextCol ≥ t.cols then
      match csub t.cols 1 with
      | none => none
      | some c1 =>
        match t.buffer.print c1 t.cursor.row cell with
        | none => none
        | some b =>
          let t := { t with buffer := b }
          if t.autoWrapMode then some { t.doMoveCursorToCol t.cols with pendingWrap := true }
          else some t
    else
      let b := if t.insertMode then t.buffer.insert t.cursor.col t.cursor.row 1 cell
               else t.buffer.print t.cursor.col t.cursor.row cell
      match b with
      | none => none
      | some b => some (({ t with buffer := b } : Terminal).doMoveCursorToCol nextCol)
  match t2 with
  | none => none
  | some t => t.markDirty t.cursor.row

theorem print_eq (t : Terminal) (ch : Nat) :
    t.print ch =
      match t.activeCharsetValue with
      | none => none
      | some cs =>
        match cs.translate ch with
        | none => none
        | some ch =>
          match (if t.autoWrapMode && t.pendingWrap then printWrap1 (t.doMoveCursorToCol 0) else some t) with
          | none => none
          | some t' => printPut t' ⟨ch, t.pen⟩ := rfl

theorem printWrap2_rel (R : Rel P a b) : RelO P (printWrap2 a) (printWrap2 b) := by
  unfold printWrap2
  scal R
  cases csub b.rows 1 with
  | none => trivial
  | some r1 =>
    try simp only []
    split
    · cases csub b.bottomMargin 1 with
      | none => trivial
      | some bm1 => exact mapB (wrap_rel R.buf _) fun x y hb hk => by mkrel R, hb, hk, R.dirty
    · exact R

theorem printWrap1_rel (R : Rel P a b) : RelO P (printWrap1 a) (printWrap1 b) := by
  unfold printWrap1
  scal R
  split
  · refine bindB (Q := RelO P) (wrap_rel R.buf _) trivial fun x y hb hk => ?_
    refine bindT (Q := RelO P) (scrollUpInRegion_rel (by mkrel R, hb, hk, R.dirty) _) trivial
      fun a' b' R' => printWrap2_rel R'
  · cases csub b.rows 1 with
    | none => trivial
    | some r1 =>
      try simp only []
      split
      · refine bindB (Q := RelO P) (wrap_rel R.buf _) trivial fun x y hb hk => ?_
        exact doMoveCursorToRow_rel (by mkrel R, hb, hk, R.dirty) _
      · exact R

theorem printPut_rel (R : Rel P a b) (cell : Cell) : RelO P (printPut a cell) (printPut b cell) := by
  unfold printPut
  scal R
  try simp only []
  refine bindT (Q := RelO P) ?_ trivial fun a' b' R' => by rw [R'.cursor]; exact markDirty_rel R' _
  split
  · cases csub b.cols 1 with
    | none => trivial
    | some c1 =>
      refine bindB (Q := RelO P) (print_rel R.buf _ _ _) trivial fun x y hb hk => ?_
      split
      · simp only [RelO.some_some, Terminal.doMoveCursorToCol]
        mkrel R, hb, hk, R.dirty
      · simp only [RelO.some_some]
        mkrel R, hb, hk, R.dirty
  · have hB : BRelO P.s P.pa a.buffer
        (if b.insertMode then a.buffer.insert b.cursor.col b.cursor.row 1 cell
         else a.buffer.print b.cursor.col b.cursor.row cell)
        (if b.insertMode then b.buffer.insert b.cursor.col b.cursor.row 1 cell
         else b.buffer.print b.cursor.col b.cursor.row cell) := by
      split
      · exact insert_rel R.buf _ _ _ _
      · exact print_rel R.buf _ _ _
    refine bindB (Q := RelO P) hB trivial fun x y hb hk => ?_
    exact doMoveCursorToCol_rel (by mkrel R, hb, hk, R.dirty) _

theorem print_rel' (R : Rel P a b) (ch : Nat) : RelO P (a.print ch) (b.print ch) := by
  rw [print_eq, print_eq, activeCharsetValue_eq R]
  scal R
  cases b.activeCharsetValue with
  | none => trivial
  | some cs =>
    simp only []
    cases cs.translate ch with
    | none => trivial
    | some ch' =>
      refine bindT (Q := RelO P) ?_ trivial fun a' b' R' => printPut_rel R' _
      split
      · exact printWrap1_rel (doMoveCursorToCol_rel R 0)
      · exact R

theorem printN_rel (R : Rel P a b) (ch k : Nat) : RelO P (a.printN ch k) (b.printN ch k) := by
  induction k generalizing a b with
  | zero => exact R
  | succ k ih =>
    simp only [Terminal.printN]
    exact bindT (Q := RelO P) (print_rel' R ch) trivial fun a' b' R' => ih R'

theorem rep_rel (R : Rel P a b) (n : Nat) : RelO P (a.rep n) (b.rep n) := by
  unfold Terminal.rep
  rw [R.buf.view]
  scal R
  split
  · cases b.buffer.view[b.cursor.row]? with
    | none => trivial
    | some line =>
      simp only []
      cases line.cells[b.cursor.col - 1]? with
      | none => trivial
      | some cell => exact printN_rel R _ _
  · exact R

/-! ### DECALN -/

theorem decalnCols_rel {s p x0 x y} (h : BRel s p x y) (hk : Keep x0 x) (row col j : Nat) :
    BRelO s p x0 (Terminal.decalnCols x row col j) (Terminal.decalnCols y row col j) := by
  induction j generalizing x y col with
  | zero => exact ⟨h, hk⟩
  | succ j ih =>
    simp only [Terminal.decalnCols]
    rcases (print_rel h col row ⟨0x45, Pen.default⟩).elim with ⟨hx, hy⟩ | ⟨x', y', hx, hy, h', k'⟩
    · simp only [hx, hy]; trivial
    · simp only [hx, hy]; exact ih h' (hk.trans k') _

theorem decalnRows_rel (R : Rel P a b) (row k : Nat) :
    RelO P (Terminal.decalnRows a row k) (Terminal.decalnRows b row k) := by
  induction k generalizing a b row with
  | zero => exact R
  | succ k ih =>
    simp only [Terminal.decalnRows]
    rw [R.cols]
    refine bindB (Q := RelO P) (decalnCols_rel R.buf (Keep.refl _) _ _ _) trivial fun x y hb hk => ?_
    exact bindT (Q := RelO P) (markDirty_rel (by mkrel R, hb, hk, R.dirty) _) trivial
      fun a' b' R' => ih R' _

theorem decaln_rel (R : Rel P a b) : RelO P a.decaln b.decaln := by
  unfold Terminal.decaln
  rw [R.rows]
  exact decalnRows_rel R _ _

end
end Avt.Frame
