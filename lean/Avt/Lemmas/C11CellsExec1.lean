/-
  Avt.Lemmas.C11CellsExec1 — the cell / pen invariant, part 1: pens (`penOK_foldl_applySgr`), the two
  lists of a buffer (`BufOK`: scrollback and view) under every buffer primitive the terminal calls.
-/
import Avt.Lemmas.C11CellsDef

namespace Avt
namespace Lemmas.C11
open Avt.Spec.C11 Avt.Spec.C08

/-! ### pens -/

theorem and_lt_32 (a m : Nat) (h : a < 32) : a &&& m < 32 :=
  Nat.lt_of_le_of_lt Nat.and_le_left h

theorem or_lt_32 (a m : Nat) (h : a < 32) (hm : m < 32) : a ||| m < 32 :=
  Nat.or_lt_two_pow (n := 5) h hm

theorem penOK_applySgr (p : Pen) (op : SgrOp) (hp : PenOK p) (hop : SgrOpOK op) :
    PenOK (Terminal.applySgr p op) := by
  obtain ⟨ha, hf, hb⟩ := hp
  cases op <;> simp only [Terminal.applySgr, Pen.setBit, Pen.unsetBit]
  case reset => exact penOK_default
  case setFg c =>
    refine ⟨ha, ?_, hb⟩
    intro c' hc'; simp only [Option.some.injEq] at hc'; subst hc'; exact hop
  case setBg c =>
    refine ⟨ha, hf, ?_⟩
    intro c' hc'; simp only [Option.some.injEq] at hc'; subst hc'; exact hop
  case resetFg => exact ⟨ha, (fun c h => by cases h), hb⟩
  case resetBg => exact ⟨ha, hf, (fun c h => by cases h)⟩
  all_goals first
    | exact ⟨ha, hf, hb⟩
    | exact ⟨and_lt_32 _ _ ha, hf, hb⟩
    | exact ⟨or_lt_32 _ _ ha (by decide), hf, hb⟩

/-- the SGR fold keeps PenOK -/
theorem penOK_foldl_applySgr (ops : List SgrOp) (p : Pen) (hp : PenOK p) (hops : ∀ op ∈ ops, SgrOpOK op) :
    PenOK (ops.foldl Terminal.applySgr p) := by
  induction ops generalizing p with
  | nil => exact hp
  | cons op ops ih =>
    simp only [List.foldl_cons]
    exact ih _ (penOK_applySgr p op hp (hops op List.mem_cons_self))
      (fun o ho => hops o (List.mem_cons_of_mem _ ho))

/-! ### buffers: scrollback and view -/

/-- both lists of a buffer hold good cells only -/
def BufOK (b : Buffer) : Prop := LinesOK b.sb ∧ LinesOK b.view

theorem linesOK_nil : LinesOK [] := fun _ h => by cases h

theorem linesOK_append {a b : List Line} (ha : LinesOK a) (hb : LinesOK b) : LinesOK (a ++ b) := by
  intro l hl
  rcases List.mem_append.mp hl with h | h
  · exact ha l h
  · exact hb l h

theorem linesOK_take {a : List Line} (n : Nat) (ha : LinesOK a) : LinesOK (a.take n) :=
  fun l hl => ha l (List.mem_of_mem_take hl)

theorem linesOK_drop {a : List Line} (n : Nat) (ha : LinesOK a) : LinesOK (a.drop n) :=
  fun l hl => ha l (List.mem_of_mem_drop hl)

theorem linesOK_replicate {n : Nat} {l : Line} (h : LineOK CellOK l) : LinesOK (List.replicate n l) := by
  intro x hx
  rw [(List.mem_replicate.mp hx).2]; exact h

theorem lineOK_blank (cols : Nat) {pen : Pen} (hp : PenOK pen) : LineOK CellOK (Line.blank cols pen) :=
  blank_ok (cellOK_blank hp)

theorem bufOK_new (cols rows : Nat) (limit : Option Nat) (pen : Option Pen)
    (hp : ∀ p, pen = some p → PenOK p) : BufOK (Buffer.new cols rows limit pen) := by
  refine ⟨linesOK_nil, ?_⟩
  simp only [Buffer.new]
  refine linesOK_replicate (lineOK_blank _ ?_)
  cases pen with
  | none => exact penOK_default
  | some p => exact hp p rfl

theorem updRow_sb {b b' : Buffer} {row : Nat} {f : Line → Option Line} (h : b.updRow row f = some b') :
    b'.sb = b.sb := by
  unfold Buffer.updRow at h
  cases hm : modAtM b.view row f with
  | none => simp [hm] at h
  | some v => simp only [hm, Option.map_some, Option.some.injEq] at h; subst h; rfl

theorem bufClear_sb {b b' : Buffer} {a c : Nat} {pen : Pen} (h : b.clear a c pen = some b') :
    b'.sb = b.sb := by
  unfold Buffer.clear at h
  cases hm : fillRange b.view a c (Line.blank b.cols pen) with
  | none => simp [hm] at h
  | some v => simp only [hm, Option.map_some, Option.some.injEq] at h; subst h; rfl

theorem bufPrint_bufOK {b b' : Buffer} {col row : Nat} {cell : Cell} (hc : CellOK cell) (hb : BufOK b)
    (h : b.print col row cell = some b') : BufOK b' :=
  ⟨by rw [updRow_sb h]; exact hb.1, bufPrint_ok hc hb.2 h⟩

theorem bufWrap_bufOK {b b' : Buffer} {row : Nat} (hb : BufOK b) (h : b.wrap row = some b') : BufOK b' :=
  ⟨by rw [updRow_sb h]; exact hb.1, bufWrap_ok hb.2 h⟩

theorem bufUnwrap_bufOK {b b' : Buffer} {row : Nat} (hb : BufOK b) (h : b.unwrapRow row = some b') :
    BufOK b' :=
  ⟨by rw [updRow_sb h]; exact hb.1, bufUnwrap_ok hb.2 h⟩

theorem bufInsert_bufOK {b b' : Buffer} {col row n : Nat} {cell : Cell} (hc : CellOK cell) (hb : BufOK b)
    (h : b.insert col row n cell = some b') : BufOK b' := by
  refine ⟨?_, bufInsert_ok hc hb.2 h⟩
  unfold Buffer.insert at h
  cases hs : csub b.cols col with
  | none => simp [hs] at h
  | some room => simp only [hs] at h; rw [updRow_sb h]; exact hb.1

theorem bufDelete_bufOK {b b' : Buffer} {col row n : Nat} {pen : Pen} (hp : PenOK pen) (hb : BufOK b)
    (h : b.delete col row n pen = some b') : BufOK b' := by
  refine ⟨?_, bufDelete_ok (cellOK_blank hp) hb.2 h⟩
  unfold Buffer.delete at h
  cases hs : csub b.cols col with
  | none => simp [hs] at h
  | some room => simp only [hs] at h; rw [updRow_sb h]; exact hb.1

theorem bufClear_bufOK {b b' : Buffer} {a c : Nat} {pen : Pen} (hp : PenOK pen) (hb : BufOK b)
    (h : b.clear a c pen = some b') : BufOK b' :=
  ⟨by rw [bufClear_sb h]; exact hb.1, bufClear_ok (cellOK_blank hp) hb.2 h⟩

theorem bufErase_sb {b b' : Buffer} {col row : Nat} {mode : Buffer.EraseMode} {pen : Pen}
    (h : b.erase col row mode pen = some b') : b'.sb = b.sb := by
  unfold Buffer.erase at h
  cases mode with
  | nextChars n =>
    simp only at h
    cases hs : csub b.cols col with
    | none => simp [hs] at h
    | some room => simp only [hs] at h; exact updRow_sb h
  | fromCursorToEndOfView =>
    simp only at h
    split at h
    · cases h
    · rename_i b1 h1
      rw [bufClear_sb h, updRow_sb h1]
  | fromStartOfViewToCursor =>
    simp only at h
    split at h
    · cases h
    · rename_i b1 h1
      rw [bufClear_sb h, updRow_sb h1]
  | wholeView => exact bufClear_sb h
  | fromCursorToEndOfLine => exact updRow_sb h
  | fromStartOfLineToCursor => exact updRow_sb h
  | wholeLine => exact updRow_sb h

theorem bufErase_bufOK {b b' : Buffer} {col row : Nat} {mode : Buffer.EraseMode} {pen : Pen}
    (hp : PenOK pen) (hb : BufOK b) (h : b.erase col row mode pen = some b') : BufOK b' :=
  ⟨by rw [bufErase_sb h]; exact hb.1, bufErase_ok (cellOK_blank hp) hb.2 h⟩

theorem bufScrollDown_sb {b b' : Buffer} {s e n : Nat} {pen : Pen}
    (h : b.scrollDown s e n pen = some b') : b'.sb = b.sb := by
  unfold Buffer.scrollDown at h
  split at h
  · cases h
  · simp only at h
    split at h
    · cases h
    · rename_i v hrot
      split at h
      · cases h
      · rename_i b1 hb1
        have e1 : b1.sb = b.sb := bufClear_sb (b := { b with view := v }) hb1
        split at h
        · cases h
        · rename_i b2 hb2
          have e2 : b2.sb = b1.sb := by
            split at hb2
            · exact updRow_sb hb2
            · cases hb2; rfl
          split at h
          · cases h
          · rw [updRow_sb h, e2, e1]

theorem bufScrollDown_bufOK {b b' : Buffer} {s e n : Nat} {pen : Pen} (hp : PenOK pen) (hb : BufOK b)
    (h : b.scrollDown s e n pen = some b') : BufOK b' :=
  ⟨by rw [bufScrollDown_sb h]; exact hb.1, bufScrollDown_ok (cellOK_blank hp) hb.2 h⟩

/-- `scroll_up` from row 0 appends old view rows / blank lines to the scrollback -/
theorem bufScrollUp_sbOK {b b' : Buffer} {s e n : Nat} {pen : Pen} (hp : PenOK pen) (hb : BufOK b)
    (h : b.scrollUp s e n pen = some b') : LinesOK b'.sb := by
  have hbl : ∀ k c, LinesOK (List.replicate k (Line.blank c pen)) :=
    fun k c => linesOK_replicate (lineOK_blank c hp)
  unfold Buffer.scrollUp at h
  split at h
  · simp only at h
    split at h
    · cases h
    · rename_i b1 hb1
      have hv1 : BufOK b1 := by
        split at hb1
        · exact bufUnwrap_bufOK hb hb1
        · cases hb1; exact hb
      split at h
      · split at h
        · cases h
          exact linesOK_append hv1.1 (linesOK_take _ (linesOK_append hv1.2 (hbl _ _)))
        · split at h
          · cases h
            exact linesOK_append hv1.1 (linesOK_take _
              (linesOK_append (linesOK_append (linesOK_take _ hv1.2) (hbl _ _)) (linesOK_drop _ hv1.2)))
          · cases h
      · split at h
        · cases h
        · split at h
          · cases h
          · rename_i b2 hb2
            have e2 : b2.sb = b1.sb := updRow_sb hb2
            split at h
            · cases h
            · rename_i v hrot
              split at h
              · cases h
              · rename_i b3 hb3
                cases h
                have e3 : b3.sb = b2.sb := bufClear_sb (b := { b2 with view := v }) hb3
                show LinesOK b3.sb
                rw [e3, e2]; exact hv1.1
  · cases h

theorem bufScrollUp_bufOK {b b' : Buffer} {s e n : Nat} {pen : Pen} (hp : PenOK pen) (hb : BufOK b)
    (h : b.scrollUp s e n pen = some b') : BufOK b' :=
  ⟨bufScrollUp_sbOK hp hb h, bufScrollUp_ok (cellOK_blank hp) hb.2 h⟩

end Lemmas.C11
end Avt
