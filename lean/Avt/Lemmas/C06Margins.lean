/-
  Avt.Lemmas.C06Margins — the scroll region is state that only DECSTBM, the two resets and a resize
  (XTWINOPS, when enabled) may change: every other function leaves `topMargin` / `bottomMargin`
  exactly as they are — in particular both directions of every switch of screens (47/1047/1049),
  whatever the geometry of the parked buffer is.  Helper by helper, as in Lemmas/C17Frame.lean; no
  invariant is needed.  Then lifted to the fold `Vt.feed` / `Vt.feedAll` / `Vt.feedStr` perform
  over the functions the parser emits.
-/
import Avt.Spec.C06
import Avt.Lemmas.C17Step
import Avt.Lemmas.FrameVt

namespace Avt.C06M
open Avt Avt.Spec Avt.Spec.C06

/-- the scroll region is the same -/
def MSame (t t' : Terminal) : Prop :=
  t'.topMargin = t.topMargin ∧ t'.bottomMargin = t.bottomMargin

theorem MSame.refl (t : Terminal) : MSame t t := ⟨rfl, rfl⟩

theorem MSame.trans {a b c : Terminal} (h1 : MSame a b) (h2 : MSame b c) : MSame a c :=
  ⟨h2.1.trans h1.1, h2.2.trans h1.2⟩

theorem map_mrg {α} {t t' : Terminal} {o : Option α} {g : α → Terminal}
    (h : o.map g = some t') (hg : ∀ a, MSame t (g a)) : MSame t t' := by
  cases o with
  | none => cases h
  | some a => cases h; exact hg a

theorem markDirty_mrg {t t' : Terminal} {r : Nat} (h : t.markDirty r = some t') : MSame t t' :=
  map_mrg h (fun _ => ⟨rfl, rfl⟩)

theorem markDirtyRange_mrg {t t' : Terminal} {a b : Nat} (h : t.markDirtyRange a b = some t') :
    MSame t t' := map_mrg h (fun _ => ⟨rfl, rfl⟩)

theorem doMoveCursorToRow_mrg {t t' : Terminal} {r : Nat} (h : t.doMoveCursorToRow r = some t') :
    MSame t t' := map_mrg h (fun _ => ⟨rfl, rfl⟩)

theorem moveCursorToCol_mrg {t t' : Terminal} {c : Nat} (h : t.moveCursorToCol c = some t') :
    MSame t t' := by
  unfold Terminal.moveCursorToCol at h
  split at h
  · exact map_mrg h (fun _ => ⟨rfl, rfl⟩)
  · cases h; exact ⟨rfl, rfl⟩

theorem moveCursorToRow_mrg {t t' : Terminal} {r : Nat} (h : t.moveCursorToRow r = some t') :
    MSame t t' := by
  unfold Terminal.moveCursorToRow at h
  simp only at h
  split at h
  · cases h
  · exact doMoveCursorToRow_mrg h

theorem moveCursorToRelCol_mrg {t t' : Terminal} {r : Int} (h : t.moveCursorToRelCol r = some t') :
    MSame t t' := by
  unfold Terminal.moveCursorToRelCol at h
  simp only at h
  split at h
  · cases h; exact ⟨rfl, rfl⟩
  · split at h
    · exact map_mrg h (fun _ => ⟨rfl, rfl⟩)
    · cases h; exact ⟨rfl, rfl⟩

theorem moveCursorHome_mrg {t t' : Terminal} (h : t.moveCursorHome = some t') : MSame t t' := by
  unfold Terminal.moveCursorHome at h
  exact MSame.trans (b := t.doMoveCursorToCol 0) ⟨rfl, rfl⟩ (doMoveCursorToRow_mrg h)

theorem moveCursorToNextTab_mrg {t t' : Terminal} {n : Nat} (h : t.moveCursorToNextTab n = some t') :
    MSame t t' := by
  unfold Terminal.moveCursorToNextTab at h
  split at h
  · exact moveCursorToCol_mrg h
  · cases h

theorem moveCursorToPrevTab_mrg {t t' : Terminal} {n : Nat} (h : t.moveCursorToPrevTab n = some t') :
    MSame t t' := by
  unfold Terminal.moveCursorToPrevTab at h
  split at h
  · exact moveCursorToCol_mrg h
  · cases h

theorem scrollUpInRegion_mrg {t t' : Terminal} {n : Nat} (h : t.scrollUpInRegion n = some t') :
    MSame t t' := by
  unfold Terminal.scrollUpInRegion at h
  split at h
  · cases h
  · exact map_mrg h (fun _ => ⟨rfl, rfl⟩)

theorem scrollDownInRegion_mrg {t t' : Terminal} {n : Nat} (h : t.scrollDownInRegion n = some t') :
    MSame t t' := by
  unfold Terminal.scrollDownInRegion at h
  split at h
  · cases h
  · exact map_mrg h (fun _ => ⟨rfl, rfl⟩)

theorem moveCursorDownWithScroll_mrg {t t' : Terminal} (h : t.moveCursorDownWithScroll = some t') :
    MSame t t' := by
  unfold Terminal.moveCursorDownWithScroll at h
  split at h
  · exact scrollUpInRegion_mrg h
  · split at h
    · cases h
    · split at h
      · exact doMoveCursorToRow_mrg h
      · cases h; exact ⟨rfl, rfl⟩

theorem cursorDown_mrg {t t' : Terminal} {n : Nat} (h : t.cursorDown n = some t') : MSame t t' := by
  unfold Terminal.cursorDown at h
  split at h
  · split at h
    · cases h
    · exact doMoveCursorToRow_mrg h
  · exact doMoveCursorToRow_mrg h

theorem cursorUp_mrg {t t' : Terminal} {n : Nat} (h : t.cursorUp n = some t') : MSame t t' := by
  unfold Terminal.cursorUp at h
  exact doMoveCursorToRow_mrg h

theorem setTab_mrg (t : Terminal) : MSame t t.setTab := by
  unfold Terminal.setTab; split <;> exact ⟨rfl, rfl⟩

theorem ctc_mrg (t : Terminal) (op : CtcOp) : MSame t (t.ctc op) := by
  cases op
  · exact setTab_mrg t
  · exact ⟨rfl, rfl⟩
  · exact ⟨rfl, rfl⟩

theorem tbc_mrg (t : Terminal) (s : TbcScope) : MSame t (t.tbc s) := by
  cases s <;> exact ⟨rfl, rfl⟩

theorem bs_mrg {t t' : Terminal} (h : t.bs = some t') : MSame t t' := by
  unfold Terminal.bs at h
  split at h <;> exact moveCursorToRelCol_mrg h

theorem lf_mrg {t t' : Terminal} (h : t.lf = some t') : MSame t t' := by
  unfold Terminal.lf at h
  cases hm : t.moveCursorDownWithScroll with
  | none => simp [hm] at h
  | some t1 =>
    simp only [hm, Option.map_some, Option.some.injEq] at h
    subst h
    refine (moveCursorDownWithScroll_mrg hm).trans ?_
    split <;> exact ⟨rfl, rfl⟩

theorem nel_mrg {t t' : Terminal} (h : t.nel = some t') : MSame t t' := by
  unfold Terminal.nel at h
  cases hm : t.moveCursorDownWithScroll with
  | none => simp [hm] at h
  | some t1 =>
    simp only [hm, Option.map_some, Option.some.injEq] at h
    subst h
    exact (moveCursorDownWithScroll_mrg hm).trans ⟨rfl, rfl⟩

theorem ri_mrg {t t' : Terminal} (h : t.ri = some t') : MSame t t' := by
  unfold Terminal.ri at h
  split at h
  · exact scrollDownInRegion_mrg h
  · split at h
    · exact doMoveCursorToRow_mrg h
    · cases h; exact ⟨rfl, rfl⟩

theorem decalnRows_mrg : ∀ (k row : Nat) {t t' : Terminal}, Terminal.decalnRows t row k = some t' → MSame t t'
  | 0, _, t, t', h => by cases h; exact ⟨rfl, rfl⟩
  | k + 1, row, t, t', h => by
    unfold Terminal.decalnRows at h
    split at h
    · cases h
    · rename_i b _
      split at h
      · cases h
      · rename_i t1 h1
        exact (MSame.trans (b := { t with buffer := b }) ⟨rfl, rfl⟩ (markDirty_mrg h1)).trans
          (decalnRows_mrg k (row + 1) h)

theorem ich_mrg {t t' : Terminal} {n : Nat} (h : t.ich n = some t') : MSame t t' := by
  unfold Terminal.ich at h
  split at h
  · cases h
  · rename_i b _
    exact MSame.trans (b := { t with buffer := b }) ⟨rfl, rfl⟩ (markDirty_mrg h)

theorem cub_mrg {t t' : Terminal} {n : Nat} (h : t.cub n = some t') : MSame t t' := by
  unfold Terminal.cub at h
  exact moveCursorToRelCol_mrg h

theorem cup_mrg {t t' : Terminal} {r c : Nat} (h : t.cup r c = some t') : MSame t t' := by
  unfold Terminal.cup at h
  split at h
  · cases h
  · rename_i t1 h1
    exact (moveCursorToCol_mrg h1).trans (moveCursorToRow_mrg h)

theorem eraseWith_mrg {t t' : Terminal} {m : Buffer.EraseMode} (h : t.eraseWith m = some t') :
    MSame t t' := map_mrg h (fun _ => ⟨rfl, rfl⟩)

theorem ed_mrg {t t' : Terminal} {s : EdScope} (h : t.ed s = some t') : MSame t t' := by
  unfold Terminal.ed at h
  cases s with
  | savedLines => cases h; exact ⟨rfl, rfl⟩
  | below | above | all =>
    simp only at h
    split at h
    · cases h
    · rename_i t1 h1
      exact (eraseWith_mrg h1).trans (markDirtyRange_mrg h)

theorem el_mrg {t t' : Terminal} {s : ElScope} (h : t.el s = some t') : MSame t t' := by
  unfold Terminal.el at h
  simp only at h
  split at h
  · cases h
  · rename_i t1 h1
    exact (eraseWith_mrg h1).trans (markDirty_mrg h)

theorem ech_mrg {t t' : Terminal} {n : Nat} (h : t.ech n = some t') : MSame t t' := by
  unfold Terminal.ech at h
  split at h
  · cases h
  · rename_i t1 h1
    exact (eraseWith_mrg h1).trans (markDirty_mrg h)

theorem il_mrg {t t' : Terminal} {n : Nat} (h : t.il n = some t') : MSame t t' := by
  unfold Terminal.il at h
  simp only at h
  split at h
  · cases h
  · rename_i b _
    exact MSame.trans (b := { t with buffer := b }) ⟨rfl, rfl⟩ (markDirtyRange_mrg h)

theorem dl_mrg {t t' : Terminal} {n : Nat} (h : t.dl n = some t') : MSame t t' := by
  unfold Terminal.dl at h
  simp only at h
  split at h
  · cases h
  · rename_i b _
    exact MSame.trans (b := { t with buffer := b }) ⟨rfl, rfl⟩ (markDirtyRange_mrg h)

theorem dch_mrg {t t' : Terminal} {n : Nat} (h : t.dch n = some t') : MSame t t' := by
  unfold Terminal.dch at h
  simp only at h
  split at h
  · cases h
  · rename_i t1 ht1
    have h1 : MSame t t1 := by
      split at ht1
      · split at ht1
        · cases ht1
        · exact moveCursorToCol_mrg ht1
      · cases ht1; exact ⟨rfl, rfl⟩
    split at h
    · cases h
    · rename_i b _
      exact h1.trans (MSame.trans (b := { t1 with buffer := b }) ⟨rfl, rfl⟩ (markDirty_mrg h))


theorem print_mrg {t t' : Terminal} {ch : Nat} (h : t.print ch = some t') : MSame t t' := by
  unfold Terminal.print at h
  split at h
  · cases h
  · split at h
    · cases h
    · simp only at h
      split at h
      · cases h
      · rename_i t1 ht1
        split at h
        · cases h
        · rename_i t2 ht2
          have h1 : MSame t t1 := by
            split at ht1
            · have h0 : MSame t (t.doMoveCursorToCol 0) := ⟨rfl, rfl⟩
              generalize t.doMoveCursorToCol 0 = t0 at ht1 h0
              split at ht1
              · split at ht1
                · cases ht1
                · rename_i b hb
                  have hb' : MSame t { t0 with buffer := b } := h0.trans ⟨rfl, rfl⟩
                  split at ht1
                  · cases ht1
                  · rename_i t3 ht3
                    have h3 := hb'.trans (scrollUpInRegion_mrg ht3)
                    split at ht1
                    · cases ht1
                    · split at ht1
                      · split at ht1
                        · cases ht1
                        · exact h3.trans (map_mrg ht1 (fun _ => ⟨rfl, rfl⟩))
                      · cases ht1; exact h3
              · split at ht1
                · cases ht1
                · split at ht1
                  · split at ht1
                    · cases ht1
                    · rename_i b hb
                      have hb' : MSame t { t0 with buffer := b } := h0.trans ⟨rfl, rfl⟩
                      exact hb'.trans (doMoveCursorToRow_mrg ht1)
                  · cases ht1; exact h0
            · cases ht1; exact ⟨rfl, rfl⟩
          have h2 : MSame t1 t2 := by
            split at ht2
            · split at ht2
              · cases ht2
              · split at ht2
                · cases ht2
                · split at ht2
                  · cases ht2; exact ⟨rfl, rfl⟩
                  · cases ht2; exact ⟨rfl, rfl⟩
            · split at ht2
              · cases ht2
              · cases ht2; exact ⟨rfl, rfl⟩
          exact (h1.trans h2).trans (markDirty_mrg h)

theorem printN_mrg {ch : Nat} : ∀ (k : Nat) {t t' : Terminal}, t.printN ch k = some t' → MSame t t'
  | 0, t, t', h => by cases h; exact ⟨rfl, rfl⟩
  | k + 1, t, t', h => by
    unfold Terminal.printN at h
    split at h
    · cases h
    · rename_i t1 h1
      exact (print_mrg h1).trans (printN_mrg k h)

theorem rep_mrg {t t' : Terminal} {n : Nat} (h : t.rep n = some t') : MSame t t' := by
  unfold Terminal.rep at h
  split at h
  · split at h
    · cases h
    · split at h
      · cases h
      · exact printN_mrg _ h
  · cases h; exact ⟨rfl, rfl⟩

theorem sm_mrg (ms : List AnsiMode) : ∀ t : Terminal, MSame t (t.sm ms) := by
  induction ms with
  | nil => intro t; exact ⟨rfl, rfl⟩
  | cons m ms ih =>
    intro t
    simp only [Terminal.sm, List.foldl_cons]
    cases m
    · exact MSame.trans (b := { t with insertMode := true }) ⟨rfl, rfl⟩ (ih _)
    · exact MSame.trans (b := { t with newLineMode := true }) ⟨rfl, rfl⟩ (ih _)

theorem rm_mrg (ms : List AnsiMode) : ∀ t : Terminal, MSame t (t.rm ms) := by
  induction ms with
  | nil => intro t; exact ⟨rfl, rfl⟩
  | cons m ms ih =>
    intro t
    simp only [Terminal.rm, List.foldl_cons]
    cases m
    · exact MSame.trans (b := { t with insertMode := false }) ⟨rfl, rfl⟩ (ih _)
    · exact MSame.trans (b := { t with newLineMode := false }) ⟨rfl, rfl⟩ (ih _)

/-! ### save / restore, the switches of screens, reflow -/

theorem saveCursor_mrg {t t' : Terminal} (h : t.saveCursor = some t') : MSame t t' :=
  map_mrg h (fun _ => ⟨rfl, rfl⟩)

theorem restoreCursor_mrg (t : Terminal) : MSame t t.restoreCursor := ⟨rfl, rfl⟩

theorem switchToAlternateBuffer_mrg {t t' : Terminal} (h : t.switchToAlternateBuffer = some t') :
    MSame t t' := by
  unfold Terminal.switchToAlternateBuffer at h
  split at h
  · simp only at h
    exact map_mrg h (fun _ => ⟨rfl, rfl⟩)
  · cases h; exact ⟨rfl, rfl⟩

theorem switchToPrimaryBuffer_mrg {t t' : Terminal} (h : t.switchToPrimaryBuffer = some t') :
    MSame t t' := by
  unfold Terminal.switchToPrimaryBuffer at h
  split at h
  · simp only at h
    exact map_mrg h (fun _ => ⟨rfl, rfl⟩)
  · cases h; exact ⟨rfl, rfl⟩

/-- `Terminal.reflow` (the tail of every switch of screens) resizes the buffer, moves the cursor,
    flags rows and clamps the saved context — never the margins -/
theorem reflow_mrg {t t' : Terminal} (h : t.reflow = some t') : MSame t t' := by
  rw [Spec.C17.reflow_eq] at h
  obtain ⟨b, col, row, d, _, rfl⟩ := Spec.C17.reflowCore_eq h
  split <;> exact ⟨rfl, rfl⟩

/-- setting any DEC mode -/
theorem decsetOne_mrg {t t' : Terminal} {m : DecMode} (h : t.decsetOne m = some t') : MSame t t' := by
  cases m <;> simp only [Terminal.decsetOne] at h
  case cursorKeys => cases h; exact ⟨rfl, rfl⟩
  case origin => exact MSame.trans (b := { t with originMode := true }) ⟨rfl, rfl⟩ (moveCursorHome_mrg h)
  case autoWrap => cases h; exact ⟨rfl, rfl⟩
  case textCursorEnable => cases h; exact ⟨rfl, rfl⟩
  case altScreenBuffer =>
    split at h
    · cases h
    · rename_i t1 h1
      exact (switchToAlternateBuffer_mrg h1).trans (reflow_mrg h)
  case saveCursor => exact saveCursor_mrg h
  case saveCursorAltScreenBuffer =>
    split at h
    · cases h
    · rename_i t0 h0
      split at h
      · cases h
      · rename_i t1 h1
        exact ((saveCursor_mrg h0).trans (switchToAlternateBuffer_mrg h1)).trans (reflow_mrg h)

/-- resetting any DEC mode — leaving the alternate screen included -/
theorem decrstOne_mrg {t t' : Terminal} {m : DecMode} (h : t.decrstOne m = some t') : MSame t t' := by
  cases m <;> simp only [Terminal.decrstOne] at h
  case cursorKeys => cases h; exact ⟨rfl, rfl⟩
  case origin => exact MSame.trans (b := { t with originMode := false }) ⟨rfl, rfl⟩ (moveCursorHome_mrg h)
  case autoWrap => cases h; exact ⟨rfl, rfl⟩
  case textCursorEnable => cases h; exact ⟨rfl, rfl⟩
  case altScreenBuffer =>
    split at h
    · cases h
    · rename_i t1 h1
      exact (switchToPrimaryBuffer_mrg h1).trans (reflow_mrg h)
  case saveCursor => cases h; exact ⟨rfl, rfl⟩
  case saveCursorAltScreenBuffer =>
    split at h
    · cases h
    · rename_i t1 h1
      exact ((switchToPrimaryBuffer_mrg h1).trans (restoreCursor_mrg t1)).trans (reflow_mrg h)

theorem foldM_mrg {α} {f : Terminal → α → Option Terminal}
    (hf : ∀ t t' a, f t a = some t' → MSame t t') :
    ∀ (as : List α) {t t' : Terminal}, Terminal.foldM' f as t = some t' → MSame t t'
  | [], t, t', h => by cases h; exact ⟨rfl, rfl⟩
  | a :: as, t, t', h => by
    unfold Terminal.foldM' at h
    split at h
    · rename_i t1 h1
      exact (hf _ _ _ h1).trans (foldM_mrg hf as h)
    · cases h

/-- **frame**: every function other than DECSTBM, DECSTR, RIS and XTWINOPS leaves the scroll region
    exactly as it is (all constructors of `Function`; no invariant) -/
theorem frame {t t' : Terminal} {f : Function} (hf : setsMargins f = false)
    (h : t.execute f = some t') : MSame t t' := by
  cases f <;> simp only [setsMargins, Bool.true_eq_false] at hf <;> simp only [Terminal.execute] at h
  case bs => exact bs_mrg h
  case cbt n => exact moveCursorToPrevTab_mrg h
  case cha n => exact moveCursorToCol_mrg h
  case cht n => exact moveCursorToNextTab_mrg h
  case cnl n =>
    cases hc : t.cursorDown (asUsize n 1) with
    | none => simp [hc] at h
    | some t1 =>
      simp only [hc, Option.map_some, Option.some.injEq] at h; subst h
      exact (cursorDown_mrg hc).trans ⟨rfl, rfl⟩
  case cpl n =>
    cases hc : t.cursorUp (asUsize n 1) with
    | none => simp [hc] at h
    | some t1 =>
      simp only [hc, Option.map_some, Option.some.injEq] at h; subst h
      exact (cursorUp_mrg hc).trans ⟨rfl, rfl⟩
  case cr => cases h; exact ⟨rfl, rfl⟩
  case ctc op => cases h; exact ctc_mrg t op
  case cub n => exact cub_mrg h
  case cud n => exact cursorDown_mrg h
  case cuf n => exact moveCursorToRelCol_mrg h
  case cup r c => exact cup_mrg h
  case cuu n => exact cursorUp_mrg h
  case dch n => exact dch_mrg h
  case decaln => exact decalnRows_mrg _ _ h
  case decrc => cases h; exact ⟨rfl, rfl⟩
  case decrst ms => exact foldM_mrg (fun _ _ _ hh => decrstOne_mrg hh) ms h
  case decsc => exact saveCursor_mrg h
  case decset ms => exact foldM_mrg (fun _ _ _ hh => decsetOne_mrg hh) ms h
  case dl n => exact dl_mrg h
  case ech n => exact ech_mrg h
  case ed s => exact ed_mrg h
  case el s => exact el_mrg h
  case g1d4 c => cases h; exact ⟨rfl, rfl⟩
  case gzd4 c => cases h; exact ⟨rfl, rfl⟩
  case ht => exact moveCursorToNextTab_mrg h
  case hts => cases h; exact setTab_mrg t
  case ich n => exact ich_mrg h
  case il n => exact il_mrg h
  case lf => exact lf_mrg h
  case nel => exact nel_mrg h
  case print ch => exact print_mrg h
  case rep n => exact rep_mrg h
  case ri => exact ri_mrg h
  case rm ms => cases h; exact rm_mrg ms t
  case scorc => cases h; exact ⟨rfl, rfl⟩
  case scosc => exact saveCursor_mrg h
  case sd n => exact scrollDownInRegion_mrg h
  case sgr ops => cases h; exact ⟨rfl, rfl⟩
  case si => cases h; exact ⟨rfl, rfl⟩
  case sm ms => cases h; exact sm_mrg ms t
  case so => cases h; exact ⟨rfl, rfl⟩
  case su n => exact scrollUpInRegion_mrg h
  case tbc s => cases h; exact tbc_mrg t s
  case vpa n => exact moveCursorToRow_mrg h
  case vpr n => exact cursorDown_mrg h

/-! ### lifted to a list of functions, and to the public calls -/

/-- the fold of `execute` over functions none of which sets the margins -/
theorem frame_many {fs : List Function} (hf : ∀ f ∈ fs, setsMargins f = false) :
    ∀ {t t' : Terminal}, Terminal.foldM' Terminal.execute fs t = some t' → MSame t t' := by
  induction fs with
  | nil => intro t t' h; cases h; exact ⟨rfl, rfl⟩
  | cons f fs ih =>
    intro t t' h
    unfold Terminal.foldM' at h
    split at h
    · rename_i t1 h1
      exact (frame (hf f (by simp)) h1).trans (ih (fun g hg => hf g (by simp [hg])) h)
    · cases h

/-- one character through `Vt.feed` -/
theorem feed_mrg {v v' : Vt} {c : Nat} (hf : ∀ f ∈ Frame.emitted v.parser [c], setsMargins f = false)
    (h : v.feed c = some v') : MSame v.terminal v'.terminal := by
  unfold Vt.feed at h
  split at h
  · cases h
  · cases h; exact ⟨rfl, rfl⟩
  · rename_i p f hp
    obtain ⟨t1, h1, rfl⟩ := Option.map_eq_some_iff.mp h
    exact frame (hf f (by simp [Frame.emitted, hp])) h1

/-- a string through `Vt.feedAll` (per-character `Vt::feed`, no `changes()` / `gc()`) -/
theorem feedAll_mrg : ∀ (xs : List Nat) {v v' : Vt},
    (∀ f ∈ Frame.emitted v.parser xs, setsMargins f = false) → v.feedAll xs = some v' →
    MSame v.terminal v'.terminal
  | [], v, v', _, h => by cases h; exact ⟨rfl, rfl⟩
  | c :: cs, v, v', hf, h => by
    simp only [Vt.feedAll] at h
    split at h
    · rename_i v1 h1
      rw [Frame.emitted_feed h1 cs] at hf
      exact (feed_mrg (fun f hm => hf f (by simp [hm])) h1).trans
        (feedAll_mrg cs (fun f hm => hf f (by simp [hm])) h)
    · cases h

/-- `changes()` + `gc()` do not touch the margins -/
theorem finish_mrg (v : Vt) : MSame v.terminal v.finish.1.terminal := ⟨rfl, rfl⟩

/-- `Vt.feedStr` -/
theorem feedStr_mrg {xs : List Nat} {v v' : Vt} {ch : Changes}
    (hf : ∀ f ∈ Frame.emitted v.parser xs, setsMargins f = false) (h : v.feedStr xs = some (v', ch)) :
    MSame v.terminal v'.terminal := by
  unfold Vt.feedStr at h
  obtain ⟨v1, h1, h2⟩ := Option.map_eq_some_iff.mp h
  have e : v' = v1.finish.1 := by rw [h2]
  subst e
  exact (feedAll_mrg xs hf h1).trans (finish_mrg v1)

end Avt.C06M
