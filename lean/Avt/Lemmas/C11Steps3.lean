/-
  Avt.Lemmas.C11Steps3 — `Terminal.dump` replayed end to end for terminals on the PRIMARY screen whose
  two saved contexts are the default ones (dump steps 3–6 then emit only `ESC [ m`).

  `stageP T k c r pw p d` is the replaying terminal after step `k`: the fields restored so far are those
  of the dumped terminal `T`, the others are still those of the fresh terminal, and cursor position,
  pending wrap, pen and dirty flags are the junk `c r pw p d` (they are fixed last, by steps 9/10).
-/
import Avt.Lemmas.C11Steps2

namespace Avt
namespace Lemmas.C11
open Avt.Spec.C11 Avt.Spec.C04 Avt.C04L Avt.Terminal

theorem Feeds.to {s : List Nat} {t t1 t2 : Terminal} (h : Feeds s t t1) (e : t1 = t2) : Feeds s t t2 := e ▸ h

/-! ### decidable well-formedness of pens and cells -/

def colorOKb : Color → Bool
  | .indexed n => n < 256
  | .rgb r g b => r < 256 && g < 256 && b < 256

def penOKb (p : Pen) : Bool :=
  p.attrs < 32 && (match p.fg with | some c => colorOKb c | none => true)
    && (match p.bg with | some c => colorOKb c | none => true)

def cellOKb (c : Cell) : Bool := printableCh c.ch && penOKb c.pen

def viewOKb (v : List Line) : Bool := v.all fun l => l.cells.all cellOKb

theorem colorOK_of_b {c : Color} (h : colorOKb c = true) : ColorOK c := by
  cases c with
  | indexed n => simpa [colorOKb, ColorOK] using h
  | rgb r g b => simpa [colorOKb, ColorOK, and_assoc] using h

theorem penOK_of_b {p : Pen} (h : penOKb p = true) : PenOK p := by
  simp only [penOKb, Bool.and_eq_true, decide_eq_true_eq] at h
  refine ⟨h.1.1, ?_, ?_⟩
  · intro c hc
    have := h.1.2; rw [hc] at this; exact colorOK_of_b this
  · intro c hc
    have := h.2; rw [hc] at this; exact colorOK_of_b this

theorem cellOK_of_b {c : Cell} (h : cellOKb c = true) : CellOK c := by
  simp only [cellOKb, Bool.and_eq_true] at h
  exact ⟨h.1, penOK_of_b h.2⟩

theorem viewOK_of_b {v : List Line} (h : viewOKb v = true) : ∀ l ∈ v, ∀ c ∈ l.cells, CellOK c := by
  intro l hl c hc
  simp only [viewOKb, List.all_eq_true] at h
  exact cellOK_of_b (h l hl c hc)

theorem ctx_default_eq (c : SavedCtx) (h : c.isDefault = true) (hp : PenOK c.pen) : c = {} := by
  obtain ⟨cc, cr, pen, om, aw⟩ := c
  simp only [SavedCtx.isDefault, Bool.and_eq_true, beq_iff_eq, Bool.not_eq_true'] at h
  obtain ⟨⟨⟨⟨h1, h2⟩, h3⟩, h4⟩, h5⟩ := h
  have := pen_default_of_isDefault pen hp h3
  subst h1 h2 h4 h5 this
  rfl

/-! ### the stages -/

def stageP (T : Terminal) (k : Nat) (c r : Nat) (pw : Bool) (p : Pen) (d : List Bool) : Terminal :=
  { cols := T.cols, rows := T.rows,
    buffer := { sb := [], view := T.buffer.view, cols := T.cols, rows := T.rows, limit := none, trimNeeded := false },
    otherBuffer := Buffer.new T.cols T.rows (some 0) none,
    activeBufferType := .primary, scrollbackLimit := none,
    cursor := ⟨c, r, if 10 ≤ k then T.cursor.visible else true⟩,
    pen := p,
    charsets := (if 11 ≤ k then T.charsets.1 else .ascii, if 12 ≤ k then T.charsets.2 else .ascii),
    activeCharset := if 13 ≤ k then T.activeCharset else 0,
    tabs := if 2 ≤ k then T.tabs else Tabs.new T.cols,
    insertMode := if 14 ≤ k then T.insertMode else false,
    originMode := if 7 ≤ k then T.originMode else false,
    autoWrapMode := if 15 ≤ k then T.autoWrapMode else true,
    newLineMode := if 16 ≤ k then T.newLineMode else false,
    cursorKeysMode := if 17 ≤ k then T.cursorKeysMode else .normal,
    pendingWrap := pw,
    topMargin := if 8 ≤ k then T.topMargin else 0,
    bottomMargin := if 8 ≤ k then T.bottomMargin else T.rows - 1,
    savedCtx := if 3 ≤ k then T.savedCtx else {}, alternateSavedCtx := {}, dirtyLines := d, xtwinops := false }

/-- what is assumed of the dumped terminal -/
structure PrimOK (T : Terminal) : Prop where
  inv : TInv T = true
  prim : T.activeBufferType = .primary
  cells : ∀ l ∈ T.buffer.view, ∀ c ∈ l.cells, CellOK c
  pen : PenOK T.pen
  cols : T.cols < 65535
  rows : T.rows ≤ 65535
  inside : T.originMode = false ∨ (T.topMargin ≤ T.cursor.row ∧ T.cursor.row ≤ T.bottomMargin)

section steps
set_option linter.unusedSectionVars false
variable {T : Terminal} (h : PrimOK T)
include h

theorem stage_tabs (c r : Nat) (pw : Bool) (p : Pen) (d : List Bool) :
    ∃ c' pw', Feeds (if T.tabs ≠ Tabs.new T.cols then
        [csi, 0x35, 0x57] ++ (T.tabs.map fun tb => csi :: renderDec (tb + 1) ++ [0x60, 0x1b, 0x5b, 0x57]).flatten
      else []) (stageP T 1 c r pw p d) (stageP T 2 c' r pw' p d) := by
  have ht := TOK.of_TInv h.inv
  by_cases hne : T.tabs ≠ Tabs.new T.cols
  · rw [if_pos hne]
    have htabs : tabsOK T.tabs T.cols = true := by
      have := h.inv
      simp only [TInv, Bool.and_eq_true] at this
      exact this.1.1.1.1.1.1.1.2
    obtain ⟨c', pw', f⟩ := feeds_tabs (stageP T 1 c r pw p d) T.tabs htabs (by have := h.cols; show T.cols ≤ 65535; omega)
    exact ⟨c', pw', f⟩
  · rw [if_neg hne]
    have he : T.tabs = Tabs.new T.cols := by simpa using hne
    refine ⟨c, pw, ?_⟩
    have : stageP T 2 c r pw p d = stageP T 1 c r pw p d := by
      simp only [stageP, he]; rfl
    rw [this]; exact Feeds.nil _

/-! #### dump step 3: the saved context of the primary screen -/

/-- stage 2 with auto-wrap, origin mode and the saved context overridden (the modes are switched
    temporarily while the context is configured and saved) -/
def stageX (T : Terminal) (aw om : Bool) (sc : SavedCtx) (c r : Nat) (pw : Bool) (p : Pen) (d : List Bool) : Terminal :=
  { stageP T 2 c r pw p d with autoWrapMode := aw, originMode := om, savedCtx := sc }

omit h in
theorem stageX_2 (c r : Nat) (pw : Bool) (p : Pen) (d : List Bool) :
    stageP T 2 c r pw p d = stageX T true false {} c r pw p d := rfl

omit h in
theorem stageX_3 (c r : Nat) (pw : Bool) (p : Pen) (d : List Bool) :
    stageP T 3 c r pw p d = stageX T true false T.savedCtx c r pw p d := rfl

omit h in
theorem x_awOff (aw' om : Bool) (sc : SavedCtx) (c r : Nat) (pw : Bool) (p : Pen) (d : List Bool) :
    Feeds (if !aw' then [csi, 0x3f, 0x37, 0x6c] else []) (stageX T true om sc c r pw p d) (stageX T aw' om sc c r pw p d) := by
  cases aw' with
  | false => exact (feeds_autoWrapOff _).to rfl
  | true => exact Feeds.nil _

omit h in
theorem x_awOn (aw' om : Bool) (sc : SavedCtx) (c r : Nat) (pw : Bool) (p : Pen) (d : List Bool) :
    Feeds (if !aw' then [csi, 0x3f, 0x37, 0x68] else []) (stageX T aw' om sc c r pw p d) (stageX T true om sc c r pw p d) := by
  cases aw' with
  | false => exact (feeds_autoWrapOn _).to rfl
  | true => exact Feeds.nil _

theorem x_omOn (aw om' : Bool) (sc : SavedCtx) (c r : Nat) (pw : Bool) (p : Pen) (d : List Bool) :
    ∃ c' r' pw', Feeds (if om' then [csi, 0x3f, 0x36, 0x68] else []) (stageX T aw false sc c r pw p d)
      (stageX T aw om' sc c' r' pw' p d) := by
  have ht := TOK.of_TInv h.inv
  cases om' with
  | true => exact ⟨0, 0, false, (feeds_originOn (stageX T aw false sc c r pw p d) ht.c1).to rfl⟩
  | false => exact ⟨c, r, pw, Feeds.nil _⟩

theorem x_omOff (aw om' : Bool) (sc : SavedCtx) (c r : Nat) (pw : Bool) (p : Pen) (d : List Bool) :
    ∃ c' r' pw', Feeds (if om' then [csi, 0x3f, 0x36, 0x6c] else []) (stageX T aw om' sc c r pw p d)
      (stageX T aw false sc c' r' pw' p d) := by
  have ht := TOK.of_TInv h.inv
  cases om' with
  | true => exact ⟨0, 0, false, (feeds_originOff (stageX T aw true sc c r pw p d) ht.c1).to rfl⟩
  | false => exact ⟨c, r, pw, Feeds.nil _⟩

theorem x_cup (aw om : Bool) (sc : SavedCtx) (c r : Nat) (pw : Bool) (p : Pen) (d : List Bool) (col row : Nat)
    (hcol : col < T.cols) (hrow : row < T.rows) :
    Feeds (cupSeq (row + 1) (col + 1)) (stageX T aw om sc c r pw p d) (stageX T aw om sc col row false p d) := by
  have ht := TOK.of_TInv h.inv
  have f := feeds_cup (stageX T aw om sc c r pw p d) row col ht.c1 ht.r1 (by have := h.rows; omega) (by have := h.cols; omega)
  refine f.to ?_
  have e1 : min col (T.cols - 1) = col := by omega
  have e2 : min row (T.rows - 1) = row := by omega
  cases om <;> simp [stageX, stageP, e1, e2]

theorem x_decsc (aw om : Bool) (sc : SavedCtx) (col row : Nat) (pw : Bool) (p : Pen) (d : List Bool)
    (hcol : col < T.cols) :
    Feeds [0x1b, 0x37] (stageX T aw om sc col row pw p d)
      (stageX T aw om ⟨col, row, p, om, aw⟩ col row pw p d) := by
  have ht := TOK.of_TInv h.inv
  refine (feeds_decsc (stageX T aw om sc col row pw p d) ht.c1).to ?_
  have e1 : min col (T.cols - 1) = col := by omega
  simp [stageX, stageP, e1]

/-- **dump step 3** for the primary screen's own saved context: temporary modes, CUP, pen, `ESC 7`,
    modes back -/
theorem stage_ctx (hsp : PenOK T.savedCtx.pen) (c r : Nat) (pw : Bool) (p : Pen) (d : List Bool) :
    ∃ s c' r' pw' p', dumpCtx T.savedCtx = some s
      ∧ Feeds s (stageP T 2 c r pw p d) (stageP T 3 c' r' pw' p' d) := by
  have ht := TOK.of_TInv h.inv
  by_cases hdef : T.savedCtx.isDefault = true
  · have e := ctx_default_eq _ hdef hsp
    refine ⟨[], c, r, pw, p, by simp [dumpCtx, hdef], ?_⟩
    have : stageP T 3 c r pw p d = stageP T 2 c r pw p d := by simp only [stageP, e]; rfl
    rw [this]; exact Feeds.nil _
  · obtain ⟨hcol, hrow⟩ := ht.sctx
    have f1 := x_awOff (T := T) T.savedCtx.autoWrapMode false {} c r pw p d
    obtain ⟨c2, r2, pw2, f2⟩ := x_omOn h T.savedCtx.autoWrapMode T.savedCtx.originMode {} c r pw p d
    have f3 := x_cup h T.savedCtx.autoWrapMode T.savedCtx.originMode {} c2 r2 pw2 p d _ _ hcol hrow
    obtain ⟨pd, hpd, f4⟩ := feeds_pen T.savedCtx.pen hsp
      (stageX T T.savedCtx.autoWrapMode T.savedCtx.originMode {} T.savedCtx.cursorCol T.savedCtx.cursorRow false p d)
    have f5 := x_decsc h T.savedCtx.autoWrapMode T.savedCtx.originMode {} T.savedCtx.cursorCol T.savedCtx.cursorRow
      false T.savedCtx.pen d hcol
    have esc : (⟨T.savedCtx.cursorCol, T.savedCtx.cursorRow, T.savedCtx.pen, T.savedCtx.originMode,
        T.savedCtx.autoWrapMode⟩ : SavedCtx) = T.savedCtx := rfl
    rw [esc] at f5
    have f6 := x_awOn (T := T) T.savedCtx.autoWrapMode T.savedCtx.originMode T.savedCtx T.savedCtx.cursorCol
      T.savedCtx.cursorRow false T.savedCtx.pen d
    obtain ⟨c7, r7, pw7, f7⟩ := x_omOff h true T.savedCtx.originMode T.savedCtx T.savedCtx.cursorCol
      T.savedCtx.cursorRow false T.savedCtx.pen d
    refine ⟨(if !T.savedCtx.autoWrapMode then [csi, 0x3f, 0x37, 0x6c] else [])
        ++ (if T.savedCtx.originMode then [csi, 0x3f, 0x36, 0x68] else [])
        ++ cupSeq (T.savedCtx.cursorRow + 1) (T.savedCtx.cursorCol + 1) ++ pd ++ [0x1b, 0x37]
        ++ (if !T.savedCtx.autoWrapMode then [csi, 0x3f, 0x37, 0x68] else [])
        ++ (if T.savedCtx.originMode then [csi, 0x3f, 0x36, 0x6c] else []), c7, r7, pw7, T.savedCtx.pen, ?_, ?_⟩
    · simp only [dumpCtx, hdef, Bool.false_eq_true, if_false, hpd]
    · rw [stageX_2, stageX_3]
      have f4' : Feeds pd (stageX T T.savedCtx.autoWrapMode T.savedCtx.originMode {} T.savedCtx.cursorCol
          T.savedCtx.cursorRow false p d) (stageX T T.savedCtx.autoWrapMode T.savedCtx.originMode {}
          T.savedCtx.cursorCol T.savedCtx.cursorRow false T.savedCtx.pen d) := f4.to rfl
      exact Feeds.cast (f1.append (f2.append (f3.append (f4'.append (f5.append (f6.append f7))))))
        (by simp [List.append_assoc])

omit h in
theorem stage_sgr0 (c r : Nat) (pw : Bool) (p : Pen) (d : List Bool) :
    Feeds [0x1b, 0x5b, 0x6d] (stageP T 3 c r pw p d) (stageP T 3 c r pw {} d) :=
  feeds_sgr0 _

theorem stage_origin (c r : Nat) (pw : Bool) (p : Pen) (d : List Bool) :
    ∃ c' r' pw', Feeds (if T.originMode then [csi, 0x3f, 0x36, 0x68] else [])
      (stageP T 3 c r pw p d) (stageP T 7 c' r' pw' p d) := by
  have ht := TOK.of_TInv h.inv
  cases ho : T.originMode with
  | true =>
    simp only [if_true]
    have f := feeds_originOn (stageP T 3 c r pw p d) ht.c1
    refine ⟨0, 0, false, ?_⟩
    exact (f).to (by simp only [stageP, ho]; rfl)
  | false =>
    simp only [Bool.false_eq_true, if_false]
    refine ⟨c, r, pw, ?_⟩
    have : stageP T 7 c r pw p d = stageP T 3 c r pw p d := by simp only [stageP, ho]; rfl
    rw [this]; exact Feeds.nil _

theorem stage_margins (c r : Nat) (pw : Bool) (p : Pen) (d : List Bool) :
    ∃ c' r' pw', Feeds (if T.topMargin > 0 || T.bottomMargin < T.rows - 1
        then csi :: renderDec (T.topMargin + 1) ++ [0x3b] ++ renderDec (T.bottomMargin + 1) ++ [0x72] else [])
      (stageP T 7 c r pw p d) (stageP T 8 c' r' pw' p d) := by
  have ht := TOK.of_TInv h.inv
  obtain ⟨m1, m2, m3⟩ := ht.marg
  by_cases hcnd : (decide (T.topMargin > 0) || decide (T.bottomMargin < T.rows - 1)) = true
  · rw [if_pos hcnd]
    have hlt : T.topMargin < T.bottomMargin := by
      simp only [Bool.or_eq_true, decide_eq_true_eq] at hcnd
      omega
    have f := feeds_decstbm (stageP T 7 c r pw p d) T.topMargin T.bottomMargin ht.c1 hlt m2 h.rows
    refine ⟨0, if T.originMode then T.topMargin else 0, false, ?_⟩
    exact f.to (by simp only [stageP]; rfl)
  · rw [if_neg hcnd]
    simp only [Bool.or_eq_true, decide_eq_true_eq, not_or, Nat.not_lt, Nat.le_zero_eq] at hcnd
    have e1 : T.topMargin = 0 := by omega
    have e2 : T.bottomMargin = T.rows - 1 := by omega
    refine ⟨c, r, pw, ?_⟩
    have : stageP T 8 c r pw p d = stageP T 7 c r pw p d := by simp only [stageP, e1, e2]; rfl
    rw [this]; exact Feeds.nil _

theorem dumpCursor_inside : T.dumpCursor
    = cupSeq ((if T.originMode then T.cursor.row - T.topMargin else T.cursor.row) + 1) (T.cursor.col + 1) := by
  unfold dumpCursor
  cases ho : T.originMode with
  | false => simp
  | true =>
    rcases h.inside with hi | ⟨h1, h2⟩
    · rw [ho] at hi; cases hi
    · have : (decide (T.cursor.row < T.topMargin) || decide (T.cursor.row > T.bottomMargin)) = false := by
        simp; omega
      simp [this]

theorem stage_cursor (c r : Nat) (pw : Bool) (p : Pen) (d : List Bool) :
    Feeds T.dumpCursor (stageP T 8 c r pw p d) (stageP T 8 (min T.cursor.col (T.cols - 1)) T.cursor.row false p d) := by
  have ht := TOK.of_TInv h.inv
  obtain ⟨m1, m2, m3⟩ := ht.marg
  rw [dumpCursor_inside h]
  have hrow := ht.crow
  have hcol : T.cursor.col ≤ T.cols := by
    rcases ht.ccol with ⟨_, h2⟩ | ⟨_, h2⟩ <;> omega
  have f := feeds_cup (stageP T 8 c r pw p d) (if T.originMode then T.cursor.row - T.topMargin else T.cursor.row)
    T.cursor.col ht.c1 ht.r1 (by have := h.rows; split <;> omega) (by have := h.cols; omega)
  have hrw : (if T.originMode
      then min (T.topMargin + (if T.originMode then T.cursor.row - T.topMargin else T.cursor.row)) T.bottomMargin
      else min (if T.originMode then T.cursor.row - T.topMargin else T.cursor.row) (T.rows - 1)) = T.cursor.row := by
    cases ho : T.originMode with
    | false => simp; omega
    | true =>
      rcases h.inside with hi | ⟨h1, h2⟩
      · rw [ho] at hi; cases hi
      · simp; omega
  exact f.to (by simp only [stageP]; simp only [Nat.reduceLeDiff, if_true, hrw])

theorem stage_pending (p : Pen) (d : List Bool)
    (hinv : TInv (stageP T 8 (min T.cursor.col (T.cols - 1)) T.cursor.row false p d) = true) :
    ∃ s p' d',
      ((T.cursor.col ≥ T.cols ∧ ∃ line cell pd, T.buffer.view[T.cursor.row]? = some line
          ∧ line.cells[T.cols - 1]? = some cell ∧ cell.pen.dump = some pd ∧ s = pd ++ [cell.ch])
        ∨ (¬ T.cursor.col ≥ T.cols ∧ s = []))
      ∧ Feeds s (stageP T 8 (min T.cursor.col (T.cols - 1)) T.cursor.row false p d)
          (stageP T 8 T.cursor.col T.cursor.row T.pendingWrap p' d') := by
  have ht := TOK.of_TInv h.inv
  by_cases hge : T.cursor.col ≥ T.cols
  · have hpw : T.pendingWrap = true ∧ T.cursor.col = T.cols := by
      rcases ht.ccol with h1 | ⟨_, h2⟩
      · exact h1
      · omega
    have hlt : T.cursor.row < T.buffer.view.length := by rw [ht.bok.hv, ht.brows]; exact ht.crow
    have hw := ht.bok.hvw _ (List.getElem_mem hlt)
    have hlt2 : T.cols - 1 < (T.buffer.view[T.cursor.row]).cells.length := by
      rw [hw, ht.bcols]; have := ht.c1; omega
    have hcellOK : CellOK (T.buffer.view[T.cursor.row]).cells[T.cols - 1] :=
      h.cells _ (List.getElem_mem hlt) _ (List.getElem_mem hlt2)
    have hm : min T.cursor.col (T.cols - 1) = T.cols - 1 := by omega
    obtain ⟨pd, hpd, f⟩ := feeds_pendingPrint (stageP T 8 (min T.cursor.col (T.cols - 1)) T.cursor.row false p d)
      (T.buffer.view[T.cursor.row]) ((T.buffer.view[T.cursor.row]).cells[T.cols - 1]) hinv
      (by show min T.cursor.col (T.cols - 1) + 1 = T.cols; have := ht.c1; omega) rfl ⟨rfl, rfl⟩
      (List.getElem?_eq_getElem hlt) (List.getElem?_eq_getElem hlt2) hcellOK
    refine ⟨pd ++ [(T.buffer.view[T.cursor.row]).cells[T.cols - 1].ch],
      (T.buffer.view[T.cursor.row]).cells[T.cols - 1].pen, d.set T.cursor.row true, ?_, ?_⟩
    · exact Or.inl ⟨hge, _, _, pd, List.getElem?_eq_getElem hlt, List.getElem?_eq_getElem hlt2, hpd, rfl⟩
    · exact f.to (by simp only [stageP, hpw.1, hpw.2])
  · have hpw : T.pendingWrap = false := by
      rcases ht.ccol with ⟨_, h2⟩ | ⟨h1, _⟩
      · omega
      · exact h1
    have hm : min T.cursor.col (T.cols - 1) = T.cursor.col := by omega
    refine ⟨[], p, d, Or.inr ⟨hge, rfl⟩, ?_⟩
    rw [hm, hpw]; exact Feeds.nil _

theorem stage_pen (c r : Nat) (pw : Bool) (p : Pen) (d : List Bool) :
    ∃ pd, T.pen.dump = some pd ∧ Feeds pd (stageP T 8 c r pw p d) (stageP T 8 c r pw T.pen d) := by
  obtain ⟨pd, hpd, f⟩ := feeds_pen T.pen h.pen (stageP T 8 c r pw p d)
  exact ⟨pd, hpd, f⟩

theorem stage_vis (c r : Nat) (pw : Bool) (p : Pen) (d : List Bool) :
    Feeds (if !T.cursor.visible then [csi, 0x3f, 0x32, 0x35, 0x6c] else [])
      (stageP T 8 c r pw p d) (stageP T 10 c r pw p d) := by
  cases hv : T.cursor.visible with
  | false =>
    simp only [Bool.not_false, if_true]
    exact (feeds_hideCursor _).to (by simp only [stageP, hv]; rfl)
  | true =>
    simp only [Bool.not_true, Bool.false_eq_true, if_false]
    have : stageP T 10 c r pw p d = stageP T 8 c r pw p d := by simp only [stageP, hv]; rfl
    rw [this]; exact Feeds.nil _

theorem stage_g0 (c r : Nat) (pw : Bool) (p : Pen) (d : List Bool) :
    Feeds (if T.charsets.1 = .drawing then [0x1b, 0x28, 0x30] else [])
      (stageP T 10 c r pw p d) (stageP T 11 c r pw p d) := by
  cases hv : T.charsets.1 with
  | drawing =>
    simp only [if_true]
    exact (feeds_g0Drawing _).to (by simp only [stageP, hv]; rfl)
  | ascii =>
    simp only [reduceCtorEq, if_false]
    have : stageP T 11 c r pw p d = stageP T 10 c r pw p d := by simp only [stageP, hv]; rfl
    rw [this]; exact Feeds.nil _

theorem stage_g1 (c r : Nat) (pw : Bool) (p : Pen) (d : List Bool) :
    Feeds (if T.charsets.2 = .drawing then [0x1b, 0x29, 0x30] else [])
      (stageP T 11 c r pw p d) (stageP T 12 c r pw p d) := by
  cases hv : T.charsets.2 with
  | drawing =>
    simp only [if_true]
    exact (feeds_g1Drawing _).to (by simp only [stageP, hv]; rfl)
  | ascii =>
    simp only [reduceCtorEq, if_false]
    have : stageP T 12 c r pw p d = stageP T 11 c r pw p d := by simp only [stageP, hv]; rfl
    rw [this]; exact Feeds.nil _

theorem stage_so (c r : Nat) (pw : Bool) (p : Pen) (d : List Bool) :
    Feeds (if T.activeCharset = 1 then [0x0e] else [])
      (stageP T 12 c r pw p d) (stageP T 13 c r pw p d) := by
  have ht := TOK.of_TInv h.inv
  by_cases hv : T.activeCharset = 1
  · rw [if_pos hv]
    exact (feeds_so _).to (by simp only [stageP, hv]; rfl)
  · rw [if_neg hv]
    have h0 : T.activeCharset = 0 := by have := ht.cs; omega
    have : stageP T 13 c r pw p d = stageP T 12 c r pw p d := by simp only [stageP, h0]; rfl
    rw [this]; exact Feeds.nil _

theorem stage_insert (c r : Nat) (pw : Bool) (p : Pen) (d : List Bool) :
    Feeds (if T.insertMode then [csi, 0x34, 0x68] else [])
      (stageP T 13 c r pw p d) (stageP T 14 c r pw p d) := by
  cases hv : T.insertMode with
  | true =>
    simp only [if_true]
    exact (feeds_insertOn _).to (by simp only [stageP, hv]; rfl)
  | false =>
    simp only [Bool.false_eq_true, if_false]
    have : stageP T 14 c r pw p d = stageP T 13 c r pw p d := by simp only [stageP, hv]; rfl
    rw [this]; exact Feeds.nil _

theorem stage_autoWrap (c r : Nat) (pw : Bool) (p : Pen) (d : List Bool) :
    Feeds (if !T.autoWrapMode then [csi, 0x3f, 0x37, 0x6c] else [])
      (stageP T 14 c r pw p d) (stageP T 15 c r pw p d) := by
  cases hv : T.autoWrapMode with
  | false =>
    simp only [Bool.not_false, if_true]
    exact (feeds_autoWrapOff _).to (by simp only [stageP, hv]; rfl)
  | true =>
    simp only [Bool.not_true, Bool.false_eq_true, if_false]
    have : stageP T 15 c r pw p d = stageP T 14 c r pw p d := by simp only [stageP, hv]; rfl
    rw [this]; exact Feeds.nil _

theorem stage_newLine (c r : Nat) (pw : Bool) (p : Pen) (d : List Bool) :
    Feeds (if T.newLineMode then [csi, 0x32, 0x30, 0x68] else [])
      (stageP T 15 c r pw p d) (stageP T 16 c r pw p d) := by
  cases hv : T.newLineMode with
  | true =>
    simp only [if_true]
    exact (feeds_newLineOn _).to (by simp only [stageP, hv]; rfl)
  | false =>
    simp only [Bool.false_eq_true, if_false]
    have : stageP T 16 c r pw p d = stageP T 15 c r pw p d := by simp only [stageP, hv]; rfl
    rw [this]; exact Feeds.nil _

theorem stage_cursorKeys (c r : Nat) (pw : Bool) (p : Pen) (d : List Bool) :
    Feeds (if T.cursorKeysMode = .application then [csi, 0x3f, 0x31, 0x68] else [])
      (stageP T 16 c r pw p d) (stageP T 17 c r pw p d) := by
  cases hv : T.cursorKeysMode with
  | application =>
    simp only [if_true]
    exact (feeds_cursorKeys _).to (by simp only [stageP, hv]; rfl)
  | normal =>
    simp only [reduceCtorEq, if_false]
    have : stageP T 17 c r pw p d = stageP T 16 c r pw p d := by simp only [stageP, hv]; rfl
    rw [this]; exact Feeds.nil _

end steps

/-! ### the last stage is the dumped terminal, up to `normT` -/

theorem dirty_clear_eq (a b : List Bool) (h : a.length = b.length) : Dirty.clear a = Dirty.clear b := by
  simp only [Dirty.clear]
  apply List.ext_getElem?
  intro i
  simp only [List.getElem?_map]
  by_cases hi : i < a.length
  · rw [List.getElem?_eq_getElem hi, List.getElem?_eq_getElem (by omega)]; rfl
  · rw [List.getElem?_eq_none (by omega), List.getElem?_eq_none (by omega)]

theorem normT_stageP_final (T : Terminal) (h : PrimOK T) (ha : T.alternateSavedCtx = {})
    (d : List Bool) (hd : d.length = T.rows) :
    normT (stageP T 17 T.cursor.col T.cursor.row T.pendingWrap T.pen d) = normT T := by
  have ht := TOK.of_TInv h.inv
  have hdl := dirty_clear_eq d T.dirtyLines (by rw [hd, ht.dirty])
  have hbc := ht.bcols
  have hbr := ht.brows
  have hx := ht.xt
  have hp := h.prim
  obtain ⟨c, r, ⟨sb, vw, bc, br, lim, tn⟩, ob, abt, sl, ⟨cc, cr, cv⟩, pen, ⟨cs1, cs2⟩, acs, tabs, im, om, aw, nl, ck, pw, tm, bm,
    sc, asc, dl, xt⟩ := T
  simp only at ha hdl hbc hbr hx hp
  subst ha hbc hbr hx hp
  simp only [normT, stageP, normB, hdl, clampCtx, Nat.reduceLeDiff, if_true]

/-! ### assembly -/

theorem freshT_TInv (cols rows : Nat) (hc : 1 ≤ cols) (hr : 1 ≤ rows) : TInv (freshT cols rows none) = true := by
  obtain ⟨v, hv, hi⟩ := Props.C02.C02_init none hc hr
  simp only [Vt.new, new_eq_freshT cols rows none hr, Option.map_some, Option.some.injEq] at hv
  subst hv
  simp only [Inv, Bool.and_eq_true] at hi
  exact hi.2

theorem freshT_DMode (cols rows : Nat) (hr : 1 ≤ rows) : DMode (freshT cols rows none) :=
  ⟨rfl, by show rows - 1 + 1 = rows; omega, rfl, rfl, ⟨rfl, rfl⟩⟩

/-- **`Terminal.dump` replayed, primary screen, default saved contexts.** -/
theorem dump_primary (T : Terminal) (h : PrimOK T) (hsp : PenOK T.savedCtx.pen)
    (ha : T.alternateSavedCtx.isDefault = true) (hap : PenOK T.alternateSavedCtx.pen) :
    ∃ d t', T.dump = some d ∧ Feeds d (freshT T.cols T.rows none) t' ∧ normT t' = normT T := by
  have ht := TOK.of_TInv h.inv
  have ha' := ctx_default_eq _ ha hap
  have h0 := freshT_TInv T.cols T.rows ht.c1 ht.r1
  -- step 1: the buffer
  obtain ⟨d1, t1, hd1, f1, v1, e1, i1, _⟩ := buffer_dump T.buffer (freshT T.cols T.rows none) ht.bok.BInv ht.bcols ht.brows
    h.cells (by have := h.cols; show T.cols ≤ 65536; omega) h0 (freshT_DMode _ _ ht.r1) rfl ⟨rfl, rfl⟩ rfl
  have et1 : t1 = stageP T 1 t1.cursor.col t1.cursor.row t1.pendingWrap t1.pen t1.dirtyLines := by
    have := eq_of_E e1
    rw [v1] at this
    exact this
  rw [et1] at f1 i1
  -- the other steps
  obtain ⟨c2, pw2, f2⟩ := stage_tabs h t1.cursor.col t1.cursor.row t1.pendingWrap t1.pen t1.dirtyLines
  obtain ⟨s3, c3, r3, pw3, p3, hs3, f3a⟩ := stage_ctx h hsp c2 t1.cursor.row pw2 t1.pen t1.dirtyLines
  have f3 := stage_sgr0 (T := T) c3 r3 pw3 p3 t1.dirtyLines
  obtain ⟨c7, r7, pw7, f7⟩ := stage_origin h c3 r3 pw3 {} t1.dirtyLines
  obtain ⟨c8, r8, pw8, f8⟩ := stage_margins h c7 r7 pw7 {} t1.dirtyLines
  have f9 := stage_cursor h c8 r8 pw8 {} t1.dirtyLines
  have i9 : TInv (stageP T 8 (min T.cursor.col (T.cols - 1)) T.cursor.row false {} t1.dirtyLines) = true :=
    f9.TInv (f8.TInv (f7.TInv (f3.TInv (f3a.TInv (f2.TInv i1)))))
  obtain ⟨s9, p9, d9, hs9, f9b⟩ := stage_pending h {} t1.dirtyLines i9
  obtain ⟨pd, hpd, f10⟩ := stage_pen h T.cursor.col T.cursor.row T.pendingWrap p9 d9
  have f10b := stage_vis h T.cursor.col T.cursor.row T.pendingWrap T.pen d9
  have f11 := stage_g0 h T.cursor.col T.cursor.row T.pendingWrap T.pen d9
  have f12 := stage_g1 h T.cursor.col T.cursor.row T.pendingWrap T.pen d9
  have f13 := stage_so h T.cursor.col T.cursor.row T.pendingWrap T.pen d9
  have f14 := stage_insert h T.cursor.col T.cursor.row T.pendingWrap T.pen d9
  have f15 := stage_autoWrap h T.cursor.col T.cursor.row T.pendingWrap T.pen d9
  have f16 := stage_newLine h T.cursor.col T.cursor.row T.pendingWrap T.pen d9
  have f17 := stage_cursorKeys h T.cursor.col T.cursor.row T.pendingWrap T.pen d9
  have fall := f1.append (f2.append (f3a.append (f3.append (f7.append (f8.append (f9.append (f9b.append (f10.append
    (f10b.append (f11.append (f12.append (f13.append (f14.append (f15.append (f16.append f17)))))))))))))))
  have ifin := fall.TInv h0
  have hdl : d9.length = T.rows := (TOK.of_TInv ifin).dirty
  refine ⟨_, _, ?_, fall, normT_stageP_final T h ha' d9 hdl⟩
  have hctx : dumpCtx ({} : SavedCtx) = some [] := by decide
  simp only [Terminal.dump, h.prim, primaryBuffer, hd1, hs3, ha', hctx, hpd, csub1 ht.r1, if_true,
    reduceCtorEq, if_false, SavedCtx.isDefault, Bool.false_eq_true, Bool.or_self, Bool.not_true]
  rcases hs9 with ⟨hge, line, cell, pd', hl, hc, hpd', rfl⟩ | ⟨hge, rfl⟩
  · simp [Pen.isDefault, Pen.isItalic, Pen.isUnderline, Pen.isStrikethrough, Pen.isBlink, Pen.isInverse, csi,
      hge, csub1 ht.c1, hl, hc, hpd', ge_iff_le.1 hge]
  · simp [Pen.isDefault, Pen.isItalic, Pen.isUnderline, Pen.isStrikethrough, Pen.isBlink, Pen.isInverse, csi, hge,
      Nat.not_le.1 hge]

/-! ### Vt level -/

theorem normB_gc (b : Buffer) : normB b.gc.1 = normB b := by
  unfold Buffer.gc
  by_cases h : b.trimNeeded = true
  · rw [if_pos h]
    cases hl : b.limit with
    | none => simp [normB, hl]
    | some lim =>
      simp only
      by_cases h2 : b.sb.length > lim.hard
      · simp [normB, h2, hl]
      · simp [normB, h2, hl]
  · rw [if_neg h]

theorem normT_finish (v : Vt) : normT (Vt.finish v).1.terminal = normT v.terminal := by
  have hd : Dirty.clear (Dirty.clear v.terminal.dirtyLines) = Dirty.clear v.terminal.dirtyLines := by
    simp [Dirty.clear]
  have hb := normB_gc v.terminal.buffer
  simp only [Vt.finish, Terminal.changes, Terminal.gc, normT, hd, hb]
  rfl

/-- from `Terminal.dump` replayed on the fresh terminal to `restoreOf` -/
theorem restore_of_dump (s : Vt) (hinv : Inv s = true) (hreg : PRegOK s.parser = true)
    (hd : ∃ d t', s.terminal.dump = some d ∧ Feeds d (freshT s.terminal.cols s.terminal.rows none) t'
      ∧ normT t' = normT s.terminal) :
    ∃ r, restoreOf s = some r ∧ normD r = normD s := by
  simp only [Inv, Bool.and_eq_true] at hinv
  have ht := TOK.of_TInv hinv.2
  obtain ⟨d, t', hdump, f, hn⟩ := hd
  obtain ⟨q1, hq1, g1⟩ := f Parser.new GP_new
  obtain ⟨pd, q2, hpd, hq2, hnp⟩ := parser_dump s.parser q1 hinv.1 hreg g1.1 g1.2
  have hfeed : Vt.feedAll ⟨Parser.new, freshT s.terminal.cols s.terminal.rows none⟩ (d ++ pd) = some ⟨q2, t'⟩ := by
    rw [Lemmas.C19.feedAll_append, hq1]
    exact feedAll_of_silent ⟨q1, t'⟩ pd q2 hq2
  refine ⟨(Vt.finish ⟨q2, t'⟩).1, ?_, ?_⟩
  · unfold restoreOf
    have hvd : s.dump = some (d ++ pd) := by simp [Vt.dump, hdump, hpd]
    have hnew : Vt.new s.terminal.cols s.terminal.rows none
        = some ⟨Parser.new, freshT s.terminal.cols s.terminal.rows none⟩ := by
      simp only [Vt.new, new_eq_freshT _ _ none ht.r1, Option.map_some]
    simp only [hvd, hnew, Vt.feedStr, hfeed, Option.map_some]
  · have h1 := normT_finish ⟨q2, t'⟩
    have h2 : (Vt.finish ⟨q2, t'⟩).1.parser = q2 := rfl
    simp only [normD, h1, h2, hnp, hn]

end Lemmas.C11
end Avt
