/-
  Avt.Lemmas.GenEqReflow — phase 4 of the buffer tie: the generated translations of `Buffer::relative_position`,
  `Reflow::next` (+ the `collect()` of that iterator), `reflow` and `Buffer::resize` (Avt/Gen/BufferGen.lean)
  against the hand-written model.

  * `relativePosition_eq`: the two `while` loops, generated as scans of `self.lines[rel_row..]`, are the model's
    `relLoop1` / `relLoop2`, for every input.
  * `reflow_eq` (for `cols ≥ 1`): the generated two-level loop — `collect` calling `next`, whose `while let` runs on
    fuel `iter.len() + 1` — equals the model's fused `reflowGo` on the model's fuel `reflowFuel`.  Both sides yield
    `none` when the fuel runs out; `Lemmas/Reflow.lean` (`reflow_ok`) proves that the model's result is `some`
    whenever the last input line is unwrapped, so in every state the invariant allows the bound is sufficient and
    `none` never stands for "too many iterations".
  * `resize_sim` (for `new_cols ≥ 1`, no other hypothesis): the model's `resize` is the generated `resize` on the
    joined vector followed by the split at the new view boundary; the model's extra `none` (fewer lines than
    `new_rows`, where the next `view()` would panic) is exactly `unjoin = none`.
  * `coverage_complete`: every function the translator emitted for buffer.rs has its theorem in
    GenEqBuffer.lean or here.
-/
import Avt.Lemmas.GenEqBuffer
import Avt.Lemmas.Reflow

set_option linter.unusedSimpArgs false
set_option linter.unusedVariables false

namespace Avt.GenEqReflow
open Avt Avt.GenEqBuffer

/-! ### `Buffer::relative_position` -/

theorem relLoop2_eq (cols : Nat) (ls : List Line) (c r : Nat) :
    GenB.relativePosition.loop2 cols ls c r = Buffer.relLoop2 cols ls c r := by
  induction ls generalizing c r with
  | nil => simp only [GenB.relativePosition.loop2, Buffer.relLoop2]
  | cons l ls ih =>
    simp only [GenB.relativePosition.loop2, Buffer.relLoop2]
    by_cases hc : c ≥ cols
    · cases hw : l.wrapped
      · simp [hc, hw]
      · simp only [hc, hw, if_true, csub_eq_some hc, ih, decide_true, Bool.and_self]
    · simp [hc]

theorem relLoop1_eq (pos : Nat × Nat) (lastRow : Nat) (A B : List Line) (r rr : Nat)
    (hA : rr + A.length = lastRow) (hB : B ≠ []) :
    ∃ r', GenB.relativePosition.loop1 pos lastRow (A ++ B) r rr = some (r', Buffer.relLoop1 pos.2 A r rr) := by
  induction A generalizing r rr with
  | nil =>
    cases B with
    | nil => exact absurd rfl hB
    | cons b bs =>
      simp only [List.nil_append, GenB.relativePosition.loop1, Buffer.relLoop1]
      have : ¬ rr < lastRow := by simp at hA; omega
      by_cases h1 : r < pos.2 <;> simp [h1, this]
  | cons a A ih =>
    simp only [List.cons_append, GenB.relativePosition.loop1, Buffer.relLoop1]
    have h2 : rr < lastRow := by simp at hA; omega
    by_cases h1 : r < pos.2
    · simp only [h1, h2, if_true]
      exact ih _ _ (by simp at hA ⊢; omega)
    · simp [h1]

theorem relativePosition_eq (g : GenB.Buffer) (pos : Nat × Nat) (cols rows : Nat) :
    GenB.relativePosition g pos cols rows = Buffer.relativePosition g.lines pos cols rows := by
  unfold GenB.relativePosition Buffer.relativePosition
  simp only [List.drop_zero, relLoop2_eq]
  cases h1 : csub g.lines.length 1 with
  | none => rfl
  | some lastRow =>
    have hl := (csub_eq_some_iff.1 h1)
    obtain ⟨r', hr'⟩ := relLoop1_eq pos lastRow (g.lines.take lastRow) (g.lines.drop lastRow) 0 0
      (by simp; omega) (by
        intro h
        have := congrArg List.length h
        simp at this; omega)
    rw [List.take_append_drop] at hr'
    simp only [hr']
    cases h2 : csub cols 1 with
    | none =>
      simp only []
      cases Buffer.relLoop2 cols (List.drop (Buffer.relLoop1 pos.2 (List.take lastRow g.lines) 0 0) g.lines) pos.1
        (Buffer.relLoop1 pos.2 (List.take lastRow g.lines) 0 0) <;> rfl
    | some c1 =>
      cases h3 : csub g.lines.length rows with
      | none =>
        simp only []
        cases Buffer.relLoop2 cols (List.drop (Buffer.relLoop1 pos.2 (List.take lastRow g.lines) 0 0) g.lines) pos.1
          (Buffer.relLoop1 pos.2 (List.take lastRow g.lines) 0 0) <;> rfl
      | some off =>
        simp only []
        cases Buffer.relLoop2 cols (List.drop (Buffer.relLoop1 pos.2 (List.take lastRow g.lines) 0 0) g.lines) pos.1
          (Buffer.relLoop1 pos.2 (List.take lastRow g.lines) 0 0) <;> rfl
/-! ### `Reflow::next`, `reflow` -/

/-- one iteration of the generated `while let` once the current line has been picked (`k`: remaining fuel) -/
def loopBody (k cols : Nat) (line : Line) (iter : List Line) :
    Option (GenB.Reflow × Option (Option Line)) :=
  if cols < line.len then
    some (⟨iter, cols, (line.contract cols).2⟩, some (some (line.contract cols).1))
  else if cols = line.len then
    some (⟨iter, cols, none⟩, some (some line))
  else
    match iter with
    | nx :: iter' =>
      match line.extend nx cols with
      | none => none
      | some (l', true, some r) => some (⟨iter', cols, some r⟩, some (some l'))
      | some (l', true, none) => some (⟨iter', cols, none⟩, some (some l'))
      | some (l', false, _) => GenB.Reflow.next.loop1 k ⟨iter', cols, some l'⟩
    | [] =>
      match line.expand cols Pen.default with
      | none => none
      | some l' => some (⟨[], cols, none⟩, some (some { l' with wrapped := false }))

theorem loop_some (k cols : Nat) (l : Line) (iter : List Line) :
    GenB.Reflow.next.loop1 (k + 1) ⟨iter, cols, some l⟩ = loopBody k cols l iter := by
  simp only [GenB.Reflow.next.loop1, loopBody, GenEqLine.len_eq, GenEqLine.contract_eq, GenEqLine.extend_eq,
    GenEqLine.expand_eq, GenEqLine.penDefault_eq, Option.isNone_some, Bool.false_eq_true, if_false]
  by_cases h1 : cols < l.len
  · simp only [h1, if_true]
  · simp only [h1, if_false]
    by_cases h2 : cols = l.len
    · simp only [h2, if_true]
    · simp only [h2, if_false]
      cases iter with
      | nil =>
        simp only [List.head?_nil, List.tail_nil]
        cases Line.expand l cols Pen.default <;> rfl
      | cons nx iter' =>
        simp only [List.head?_cons, List.tail_cons]
        cases hx : Line.extend l nx cols with
        | none => rfl
        | some t =>
          obtain ⟨l', e, r⟩ := t
          cases e <;> cases r <;> rfl

theorem loop_none_cons (k cols : Nat) (l : Line) (ls : List Line) :
    GenB.Reflow.next.loop1 (k + 1) ⟨l :: ls, cols, none⟩ = loopBody k cols l ls := by
  have := loop_some k cols l ls
  simp only [GenB.Reflow.next.loop1, Option.isNone_none, if_true, List.head?_cons, List.tail_cons,
    Option.isNone_some, Bool.false_eq_true, if_false] at this ⊢
  exact this

theorem loop_none_nil (k cols : Nat) :
    GenB.Reflow.next.loop1 (k + 1) ⟨[], cols, none⟩ = some (⟨[], cols, none⟩, none) := by
  simp only [GenB.Reflow.next.loop1, Option.isNone_none, if_true, List.head?_nil, List.tail_nil]

/-- more fuel than remaining input lines changes nothing: every iteration that continues consumes a line -/
theorem loop_mono (cols : Nat) : ∀ (k : Nat) (iter : List Line) (rest : Option Line), iter.length < k →
    GenB.Reflow.next.loop1 (k + 1) ⟨iter, cols, rest⟩ = GenB.Reflow.next.loop1 k ⟨iter, cols, rest⟩ := by
  intro k
  induction k with
  | zero => intro iter rest h; omega
  | succ k ih =>
    intro iter rest h
    have body : ∀ (l : Line) (it : List Line), it.length < k + 1 → loopBody (k + 1) cols l it = loopBody k cols l it := by
      intro l it hit
      unfold loopBody
      cases it with
      | nil => rfl
      | cons nx it' =>
        simp only
        by_cases h1 : cols < l.len
        · simp only [h1, if_true]
        · by_cases h2 : cols = l.len
          · simp only [h1, h2, if_true, if_false]
          · simp only [h1, h2, if_false]
            cases hx : Line.extend l nx cols with
            | none => rfl
            | some t =>
              obtain ⟨l', e, r⟩ := t
              cases e
              · simp only []
                exact ih it' (some l') (by simp at hit; omega)
              · cases r <;> rfl
    cases rest with
    | some l => rw [loop_some, loop_some]; exact body l iter h
    | none =>
      cases iter with
      | nil => rw [loop_none_nil, loop_none_nil]
      | cons l ls => rw [loop_none_cons, loop_none_cons]; exact body l ls (by simp at h; omega)

theorem loop_any (cols : Nat) (iter : List Line) (rest : Option Line) (k : Nat) (h : iter.length < k) :
    GenB.Reflow.next.loop1 k ⟨iter, cols, rest⟩ = GenB.Reflow.next.loop1 (iter.length + 1) ⟨iter, cols, rest⟩ := by
  induction k with
  | zero => omega
  | succ k ih =>
    by_cases hk : iter.length < k
    · rw [loop_mono cols k iter rest hk]; exact ih hk
    · have : k = iter.length := by omega
      rw [this]

/-- the part of the generated `next` after the loop -/
def post (r : Option (GenB.Reflow × Option (Option Line))) : Option (GenB.Reflow × Option Line) :=
  match r with
  | none => none
  | some rx1 =>
    match rx1 with
    | (s, some x1) => some (s, x1)
    | (s, none) =>
      let x2 := s.rest
      let s := { s with rest := none }
      match x2 with
      | none => some (s, none)
      | some line =>
        match GenL.expand line s.cols GenT.Pen.default with
        | none => none
        | some x3 =>
          let line := x3
          let line := { line with wrapped := false }
          some (s, some line)

theorem next_shape (s : GenB.Reflow) :
    GenB.Reflow.next s = post (GenB.Reflow.next.loop1 (s.iter.length + 1) s) := rfl

/-- `next` once the current line has been picked -/
def nextBody (cols : Nat) (line : Line) (iter : List Line) : Option (GenB.Reflow × Option Line) :=
  if cols < line.len then
    some (⟨iter, cols, (line.contract cols).2⟩, some (line.contract cols).1)
  else if cols = line.len then
    some (⟨iter, cols, none⟩, some line)
  else
    match iter with
    | nx :: iter' =>
      match line.extend nx cols with
      | none => none
      | some (l', true, some r) => some (⟨iter', cols, some r⟩, some l')
      | some (l', true, none) => some (⟨iter', cols, none⟩, some l')
      | some (l', false, _) => GenB.Reflow.next ⟨iter', cols, some l'⟩
    | [] =>
      match line.expand cols Pen.default with
      | none => none
      | some l' => some (⟨[], cols, none⟩, some { l' with wrapped := false })

theorem post_loopBody (k cols : Nat) (l : Line) (iter : List Line) (hk : iter.length ≤ k) :
    post (loopBody k cols l iter) = nextBody cols l iter := by
  unfold loopBody nextBody
  by_cases h1 : cols < l.len
  · simp only [h1, if_true]; rfl
  · by_cases h2 : cols = l.len
    · simp only [h1, if_false]; simp only [if_pos h2]; rfl
    · simp only [h1, h2, if_false]
      cases iter with
      | nil =>
        simp only
        cases Line.expand l cols Pen.default <;> rfl
      | cons nx iter' =>
        simp only
        cases hx : Line.extend l nx cols with
        | none => rfl
        | some t =>
          obtain ⟨l', e, r⟩ := t
          cases e
          · simp only []
            rw [next_shape, loop_any cols iter' (some l') k (by simp at hk; omega)]
          · cases r <;> rfl

theorem next_some (cols : Nat) (l : Line) (iter : List Line) :
    GenB.Reflow.next ⟨iter, cols, some l⟩ = nextBody cols l iter := by
  rw [next_shape]
  simp only []
  rw [loop_some]
  exact post_loopBody _ _ _ _ (by omega)

theorem next_none_cons (cols : Nat) (l : Line) (ls : List Line) :
    GenB.Reflow.next ⟨l :: ls, cols, none⟩ = nextBody cols l ls := by
  rw [next_shape]
  simp only [List.length_cons]
  rw [loop_none_cons]
  exact post_loopBody _ _ _ _ (by omega)

theorem next_none_nil (cols : Nat) :
    GenB.Reflow.next ⟨[], cols, none⟩ = some (⟨[], cols, none⟩, none) := by
  rw [next_shape]
  simp only [List.length_nil]
  rw [loop_none_nil]
  rfl

theorem collect_succ (G : Nat) (s : GenB.Reflow) :
    GenB.Reflow.collect (G + 1) s =
      (match GenB.Reflow.next s with
       | none => none
       | some (_, none) => some []
       | some (s', some x) => (GenB.Reflow.collect G s').map (x :: ·)) := by
  rw [GenB.Reflow.collect]
  cases GenB.Reflow.next s with
  | none => rfl
  | some t =>
    obtain ⟨s', o⟩ := t
    cases o with
    | none => rfl
    | some x => simp only []; cases GenB.Reflow.collect G s' <;> rfl

/-- `collect` once the current line has been picked: the generated counterpart of `Buffer.reflowBody` -/
def genBody (G cols : Nat) (line : Line) (iter : List Line) : Option (List Line) :=
  if cols < line.len then
    (GenB.Reflow.collect G ⟨iter, cols, (line.contract cols).2⟩).map fun out => (line.contract cols).1 :: out
  else if cols = line.len then
    (GenB.Reflow.collect G ⟨iter, cols, none⟩).map fun out => line :: out
  else
    match iter with
    | nx :: iter' =>
      match line.extend nx cols with
      | none => none
      | some (l', true, some r) => (GenB.Reflow.collect G ⟨iter', cols, some r⟩).map fun out => l' :: out
      | some (l', true, none) => (GenB.Reflow.collect G ⟨iter', cols, none⟩).map fun out => l' :: out
      | some (l', false, _) => GenB.Reflow.collect (G + 1) ⟨iter', cols, some l'⟩
    | [] =>
      match line.expand cols Pen.default with
      | none => none
      | some l' => (GenB.Reflow.collect G ⟨[], cols, none⟩).map fun out => { l' with wrapped := false } :: out

theorem collect_nextBody (G cols : Nat) (l : Line) (iter : List Line) :
    (match nextBody cols l iter with
     | none => none
     | some (_, none) => some []
     | some (s', some x) => (GenB.Reflow.collect G s').map (x :: ·)) = genBody G cols l iter := by
  unfold nextBody genBody
  by_cases h1 : cols < l.len
  · simp only [h1, if_true]
  · by_cases h2 : cols = l.len
    · simp only [h1, if_false]; simp only [if_pos h2]
    · simp only [h1, h2, if_false]
      cases iter with
      | nil =>
        simp only
        cases Line.expand l cols Pen.default <;> rfl
      | cons nx iter' =>
        simp only
        cases hx : Line.extend l nx cols with
        | none => rfl
        | some t =>
          obtain ⟨l', e, r⟩ := t
          cases e
          · simp only []
            rw [collect_succ]
          · cases r <;> rfl

theorem collect_some (G cols : Nat) (l : Line) (iter : List Line) :
    GenB.Reflow.collect (G + 1) ⟨iter, cols, some l⟩ = genBody G cols l iter := by
  rw [collect_succ, next_some]; exact collect_nextBody G cols l iter

theorem collect_none_cons (G cols : Nat) (l : Line) (ls : List Line) :
    GenB.Reflow.collect (G + 1) ⟨l :: ls, cols, none⟩ = genBody G cols l ls := by
  rw [collect_succ, next_none_cons]; exact collect_nextBody G cols l ls

theorem collect_none_nil (G cols : Nat) : GenB.Reflow.collect (G + 1) ⟨[], cols, none⟩ = some [] := by
  rw [collect_succ, next_none_nil]

open Buffer in
/-- the generated two-level loop (`collect` calling `next`) and the model's fused loop agree whenever both
    have more fuel than the potential `rmu` of the iterator state -/
theorem collect_eq (cols : Nat) (hc : 1 ≤ cols) :
    ∀ (F : Nat) (rest : Option Line) (iter : List Line) (G : Nat), rmu rest iter < F → rmu rest iter < G →
      GenB.Reflow.collect G ⟨iter, cols, rest⟩ = reflowGo cols F rest iter := by
  intro F
  induction F with
  | zero => intro rest iter G h; omega
  | succ F IH =>
    intro rest iter G hF hG
    obtain ⟨G, rfl⟩ : ∃ G', G = G' + 1 := ⟨G - 1, by omega⟩
    have body : ∀ (l : Line) (it : List Line), l.len + rmu none it < F → l.len + rmu none it < G →
        genBody G cols l it = reflowBody cols F l it := by
      intro l it hmF hmG
      unfold genBody reflowBody
      by_cases h1 : cols < l.len
      · simp only [h1, if_true]
        have hs := Line.contract_spec l cols h1
        generalize l.contract cols = pr at hs
        obtain ⟨line', rest'⟩ := pr
        simp only at hs ⊢
        cases rest' with
        | none => rw [IH none it G (by simp only [rmu] at *; omega) (by simp only [rmu] at *; omega)]
        | some r =>
          obtain ⟨_, _, hrl, _⟩ := hs
          rw [IH (some r) it G (by simp only [rmu] at *; omega) (by simp only [rmu] at *; omega)]
      · by_cases h2 : cols = l.len
        · simp only [h1, if_false]; simp only [if_pos h2]
          rw [IH none it G (by simp only [rmu] at *; omega) (by simp only [rmu] at *; omega)]
        · simp only [h1, h2, if_false]
          have h3 : l.len < cols := by omega
          cases it with
          | nil =>
            simp only
            cases Line.expand l cols Pen.default with
            | none => rfl
            | some l' =>
              simp only []
              rw [IH none [] G (by simp only [rmu] at *; omega) (by simp only [rmu] at *; omega)]
          | cons nx it' =>
            simp only
            obtain ⟨l', e, r, hex, hcases⟩ := Line.extend_spec l nx cols h3
            simp only [hex]
            rcases hcases with ⟨r', rfl, rfl, hl, hrw, hrl⟩ | ⟨rfl, rfl, hl, hw⟩ | ⟨rfl, hw, how, hl⟩
            · simp only
              rw [IH (some r') it' G
                (by simp only [rmu, List.map_cons, List.sum_cons, List.length_cons] at *; omega)
                (by simp only [rmu, List.map_cons, List.sum_cons, List.length_cons] at *; omega)]
            · simp only
              rw [IH none it' G
                (by simp only [rmu, List.map_cons, List.sum_cons, List.length_cons] at *; omega)
                (by simp only [rmu, List.map_cons, List.sum_cons, List.length_cons] at *; omega)]
            · simp only
              exact IH (some l') it' (G + 1)
                (by simp only [rmu, List.map_cons, List.sum_cons, List.length_cons] at *; omega)
                (by simp only [rmu, List.map_cons, List.sum_cons, List.length_cons] at *; omega)
    cases rest with
    | some l =>
      rw [collect_some, reflowGo_some]
      exact body l iter (by simp only [rmu] at *; omega) (by simp only [rmu] at *; omega)
    | none =>
      cases iter with
      | nil => rw [collect_none_nil, reflowGo_none_nil]
      | cons l ls =>
        rw [collect_none_cons, reflowGo_none_cons]
        exact body l ls (by simp only [rmu, List.map_cons, List.sum_cons, List.length_cons] at *; omega)
          (by simp only [rmu, List.map_cons, List.sum_cons, List.length_cons] at *; omega)

/-- `reflow(iter, cols)` including the final `assert!`, for every `cols ≥ 1` (the API's precondition; for
    `cols = 0` the model rejects the call while the Rust iterator does not terminate on non-empty lines) -/
theorem reflow_eq (iter : List Line) (cols : Nat) (hc : 1 ≤ cols) :
    GenB.reflow iter cols = Buffer.reflow iter cols := by
  unfold GenB.reflow Buffer.reflow
  have h0 : ¬ cols = 0 := by omega
  simp only [h0, if_false]
  rw [collect_eq cols hc (Buffer.reflowFuel iter) none iter (Buffer.reflowFuel iter)
    (Buffer.reflowFuel_gt iter) (Buffer.reflowFuel_gt iter)]
  cases Buffer.reflowGo cols (Buffer.reflowFuel iter) none iter with
  | none => rfl
  | some out =>
    have e : (fun l : Line => decide (GenL.len l = cols)) = (fun l : Line => l.len == cols) := by
      funext l; exact GenEq.dec_beq _ _
    simp only [e]


/-- `self.lines.last_mut().unwrap().wrapped = false` -/
theorem setLast_eq (ls : List Line) :
    (match csub ls.length 1 with
     | none => none
     | some i =>
       match ls[i]? with
       | none => none
       | some x => some (ls.set i { x with wrapped := false })) = Buffer.setLastUnwrapped ls := by
  induction ls with
  | nil => rfl
  | cons a t ih =>
    cases t with
    | nil => rfl
    | cons b t' =>
      simp only [Buffer.setLastUnwrapped]
      rw [← ih]
      simp only [List.length_cons, csub]
      have h1 : 1 ≤ t'.length + 1 + 1 := by omega
      have h2 : 1 ≤ t'.length + 1 := by omega
      simp only [h1, h2, if_true]
      have e : t'.length + 1 + 1 - 1 = (t'.length + 1 - 1) + 1 := by omega
      rw [e, List.getElem?_cons_succ]
      cases (b :: t')[t'.length + 1 - 1]? with
      | none => rfl
      | some x => simp only [List.set_cons_succ, Option.map_some]

/-- back from the Rust shape to the model's split at the view boundary (`none`: fewer lines than rows, where
    the next `view()` would panic) -/
def unjoin (g : GenB.Buffer) : Option Buffer :=
  (csub g.lines.length g.rows).map fun k =>
    { sb := g.lines.take k, view := g.lines.drop k, cols := g.cols, rows := g.rows, limit := g.scrollbackLimit,
      trimNeeded := g.trimNeeded }

theorem join_unjoin (g : GenB.Buffer) (b : Buffer) (h : unjoin g = some b) : join b = g := by
  unfold unjoin at h
  cases hk : csub g.lines.length g.rows with
  | none => simp [hk] at h
  | some k =>
    simp only [hk, Option.map_some, Option.some.injEq] at h
    subst h
    simp [join]

theorem unjoin_join (b : Buffer) (h : b.view.length = b.rows) : unjoin (join b) = some b := by
  simp only [unjoin, join_lines, join_rows, off_join _ _ _ h, Option.map_some, List.take_left', List.drop_left']
  simp [join]

/-! #### `Buffer::resize`: the width stage and the height stage, model side and generated side.  The four
definitions below are the texts of the corresponding parts of `Avt.Buffer.resize` (Model/Buffer.lean) and of the
generated `GenB.resize`; `resize_model_shape` / `resize_gen_shape` tie them to those definitions by `rfl`, so a
change of `Buffer::resize` in the Rust source is reported there. -/

def modA (lines : List Line) (cursor : Nat × Nat) (oldCols oldRows newCols : Nat) (logPos : Nat × Nat) :
    Option (List Line × (Nat × Nat) × Nat) :=
  if newCols ≠ oldCols then
    match Buffer.reflow lines newCols with
    | none => none
    | some ls =>
      let ls := if ls.length < oldRows
        then ls ++ List.replicate (oldRows - ls.length) (Line.blank newCols Pen.default) else ls
      match Buffer.relativePosition ls logPos newCols oldRows with
      | none => none
      | some (rc, rr) =>
        if rr ≥ 0 then some (ls, (rc, rr.toNat), oldRows)
        else some (ls, (rc, 0), oldRows + (-rr).toNat)
  else some (lines, cursor, oldRows)

def modB (lines : List Line) (cursor : Nat × Nat) (oldRows newRows newCols : Nat) :
    Option (List Line × (Nat × Nat)) :=
  let lineCount := lines.length
  if newRows < oldRows then
    let heightDelta := oldRows - newRows
    match csub oldRows 1 with
    | none => none
    | some o1 =>
      match csub o1 cursor.2 with
      | none => none
      | some inv =>
        let excess := min heightDelta inv
        let lines' : Option (List Line) :=
          if excess > 0 then
            match csub lineCount excess with
            | none => none
            | some k => Buffer.setLastUnwrapped (lines.take k)
          else some lines
        match lines', csub cursor.2 (heightDelta - excess) with
        | some ls, some row => some (ls, (cursor.1, row))
        | _, _ => none
  else if newRows > oldRows then
    let heightDelta := newRows - oldRows
    let sbSize := lineCount - min oldRows lineCount
    let shift := min sbSize heightDelta
    let heightDelta := heightDelta - shift
    let cursor := if cursor.2 < oldRows then (cursor.1, cursor.2 + shift) else cursor
    let lines := if heightDelta > 0
      then lines ++ List.replicate heightDelta (Line.blank newCols Pen.default) else lines
    some (lines, cursor)
  else some (lines, cursor)

theorem resize_model_shape (b : Buffer) (newCols newRows : Nat) (cursor : Nat × Nat) :
    b.resize newCols newRows cursor =
      (match Buffer.logicalPosition b.lines cursor b.cols b.rows with
       | none => none
       | some logPos =>
         match modA b.lines cursor b.cols b.rows newCols logPos with
         | none => none
         | some (lines, cursor, oldRows) =>
           match modB lines cursor oldRows newRows newCols with
           | none => none
           | some (lines, cursor) =>
             match csub lines.length newRows with
             | none => none
             | some k =>
               some ({ b with sb := lines.take k, view := lines.drop k, cols := newCols, rows := newRows,
                              trimNeeded := true }, cursor)) := rfl

def genA (b : GenB.Buffer) (cursor : Nat × Nat) (oldCols oldRows newCols : Nat) (cursorLogPos : Nat × Nat) :
    Option (GenB.Buffer × (Nat × Nat) × Nat) :=
  if newCols ≠ oldCols then
    let x2 := b.lines
    let b := { b with lines := [] }
    match GenB.reflow x2 newCols with
    | none => none
    | some x3 =>
      let b := { b with lines := x3 }
      let lineCount := b.lines.length
      let r1 :=
        if lineCount < oldRows then
          match csub oldRows lineCount with
          | none => none
          | some x4 =>
            some (GenB.extend b x4 newCols GenT.Pen.default)
        else
          some b
      match r1 with
      | none => none
      | some b =>
        match GenB.relativePosition b cursorLogPos newCols oldRows with
        | none => none
        | some x5 =>
          let cursorRelPos := x5
          let cursor := (cursorRelPos.1, cursor.2)
          if cursorRelPos.2 ≥ 0 then
            let cursor := (cursor.1, cursorRelPos.2.toNat)
            some (b, cursor, oldRows)
          else
            let cursor := (cursor.1, 0)
            let oldRows := oldRows + (Int.toNat (-cursorRelPos.2))
            some (b, cursor, oldRows)
  else
    some (b, cursor, oldRows)

def genB' (b : GenB.Buffer) (cursor : Nat × Nat) (oldRows newRows newCols : Nat) :
    Option (GenB.Buffer × (Nat × Nat)) :=
  let lineCount := b.lines.length
  if newRows < oldRows then
    match csub oldRows newRows with
    | none => none
    | some x6 =>
      let heightDelta := x6
      match csub oldRows 1 with
      | none => none
      | some x7 =>
        match csub x7 cursor.2 with
        | none => none
        | some x8 =>
          let invertedCursorRow := x8
          let excess := min heightDelta invertedCursorRow
          let r3 :=
            if excess > 0 then
              match csub lineCount excess with
              | none => none
              | some x9 =>
                let b := { b with lines := List.take x9 b.lines }
                match csub b.lines.length 1 with
                | none => none
                | some x10 =>
                  match b.lines[x10]? with
                  | none => none
                  | some x11 =>
                    some { b with lines := List.set b.lines x10 { x11 with wrapped := false } }
            else
              some b
          match r3 with
          | none => none
          | some b =>
            match csub heightDelta excess with
            | none => none
            | some x12 =>
              match csub cursor.2 x12 with
              | none => none
              | some x13 =>
                let cursor := (cursor.1, x13)
                some (b, cursor)
  else
    if newRows > oldRows then
      match csub newRows oldRows with
      | none => none
      | some x14 =>
        let heightDelta := x14
        match csub lineCount (min oldRows lineCount) with
        | none => none
        | some x15 =>
          let scrollbackSize := x15
          let cursorRowShift := min scrollbackSize heightDelta
          match csub heightDelta cursorRowShift with
          | none => none
          | some x16 =>
            let heightDelta := x16
            let cursor := if cursor.2 < oldRows then (cursor.1, cursor.2 + cursorRowShift) else cursor
            if heightDelta > 0 then
              let b := GenB.extend b heightDelta newCols GenT.Pen.default
              some (b, cursor)
            else
              some (b, cursor)
    else
      some (b, cursor)

theorem resize_gen_shape (g : GenB.Buffer) (newCols newRows : Nat) (cursor : Nat × Nat) :
    GenB.resize g newCols newRows cursor =
      (match GenB.logicalPosition g cursor g.cols g.rows with
       | none => none
       | some x1 =>
         match genA g cursor g.cols g.rows newCols x1 with
         | none => none
         | some (b, cursor, oldRows) =>
           match genB' b cursor oldRows newRows newCols with
           | none => none
           | some (b, cursor) =>
             let b := { b with cols := newCols }
             let b := { b with rows := newRows }
             let b := { b with trimNeeded := true }
             some (b, cursor)) := rfl

/-- width stage: reflow, padding, cursor translation -/
theorem genA_eq (g : GenB.Buffer) (cursor : Nat × Nat) (oldCols oldRows newCols : Nat) (lp : Nat × Nat)
    (hc : 1 ≤ newCols) :
    genA g cursor oldCols oldRows newCols lp =
      (modA g.lines cursor oldCols oldRows newCols lp).map fun r => ({ g with lines := r.1 }, r.2.1, r.2.2) := by
  unfold genA modA
  by_cases h : newCols ≠ oldCols
  · rw [if_pos h, if_pos h]
    simp only [reflow_eq _ _ hc]
    cases Buffer.reflow g.lines newCols with
    | none => rfl
    | some ls =>
      simp only []
      by_cases hl : ls.length < oldRows
      · simp only [hl, if_true, csub_eq_some (Nat.le_of_lt hl), GenB.extend, GenEqLine.blank_eq,
          GenEqLine.penDefault_eq, relativePosition_eq]
        cases Buffer.relativePosition (ls ++ List.replicate (oldRows - ls.length) (Line.blank newCols Pen.default))
            lp newCols oldRows with
        | none => rfl
        | some r =>
          obtain ⟨rc, rr⟩ := r
          simp only []
          by_cases hr : rr ≥ 0 <;> simp [hr]
      · simp only [hl, if_false, relativePosition_eq]
        cases Buffer.relativePosition ls lp newCols oldRows with
        | none => rfl
        | some r =>
          obtain ⟨rc, rr⟩ := r
          simp only []
          by_cases hr : rr ≥ 0 <;> simp [hr]
  · rw [if_neg h, if_neg h]; rfl

/-- height stage -/
theorem genB_eq (g : GenB.Buffer) (cursor : Nat × Nat) (oldRows newRows newCols : Nat) :
    genB' g cursor oldRows newRows newCols =
      (modB g.lines cursor oldRows newRows newCols).map fun r => ({ g with lines := r.1 }, r.2) := by
  unfold genB' modB
  by_cases h1 : newRows < oldRows
  · simp only [h1, if_true, csub_eq_some (Nat.le_of_lt h1)]
    cases csub oldRows 1 with
    | none => rfl
    | some o1 =>
      simp only []
      cases csub o1 cursor.2 with
      | none => rfl
      | some inv =>
        simp only [csub_eq_some (Nat.min_le_left (oldRows - newRows) inv)]
        by_cases he : min (oldRows - newRows) inv > 0
        · simp only [he, if_true]
          cases hk : csub g.lines.length (min (oldRows - newRows) inv) with
          | none => rfl
          | some k =>
            simp only []
            rw [← setLast_eq]
            cases csub (List.take k g.lines).length 1 with
            | none => rfl
            | some i =>
              simp only []
              cases (List.take k g.lines)[i]? with
              | none => rfl
              | some x =>
                simp only []
                cases csub cursor.2 (oldRows - newRows - min (oldRows - newRows) inv) <;> rfl
        · simp only [he, if_false]
          cases csub cursor.2 (oldRows - newRows - min (oldRows - newRows) inv) <;> rfl
  · by_cases h2 : newRows > oldRows
    · simp only [h1, h2, if_true, if_false, csub_eq_some (Nat.le_of_lt h2),
        csub_eq_some (Nat.min_le_right oldRows g.lines.length),
        csub_eq_some (Nat.min_le_right (g.lines.length - min oldRows g.lines.length) (newRows - oldRows)),
        GenB.extend, GenEqLine.blank_eq, GenEqLine.penDefault_eq]
      split <;> rfl
    · simp only [h1, h2, if_false, Option.map_some]

theorem resize_sim (b : Buffer) (newCols newRows : Nat) (cursor : Nat × Nat) (hc : 1 ≤ newCols) :
    b.resize newCols newRows cursor =
      (GenB.resize (join b) newCols newRows cursor).bind fun r => (unjoin r.1).map fun b' => (b', r.2) := by
  rw [resize_model_shape, resize_gen_shape]
  simp only [logicalPosition_eq, join_lines, join_cols, join_rows, Buffer.lines]
  cases Buffer.logicalPosition (b.sb ++ b.view) cursor b.cols b.rows with
  | none => rfl
  | some lp =>
    simp only [genA_eq _ _ _ _ _ _ hc, join_lines]
    cases modA (b.sb ++ b.view) cursor b.cols b.rows newCols lp with
    | none => rfl
    | some r =>
      obtain ⟨lines, cur, oldRows⟩ := r
      simp only [Option.map_some, genB_eq]
      cases modB lines cur oldRows newRows newCols with
      | none => rfl
      | some r2 =>
        obtain ⟨lines2, cur2⟩ := r2
        simp only [Option.map_some, Option.bind_some, unjoin]
        cases csub lines2.length newRows <;> rfl

/-- whenever the model's `resize` succeeds, the generated one returns the joined result -/
theorem resize_sim_some (b b' : Buffer) (newCols newRows : Nat) (cursor c' : Nat × Nat) (hc : 1 ≤ newCols)
    (h : b.resize newCols newRows cursor = some (b', c')) :
    GenB.resize (join b) newCols newRows cursor = some (join b', c') := by
  rw [resize_sim b newCols newRows cursor hc] at h
  cases hg : GenB.resize (join b) newCols newRows cursor with
  | none => simp [hg] at h
  | some r =>
    obtain ⟨g, c⟩ := r
    simp only [hg, Option.bind_some] at h
    cases hu : unjoin g with
    | none => simp [hu] at h
    | some b2 =>
      simp only [hu, Option.map_some, Option.some.injEq, Prod.mk.injEq] at h
      obtain ⟨rfl, rfl⟩ := h
      rw [join_unjoin g b2 hu]

/-- the generated `resize` panics only where the model does; where it succeeds, the model differs from it only by
    rejecting a result with fewer lines than `new_rows` -/
theorem resize_none (b : Buffer) (newCols newRows : Nat) (cursor : Nat × Nat) (hc : 1 ≤ newCols)
    (h : GenB.resize (join b) newCols newRows cursor = none) : b.resize newCols newRows cursor = none := by
  rw [resize_sim b newCols newRows cursor hc, h]; rfl

theorem resize_model_none_iff (b : Buffer) (newCols newRows : Nat) (cursor c' : Nat × Nat) (g : GenB.Buffer)
    (hc : 1 ≤ newCols) (h : GenB.resize (join b) newCols newRows cursor = some (g, c')) :
    b.resize newCols newRows cursor = none ↔ g.lines.length < g.rows := by
  rw [resize_sim b newCols newRows cursor hc, h]
  simp only [Option.bind_some, unjoin, csub]
  by_cases hl : g.rows ≤ g.lines.length
  · simp [hl]
  · simp [hl]; omega

/-! ### coverage -/

/-- the functions of buffer.rs with a theorem here: `relativePosition_eq`; `resize_sim`; `reflow_eq`;
    `next_some` / `next_none_cons` / `next_none_nil` (`Reflow::next`, whose model counterpart is one step of the
    fused `reflowGo`) -/
def provedFunctions : List String :=
  ["Buffer::resize", "Buffer::relative_position", "reflow", "Reflow::next"]

/-- `Buffer::dump`, `Buffer::rep_encode_cell_text`: string formatting, out of scope -/
def untranslatedFunctions : List String := ["Buffer::dump", "Buffer::rep_encode_cell_text"]

/-- every function the translator emitted for buffer.rs (in source order) has its theorem in GenEqBuffer.lean or in
    this file (a new or newly translatable Rust function shows up as a failure) -/
theorem coverage_complete :
    GenB.translated =
      ["Buffer::new", "Buffer::text", "Buffer::print", "Buffer::wrap", "Buffer::insert", "Buffer::delete",
       "Buffer::erase", "Buffer::scroll_up", "Buffer::scroll_down", "Buffer::resize", "Buffer::logical_position",
       "Buffer::relative_position", "Buffer::view", "Buffer::lines", "Buffer::gc", "Buffer::clear",
       "Buffer::extend", "Buffer::trim_scrollback", "reflow", "Reflow::next"]
    ∧ GenB.translated.all (fun f => GenEqBuffer.provedFunctions.contains f || provedFunctions.contains f) = true := by
  decide

theorem untranslated_as_expected : GenB.untranslated.length = untranslatedFunctions.length := by decide

end Avt.GenEqReflow
