/-
  Avt.Lemmas.C16Geo — no `Function` changes the size of the terminal (`cols`, `rows`), the `xtwinops`
  switch or the scrollback limit, as long as `xtwinops` is off (it always is: `TInv`).
  Same proof scheme as Avt.Lemmas.C16Frame.
-/
import Avt.Lemmas.C16Frame

namespace Avt.C16
open Avt

/-- size and configuration -/
def geo (t : Terminal) : Nat × Nat × Bool × Option Nat := (t.cols, t.rows, t.xtwinops, t.scrollbackLimit)

set_option hygiene false in
macro "geo_auto" : tactic => `(tactic| (
  fr_split
  all_goals (try (obtain ⟨_, _, rfl⟩ := h))
  all_goals (try subst h)
  all_goals grind [geo, Terminal.doMoveCursorToCol, Terminal.restoreCursor, Terminal.setTab, Terminal.clearTab,
    Terminal.clearAllTabs]))

theorem geo_saveCursor {t t' : Terminal} (h : t.saveCursor = some t') : geo t' = geo t := by
  unfold Terminal.saveCursor at h; geo_auto
grind_pattern geo_saveCursor => t.saveCursor, some t'

theorem geo_moveCursorToCol {t t' : Terminal} {k} (h : t.moveCursorToCol k = some t') : geo t' = geo t := by
  unfold Terminal.moveCursorToCol at h; geo_auto
grind_pattern geo_moveCursorToCol => t.moveCursorToCol k, some t'

theorem geo_doMoveCursorToRow {t t' : Terminal} {k} (h : t.doMoveCursorToRow k = some t') : geo t' = geo t := by
  unfold Terminal.doMoveCursorToRow at h; geo_auto
grind_pattern geo_doMoveCursorToRow => t.doMoveCursorToRow k, some t'

theorem geo_moveCursorToRelCol {t t' : Terminal} {k} (h : t.moveCursorToRelCol k = some t') : geo t' = geo t := by
  unfold Terminal.moveCursorToRelCol at h; geo_auto
grind_pattern geo_moveCursorToRelCol => t.moveCursorToRelCol k, some t'

theorem geo_markDirty {t t' : Terminal} {k} (h : t.markDirty k = some t') : geo t' = geo t := by
  unfold Terminal.markDirty at h; geo_auto
grind_pattern geo_markDirty => t.markDirty k, some t'

theorem geo_markDirtyRange {t t' : Terminal} {a b} (h : t.markDirtyRange a b = some t') : geo t' = geo t := by
  unfold Terminal.markDirtyRange at h; geo_auto
grind_pattern geo_markDirtyRange => t.markDirtyRange a b, some t'

theorem geo_scrollUpInRegion {t t' : Terminal} {n} (h : t.scrollUpInRegion n = some t') : geo t' = geo t := by
  unfold Terminal.scrollUpInRegion at h; geo_auto
grind_pattern geo_scrollUpInRegion => t.scrollUpInRegion n, some t'

theorem geo_scrollDownInRegion {t t' : Terminal} {n} (h : t.scrollDownInRegion n = some t') : geo t' = geo t := by
  unfold Terminal.scrollDownInRegion at h; geo_auto
grind_pattern geo_scrollDownInRegion => t.scrollDownInRegion n, some t'

theorem geo_softReset {t t' : Terminal} (h : t.softReset = some t') : geo t' = geo t := by
  unfold Terminal.softReset at h; geo_auto
grind_pattern geo_softReset => t.softReset, some t'

theorem geo_eraseWith {t t' : Terminal} {m} (h : t.eraseWith m = some t') : geo t' = geo t := by
  unfold Terminal.eraseWith at h; geo_auto
grind_pattern geo_eraseWith => t.eraseWith m, some t'

theorem geo_moveCursorToRow {t t' : Terminal} {k} (h : t.moveCursorToRow k = some t') : geo t' = geo t := by
  unfold Terminal.moveCursorToRow at h; geo_auto
grind_pattern geo_moveCursorToRow => t.moveCursorToRow k, some t'

theorem geo_moveCursorHome {t t' : Terminal} (h : t.moveCursorHome = some t') : geo t' = geo t := by
  unfold Terminal.moveCursorHome at h; geo_auto
grind_pattern geo_moveCursorHome => t.moveCursorHome, some t'

theorem geo_moveCursorToNextTab {t t' : Terminal} {n} (h : t.moveCursorToNextTab n = some t') : geo t' = geo t := by
  unfold Terminal.moveCursorToNextTab at h; geo_auto
grind_pattern geo_moveCursorToNextTab => t.moveCursorToNextTab n, some t'

theorem geo_moveCursorToPrevTab {t t' : Terminal} {n} (h : t.moveCursorToPrevTab n = some t') : geo t' = geo t := by
  unfold Terminal.moveCursorToPrevTab at h; geo_auto
grind_pattern geo_moveCursorToPrevTab => t.moveCursorToPrevTab n, some t'

theorem geo_moveCursorDownWithScroll {t t' : Terminal} (h : t.moveCursorDownWithScroll = some t') : geo t' = geo t := by
  unfold Terminal.moveCursorDownWithScroll at h; geo_auto
grind_pattern geo_moveCursorDownWithScroll => t.moveCursorDownWithScroll, some t'

theorem geo_cursorDown {t t' : Terminal} {n} (h : t.cursorDown n = some t') : geo t' = geo t := by
  unfold Terminal.cursorDown at h; geo_auto
grind_pattern geo_cursorDown => t.cursorDown n, some t'

theorem geo_cursorUp {t t' : Terminal} {n} (h : t.cursorUp n = some t') : geo t' = geo t := by
  unfold Terminal.cursorUp at h; geo_auto
grind_pattern geo_cursorUp => t.cursorUp n, some t'

theorem geo_bs {t t' : Terminal} (h : t.bs = some t') : geo t' = geo t := by
  unfold Terminal.bs at h; geo_auto
grind_pattern geo_bs => t.bs, some t'

theorem geo_lf {t t' : Terminal} (h : t.lf = some t') : geo t' = geo t := by
  unfold Terminal.lf at h; geo_auto
grind_pattern geo_lf => t.lf, some t'

theorem geo_nel {t t' : Terminal} (h : t.nel = some t') : geo t' = geo t := by
  unfold Terminal.nel at h; geo_auto
grind_pattern geo_nel => t.nel, some t'

theorem geo_ri {t t' : Terminal} (h : t.ri = some t') : geo t' = geo t := by
  unfold Terminal.ri at h; geo_auto
grind_pattern geo_ri => t.ri, some t'

theorem geo_ich {t t' : Terminal} {n} (h : t.ich n = some t') : geo t' = geo t := by
  unfold Terminal.ich at h; geo_auto
grind_pattern geo_ich => t.ich n, some t'

theorem geo_cub {t t' : Terminal} {n} (h : t.cub n = some t') : geo t' = geo t := by
  unfold Terminal.cub at h; geo_auto
grind_pattern geo_cub => t.cub n, some t'

theorem geo_cup {t t' : Terminal} {a b} (h : t.cup a b = some t') : geo t' = geo t := by
  unfold Terminal.cup at h; geo_auto
grind_pattern geo_cup => t.cup a b, some t'

theorem geo_ed {t t' : Terminal} {s} (h : t.ed s = some t') : geo t' = geo t := by
  unfold Terminal.ed at h; geo_auto
grind_pattern geo_ed => t.ed s, some t'

theorem geo_el {t t' : Terminal} {s} (h : t.el s = some t') : geo t' = geo t := by
  unfold Terminal.el at h; geo_auto
grind_pattern geo_el => t.el s, some t'

theorem geo_il {t t' : Terminal} {n} (h : t.il n = some t') : geo t' = geo t := by
  unfold Terminal.il at h; geo_auto
grind_pattern geo_il => t.il n, some t'

theorem geo_dl {t t' : Terminal} {n} (h : t.dl n = some t') : geo t' = geo t := by
  unfold Terminal.dl at h; geo_auto
grind_pattern geo_dl => t.dl n, some t'

theorem geo_dch {t t' : Terminal} {n} (h : t.dch n = some t') : geo t' = geo t := by
  unfold Terminal.dch at h; geo_auto
grind_pattern geo_dch => t.dch n, some t'

theorem geo_ech {t t' : Terminal} {n} (h : t.ech n = some t') : geo t' = geo t := by
  unfold Terminal.ech at h; geo_auto
grind_pattern geo_ech => t.ech n, some t'

theorem geo_decstbm {t t' : Terminal} {a b} (h : t.decstbm a b = some t') : geo t' = geo t := by
  unfold Terminal.decstbm at h; geo_auto
grind_pattern geo_decstbm => t.decstbm a b, some t'

theorem geo_printWrap {t t' : Terminal} (h : t.c15Wrap = some t') : geo t' = geo t := by
  unfold Terminal.c15Wrap at h; geo_auto
grind_pattern geo_printWrap => t.c15Wrap, some t'

theorem geo_printPut {t t' : Terminal} {cell} (h : t.c15Put cell = some t') : geo t' = geo t := by
  unfold Terminal.c15Put at h; geo_auto
grind_pattern geo_printPut => t.c15Put cell, some t'

theorem geo_ctc {t : Terminal} {op} : geo (t.ctc op) = geo t := by
  cases op <;> simp only [Terminal.ctc, Terminal.setTab, Terminal.clearTab, Terminal.clearAllTabs] <;> (try split) <;> rfl

theorem geo_tbc {t : Terminal} {s} : geo (t.tbc s) = geo t := by
  cases s <;> rfl

theorem geo_sm {ms : List AnsiMode} {t : Terminal} : geo (t.sm ms) = geo t := by
  unfold Terminal.sm
  induction ms generalizing t with
  | nil => rfl
  | cons m ms ih => cases m <;> exact ih

theorem geo_rm {ms : List AnsiMode} {t : Terminal} : geo (t.rm ms) = geo t := by
  unfold Terminal.rm
  induction ms generalizing t with
  | nil => rfl
  | cons m ms ih => cases m <;> exact ih

theorem geo_decalnRows {k : Nat} {t t' : Terminal} {row} (h : Terminal.decalnRows t row k = some t') :
    geo t' = geo t := by
  induction k generalizing t row with
  | zero => simp only [Terminal.decalnRows, Option.some.injEq] at h; subst h; rfl
  | succ k ih =>
    unfold Terminal.decalnRows at h
    split at h
    · simp at h
    · split at h
      · simp at h
      · rename_i hm
        have := geo_markDirty hm
        exact (ih h).trans this

theorem geo_decaln {t t' : Terminal} (h : t.decaln = some t') : geo t' = geo t := geo_decalnRows h
grind_pattern geo_decaln => t.decaln, some t'

theorem geo_print {t t' : Terminal} {ch} (h : t.print ch = some t') : geo t' = geo t := by
  rw [Terminal.c15_print_eq] at h; geo_auto
grind_pattern geo_print => t.print ch, some t'

theorem geo_printN {k : Nat} {t t' : Terminal} {ch} (h : t.printN ch k = some t') : geo t' = geo t := by
  induction k generalizing t with
  | zero => simp only [Terminal.printN, Option.some.injEq] at h; subst h; rfl
  | succ k ih =>
    unfold Terminal.printN at h
    split at h
    · simp at h
    · rename_i hp
      exact (ih h).trans (geo_print hp)

theorem geo_rep {t t' : Terminal} {n} (h : t.rep n = some t') : geo t' = geo t := by
  unfold Terminal.rep at h
  fr_split
  · exact geo_printN h
  · subst h; rfl
grind_pattern geo_rep => t.rep n, some t'

theorem geo_clampCol {t2 t3 : Terminal}
    (h3 : (if t2.savedCtx.cursorCol ≥ t2.cols
             then (csub t2.cols 1).map fun c1 => { t2 with savedCtx := { t2.savedCtx with cursorCol := c1 } }
             else some t2) = some t3) : geo t3 = geo t2 := by
  split at h3
  · simp only [Option.map_eq_some_iff] at h3; obtain ⟨_, _, rfl⟩ := h3; rfl
  · simp only [Option.some.injEq] at h3; subst h3; rfl

theorem geo_clampRow {t2 t3 : Terminal}
    (h3 : (if t2.savedCtx.cursorRow ≥ t2.rows
             then (csub t2.rows 1).map fun c1 => { t2 with savedCtx := { t2.savedCtx with cursorRow := c1 } }
             else some t2) = some t3) : geo t3 = geo t2 := by
  split at h3
  · simp only [Option.map_eq_some_iff] at h3; obtain ⟨_, _, rfl⟩ := h3; rfl
  · simp only [Option.some.injEq] at h3; subst h3; rfl

theorem geo_reflow {t t' : Terminal} (h : t.reflow = some t') : geo t' = geo t := by
  unfold Terminal.reflow at h
  dsimp only at h
  split at h
  · simp at h
  · rename_i b col row hr
    split at h
    · simp at h
    · rename_i t2 h2
      split at h
      · simp at h
      · rename_i t3 h3
        have e2 := geo_markDirtyRange h2
        refine (geo_clampRow h).trans ((geo_clampCol h3).trans (e2.trans ?_))
        split <;> rfl
grind_pattern geo_reflow => t.reflow, some t'

theorem geo_xtwinopsF {t t' : Terminal} {a b} (hx : t.xtwinops = false) (h : t.xtwinopsF a b = some t') :
    geo t' = geo t := by
  unfold Terminal.xtwinopsF at h
  rw [hx] at h
  simp only [Bool.false_eq_true, ↓reduceIte, Option.some.injEq] at h
  subst h; rfl

theorem geo_switchToAlternateBuffer {t t' : Terminal} (h : t.switchToAlternateBuffer = some t') : geo t' = geo t := by
  unfold Terminal.switchToAlternateBuffer at h; geo_auto
grind_pattern geo_switchToAlternateBuffer => t.switchToAlternateBuffer, some t'

theorem geo_switchToPrimaryBuffer {t t' : Terminal} (h : t.switchToPrimaryBuffer = some t') : geo t' = geo t := by
  unfold Terminal.switchToPrimaryBuffer at h; geo_auto
grind_pattern geo_switchToPrimaryBuffer => t.switchToPrimaryBuffer, some t'

theorem geo_hardReset {t t' : Terminal} (h : t.hardReset = some t') : geo t' = geo t := by
  unfold Terminal.hardReset at h; geo_auto
grind_pattern geo_hardReset => t.hardReset, some t'

theorem geo_decsetOne {t t' : Terminal} {m} (h : t.decsetOne m = some t') : geo t' = geo t := by
  cases m <;> simp only [Terminal.decsetOne] at h <;> geo_auto
grind_pattern geo_decsetOne => t.decsetOne m, some t'

theorem geo_decrstOne {t t' : Terminal} {m} (h : t.decrstOne m = some t') : geo t' = geo t := by
  cases m <;> simp only [Terminal.decrstOne] at h <;> geo_auto
grind_pattern geo_decrstOne => t.decrstOne m, some t'

/-- no function resizes the terminal -/
theorem geo_execute {t t' : Terminal} {f : Function} (hx : t.xtwinops = false)
    (h : t.execute f = some t') : geo t' = geo t := by
  cases f <;> simp only [Terminal.execute] at h
  case decset ms =>
    exact foldM'_inv (f := Terminal.decsetOne) (fun x => geo x = geo t) (ms := ms)
      (fun b a b' _ hb hs => (geo_decsetOne hs).trans hb) rfl h
  case decrst ms =>
    exact foldM'_inv (f := Terminal.decrstOne) (fun x => geo x = geo t) (ms := ms)
      (fun b a b' _ hb hs => (geo_decrstOne hs).trans hb) rfl h
  case xtwinops a b => exact geo_xtwinopsF hx h
  all_goals grind [geo, geo_ctc, geo_tbc, geo_sm, geo_rm, Terminal.setTab, Terminal.restoreCursor,
    Terminal.doMoveCursorToCol, Terminal.sgr]

end Avt.C16
