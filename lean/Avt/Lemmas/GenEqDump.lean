/-
  Avt.Lemmas.GenEqDump — the generated translation of the dump / format functions (Avt/Gen/DumpGen.lean,
  regenerated from /repo/src by translate/rs2lean_p5.py on every run) EQUALS the hand-written model
  (`Color.sgrParams`, `Pen.dump`, `Line.chunks`, `Buffer.repEncode`, `Buffer.dump` through `join`,
  `Parser.Param.render`, `Parser.dump`, `Terminal.dump`), for all inputs.  Strings are `List Nat` (code points).
  One theorem per generated function; `coverage_complete` ties the list of generated functions to the theorems.
-/
import Avt.Gen.DumpGen
import Avt.Model.Vt
import Avt.Lemmas.GenEqParser
import Avt.Lemmas.GenEqBuffer

set_option linter.unusedSimpArgs false
set_option linter.unusedVariables false

namespace Avt.GenEqDump
open Avt GenEqParser

/-! ### Color::sgr_params, Pen::dump -/

theorem Color.sgrParams_eq (c : Color) (base : Nat) : GenD.Color.sgrParams c base = c.sgrParams base := by
  cases c with
  | indexed n =>
    simp only [GenD.Color.sgrParams, GenD.Color.sgrParams.arms1, GenD.Color.sgrParams.arms2, Avt.Color.sgrParams,
      ckAdd_eq, Gen.colorLt1, Gen.colorLt2, Gen.colorBrightAdd, Gen.colorIdxAdd]
    by_cases h1 : n < 8
    · simp only [h1, if_true]; by_cases h : base + n < 256 <;> simp [h]
    · simp only [h1, if_false]
      by_cases h2 : n < 16
      · simp only [h2, if_true]
        by_cases h : base + 52 < 256
        · simp only [h, if_true]; by_cases h' : base + 52 + n < 256 <;> simp [h']
        · simp [h]
      · simp only [h2, if_false]; by_cases h : base + 8 < 256 <;> simp [h]
  | rgb r g b =>
    simp only [GenD.Color.sgrParams, GenD.Color.sgrParams.arms1, GenD.Color.sgrParams.arms2, Avt.Color.sgrParams,
      ckAdd_eq, Gen.colorRgbAdd]
    by_cases h : base + 8 < 256 <;> simp [h]

theorem pen_tail (s : List Nat) (b1 b2 b3 b4 b5 : Bool) :
    (let s := if b1 then s ++ [0x3b, 0x33] else s
     let s := if b2 then s ++ [0x3b, 0x34] else s
     let s := if b3 then s ++ [0x3b, 0x35] else s
     let s := if b4 then s ++ [0x3b, 0x37] else s
     let s := if b5 then s ++ [0x3b, 0x39] else s
     s ++ [0x6d])
    = s ++ (if b1 then [0x3b, 0x33] else []) ++ (if b2 then [0x3b, 0x34] else []) ++ (if b3 then [0x3b, 0x35] else [])
        ++ (if b4 then [0x3b, 0x37] else []) ++ (if b5 then [0x3b, 0x39] else []) ++ [0x6d] := by
  cases b1 <;> cases b2 <;> cases b3 <;> cases b4 <;> cases b5 <;> simp

theorem Pen.dump_eq (p : Pen) : GenD.Pen.dump p = p.dump := by
  simp only [GenD.Pen.dump, Avt.Pen.dump, Color.sgrParams_eq, GenEq.Pen.isItalic_eq, GenEq.Pen.isUnderline_eq,
    GenEq.Pen.isBlink_eq, GenEq.Pen.isInverse_eq, GenEq.Pen.isStrikethrough_eq]
  have key : ∀ (s : List Nat), (some (let s := if p.isItalic then s ++ [0x3b, 0x33] else s
     let s := if p.isUnderline then s ++ [0x3b, 0x34] else s
     let s := if p.isBlink then s ++ [0x3b, 0x35] else s
     let s := if p.isInverse then s ++ [0x3b, 0x37] else s
     let s := if p.isStrikethrough then s ++ [0x3b, 0x39] else s
     s ++ [0x6d])) = some (s ++ (if p.isItalic then [0x3b, 0x33] else []) ++ (if p.isUnderline then [0x3b, 0x34] else [])
        ++ (if p.isBlink then [0x3b, 0x35] else []) ++ (if p.isInverse then [0x3b, 0x37] else [])
        ++ (if p.isStrikethrough then [0x3b, 0x39] else []) ++ [0x6d]) := fun s => congrArg some (pen_tail s _ _ _ _ _)
  cases hf : p.fg with
  | none =>
    cases hb : p.bg with
    | none => simp only [key]; cases p.intensity <;> simp
    | some cb => simp only [key]; cases Avt.Color.sgrParams cb 40 <;> cases p.intensity <;> simp
  | some cf =>
    simp only []
    cases Avt.Color.sgrParams cf 30 with
    | none => cases p.bg <;> simp
    | some sf =>
      cases hb : p.bg with
      | none => simp only [key]; cases p.intensity <;> simp
      | some cb => simp only [key]; cases Avt.Color.sgrParams cb 40 <;> cases p.intensity <;> simp

/-! ### Display for Param, Parser::dump -/

theorem foldl_render (rest : List Nat) (f : List Nat) :
    List.foldl (fun f part => f ++ [0x3a] ++ renderDec part) f rest
      = f ++ (rest.map fun x => 0x3a :: renderDec x).flatten := by
  induction rest generalizing f with
  | nil => simp
  | cons x r ih => simp [ih, List.append_assoc]

/-- `param.to_string()` is `fmt` on an empty String; in general `fmt` appends the rendering -/
theorem Param.fmt_eq (p : Param) (f : List Nat) :
    GenD.Param.fmt p f = (Parser.Param.render p).map (f ++ ·) := by
  simp only [GenD.Param.fmt, Parser.Param.render, Param.parts_eq]
  cases p.partsSlice with
  | none => rfl
  | some parts =>
    rcases parts with _ | ⟨a, _ | ⟨b, t⟩⟩
    · rfl
    · simp
    · simp [foldl_render, List.append_assoc]

theorem mapM_fmt (l : List Param) :
    List.mapM (fun param => GenD.Param.fmt param []) l = l.mapM Parser.Param.render := by
  congr 1; funext q; rw [Param.fmt_eq]; cases Parser.Param.render q <;> simp

theorem Parser.dump_eq (p : Parser) : GenD.Parser.dump p = p.dump := by
  simp only [GenD.Parser.dump, Avt.Parser.dump, Avt.Parser.renderParams, Avt.Parser.activeParams, slice_zero, mapM_fmt]
  cases p.state <;> simp only [] <;> try (simp; done)
  all_goals
    by_cases h : p.curParam + 1 ≤ p.params.length
    · simp only [h, if_true]
      cases (p.params.take (p.curParam + 1)).mapM Parser.Param.render <;> simp
    · simp [h]

/-! ### Chunks, Line::chunks -/

theorem loop1_cons (pred : Cell → Cell → Bool) (c : Cell) (cs cur : List Cell) :
    GenD.Chunks.next.loop1 (c :: cs) ⟨c :: cs, pred, cur⟩ =
      match cur.getLast? with
      | none => GenD.Chunks.next.loop1 cs ⟨cs, pred, [c]⟩
      | some last =>
        if pred last c then some (⟨cs, pred, [c]⟩, some (some cur))
        else GenD.Chunks.next.loop1 cs ⟨cs, pred, cur ++ [c]⟩ := by
  rw [GenD.Chunks.next.loop1]
  simp only [GenD.Chunks.next.loop1.body]
  rcases List.eq_nil_or_concat cur with rfl | ⟨init, last, rfl⟩
  · simp
  · by_cases h : pred last c <;> simp [h]

theorem next_cons (pred : Cell → Cell → Bool) (c : Cell) (cs cur : List Cell) :
    GenD.Chunks.next ⟨c :: cs, pred, cur⟩ =
      match cur.getLast? with
      | none => GenD.Chunks.next ⟨cs, pred, [c]⟩
      | some last =>
        if pred last c then some (⟨cs, pred, [c]⟩, some cur)
        else GenD.Chunks.next ⟨cs, pred, cur ++ [c]⟩ := by
  simp only [GenD.Chunks.next, loop1_cons]
  cases cur.getLast? with
  | none => rfl
  | some last => by_cases h : pred last c <;> simp [h]

theorem next_nil (pred : Cell → Cell → Bool) (cur : List Cell) :
    GenD.Chunks.next ⟨[], pred, cur⟩ =
      if cur.isEmpty then some (⟨[], pred, cur⟩, none) else some (⟨[], pred, []⟩, some cur) := by
  simp [GenD.Chunks.next, GenD.Chunks.next.loop1]

theorem collect_eq (pred : Cell → Cell → Bool) (iter cur : List Cell) (fuel : Nat) (h : iter.length + 2 ≤ fuel) :
    GenD.Chunks.collect fuel ⟨iter, pred, cur⟩ = some (Line.chunksGo pred iter cur.reverse) := by
  induction iter generalizing cur fuel with
  | nil =>
    obtain ⟨f, rfl⟩ : ∃ f, fuel = f + 1 := ⟨fuel - 1, by omega⟩
    rw [GenD.Chunks.collect, next_nil]
    cases cur with
    | nil => simp [Line.chunksGo]
    | cons x xs =>
      obtain ⟨f', rfl⟩ : ∃ f', f = f' + 1 := ⟨f - 1, by simp at h; omega⟩
      simp [GenD.Chunks.collect, next_nil, Line.chunksGo]
  | cons c cs ih =>
    obtain ⟨f, rfl⟩ : ∃ f, fuel = f + 1 := ⟨fuel - 1, by omega⟩
    have hf : cs.length + 2 ≤ f := by simp only [List.length_cons] at h; omega
    have step : ∀ cur', GenD.Chunks.collect (f + 1) ⟨cs, pred, cur'⟩ = some (Line.chunksGo pred cs cur'.reverse) :=
      fun cur' => ih cur' (f + 1) (by omega)
    rcases List.eq_nil_or_concat cur with rfl | ⟨init, last, rfl⟩
    · have := step [c]
      rw [GenD.Chunks.collect] at this ⊢
      rw [next_cons]
      simpa [Line.chunksGo] using this
    · simp only [List.concat_eq_append]
      by_cases hp : pred last c
      · rw [GenD.Chunks.collect, next_cons]
        have e : (init ++ [last]).getLast? = some last := by simp
        simp only [e, hp, if_true]
        rw [ih [c] f hf]
        simp [Line.chunksGo, hp]
      · have := step (init ++ [last] ++ [c])
        rw [GenD.Chunks.collect] at this ⊢
        rw [next_cons]
        have e : (init ++ [last]).getLast? = some last := by simp
        simp only [e, hp, Bool.false_eq_true, if_false]
        simpa [Line.chunksGo, hp] using this

/-- `Line::chunks` (the `Chunks` iterator, consumed completely) is the model's `chunks`; it never panics -/
theorem Line.chunks_eq (l : Line) (pred : Cell → Cell → Bool) :
    GenD.Line.chunks l pred = some (l.chunks pred) := by
  simp only [GenD.Line.chunks, GenD.Chunks.new, Avt.Line.chunks]
  exact collect_eq pred l.cells [] _ (by simp)

theorem Chunks.new_eq (iter : List Cell) (pred : Cell → Cell → Bool) :
    GenD.Chunks.new iter pred = ⟨iter, pred, []⟩ := rfl

/-! ### Buffer::rep_encode_cell_text -/

theorem push_fold {α} (x : Nat) (l : List α) (d : List Nat) :
    List.foldl (fun dump _ => dump ++ [x]) d l = d ++ List.replicate l.length x := by
  induction l generalizing d with
  | nil => simp
  | cons a r ih => simp [ih, List.replicate_succ, List.append_assoc]

theorem push_range (x count : Nat) (d : List Nat) :
    List.foldl (fun dump _ => dump ++ [x]) d (List.range' 0 count) = d ++ List.replicate count x := by
  rw [push_fold]; simp

/-- what the generated code does with the last run: `if count > 5 { .. } else { .. }` -/
def flushGen (st : Nat × List Nat × Nat) : Option (List Nat) :=
  if st.1 > 5 then
    match csub st.1 1 with
    | none => none
    | some x4 => some (st.2.1 ++ ([st.2.2] ++ [0x1b, 0x5b] ++ renderDec x4 ++ [0x62]))
  else some (List.foldl (fun dump _ => dump ++ [st.2.2]) st.2.1 (List.range' 0 st.1))

theorem flushGen_eq (count prev : Nat) (d : List Nat) :
    flushGen (count, d, prev) = some (d ++ Buffer.repFlush prev count) := by
  simp only [flushGen, Buffer.repFlush, push_range]
  by_cases h : count > 5
  · simp only [h, if_true]; rw [csub_eq_some (by omega)]; simp
  · simp [h]

theorem rep_fold (F : Nat × List Nat × Nat → Cell → Option (Nat × List Nat × Nat))
    (hF : ∀ count dump prev (cell : Cell), F (count, dump, prev) cell =
      if cell.ch = prev then some (count + 1, dump, prev)
      else if count > 5 then
        match csub count 1 with
        | none => none
        | some x3 => some (1, dump ++ ([prev] ++ [0x1b, 0x5b] ++ renderDec x3 ++ [0x62]), cell.ch)
      else some (1, dump ++ List.replicate count prev, cell.ch))
    (cs : List Cell) (count prev : Nat) (d : List Nat) :
    (Avt.Terminal.foldM' F cs (count, d, prev)).bind flushGen
      = some (d ++ Buffer.repGo (cs.map Cell.ch) prev count) := by
  induction cs generalizing count prev d with
  | nil => simp [Avt.Terminal.foldM', Buffer.repGo, flushGen_eq]
  | cons c cs ih =>
    simp only [Avt.Terminal.foldM', List.map_cons, Buffer.repGo]
    rw [hF]
    by_cases h : c.ch = prev
    · simp only [h, if_true]; exact ih _ _ _
    · simp only [h, if_false]
      by_cases h5 : count > 5
      · simp only [h5, if_true]
        rw [csub_eq_some (by omega)]
        simp only []
        rw [ih]
        simp [Buffer.repFlush, h5, List.append_assoc]
      · simp only [h5, if_false]
        rw [ih]
        simp [Buffer.repFlush, h5, List.append_assoc]

theorem rep_fold' (F : Nat × List Nat × Nat → Cell → Option (Nat × List Nat × Nat))
    (hF : ∀ count dump prev (cell : Cell), F (count, dump, prev) cell =
      if cell.ch = prev then some (count + 1, dump, prev)
      else if count > 5 then
        match csub count 1 with
        | none => none
        | some x3 => some (1, dump ++ ([prev] ++ [0x1b, 0x5b] ++ renderDec x3 ++ [0x62]), cell.ch)
      else some (1, dump ++ List.replicate count prev, cell.ch))
    (cs : List Cell) (count prev : Nat) (d : List Nat) :
    (match Avt.Terminal.foldM' F cs (count, d, prev) with
      | none => none
      | some (count, dump, prev) =>
        if count > 5 then
          match csub count 1 with
          | none => none
          | some x4 => some (dump ++ ([prev] ++ [0x1b, 0x5b] ++ renderDec x4 ++ [0x62]))
        else some (List.foldl (fun dump _ => dump ++ [prev]) dump (List.range' 0 count)))
      = some (d ++ Buffer.repGo (cs.map Cell.ch) prev count) := by
  rw [← rep_fold F hF cs count prev d]
  cases Avt.Terminal.foldM' F cs (count, d, prev) with
  | none => rfl
  | some st => obtain ⟨a, b', c'⟩ := st; rfl

/-- `rep_encode_cell_text(cells, &mut dump)` appends the model's `repEncode cells` to `dump` -/
theorem Buffer.repEncodeCellText_eq (b : GenB.Buffer) (cells : List Cell) (dump : List Nat) :
    GenD.Buffer.repEncodeCellText b cells dump = (Avt.Buffer.repEncode cells).map (dump ++ ·) := by
  cases cells with
  | nil => rfl
  | cons c cs =>
    simp only [GenD.Buffer.repEncodeCellText, List.head?_cons, List.tail_cons, Avt.Buffer.repEncode, Option.map_some]
    refine rep_fold' _ ?_ cs 1 c.ch dump
    intro count dump prev cell
    simp only [GenEq.Cell.char_eq, push_range]
    rfl

/-! ### Buffer::dump -/

theorem cutoff_fold (F : Nat × Bool → Line × Nat → Nat × Bool)
    (hF : ∀ cutoff wrapped (line : Line) i, F (cutoff, wrapped) (line, i) =
      (if wrapped || line.wrapped || !line.isBlank then i + 1 else cutoff, line.wrapped))
    (ls : List Line) (i : Nat) (w : Bool) (c : Nat) :
    (List.foldl F (c, w) (List.zipIdx ls i)).1 = Buffer.dumpCutoff ls i w c := by
  induction ls generalizing i w c with
  | nil => rfl
  | cons l ls ih => simp only [List.zipIdx_cons, List.foldl_cons, hF, Buffer.dumpCutoff]; exact ih _ _ _

theorem chunks_fold (G : List Nat × Pen → List Cell → Option (List Nat × Pen))
    (hG : ∀ dump pen (cells : List Cell), G (dump, pen) cells =
      match cells with
      | [] => none
      | c :: _ =>
        match (if c.pen ≠ pen then (c.pen.dump).map fun d => (dump ++ d, c.pen) else some (dump, pen)) with
        | none => none
        | some (dump', pen') => (Buffer.repEncode cells).map fun t => (dump' ++ t, pen'))
    (chunks : List (List Cell)) (dump : List Nat) (pen : Pen) :
    Avt.Terminal.foldM' G chunks (dump, pen) =
      (Buffer.dumpChunks chunks pen).map fun r => (dump ++ r.1, r.2) := by
  induction chunks generalizing dump pen with
  | nil => simp [Avt.Terminal.foldM', Buffer.dumpChunks]
  | cons cells rest ih =>
    simp only [Avt.Terminal.foldM', Buffer.dumpChunks, hG]
    cases cells with
    | nil => rfl
    | cons c t =>
      simp only []
      by_cases hp : c.pen ≠ pen
      · simp only [hp, if_true, ne_eq, not_false_eq_true]
        cases c.pen.dump with
        | none => rfl
        | some d =>
          simp only [Option.map_some]
          cases Buffer.repEncode (c :: t) with
          | none => rfl
          | some tx =>
            simp only [Option.map_some, ih]
            cases Buffer.dumpChunks rest c.pen with
            | none => rfl
            | some r => obtain ⟨m, p''⟩ := r; simp [List.append_assoc]
      · simp only [hp, if_false]
        cases Buffer.repEncode (c :: t) with
        | none => rfl
        | some tx =>
          simp only [Option.map_some, ih]
          cases Buffer.dumpChunks rest pen with
          | none => rfl
          | some r => obtain ⟨m, p''⟩ := r; simp [List.append_assoc]

theorem lines_fold (last : Nat) (H : List Nat × Pen → Line × Nat → Option (List Nat × Pen))
    (hH : ∀ dump pen (line : Line) i, H (dump, pen) (line, i) =
      match Buffer.dumpChunks (line.chunks fun c1 c2 => c1.pen ≠ c2.pen) pen with
      | none => none
      | some (s, pen') => some (dump ++ s ++ (if i < last && !line.wrapped then [0x0d, 0x0a] else []), pen'))
    (ls : List Line) (i : Nat) (dump : List Nat) (pen : Pen) :
    (Avt.Terminal.foldM' H (List.zipIdx ls i) (dump, pen)).map Prod.fst =
      (Buffer.dumpLines last ls i pen).map (dump ++ ·) := by
  induction ls generalizing i dump pen with
  | nil => simp [Avt.Terminal.foldM', Buffer.dumpLines]
  | cons l ls ih =>
    simp only [List.zipIdx_cons, Avt.Terminal.foldM', hH, Buffer.dumpLines]
    cases Buffer.dumpChunks (l.chunks fun c1 c2 => c1.pen ≠ c2.pen) pen with
    | none => rfl
    | some r =>
      obtain ⟨sx, pen'⟩ := r
      simp only [ih]
      cases Buffer.dumpLines last ls (i + 1) pen' <;> simp [List.append_assoc]

/-- **`Buffer::dump` on the Rust-shaped buffer is the model's `Buffer.dump`** (simulation through `join`, as in
    GenEqBuffer): an equation between `Option`s, so the Rust-shape panic sites fire exactly when the model's do -/
theorem Buffer.dump_sim (b : Buffer) (h : b.view.length = b.rows) :
    GenD.Buffer.dump (GenEqBuffer.join b) = b.dump := by
  simp only [GenD.Buffer.dump, Avt.Buffer.dump, GenEqBuffer.view_sim b h, GenEqBuffer.join_rows]
  have hc : ∀ (F : Nat × Bool → Line × Nat → Nat × Bool) st, (List.foldl F st (List.zipIdx b.view)) =
      ((List.foldl F st (List.zipIdx b.view)).1, (List.foldl F st (List.zipIdx b.view)).2) := fun _ _ => rfl
  rw [hc]
  simp only []
  rw [cutoff_fold _ (by intro cutoff wrapped line i; simp only [GenEqLine.isBlank_eq]) b.view 0 false 0]
  cases csub b.rows 1 with
  | none => rfl
  | some last =>
    simp only []
    have e1 : ∀ (o : Option (List Nat × Pen)),
        (match o with | none => none | some (dump, _) => some dump) = o.map Prod.fst := by
      intro o; cases o <;> rfl
    refine Eq.trans (e1 _) ?_
    refine Eq.trans (lines_fold last _ ?_ _ 0 [] _) ?_
    · intro dump pen line i
      have hl : GenD.Line.chunks line (fun c1 c2 => decide (GenT.Cell.pen c1 ≠ GenT.Cell.pen c2))
          = some (line.chunks fun c1 c2 => c1.pen ≠ c2.pen) := by
        rw [Line.chunks_eq]; congr 2
      simp only [hl]
      rw [chunks_fold _ (by
        intro dump pen cells
        cases cells with
        | nil => rfl
        | cons c t =>
          simp only [List.getElem?_cons_zero, Pen.dump_eq, Buffer.repEncodeCellText_eq, GenEq.Cell.pen_eq]
          by_cases hp : c.pen ≠ pen
          · simp only [hp, if_true, ne_eq, not_false_eq_true]
            cases c.pen.dump with
            | none => rfl
            | some d => simp only [Option.map_some]; cases Avt.Buffer.repEncode (c :: t) <;> rfl
          · simp only [hp, if_false]; cases Avt.Buffer.repEncode (c :: t) <;> rfl)]
      generalize Avt.Buffer.dumpChunks _ pen = dc
      cases dc with
      | none => rfl
      | some r =>
        obtain ⟨sx, pen'⟩ := r
        simp only [Option.map_some]
        by_cases hw : i < last ∧ (!line.wrapped) = true
        · have : (decide (i < last) && !line.wrapped) = true := by simpa using hw
          rw [if_pos hw, if_pos this]; simp [List.append_assoc]
        · have : ¬ ((decide (i < last) && !line.wrapped) = true) := by simpa using hw
          rw [if_neg hw, if_neg this]; simp
    · show Option.map _ (Avt.Buffer.dumpLines last _ 0 Pen.default) = _
      generalize Avt.Buffer.dumpLines last _ 0 Pen.default = dl
      cases dl <;> simp

/-! ### Terminal::dump -/

/-- steps 3 / 5 of the generated `Terminal::dump` (the text of Gen/DumpGen.lean, tied to it by `dump_gen_shape`) -/
def ctxBlock (c : SavedCtx) (seq : List Nat) : Option (List Nat) :=
  if !(Avt.GenT.SavedCtx.isDefault c) then
    let seq := if !c.autoWrapMode then seq ++ [0x9b, 0x3f, 0x37, 0x6c] else seq
    let seq := if c.originMode then seq ++ [0x9b, 0x3f, 0x36, 0x68] else seq
    let seq := seq ++ ([0x9b] ++ (Avt.renderDec (c.cursorRow + 1)) ++ [0x3b] ++ (Avt.renderDec (c.cursorCol + 1)) ++ [0x48])
    match Avt.GenD.Pen.dump c.pen with
    | none => none
    | some x3 =>
      let seq := seq ++ x3
      let seq := seq ++ [0x1b, 0x37]
      let seq := if !c.autoWrapMode then seq ++ [0x9b, 0x3f, 0x37, 0x68] else seq
      if c.originMode then some (seq ++ [0x9b, 0x3f, 0x36, 0x6c]) else some seq
  else
    some seq

/-- step 4 (dump of the alternate screen) -/
def altBlock (t : Terminal) (seq : List Nat) : Option (List Nat) :=
  if t.activeBufferType = Avt.BufferType.alternate then
    let seq := seq ++ [0x9b, 0x31, 0x3b, 0x31, 0x48]
    match Avt.Buffer.dump (Avt.GenT.alternateBuffer t) with
    | none => none
    | some x4 =>
      some (seq ++ x4)
  else
    some seq

/-- step 8 (margins) -/
def marginBlock (t : Terminal) (seq : List Nat) : Option (List Nat) :=
  let r4 :=
    if t.topMargin > 0 then
      some true
    else
      match Avt.csub t.rows 1 with
      | none => none
      | some x6 =>
        some (decide (t.bottomMargin < x6))
  match r4 with
  | none => none
  | some x7 =>
    if x7 then
      some (seq ++ ([0x9b] ++ (Avt.renderDec (t.topMargin + 1)) ++ [0x3b] ++ (Avt.renderDec (t.bottomMargin + 1)) ++ [0x72]))
    else
      some seq

/-- step 9 (cursor position) of the generated `Terminal::dump` -/
def cursorBlock (t : Terminal) (seq : List Nat) : Option (List Nat × Nat) :=
  let col := t.cursor.col
  let row := t.cursor.row
  if t.originMode then
    if (row < t.topMargin) ∨ (row > t.bottomMargin) then
      let seq := seq ++ [0x9b, 0x75]
      let r6 :=
        if col < t.savedCtx.cursorCol then
          match Avt.csub t.savedCtx.cursorCol col with
          | none => none
          | some x8 =>
            let n := x8
            some (seq ++ ([0x9b] ++ (Avt.renderDec n) ++ [0x44]))
        else
          if col > t.savedCtx.cursorCol then
            match Avt.csub col t.savedCtx.cursorCol with
            | none => none
            | some x9 =>
              let n := x9
              some (seq ++ ([0x9b] ++ (Avt.renderDec n) ++ [0x43]))
          else
            some seq
      match r6 with
      | none => none
      | some seq =>
        if row < t.savedCtx.cursorRow then
          match Avt.csub t.savedCtx.cursorRow row with
          | none => none
          | some x10 =>
            let n := x10
            let seq := seq ++ ([0x9b] ++ (Avt.renderDec n) ++ [0x41])
            some (seq, row)
        else
          if row > t.savedCtx.cursorRow then
            match Avt.csub row t.savedCtx.cursorRow with
            | none => none
            | some x11 =>
              let n := x11
              let seq := seq ++ ([0x9b] ++ (Avt.renderDec n) ++ [0x42])
              some (seq, row)
          else
            some (seq, row)
    else
      match Avt.csub row t.topMargin with
      | none => none
      | some x12 =>
        let row := x12
        let seq := seq ++ ([0x9b] ++ (Avt.renderDec (row + 1)) ++ [0x3b] ++ (Avt.renderDec (col + 1)) ++ [0x48])
        some (seq, row)
  else
    let seq := seq ++ ([0x9b] ++ (Avt.renderDec (row + 1)) ++ [0x3b] ++ (Avt.renderDec (col + 1)) ++ [0x48])
    some (seq, row)

/-- the rest of step 9 and steps 10-14 of the generated `Terminal::dump` -/
def tailBlock (t : Terminal) (seq : List Nat) : Option (List Nat) :=
  let r8 :=
    if t.cursor.col ≥ t.cols then
      match Avt.csub t.cols 1 with
      | none => none
      | some x13 =>
        match t.buffer.view[t.cursor.row]? with
        | none => none
        | some line14 =>
          match line14.cells[x13]? with
          | none => none
          | some cell15 =>
            let cell := cell15
            match Avt.GenD.Pen.dump (Avt.GenT.Cell.pen cell) with
            | none => none
            | some x16 =>
              some (seq ++ (x16 ++ [Avt.GenT.Cell.char cell]))
    else
      some seq
  match r8 with
  | none => none
  | some seq =>
    match Avt.GenD.Pen.dump t.pen with
    | none => none
    | some x17 =>
      let seq := seq ++ x17
      let seq := if !t.cursor.visible then seq ++ [0x9b, 0x3f, 0x32, 0x35, 0x6c] else seq
      let seq := if t.charsets.1 = Avt.Charset.drawing then seq ++ [0x1b, 0x28, 0x30] else seq
      let seq := if t.charsets.2 = Avt.Charset.drawing then seq ++ [0x1b, 0x29, 0x30] else seq
      let seq := if t.activeCharset = 1 then seq ++ [0x0e] else seq
      let seq := if t.insertMode then seq ++ [0x9b, 0x34, 0x68] else seq
      let seq := if !t.autoWrapMode then seq ++ [0x9b, 0x3f, 0x37, 0x6c] else seq
      let seq := if t.newLineMode then seq ++ [0x9b, 0x32, 0x30, 0x68] else seq
      if t.cursorKeysMode = Avt.CursorKeysMode.application then
        some (seq ++ [0x9b, 0x3f, 0x31, 0x68])
      else
        some seq

/-- the generated `Terminal::dump`, cut into the blocks above -/
def genDump (t : Terminal) : Option (List Nat) :=
  let x1 :=
    match t.activeBufferType with
    | .primary => (t.savedCtx, t.alternateSavedCtx)
    | .alternate => (t.alternateSavedCtx, t.savedCtx)
  let (primaryCtx, alternateCtx) := x1
  match Avt.Buffer.dump (Avt.GenT.primaryBuffer t) with
  | none => none
  | some x2 =>
    let seq := x2
    let seq :=
      if t.tabs ≠ (Avt.GenT.Tabs.new t.cols) then
        let seq := seq ++ [0x9b, 0x35, 0x57]
        List.foldl (fun seq t' =>
            seq ++ ([0x9b] ++ (Avt.renderDec (t' + 1)) ++ [0x60, 0x1b, 0x5b, 0x57])
          ) seq t.tabs
      else
        seq
    match ctxBlock primaryCtx seq with
    | none => none
    | some seq =>
      let seq := seq ++ [0x1b, 0x5b, 0x6d]
      let seq :=
        if (t.activeBufferType = Avt.BufferType.alternate) ∨ ((!(Avt.GenT.SavedCtx.isDefault alternateCtx)) = true) then
          seq ++ [0x9b, 0x3f, 0x31, 0x30, 0x34, 0x37, 0x68]
        else
          seq
      match altBlock t seq with
      | none => none
      | some seq =>
        match ctxBlock alternateCtx seq with
        | none => none
        | some seq =>
          let seq :=
            if (t.activeBufferType = Avt.BufferType.primary) ∧ ((!(Avt.GenT.SavedCtx.isDefault alternateCtx)) = true) then
              seq ++ [0x9b, 0x3f, 0x31, 0x30, 0x34, 0x37, 0x6c]
            else
              seq
          let seq := if t.originMode then seq ++ [0x9b, 0x3f, 0x36, 0x68] else seq
          match marginBlock t seq with
          | none => none
          | some seq =>
            match cursorBlock t seq with
            | none => none
            | some (seq, row) => tailBlock t seq

/-- the cut is the generated definition (a change of `Terminal::dump` is reported here: re-cut the text) -/
theorem dump_gen_shape (t : Terminal) : GenD.Terminal.dump t = genDump t := rfl

theorem ctxBlock_eq (c : SavedCtx) (seq : List Nat) :
    ctxBlock c seq = (Avt.Terminal.dumpCtx c).map (seq ++ ·) := by
  simp only [ctxBlock, Avt.Terminal.dumpCtx, Avt.Terminal.cupSeq, Avt.Terminal.csi, GenEq.SavedCtx.isDefault_eq,
    Pen.dump_eq]
  cases c.isDefault with
  | true => simp
  | false =>
    simp only [Bool.not_false, if_true, Bool.false_eq_true, if_false]
    cases c.pen.dump with
    | none => rfl
    | some pd => cases c.autoWrapMode <;> cases c.originMode <;> simp [List.append_assoc]

/-- the value of the local `row` after step 9 (it is not used afterwards) -/
def cursorRowOf (t : Terminal) : Nat :=
  if t.originMode = true ∧ ¬ (t.cursor.row < t.topMargin ∨ t.cursor.row > t.bottomMargin) then t.cursor.row - t.topMargin
  else t.cursor.row

theorem cursorBlock_eq (t : Terminal) (seq : List Nat) :
    cursorBlock t seq = some (seq ++ t.dumpCursor, cursorRowOf t) := by
  simp only [cursorBlock, Avt.Terminal.dumpCursor, Avt.Terminal.cupSeq, Avt.Terminal.csi, cursorRowOf]
  cases t.originMode with
  | false => simp [List.append_assoc]
  | true =>
    simp only [if_true]
    by_cases h : t.cursor.row < t.topMargin ∨ t.cursor.row > t.bottomMargin
    · have h' : (decide (t.cursor.row < t.topMargin) || decide (t.cursor.row > t.bottomMargin)) = true := by
        simpa using h
      simp only [h, h', if_true]
      by_cases c1 : t.cursor.col < t.savedCtx.cursorCol
      · simp only [c1, if_true]; rw [csub_eq_some (by omega)]
        by_cases r1 : t.cursor.row < t.savedCtx.cursorRow
        · simp only [r1, if_true]; rw [csub_eq_some (by omega)]; simp [List.append_assoc]
        · by_cases r2 : t.cursor.row > t.savedCtx.cursorRow
          · simp only [r1, r2, if_true, if_false]; rw [csub_eq_some (by omega)]; simp [List.append_assoc]
          · simp [r1, r2, List.append_assoc]
      · by_cases c2 : t.cursor.col > t.savedCtx.cursorCol
        · simp only [c1, c2, if_true, if_false]; rw [csub_eq_some (by omega)]
          by_cases r1 : t.cursor.row < t.savedCtx.cursorRow
          · simp only [r1, if_true]; rw [csub_eq_some (by omega)]; simp [List.append_assoc]
          · by_cases r2 : t.cursor.row > t.savedCtx.cursorRow
            · simp only [r1, r2, if_true, if_false]; rw [csub_eq_some (by omega)]; simp [List.append_assoc]
            · simp [r1, r2, List.append_assoc]
        · simp only [c1, c2, if_false]
          by_cases r1 : t.cursor.row < t.savedCtx.cursorRow
          · simp only [r1, if_true]; rw [csub_eq_some (by omega)]; simp [List.append_assoc]
          · by_cases r2 : t.cursor.row > t.savedCtx.cursorRow
            · simp only [r1, r2, if_true, if_false]; rw [csub_eq_some (by omega)]; simp [List.append_assoc]
            · simp [r1, r2, List.append_assoc]
    · have h' : ¬ ((decide (t.cursor.row < t.topMargin) || decide (t.cursor.row > t.bottomMargin)) = true) := by
        simpa using h
      simp only [h, h', if_false]
      rw [csub_eq_some (by omega)]
      simp [List.append_assoc]

/-- the model's `pendingPrint` (a `let` inside `Terminal.dump`) -/
def pendingPrint (t : Terminal) : Option (List Nat) :=
  if t.cursor.col ≥ t.cols then
    match csub t.cols 1 with
    | none => none
    | some c1 =>
      match t.buffer.view[t.cursor.row]? with
      | none => none
      | some line =>
        match line.cells[c1]? with
        | none => none
        | some cell => (cell.pen.dump).map fun pd => pd ++ [cell.ch]
  else some []

/-- steps 10-14 as the model writes them -/
def modeTail (t : Terminal) : List Nat :=
  (if !t.cursor.visible then [Terminal.csi, 0x3f, 0x32, 0x35, 0x6c] else [])
    ++ (if t.charsets.1 = .drawing then [0x1b, 0x28, 0x30] else [])
    ++ (if t.charsets.2 = .drawing then [0x1b, 0x29, 0x30] else [])
    ++ (if t.activeCharset = 1 then [0x0e] else [])
    ++ (if t.insertMode then [Terminal.csi, 0x34, 0x68] else [])
    ++ (if !t.autoWrapMode then [Terminal.csi, 0x3f, 0x37, 0x6c] else [])
    ++ (if t.newLineMode then [Terminal.csi, 0x32, 0x30, 0x68] else [])
    ++ (if t.cursorKeysMode = .application then [Terminal.csi, 0x3f, 0x31, 0x68] else [])

theorem tailBlock_eq (t : Terminal) (seq : List Nat) :
    tailBlock t seq =
      match pendingPrint t, t.pen.dump with
      | some pp, some pend => some (seq ++ pp ++ pend ++ modeTail t)
      | _, _ => none := by
  simp only [tailBlock, pendingPrint, modeTail, Avt.Terminal.csi, Pen.dump_eq, GenEq.Cell.pen_eq, GenEq.Cell.char_eq]
  have tl : ∀ (s : List Nat),
      (let seq := if !t.cursor.visible then s ++ [0x9b, 0x3f, 0x32, 0x35, 0x6c] else s
       let seq := if t.charsets.1 = Avt.Charset.drawing then seq ++ [0x1b, 0x28, 0x30] else seq
       let seq := if t.charsets.2 = Avt.Charset.drawing then seq ++ [0x1b, 0x29, 0x30] else seq
       let seq := if t.activeCharset = 1 then seq ++ [0x0e] else seq
       let seq := if t.insertMode then seq ++ [0x9b, 0x34, 0x68] else seq
       let seq := if !t.autoWrapMode then seq ++ [0x9b, 0x3f, 0x37, 0x6c] else seq
       let seq := if t.newLineMode then seq ++ [0x9b, 0x32, 0x30, 0x68] else seq
       if t.cursorKeysMode = Avt.CursorKeysMode.application then some (seq ++ [0x9b, 0x3f, 0x31, 0x68]) else some seq)
      = some (s ++ ((if !t.cursor.visible then [0x9b, 0x3f, 0x32, 0x35, 0x6c] else [])
        ++ (if t.charsets.1 = .drawing then [0x1b, 0x28, 0x30] else [])
        ++ (if t.charsets.2 = .drawing then [0x1b, 0x29, 0x30] else [])
        ++ (if t.activeCharset = 1 then [0x0e] else [])
        ++ (if t.insertMode then [0x9b, 0x34, 0x68] else [])
        ++ (if !t.autoWrapMode then [0x9b, 0x3f, 0x37, 0x6c] else [])
        ++ (if t.newLineMode then [0x9b, 0x32, 0x30, 0x68] else [])
        ++ (if t.cursorKeysMode = .application then [0x9b, 0x3f, 0x31, 0x68] else []))) := by
    intro s
    cases t.cursor.visible <;> by_cases h1 : t.charsets.1 = .drawing <;> by_cases h2 : t.charsets.2 = .drawing <;>
      by_cases h3 : t.activeCharset = 1 <;> simp [h1, h2, h3] <;>
      cases t.insertMode <;> cases t.autoWrapMode <;> cases t.newLineMode <;>
      by_cases h4 : t.cursorKeysMode = .application <;> simp [h4]
  by_cases hc : t.cursor.col ≥ t.cols
  · simp only [hc, if_true]
    cases csub t.cols 1 with
    | none => rfl
    | some c1 =>
      simp only []
      cases t.buffer.view[t.cursor.row]? with
      | none => rfl
      | some line =>
        simp only []
        cases line.cells[c1]? with
        | none => rfl
        | some cell =>
          simp only []
          cases cell.pen.dump with
          | none => rfl
          | some pd =>
            simp only [Option.map_some]
            cases t.pen.dump with
            | none => rfl
            | some pend => simpa [List.append_assoc] using tl (seq ++ (pd ++ [cell.ch]) ++ pend)
  · simp only [hc, if_false]
    cases t.pen.dump with
    | none => rfl
    | some pend => simpa [List.append_assoc] using tl (seq ++ pend)

theorem tabs_fold (tabs : List Nat) (seq : List Nat) :
    List.foldl (fun seq t' => seq ++ ([0x9b] ++ renderDec (t' + 1) ++ [0x60, 0x1b, 0x5b, 0x57])) seq tabs
      = seq ++ (tabs.map fun tb => 0x9b :: renderDec (tb + 1) ++ [0x60, 0x1b, 0x5b, 0x57]).flatten := by
  induction tabs generalizing seq with
  | nil => simp
  | cons x r ih => simp [ih, List.append_assoc]

theorem ite_app (c : Prop) [Decidable c] (s x : List Nat) :
    (if c then s ++ x else s) = s ++ (if c then x else []) := by
  by_cases h : c <;> simp [h]

theorem altBlock_eq (t : Terminal) (seq : List Nat) :
    altBlock t seq = (if t.activeBufferType = .alternate
      then (t.alternateBuffer.dump).map fun d => [Terminal.csi, 0x31, 0x3b, 0x31, 0x48] ++ d else some []).map (seq ++ ·) := by
  simp only [altBlock, GenEq.alternateBuffer_eq, Avt.Terminal.csi]
  by_cases h : t.activeBufferType = .alternate
  · simp only [h, if_true]; cases t.alternateBuffer.dump <;> simp [List.append_assoc]
  · simp [h]

theorem marginBlock_eq (t : Terminal) (seq : List Nat) (hr : 1 ≤ t.rows) :
    marginBlock t seq = some (seq ++ (if t.topMargin > 0 || t.bottomMargin < t.rows - 1
      then Terminal.csi :: renderDec (t.topMargin + 1) ++ [0x3b] ++ renderDec (t.bottomMargin + 1) ++ [0x72] else [])) := by
  simp only [marginBlock, csub_eq_some hr, Avt.Terminal.csi]
  by_cases h1 : t.topMargin > 0
  · simp [h1]
  · by_cases h2 : t.bottomMargin < t.rows - 1 <;> simp [h1, h2]

/-- **`Terminal::dump` (generated) is the model's `Terminal.dump`** on every terminal with at least one row.
    (`rows = 0`: see `dump_rows_zero` below — the only input on which they differ.) -/
theorem Terminal.dump_eq (t : Terminal) (hr : 1 ≤ t.rows) : GenD.Terminal.dump t = t.dump := by
  rw [dump_gen_shape]
  simp only [genDump, Avt.Terminal.dump, ctxBlock_eq, altBlock_eq, marginBlock_eq _ _ hr, cursorBlock_eq, tailBlock_eq,
    GenEq.primaryBuffer_eq, csub_eq_some hr, GenEq.Tabs.new_eq, tabs_fold, GenEq.SavedCtx.isDefault_eq,
    Avt.Terminal.csi, List.append_assoc, ite_app, pendingPrint]
  generalize (ite (t.cursor.col ≥ t.cols) _ (some ([] : List Nat))) = PP
  generalize t.primaryBuffer.dump = A
  generalize t.alternateBuffer.dump = AB
  generalize t.pen.dump = E
  cases hbt : t.activeBufferType with
  | primary =>
    simp only [reduceCtorEq, if_false, false_or, true_and, decide_false, decide_true, Bool.false_or, Bool.not_false,
      Bool.true_and, Option.map_some, List.append_nil]
    generalize Avt.Terminal.dumpCtx t.savedCtx = P
    generalize Avt.Terminal.dumpCtx t.alternateSavedCtx = Q
    cases A <;> cases P <;> cases Q <;> cases PP <;> cases E <;> try rfl
    by_cases ht : t.tabs = Tabs.new t.cols <;> cases t.originMode <;> cases t.alternateSavedCtx.isDefault <;>
      simp [ht, modeTail, Avt.Terminal.csi, List.append_assoc, tabs_fold]
  | alternate =>
    simp only [if_true, true_or, reduceCtorEq, false_and, decide_false, decide_true, Bool.true_or, Bool.not_true,
      Bool.false_and, Option.map_some, List.append_nil, if_false, Bool.false_eq_true]
    generalize Avt.Terminal.dumpCtx t.savedCtx = P
    generalize Avt.Terminal.dumpCtx t.alternateSavedCtx = Q
    cases A <;> cases P <;> cases Q <;> cases AB <;> cases PP <;> cases E <;> try rfl
    by_cases ht : t.tabs = Tabs.new t.cols <;> cases t.originMode <;>
      simp [ht, modeTail, Avt.Terminal.csi, List.append_assoc, tabs_fold]

/-- a terminal outside every reachable state: `rows = 0` although its buffer has one row, top margin 1 -/
def rowsZeroWitness : Terminal :=
  match Avt.Terminal.new 1 1 none with
  | some t => { t with rows := 0, topMargin := 1 }
  | none => default

/-- **the one difference between code and model**: with `rows = 0` and `top_margin > 0` the Rust condition
    `self.top_margin > 0 || self.bottom_margin < self.rows - 1` short-circuits and never evaluates `self.rows - 1`,
    so the code does not panic; the model subtracts up front and returns `none`.  Unreachable (`rows >= 1` is a
    clause of the invariant); `Terminal.dump_eq` carries the hypothesis `1 <= rows`. -/
theorem dump_rows_zero :
    (GenD.Terminal.dump rowsZeroWitness).isSome = true ∧ Avt.Terminal.dump rowsZeroWitness = none := by
  constructor <;> decide

/-! ### coverage -/

/-- the functions of this module that have an equality theorem above -/
def provedFunctions : List String := [
  "Parser::dump", "Param::fmt", "Color::sgr_params", "Pen::dump", "Line::chunks", "Chunks::new", "Chunks::next",
  "Buffer::dump", "Buffer::rep_encode_cell_text", "Terminal::dump"]

/-- every function the translator emitted has its theorem here (a new Rust function shows up as a failure) -/
theorem coverage_complete : GenD.translated = provedFunctions := by decide

theorem untranslated_as_expected : GenD.untranslated = [] := by decide

end Avt.GenEqDump
