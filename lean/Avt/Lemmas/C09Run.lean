/-
  Avt.Lemmas.C09Run — from the single steps to whole inputs: a fresh terminal fed printable lines
  joined by CR LF ends in the typewriter state for exactly those lines.
-/
import Avt.Lemmas.C09Steps

namespace Avt.Lemmas
open Avt Avt.Spec.C09

/-! ### the fresh terminal -/

theorem TW_init {c r : Nat} {t : Terminal} (hc : 1 ≤ c) (hr : 1 ≤ r)
    (h : Terminal.new c r none = some t) : TWMode t ∧ TWGeom t ∧ TW t [[]] := by
  unfold Terminal.new at h
  have hcs : csub r 1 = some (r - 1) := by unfold csub; simp; omega
  simp only [hcs, Option.map_some, Option.some.injEq] at h
  subst h
  refine ⟨⟨rfl, by show r - 1 + 1 = r; omega, rfl, rfl, ⟨rfl, rfl⟩, rfl, rfl⟩,
    ⟨hc, hr, rfl, rfl, by simp [Buffer.new], by show 0 < r; omega, Or.inr ⟨rfl, by show 0 < c; omega⟩,
      by simp [Dirty.new]⟩, ?_⟩
  refine ⟨[], [], [], [], Line.blank c Pen.default, List.replicate (r - 1) (Line.blank c Pen.default), c,
    rfl, ?_, rfl, rfl, rfl, by simp, rfl, ?_, ?_, by show 0 = 0 * c + 0; simp, by show 0 + 0 = 0 + 0; rfl, ?_⟩
  · show [] ++ List.replicate r (Line.blank c Pen.default) = _
    simp only [List.nil_append]
    have : r = (r - 1) + 1 := by omega
    conv => lhs; rw [this, List.replicate_succ]
    simp
  · intro l hl
    simp only [List.nil_append, List.mem_append, List.mem_singleton, List.mem_replicate] at hl
    rcases hl with hl | hl
    · rw [hl]; simp [Line.blank, Line.len]
    · rw [hl.2]; simp [Line.blank, Line.len]
  · rw [List.nil_append, rowsText_singleton, blank_text]; rfl
  · intro l hl
    rw [(List.mem_replicate.1 hl).2]
    exact ⟨rfl, blank_text _ _⟩

/-! ### typing whole lines -/

/-- the functions the parser dispatches for a printable line, and for lines joined by CR LF -/
def lineFuns (l : List Nat) : List Function := l.map Function.print

def textFuns : List (List Nat) → List Function
  | [] => []
  | [l] => lineFuns l
  | l :: ls => lineFuns l ++ [Function.cr, Function.lf] ++ textFuns ls

/-- execute a list of functions -/
def execAll (t : Terminal) (fs : List Function) : Option Terminal := Terminal.foldM' Terminal.execute fs t

theorem execAll_nil (t : Terminal) : execAll t [] = some t := rfl

theorem execAll_cons (t : Terminal) (f : Function) (fs : List Function) :
    execAll t (f :: fs) = (t.execute f).bind fun t' => execAll t' fs := by
  simp only [execAll, Terminal.foldM']
  cases t.execute f <;> rfl

theorem execAll_append (t : Terminal) (fs gs : List Function) :
    execAll t (fs ++ gs) = (execAll t fs).bind fun t' => execAll t' gs := by
  induction fs generalizing t with
  | nil => simp [execAll_nil]
  | cons f fs ih =>
    rw [List.cons_append, execAll_cons, execAll_cons]
    cases t.execute f with
    | none => rfl
    | some t' => simp [ih]

/-- the typed text after typing the characters of `l` -/
def typeChars (logical : List (List Nat)) (l : List Nat) : List (List Nat) := l.foldl typeChar logical

theorem typeChars_snoc (done : List (List Nat)) (cur l : List Nat) :
    typeChars (done ++ [cur]) l = done ++ [cur ++ l] := by
  induction l generalizing cur with
  | nil => simp [typeChars]
  | cons c cs ih =>
    simp only [typeChars, List.foldl_cons] at ih ⊢
    rw [typeChar_snoc, ih]; simp

theorem TW_nonempty {t : Terminal} {logical : List (List Nat)} (h : TW t logical) :
    ∃ done cur, logical = done ++ [cur] := by
  obtain ⟨done, cur, _, _, _, _, _, rfl, _⟩ := h
  exact ⟨done, cur, rfl⟩

theorem TW_line {t : Terminal} {logical : List (List Nat)} (hm : TWMode t) (hg : TWGeom t)
    (h : TW t logical) (l : List Nat) :
    ∃ t', execAll t (lineFuns l) = some t' ∧ TWMode t' ∧ TWGeom t' ∧ TW t' (typeChars logical l) := by
  induction l generalizing t logical with
  | nil => exact ⟨t, rfl, hm, hg, h⟩
  | cons c cs ih =>
    obtain ⟨t1, h1, hm1, hg1, hw1⟩ := TW_print hm hg h c
    obtain ⟨t2, h2, hm2, hg2, hw2⟩ := ih hm1 hg1 hw1
    refine ⟨t2, ?_, hm2, hg2, hw2⟩
    simp only [lineFuns, List.map_cons, execAll_cons, Terminal.execute, h1, Option.bind_some]
    exact h2

/-- the typed text after typing whole lines separated by CR LF -/
def typeText : List (List Nat) → List (List Nat) → List (List Nat)
  | logical, [] => logical
  | logical, [l] => typeChars logical l
  | logical, l :: ls => typeText (typeNewline (typeChars logical l)) ls

theorem typeText_snoc (done : List (List Nat)) (cur : List Nat) :
    ∀ (ls : List (List Nat)), ls ≠ [] → typeText (done ++ [cur]) ls = done ++ [cur ++ ls.headD []] ++ ls.tail
  | [], h => absurd rfl h
  | [l], _ => by simp [typeText, typeChars_snoc]
  | l :: l2 :: rest, _ => by
    have ih := typeText_snoc (done ++ [cur ++ l]) [] (l2 :: rest) (by simp)
    simp only [typeText, typeChars_snoc, typeNewline]
    rw [ih]; simp

theorem typeText_fresh (ls : List (List Nat)) (h : ls ≠ []) : typeText [[]] ls = ls := by
  have := typeText_snoc [] [] ls h
  simp only [List.nil_append] at this
  rw [this]
  cases ls with
  | nil => exact absurd rfl h
  | cons a b => simp

theorem crlf_eq (t : Terminal) : execAll t [Function.cr, Function.lf] = crlf t := by
  simp only [execAll_cons, execAll_nil, crlf]
  cases t.execute Function.cr with
  | none => rfl
  | some t1 => simp

theorem TW_text_run {t : Terminal} {logical : List (List Nat)} (hm : TWMode t) (hg : TWGeom t)
    (h : TW t logical) : ∀ (ls : List (List Nat)),
    ∃ t', execAll t (textFuns ls) = some t' ∧ TWMode t' ∧ TWGeom t' ∧ TW t' (typeText logical ls) := by
  intro ls
  induction ls generalizing t logical with
  | nil => exact ⟨t, rfl, hm, hg, h⟩
  | cons l rest ih =>
    cases rest with
    | nil => exact TW_line hm hg h l
    | cons l2 rest2 =>
      obtain ⟨t1, h1, hm1, hg1, hw1⟩ := TW_line hm hg h l
      obtain ⟨t2, h2, hm2, hg2, hw2⟩ := TW_crlf hm1 hg1 hw1
      obtain ⟨t3, h3, hm3, hg3, hw3⟩ := ih hm2 hg2 hw2
      refine ⟨t3, ?_, hm3, hg3, hw3⟩
      show execAll t (lineFuns l ++ [Function.cr, Function.lf] ++ textFuns (l2 :: rest2)) = some t3
      rw [execAll_append, execAll_append, h1]
      simp only [Option.bind_some, crlf_eq, h2]
      exact h3

end Avt.Lemmas
