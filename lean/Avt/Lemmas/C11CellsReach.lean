/-
  Avt.Lemmas.C11CellsReach — the cell / pen invariant `CellsInv` holds in every reachable state:
  established by `Vt::new`, preserved by every character fed (the parser emits `Print` only for printable
  characters and SGR colours inside `u8`; every control function preserves it — C11CellsExec), by `resize`
  (cells are only moved or blank-filled — C11CellsResize) and by `changes()` / `gc()`.
-/
import Avt.Lemmas.C11CellsExec
import Avt.Lemmas.C11CellsResize
import Avt.Props.Closed

namespace Avt
namespace Lemmas.C11
open Avt.Spec.C11

theorem reflowCells : ReflowCells := fun _ _ hc h => reflow_cells hc h
theorem resizeCells : ResizeCells := fun _ _ _ _ hc h => resize_cells hc h

/-- every control function the parser can emit preserves the invariant (the two contracts discharged) -/
theorem cellsInv_execute' {t t' : Terminal} {f : Function} (hi : TInv t = true) (hc : CellsInv t) (hf : FnOK f)
    (h : t.execute f = some t') : CellsInv t' :=
  cellsInv_execute reflowCells resizeCells hi hc hf h

theorem cellsInv_feed {v v' : Vt} {c : Nat} (hi : Inv v = true) (hc : CellsInv v.terminal)
    (h : v.feed c = some v') : CellsInv v'.terminal := by
  simp only [Inv, Bool.and_eq_true] at hi
  unfold Vt.feed at h
  cases hp : v.parser.feed c with
  | none => simp [hp] at h
  | some r =>
    obtain ⟨p', fo⟩ := r
    cases fo with
    | none => simp only [hp, Option.some.injEq] at h; subst h; exact hc
    | some f =>
      simp only [hp, Option.map_eq_some_iff] at h
      obtain ⟨t', ht', rfl⟩ := h
      exact cellsInv_execute' hi.2 hc (parser_emits_fnOK hi.1 hp) ht'

theorem cellsInv_feedAll : ∀ (xs : List Nat) {v v' : Vt}, Inv v = true → CellsInv v.terminal →
    v.feedAll xs = some v' → CellsInv v'.terminal
  | [], v, v', _, hc, h => by simp only [Vt.feedAll, Option.some.injEq] at h; subst h; exact hc
  | c :: cs, v, v', hi, hc, h => by
    simp only [Vt.feedAll] at h
    cases h1 : v.feed c with
    | none => simp [h1] at h
    | some v1 =>
      simp only [h1] at h
      obtain ⟨v2, e2, i2⟩ := Props.Closed.C02_feed c hi
      rw [h1] at e2; cases e2
      exact cellsInv_feedAll cs i2 (cellsInv_feed hi hc h1) h

/-- one public call keeps the global invariant and the cell / pen invariant -/
theorem cellsInv_op {v v1 : Vt} (op : HOp) (hi : Inv v = true) (hc : CellsInv v.terminal)
    (hv : ∀ c r, op = HOp.resize c r → 1 ≤ c ∧ 1 ≤ r) (h1 : op.run v = some v1) :
    Inv v1 = true ∧ CellsInv v1.terminal := by
  cases op with
  | feedStr str =>
    simp only [HOp.run, Vt.feedStr] at h1
    cases hfa : v.feedAll str with
    | none => simp [hfa] at h1
    | some w =>
      simp only [hfa, Option.map_some, Option.some.injEq] at h1
      subst h1
      obtain ⟨v', ch, e1, i1, _⟩ := Props.Closed.C02_feedStr str hi
      simp only [Vt.feedStr, hfa, Option.map_some, Option.some.injEq] at e1
      exact ⟨by rw [e1]; exact i1, finish_cells (cellsInv_feedAll str hi hc hfa)⟩
  | feedChars str =>
    simp only [HOp.run] at h1
    obtain ⟨v', e1, i1⟩ := Props.Closed.C02_feedAll str hi
    rw [h1] at e1; cases e1
    exact ⟨i1, cellsInv_feedAll str hi hc h1⟩
  | resize c r =>
    obtain ⟨hc1, hr1⟩ := hv c r rfl
    obtain ⟨v', ch, e1, i1, _⟩ := Props.Closed.C02_resize (c := c) (r := r) hi hc1 hr1
    simp only [HOp.run, e1, Option.map_some, Option.some.injEq] at h1
    subst h1
    exact ⟨i1, vtResize_cells hc e1⟩

theorem cellsInv_runHist : ∀ (hist : List HOp) {v s : Vt}, Inv v = true → CellsInv v.terminal →
    (∀ op ∈ hist, ∀ c r, op = HOp.resize c r → 1 ≤ c ∧ 1 ≤ r) → runHist v hist = some s →
    CellsInv s.terminal
  | [], v, s, _, hc, _, h => by simp only [runHist, Option.some.injEq] at h; subst h; exact hc
  | op :: rest, v, s, hi, hc, hv, h => by
    simp only [runHist] at h
    cases h1 : op.run v with
    | none => simp [h1] at h
    | some v1 =>
      simp only [h1] at h
      obtain ⟨i1, c1⟩ := cellsInv_op op hi hc (hv op (List.mem_cons_self ..)) h1
      exact cellsInv_runHist rest i1 c1 (fun op' ho => hv op' (List.mem_cons_of_mem _ ho)) h

/-- **every reachable state satisfies the cell / pen invariant** -/
theorem reach_cellsInv {s : Vt} (h : Reach s) : CellsInv s.terminal := by
  obtain ⟨cols, rows, lim, hist, hc, hr, hv, hrun⟩ := h
  obtain ⟨v, e, hi⟩ := Props.C02.C02_init lim hc hr
  simp only [e, Option.bind_some] at hrun
  have hc0 : CellsInv v.terminal := by
    simp only [Vt.new, Option.map_eq_some_iff] at e
    obtain ⟨t, ht, rfl⟩ := e
    exact new_cells ht
  exact cellsInv_runHist hist hi hc0 hv hrun

end Lemmas.C11
end Avt
