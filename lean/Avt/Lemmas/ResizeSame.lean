/-
  Avt.Lemmas.ResizeSame — resizes that keep the width: a same-geometry resize is the identity on the
  lines (`resize_same`), and a rows-only resize truncates from the bottom / appends blank lines
  without touching any cell (`resize_rows_only`).
-/
import Avt.Lemmas.ResizeOK

namespace Avt
namespace Buffer

theorem rsStep1_same (lines : List Line) (cols rows : Nat) (cursor logPos : Nat × Nat) :
    rsStep1 lines cols rows cols cursor logPos = some (lines, cursor, rows) := by
  simp [rsStep1]

theorem rsStep2_same (c r : Nat) (lines : List Line) (cursor : Nat × Nat) :
    rsStep2 c r lines cursor r = some (lines, cursor) := by
  simp [rsStep2]

/-- same geometry: nothing changes except `trimNeeded` (no hypothesis on the cursor is needed) -/
theorem resize_same' (b : Buffer) (cur : Nat × Nat) (hv : b.view.length = b.rows) :
    b.resize b.cols b.rows cur = some ({ b with trimNeeded := true }, cur) := by
  have hlen : b.rows ≤ b.lines.length := by
    simp only [Buffer.lines, List.length_append]; omega
  obtain ⟨lp, hlp⟩ := logicalPosition_ok b.lines cur b.cols b.rows hlen
  have hk : csub b.lines.length b.rows = some b.sb.length := by
    simp only [csub]; rw [if_pos hlen]
    simp only [Buffer.lines, List.length_append]
    congr 1; omega
  rw [resize_eq]
  simp only [hlp, rsStep1_same, rsStep2_same, hk]
  have h1 : List.take b.sb.length b.lines = b.sb := by simp [Buffer.lines]
  have h2 : List.drop b.sb.length b.lines = b.view := by simp [Buffer.lines]
  rw [h1, h2]

theorem resize_same (b : Buffer) (cur : Nat × Nat) (h : BInv b = true) (_hcur : cur.2 < b.rows) :
    b.resize b.cols b.rows cur = some ({ b with trimNeeded := true }, cur) :=
  resize_same' b cur ((BInv_unpack b).mp h).2.2.1

/-! ### rows-only resize -/

/-- clear the wrap flag of the last line -/
def unwrapLast : List Line → List Line
  | [] => []
  | [l] => [{ l with wrapped := false }]
  | l :: ls => l :: unwrapLast ls

theorem setLastUnwrapped_eq : ∀ (ls : List Line), ls ≠ [] →
    setLastUnwrapped ls = some (unwrapLast ls) := by
  intro ls
  induction ls with
  | nil => intro h; exact absurd rfl h
  | cons l ls ih =>
    intro _
    cases ls with
    | nil => rfl
    | cons y ys =>
      simp only [setLastUnwrapped, unwrapLast, ih (by simp), Option.map_some]

theorem unwrapLast_length : ∀ (ls : List Line), (unwrapLast ls).length = ls.length := by
  intro ls
  induction ls with
  | nil => rfl
  | cons l ls ih =>
    cases ls with
    | nil => rfl
    | cons y ys => simp only [unwrapLast, List.length_cons] at *; omega

/-- `unwrapLast` changes no cell -/
theorem unwrapLast_cells : ∀ (ls : List Line), (unwrapLast ls).map Line.cells = ls.map Line.cells := by
  intro ls
  induction ls with
  | nil => rfl
  | cons l ls ih =>
    cases ls with
    | nil => rfl
    | cons y ys => simp only [unwrapLast, List.map_cons] at *; rw [ih]

/-- `unwrapLast` changes no wrap flag except the last one -/
theorem unwrapLast_dropLast : ∀ (ls : List Line), (unwrapLast ls).dropLast = ls.dropLast := by
  intro ls
  induction ls with
  | nil => rfl
  | cons l ls ih =>
    cases ls with
    | nil => rfl
    | cons y ys =>
      have hne : unwrapLast (y :: ys) ≠ [] := by
        intro e
        have := congrArg List.length e
        rw [unwrapLast_length] at this; simp at this
      cases hu : unwrapLast (y :: ys) with
      | nil => exact absurd hu hne
      | cons a as =>
        rw [hu] at ih
        simp only [unwrapLast, hu, List.dropLast_cons_cons] at *
        rw [ih]

theorem unwrapLast_lastUnwrapped : ∀ (ls : List Line), lastUnwrapped (unwrapLast ls) = true := by
  intro ls
  induction ls with
  | nil => rfl
  | cons l ls ih =>
    cases ls with
    | nil => rfl
    | cons y ys =>
      have hne : unwrapLast (y :: ys) ≠ [] := by
        intro e
        have := congrArg List.length e
        rw [unwrapLast_length] at this; simp at this
      simp only [unwrapLast]
      rw [lastUnwrapped_cons_of_ne_nil l hne]; exact ih

theorem unwrapLast_of_lastUnwrapped : ∀ (ls : List Line), lastUnwrapped ls = true →
    unwrapLast ls = ls := by
  intro ls
  induction ls with
  | nil => intro _; rfl
  | cons l ls ih =>
    intro h
    cases ls with
    | nil =>
      simp only [lastUnwrapped, Bool.not_eq_true'] at h
      simp only [unwrapLast]
      cases l; simp_all
    | cons y ys =>
      simp only [unwrapLast]
      rw [ih h]

/-- the lines after a rows-only resize: truncated from the bottom by `excess` (and the new last line
    unwrapped), or extended with blank lines once the scrollback has been pulled into the view -/
def rowsOnlyLines (b : Buffer) (r : Nat) (cur : Nat × Nat) : List Line :=
  if r < b.rows then
    let excess := min (b.rows - r) (b.rows - 1 - cur.2)
    if excess > 0 then unwrapLast (b.lines.take (b.lines.length - excess)) else b.lines
  else
    b.lines ++ List.replicate (r - b.rows - min b.sb.length (r - b.rows)) (Line.blank b.cols Pen.default)

/-- the cursor after a rows-only resize -/
def rowsOnlyCursor (b : Buffer) (r : Nat) (cur : Nat × Nat) : Nat × Nat :=
  if r < b.rows then
    (cur.1, cur.2 - (b.rows - r - min (b.rows - r) (b.rows - 1 - cur.2)))
  else if cur.2 < b.rows then (cur.1, cur.2 + min b.sb.length (r - b.rows)) else cur

/-- rows-only resize (width unchanged): closed form of the result.  No reflow happens; the lines are
    `rowsOnlyLines`, re-split so that the view is the last `r` lines. -/
theorem resize_rows_only (b : Buffer) (r : Nat) (cur : Nat × Nat) (h : BInv b = true) (hr : 1 ≤ r)
    (hcur : cur.2 < b.rows ∨ cur.2 < r) :
    let L := rowsOnlyLines b r cur
    r ≤ L.length ∧
    b.resize b.cols r cur =
      some ({ b with sb := L.take (L.length - r), view := L.drop (L.length - r), rows := r,
                     trimNeeded := true }, rowsOnlyCursor b r cur) := by
  intro L
  obtain ⟨_, hbr, hvl, _, _, _, _, _⟩ := (BInv_unpack b).mp h
  have hlen : b.rows ≤ b.lines.length := by
    simp only [Buffer.lines, List.length_append]; omega
  have hll : b.lines.length = b.sb.length + b.rows := by
    simp only [Buffer.lines, List.length_append]; omega
  obtain ⟨lp, hlp⟩ := logicalPosition_ok b.lines cur b.cols b.rows hlen
  have key : rsStep2 b.cols r b.lines cur b.rows = some (L, rowsOnlyCursor b r cur) ∧ r ≤ L.length := by
    show rsStep2 b.cols r b.lines cur b.rows = some (rowsOnlyLines b r cur, rowsOnlyCursor b r cur)
      ∧ r ≤ (rowsOnlyLines b r cur).length
    unfold rsStep2 rowsOnlyLines rowsOnlyCursor
    by_cases h1 : r < b.rows
    · simp only [h1, if_true]
      have hcur' : cur.2 < b.rows := by omega
      have e1 : csub b.rows 1 = some (b.rows - 1) := by simp [csub, hbr]
      have e2 : csub (b.rows - 1) cur.2 = some (b.rows - 1 - cur.2) := by
        simp only [csub]; rw [if_pos (by omega)]
      simp only [e1, e2]
      generalize hex : min (b.rows - r) (b.rows - 1 - cur.2) = excess
      have e3 : csub cur.2 (b.rows - r - excess) = some (cur.2 - (b.rows - r - excess)) := by
        simp only [csub]; rw [if_pos (by omega)]
      by_cases hpos : excess > 0
      · simp only [hpos, if_true]
        have e4 : csub b.lines.length excess = some (b.lines.length - excess) := by
          simp only [csub]; rw [if_pos (by omega)]
        have hne : b.lines.take (b.lines.length - excess) ≠ [] := by
          intro e
          have := congrArg List.length e
          simp at this; omega
        simp only [e4, setLastUnwrapped_eq _ hne, e3, unwrapLast_length, List.length_take]
        exact ⟨by first | rfl | trivial, by omega⟩
      · simp only [hpos, if_false, e3]
        exact ⟨by first | rfl | trivial, by omega⟩
    · simp only [h1, if_false]
      by_cases h2 : r > b.rows
      · simp only [h2, if_true]
        have hsb : b.lines.length - min b.rows b.lines.length = b.sb.length := by omega
        simp only [hsb]
        by_cases h3 : r - b.rows - min b.sb.length (r - b.rows) > 0
        · simp only [h3, if_true, List.length_append, List.length_replicate]
          exact ⟨by first | rfl | trivial, by omega⟩
        · have h4 : r - b.rows - min b.sb.length (r - b.rows) = 0 := by omega
          simp only [h4, List.replicate_zero, List.append_nil, Nat.lt_irrefl, if_false]
          exact ⟨by first | rfl | trivial, by omega⟩
      · have h5 : r = b.rows := by omega
        have hc' : ¬ cur.2 < b.rows ∨ cur.2 < b.rows := by omega
        simp only [h5, Nat.lt_irrefl, if_false, Nat.sub_self, List.replicate_zero,
          List.append_nil, Nat.min_zero, Nat.add_zero]
        refine ⟨?_, hlen⟩
        split <;> rfl
  refine ⟨key.2, ?_⟩
  have hk : csub L.length r = some (L.length - r) := by simp [csub, key.2]
  rw [resize_eq]
  simp only [hlp, rsStep1_same, key.1, hk]

/-- every line that survives a rows-only resize keeps its cells: the resulting lines, cell-wise, are
    a prefix of the old lines followed by blank lines -/
theorem rowsOnlyLines_cells (b : Buffer) (r : Nat) (cur : Nat × Nat) :
    ∃ k n, (rowsOnlyLines b r cur).map Line.cells =
      (b.lines.take k).map Line.cells ++ List.replicate n (Line.blank b.cols Pen.default).cells
      ∧ (r ≥ b.rows → k = b.lines.length)
      ∧ (r ≤ b.rows → n = 0) := by
  unfold rowsOnlyLines
  by_cases h1 : r < b.rows
  · simp only [h1, if_true]
    split
    · refine ⟨b.lines.length - min (b.rows - r) (b.rows - 1 - cur.2), 0, ?_, by omega, fun _ => rfl⟩
      simp [unwrapLast_cells]
    · exact ⟨b.lines.length, 0, by simp, fun _ => rfl, fun _ => rfl⟩
  · simp only [h1, if_false]
    refine ⟨b.lines.length, r - b.rows - min b.sb.length (r - b.rows), ?_, fun _ => rfl, ?_⟩
    · simp only [List.map_append, List.map_replicate, List.take_length]
    · intro h; omega

end Buffer
end Avt
