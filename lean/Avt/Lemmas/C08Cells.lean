/-
  Avt.Lemmas.C08Cells — every cell stored by a printing / blanking function carries the current pen:
  a predicate `Q` on cells that holds for every cell carrying the pen and for every cell of the view
  still holds for every cell of the view afterwards.
-/
import Avt.Spec.C08

namespace Avt.Spec.C08
open Avt

def LineOK (Q : Cell → Prop) (l : Line) : Prop := ∀ c ∈ l.cells, Q c
def AllCells (Q : Cell → Prop) (v : List Line) : Prop := ∀ l ∈ v, LineOK Q l

/-! ### list primitives -/

theorem fillRange_mem {α} {l l' : List α} {a b : Nat} {x : α} (h : fillRange l a b x = some l') :
    ∀ c ∈ l', c = x ∨ c ∈ l := by
  unfold fillRange at h
  split at h
  · cases h
    intro c hc
    simp only [List.mem_append, List.mem_replicate] at hc
    rcases hc with (hc | hc) | hc
    · exact Or.inr (List.mem_of_mem_take hc)
    · exact Or.inl hc.2
    · exact Or.inr (List.mem_of_mem_drop hc)
  · cases h

theorem fillRange_get {α} {l l' : List α} {a b : Nat} {x : α} (h : fillRange l a b x = some l')
    (i : Nat) (h1 : a ≤ i) (h2 : i < b) : l'[i]? = some x := by
  unfold fillRange at h
  split at h
  · rename_i hab
    cases h
    have : (List.take a l).length = a := by simp; omega
    rw [List.append_assoc, List.getElem?_append_right (by omega)]
    rw [List.getElem?_append_left (by simp; omega)]
    simp [List.getElem?_replicate]; omega
  · cases h

theorem rotL_mem {α} {l l' : List α} {a b n : Nat} (h : rotLRange l a b n = some l') :
    ∀ c ∈ l', c ∈ l := by
  unfold rotLRange at h
  split at h
  · cases h
    intro c hc
    simp only [List.mem_append] at hc
    rcases hc with (hc | hc | hc) | hc
    · exact List.mem_of_mem_take hc
    · exact List.mem_of_mem_take (List.mem_of_mem_drop (List.mem_of_mem_drop hc))
    · exact List.mem_of_mem_take (List.mem_of_mem_drop (List.mem_of_mem_take hc))
    · exact List.mem_of_mem_drop hc
  · cases h

theorem rotR_mem {α} {l l' : List α} {a b n : Nat} (h : rotRRange l a b n = some l') :
    ∀ c ∈ l', c ∈ l := by
  unfold rotRRange at h
  split at h
  · cases h
    intro c hc
    simp only [List.mem_append] at hc
    rcases hc with (hc | hc | hc) | hc
    · exact List.mem_of_mem_take hc
    · exact List.mem_of_mem_take (List.mem_of_mem_drop (List.mem_of_mem_drop hc))
    · exact List.mem_of_mem_take (List.mem_of_mem_drop (List.mem_of_mem_take hc))
    · exact List.mem_of_mem_drop hc
  · cases h

theorem setAt_mem {α} {l l' : List α} {i : Nat} {x : α} (h : setAt l i x = some l') :
    ∀ c ∈ l', c = x ∨ c ∈ l := by
  unfold setAt at h
  split at h
  · cases h
    intro c hc
    rcases List.mem_or_eq_of_mem_set hc with h | h
    · exact Or.inr h
    · exact Or.inl h
  · cases h

theorem modAtM_mem {α} {l l' : List α} {i : Nat} {f : α → Option α} (h : modAtM l i f = some l') :
    ∀ y ∈ l', y ∈ l ∨ ∃ x ∈ l, f x = some y := by
  unfold modAtM at h
  split at h
  · rename_i x hx
    split at h
    · rename_i y hy
      cases h
      intro c hc
      rcases List.mem_or_eq_of_mem_set hc with h | h
      · exact Or.inl h
      · subst h; exact Or.inr ⟨x, List.mem_of_getElem? hx, hy⟩
    · cases h
  · cases h

/-! ### lines -/

variable {Q : Cell → Prop}

theorem blank_ok {cols : Nat} {pen : Pen} (hb : Q (Cell.blank pen)) : LineOK Q (Line.blank cols pen) := by
  intro c hc
  simp only [Line.blank, List.mem_replicate] at hc
  rw [hc.2]; exact hb

theorem lineClear_ok {l l' : Line} {a b : Nat} {pen : Pen} (hb : Q (Cell.blank pen)) (hl : LineOK Q l)
    (h : l.clear a b pen = some l') : LineOK Q l' := by
  unfold Line.clear at h
  cases hf : fillRange l.cells a b (Cell.blank pen) with
  | none => simp [hf] at h
  | some cs =>
    simp only [hf, Option.map_some, Option.some.injEq] at h
    subst h
    intro c hc
    rcases fillRange_mem hf c hc with h | h
    · rw [h]; exact hb
    · exact hl c h

theorem linePrint_ok {l l' : Line} {col : Nat} {cell : Cell} (hc : Q cell) (hl : LineOK Q l)
    (h : l.print col cell = some l') : LineOK Q l' := by
  unfold Line.print at h
  cases hf : setAt l.cells col cell with
  | none => simp [hf] at h
  | some cs =>
    simp only [hf, Option.map_some, Option.some.injEq] at h
    subst h
    intro c hc'
    rcases setAt_mem hf c hc' with h | h
    · rw [h]; exact hc
    · exact hl c h

theorem lineInsert_ok {l l' : Line} {col n : Nat} {cell : Cell} (hc : Q cell) (hl : LineOK Q l)
    (h : l.insert col n cell = some l') : LineOK Q l' := by
  unfold Line.insert at h
  cases hr : rotRRange l.cells col l.cells.length n with
  | none => simp [hr] at h
  | some cs =>
    simp only [hr] at h
    cases hf : fillRange cs col (col + n) cell with
    | none => simp [hf] at h
    | some cs' =>
      simp only [hf, Option.map_some, Option.some.injEq] at h
      subst h
      intro c hc'
      rcases fillRange_mem hf c hc' with h | h
      · rw [h]; exact hc
      · exact hl c (rotR_mem hr c h)

theorem lineDelete_ok {l l' : Line} {col n : Nat} {pen : Pen} (hb : Q (Cell.blank pen)) (hl : LineOK Q l)
    (h : l.delete col n pen = some l') : LineOK Q l' := by
  unfold Line.delete at h
  cases hr : rotLRange l.cells col l.cells.length n with
  | none => simp [hr] at h
  | some cs =>
    simp only [hr] at h
    cases hs : csub cs.length n with
    | none => simp [hs] at h
    | some start =>
      simp only [hs] at h
      cases hf : fillRange cs start cs.length (Cell.blank pen) with
      | none => simp [hf] at h
      | some cs' =>
        simp only [hf, Option.map_some, Option.some.injEq] at h
        subst h
        intro c hc'
        rcases fillRange_mem hf c hc' with h | h
        · rw [h]; exact hb
        · exact hl c (rotL_mem hr c h)

/-- the cells a `Line.clear` blanks are blanks carrying the pen -/
theorem lineClear_get {l l' : Line} {a b : Nat} {pen : Pen} (h : l.clear a b pen = some l')
    (i : Nat) (h1 : a ≤ i) (h2 : i < b) : l'.cells[i]? = some (Cell.blank pen) := by
  unfold Line.clear at h
  cases hf : fillRange l.cells a b (Cell.blank pen) with
  | none => simp [hf] at h
  | some cs =>
    simp only [hf, Option.map_some, Option.some.injEq] at h
    subst h
    exact fillRange_get hf i h1 h2


/-! ### buffers -/

theorem updRow_ok {b b' : Buffer} {row : Nat} {f : Line → Option Line} (hv : AllCells Q b.view)
    (hf : ∀ l l', LineOK Q l → f l = some l' → LineOK Q l') (h : b.updRow row f = some b') :
    AllCells Q b'.view := by
  unfold Buffer.updRow at h
  cases hm : modAtM b.view row f with
  | none => simp [hm] at h
  | some v =>
    simp only [hm, Option.map_some, Option.some.injEq] at h
    subst h
    intro l hl
    rcases modAtM_mem hm l hl with h | ⟨x, hx, hfx⟩
    · exact hv l h
    · exact hf x l (hv x hx) hfx

theorem bufPrint_ok {b b' : Buffer} {col row : Nat} {cell : Cell} (hc : Q cell) (hv : AllCells Q b.view)
    (h : b.print col row cell = some b') : AllCells Q b'.view :=
  updRow_ok hv (fun _ _ hl hp => linePrint_ok hc hl hp) h

theorem bufWrap_ok {b b' : Buffer} {row : Nat} (hv : AllCells Q b.view)
    (h : b.wrap row = some b') : AllCells Q b'.view :=
  updRow_ok hv (fun l l' hl hp => by cases hp; exact hl) h

theorem bufUnwrap_ok {b b' : Buffer} {row : Nat} (hv : AllCells Q b.view)
    (h : b.unwrapRow row = some b') : AllCells Q b'.view :=
  updRow_ok hv (fun l l' hl hp => by cases hp; exact hl) h

theorem bufInsert_ok {b b' : Buffer} {col row n : Nat} {cell : Cell} (hc : Q cell)
    (hv : AllCells Q b.view) (h : b.insert col row n cell = some b') : AllCells Q b'.view := by
  unfold Buffer.insert at h
  cases hs : csub b.cols col with
  | none => simp [hs] at h
  | some room =>
    simp only [hs] at h
    exact updRow_ok hv (fun _ _ hl hp => lineInsert_ok hc hl hp) h

theorem bufDelete_ok {b b' : Buffer} {col row n : Nat} {pen : Pen} (hb : Q (Cell.blank pen))
    (hv : AllCells Q b.view) (h : b.delete col row n pen = some b') : AllCells Q b'.view := by
  unfold Buffer.delete at h
  cases hs : csub b.cols col with
  | none => simp [hs] at h
  | some room =>
    simp only [hs] at h
    refine updRow_ok hv (fun l l' hl hp => ?_) h
    cases hd : l.delete col (min n room) pen with
    | none => simp [hd] at hp
    | some l1 =>
      simp only [hd, Option.map_some, Option.some.injEq] at hp
      subst hp
      exact fun c hc => lineDelete_ok hb hl hd c hc

theorem bufClear_ok {b b' : Buffer} {a c : Nat} {pen : Pen} (hb : Q (Cell.blank pen))
    (hv : AllCells Q b.view) (h : b.clear a c pen = some b') : AllCells Q b'.view := by
  unfold Buffer.clear at h
  cases hf : fillRange b.view a c (Line.blank b.cols pen) with
  | none => simp [hf] at h
  | some v =>
    simp only [hf, Option.map_some, Option.some.injEq] at h
    subst h
    intro l hl
    rcases fillRange_mem hf l hl with h | h
    · rw [h]; exact blank_ok hb
    · exact hv l h

theorem clearMap_ok {l l' : Line} {a b : Nat} {pen : Pen} {g : Line → Line}
    (hg : ∀ x, (g x).cells = x.cells) (hb : Q (Cell.blank pen)) (hl : LineOK Q l)
    (h : (l.clear a b pen).map g = some l') : LineOK Q l' := by
  cases hc : l.clear a b pen with
  | none => simp [hc] at h
  | some l1 =>
    simp only [hc, Option.map_some, Option.some.injEq] at h
    subst h
    intro c hc'
    rw [hg] at hc'
    exact lineClear_ok hb hl hc c hc'

theorem bufErase_ok {b b' : Buffer} {col row : Nat} {mode : Buffer.EraseMode} {pen : Pen}
    (hb : Q (Cell.blank pen)) (hv : AllCells Q b.view) (h : b.erase col row mode pen = some b') :
    AllCells Q b'.view := by
  unfold Buffer.erase at h
  cases mode with
  | nextChars n =>
    simp only at h
    cases hs : csub b.cols col with
    | none => simp [hs] at h
    | some room =>
      simp only [hs] at h
      refine updRow_ok hv (fun l l' hl hp => ?_) h
      exact clearMap_ok (g := fun l' => if (col + min n room == b.cols) = true then { l' with wrapped := false } else l')
        (fun x => by split <;> rfl) hb hl hp
  | fromCursorToEndOfView =>
    simp only at h
    cases h1 : b.updRow row (fun l => ({ l with wrapped := false } : Line).clear col b.cols pen) with
    | none => simp [h1] at h
    | some b1 =>
      simp only [h1] at h
      refine bufClear_ok hb (updRow_ok hv (fun l l' hl hp => ?_) h1) h
      exact lineClear_ok (l := { l with wrapped := false }) hb hl hp
  | fromStartOfViewToCursor =>
    simp only at h
    cases h1 : b.updRow row (fun l => l.clear 0 (min (col + 1) b.cols) pen) with
    | none => simp [h1] at h
    | some b1 =>
      simp only [h1] at h
      exact bufClear_ok hb (updRow_ok hv (fun l l' hl hp => lineClear_ok hb hl hp) h1) h
  | wholeView => exact bufClear_ok hb hv h
  | fromCursorToEndOfLine =>
    exact updRow_ok hv (fun l l' hl hp => clearMap_ok (g := fun l' => { l' with wrapped := false })
      (fun _ => rfl) hb hl hp) h
  | fromStartOfLineToCursor =>
    exact updRow_ok hv (fun l l' hl hp => lineClear_ok hb hl hp) h
  | wholeLine =>
    exact updRow_ok hv (fun l l' hl hp => clearMap_ok (g := fun l' => { l' with wrapped := false })
      (fun _ => rfl) hb hl hp) h


theorem bufScrollUp_ok {b b' : Buffer} {s e n : Nat} {pen : Pen} (hb : Q (Cell.blank pen))
    (hv : AllCells Q b.view) (h : b.scrollUp s e n pen = some b') : AllCells Q b'.view := by
  unfold Buffer.scrollUp at h
  split at h
  · rename_i hh e1 r1 _ _ _
    simp only at h
    split at h
    · cases h
    · rename_i b1 hb1
      have hv1 : AllCells Q b1.view := by
        split at hb1
        · exact bufUnwrap_ok hv hb1
        · cases hb1; exact hv
      split at h
      · split at h
        · cases h
          intro l hl
          have hl := List.mem_of_mem_drop hl
          simp only [List.mem_append, List.mem_replicate] at hl
          rcases hl with hl | hl
          · exact hv1 l hl
          · rw [hl.2]; exact blank_ok hb
        · split at h
          · cases h
            intro l hl
            have hl := List.mem_of_mem_drop hl
            simp only [List.mem_append, List.mem_replicate] at hl
            rcases hl with (hl | hl) | hl
            · exact hv1 l (List.mem_of_mem_take hl)
            · rw [hl.2]; exact blank_ok hb
            · exact hv1 l (List.mem_of_mem_drop hl)
          · cases h
      · split at h
        · cases h
        · rename_i s1 _
          split at h
          · cases h
          · rename_i b2 hb2
            have hv2 := bufUnwrap_ok hv1 hb2
            split at h
            · cases h
            · rename_i v hrot
              split at h
              · cases h
              · rename_i b3 hb3
                cases h
                have : AllCells Q b3.view := by
                  refine bufClear_ok hb (b := { b2 with view := v }) ?_ hb3
                  intro l hl
                  exact hv2 l (rotL_mem hrot l hl)
                exact this
  · cases h

theorem bufScrollDown_ok {b b' : Buffer} {s e n : Nat} {pen : Pen} (hb : Q (Cell.blank pen))
    (hv : AllCells Q b.view) (h : b.scrollDown s e n pen = some b') : AllCells Q b'.view := by
  unfold Buffer.scrollDown at h
  split at h
  · cases h
  · rename_i hh _
    simp only at h
    split at h
    · cases h
    · rename_i v hrot
      split at h
      · cases h
      · rename_i b1 hb1
        have hv1 : AllCells Q b1.view := by
          refine bufClear_ok hb (b := { b with view := v }) ?_ hb1
          intro l hl
          exact hv l (rotR_mem hrot l hl)
        split at h
        · cases h
        · rename_i b2 hb2
          have hv2 : AllCells Q b2.view := by
            split at hb2
            · exact bufUnwrap_ok hv1 hb2
            · cases hb2; exact hv1
          split at h
          · cases h
          · exact bufUnwrap_ok hv2 h


/-! ### terminal -/

/-- the pen is `pen` and every cell of the view satisfies `Q` -/
def St (Q : Cell → Prop) (pen : Pen) (t : Terminal) : Prop := t.pen = pen ∧ AllCells Q t.buffer.view

/-- pen and buffer untouched -/
def Keeps (t t' : Terminal) : Prop := t'.pen = t.pen ∧ t'.buffer = t.buffer

theorem St.keeps {pen : Pen} {t t' : Terminal} (h : St Q pen t) (k : Keeps t t') : St Q pen t' :=
  ⟨k.1.trans h.1, by rw [k.2]; exact h.2⟩

theorem St.withBuffer {pen : Pen} {t : Terminal} {b : Buffer} (h : St Q pen t) (hb : AllCells Q b.view) :
    St Q pen { t with buffer := b } := ⟨h.1, hb⟩

theorem markDirty_keeps {t t' : Terminal} {r : Nat} (h : t.markDirty r = some t') : Keeps t t' := by
  unfold Terminal.markDirty at h
  cases hd : Dirty.add t.dirtyLines r with
  | none => simp [hd] at h
  | some d => simp only [hd, Option.map_some, Option.some.injEq] at h; subst h; exact ⟨rfl, rfl⟩

theorem markDirtyRange_keeps {t t' : Terminal} {a b : Nat} (h : t.markDirtyRange a b = some t') :
    Keeps t t' := by
  unfold Terminal.markDirtyRange at h
  cases hd : Dirty.extend t.dirtyLines a b with
  | none => simp [hd] at h
  | some d => simp only [hd, Option.map_some, Option.some.injEq] at h; subst h; exact ⟨rfl, rfl⟩

theorem doMoveCursorToRow_keeps {t t' : Terminal} {r : Nat} (h : t.doMoveCursorToRow r = some t') :
    Keeps t t' := by
  unfold Terminal.doMoveCursorToRow at h
  cases hd : csub t.cols 1 with
  | none => simp [hd] at h
  | some d => simp only [hd, Option.map_some, Option.some.injEq] at h; subst h; exact ⟨rfl, rfl⟩

theorem moveCursorToCol_keeps {t t' : Terminal} {c : Nat} (h : t.moveCursorToCol c = some t') :
    Keeps t t' := by
  unfold Terminal.moveCursorToCol at h
  split at h
  · cases hd : csub t.cols 1 with
    | none => simp [hd] at h
    | some d => simp only [hd, Option.map_some, Option.some.injEq] at h; subst h; exact ⟨rfl, rfl⟩
  · cases h; exact ⟨rfl, rfl⟩

theorem scrollUpInRegion_ok {pen : Pen} {t t' : Terminal} {n : Nat} (hQ : Q (Cell.blank pen))
    (hs : St Q pen t) (h : t.scrollUpInRegion n = some t') : St Q pen t' := by
  unfold Terminal.scrollUpInRegion at h
  split at h
  · cases h
  · rename_i b hb
    cases hd : Dirty.extend t.dirtyLines t.topMargin (t.bottomMargin + 1) with
    | none => simp [hd] at h
    | some d =>
      simp only [hd, Option.map_some, Option.some.injEq] at h; subst h
      rw [hs.1] at hb
      exact ⟨hs.1, bufScrollUp_ok hQ hs.2 hb⟩

theorem scrollDownInRegion_ok {pen : Pen} {t t' : Terminal} {n : Nat} (hQ : Q (Cell.blank pen))
    (hs : St Q pen t) (h : t.scrollDownInRegion n = some t') : St Q pen t' := by
  unfold Terminal.scrollDownInRegion at h
  split at h
  · cases h
  · rename_i b hb
    cases hd : Dirty.extend t.dirtyLines t.topMargin (t.bottomMargin + 1) with
    | none => simp [hd] at h
    | some d =>
      simp only [hd, Option.map_some, Option.some.injEq] at h; subst h
      rw [hs.1] at hb
      exact ⟨hs.1, bufScrollDown_ok hQ hs.2 hb⟩

theorem moveCursorDownWithScroll_ok {pen : Pen} {t t' : Terminal} (hQ : Q (Cell.blank pen))
    (hs : St Q pen t) (h : t.moveCursorDownWithScroll = some t') : St Q pen t' := by
  unfold Terminal.moveCursorDownWithScroll at h
  split at h
  · exact scrollUpInRegion_ok hQ hs h
  · split at h
    · cases h
    · split at h
      · exact hs.keeps (doMoveCursorToRow_keeps h)
      · cases h; exact hs

theorem print_ok {pen : Pen} {t t' : Terminal} {ch : Nat} (hQ : ∀ c, Q ⟨c, pen⟩)
    (hs : St Q pen t) (h : t.print ch = some t') : St Q pen t' := by
  have hB : Q (Cell.blank pen) := hQ 0x20
  unfold Terminal.print at h
  split at h
  · cases h
  · split at h
    · cases h
    · rename_i cs _ ch' _
      simp only at h
      split at h
      · cases h
      · rename_i t1 ht1
        split at h
        · cases h
        · rename_i t2 ht2
          have hs1 : St Q pen t1 := by
            split at ht1
            · have hs0 : St Q pen (t.doMoveCursorToCol 0) := hs.keeps ⟨rfl, rfl⟩
              generalize t.doMoveCursorToCol 0 = t0 at ht1 hs0
              split at ht1
              · split at ht1
                · cases ht1
                · rename_i b hb
                  have hsb : St Q pen { t0 with buffer := b } := hs0.withBuffer (bufWrap_ok hs0.2 hb)
                  split at ht1
                  · cases ht1
                  · rename_i t3 ht3
                    have hs3 := scrollUpInRegion_ok hB hsb ht3
                    split at ht1
                    · cases ht1
                    · split at ht1
                      · split at ht1
                        · cases ht1
                        · rename_i bm1 _
                          cases hw : t3.buffer.wrap bm1 with
                          | none => simp [hw] at ht1
                          | some b4 =>
                            simp only [hw, Option.map_some, Option.some.injEq] at ht1
                            subst ht1
                            exact hs3.withBuffer (bufWrap_ok hs3.2 hw)
                      · cases ht1; exact hs3
              · split at ht1
                · cases ht1
                · split at ht1
                  · split at ht1
                    · cases ht1
                    · rename_i b hb
                      have hsb : St Q pen { t0 with buffer := b } := hs0.withBuffer (bufWrap_ok hs0.2 hb)
                      exact hsb.keeps (doMoveCursorToRow_keeps ht1)
                  · cases ht1; exact hs0
            · cases ht1; exact hs
          have hcell : Q ⟨ch', t.pen⟩ := by rw [hs.1]; exact hQ ch'
          have hs2 : St Q pen t2 := by
            split at ht2
            · split at ht2
              · cases ht2
              · split at ht2
                · cases ht2
                · rename_i b hb
                  have hsb : St Q pen { t1 with buffer := b } := hs1.withBuffer (bufPrint_ok hcell hs1.2 hb)
                  split at ht2
                  · cases ht2; exact hsb.keeps ⟨rfl, rfl⟩
                  · cases ht2; exact hsb
            · split at ht2
              · cases ht2
              · rename_i b hb
                cases ht2
                have hvb : AllCells Q b.view := by
                  split at hb
                  · exact bufInsert_ok hcell hs1.2 hb
                  · exact bufPrint_ok hcell hs1.2 hb
                exact (hs1.withBuffer hvb).keeps ⟨rfl, rfl⟩
          exact hs2.keeps (markDirty_keeps h)

theorem printN_ok {pen : Pen} {ch : Nat} (hQ : ∀ c, Q ⟨c, pen⟩) :
    ∀ (k : Nat) {t t' : Terminal}, St Q pen t → t.printN ch k = some t' → St Q pen t'
  | 0, t, t', hs, h => by cases h; exact hs
  | k + 1, t, t', hs, h => by
    unfold Terminal.printN at h
    split at h
    · cases h
    · rename_i t1 h1
      exact printN_ok hQ k (print_ok hQ hs h1) h

theorem rep_ok {pen : Pen} {t t' : Terminal} {n : Nat} (hQ : ∀ c, Q ⟨c, pen⟩)
    (hs : St Q pen t) (h : t.rep n = some t') : St Q pen t' := by
  unfold Terminal.rep at h
  split at h
  · split at h
    · cases h
    · split at h
      · cases h
      · exact printN_ok hQ _ hs h
  · cases h; exact hs

theorem eraseWith_ok {pen : Pen} {t t' : Terminal} {mode : Buffer.EraseMode} (hB : Q (Cell.blank pen))
    (hs : St Q pen t) (h : t.eraseWith mode = some t') : St Q pen t' := by
  unfold Terminal.eraseWith at h
  cases he : t.buffer.erase t.cursor.col t.cursor.row mode t.pen with
  | none => simp [he] at h
  | some b =>
    simp only [he, Option.map_some, Option.some.injEq] at h
    subst h
    rw [hs.1] at he
    exact hs.withBuffer (bufErase_ok hB hs.2 he)

theorem ich_ok {pen : Pen} {t t' : Terminal} {n : Nat} (hB : Q (Cell.blank pen))
    (hs : St Q pen t) (h : t.ich n = some t') : St Q pen t' := by
  unfold Terminal.ich at h
  split at h
  · cases h
  · rename_i b hb
    rw [hs.1] at hb
    exact (hs.withBuffer (bufInsert_ok hB hs.2 hb)).keeps (markDirty_keeps h)

theorem dch_ok {pen : Pen} {t t' : Terminal} {n : Nat} (hB : Q (Cell.blank pen))
    (hs : St Q pen t) (h : t.dch n = some t') : St Q pen t' := by
  unfold Terminal.dch at h
  simp only at h
  split at h
  · cases h
  · rename_i t1 ht1
    have hs1 : St Q pen t1 := by
      split at ht1
      · split at ht1
        · cases ht1
        · exact hs.keeps (moveCursorToCol_keeps ht1)
      · cases ht1; exact hs
    split at h
    · cases h
    · rename_i b hb
      rw [hs1.1] at hb
      exact (hs1.withBuffer (bufDelete_ok hB hs1.2 hb)).keeps (markDirty_keeps h)

theorem ech_ok {pen : Pen} {t t' : Terminal} {n : Nat} (hB : Q (Cell.blank pen))
    (hs : St Q pen t) (h : t.ech n = some t') : St Q pen t' := by
  unfold Terminal.ech at h
  split at h
  · cases h
  · rename_i t1 ht1
    exact (eraseWith_ok hB hs ht1).keeps (markDirty_keeps h)

theorem ed_ok {pen : Pen} {t t' : Terminal} {sc : EdScope} (hB : Q (Cell.blank pen))
    (hs : St Q pen t) (h : t.ed sc = some t') : St Q pen t' := by
  unfold Terminal.ed at h
  cases sc with
  | below =>
    simp only at h
    split at h
    · cases h
    · rename_i t1 ht1
      exact (eraseWith_ok hB hs ht1).keeps (markDirtyRange_keeps h)
  | above =>
    simp only at h
    split at h
    · cases h
    · rename_i t1 ht1
      exact (eraseWith_ok hB hs ht1).keeps (markDirtyRange_keeps h)
  | all =>
    simp only at h
    split at h
    · cases h
    · rename_i t1 ht1
      exact (eraseWith_ok hB hs ht1).keeps (markDirtyRange_keeps h)
  | savedLines => cases h; exact hs

theorem el_ok {pen : Pen} {t t' : Terminal} {sc : ElScope} (hB : Q (Cell.blank pen))
    (hs : St Q pen t) (h : t.el sc = some t') : St Q pen t' := by
  unfold Terminal.el at h
  simp only at h
  split at h
  · cases h
  · rename_i t1 ht1
    exact (eraseWith_ok hB hs ht1).keeps (markDirty_keeps h)

theorem il_ok {pen : Pen} {t t' : Terminal} {n : Nat} (hB : Q (Cell.blank pen))
    (hs : St Q pen t) (h : t.il n = some t') : St Q pen t' := by
  unfold Terminal.il at h
  simp only at h
  split at h
  · cases h
  · rename_i b hb
    rw [hs.1] at hb
    exact (hs.withBuffer (bufScrollDown_ok hB hs.2 hb)).keeps (markDirtyRange_keeps h)

theorem dl_ok {pen : Pen} {t t' : Terminal} {n : Nat} (hB : Q (Cell.blank pen))
    (hs : St Q pen t) (h : t.dl n = some t') : St Q pen t' := by
  unfold Terminal.dl at h
  simp only at h
  split at h
  · cases h
  · rename_i b hb
    rw [hs.1] at hb
    exact (hs.withBuffer (bufScrollUp_ok hB hs.2 hb)).keeps (markDirtyRange_keeps h)

theorem lf_ok {pen : Pen} {t t' : Terminal} (hB : Q (Cell.blank pen))
    (hs : St Q pen t) (h : t.lf = some t') : St Q pen t' := by
  unfold Terminal.lf at h
  cases hm : t.moveCursorDownWithScroll with
  | none => simp [hm] at h
  | some t1 =>
    simp only [hm, Option.map_some, Option.some.injEq] at h
    subst h
    have := moveCursorDownWithScroll_ok hB hs hm
    split
    · exact this.keeps ⟨rfl, rfl⟩
    · exact this

theorem nel_ok {pen : Pen} {t t' : Terminal} (hB : Q (Cell.blank pen))
    (hs : St Q pen t) (h : t.nel = some t') : St Q pen t' := by
  unfold Terminal.nel at h
  cases hm : t.moveCursorDownWithScroll with
  | none => simp [hm] at h
  | some t1 =>
    simp only [hm, Option.map_some, Option.some.injEq] at h
    subst h
    exact (moveCursorDownWithScroll_ok hB hs hm).keeps ⟨rfl, rfl⟩

theorem ri_ok {pen : Pen} {t t' : Terminal} (hB : Q (Cell.blank pen))
    (hs : St Q pen t) (h : t.ri = some t') : St Q pen t' := by
  unfold Terminal.ri at h
  split at h
  · exact scrollDownInRegion_ok hB hs h
  · split at h
    · exact hs.keeps (doMoveCursorToRow_keeps h)
    · cases h; exact hs

/-- every function that prints or blanks keeps `St` -/
theorem writes_ok {pen : Pen} {t t' : Terminal} {f : Function} (hw : writesWithPen f = true)
    (hQ : ∀ c, Q ⟨c, pen⟩) (hs : St Q pen t) (h : t.execute f = some t') : St Q pen t' := by
  have hB : Q (Cell.blank pen) := hQ 0x20
  cases f <;> simp only [writesWithPen, Bool.false_eq_true] at hw <;> simp only [Terminal.execute] at h
  case print ch => exact print_ok hQ hs h
  case rep n => exact rep_ok hQ hs h
  case ich n => exact ich_ok hB hs h
  case dch n => exact dch_ok hB hs h
  case ech n => exact ech_ok hB hs h
  case ed sc => exact ed_ok hB hs h
  case el sc => exact el_ok hB hs h
  case il n => exact il_ok hB hs h
  case dl n => exact dl_ok hB hs h
  case su n => exact scrollUpInRegion_ok hB hs h
  case sd n => exact scrollDownInRegion_ok hB hs h
  case lf => exact lf_ok hB hs h
  case nel => exact nel_ok hB hs h
  case ri => exact ri_ok hB hs h

/-- the Bool-valued oracle predicate says what it should -/
theorem noForeignCells_iff (pen : Pen) (old new : List Line) :
    noForeignCells pen old new = true
      ↔ AllCells (fun c => c.pen = pen ∨ ∃ l0 ∈ old, c ∈ l0.cells) new := by
  simp [noForeignCells, AllCells, LineOK, List.all_eq_true, List.any_eq_true]

/-! ### the cell stored by `print` -/

theorem updRow_cols {b b' : Buffer} {row : Nat} {f : Line → Option Line} (h : b.updRow row f = some b') :
    b'.cols = b.cols := by
  unfold Buffer.updRow at h
  obtain ⟨v, _, rfl⟩ := Option.map_eq_some_iff.mp h
  rfl

theorem bufClear_cols {b b' : Buffer} {a c : Nat} {pen : Pen} (h : b.clear a c pen = some b') :
    b'.cols = b.cols := by
  unfold Buffer.clear at h
  obtain ⟨v, _, rfl⟩ := Option.map_eq_some_iff.mp h
  rfl

theorem bufScrollUp_cols {b b' : Buffer} {s e n : Nat} {pen : Pen} (h : b.scrollUp s e n pen = some b') :
    b'.cols = b.cols := by
  unfold Buffer.scrollUp at h
  split at h
  · simp only at h
    split at h
    · cases h
    · rename_i b1 hb1
      have h1 : b1.cols = b.cols := by
        split at hb1
        · exact updRow_cols hb1
        · cases hb1; rfl
      split at h
      · split at h
        · cases h; exact h1
        · split at h
          · cases h; exact h1
          · cases h
      · split at h
        · cases h
        · split at h
          · cases h
          · rename_i b2 hb2
            have h2 : b2.cols = b.cols := (updRow_cols hb2).trans h1
            split at h
            · cases h
            · split at h
              · cases h
              · rename_i b3 hb3
                cases h
                exact (bufClear_cols hb3).trans h2
  · cases h

/-- what the wrap-handling prologue of `print` keeps -/
structure Geo (t t' : Terminal) : Prop where
  cols : t'.cols = t.cols
  autoWrap : t'.autoWrapMode = t.autoWrapMode
  bcols : t'.buffer.cols = t.buffer.cols
  insert : t'.insertMode = t.insertMode

theorem Geo.refl (t : Terminal) : Geo t t := ⟨rfl, rfl, rfl, rfl⟩
theorem Geo.trans {a b c : Terminal} (h1 : Geo a b) (h2 : Geo b c) : Geo a c :=
  ⟨h2.cols.trans h1.cols, h2.autoWrap.trans h1.autoWrap, h2.bcols.trans h1.bcols, h2.insert.trans h1.insert⟩

theorem doMoveCursorToRow_geo {t t' : Terminal} {r : Nat} (h : t.doMoveCursorToRow r = some t') : Geo t t' := by
  unfold Terminal.doMoveCursorToRow at h
  obtain ⟨c1, _, rfl⟩ := Option.map_eq_some_iff.mp h
  exact ⟨rfl, rfl, rfl, rfl⟩

theorem scrollUpInRegion_geo {t t' : Terminal} {n : Nat} (h : t.scrollUpInRegion n = some t') : Geo t t' := by
  unfold Terminal.scrollUpInRegion at h
  split at h
  · cases h
  · rename_i b hb
    obtain ⟨d, _, rfl⟩ := Option.map_eq_some_iff.mp h
    exact ⟨rfl, rfl, bufScrollUp_cols hb, rfl⟩


theorem modAtM_get {α} {l l' : List α} {i : Nat} {f : α → Option α} (h : modAtM l i f = some l') :
    ∃ x y, l[i]? = some x ∧ f x = some y ∧ l'[i]? = some y := by
  unfold modAtM at h
  split at h
  · rename_i x hx
    split at h
    · rename_i y hy
      cases h
      refine ⟨x, y, hx, hy, ?_⟩
      have : i < l.length := by
        rcases Nat.lt_or_ge i l.length with h | h
        · exact h
        · rw [List.getElem?_eq_none h] at hx; cases hx
      simp [this]
    · cases h
  · cases h

theorem bufPrint_get {b b' : Buffer} {col row : Nat} {cell : Cell} (h : b.print col row cell = some b') :
    ∃ l, b'.view[row]? = some l ∧ l.cells[col]? = some cell := by
  unfold Buffer.print Buffer.updRow at h
  obtain ⟨v, hv, rfl⟩ := Option.map_eq_some_iff.mp h
  obtain ⟨x, y, _, hy, hg⟩ := modAtM_get hv
  refine ⟨y, hg, ?_⟩
  unfold Line.print at hy
  obtain ⟨cs, hcs, rfl⟩ := Option.map_eq_some_iff.mp hy
  unfold setAt at hcs
  split at hcs
  · cases hcs
    rename_i hlt
    simp [hlt]
  · cases hcs

theorem bufInsert_get {b b' : Buffer} {col row n : Nat} {cell : Cell} (hn : 1 ≤ n) (hc : col < b.cols)
    (h : b.insert col row n cell = some b') :
    ∃ l, b'.view[row]? = some l ∧ l.cells[col]? = some cell := by
  unfold Buffer.insert at h
  split at h
  · cases h
  · rename_i room hroom
    unfold Buffer.updRow at h
    obtain ⟨v, hv, rfl⟩ := Option.map_eq_some_iff.mp h
    obtain ⟨x, y, _, hy, hg⟩ := modAtM_get hv
    refine ⟨y, hg, ?_⟩
    unfold Line.insert at hy
    split at hy
    · cases hy
    · rename_i cs _
      obtain ⟨cs', hcs, rfl⟩ := Option.map_eq_some_iff.mp hy
      have hr : room = b.cols - col := by
        unfold csub at hroom
        split at hroom
        · cases hroom; rfl
        · cases hroom
      exact fillRange_get hcs col (Nat.le_refl _) (by omega)

/-- the cell a single `print` stores carries the pen (and sits where the oracle looks for it) -/
theorem print_cell {t t' : Terminal} {ch : Nat} (hg : t.buffer.cols = t.cols) (h : t.print ch = some t') :
    ∃ c, printedCell t t' = some c ∧ c.pen = t.pen := by
  unfold Terminal.print at h
  split at h
  · cases h
  · split at h
    · cases h
    · rename_i cs _ ch' _
      simp only at h
      split at h
      · cases h
      · rename_i t1 ht1
        split at h
        · cases h
        · rename_i t2 ht2
          have h1 : Geo t t1 ∧ (t.autoWrapMode = false → t1 = t) := by
            split at ht1
            · rename_i haw
              have hawt : t.autoWrapMode = true := by
                simp only [Bool.and_eq_true] at haw; exact haw.1
              refine ⟨?_, fun hf => by rw [hf] at hawt; cases hawt⟩
              have h0 : Geo t (t.doMoveCursorToCol 0) := ⟨rfl, rfl, rfl, rfl⟩
              generalize t.doMoveCursorToCol 0 = t0 at ht1 h0
              split at ht1
              · split at ht1
                · cases ht1
                · rename_i b hb
                  have hb' : Geo t { t0 with buffer := b } :=
                    h0.trans ⟨rfl, rfl, updRow_cols hb, rfl⟩
                  split at ht1
                  · cases ht1
                  · rename_i t3 ht3
                    have h3 := hb'.trans (scrollUpInRegion_geo ht3)
                    split at ht1
                    · cases ht1
                    · split at ht1
                      · split at ht1
                        · cases ht1
                        · rename_i bm1 _
                          obtain ⟨b4, hb4, rfl⟩ := Option.map_eq_some_iff.mp ht1
                          exact h3.trans ⟨rfl, rfl, updRow_cols hb4, rfl⟩
                      · cases ht1; exact h3
              · split at ht1
                · cases ht1
                · split at ht1
                  · split at ht1
                    · cases ht1
                    · rename_i b hb
                      have hb' : Geo t { t0 with buffer := b } :=
                        h0.trans ⟨rfl, rfl, updRow_cols hb, rfl⟩
                      exact hb'.trans (doMoveCursorToRow_geo ht1)
                  · cases ht1; exact h0
            · cases ht1; exact ⟨Geo.refl t, fun _ => rfl⟩
          obtain ⟨G, hoff⟩ := h1
          have hk := markDirty_keeps h
          have hcur : t'.cursor = t2.cursor := by
            unfold Terminal.markDirty at h
            obtain ⟨d, _, rfl⟩ := Option.map_eq_some_iff.mp h
            rfl
          -- what the second half stores, and where the cursor goes
          have h2 : ∃ l c, t2.buffer.view[t2.cursor.row]? = some l
              ∧ l.cells[if t1.cursor.col + 1 ≥ t1.cols then t1.cols - 1 else t1.cursor.col]? = some c
              ∧ c.pen = t.pen
              ∧ t2.cursor.col = (if t1.cursor.col + 1 ≥ t1.cols
                                 then (if t1.autoWrapMode then t1.cols else t1.cursor.col)
                                 else t1.cursor.col + 1) := by
            split at ht2
            · rename_i hge
              split at ht2
              · cases ht2
              · rename_i c1 hc1
                have hc1' : c1 = t1.cols - 1 := by
                  unfold csub at hc1
                  split at hc1
                  · cases hc1; rfl
                  · cases hc1
                split at ht2
                · cases ht2
                · rename_i b hb
                  obtain ⟨l, hl1, hl2⟩ := bufPrint_get hb
                  split at ht2
                  · rename_i haw
                    cases ht2
                    refine ⟨l, ⟨ch', t.pen⟩, hl1, ?_, rfl, ?_⟩
                    · rw [if_pos hge, ← hc1']; exact hl2
                    · rw [if_pos hge, if_pos haw]; rfl
                  · rename_i haw
                    cases ht2
                    refine ⟨l, ⟨ch', t.pen⟩, hl1, ?_, rfl, ?_⟩
                    · rw [if_pos hge, ← hc1']; exact hl2
                    · rw [if_pos hge, if_neg haw]
            · rename_i hlt
              split at ht2
              · cases ht2
              · rename_i b hb
                cases ht2
                have : ∃ l, b.view[t1.cursor.row]? = some l
                    ∧ l.cells[t1.cursor.col]? = some ⟨ch', t.pen⟩ := by
                  split at hb
                  · refine bufInsert_get (Nat.le_refl 1) ?_ hb
                    rw [G.bcols, hg, ← G.cols]; omega
                  · exact bufPrint_get hb
                obtain ⟨l, hl1, hl2⟩ := this
                refine ⟨l, ⟨ch', t.pen⟩, hl1, ?_, rfl, ?_⟩
                · rw [if_neg hlt]; exact hl2
                · rw [if_neg hlt]; rfl
          obtain ⟨l, c, hl1, hl2, hpen, hcol⟩ := h2
          refine ⟨c, ?_, hpen⟩
          unfold printedCell
          rw [hk.2, hcur, hl1]
          simp only
          have hpc : printedCol t t'
              = (if t1.cursor.col + 1 ≥ t1.cols then t1.cols - 1 else t1.cursor.col) := by
            unfold printedCol
            rw [hcur, hcol]
            cases haw : t.autoWrapMode with
            | false =>
              have := hoff haw
              subst this
              simp only [Bool.not_false, Bool.true_and, decide_eq_true_eq]
              split
              · rfl
              · omega
            | true =>
              simp only [Bool.not_true, Bool.false_and, Bool.false_eq_true, if_false]
              rw [G.autoWrap, haw]
              split <;> simp
          rw [hpc]; exact hl2

theorem bufInsert_cols {b b' : Buffer} {col row n : Nat} {cell : Cell} (h : b.insert col row n cell = some b') :
    b'.cols = b.cols := by
  unfold Buffer.insert at h
  split at h
  · cases h
  · exact updRow_cols h

/-- `print` keeps the geometry, the auto-wrap and insert modes -/
theorem print_geo {t t' : Terminal} {ch : Nat} (h : t.print ch = some t') : Geo t t' := by
  unfold Terminal.print at h
  split at h
  · cases h
  · split at h
    · cases h
    · simp only at h
      split at h
      · cases h
      · rename_i t1 ht1
        split at h
        · cases h
        · rename_i t2 ht2
          have h1 : Geo t t1 := by
            split at ht1
            · have h0 : Geo t (t.doMoveCursorToCol 0) := ⟨rfl, rfl, rfl, rfl⟩
              generalize t.doMoveCursorToCol 0 = t0 at ht1 h0
              split at ht1
              · split at ht1
                · cases ht1
                · rename_i b hb
                  have hb' : Geo t { t0 with buffer := b } :=
                    h0.trans ⟨rfl, rfl, updRow_cols hb, rfl⟩
                  split at ht1
                  · cases ht1
                  · rename_i t3 ht3
                    have h3 := hb'.trans (scrollUpInRegion_geo ht3)
                    split at ht1
                    · cases ht1
                    · split at ht1
                      · split at ht1
                        · cases ht1
                        · obtain ⟨b4, hb4, rfl⟩ := Option.map_eq_some_iff.mp ht1
                          exact h3.trans ⟨rfl, rfl, updRow_cols hb4, rfl⟩
                      · cases ht1; exact h3
              · split at ht1
                · cases ht1
                · split at ht1
                  · split at ht1
                    · cases ht1
                    · rename_i b hb
                      have hb' : Geo t { t0 with buffer := b } :=
                        h0.trans ⟨rfl, rfl, updRow_cols hb, rfl⟩
                      exact hb'.trans (doMoveCursorToRow_geo ht1)
                  · cases ht1; exact h0
            · cases ht1; exact Geo.refl t
          have h2 : Geo t1 t2 := by
            split at ht2
            · split at ht2
              · cases ht2
              · split at ht2
                · cases ht2
                · rename_i b hb
                  split at ht2
                  · cases ht2; exact ⟨rfl, rfl, updRow_cols hb, rfl⟩
                  · cases ht2; exact ⟨rfl, rfl, updRow_cols hb, rfl⟩
            · split at ht2
              · cases ht2
              · rename_i b hb
                cases ht2
                refine ⟨rfl, rfl, ?_, rfl⟩
                split at hb
                · exact bufInsert_cols hb
                · exact updRow_cols hb
          have h3 : Geo t2 t' := by
            unfold Terminal.markDirty at h
            obtain ⟨d, _, rfl⟩ := Option.map_eq_some_iff.mp h
            exact ⟨rfl, rfl, rfl, rfl⟩
          exact (h1.trans h2).trans h3

theorem print_pen {t t' : Terminal} {ch : Nat} (h : t.print ch = some t') : t'.pen = t.pen :=
  (print_ok (Q := fun _ => True) (pen := t.pen) (fun _ => trivial) ⟨rfl, fun _ _ _ _ => trivial⟩ h).1

/-- the last of `k + 1` prints starts from a state with the same pen, geometry and modes -/
theorem printN_last {ch : Nat} : ∀ (k : Nat) {t t' : Terminal}, t.printN ch (k + 1) = some t' →
    ∃ tk, Geo t tk ∧ tk.pen = t.pen ∧ tk.print ch = some t'
  | 0, t, t', h => by
    unfold Terminal.printN at h
    split at h
    · cases h
    · rename_i t1 h1
      unfold Terminal.printN at h
      cases h
      exact ⟨t, Geo.refl t, rfl, h1⟩
  | k + 1, t, t', h => by
    unfold Terminal.printN at h
    split at h
    · cases h
    · rename_i t1 h1
      obtain ⟨tk, g, hp, hl⟩ := printN_last k h
      exact ⟨tk, (print_geo h1).trans g, hp.trans (print_pen h1), hl⟩

/-- the last cell REP stores carries the current pen (auto-wrap on: it sits left of the new cursor) -/
theorem rep_cell {t t' : Terminal} {n : Nat} (hg : t.buffer.cols = t.cols) (haw : t.autoWrapMode = true)
    (hc : t.cursor.col > 0) (h : t.rep n = some t') :
    ∃ c, printedCell t t' = some c ∧ c.pen = t.pen := by
  unfold Terminal.rep at h
  rw [if_pos hc] at h
  split at h
  · cases h
  · split at h
    · cases h
    · rename_i line _ cell _
      have hn : ∃ k, asUsize n 1 = k + 1 := by
        unfold asUsize
        split
        · exact ⟨0, rfl⟩
        · rename_i hne; exact ⟨n - 1, by omega⟩
      obtain ⟨k, hk⟩ := hn
      rw [hk] at h
      obtain ⟨tk, g, hp, hl⟩ := printN_last k h
      have hgk : tk.buffer.cols = tk.cols := by rw [g.bcols, g.cols]; exact hg
      obtain ⟨c, hc1, hc2⟩ := print_cell hgk hl
      refine ⟨c, ?_, hc2.trans hp⟩
      have hawk : tk.autoWrapMode = true := g.autoWrap.trans haw
      have e : printedCol t t' = printedCol tk t' := by
        unfold printedCol
        simp [haw, hawk]
      unfold printedCell at hc1 ⊢
      rw [e]; exact hc1

theorem tinv_bufcols {t : Terminal} (hi : TInv t = true) : t.buffer.cols = t.cols := by
  simp only [TInv, Bool.and_eq_true, beq_iff_eq] at hi
  exact hi.1.1.1.1.1.1.1.1.1.1.1.1.1.1.1.1

end Avt.Spec.C08
