/-
  Avt.Lemmas.C11Blank — an end-to-end instance of the dump round trip: the power-on screen of any size
  with an arbitrary pen and the parser in an arbitrary state.  Composes the fragment lemmas
  (`pfeed_pen_dump`, `parser_dump`) through `Terminal.dump`, `Vt.feedStr` and `normD`.
-/
import Avt.Lemmas.C11Pen
import Avt.Lemmas.C11Witness

namespace Avt
namespace Lemmas.C11
open Avt.Spec.C11

/-- the power-on terminal (for `rows ≥ 1`) -/
def freshT (cols rows : Nat) (lim : Option Nat) : Terminal :=
  { cols := cols, rows := rows,
    buffer := Buffer.new cols rows lim none,
    otherBuffer := Buffer.new cols rows (some 0) none,
    activeBufferType := .primary,
    scrollbackLimit := lim,
    cursor := {}, pen := {}, charsets := (.ascii, .ascii), activeCharset := 0,
    tabs := Tabs.new cols,
    insertMode := false, originMode := false, autoWrapMode := true, newLineMode := false,
    cursorKeysMode := .normal, pendingWrap := false, topMargin := 0, bottomMargin := rows - 1,
    savedCtx := {}, alternateSavedCtx := {}, dirtyLines := Dirty.new rows, xtwinops := false }

theorem new_eq_freshT (cols rows : Nat) (lim : Option Nat) (hr : 1 ≤ rows) :
    Terminal.new cols rows lim = some (freshT cols rows lim) := by
  simp [Terminal.new, freshT, csub, hr]

/-! ### the dump of a blank buffer is empty -/

theorem blank_isBlank (cols : Nat) : (Line.blank cols Pen.default).isBlank = true := by
  simp only [Line.isBlank, Line.blank, List.all_replicate]
  have : (Cell.blank Pen.default).isDefault = true := by decide
  simp [this]

theorem dumpCutoff_blank (cols : Nat) : ∀ (n i : Nat),
    Buffer.dumpCutoff (List.replicate n (Line.blank cols Pen.default)) i false 0 = 0
  | 0, _ => rfl
  | n + 1, i => by
    simp only [List.replicate_succ, Buffer.dumpCutoff, blank_isBlank]
    exact dumpCutoff_blank cols n (i + 1)

theorem dump_blank_buffer (cols rows : Nat) (lim : Option Nat) (hr : 1 ≤ rows) :
    (Buffer.new cols rows lim none).dump = some [] := by
  simp only [Buffer.dump, Buffer.new, Option.getD_none]
  rw [dumpCutoff_blank]
  simp [csub, hr, Buffer.dumpLines]

/-! ### `Terminal.dump` of the power-on screen with pen `p` -/

/-- the power-on terminal with pen `p` -/
def blankT (cols rows : Nat) (lim : Option Nat) (p : Pen) : Terminal := { freshT cols rows lim with pen := p }

/-- `ESC [ m`, `CSI 1;1H` — everything `Terminal::dump` writes before the pen for such a terminal -/
def blankPrefix : List Nat := [0x1b, 0x5b, 0x6d, 0x9b, 0x31, 0x3b, 0x31, 0x48]

theorem dump_blankT (cols rows : Nat) (lim : Option Nat) (p : Pen) (hc : 1 ≤ cols) (hr : 1 ≤ rows)
    (d : List Nat) (hd : p.dump = some d) :
    (blankT cols rows lim p).dump = some (blankPrefix ++ d) := by
  have hb := dump_blank_buffer cols rows lim hr
  have hctx : Terminal.dumpCtx {} = some [] := by decide
  have hcs : csub rows 1 = some (rows - 1) := by simp [csub, hr]
  have hcol : ¬ (0 ≥ cols) := by omega
  simp only [Terminal.dump, blankT, freshT, Terminal.primaryBuffer, hb, hctx, hd, hcs, if_true,
    Terminal.dumpCursor, Terminal.cupSeq, Terminal.csi]
  simp [hcol, blankPrefix, SavedCtx.isDefault, Pen.isDefault, Pen.isItalic, Pen.isUnderline, Pen.isStrikethrough,
    Pen.isBlink, Pen.isInverse]
  rfl

/-! ### the register invariant of an encoded register file -/

theorem ok_encParam (ps : List Nat) (h : PartsOK ps) : Param.ok (encParam ps) = true := by
  obtain ⟨h1, h2, h3⟩ := h
  simp only [Param.ok, encParam, Bool.and_eq_true, beq_iff_eq, decide_eq_true_eq, List.length_append,
    List.length_replicate, List.all_eq_true]
  refine ⟨⟨⟨?_, ?_⟩, ?_⟩, ?_⟩
  · show ps.length + (6 - ps.length) = 6; omega
  · apply decide_eq_true; show ps.length - 1 < 6; omega
  · intro x hx
    have : ps.length - 1 + 1 = ps.length := by omega
    rw [this, List.drop_left'] at hx
    · simp only [List.mem_replicate] at hx; simp [hx.2]
    · rfl
  · intro x hx
    simp only [List.mem_append, List.mem_replicate] at hx
    rcases hx with hx | hx
    · exact h3 x hx
    · omega

theorem PInv_conc (st : PState) (im : Option Nat) (A : Regs) (hA : RegsOK A) : PInv (conc st im A) = true := by
  obtain ⟨h1, h2, h3⟩ := hA
  have hd : Param.ok dflt = true := by decide
  have hz : Param.isZero dflt = true := by decide
  simp only [PInv, conc, encParams, Bool.and_eq_true, beq_iff_eq, List.length_append,
    List.length_map, List.length_replicate, List.all_eq_true]
  refine ⟨⟨⟨?_, ?_⟩, ?_⟩, ?_⟩
  · show A.length + (32 - A.length) = 32; omega
  · apply decide_eq_true; show A.length - 1 < 32; omega
  · intro q hq
    simp only [List.mem_append, List.mem_map, List.mem_replicate] at hq
    rcases hq with ⟨ps, hps, rfl⟩ | ⟨_, rfl⟩
    · exact ok_encParam ps (h3 ps hps)
    · exact hd
  · intro q hq
    have : A.length - 1 + 1 = (A.map encParam).length := by simp; omega
    rw [this, List.drop_left'] at hq
    · simp only [List.mem_replicate] at hq; rw [hq.2]; exact hz
    · rfl

/-! ### feeding the dump of the blank terminal -/

theorem pfeed_blankPrefix :
    pfeedAll Parser.new blankPrefix
      = some (conc .Ground none [[1], [1]], [Function.sgr [SgrOp.reset], Function.cup 1 1]) := by decide

theorem exec_blank (cols rows : Nat) (p : Pen) (hc : 1 ≤ cols) (hr : 1 ≤ rows) :
    Terminal.foldM' Terminal.execute [Function.sgr [SgrOp.reset], Function.cup 1 1, Function.sgr (penOps p)]
      (freshT cols rows none) = some (blankT cols rows none (((penOps p).foldl Terminal.applySgr {}))) := by
  have hcol : ¬ (0 ≥ cols) := by omega
  have hcs : csub rows 1 = some (rows - 1) := by simp [csub, hr]
  have hcc : csub cols 1 = some (cols - 1) := by simp [csub, hc]
  simp only [Terminal.foldM', Terminal.execute, Terminal.sgr, Terminal.cup, Terminal.moveCursorToCol,
    Terminal.moveCursorToRow, Terminal.actualTopMargin, Terminal.actualBottomMargin, Terminal.doMoveCursorToCol,
    Terminal.doMoveCursorToRow, freshT, blankT, asUsize, List.foldl_cons, List.foldl_nil, Terminal.applySgr]
  simp [hcol, hcs, hcc]

/-- **end to end, power-on screen.**  The terminal is the power-on terminal of any size and limit,
    except for an arbitrary pen; the parser is in an arbitrary state (registers satisfying `PInv` and
    `PRegOK`).  Then `dump()` fed to a fresh terminal of the same size restores the state up to `normD`. -/
theorem restore_blank (cols rows : Nat) (lim : Option Nat) (pen : Pen) (p : Parser) (hc : 1 ≤ cols) (hr : 1 ≤ rows)
    (hpen : PenOK pen) (hinv : PInv p = true) (hreg : PRegOK p = true) :
    ∃ r, restoreOf { parser := p, terminal := blankT cols rows lim pen } = some r
      ∧ normD r = normD { parser := p, terminal := blankT cols rows lim pen } := by
  let s : Vt := { parser := p, terminal := blankT cols rows lim pen }
  -- the three fragments of the dump and what the parser makes of them
  have hd := pen_dump_eq pen hpen
  have h1 := pfeed_blankPrefix
  have h2 := pfeed_sgr (conc .Ground none [[1], [1]]) rfl (by decide) (penRegs pen) (regsOK_penRegs pen hpen)
    (penOps pen) (sgrOps_penRegs pen hpen)
  obtain ⟨pd, q, hpd, h3, hq⟩ := parser_dump p (conc .Ground none (penRegs pen)) hinv hreg rfl
    (PInv_conc _ _ _ (regsOK_penRegs pen hpen))
  have hdump : s.dump = some (blankPrefix ++ (0x1b :: 0x5b :: renderAll (penRegs pen) ++ [0x6d]) ++ pd) := by
    simp only [Vt.dump, s, dump_blankT cols rows lim pen hc hr _ hd, hpd]
  have hparse : pfeedAll Parser.new (blankPrefix ++ (0x1b :: 0x5b :: renderAll (penRegs pen) ++ [0x6d]) ++ pd)
      = some (q, [Function.sgr [SgrOp.reset], Function.cup 1 1, Function.sgr (penOps pen)]) := by
    rw [pfeedAll_append, pfeedAll_append, h1]
    simp only [Option.bind_some, h2, Option.map_some, h3]
    rfl
  have hnew : Vt.new cols rows none = some { parser := Parser.new, terminal := freshT cols rows none } := by
    simp only [Vt.new, new_eq_freshT cols rows none hr, Option.map_some]
  have hfeed : Vt.feedAll { parser := Parser.new, terminal := freshT cols rows none }
      (blankPrefix ++ (0x1b :: 0x5b :: renderAll (penRegs pen) ++ [0x6d]) ++ pd)
      = some { parser := q, terminal := blankT cols rows none pen } := by
    rw [feedAll_eq_pfeedAll, hparse]
    simp only [Option.bind_some, exec_blank cols rows pen hc hr, apply_penOps pen {} hpen, Option.map_some]
  refine ⟨(Vt.finish { parser := q, terminal := blankT cols rows none pen }).1, ?_, ?_⟩
  · show restoreOf s = _
    unfold restoreOf
    rw [hdump]
    have hnew' : Vt.new s.terminal.cols s.terminal.rows none
        = some { parser := Parser.new, terminal := freshT cols rows none } := hnew
    simp only [hnew', Vt.feedStr, hfeed, Option.map_some]
  · simp only [normD, Vt.finish, Terminal.changes, Terminal.gc, Buffer.gc, blankT, freshT, Buffer.new, hq,
      normT, normB, Dirty.clear, Dirty.new, clampCtx, Option.getD_none, Bool.false_eq_true, if_false, if_true]
    simp

end Lemmas.C11
end Avt
