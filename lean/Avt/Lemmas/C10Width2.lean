/-
  Avt.Lemmas.C10Width2 — composing the two phases of a width-changing resize on the level of the C10
  relation: reflow + cursor translation (phase 1), then a height-only resize of the reflowed rows
  (phase 2).
-/
import Avt.Lemmas.C10Width

namespace Avt.Lemmas
open Avt Avt.Spec.C10

theorem keptOrCut_unpad : ∀ (X Y : List (List Cell)) (e : Nat),
    keptOrCut (X ++ List.replicate e []) Y = true → keptOrCut X Y = true
  | _, [], _, _ => by cases ‹List (List Cell)› <;> rfl
  | [], b :: bs, e, h => by
    simp only [List.nil_append] at h
    cases e with
    | zero => exact h
    | succ e' =>
      simp only [List.replicate_succ, keptOrCut, Bool.or_eq_true, Bool.and_eq_true, beq_iff_eq] at h
      have hb : b = [] := by
        rcases h with ⟨h1, -⟩ | ⟨h1, -⟩
        · exact h1
        · exact List.prefix_nil.1 (List.isPrefixOf_iff_prefix.1 h1)
      subst hb
      simp only [keptOrCut, List.isEmpty_nil, Bool.true_and]
      rcases h with ⟨-, h2⟩ | ⟨-, h2⟩
      · have := keptOrCut_unpad [] bs e' (by simpa using h2)
        exact this
      · have : bs = [] := by simpa using h2
        subst this; rfl
  | a :: as, b :: bs, e, h => by
    simp only [List.cons_append, keptOrCut, Bool.or_eq_true, Bool.and_eq_true] at h ⊢
    rcases h with ⟨h1, h2⟩ | h
    · exact Or.inl ⟨h1, keptOrCut_unpad as bs e h2⟩
    · exact Or.inr h

/-- the head of `keptOrCut`: the new first line is (a prefix of) the old first line -/
theorem keptOrCut_head_le {a b : List Cell} {as bs : List (List Cell)}
    (h : keptOrCut (a :: as) (b :: bs) = true) : b.length ≤ a.length := by
  simp only [keptOrCut, Bool.or_eq_true, Bool.and_eq_true, beq_iff_eq] at h
  rcases h with ⟨h1, -⟩ | ⟨h1, -⟩
  · rw [h1]; exact Nat.le_refl _
  · exact (List.isPrefixOf_iff_prefix.1 h1).length_le

/-- composing phase 1 (`L_A = L` plus blank lines, same line index, offset `oA`) with phase 2
    (`rel1` at the translated offset, `rel2` at the end of the cursor row) -/
theorem resizeRel_compose {L LA L' : List (List Cell)} {e i o oA oEnd i' o' i2 o2 : Nat} (pending : Bool)
    (hLA : LA = L ++ List.replicate e []) (hi : i < L.length)
    (rel1 : resizeRel LA L' i oA i' o' false = true)
    (rel2 : resizeRel LA L' i oEnd i2 o2 true = true)
    (hdich : oA = o ∨ (oEnd ≤ o ∧ ∀ a, L[i]? = some a → a.length ≤ oEnd)) :
    resizeRel L L' i o i' o' pending = true := by
  simp only [resizeRel, aboveOK, beforeOK, onChar, onCharOK, afterOK, Bool.and_eq_true, beq_iff_eq,
    decide_eq_true_eq, Bool.or_eq_true, Bool.not_eq_true', Bool.not_false, Bool.true_and,
    Bool.not_true, Bool.false_and] at rel1 rel2 ⊢
  obtain ⟨⟨⟨⟨⟨⟨hi', hiA⟩, hiL'⟩, habove⟩, hbefore1⟩, hchar1⟩, hafter1⟩ := rel1
  obtain ⟨⟨⟨⟨⟨⟨-, -⟩, -⟩, -⟩, hbefore2⟩, -⟩, -⟩ := rel2
  -- the cursor's line before and after
  obtain ⟨a, ha⟩ : ∃ a, L[i]? = some a := ⟨L[i], List.getElem?_eq_getElem hi⟩
  have haA : LA[i]? = some a := by rw [hLA, List.getElem?_append_left hi]; exact ha
  obtain ⟨b, hb⟩ : ∃ b, L'[i]? = some b := ⟨L'[i], List.getElem?_eq_getElem hiL'⟩
  rw [haA, hb] at hbefore1 hbefore2 hchar1
  -- lines from the cursor's line on
  have hdropA : LA.drop i = a :: LA.drop (i + 1) := by
    rw [List.drop_eq_getElem_cons (by omega)]
    congr 1
    exact (List.getElem?_eq_some_iff.1 haA).2
  have hdropL' : L'.drop i = b :: L'.drop (i + 1) := by
    rw [List.drop_eq_getElem_cons hiL']
    congr 1
    exact (List.getElem?_eq_some_iff.1 hb).2
  have hble : b.length ≤ a.length := by
    rw [hdropA, hdropL'] at hafter1
    exact keptOrCut_head_le hafter1
  refine ⟨⟨⟨⟨⟨⟨hi', hi⟩, hiL'⟩, ?_⟩, ?_⟩, ?_⟩, ?_⟩
  · rw [habove, hLA, List.take_append_of_le_length (by omega)]
  · rw [ha, hb]
    rcases hdich with h1 | ⟨h1, h2⟩
    · rw [← h1]; exact hbefore1
    · have hal := h2 a ha
      simp only [eqUpToBlanks, beq_iff_eq] at hbefore2 ⊢
      rw [List.take_of_length_le (by omega), List.take_of_length_le (by omega)]
      rw [List.take_of_length_le (by omega), List.take_of_length_le (by omega)] at hbefore2
      exact hbefore2
  · rw [ha, hb]
    by_cases hp : pending = false
    · by_cases ho : o < a.length
      · right
        rcases hdich with h1 | ⟨h1, h2⟩
        · subst h1
          rcases hchar1 with h | h
          · exact absurd ho (by simpa using h)
          · exact h
        · have := h2 a ha; omega
      · left; simp [ho]
    · left
      have : pending = true := by cases pending <;> simp_all
      simp [this]
  · have : LA.drop i = L.drop i ++ List.replicate e [] := by
      rw [hLA, List.drop_append_of_le_length (by omega)]
    rw [this] at hafter1
    exact keptOrCut_unpad _ _ _ hafter1

end Avt.Lemmas
