/-
  Avt.Lemmas.C06Only — no function outside `mayChangeScrollback` changes the lines above the view
  (all 50 constructors of `Function`).
-/
import Avt.Lemmas.C06Frame
import Avt.Lemmas.C07Edit

namespace Avt.C06L
open Avt.PrimL Avt.C07L
open Avt.Spec.C06

theorem scrollSpec_sameSb (t : Terminal) (f : Function)
    (hf : f = .ri ∨ (∃ n, f = .sd n) ∨ (∃ n, f = .il n) ∨ (∃ a b, f = .decstbm a b)) :
    SameSb t (scrollCmdSpec t f) := by
  rcases hf with h | ⟨n, h⟩ | ⟨n, h⟩ | ⟨a, b, h⟩ <;> subst h <;> simp only [scrollCmdSpec]
  · unfold up1
    split
    · exact ⟨rfl, rfl⟩
    · split <;> exact ⟨rfl, rfl⟩
  · exact ⟨rfl, rfl⟩
  · exact ⟨rfl, rfl⟩
  · exact ⟨rfl, rfl⟩

theorem editSpec_sameSb (t : Terminal) (f : Function) : SameSb t (Spec.C07.editSpec t f) := by
  cases f <;> try exact ⟨rfl, rfl⟩
  case dch n =>
    simp only [Spec.C07.editSpec, Spec.C07.onRow, Spec.C07.withView, Spec.C07.leavePending]
    split <;> exact ⟨rfl, rfl⟩
  case ed s => cases s <;> exact ⟨rfl, rfl⟩
  case el s => cases s <;> exact ⟨rfl, rfl⟩

theorem some_inj' {α} {a b : α} (h : some a = some b) : a = b := by cases h; rfl

/-- every function outside `mayChangeScrollback` leaves the scrollback of the active buffer and the
    whole parked buffer as they were -/
theorem keeps_scrollback (t t' : Terminal) (f : Function) (h : TInv t = true)
    (hf : mayChangeScrollback f = false) (he : t.execute f = some t') : SameSb t t' := by
  cases f <;> simp only [mayChangeScrollback, Bool.true_eq_false] at hf <;> simp only [Terminal.execute] at he
  case bs => exact (bs_same he).toSb
  case cbt n => exact (moveCursorToPrevTab_same he).toSb
  case cha n => exact (moveCursorToCol_same he).toSb
  case cht n => exact (moveCursorToNextTab_same he).toSb
  case cnl n => exact (map_toCol0_same (fun _ h => cursorDown_same h) he).toSb
  case cpl n => exact (map_toCol0_same (fun _ h => cursorUp_same h) he).toSb
  case cr => cases he; exact ⟨rfl, rfl⟩
  case ctc op => cases he; exact (ctc_same t op).toSb
  case cub n => exact (cub_same he).toSb
  case cud n => exact (cursorDown_same he).toSb
  case cuf n => exact (moveCursorToRelCol_same he).toSb
  case cup r c => exact (cup_same he).toSb
  case cuu n => exact (cursorUp_same he).toSb
  case dch n =>
    have := edit_eq t (.dch n) h rfl
    simp only [Terminal.execute] at this
    rw [this] at he; cases he; exact editSpec_sameSb t _
  case decaln =>
    have := edit_eq t .decaln h rfl
    simp only [Terminal.execute] at this
    rw [this] at he; cases he; exact editSpec_sameSb t _
  case decrc => cases he; exact ⟨rfl, rfl⟩
  case decsc => exact (saveCursor_same he).toSb
  case decstbm a b =>
    have := scrollCmd_eq t (.decstbm a b) h rfl
    simp only [Terminal.execute] at this
    rw [this] at he; cases he
    exact scrollSpec_sameSb t _ (Or.inr (Or.inr (Or.inr ⟨a, b, rfl⟩)))
  case decstr => exact (softReset_same he).toSb
  case ech n =>
    have := edit_eq t (.ech n) h rfl
    simp only [Terminal.execute] at this
    rw [this] at he; cases he; exact editSpec_sameSb t _
  case ed s =>
    have := edit_eq t (.ed s) h rfl
    simp only [Terminal.execute] at this
    rw [this] at he; cases he; exact editSpec_sameSb t _
  case el s =>
    have := edit_eq t (.el s) h rfl
    simp only [Terminal.execute] at this
    rw [this] at he; cases he; exact editSpec_sameSb t _
  case g1d4 c => cases he; exact ⟨rfl, rfl⟩
  case gzd4 c => cases he; exact ⟨rfl, rfl⟩
  case ht => exact (moveCursorToNextTab_same he).toSb
  case hts => cases he; exact (setTab_same t).toSb
  case ich n =>
    have := edit_eq t (.ich n) h rfl
    simp only [Terminal.execute] at this
    rw [this] at he; cases he; exact editSpec_sameSb t _
  case il n =>
    have := scrollCmd_eq t (.il n) h rfl
    simp only [Terminal.execute] at this
    rw [this] at he; cases he
    exact scrollSpec_sameSb t _ (Or.inr (Or.inr (Or.inl ⟨n, rfl⟩)))
  case ri =>
    have := scrollCmd_eq t .ri h rfl
    simp only [Terminal.execute] at this
    rw [this] at he; cases he
    exact scrollSpec_sameSb t _ (Or.inl rfl)
  case rm ms => cases he; exact (rm_same t ms).toSb
  case scorc => cases he; exact ⟨rfl, rfl⟩
  case scosc => exact (saveCursor_same he).toSb
  case sd n =>
    have := scrollCmd_eq t (.sd n) h rfl
    simp only [Terminal.execute] at this
    rw [this] at he; cases he
    exact scrollSpec_sameSb t _ (Or.inr (Or.inl ⟨n, rfl⟩))
  case sgr ops => cases he; exact ⟨rfl, rfl⟩
  case si => cases he; exact ⟨rfl, rfl⟩
  case sm ms => cases he; exact (sm_same t ms).toSb
  case so => cases he; exact ⟨rfl, rfl⟩
  case tbc s => cases he; exact (tbc_same t s).toSb
  case vpa n => exact (moveCursorToRow_same he).toSb
  case vpr n => exact (cursorDown_same he).toSb

end Avt.C06L
