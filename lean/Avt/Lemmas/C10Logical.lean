/-
  Avt.Lemmas.C10Logical — lemmas about `stripDefault`, `joinRows`, `logicalLines` (Spec/C10.lean).
-/
import Avt.Spec.C10
import Avt.Lemmas.C09Text

namespace Avt.Lemmas
open Avt Avt.Spec.C10

theorem stripDefault_eq (cs : List Cell) : stripDefault cs = rstrip Cell.isDefault cs := rfl

theorem blank_default_isDefault : (Cell.blank Pen.default).isDefault = true := by decide

theorem all_default_replicate (k : Nat) :
    ∀ x ∈ List.replicate k (Cell.blank Pen.default), x.isDefault = true := by
  intro x hx
  rw [(List.mem_replicate.1 hx).2]; exact blank_default_isDefault

theorem stripDefault_append_blanks (a : List Cell) (k : Nat) :
    stripDefault (a ++ List.replicate k (Cell.blank Pen.default)) = stripDefault a :=
  rstrip_append_of_all _ (all_default_replicate k)

theorem stripDefault_blanks (k : Nat) :
    stripDefault (List.replicate k (Cell.blank Pen.default)) = [] := by
  have := stripDefault_append_blanks [] k
  rw [List.nil_append] at this
  rw [this]; rfl

/-- `Line.trim` removes the trailing default cells -/
theorem trim_eq (l : Line) : l.trim = { l with cells := stripDefault l.cells } := by
  unfold Line.trim Line.trailers
  rw [stripDefault_eq, rstrip_eq_take]

theorem stripDefault_length_eq (l : Line) : (stripDefault l.cells).length = l.len - l.trailers := by
  unfold Line.trailers Line.len
  rw [stripDefault_eq, rstrip_eq_take, List.length_take]
  omega

/-! ### joinRows -/

theorem joinRows_eq_nil {ls : List Line} : joinRows ls = [] ↔ ls = [] := by
  cases ls with
  | nil => simp [joinRows]
  | cons l t =>
    simp only [joinRows, reduceCtorEq, iff_false]
    split
    · split <;> simp
    · simp

theorem joinRows_cons_unwrapped {l : Line} (h : l.wrapped = false) (t : List Line) :
    joinRows (l :: t) = l.cells :: joinRows t := by
  simp [joinRows, h]

theorem joinRows_cons_wrapped_nil {l : Line} (h : l.wrapped = true) :
    joinRows [l] = [l.cells] := by
  simp [joinRows, h]

theorem joinRows_cons_wrapped {l : Line} (h : l.wrapped = true) {t : List Line} {x : List Cell}
    {xs : List (List Cell)} (ht : joinRows t = x :: xs) :
    joinRows (l :: t) = (l.cells ++ x) :: xs := by
  simp [joinRows, h, ht]

/-- gluing: a wrapped row followed by a row is the same as the one row holding both -/
theorem joinRows_glue (a b : List Cell) (w : Bool) (t : List Line) :
    joinRows (⟨a, true⟩ :: ⟨b, w⟩ :: t) = joinRows (⟨a ++ b, w⟩ :: t) := by
  cases w with
  | false => simp [joinRows]
  | true =>
    cases ht : joinRows t with
    | nil => simp [joinRows, ht]
    | cons x xs => simp [joinRows, ht]

theorem joinRows_append {xs : List Line} (h : lastUnwrapped xs = true) (ys : List Line) :
    joinRows (xs ++ ys) = joinRows xs ++ joinRows ys := by
  induction xs with
  | nil => rfl
  | cons l t ih =>
    cases t with
    | nil =>
      have hl : l.wrapped = false := by simpa [lastUnwrapped] using h
      simp [joinRows, hl]
    | cons l2 t2 =>
      have h' : lastUnwrapped (l2 :: t2) = true := by simpa [lastUnwrapped] using h
      have ih' := ih h'
      cases hw : l.wrapped with
      | false =>
        rw [List.cons_append, joinRows_cons_unwrapped hw, joinRows_cons_unwrapped hw, ih']
        rfl
      | true =>
        cases hj : joinRows (l2 :: t2) with
        | nil => exact absurd (joinRows_eq_nil.1 hj) (by simp)
        | cons x xs =>
          rw [List.cons_append, joinRows_cons_wrapped hw hj,
            joinRows_cons_wrapped hw (x := x) (xs := xs ++ joinRows ys) (by rw [ih', hj]; rfl)]
          rfl

/-! ### logicalLines -/

theorem logicalLines_nil : logicalLines [] = [] := rfl

theorem logicalLines_cons_unwrapped {l : Line} (h : l.wrapped = false) (t : List Line) :
    logicalLines (l :: t) = stripDefault l.cells :: logicalLines t := by
  simp [logicalLines, joinRows_cons_unwrapped h]

theorem logicalLines_append {xs : List Line} (h : lastUnwrapped xs = true) (ys : List Line) :
    logicalLines (xs ++ ys) = logicalLines xs ++ logicalLines ys := by
  simp [logicalLines, joinRows_append h]

theorem logicalLines_glue (a b : List Cell) (w : Bool) (t : List Line) :
    logicalLines (⟨a, true⟩ :: ⟨b, w⟩ :: t) = logicalLines (⟨a ++ b, w⟩ :: t) := by
  simp [logicalLines, joinRows_glue]

theorem logicalLines_eq_nil {ls : List Line} : logicalLines ls = [] ↔ ls = [] := by
  simp [logicalLines, joinRows_eq_nil]

/-- congruence: the logical lines of `l :: X` depend on `X` only through its logical lines -/
theorem logicalLines_cons_congr (l : Line) {X Y : List Line}
    (h : logicalLines X = logicalLines Y) : logicalLines (l :: X) = logicalLines (l :: Y) := by
  cases hw : l.wrapped with
  | false => rw [logicalLines_cons_unwrapped hw, logicalLines_cons_unwrapped hw, h]
  | true =>
    unfold logicalLines at *
    cases hx : joinRows X with
    | nil =>
      cases hy : joinRows Y with
      | nil =>
        rw [joinRows_eq_nil.1 hx, joinRows_eq_nil.1 hy]
      | cons y ys => rw [hx, hy] at h; simp at h
    | cons x xs =>
      cases hy : joinRows Y with
      | nil => rw [hx, hy] at h; simp at h
      | cons y ys =>
        rw [hx, hy] at h
        simp only [List.map_cons, List.cons.injEq] at h
        rw [joinRows_cons_wrapped hw hx, joinRows_cons_wrapped hw hy]
        simp only [List.map_cons, List.cons.injEq]
        exact ⟨rstrip_append_congr _ _ h.1, h.2⟩

theorem logicalLines_append_congr (P : List Line) {X Y : List Line}
    (h : logicalLines X = logicalLines Y) : logicalLines (P ++ X) = logicalLines (P ++ Y) := by
  induction P with
  | nil => exact h
  | cons l t ih => exact logicalLines_cons_congr l ih

/-- an unwrapped first row matters only up to its trailing default cells -/
theorem logicalLines_cons_strip_congr {a a' : List Cell} (h : stripDefault a = stripDefault a')
    (t : List Line) : logicalLines (⟨a, false⟩ :: t) = logicalLines (⟨a', false⟩ :: t) := by
  rw [logicalLines_cons_unwrapped rfl, logicalLines_cons_unwrapped rfl, h]

theorem logicalLines_blank_rows (k c : Nat) :
    logicalLines (List.replicate k (Line.blank c Pen.default)) = List.replicate k [] := by
  induction k with
  | zero => rfl
  | succ n ih =>
    rw [List.replicate_succ, logicalLines_cons_unwrapped rfl, ih]
    simp [Line.blank, stripDefault_blanks, List.replicate_succ]

theorem lastUnwrapped_blank_rows (k c : Nat) :
    lastUnwrapped (List.replicate k (Line.blank c Pen.default)) = true := by
  induction k with
  | zero => rfl
  | succ n ih =>
    cases n with
    | zero => rfl
    | succ m => rw [List.replicate_succ]; rw [List.replicate_succ] at ih ⊢; simpa [lastUnwrapped] using ih

end Avt.Lemmas
