/-
  Avt.Lemmas.C05OriginFrame — origin mode is state that only DECSET / DECRST ?6, the restores of the
  saved context (DECRC, SCORC, DECRST ?1048 / ?1049 — origin mode is part of the context) and the two
  resets may change: every other function leaves `originMode` exactly as it is — every cursor
  movement, DECSTBM, scrolling, erasing, printing, tabs, SGR, every other mode, entering the alternate
  screen, leaving it with ?47l / ?1047l, saving the cursor, XTWINOPS (a resize).  Helper by helper, as
  in Lemmas/C06Margins.lean; no invariant is needed.  Then lifted to the fold `Vt.feed` /
  `Vt.feedAll` / `Vt.feedStr` perform over the functions the parser emits, and to `Vt.resize`.
-/
import Avt.Spec.C05
import Avt.Lemmas.C17Step
import Avt.Lemmas.FrameVt

namespace Avt.C05O
open Avt Avt.Spec Avt.Spec.C05

/-- origin mode is the same -/
def OSame (t t' : Terminal) : Prop := t'.originMode = t.originMode

theorem OSame.refl (t : Terminal) : OSame t t := rfl

theorem OSame.trans {a b c : Terminal} (h1 : OSame a b) (h2 : OSame b c) : OSame a c :=
  Eq.trans h2 h1

theorem map_om {α} {t t' : Terminal} {o : Option α} {g : α → Terminal}
    (h : o.map g = some t') (hg : ∀ a, OSame t (g a)) : OSame t t' := by
  cases o with
  | none => cases h
  | some a => cases h; exact hg a

theorem markDirty_om {t t' : Terminal} {r : Nat} (h : t.markDirty r = some t') : OSame t t' :=
  map_om h (fun _ => rfl)

theorem markDirtyRange_om {t t' : Terminal} {a b : Nat} (h : t.markDirtyRange a b = some t') :
    OSame t t' := map_om h (fun _ => rfl)

theorem doMoveCursorToRow_om {t t' : Terminal} {r : Nat} (h : t.doMoveCursorToRow r = some t') :
    OSame t t' := map_om h (fun _ => rfl)

theorem moveCursorToCol_om {t t' : Terminal} {c : Nat} (h : t.moveCursorToCol c = some t') :
    OSame t t' := by
  unfold Terminal.moveCursorToCol at h
  split at h
  · exact map_om h (fun _ => rfl)
  · cases h; exact rfl

theorem moveCursorToRow_om {t t' : Terminal} {r : Nat} (h : t.moveCursorToRow r = some t') :
    OSame t t' := by
  unfold Terminal.moveCursorToRow at h
  simp only at h
  split at h
  · cases h
  · exact doMoveCursorToRow_om h

theorem moveCursorToRelCol_om {t t' : Terminal} {r : Int} (h : t.moveCursorToRelCol r = some t') :
    OSame t t' := by
  unfold Terminal.moveCursorToRelCol at h
  simp only at h
  split at h
  · cases h; exact rfl
  · split at h
    · exact map_om h (fun _ => rfl)
    · cases h; exact rfl

theorem moveCursorHome_om {t t' : Terminal} (h : t.moveCursorHome = some t') : OSame t t' := by
  unfold Terminal.moveCursorHome at h
  exact OSame.trans (b := t.doMoveCursorToCol 0) rfl (doMoveCursorToRow_om h)

theorem moveCursorToNextTab_om {t t' : Terminal} {n : Nat} (h : t.moveCursorToNextTab n = some t') :
    OSame t t' := by
  unfold Terminal.moveCursorToNextTab at h
  split at h
  · exact moveCursorToCol_om h
  · cases h

theorem moveCursorToPrevTab_om {t t' : Terminal} {n : Nat} (h : t.moveCursorToPrevTab n = some t') :
    OSame t t' := by
  unfold Terminal.moveCursorToPrevTab at h
  split at h
  · exact moveCursorToCol_om h
  · cases h

theorem scrollUpInRegion_om {t t' : Terminal} {n : Nat} (h : t.scrollUpInRegion n = some t') :
    OSame t t' := by
  unfold Terminal.scrollUpInRegion at h
  split at h
  · cases h
  · exact map_om h (fun _ => rfl)

theorem scrollDownInRegion_om {t t' : Terminal} {n : Nat} (h : t.scrollDownInRegion n = some t') :
    OSame t t' := by
  unfold Terminal.scrollDownInRegion at h
  split at h
  · cases h
  · exact map_om h (fun _ => rfl)

theorem moveCursorDownWithScroll_om {t t' : Terminal} (h : t.moveCursorDownWithScroll = some t') :
    OSame t t' := by
  unfold Terminal.moveCursorDownWithScroll at h
  split at h
  · exact scrollUpInRegion_om h
  · split at h
    · cases h
    · split at h
      · exact doMoveCursorToRow_om h
      · cases h; exact rfl

theorem cursorDown_om {t t' : Terminal} {n : Nat} (h : t.cursorDown n = some t') : OSame t t' := by
  unfold Terminal.cursorDown at h
  split at h
  · split at h
    · cases h
    · exact doMoveCursorToRow_om h
  · exact doMoveCursorToRow_om h

theorem cursorUp_om {t t' : Terminal} {n : Nat} (h : t.cursorUp n = some t') : OSame t t' := by
  unfold Terminal.cursorUp at h
  exact doMoveCursorToRow_om h

theorem setTab_om (t : Terminal) : OSame t t.setTab := by
  unfold Terminal.setTab; split <;> exact rfl

theorem ctc_om (t : Terminal) (op : CtcOp) : OSame t (t.ctc op) := by
  cases op
  · exact setTab_om t
  · exact rfl
  · exact rfl

theorem tbc_om (t : Terminal) (s : TbcScope) : OSame t (t.tbc s) := by
  cases s <;> exact rfl

theorem bs_om {t t' : Terminal} (h : t.bs = some t') : OSame t t' := by
  unfold Terminal.bs at h
  split at h <;> exact moveCursorToRelCol_om h

theorem lf_om {t t' : Terminal} (h : t.lf = some t') : OSame t t' := by
  unfold Terminal.lf at h
  cases hm : t.moveCursorDownWithScroll with
  | none => simp [hm] at h
  | some t1 =>
    simp only [hm, Option.map_some, Option.some.injEq] at h
    subst h
    refine (moveCursorDownWithScroll_om hm).trans ?_
    split <;> exact rfl

theorem nel_om {t t' : Terminal} (h : t.nel = some t') : OSame t t' := by
  unfold Terminal.nel at h
  cases hm : t.moveCursorDownWithScroll with
  | none => simp [hm] at h
  | some t1 =>
    simp only [hm, Option.map_some, Option.some.injEq] at h
    subst h
    exact (moveCursorDownWithScroll_om hm).trans rfl

theorem ri_om {t t' : Terminal} (h : t.ri = some t') : OSame t t' := by
  unfold Terminal.ri at h
  split at h
  · exact scrollDownInRegion_om h
  · split at h
    · exact doMoveCursorToRow_om h
    · cases h; exact rfl

theorem decalnRows_om : ∀ (k row : Nat) {t t' : Terminal}, Terminal.decalnRows t row k = some t' → OSame t t'
  | 0, _, t, t', h => by cases h; exact rfl
  | k + 1, row, t, t', h => by
    unfold Terminal.decalnRows at h
    split at h
    · cases h
    · rename_i b _
      split at h
      · cases h
      · rename_i t1 h1
        exact (OSame.trans (b := { t with buffer := b }) rfl (markDirty_om h1)).trans
          (decalnRows_om k (row + 1) h)

theorem ich_om {t t' : Terminal} {n : Nat} (h : t.ich n = some t') : OSame t t' := by
  unfold Terminal.ich at h
  split at h
  · cases h
  · rename_i b _
    exact OSame.trans (b := { t with buffer := b }) rfl (markDirty_om h)

theorem cub_om {t t' : Terminal} {n : Nat} (h : t.cub n = some t') : OSame t t' := by
  unfold Terminal.cub at h
  exact moveCursorToRelCol_om h

theorem cup_om {t t' : Terminal} {r c : Nat} (h : t.cup r c = some t') : OSame t t' := by
  unfold Terminal.cup at h
  split at h
  · cases h
  · rename_i t1 h1
    exact (moveCursorToCol_om h1).trans (moveCursorToRow_om h)

theorem eraseWith_om {t t' : Terminal} {m : Buffer.EraseMode} (h : t.eraseWith m = some t') :
    OSame t t' := map_om h (fun _ => rfl)

theorem ed_om {t t' : Terminal} {s : EdScope} (h : t.ed s = some t') : OSame t t' := by
  unfold Terminal.ed at h
  cases s with
  | savedLines => cases h; exact rfl
  | below | above | all =>
    simp only at h
    split at h
    · cases h
    · rename_i t1 h1
      exact (eraseWith_om h1).trans (markDirtyRange_om h)

theorem el_om {t t' : Terminal} {s : ElScope} (h : t.el s = some t') : OSame t t' := by
  unfold Terminal.el at h
  simp only at h
  split at h
  · cases h
  · rename_i t1 h1
    exact (eraseWith_om h1).trans (markDirty_om h)

theorem ech_om {t t' : Terminal} {n : Nat} (h : t.ech n = some t') : OSame t t' := by
  unfold Terminal.ech at h
  split at h
  · cases h
  · rename_i t1 h1
    exact (eraseWith_om h1).trans (markDirty_om h)

theorem il_om {t t' : Terminal} {n : Nat} (h : t.il n = some t') : OSame t t' := by
  unfold Terminal.il at h
  simp only at h
  split at h
  · cases h
  · rename_i b _
    exact OSame.trans (b := { t with buffer := b }) rfl (markDirtyRange_om h)

theorem dl_om {t t' : Terminal} {n : Nat} (h : t.dl n = some t') : OSame t t' := by
  unfold Terminal.dl at h
  simp only at h
  split at h
  · cases h
  · rename_i b _
    exact OSame.trans (b := { t with buffer := b }) rfl (markDirtyRange_om h)

theorem dch_om {t t' : Terminal} {n : Nat} (h : t.dch n = some t') : OSame t t' := by
  unfold Terminal.dch at h
  simp only at h
  split at h
  · cases h
  · rename_i t1 ht1
    have h1 : OSame t t1 := by
      split at ht1
      · split at ht1
        · cases ht1
        · exact moveCursorToCol_om ht1
      · cases ht1; exact rfl
    split at h
    · cases h
    · rename_i b _
      exact h1.trans (OSame.trans (b := { t1 with buffer := b }) rfl (markDirty_om h))


theorem print_om {t t' : Terminal} {ch : Nat} (h : t.print ch = some t') : OSame t t' := by
  unfold Terminal.print at h
  split at h
  · cases h
  · split at h
    · cases h
    · simp only at h
      split at h
      · cases h
      · rename_i t1 ht1
        split at h
        · cases h
        · rename_i t2 ht2
          have h1 : OSame t t1 := by
            split at ht1
            · have h0 : OSame t (t.doMoveCursorToCol 0) := rfl
              generalize t.doMoveCursorToCol 0 = t0 at ht1 h0
              split at ht1
              · split at ht1
                · cases ht1
                · rename_i b hb
                  have hb' : OSame t { t0 with buffer := b } := h0.trans rfl
                  split at ht1
                  · cases ht1
                  · rename_i t3 ht3
                    have h3 := hb'.trans (scrollUpInRegion_om ht3)
                    split at ht1
                    · cases ht1
                    · split at ht1
                      · split at ht1
                        · cases ht1
                        · exact h3.trans (map_om ht1 (fun _ => rfl))
                      · cases ht1; exact h3
              · split at ht1
                · cases ht1
                · split at ht1
                  · split at ht1
                    · cases ht1
                    · rename_i b hb
                      have hb' : OSame t { t0 with buffer := b } := h0.trans rfl
                      exact hb'.trans (doMoveCursorToRow_om ht1)
                  · cases ht1; exact h0
            · cases ht1; exact rfl
          have h2 : OSame t1 t2 := by
            split at ht2
            · split at ht2
              · cases ht2
              · split at ht2
                · cases ht2
                · split at ht2
                  · cases ht2; exact rfl
                  · cases ht2; exact rfl
            · split at ht2
              · cases ht2
              · cases ht2; exact rfl
          exact (h1.trans h2).trans (markDirty_om h)

theorem printN_om {ch : Nat} : ∀ (k : Nat) {t t' : Terminal}, t.printN ch k = some t' → OSame t t'
  | 0, t, t', h => by cases h; exact rfl
  | k + 1, t, t', h => by
    unfold Terminal.printN at h
    split at h
    · cases h
    · rename_i t1 h1
      exact (print_om h1).trans (printN_om k h)

theorem rep_om {t t' : Terminal} {n : Nat} (h : t.rep n = some t') : OSame t t' := by
  unfold Terminal.rep at h
  split at h
  · split at h
    · cases h
    · split at h
      · cases h
      · exact printN_om _ h
  · cases h; exact rfl

theorem sm_om (ms : List AnsiMode) : ∀ t : Terminal, OSame t (t.sm ms) := by
  induction ms with
  | nil => intro t; exact rfl
  | cons m ms ih =>
    intro t
    simp only [Terminal.sm, List.foldl_cons]
    cases m
    · exact OSame.trans (b := { t with insertMode := true }) rfl (ih _)
    · exact OSame.trans (b := { t with newLineMode := true }) rfl (ih _)

theorem rm_om (ms : List AnsiMode) : ∀ t : Terminal, OSame t (t.rm ms) := by
  induction ms with
  | nil => intro t; exact rfl
  | cons m ms ih =>
    intro t
    simp only [Terminal.rm, List.foldl_cons]
    cases m
    · exact OSame.trans (b := { t with insertMode := false }) rfl (ih _)
    · exact OSame.trans (b := { t with newLineMode := false }) rfl (ih _)

/-! ### save / restore, the switches of screens, reflow -/

theorem saveCursor_om {t t' : Terminal} (h : t.saveCursor = some t') : OSame t t' :=
  map_om h (fun _ => rfl)

theorem switchToAlternateBuffer_om {t t' : Terminal} (h : t.switchToAlternateBuffer = some t') :
    OSame t t' := by
  unfold Terminal.switchToAlternateBuffer at h
  split at h
  · simp only at h
    exact map_om h (fun _ => rfl)
  · cases h; exact rfl

theorem switchToPrimaryBuffer_om {t t' : Terminal} (h : t.switchToPrimaryBuffer = some t') :
    OSame t t' := by
  unfold Terminal.switchToPrimaryBuffer at h
  split at h
  · simp only at h
    exact map_om h (fun _ => rfl)
  · cases h; exact rfl

/-- `Terminal.reflow` (the tail of every switch of screens) resizes the buffer, moves the cursor,
    flags rows and clamps the saved context — never origin mode -/
theorem reflow_om {t t' : Terminal} (h : t.reflow = some t') : OSame t t' := by
  rw [Spec.C17.reflow_eq] at h
  obtain ⟨b, col, row, d, _, rfl⟩ := Spec.C17.reflowCore_eq h
  split <;> exact rfl

/-- `Terminal.resize` (what XTWINOPS performs when enabled, and `Vt::resize`) moves tab stops, resets
    the margins and reflows — never origin mode -/
theorem resize_om {t t' : Terminal} {cols rows : Nat} (h : t.resize cols rows = some t') :
    OSame t t' := by
  unfold Terminal.resize at h
  simp only at h
  generalize ht0 : (if cols < t.cols then ({ t with tabs := Tabs.contract t.tabs cols } : Terminal)
      else if cols > t.cols then { t with tabs := Tabs.expand t.tabs t.cols cols } else t) = t0 at h
  have h0 : OSame t t0 := by
    subst ht0
    split
    · exact rfl
    · split <;> exact rfl
  split at h
  · cases h
  · rename_i t1 ht1
    have h1 : OSame t0 t1 := by
      split at ht1
      · exact map_om ht1 (fun _ => rfl)
      · cases ht1; exact rfl
    exact (h0.trans h1).trans
      (OSame.trans (b := { t1 with cols := cols, rows := rows }) rfl (reflow_om h))

theorem xtwinopsF_om {t t' : Terminal} {c r : Nat} (h : t.xtwinopsF c r = some t') : OSame t t' := by
  unfold Terminal.xtwinopsF at h
  split at h
  · exact resize_om h
  · cases h; exact rfl

theorem decstbm_om {t t' : Terminal} {a b : Nat} (h : t.decstbm a b = some t') : OSame t t' := by
  unfold Terminal.decstbm at h
  simp only at h
  split at h
  · cases h
  · rename_i bm _
    refine OSame.trans ?_ (moveCursorHome_om h)
    split <;> exact rfl

/-- setting a DEC mode other than origin mode — entering the alternate screen included -/
theorem decsetOne_om {t t' : Terminal} {m : DecMode} (hm : m ≠ .origin)
    (h : t.decsetOne m = some t') : OSame t t' := by
  cases m <;> simp only [Terminal.decsetOne] at h
  case cursorKeys => cases h; exact rfl
  case origin => exact absurd rfl hm
  case autoWrap => cases h; exact rfl
  case textCursorEnable => cases h; exact rfl
  case altScreenBuffer =>
    split at h
    · cases h
    · rename_i t1 h1
      exact (switchToAlternateBuffer_om h1).trans (reflow_om h)
  case saveCursor => exact saveCursor_om h
  case saveCursorAltScreenBuffer =>
    split at h
    · cases h
    · rename_i t0 h0
      split at h
      · cases h
      · rename_i t1 h1
        exact ((saveCursor_om h0).trans (switchToAlternateBuffer_om h1)).trans (reflow_om h)

/-- resetting a DEC mode other than origin mode and the two that restore the saved context —
    leaving the alternate screen with ?47l / ?1047l included -/
theorem decrstOne_om {t t' : Terminal} {m : DecMode}
    (hm : m ≠ .origin ∧ m ≠ .saveCursor ∧ m ≠ .saveCursorAltScreenBuffer)
    (h : t.decrstOne m = some t') : OSame t t' := by
  cases m <;> simp only [Terminal.decrstOne] at h
  case cursorKeys => cases h; exact rfl
  case origin => exact absurd rfl hm.1
  case autoWrap => cases h; exact rfl
  case textCursorEnable => cases h; exact rfl
  case altScreenBuffer =>
    split at h
    · cases h
    · rename_i t1 h1
      exact (switchToPrimaryBuffer_om h1).trans (reflow_om h)
  case saveCursor => exact absurd rfl hm.2.1
  case saveCursorAltScreenBuffer => exact absurd rfl hm.2.2

theorem foldM_om {α} {f : Terminal → α → Option Terminal} :
    ∀ (as : List α) {t t' : Terminal}, (∀ a ∈ as, ∀ t t', f t a = some t' → OSame t t') →
      Terminal.foldM' f as t = some t' → OSame t t'
  | [], t, t', _, h => by cases h; exact rfl
  | a :: as, t, t', hf, h => by
    unfold Terminal.foldM' at h
    split at h
    · rename_i t1 h1
      exact (hf a (by simp) _ _ h1).trans (foldM_om as (fun b hb => hf b (by simp [hb])) h)
    · cases h

/-- **frame**: every function for which `setsOrigin` is false leaves `originMode` exactly as it is
    (all constructors of `Function`; no invariant) -/
theorem frame {t t' : Terminal} {f : Function} (hf : setsOrigin f = false)
    (h : t.execute f = some t') : OSame t t' := by
  cases f <;> simp only [setsOrigin, Bool.true_eq_false] at hf <;> simp only [Terminal.execute] at h
  case bs => exact bs_om h
  case cbt n => exact moveCursorToPrevTab_om h
  case cha n => exact moveCursorToCol_om h
  case cht n => exact moveCursorToNextTab_om h
  case cnl n =>
    cases hc : t.cursorDown (asUsize n 1) with
    | none => simp [hc] at h
    | some t1 =>
      simp only [hc, Option.map_some, Option.some.injEq] at h; subst h
      exact (cursorDown_om hc).trans rfl
  case cpl n =>
    cases hc : t.cursorUp (asUsize n 1) with
    | none => simp [hc] at h
    | some t1 =>
      simp only [hc, Option.map_some, Option.some.injEq] at h; subst h
      exact (cursorUp_om hc).trans rfl
  case cr => cases h; exact rfl
  case ctc op => cases h; exact ctc_om t op
  case cub n => exact cub_om h
  case cud n => exact cursorDown_om h
  case cuf n => exact moveCursorToRelCol_om h
  case cup r c => exact cup_om h
  case cuu n => exact cursorUp_om h
  case dch n => exact dch_om h
  case decaln => exact decalnRows_om _ _ h
  case decrst ms =>
    refine foldM_om ms (fun m hm _ _ hh => decrstOne_om ?_ hh) h
    have := List.any_eq_false.mp hf m hm
    refine ⟨?_, ?_, ?_⟩ <;> rintro rfl <;> simp at this
  case decsc => exact saveCursor_om h
  case decset ms =>
    refine foldM_om ms (fun m hm _ _ hh => decsetOne_om ?_ hh) h
    have := List.any_eq_false.mp hf m hm
    rintro rfl; simp at this
  case decstbm a b => exact decstbm_om h
  case dl n => exact dl_om h
  case ech n => exact ech_om h
  case ed s => exact ed_om h
  case el s => exact el_om h
  case g1d4 c => cases h; exact rfl
  case gzd4 c => cases h; exact rfl
  case ht => exact moveCursorToNextTab_om h
  case hts => cases h; exact setTab_om t
  case ich n => exact ich_om h
  case il n => exact il_om h
  case lf => exact lf_om h
  case nel => exact nel_om h
  case print ch => exact print_om h
  case rep n => exact rep_om h
  case ri => exact ri_om h
  case rm ms => cases h; exact rm_om ms t
  case scosc => exact saveCursor_om h
  case sd n => exact scrollDownInRegion_om h
  case sgr ops => cases h; exact rfl
  case si => cases h; exact rfl
  case sm ms => cases h; exact sm_om ms t
  case so => cases h; exact rfl
  case su n => exact scrollUpInRegion_om h
  case tbc s => cases h; exact tbc_om t s
  case vpa n => exact moveCursorToRow_om h
  case vpr n => exact cursorDown_om h
  case xtwinops c r => exact xtwinopsF_om h

/-! ### lifted to a list of functions, and to the public calls -/

/-- the fold of `execute` over functions none of which sets origin mode -/
theorem frame_many {fs : List Function} (hf : ∀ f ∈ fs, setsOrigin f = false) :
    ∀ {t t' : Terminal}, Terminal.foldM' Terminal.execute fs t = some t' → OSame t t' := by
  induction fs with
  | nil => intro t t' h; cases h; exact rfl
  | cons f fs ih =>
    intro t t' h
    unfold Terminal.foldM' at h
    split at h
    · rename_i t1 h1
      exact (frame (hf f (by simp)) h1).trans (ih (fun g hg => hf g (by simp [hg])) h)
    · cases h

/-- one character through `Vt.feed` -/
theorem feed_om {v v' : Vt} {c : Nat} (hf : ∀ f ∈ Frame.emitted v.parser [c], setsOrigin f = false)
    (h : v.feed c = some v') : OSame v.terminal v'.terminal := by
  unfold Vt.feed at h
  split at h
  · cases h
  · cases h; exact rfl
  · rename_i p f hp
    obtain ⟨t1, h1, rfl⟩ := Option.map_eq_some_iff.mp h
    exact frame (hf f (by simp [Frame.emitted, hp])) h1

/-- a string through `Vt.feedAll` (per-character `Vt::feed`, no `changes()` / `gc()`) -/
theorem feedAll_om : ∀ (xs : List Nat) {v v' : Vt},
    (∀ f ∈ Frame.emitted v.parser xs, setsOrigin f = false) → v.feedAll xs = some v' →
    OSame v.terminal v'.terminal
  | [], v, v', _, h => by cases h; exact rfl
  | c :: cs, v, v', hf, h => by
    simp only [Vt.feedAll] at h
    split at h
    · rename_i v1 h1
      rw [Frame.emitted_feed h1 cs] at hf
      exact (feed_om (fun f hm => hf f (by simp [hm])) h1).trans
        (feedAll_om cs (fun f hm => hf f (by simp [hm])) h)
    · cases h

/-- `changes()` + `gc()` do not touch origin mode -/
theorem finish_om (v : Vt) : OSame v.terminal v.finish.1.terminal := rfl

/-- `Vt.feedStr` -/
theorem feedStr_om {xs : List Nat} {v v' : Vt} {ch : Changes}
    (hf : ∀ f ∈ Frame.emitted v.parser xs, setsOrigin f = false) (h : v.feedStr xs = some (v', ch)) :
    OSame v.terminal v'.terminal := by
  unfold Vt.feedStr at h
  obtain ⟨v1, h1, h2⟩ := Option.map_eq_some_iff.mp h
  have e : v' = v1.finish.1 := by rw [h2]
  subst e
  exact (feedAll_om xs hf h1).trans (finish_om v1)

/-- `Vt::resize` -/
theorem vtResize_om {v v' : Vt} {ch : Changes} {cols rows : Nat}
    (h : v.resize cols rows = some (v', ch)) : OSame v.terminal v'.terminal := by
  unfold Vt.resize at h
  obtain ⟨t1, h1, h2⟩ := Option.map_eq_some_iff.mp h
  have e : v' = (Vt.finish { v with terminal := t1 }).1 := by rw [h2]
  subst e
  exact (resize_om h1).trans (finish_om { v with terminal := t1 })

end Avt.C05O
