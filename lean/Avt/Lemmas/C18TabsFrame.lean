/-
  Avt.Lemmas.C18TabsFrame — the stop vector is state that only HTS / TBC / CTC (which edit it), RIS
  (back to the defaults) and XTWINOPS (a resize, when enabled) may change: every other function
  leaves `tabs` exactly as it is — HT / CHT / CBT themselves, printing, erasing, scrolling, save /
  restore cursor, DECSTR, both directions of every switch of screens (47/1047/1049) with the reflow
  that follows.  The function-level statement is `Lemmas.C18.execute_frame` (helper by helper in
  Lemmas/C18Frame.lean, no invariant); here it is stated with the oracle's predicate
  `Spec.C18.setsTabs` and lifted to the fold `Vt.feed` / `Vt.feedAll` / `Vt.feedStr` perform over
  the functions the parser emits, as in Lemmas/C06Margins.lean.
-/
import Avt.Spec.C18
import Avt.Lemmas.C18Frame
import Avt.Lemmas.FrameVt

namespace Avt.C18T
open Avt Avt.Spec Avt.Spec.C18 Avt.Lemmas.C18

/-- the oracle's predicate is the predicate of `Lemmas.C18.execute_frame` -/
theorem setsTabs_eq (f : Function) : setsTabs f = touchesTabs f := by
  cases f <;> rfl

/-- the stop vector (and the width it lives in) is the same -/
abbrev TSame (t t' : Terminal) : Prop := Fr t t'

/-- **frame**: every function other than HTS, TBC, CTC, RIS and XTWINOPS leaves the stop vector (and
    the width) exactly as it is (all constructors of `Function`; no invariant) -/
theorem frame {t t' : Terminal} {f : Function} (hf : setsTabs f = false)
    (h : t.execute f = some t') : TSame t t' :=
  execute_frame (by rw [← setsTabs_eq]; exact hf) h

/-! ### lifted to a list of functions, and to the public calls -/

/-- the fold of `execute` over functions none of which sets the stops -/
theorem frame_many {fs : List Function} (hf : ∀ f ∈ fs, setsTabs f = false) :
    ∀ {t t' : Terminal}, Terminal.foldM' Terminal.execute fs t = some t' → TSame t t' := by
  induction fs with
  | nil => intro t t' h; cases h; exact Fr.refl _
  | cons f fs ih =>
    intro t t' h
    unfold Terminal.foldM' at h
    split at h
    · rename_i t1 h1
      exact (frame (hf f (by simp)) h1).trans (ih (fun g hg => hf g (by simp [hg])) h)
    · cases h

/-- one character through `Vt.feed` -/
theorem feed_tabs {v v' : Vt} {c : Nat} (hf : ∀ f ∈ Frame.emitted v.parser [c], setsTabs f = false)
    (h : v.feed c = some v') : TSame v.terminal v'.terminal := by
  unfold Vt.feed at h
  split at h
  · cases h
  · cases h; exact Fr.refl _
  · rename_i p f hp
    obtain ⟨t1, h1, rfl⟩ := Option.map_eq_some_iff.mp h
    exact frame (hf f (by simp [Frame.emitted, hp])) h1

/-- a string through `Vt.feedAll` (per-character `Vt::feed`, no `changes()` / `gc()`) -/
theorem feedAll_tabs : ∀ (xs : List Nat) {v v' : Vt},
    (∀ f ∈ Frame.emitted v.parser xs, setsTabs f = false) → v.feedAll xs = some v' →
    TSame v.terminal v'.terminal
  | [], v, v', _, h => by cases h; exact Fr.refl _
  | c :: cs, v, v', hf, h => by
    simp only [Vt.feedAll] at h
    split at h
    · rename_i v1 h1
      rw [Frame.emitted_feed h1 cs] at hf
      exact (feed_tabs (fun f hm => hf f (by simp [hm])) h1).trans
        (feedAll_tabs cs (fun f hm => hf f (by simp [hm])) h)
    · cases h

/-- `changes()` + `gc()` do not touch the stops -/
theorem finish_tabs (v : Vt) : TSame v.terminal v.finish.1.terminal := ⟨rfl, rfl⟩

/-- `Vt.feedStr` -/
theorem feedStr_tabs {xs : List Nat} {v v' : Vt} {ch : Changes}
    (hf : ∀ f ∈ Frame.emitted v.parser xs, setsTabs f = false) (h : v.feedStr xs = some (v', ch)) :
    TSame v.terminal v'.terminal := by
  unfold Vt.feedStr at h
  obtain ⟨v1, h1, h2⟩ := Option.map_eq_some_iff.mp h
  have e : v' = v1.finish.1 := by rw [h2]
  subst e
  exact (feedAll_tabs xs hf h1).trans (finish_tabs v1)

end Avt.C18T
