/-
  Avt.Lemmas.C16Frame — frame lemmas for C16: no function other than the two buffer switches and the
  hard reset touches `otherBuffer`, `alternateSavedCtx`, `activeBufferType`.

  Every lemma has the shape `t.f args = some t' → fr t' = fr t` and is registered as a `grind` rule
  with the multi-pattern `{t.f args, some t'}`, so that chains of calls are closed by congruence.
-/
import Avt.Model.Vt
import Avt.Spec.Inv
import Avt.Spec.C16
import Avt.Lemmas.C15PrintSplit

namespace Avt.C16
open Avt

/-- the part of the state the alternate screen must not touch -/
def fr (t : Terminal) : Buffer × SavedCtx × BufferType := (t.otherBuffer, t.alternateSavedCtx, t.activeBufferType)

/-- inversion of `Option.map`, as a `grind` rule -/
theorem map_some_inv {α β} {f : α → β} {o : Option α} {b : β} (h : o.map f = some b) :
    ∃ a, o = some a ∧ f a = b := Option.map_eq_some_iff.mp h
grind_pattern map_some_inv => o.map f, some b

set_option hygiene false in
/-- split every `match`/`if` of hypothesis `h`, then normalise the leaves -/
macro "fr_split" : tactic => `(tactic| (
  repeat' (first | split at h | (dsimp only at h; split at h))
  all_goals (try simp only [Option.map_eq_some_iff, Option.some.injEq, reduceCtorEq, exists_and_left] at h)))

set_option hygiene false in
/-- unfold-split-close: leaves are explicit updates or calls of functions already covered -/
macro "fr_auto" : tactic => `(tactic| (
  fr_split
  all_goals (try (obtain ⟨_, _, rfl⟩ := h))
  all_goals (try subst h)
  all_goals grind [fr, Terminal.doMoveCursorToCol, Terminal.restoreCursor, Terminal.setTab, Terminal.clearTab,
    Terminal.clearAllTabs]))

theorem fr_saveCursor {t t' : Terminal} (h : t.saveCursor = some t') : fr t' = fr t := by
  unfold Terminal.saveCursor at h; fr_auto
grind_pattern fr_saveCursor => t.saveCursor, some t'

theorem fr_moveCursorToCol {t t' : Terminal} {k} (h : t.moveCursorToCol k = some t') : fr t' = fr t := by
  unfold Terminal.moveCursorToCol at h; fr_auto
grind_pattern fr_moveCursorToCol => t.moveCursorToCol k, some t'

theorem fr_doMoveCursorToRow {t t' : Terminal} {k} (h : t.doMoveCursorToRow k = some t') : fr t' = fr t := by
  unfold Terminal.doMoveCursorToRow at h; fr_auto
grind_pattern fr_doMoveCursorToRow => t.doMoveCursorToRow k, some t'

theorem fr_moveCursorToRelCol {t t' : Terminal} {k} (h : t.moveCursorToRelCol k = some t') : fr t' = fr t := by
  unfold Terminal.moveCursorToRelCol at h; fr_auto
grind_pattern fr_moveCursorToRelCol => t.moveCursorToRelCol k, some t'

theorem fr_markDirty {t t' : Terminal} {k} (h : t.markDirty k = some t') : fr t' = fr t := by
  unfold Terminal.markDirty at h; fr_auto
grind_pattern fr_markDirty => t.markDirty k, some t'

theorem fr_markDirtyRange {t t' : Terminal} {a b} (h : t.markDirtyRange a b = some t') : fr t' = fr t := by
  unfold Terminal.markDirtyRange at h; fr_auto
grind_pattern fr_markDirtyRange => t.markDirtyRange a b, some t'

theorem fr_scrollUpInRegion {t t' : Terminal} {n} (h : t.scrollUpInRegion n = some t') : fr t' = fr t := by
  unfold Terminal.scrollUpInRegion at h; fr_auto
grind_pattern fr_scrollUpInRegion => t.scrollUpInRegion n, some t'

theorem fr_scrollDownInRegion {t t' : Terminal} {n} (h : t.scrollDownInRegion n = some t') : fr t' = fr t := by
  unfold Terminal.scrollDownInRegion at h; fr_auto
grind_pattern fr_scrollDownInRegion => t.scrollDownInRegion n, some t'

theorem fr_softReset {t t' : Terminal} (h : t.softReset = some t') : fr t' = fr t := by
  unfold Terminal.softReset at h; fr_auto
grind_pattern fr_softReset => t.softReset, some t'

theorem fr_eraseWith {t t' : Terminal} {m} (h : t.eraseWith m = some t') : fr t' = fr t := by
  unfold Terminal.eraseWith at h; fr_auto
grind_pattern fr_eraseWith => t.eraseWith m, some t'

theorem fr_moveCursorToRow {t t' : Terminal} {k} (h : t.moveCursorToRow k = some t') : fr t' = fr t := by
  unfold Terminal.moveCursorToRow at h; fr_auto
grind_pattern fr_moveCursorToRow => t.moveCursorToRow k, some t'

theorem fr_moveCursorHome {t t' : Terminal} (h : t.moveCursorHome = some t') : fr t' = fr t := by
  unfold Terminal.moveCursorHome at h; fr_auto
grind_pattern fr_moveCursorHome => t.moveCursorHome, some t'

theorem fr_moveCursorToNextTab {t t' : Terminal} {n} (h : t.moveCursorToNextTab n = some t') : fr t' = fr t := by
  unfold Terminal.moveCursorToNextTab at h; fr_auto
grind_pattern fr_moveCursorToNextTab => t.moveCursorToNextTab n, some t'

theorem fr_moveCursorToPrevTab {t t' : Terminal} {n} (h : t.moveCursorToPrevTab n = some t') : fr t' = fr t := by
  unfold Terminal.moveCursorToPrevTab at h; fr_auto
grind_pattern fr_moveCursorToPrevTab => t.moveCursorToPrevTab n, some t'

theorem fr_moveCursorDownWithScroll {t t' : Terminal} (h : t.moveCursorDownWithScroll = some t') : fr t' = fr t := by
  unfold Terminal.moveCursorDownWithScroll at h; fr_auto
grind_pattern fr_moveCursorDownWithScroll => t.moveCursorDownWithScroll, some t'

theorem fr_cursorDown {t t' : Terminal} {n} (h : t.cursorDown n = some t') : fr t' = fr t := by
  unfold Terminal.cursorDown at h; fr_auto
grind_pattern fr_cursorDown => t.cursorDown n, some t'

theorem fr_cursorUp {t t' : Terminal} {n} (h : t.cursorUp n = some t') : fr t' = fr t := by
  unfold Terminal.cursorUp at h; fr_auto
grind_pattern fr_cursorUp => t.cursorUp n, some t'

theorem fr_bs {t t' : Terminal} (h : t.bs = some t') : fr t' = fr t := by
  unfold Terminal.bs at h; fr_auto
grind_pattern fr_bs => t.bs, some t'

theorem fr_lf {t t' : Terminal} (h : t.lf = some t') : fr t' = fr t := by
  unfold Terminal.lf at h; fr_auto
grind_pattern fr_lf => t.lf, some t'

theorem fr_nel {t t' : Terminal} (h : t.nel = some t') : fr t' = fr t := by
  unfold Terminal.nel at h; fr_auto
grind_pattern fr_nel => t.nel, some t'

theorem fr_ri {t t' : Terminal} (h : t.ri = some t') : fr t' = fr t := by
  unfold Terminal.ri at h; fr_auto
grind_pattern fr_ri => t.ri, some t'

theorem fr_ich {t t' : Terminal} {n} (h : t.ich n = some t') : fr t' = fr t := by
  unfold Terminal.ich at h; fr_auto
grind_pattern fr_ich => t.ich n, some t'

theorem fr_cub {t t' : Terminal} {n} (h : t.cub n = some t') : fr t' = fr t := by
  unfold Terminal.cub at h; fr_auto
grind_pattern fr_cub => t.cub n, some t'

theorem fr_cup {t t' : Terminal} {a b} (h : t.cup a b = some t') : fr t' = fr t := by
  unfold Terminal.cup at h; fr_auto
grind_pattern fr_cup => t.cup a b, some t'

theorem fr_ed {t t' : Terminal} {s} (h : t.ed s = some t') : fr t' = fr t := by
  unfold Terminal.ed at h; fr_auto
grind_pattern fr_ed => t.ed s, some t'

theorem fr_el {t t' : Terminal} {s} (h : t.el s = some t') : fr t' = fr t := by
  unfold Terminal.el at h; fr_auto
grind_pattern fr_el => t.el s, some t'

theorem fr_il {t t' : Terminal} {n} (h : t.il n = some t') : fr t' = fr t := by
  unfold Terminal.il at h; fr_auto
grind_pattern fr_il => t.il n, some t'

theorem fr_dl {t t' : Terminal} {n} (h : t.dl n = some t') : fr t' = fr t := by
  unfold Terminal.dl at h; fr_auto
grind_pattern fr_dl => t.dl n, some t'

theorem fr_dch {t t' : Terminal} {n} (h : t.dch n = some t') : fr t' = fr t := by
  unfold Terminal.dch at h; fr_auto
grind_pattern fr_dch => t.dch n, some t'

theorem fr_ech {t t' : Terminal} {n} (h : t.ech n = some t') : fr t' = fr t := by
  unfold Terminal.ech at h; fr_auto
grind_pattern fr_ech => t.ech n, some t'

theorem fr_decstbm {t t' : Terminal} {a b} (h : t.decstbm a b = some t') : fr t' = fr t := by
  unfold Terminal.decstbm at h; fr_auto
grind_pattern fr_decstbm => t.decstbm a b, some t'

theorem fr_printWrap {t t' : Terminal} (h : t.c15Wrap = some t') : fr t' = fr t := by
  unfold Terminal.c15Wrap at h; fr_auto
grind_pattern fr_printWrap => t.c15Wrap, some t'

theorem fr_printPut {t t' : Terminal} {cell} (h : t.c15Put cell = some t') : fr t' = fr t := by
  unfold Terminal.c15Put at h; fr_auto
grind_pattern fr_printPut => t.c15Put cell, some t'

theorem fr_ctc {t : Terminal} {op} : fr (t.ctc op) = fr t := by
  cases op <;> simp only [Terminal.ctc, Terminal.setTab, Terminal.clearTab, Terminal.clearAllTabs] <;> (try split) <;> rfl

theorem fr_tbc {t : Terminal} {s} : fr (t.tbc s) = fr t := by
  cases s <;> rfl

theorem fr_sm {ms : List AnsiMode} {t : Terminal} : fr (t.sm ms) = fr t := by
  unfold Terminal.sm
  induction ms generalizing t with
  | nil => rfl
  | cons m ms ih => cases m <;> exact ih

theorem fr_rm {ms : List AnsiMode} {t : Terminal} : fr (t.rm ms) = fr t := by
  unfold Terminal.rm
  induction ms generalizing t with
  | nil => rfl
  | cons m ms ih => cases m <;> exact ih

theorem fr_decalnRows {k : Nat} {t t' : Terminal} {row} (h : Terminal.decalnRows t row k = some t') :
    fr t' = fr t := by
  induction k generalizing t row with
  | zero => simp only [Terminal.decalnRows, Option.some.injEq] at h; subst h; rfl
  | succ k ih =>
    unfold Terminal.decalnRows at h
    split at h
    · simp at h
    · split at h
      · simp at h
      · rename_i hm
        have := fr_markDirty hm
        exact (ih h).trans this

theorem fr_decaln {t t' : Terminal} (h : t.decaln = some t') : fr t' = fr t := fr_decalnRows h
grind_pattern fr_decaln => t.decaln, some t'

theorem fr_print {t t' : Terminal} {ch} (h : t.print ch = some t') : fr t' = fr t := by
  rw [Terminal.c15_print_eq] at h; fr_auto
grind_pattern fr_print => t.print ch, some t'

theorem fr_printN {k : Nat} {t t' : Terminal} {ch} (h : t.printN ch k = some t') : fr t' = fr t := by
  induction k generalizing t with
  | zero => simp only [Terminal.printN, Option.some.injEq] at h; subst h; rfl
  | succ k ih =>
    unfold Terminal.printN at h
    split at h
    · simp at h
    · rename_i hp
      exact (ih h).trans (fr_print hp)

theorem fr_rep {t t' : Terminal} {n} (h : t.rep n = some t') : fr t' = fr t := by
  unfold Terminal.rep at h
  fr_split
  · exact fr_printN h
  · subst h; rfl
grind_pattern fr_rep => t.rep n, some t'

theorem fr_clampCol {t2 t3 : Terminal}
    (h3 : (if t2.savedCtx.cursorCol ≥ t2.cols
             then (csub t2.cols 1).map fun c1 => { t2 with savedCtx := { t2.savedCtx with cursorCol := c1 } }
             else some t2) = some t3) : fr t3 = fr t2 := by
  split at h3
  · simp only [Option.map_eq_some_iff] at h3; obtain ⟨_, _, rfl⟩ := h3; rfl
  · simp only [Option.some.injEq] at h3; subst h3; rfl

theorem fr_clampRow {t2 t3 : Terminal}
    (h3 : (if t2.savedCtx.cursorRow ≥ t2.rows
             then (csub t2.rows 1).map fun c1 => { t2 with savedCtx := { t2.savedCtx with cursorRow := c1 } }
             else some t2) = some t3) : fr t3 = fr t2 := by
  split at h3
  · simp only [Option.map_eq_some_iff] at h3; obtain ⟨_, _, rfl⟩ := h3; rfl
  · simp only [Option.some.injEq] at h3; subst h3; rfl

theorem fr_reflow {t t' : Terminal} (h : t.reflow = some t') : fr t' = fr t := by
  unfold Terminal.reflow at h
  dsimp only at h
  split at h
  · simp at h
  · rename_i b col row hr
    split at h
    · simp at h
    · rename_i t2 h2
      split at h
      · simp at h
      · rename_i t3 h3
        have e2 := fr_markDirtyRange h2
        refine (fr_clampRow h).trans ((fr_clampCol h3).trans (e2.trans ?_))
        split <;> rfl
grind_pattern fr_reflow => t.reflow, some t'

theorem fr_resize {t t' : Terminal} {a b} (h : t.resize a b = some t') : fr t' = fr t := by
  unfold Terminal.resize at h; fr_auto
grind_pattern fr_resize => t.resize a b, some t'

theorem fr_xtwinopsF {t t' : Terminal} {a b} (h : t.xtwinopsF a b = some t') : fr t' = fr t := by
  unfold Terminal.xtwinopsF at h
  fr_split
  · exact fr_resize h
  · subst h; rfl
grind_pattern fr_xtwinopsF => t.xtwinopsF a b, some t'

/-! ### DECSET / DECRST while the alternate screen is showing -/

theorem fr_switchToAlternate_alt {t t' : Terminal} (ha : t.activeBufferType = .alternate)
    (h : t.switchToAlternateBuffer = some t') : t' = t := by
  unfold Terminal.switchToAlternateBuffer at h
  rw [ha] at h
  simp only [Option.some.injEq] at h
  exact h.symm

theorem fr_decsetOne {t t' : Terminal} {m} (ha : t.activeBufferType = .alternate)
    (h : t.decsetOne m = some t') : fr t' = fr t := by
  cases m <;> simp only [Terminal.decsetOne] at h
  · simp only [Option.some.injEq] at h; subst h; rfl
  · have := fr_moveCursorHome h; exact this
  · simp only [Option.some.injEq] at h; subst h; rfl
  · simp only [Option.some.injEq] at h; subst h; rfl
  · split at h
    · simp at h
    · rename_i t1 h1
      rw [fr_switchToAlternate_alt ha h1] at h
      exact fr_reflow h
  · exact fr_saveCursor h
  · split at h
    · simp at h
    · rename_i t1 h1
      have e1 := fr_saveCursor h1
      split at h
      · simp at h
      · rename_i t2 h2
        have ha1 : t1.activeBufferType = .alternate := by
          have := congrArg (·.2.2) e1; simpa [fr, ha] using this
        rw [fr_switchToAlternate_alt ha1 h2] at h
        exact (fr_reflow h).trans e1

theorem fr_decrstOne {t t' : Terminal} {m} (hm : Spec.C16.isAltScreenMode m = false)
    (h : t.decrstOne m = some t') : fr t' = fr t := by
  cases m <;> simp only [Terminal.decrstOne] at h <;> simp only [Spec.C16.isAltScreenMode, reduceCtorEq] at hm
  · simp only [Option.some.injEq] at h; subst h; rfl
  · have := fr_moveCursorHome h; exact this
  · simp only [Option.some.injEq] at h; subst h; rfl
  · simp only [Option.some.injEq] at h; subst h; rfl
  · simp only [Option.some.injEq] at h; subst h; rfl

theorem foldM'_inv {α β} {f : β → α → Option β} (P : β → Prop) {ms : List α} {b b' : β}
    (step : ∀ b a b', a ∈ ms → P b → f b a = some b' → P b') (h0 : P b)
    (h : Terminal.foldM' f ms b = some b') : P b' := by
  induction ms generalizing b with
  | nil => simp only [Terminal.foldM', Option.some.injEq] at h; subst h; exact h0
  | cons a as ih =>
    unfold Terminal.foldM' at h
    split at h
    · rename_i b1 h1
      exact ih (fun b a b' ha => step b a b' (List.mem_cons_of_mem _ ha))
        (step b a b1 List.mem_cons_self h0 h1) h
    · simp at h

/-- **frame**: on the alternate screen, everything except leaving and RIS keeps the parked primary -/
theorem fr_execute {t t' : Terminal} {f : Function} (ha : t.activeBufferType = .alternate)
    (hf : Spec.C16.endsExcursion f = false) (h : t.execute f = some t') : fr t' = fr t := by
  cases f <;> simp only [Terminal.execute] at h
  case decset ms =>
    have := foldM'_inv (f := Terminal.decsetOne) (fun x => fr x = fr t) (ms := ms)
      (fun b a b' _ hb hs => by
        have hab : b.activeBufferType = .alternate := by
          have := congrArg (·.2.2) hb; simpa [fr, ha] using this
        exact (fr_decsetOne hab hs).trans hb) rfl h
    exact this
  case decrst ms =>
    have hms : ∀ m ∈ ms, Spec.C16.isAltScreenMode m = false := by
      simpa [Spec.C16.endsExcursion] using hf
    exact foldM'_inv (f := Terminal.decrstOne) (fun x => fr x = fr t) (ms := ms)
      (fun b a b' hmem hb hs => (fr_decrstOne (hms a hmem) hs).trans hb) rfl h
  case ris => simp [Spec.C16.endsExcursion] at hf
  all_goals grind [fr, fr_ctc, fr_tbc, fr_sm, fr_rm, Terminal.setTab, Terminal.restoreCursor,
    Terminal.doMoveCursorToCol, Terminal.sgr]

end Avt.C16
