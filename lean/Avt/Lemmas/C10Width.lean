/-
  Avt.Lemmas.C10Width — the cursor translation of a width-changing resize: what
  `Buffer::relative_position` returns on the reflowed rows, in terms of the row structure.
  (Uses the phase decomposition `rsStep1`/`rsStep2`/`resize_eq` of Lemmas/Resize.lean.)
-/
import Avt.Lemmas.C10RowsOnly2
import Avt.Lemmas.Resize

namespace Avt.Lemmas
open Avt Avt.Spec.C10

/-! ### the two loops of `relative_position` -/

/-- first loop: it stops after exactly `target - r` unwrapped rows (if there are that many), just
    behind an unwrapped row -/
theorem relLoop1_spec (target : Nat) : ∀ (ls : List Line) (r rr : Nat), r ≤ target →
    target - r ≤ ls.countP (fun l => !l.wrapped) →
    ∃ m, Buffer.relLoop1 target ls r rr = rr + m ∧ m ≤ ls.length
      ∧ (ls.take m).countP (fun l => !l.wrapped) = target - r
      ∧ lastUnwrapped (ls.take m) = true
  | [], r, rr, hr, hc => by
    simp only [List.countP_nil, Nat.le_zero_eq] at hc
    exact ⟨0, by simp [Buffer.relLoop1], by simp, by simp [hc], rfl⟩
  | l :: t, r, rr, hr, hc => by
    unfold Buffer.relLoop1
    by_cases hlt : r < target
    · simp only [hlt, if_true]
      cases hw : l.wrapped with
      | true =>
        have hc' : target - r ≤ t.countP (fun l => !l.wrapped) := by
          simpa [List.countP_cons, hw] using hc
        obtain ⟨m, h1, h2, h3, h4⟩ := relLoop1_spec target t r (rr + 1) hr hc'
        refine ⟨m + 1, ?_, by simp; omega, ?_, ?_⟩
        · simp only [Bool.not_true, Bool.false_eq_true, if_false]; rw [h1]; omega
        · simp [List.countP_cons, hw, h3]
        · have hm : m ≠ 0 := by
            intro h0; subst h0; simp at h3; omega
          have hne : t.take m ≠ [] := by
            intro h0
            have := congrArg List.length h0
            simp at this
            rcases this with h | h
            · exact hm h
            · subst h; simp at hc'; omega
          rw [List.take_succ_cons, Avt.lastUnwrapped_cons_of_ne_nil l hne]; exact h4
      | false =>
        have hc' : target - (r + 1) ≤ t.countP (fun l => !l.wrapped) := by
          simp [List.countP_cons, hw] at hc; omega
        obtain ⟨m, h1, h2, h3, h4⟩ := relLoop1_spec target t (r + 1) (rr + 1) (by omega) hc'
        refine ⟨m + 1, ?_, by simp; omega, ?_, ?_⟩
        · simp only [Bool.not_false, if_true]; rw [h1]; omega
        · simp [List.countP_cons, hw, h3]; omega
        · by_cases hne : t.take m = []
          · rw [List.take_succ_cons, hne]; simp [lastUnwrapped, hw]
          · rw [List.take_succ_cons, Avt.lastUnwrapped_cons_of_ne_nil l hne]; exact h4
    · simp only [hlt, if_false]
      exact ⟨0, by simp, by simp, by simp; omega, rfl⟩

/-- second loop: it walks down `k` wrapped rows, taking `cols` off the column each time, and stops
    when the column fits or the row is not wrapped -/
theorem relLoop2_spec (cols : Nat) : ∀ (ls : List Line) (c r c2 r2 : Nat),
    Buffer.relLoop2 cols ls c r = some (c2, r2) →
    ∃ k, r2 = r + k ∧ c = c2 + k * cols ∧ k ≤ ls.length ∧ (∀ l ∈ ls.take k, l.wrapped = true)
      ∧ (c2 < cols ∨ ∃ l, ls[k]? = some l ∧ l.wrapped = false)
  | [], c, r, c2, r2, h => by
    unfold Buffer.relLoop2 at h
    split at h
    · simp at h
    · simp only [Option.some.injEq, Prod.mk.injEq] at h
      obtain ⟨rfl, rfl⟩ := h
      exact ⟨0, by simp, by simp, by simp, by simp, Or.inl (by omega)⟩
  | l :: t, c, r, c2, r2, h => by
    unfold Buffer.relLoop2 at h
    by_cases hc : (decide (c ≥ cols) && l.wrapped) = true
    · simp only [hc, if_true] at h
      obtain ⟨k, h1, h2, h3, h4, h5⟩ := relLoop2_spec cols t (c - cols) (r + 1) c2 r2 h
      simp only [Bool.and_eq_true, decide_eq_true_eq] at hc
      refine ⟨k + 1, by omega, ?_, by simp; omega, ?_, ?_⟩
      · rw [Nat.add_mul]; omega
      · intro x hx
        rw [List.take_succ_cons] at hx
        rcases List.mem_cons.1 hx with rfl | hx
        · exact hc.2
        · exact h4 x hx
      · simpa using h5
    · simp only [hc, Bool.false_eq_true, if_false, Option.some.injEq, Prod.mk.injEq] at h
      obtain ⟨rfl, rfl⟩ := h
      refine ⟨0, by simp, by simp, by simp, by simp, ?_⟩
      simp only [Bool.and_eq_true, decide_eq_true_eq, not_and, Bool.not_eq_true] at hc
      by_cases hcc : c ≥ cols
      · exact Or.inr ⟨l, by simp, hc hcc⟩
      · exact Or.inl (by omega)

/-! ### the position `relative_position` returns, read off the row structure -/

theorem takeWhile_reverse_of_lastUnwrapped {X : List Line} (h : lastUnwrapped X = true) :
    X.reverse.takeWhile (fun l => l.wrapped) = [] := by
  by_cases hx : X = []
  · subst hx; rfl
  · obtain ⟨ini, l, rfl⟩ := exists_snoc hx
    rw [lastUnwrapped_snoc] at h
    have hl : l.wrapped = false := by simpa using h
    simp [List.takeWhile_cons, hl]

theorem runLen_append_run {X W : List Line} (hX : lastUnwrapped X = true)
    (hW : ∀ l ∈ W, l.wrapped = true) : runLen (X ++ W) = (W.map Line.len).sum := by
  unfold runLen
  have hall : W.reverse.all (fun l => l.wrapped) = true := by
    rw [List.all_eq_true]; intro l hl; exact hW l (List.mem_reverse.1 hl)
  rw [List.reverse_append, List.takeWhile_append,
    if_pos (by rw [takeWhile_eq_self_of_all _ _ hall]),
    takeWhile_reverse_of_lastUnwrapped hX, List.append_nil, sum_map_reverse]

theorem sum_len_const {W : List Line} {c : Nat} (h : ∀ l ∈ W, l.len = c) :
    (W.map Line.len).sum = W.length * c := by
  induction W with
  | nil => simp
  | cons l t ih =>
    simp only [List.map_cons, List.sum_cons, List.length_cons, Nat.add_mul, Nat.one_mul]
    rw [ih (fun x hx => h x (by simp [hx])), h l (by simp)]; omega

/-- `relative_position` on rows of equal width `c`: the row `R` it lands on is `k` rows into the
    logical line number `i` (counting completed lines above `R`), the column is the rest of the offset
    clamped into the row, and the walk stopped either because the rest fits or because row `R` ends
    the logical line -/
theorem relativePosition_spec {ls : List Line} {o i c rows rc : Nat} {rr : Int}
    (hw : ∀ l ∈ ls, l.len = c)
    (hi : i ≤ (ls.take (ls.length - 1)).countP (fun l => !l.wrapped))
    (h : Buffer.relativePosition ls (o, i) c rows = some (rc, rr)) :
    ∃ (R k : Nat), rr = (R : Int) - ((ls.length - rows : Nat) : Int) ∧ rows ≤ ls.length
      ∧ (ls.take R).countP (fun l => !l.wrapped) = i
      ∧ runLen (ls.take R) = k * c
      ∧ k * c ≤ o ∧ rc = min (o - k * c) (c - 1)
      ∧ (o - k * c < c ∨ ∃ l, ls[R]? = some l ∧ l.wrapped = false) := by
  unfold Buffer.relativePosition at h
  cases h1 : csub ls.length 1 with
  | none => simp [h1] at h
  | some lastRow =>
    cases h2 : csub c 1 with
    | none => simp [h1, h2] at h
    | some c1 =>
      cases h3 : csub ls.length rows with
      | none => simp [h1, h2, h3] at h
      | some off =>
        simp only [h1, h2, h3] at h
        have hlr : lastRow = ls.length - 1 := by
          unfold csub at h1; split at h1 <;> simp at h1; omega
        have hc1 : c1 = c - 1 := by
          unfold csub at h2; split at h2 <;> simp at h2; omega
        have hoff : off = ls.length - rows ∧ rows ≤ ls.length := by
          unfold csub at h3; split at h3 <;> simp at h3; omega
        subst hlr
        obtain ⟨m, hm1, hm2, hm3, hm4⟩ :=
          relLoop1_spec i (ls.take (ls.length - 1)) 0 0 (Nat.zero_le _) (by simpa using hi)
        simp only [Nat.zero_add, Nat.sub_zero] at hm1 hm3
        rw [hm1] at h
        have hmle : m ≤ ls.length - 1 := by simpa [List.length_take] using hm2
        have htt : (ls.take (ls.length - 1)).take m = ls.take m := by
          rw [List.take_take, Nat.min_eq_left hmle]
        rw [htt] at hm3 hm4
        cases h4 : Buffer.relLoop2 c (ls.drop m) o m with
        | none => simp [h4] at h
        | some res =>
          obtain ⟨relCol, relRow⟩ := res
          simp only [h4, Option.some.injEq, Prod.mk.injEq] at h
          obtain ⟨hrc, hrr⟩ := h
          obtain ⟨k, hk1, hk2, hk3, hk4, hk5⟩ := relLoop2_spec c (ls.drop m) o m relCol relRow h4
          have hsplit : ls.take (m + k) = ls.take m ++ (ls.drop m).take k := by
            rw [List.take_add]
          have hWlen : ((ls.drop m).take k).length = k := by
            rw [List.length_take]; omega
          have hWw : ∀ l ∈ (ls.drop m).take k, l.len = c :=
            fun l hl => hw l (List.mem_of_mem_drop (List.mem_of_mem_take hl))
          refine ⟨m + k, k, ?_, hoff.2, ?_, ?_, by omega, ?_, ?_⟩
          · rw [← hrr, hk1, hoff.1]
          · rw [hsplit, List.countP_append, hm3, countP_run_zero hk4, Nat.add_zero]
          · rw [hsplit, runLen_append_run hm4 hk4, sum_len_const hWw, hWlen]
          · rw [← hrc, hc1]; congr 1; omega
          · rcases hk5 with h5 | ⟨l, h5, h6⟩
            · left; omega
            · right
              refine ⟨l, ?_, h6⟩
              rw [List.getElem?_drop] at h5; exact h5

end Avt.Lemmas
