/-
  Avt.Lemmas.C11Buffer2 — `Buffer.dump`, second half: what the idealised typist does to a blank
  screen, row by row.

  `InRow V cols rows i l k t`: rows `< i` of the view are those of the target `V` (cells AND wrap
  marks), row `i` holds the first `k` cells of `l = V[i]` followed by default blanks and is not marked,
  the rows below are blank; the cursor is at `(k, i)` (wrap pending iff `k = cols`, by `TInv`).
  `E` erases what the replay of the buffer part changes (view, cursor position, pending wrap, pen,
  dirty flags): everything else is untouched, `E t' = E t`.
-/
import Avt.Lemmas.C11Buffer1

namespace Avt
namespace Lemmas.C11
open Avt.Spec.C11 Avt.Spec.C04 Avt.C04L

/-! ### the frame of the buffer replay -/

/-- erase what typing changes -/
def E (t : Terminal) : Terminal :=
  { t with buffer := { t.buffer with view := [] }, cursor := { t.cursor with col := 0, row := 0 },
           pendingWrap := false, pen := {}, dirtyLines := [] }

theorem E_withPen (t : Terminal) (p : Pen) : E { t with pen := p } = E t := rfl

theorem E_putStep (u : Terminal) (g : Nat) : E (putStep u g) = E u := by
  unfold putStep
  simp only []
  split
  · split <;> rfl
  · rfl

theorem E_wrapStep (t : Terminal) (h : t.cursor.row ≠ t.bottomMargin) : E (wrapStep t) = E t := by
  unfold wrapStep
  simp only [if_neg h]
  split <;> rfl

theorem eq_of_E {a b : Terminal} (h : E a = E b) :
    a = { b with buffer := { b.buffer with view := a.buffer.view },
                 cursor := { b.cursor with col := a.cursor.col, row := a.cursor.row },
                 pendingWrap := a.pendingWrap, pen := a.pen, dirtyLines := a.dirtyLines } := by
  obtain ⟨c, r, ⟨sb, vw, bc, br, lim, tn⟩, ob, abt, sl, ⟨cc, cr, cv⟩, pen, cs, acs, tabs, im, om, aw, nl, ck, pw, tm, bm,
    sc, asc, dl, xt⟩ := a
  obtain ⟨c', r', ⟨sb', vw', bc', br', lim', tn'⟩, ob', abt', sl', ⟨cc', cr', cv'⟩, pen', cs', acs', tabs', im', om', aw',
    nl', ck', pw', tm', bm', sc', asc', dl', xt'⟩ := b
  simp only [E, Terminal.mk.injEq, Buffer.mk.injEq, Cursor.mk.injEq] at h
  obtain ⟨rfl, rfl, ⟨rfl, -, rfl, rfl, rfl, rfl⟩, rfl, rfl, rfl, ⟨-, -, rfl⟩, -, rfl, rfl, rfl, rfl, rfl, rfl, rfl, rfl, -,
    rfl, rfl, rfl, rfl, -, rfl⟩ := h
  rfl

/-! ### partial rows -/

def dblank : Cell := Cell.blank Pen.default

/-- the first `k` cells of `l`, default blanks behind, not marked -/
def partialRow (l : Line) (cols k : Nat) : Line := ⟨l.cells.take k ++ List.replicate (cols - k) dblank, false⟩

theorem partialRow_zero (l : Line) (cols : Nat) : partialRow l cols 0 = Line.blank cols Pen.default := by
  simp [partialRow, Line.blank, dblank]

theorem partialRow_full (l : Line) (cols : Nat) (h : l.cells.length = cols) :
    partialRow l cols cols = ⟨l.cells, false⟩ := by
  simp [partialRow, ← h]

theorem putCell_partialRow (l : Line) (cols k : Nat) (c : Cell) (hl : l.cells.length = cols) (hk : k < cols)
    (hc : l.cells[k]? = some c) : putCell k c (partialRow l cols k) = partialRow l cols (k + 1) := by
  simp only [putCell, partialRow, Line.mk.injEq, and_true]
  apply List.ext_getElem?
  intro j
  have hk' : k < l.cells.length := by omega
  simp only [List.getElem?_set, List.length_append, List.length_take, List.length_replicate,
    List.getElem?_append, List.getElem?_take, List.getElem?_replicate]
  by_cases hj : j = k
  · subst hj
    have : min j l.cells.length = j := by omega
    simp only [this, Nat.lt_irrefl, if_false, if_true, show j < j + (cols - j) by omega,
      show j < min (j + 1) l.cells.length by omega, show j < j + 1 by omega, hc]
  · have h1 : min k l.cells.length = k := by omega
    have h2 : min (k + 1) l.cells.length = k + 1 := by omega
    simp only [h1, h2, Ne.symm hj, if_false]
    by_cases hlt : j < k
    · simp [hlt, show j < k + 1 by omega]
    · have hgt : k < j := by omega
      simp only [hlt, if_false, show ¬ j < k + 1 by omega]
      by_cases hjc : j < cols
      · simp [show j - k < cols - k by omega, show j - (k + 1) < cols - (k + 1) by omega]
      · simp [show ¬ j - k < cols - k by omega, show ¬ j - (k + 1) < cols - (k + 1) by omega]

/-! ### the state while row `i` is being typed -/

structure InRow (V : List Line) (cols rows i : Nat) (l : Line) (k : Nat) (t : Terminal) : Prop where
  view : t.buffer.view
    = V.take i ++ partialRow l cols k :: List.replicate (rows - i - 1) (Line.blank cols Pen.default)
  col : t.cursor.col = k
  row : t.cursor.row = i

/-- geometry of the target and of the replaying terminal -/
structure Geo (V : List Line) (cols rows : Nat) (t : Terminal) : Prop where
  vlen : V.length = rows
  clen : ∀ l ∈ V, l.cells.length = cols
  tcols : t.cols = cols
  trows : t.rows = rows
  inv : TInv t = true
  mode : DMode t

theorem onRow_mid (pre : List Line) (x : Line) (post : List Line) (f : Line → Line) :
    onRow (pre ++ x :: post) pre.length f = pre ++ f x :: post := by
  have h : (pre ++ x :: post)[pre.length]? = some x := by simp
  rw [onRow_of_get _ _ _ _ h]
  simp

theorem take_len {V : List Line} {rows i : Nat} (hV : V.length = rows) (hi : i < rows) : (V.take i).length = i := by
  simp; omega

/-- `putStep` types cell `k` of row `i` -/
theorem putStep_inRow {V : List Line} {cols rows i k : Nat} {l : Line} {u : Terminal} {c : Cell}
    (g : Geo V cols rows u) (hi : i < rows) (hl : l.cells.length = cols) (hk : k < cols)
    (hc : l.cells[k]? = some c) (hpen : u.pen = c.pen) (h : InRow V cols rows i l k u) :
    InRow V cols rows i l (k + 1) (putStep u c.ch) := by
  have hcell : (⟨c.ch, u.pen⟩ : Cell) = c := by rw [hpen]
  have hlen := take_len g.vlen hi
  unfold putStep
  simp only [hcell, h.col, h.row, g.tcols, g.mode.autoWrap, g.mode.replace, if_true, Bool.false_eq_true, if_false]
  have hv : onRow u.buffer.view i (putCell k c)
      = V.take i ++ partialRow l cols (k + 1) :: List.replicate (rows - i - 1) (Line.blank cols Pen.default) := by
    rw [h.view]
    have := onRow_mid (V.take i) (partialRow l cols k) (List.replicate (rows - i - 1) (Line.blank cols Pen.default))
      (putCell k c)
    rw [hlen] at this
    rw [this, putCell_partialRow l cols k c hl hk hc]
  split
  · have e : cols - 1 = k := by omega
    rw [e]
    exact ⟨by simpa [bufOnRow] using hv, by show cols = k + 1; omega, rfl⟩
  · exact ⟨by simpa [bufOnRow] using hv, rfl, rfl⟩

/-- the deferred wrap at the end of a soft-wrapped row: the mark is set, the cursor is at the start
    of the next row -/
theorem wrapStep_inRow {V : List Line} {cols rows j : Nat} {lj l : Line} {t : Terminal}
    (g : Geo V cols rows t) (hj : j + 1 < rows) (hlj : V[j]? = some lj) (hw : lj.wrapped = true)
    (h : InRow V cols rows j lj cols t) :
    InRow V cols rows (j + 1) l 0 (wrapStep t) ∧ E (wrapStep t) = E t := by
  have hne : t.cursor.row ≠ t.bottomMargin := by
    have := g.mode.bottom; rw [g.trows] at this; rw [h.row]; omega
  refine ⟨?_, E_wrapStep t hne⟩
  have hlen := take_len g.vlen (show j < rows by omega)
  have hcl : lj.cells.length = cols := g.clen lj (List.mem_of_getElem? hlj)
  unfold wrapStep
  rw [if_neg hne, if_pos (by rw [h.row, g.trows]; exact hj)]
  refine ⟨?_, rfl, by show t.cursor.row + 1 = j + 1; rw [h.row]⟩
  show onRow t.buffer.view t.cursor.row markWrapped = _
  rw [h.row, h.view]
  have := onRow_mid (V.take j) (partialRow lj cols cols)
    (List.replicate (rows - j - 1) (Line.blank cols Pen.default)) markWrapped
  rw [hlen] at this
  rw [this, partialRow_full lj cols hcl, partialRow_zero]
  have e1 : markWrapped ⟨lj.cells, false⟩ = lj := by
    cases lj; simp only [markWrapped] at hw ⊢; simp_all
  have e2 : V.take (j + 1) = V.take j ++ [lj] := by
    rw [List.take_add_one, hlj]; rfl
  have e3 : rows - j - 1 = (rows - (j + 1) - 1) + 1 := by omega
  rw [e1, e2, e3, List.replicate_succ]
  simp

/-! ### one cell -/

theorem DMode.wrapStep {t : Terminal} (h : DMode t) : DMode (wrapStep t) := by
  simp only [Spec.C04.wrapStep]
  repeat' split
  all_goals exact ⟨h.top, h.bottom, h.autoWrap, h.replace, h.charset⟩

theorem wrapStep_rows (t : Terminal) : (wrapStep t).rows = t.rows := by
  simp only [wrapStep]
  repeat' split
  all_goals rfl

theorem Geo.withPen {V : List Line} {cols rows : Nat} {t : Terminal} (g : Geo V cols rows t) (p : Pen) :
    Geo V cols rows { t with pen := p } :=
  ⟨g.vlen, g.clen, g.tcols, g.trows, TInv_withPen g.inv p, g.mode.withPen p⟩

theorem Geo.typeCell {V : List Line} {cols rows : Nat} {t : Terminal} (g : Geo V cols rows t) (c : Cell) :
    Geo V cols rows (typeCell t c) := by
  have m := Props.C04.C04_print_modes { t with pen := c.pen } c.ch
  exact ⟨g.vlen, g.clen, m.1.trans g.tcols, m.2.1.trans g.trows,
    typeCell_TInv g.inv c, typeCell_DMode g.mode c⟩

theorem InRow.withPen {V : List Line} {cols rows i k : Nat} {l : Line} {t : Terminal}
    (h : InRow V cols rows i l k t) (p : Pen) : InRow V cols rows i l k { t with pen := p } :=
  ⟨h.view, h.col, h.row⟩

/-- a cell that is not the first of a soft-wrapped continuation -/
theorem typeCell_step {V : List Line} {cols rows i k : Nat} {l : Line} {t : Terminal} {c : Cell}
    (g : Geo V cols rows t) (hi : i < rows) (hl : V[i]? = some l) (hk : k < cols) (hc : l.cells[k]? = some c)
    (h : InRow V cols rows i l k t) :
    InRow V cols rows i l (k + 1) (typeCell t c) ∧ E (typeCell t c) = E t := by
  have p := Pre_of_TInv t g.inv
  have hpw : t.pendingWrap = false := by
    rcases p.col with ⟨_, h2⟩ | ⟨h1, _⟩
    · rw [h.col, g.tcols] at h2; omega
    · exact h1
  have hnw : (({ t with pen := c.pen } : Terminal).autoWrapMode && ({ t with pen := c.pen } : Terminal).pendingWrap) = false := by
    show (t.autoWrapMode && t.pendingWrap) = false
    rw [hpw]; simp
  have hcl : l.cells.length = cols := g.clen l (List.mem_of_getElem? hl)
  unfold Lemmas.C11.typeCell
  rw [printSpec_nowrap _ _ hnw, (g.withPen c.pen).mode.glyph]
  exact ⟨putStep_inRow (g.withPen c.pen) hi hcl hk hc rfl (h.withPen c.pen), by rw [E_putStep]; rfl⟩

/-- the first cell of the continuation of a soft-wrapped row: the deferred wrap sets the mark -/
theorem typeCell_wrap {V : List Line} {cols rows j : Nat} {lj l : Line} {t : Terminal} {c : Cell}
    (g : Geo V cols rows t) (hj : j + 1 < rows) (hlj : V[j]? = some lj) (hw : lj.wrapped = true)
    (hl : V[j + 1]? = some l) (hc : l.cells[0]? = some c) (h : InRow V cols rows j lj cols t) :
    InRow V cols rows (j + 1) l 1 (typeCell t c) ∧ E (typeCell t c) = E t := by
  have p := Pre_of_TInv t g.inv
  have hpw : t.pendingWrap = true := by
    rcases p.col with ⟨h1, _⟩ | ⟨_, h2⟩
    · exact h1
    · rw [h.col, g.tcols] at h2; omega
  let u : Terminal := { t with pen := c.pen }
  have gu : Geo V cols rows u := g.withPen c.pen
  have hyw : (u.autoWrapMode && u.pendingWrap) = true := by
    show (t.autoWrapMode && t.pendingWrap) = true
    rw [hpw, g.mode.autoWrap]; rfl
  have hcl : l.cells.length = cols := g.clen l (List.mem_of_getElem? hl)
  have hcols : 0 < cols := by have := p.cols_pos; rw [g.tcols] at this; omega
  obtain ⟨w1, w2⟩ := wrapStep_inRow (l := l) gu hj hlj hw (h.withPen c.pen)
  have gw : Geo V cols rows (wrapStep u) :=
    ⟨g.vlen, g.clen, by rw [(wrapStep_col u).2]; exact gu.tcols, by rw [wrapStep_rows]; exact gu.trows,
      wrapStep_TInv u gu.inv, gu.mode.wrapStep⟩
  show InRow V cols rows (j + 1) l 1 (printSpec u c.ch) ∧ E (printSpec u c.ch) = E t
  rw [printSpec_wrap _ _ hyw, gu.mode.glyph]
  exact ⟨putStep_inRow gw hj hcl hcols hc (by rw [wrapStep_pen]) w1, by rw [E_putStep, w2]; rfl⟩

/-! ### one row -/

theorem typeCells_rest {V : List Line} {cols rows i : Nat} {l : Line} (hi : i < rows) (hl : V[i]? = some l) :
    ∀ (n k : Nat) (t : Terminal), k + n = cols → Geo V cols rows t → InRow V cols rows i l k t →
      InRow V cols rows i l cols (typeCells (l.cells.drop k) t) ∧ E (typeCells (l.cells.drop k) t) = E t
        ∧ Geo V cols rows (typeCells (l.cells.drop k) t)
  | 0, k, t, hk, g, h => by
    have hcl : l.cells.length = cols := g.clen l (List.mem_of_getElem? hl)
    have : l.cells.drop k = [] := by simp; omega
    rw [this]
    have e : k = cols := by omega
    subst e
    exact ⟨h, rfl, g⟩
  | n + 1, k, t, hk, g, h => by
    have hcl : l.cells.length = cols := g.clen l (List.mem_of_getElem? hl)
    have hlt : k < l.cells.length := by omega
    have hd : l.cells.drop k = l.cells[k] :: l.cells.drop (k + 1) := by
      rw [List.drop_eq_getElem_cons hlt]
    rw [hd]
    obtain ⟨s1, s2⟩ := typeCell_step g hi hl (by omega) (List.getElem?_eq_getElem hlt) h
    obtain ⟨r1, r2, r3⟩ := typeCells_rest hi hl n (k + 1) (typeCell t l.cells[k]) (by omega) (g.typeCell _) s1
    exact ⟨r1, by rw [show typeCells (l.cells[k] :: l.cells.drop (k + 1)) t
      = typeCells (l.cells.drop (k + 1)) (typeCell t l.cells[k]) from rfl, r2, s2], r3⟩

/-- the state in which the text of row `i` arrives: at the start of the (blank) row, or still parked
    wrap-pending at the end of the soft-wrapped row above -/
def Ready (V : List Line) (cols rows i : Nat) (l : Line) (t : Terminal) : Prop :=
  InRow V cols rows i l 0 t
    ∨ ∃ j lj, i = j + 1 ∧ V[j]? = some lj ∧ lj.wrapped = true ∧ InRow V cols rows j lj cols t

theorem typeCells_row {V : List Line} {cols rows i : Nat} {l : Line} {t : Terminal} (hi : i < rows)
    (hl : V[i]? = some l) (g : Geo V cols rows t) (h : Ready V cols rows i l t) :
    InRow V cols rows i l cols (typeCells l.cells t) ∧ E (typeCells l.cells t) = E t
      ∧ Geo V cols rows (typeCells l.cells t) := by
  have hcl : l.cells.length = cols := g.clen l (List.mem_of_getElem? hl)
  have hcols : 0 < cols := by
    have := (Pre_of_TInv t g.inv).cols_pos; rw [g.tcols] at this; omega
  rcases h with h | ⟨j, lj, rfl, hlj, hw, h⟩
  · have := typeCells_rest hi hl cols 0 t (by omega) g h
    simpa using this
  · have hlt : 0 < l.cells.length := by omega
    have hd : l.cells = l.cells[0] :: l.cells.drop 1 := by
      conv => lhs; rw [← List.drop_zero (l := l.cells), List.drop_eq_getElem_cons hlt]
    obtain ⟨s1, s2⟩ := typeCell_wrap g hi hlj hw hl (List.getElem?_eq_getElem hlt) h
    obtain ⟨r1, r2, r3⟩ := typeCells_rest hi hl (cols - 1) 1 (typeCell t l.cells[0]) (by omega) (g.typeCell _) s1
    rw [hd]
    exact ⟨r1, by rw [show typeCells (l.cells[0] :: l.cells.drop 1) t
      = typeCells (l.cells.drop 1) (typeCell t l.cells[0]) from rfl, r2, s2], r3⟩

end Lemmas.C11
end Avt
