/-
  Avt.Lemmas.C07Props — consequences of `editSpec` in the property's words: cells outside the extent,
  cells inside, the shifted tail, wrap marks.
-/
import Avt.Lemmas.C07Edit

namespace Avt.C07L
open Avt.PrimL
open Avt.Spec.C07

syntax "pw_simp7" : tactic
macro_rules
  | `(tactic| pw_simp7) => `(tactic|
      simp only [List.getElem?_take, List.getElem?_append, List.getElem?_drop, List.length_take,
         List.length_drop, List.length_append, List.length_replicate, List.getElem?_replicate,
         List.getElem?_map, List.length_map, List.getElem?_set, List.length_set,
         List.length_cons, List.length_nil, List.getElem?_cons, List.getElem?_nil])

/-! ### one row -/

theorem eraseRight_cells (cols col : Nat) (pen : Pen) (l : Line) (hl : l.cells.length = cols) (c : Nat) :
    (eraseRight cols col pen l).cells[c]? =
      if c < col then l.cells[c]? else if c < cols then some (Cell.blank pen) else none := by
  unfold eraseRight blanks; pw_simp7; grind

theorem eraseLeft_cells (cols col : Nat) (pen : Pen) (l : Line) (hl : l.cells.length = cols) (c : Nat) :
    (eraseLeft cols col pen l).cells[c]? =
      if c ≤ col ∧ c < cols then some (Cell.blank pen) else l.cells[c]? := by
  unfold eraseLeft blanks; pw_simp7; grind

theorem eraseRow_cells (cols : Nat) (pen : Pen) (l : Line) (c : Nat) :
    (eraseRow cols pen l).cells[c]? = if c < cols then some (Cell.blank pen) else none := by
  unfold eraseRow blanks; pw_simp7

theorem eraseChars_cells (cols col n : Nat) (pen : Pen) (l : Line) (hl : l.cells.length = cols)
    (hc : col ≤ cols) (c : Nat) :
    (eraseChars cols col n pen l).cells[c]? =
      if col ≤ c ∧ c < col + n ∧ c < cols then some (Cell.blank pen) else l.cells[c]? := by
  unfold eraseChars blanks; pw_simp7; grind

theorem insertChars_cells (cols col n : Nat) (pen : Pen) (l : Line) (hl : l.cells.length = cols)
    (hc : col ≤ cols) (c : Nat) :
    (insertChars cols col n pen l).cells[c]? =
      if c < col then l.cells[c]?
      else if c < col + min n (cols - col) then some (Cell.blank pen)
      else if c < cols then l.cells[c - min n (cols - col)]? else none := by
  unfold insertChars blanks
  have hk : min n (cols - col) ≤ cols - col := Nat.min_le_right _ _
  generalize min n (cols - col) = k at hk ⊢
  pw_simp7; grind

theorem deleteChars_cells (cols col n : Nat) (pen : Pen) (l : Line) (hl : l.cells.length = cols)
    (hc : col ≤ cols) (c : Nat) :
    (deleteChars cols col n pen l).cells[c]? =
      if c < col then l.cells[c]?
      else if c + min n (cols - col) < cols then l.cells[c + min n (cols - col)]?
      else if c < cols then some (Cell.blank pen) else none := by
  unfold deleteChars blanks
  have hk : min n (cols - col) ≤ cols - col := Nat.min_le_right _ _
  generalize min n (cols - col) = k at hk ⊢
  pw_simp7; grind

theorem alignRow_cells (cols : Nat) (l : Line) (c : Nat) :
    (alignRow cols l).cells[c]? = if c < cols then some ⟨0x45, Pen.default⟩ else none := by
  unfold alignRow; pw_simp7

/-! ### the view -/

theorem getElem?_onRowOf (v : List Line) (row : Nat) (g : Line → Line) (r : Nat) :
    (onRowOf v row g)[r]? = if r = row then (v[r]?).map g else v[r]? := by
  unfold onRowOf; pw_simp7; grind

theorem cellAt_onRow (t : Terminal) (g : Line → Line) (r c : Nat) :
    cellAt (onRow t g) r c =
      if r = t.cursor.row then (t.buffer.view[r]?).bind (fun l => (g l).cells[c]?) else cellAt t r c := by
  unfold cellAt onRow withView
  simp only [getElem?_onRowOf]
  split
  · cases t.buffer.view[r]? <;> rfl
  · rfl

theorem markAt_onRow (t : Terminal) (g : Line → Line) (r : Nat) :
    markAt (onRow t g) r =
      if r = t.cursor.row then (t.buffer.view[r]?).map (fun l => (g l).wrapped) else markAt t r := by
  unfold markAt onRow withView
  simp only [getElem?_onRowOf]
  split
  · cases t.buffer.view[r]? <;> rfl
  · rfl

/-- the cursor's row exists and has full width -/
theorem cursor_row (t : Terminal) (h : TInv t = true) :
    ∃ l, t.buffer.view[t.cursor.row]? = some l ∧ l.cells.length = t.cols := by
  have F := editFacts h
  have hr : t.cursor.row < t.buffer.view.length := by rw [F.vlen]; exact F.row
  exact ⟨t.buffer.view[t.cursor.row], List.getElem?_eq_getElem hr, getElem_width F hr⟩

/-- what a row edit does to the cells of the screen -/
theorem cellAt_onRow' (t : Terminal) (h : TInv t = true) (g : Line → Line) (r c : Nat) :
    ∃ l, t.buffer.view[t.cursor.row]? = some l ∧ l.cells.length = t.cols ∧
      cellAt t t.cursor.row c = l.cells[c]? ∧
      cellAt (onRow t g) r c = if r = t.cursor.row then (g l).cells[c]? else cellAt t r c := by
  obtain ⟨l, hl, hw⟩ := cursor_row t h
  refine ⟨l, hl, hw, ?_, ?_⟩
  · unfold cellAt; rw [hl]; rfl
  · rw [cellAt_onRow]
    split
    · subst_vars; rw [hl]; rfl
    · rfl

theorem view_edBelow (t : Terminal) (h : TInv t = true) (r : Nat) :
    (editSpec t (.ed .below)).buffer.view[r]? =
      if r < t.cursor.row then t.buffer.view[r]?
      else if r = t.cursor.row then (t.buffer.view[r]?).map (eraseRight t.cols t.cursor.col t.pen)
      else if r < t.rows then some (Line.blank t.cols t.pen) else none := by
  have F := editFacts h
  have hv := F.vlen
  have hr := F.row
  simp only [editSpec, withView, blankRows]
  pw_simp7
  grind

theorem view_edAbove (t : Terminal) (h : TInv t = true) (r : Nat) :
    (editSpec t (.ed .above)).buffer.view[r]? =
      if r < t.cursor.row then some (Line.blank t.cols t.pen)
      else if r = t.cursor.row then (t.buffer.view[r]?).map (eraseLeft t.cols t.cursor.col t.pen)
      else t.buffer.view[r]? := by
  have F := editFacts h
  have hv := F.vlen
  have hr := F.row
  simp only [editSpec, withView, blankRows]
  pw_simp7
  grind

theorem view_edAll (t : Terminal) (r : Nat) :
    (editSpec t (.ed .all)).buffer.view[r]? =
      if r < t.rows then some (Line.blank t.cols t.pen) else none := by
  simp only [editSpec, withView, blankRows]
  pw_simp7

theorem view_decaln (t : Terminal) (r : Nat) :
    (editSpec t .decaln).buffer.view[r]? = (t.buffer.view[r]?).map (alignRow t.cols) := by
  simp only [editSpec, withView]
  pw_simp7

theorem blank_cells (cols : Nat) (pen : Pen) (c : Nat) :
    (Line.blank cols pen).cells[c]? = if c < cols then some (Cell.blank pen) else none := by
  unfold Line.blank; pw_simp7

/-- every row of the view has full width -/
theorem row_width (t : Terminal) (h : TInv t = true) (r : Nat) (l : Line)
    (hl : t.buffer.view[r]? = some l) : l.cells.length = t.cols ∧ r < t.rows := by
  have F := editFacts h
  have hr : r < t.buffer.view.length := by
    rcases Nat.lt_or_ge r t.buffer.view.length with h | h
    · exact h
    · rw [List.getElem?_eq_none h] at hl; cases hl
  refine ⟨F.width l ?_, by rw [← F.vlen]; exact hr⟩
  rw [List.getElem?_eq_getElem hr] at hl
  cases hl
  exact List.getElem_mem hr

theorem leavePending_facts (t : Terminal) :
    (leavePending t).buffer = t.buffer ∧ (leavePending t).cursor.row = t.cursor.row
    ∧ (leavePending t).cursor.col = min t.cursor.col (t.cols - 1)
    ∧ (leavePending t).pen = t.pen ∧ (leavePending t).cols = t.cols := by
  unfold leavePending
  split
  · refine ⟨rfl, rfl, ?_, rfl, rfl⟩
    simp only; omega
  · refine ⟨rfl, rfl, ?_, rfl, rfl⟩
    omega

theorem cellAt_dch (t : Terminal) (h : TInv t = true) (n r c : Nat) :
    ∃ l, t.buffer.view[t.cursor.row]? = some l ∧ l.cells.length = t.cols ∧
      cellAt t t.cursor.row c = l.cells[c]? ∧
      cellAt (editSpec t (.dch n)) r c =
        if r = t.cursor.row
        then (deleteChars t.cols (min t.cursor.col (t.cols - 1)) (asUsize n 1) t.pen l).cells[c]?
        else cellAt t r c := by
  obtain ⟨l, hl, hw⟩ := cursor_row t h
  obtain ⟨e1, e2, e3, e4, e5⟩ := leavePending_facts t
  refine ⟨l, hl, hw, ?_, ?_⟩
  · unfold cellAt; rw [hl]; rfl
  · simp only [editSpec]
    rw [cellAt_onRow, e1, e2, e3]
    split
    · subst_vars; rw [hl]; rfl
    · unfold cellAt; rw [e1]

/-- cells outside the extent keep their content -/
theorem outside_extent (t : Terminal) (f : Function) (h : TInv t = true) (hf : coveredEdit f = true)
    (r c : Nat) (hx : extent t f r c = false) : cellAt (editSpec t f) r c = cellAt t r c := by
  have F := editFacts h
  have hcol := F.col
  cases f <;> simp only [coveredEdit, Bool.false_eq_true] at hf
  case el s =>
    cases s <;> simp only [editSpec] <;> simp [extent] at hx
    · obtain ⟨l, hl, hw, hc0, hc⟩ := cellAt_onRow' t h (eraseRight t.cols t.cursor.col t.pen) r c
      rw [hc]; split
      · subst_vars; rw [hc0, eraseRight_cells _ _ _ _ hw]; grind
      · rfl
    · obtain ⟨l, hl, hw, hc0, hc⟩ := cellAt_onRow' t h (eraseLeft t.cols t.cursor.col t.pen) r c
      rw [hc]; split
      · subst_vars; rw [hc0, eraseLeft_cells _ _ _ _ hw]; grind
      · rfl
    · obtain ⟨l, hl, hw, hc0, hc⟩ := cellAt_onRow' t h (eraseRow t.cols t.pen) r c
      rw [hc, if_neg hx]
  case ech n =>
    simp only [editSpec]; simp [extent] at hx
    obtain ⟨l, hl, hw, hc0, hc⟩ := cellAt_onRow' t h (eraseChars t.cols t.cursor.col (asUsize n 1) t.pen) r c
    rw [hc]; split
    · subst_vars; rw [hc0, eraseChars_cells _ _ _ _ _ hw hcol]; grind
    · rfl
  case ich n =>
    simp only [editSpec]; simp [extent] at hx
    obtain ⟨l, hl, hw, hc0, hc⟩ := cellAt_onRow' t h (insertChars t.cols t.cursor.col (asUsize n 1) t.pen) r c
    rw [hc]; split
    · subst_vars; rw [hc0, insertChars_cells _ _ _ _ _ hw hcol]; grind
    · rfl
  case dch n =>
    simp [extent] at hx
    obtain ⟨l, hl, hw, hc0, hc⟩ := cellAt_dch t h n r c
    rw [hc]; split
    · subst_vars; rw [hc0, deleteChars_cells _ _ _ _ _ hw (by omega)]; grind
    · rfl
  case decaln => simp [extent] at hx
  case ed s =>
    cases s <;> simp [extent] at hx
    · unfold cellAt
      rw [view_edBelow t h]
      obtain ⟨l, hl, hw⟩ := cursor_row t h
      by_cases h1 : r < t.cursor.row
      · simp only [h1, if_true]
      · have h2 : r = t.cursor.row := by omega
        subst h2
        simp only [Nat.lt_irrefl, if_false, if_true, hl, Option.map_some, Option.bind_some]
        rw [eraseRight_cells _ _ _ _ hw]; grind
    · unfold cellAt
      rw [view_edAbove t h]
      obtain ⟨l, hl, hw⟩ := cursor_row t h
      by_cases h1 : r = t.cursor.row
      · subst h1
        simp only [Nat.lt_irrefl, if_false, if_true, hl, Option.map_some, Option.bind_some]
        rw [eraseLeft_cells _ _ _ _ hw]; grind
      · have h2 : ¬ r < t.cursor.row := by omega
        simp only [h1, h2, if_false]
    · rfl

/-- erased cells are blanks carrying the current pen -/
theorem inside_extent (t : Terminal) (f : Function) (h : TInv t = true) (hf : erases f = true)
    (r c : Nat) (hr : r < t.rows) (hc : c < t.cols) (hx : extent t f r c = true) :
    cellAt (editSpec t f) r c = some (Cell.blank t.pen) := by
  have F := editFacts h
  have hcol := F.col
  cases f <;> simp only [erases, Bool.false_eq_true] at hf
  case el s =>
    cases s <;> simp only [editSpec] <;> simp [extent] at hx
    · obtain ⟨l, hl, hw, hc0, hcc⟩ := cellAt_onRow' t h (eraseRight t.cols t.cursor.col t.pen) r c
      rw [hcc, if_pos hx.1, eraseRight_cells _ _ _ _ hw]; grind
    · obtain ⟨l, hl, hw, hc0, hcc⟩ := cellAt_onRow' t h (eraseLeft t.cols t.cursor.col t.pen) r c
      rw [hcc, if_pos hx.1, eraseLeft_cells _ _ _ _ hw]; grind
    · obtain ⟨l, hl, hw, hc0, hcc⟩ := cellAt_onRow' t h (eraseRow t.cols t.pen) r c
      rw [hcc, if_pos hx, eraseRow_cells]; grind
  case ech n =>
    simp only [editSpec]; simp [extent] at hx
    obtain ⟨l, hl, hw, hc0, hcc⟩ := cellAt_onRow' t h (eraseChars t.cols t.cursor.col (asUsize n 1) t.pen) r c
    rw [hcc, if_pos hx.1.1, eraseChars_cells _ _ _ _ _ hw hcol]; grind
  case ed s =>
    cases s <;> simp [extent] at hx
    · unfold cellAt
      rw [view_edBelow t h]
      obtain ⟨l, hl, hw⟩ := cursor_row t h
      by_cases h1 : r = t.cursor.row
      · subst h1
        simp only [Nat.lt_irrefl, if_false, if_true, hl, Option.map_some, Option.bind_some]
        rw [eraseRight_cells _ _ _ _ hw]; grind
      · have h2 : ¬ r < t.cursor.row := by omega
        simp only [h1, h2, hr, if_false, if_true, Option.bind_some, blank_cells, hc]
    · unfold cellAt
      rw [view_edAbove t h]
      obtain ⟨l, hl, hw⟩ := cursor_row t h
      by_cases h1 : r = t.cursor.row
      · subst h1
        simp only [Nat.lt_irrefl, if_false, if_true, hl, Option.map_some, Option.bind_some]
        rw [eraseLeft_cells _ _ _ _ hw]; grind
      · have h2 : r < t.cursor.row := by omega
        simp only [h2, if_true, Option.bind_some, blank_cells, hc]
    · unfold cellAt
      rw [view_edAll]
      simp only [hr, if_true, Option.bind_some, blank_cells, hc]

/-- DECALN: 'E' with the default pen everywhere -/
theorem decaln_cells (t : Terminal) (h : TInv t = true) (r c : Nat) (hr : r < t.rows) (hc : c < t.cols) :
    cellAt (editSpec t .decaln) r c = some ⟨0x45, Pen.default⟩ := by
  have F := editFacts h
  unfold cellAt
  rw [view_decaln]
  have hr' : r < t.buffer.view.length := by rw [F.vlen]; exact hr
  rw [List.getElem?_eq_getElem hr']
  simp only [Option.map_some, Option.bind_some, alignRow_cells, hc, if_true]

/-- ICH: the cursor's row after the insertion -/
theorem ich_row (t : Terminal) (h : TInv t = true) (n c : Nat) :
    cellAt (editSpec t (.ich n)) t.cursor.row c =
      if c < t.cursor.col then cellAt t t.cursor.row c
      else if c < t.cursor.col + min (asUsize n 1) (t.cols - t.cursor.col) then some (Cell.blank t.pen)
      else if c < t.cols then cellAt t t.cursor.row (c - min (asUsize n 1) (t.cols - t.cursor.col))
      else none := by
  have F := editFacts h
  simp only [editSpec]
  obtain ⟨l, hl, hw, _, hcc⟩ := cellAt_onRow' t h (insertChars t.cols t.cursor.col (asUsize n 1) t.pen) t.cursor.row c
  rw [hcc, if_pos rfl, insertChars_cells _ _ _ _ _ hw F.col]
  unfold cellAt
  simp only [hl, Option.bind_some]

/-- DCH: the cursor's row after the deletion (`col'` is the cursor column after leaving the
    wrap-pending position) -/
theorem dch_row (t : Terminal) (h : TInv t = true) (n c : Nat) :
    let col' := min t.cursor.col (t.cols - 1)
    let k := min (asUsize n 1) (t.cols - col')
    cellAt (editSpec t (.dch n)) t.cursor.row c =
      if c < col' then cellAt t t.cursor.row c
      else if c + k < t.cols then cellAt t t.cursor.row (c + k)
      else if c < t.cols then some (Cell.blank t.pen) else none := by
  have F := editFacts h
  obtain ⟨l, hl, hw, _, hcc⟩ := cellAt_dch t h n t.cursor.row c
  simp only
  rw [hcc, if_pos rfl, deleteChars_cells _ _ _ _ _ hw (by have := F.cols1; omega)]
  unfold cellAt
  simp only [hl, Option.bind_some]

/-! ### wrap marks -/

/-- EL, ECH, ICH, DCH, DECALN: the mark of the cursor's row is cleared exactly when `clearsMark`
    says so; no other mark changes -/
theorem marks_row_edits (t : Terminal) (f : Function) (h : TInv t = true)
    (hf : (∃ s, f = .el s) ∨ (∃ n, f = .ech n) ∨ (∃ n, f = .ich n) ∨ (∃ n, f = .dch n) ∨ f = .decaln)
    (r : Nat) :
    markAt (editSpec t f) r =
      if r = t.cursor.row ∧ clearsMark t f = true then some false else markAt t r := by
  obtain ⟨l, hl, hw⟩ := cursor_row t h
  rcases hf with ⟨s, hf⟩ | ⟨n, hf⟩ | ⟨n, hf⟩ | ⟨n, hf⟩ | hf <;> subst hf
  · cases s <;> simp only [editSpec, markAt_onRow, clearsMark] <;> by_cases h1 : r = t.cursor.row <;>
      simp [h1, hl, eraseRight, eraseLeft, eraseRow, markAt]
  · simp only [editSpec, markAt_onRow, clearsMark]
    by_cases h1 : r = t.cursor.row <;> simp [h1, hl, eraseChars, markAt]
    split <;> simp_all
  · simp only [editSpec, markAt_onRow, clearsMark]
    by_cases h1 : r = t.cursor.row <;> simp [h1, hl, insertChars, markAt]
  · obtain ⟨e1, e2, e3, e4, e5⟩ := leavePending_facts t
    simp only [editSpec, markAt_onRow, clearsMark, e1, e2]
    by_cases h1 : r = t.cursor.row <;> simp [h1, hl, deleteChars, markAt, e1]
  · simp only [clearsMark, Bool.false_eq_true, and_false, if_false]
    unfold markAt
    rw [view_decaln]
    cases t.buffer.view[r]? <;> rfl

/-- ED: rows replaced by fresh rows are unwrapped; ED 0 also clears the mark of the cursor's row,
    ED 1 leaves it -/
theorem marks_ed (t : Terminal) (h : TInv t = true) (r : Nat) :
    markAt (editSpec t (.ed .below)) r
        = (if r < t.cursor.row then markAt t r else if r < t.rows then some false else none)
    ∧ markAt (editSpec t (.ed .above)) r = (if r < t.cursor.row then some false else markAt t r)
    ∧ markAt (editSpec t (.ed .all)) r = (if r < t.rows then some false else none)
    ∧ markAt (editSpec t (.ed .savedLines)) r = markAt t r := by
  obtain ⟨l, hl, hw⟩ := cursor_row t h
  have F := editFacts h
  have hrow := F.row
  refine ⟨?_, ?_, ?_, rfl⟩
  · unfold markAt
    rw [view_edBelow t h]
    by_cases h1 : r < t.cursor.row
    · simp only [h1, if_true]
    · by_cases h2 : r = t.cursor.row
      · subst h2
        simp [hl, eraseRight, hrow]
      · simp only [h1, h2, if_false]
        split <;> simp [Line.blank]
  · unfold markAt
    rw [view_edAbove t h]
    by_cases h1 : r < t.cursor.row
    · simp [h1, Line.blank]
    · by_cases h2 : r = t.cursor.row
      · subst h2
        simp [hl, eraseLeft]
      · simp only [h1, h2, if_false]
  · unfold markAt
    rw [view_edAll]
    split <;> simp [Line.blank]

/-- everything except the view, the changed-row flags, the cursor column and the wrap-pending flag
    is exactly as before; the cursor moves only for DCH from the wrap-pending column -/
theorem edit_frame (t : Terminal) (f : Function) :
    ({ editSpec t f with
        buffer := { (editSpec t f).buffer with view := t.buffer.view }
        dirtyLines := t.dirtyLines, cursor := t.cursor, pendingWrap := t.pendingWrap } : Terminal) = t
    ∧ (editSpec t f).cursor.row = t.cursor.row ∧ (editSpec t f).cursor.visible = t.cursor.visible
    ∧ (((∃ n, f = .dch n) ∧ t.cursor.col ≥ t.cols) ∨
        ((editSpec t f).cursor = t.cursor ∧ (editSpec t f).pendingWrap = t.pendingWrap)) := by
  cases f <;> try exact ⟨rfl, rfl, rfl, Or.inr ⟨rfl, rfl⟩⟩
  case ed s => cases s <;> exact ⟨rfl, rfl, rfl, Or.inr ⟨rfl, rfl⟩⟩
  case el s => cases s <;> exact ⟨rfl, rfl, rfl, Or.inr ⟨rfl, rfl⟩⟩
  case dch n =>
    simp only [editSpec, onRow, withView, leavePending]
    split
    · rename_i hge
      exact ⟨rfl, rfl, rfl, Or.inl ⟨⟨n, rfl⟩, hge⟩⟩
    · exact ⟨rfl, rfl, rfl, Or.inr ⟨rfl, rfl⟩⟩

end Avt.C07L
