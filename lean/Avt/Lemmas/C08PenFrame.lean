/-
  Avt.Lemmas.C08PenFrame — the pen is state that only SGR, the restores (DECRC, SCORC, DECRST
  1048 / 1049) and the two resets (DECSTR, RIS) may change: every other function leaves `pen` exactly
  as it is — printing, erasing, scrolling, saving the cursor, setting any DEC mode, both directions
  of the plain switch of screens (47 / 1047) with the reflow that follows, XTWINOPS — and so does a
  resize.  Helper by helper, as in Lemmas/C06Margins.lean; no invariant is needed.  Then lifted to
  the fold `Vt.feed` / `Vt.feedAll` / `Vt.feedStr` perform over the functions the parser emits.
-/
import Avt.Spec.C08
import Avt.Lemmas.C17Step
import Avt.Lemmas.FrameVt

namespace Avt.C08P
open Avt Avt.Spec Avt.Spec.C08

/-- the pen is the same -/
def PSame (t t' : Terminal) : Prop := t'.pen = t.pen

theorem PSame.refl (t : Terminal) : PSame t t := rfl

theorem PSame.trans {a b c : Terminal} (h1 : PSame a b) (h2 : PSame b c) : PSame a c :=
  Eq.trans h2 h1

theorem map_pen {α} {t t' : Terminal} {o : Option α} {g : α → Terminal}
    (h : o.map g = some t') (hg : ∀ a, PSame t (g a)) : PSame t t' := by
  cases o with
  | none => cases h
  | some a => cases h; exact hg a

theorem markDirty_pen {t t' : Terminal} {r : Nat} (h : t.markDirty r = some t') : PSame t t' :=
  map_pen h (fun _ => rfl)

theorem markDirtyRange_pen {t t' : Terminal} {a b : Nat} (h : t.markDirtyRange a b = some t') :
    PSame t t' := map_pen h (fun _ => rfl)

theorem doMoveCursorToRow_pen {t t' : Terminal} {r : Nat} (h : t.doMoveCursorToRow r = some t') :
    PSame t t' := map_pen h (fun _ => rfl)

theorem moveCursorToCol_pen {t t' : Terminal} {c : Nat} (h : t.moveCursorToCol c = some t') :
    PSame t t' := by
  unfold Terminal.moveCursorToCol at h
  split at h
  · exact map_pen h (fun _ => rfl)
  · cases h; exact rfl

theorem moveCursorToRow_pen {t t' : Terminal} {r : Nat} (h : t.moveCursorToRow r = some t') :
    PSame t t' := by
  unfold Terminal.moveCursorToRow at h
  simp only at h
  split at h
  · cases h
  · exact doMoveCursorToRow_pen h

theorem moveCursorToRelCol_pen {t t' : Terminal} {r : Int} (h : t.moveCursorToRelCol r = some t') :
    PSame t t' := by
  unfold Terminal.moveCursorToRelCol at h
  simp only at h
  split at h
  · cases h; exact rfl
  · split at h
    · exact map_pen h (fun _ => rfl)
    · cases h; exact rfl

theorem moveCursorHome_pen {t t' : Terminal} (h : t.moveCursorHome = some t') : PSame t t' := by
  unfold Terminal.moveCursorHome at h
  exact PSame.trans (b := t.doMoveCursorToCol 0) rfl (doMoveCursorToRow_pen h)

theorem moveCursorToNextTab_pen {t t' : Terminal} {n : Nat} (h : t.moveCursorToNextTab n = some t') :
    PSame t t' := by
  unfold Terminal.moveCursorToNextTab at h
  split at h
  · exact moveCursorToCol_pen h
  · cases h

theorem moveCursorToPrevTab_pen {t t' : Terminal} {n : Nat} (h : t.moveCursorToPrevTab n = some t') :
    PSame t t' := by
  unfold Terminal.moveCursorToPrevTab at h
  split at h
  · exact moveCursorToCol_pen h
  · cases h

theorem scrollUpInRegion_pen {t t' : Terminal} {n : Nat} (h : t.scrollUpInRegion n = some t') :
    PSame t t' := by
  unfold Terminal.scrollUpInRegion at h
  split at h
  · cases h
  · exact map_pen h (fun _ => rfl)

theorem scrollDownInRegion_pen {t t' : Terminal} {n : Nat} (h : t.scrollDownInRegion n = some t') :
    PSame t t' := by
  unfold Terminal.scrollDownInRegion at h
  split at h
  · cases h
  · exact map_pen h (fun _ => rfl)

theorem moveCursorDownWithScroll_pen {t t' : Terminal} (h : t.moveCursorDownWithScroll = some t') :
    PSame t t' := by
  unfold Terminal.moveCursorDownWithScroll at h
  split at h
  · exact scrollUpInRegion_pen h
  · split at h
    · cases h
    · split at h
      · exact doMoveCursorToRow_pen h
      · cases h; exact rfl

theorem cursorDown_pen {t t' : Terminal} {n : Nat} (h : t.cursorDown n = some t') : PSame t t' := by
  unfold Terminal.cursorDown at h
  split at h
  · split at h
    · cases h
    · exact doMoveCursorToRow_pen h
  · exact doMoveCursorToRow_pen h

theorem cursorUp_pen {t t' : Terminal} {n : Nat} (h : t.cursorUp n = some t') : PSame t t' := by
  unfold Terminal.cursorUp at h
  exact doMoveCursorToRow_pen h

theorem setTab_pen (t : Terminal) : PSame t t.setTab := by
  unfold Terminal.setTab; split <;> exact rfl

theorem ctc_pen (t : Terminal) (op : CtcOp) : PSame t (t.ctc op) := by
  cases op
  · exact setTab_pen t
  · exact rfl
  · exact rfl

theorem tbc_pen (t : Terminal) (s : TbcScope) : PSame t (t.tbc s) := by
  cases s <;> exact rfl

theorem bs_pen {t t' : Terminal} (h : t.bs = some t') : PSame t t' := by
  unfold Terminal.bs at h
  split at h <;> exact moveCursorToRelCol_pen h

theorem lf_pen {t t' : Terminal} (h : t.lf = some t') : PSame t t' := by
  unfold Terminal.lf at h
  cases hm : t.moveCursorDownWithScroll with
  | none => simp [hm] at h
  | some t1 =>
    simp only [hm, Option.map_some, Option.some.injEq] at h
    subst h
    refine (moveCursorDownWithScroll_pen hm).trans ?_
    split <;> exact rfl

theorem nel_pen {t t' : Terminal} (h : t.nel = some t') : PSame t t' := by
  unfold Terminal.nel at h
  cases hm : t.moveCursorDownWithScroll with
  | none => simp [hm] at h
  | some t1 =>
    simp only [hm, Option.map_some, Option.some.injEq] at h
    subst h
    exact (moveCursorDownWithScroll_pen hm).trans rfl

theorem ri_pen {t t' : Terminal} (h : t.ri = some t') : PSame t t' := by
  unfold Terminal.ri at h
  split at h
  · exact scrollDownInRegion_pen h
  · split at h
    · exact doMoveCursorToRow_pen h
    · cases h; exact rfl

theorem decalnRows_pen : ∀ (k row : Nat) {t t' : Terminal}, Terminal.decalnRows t row k = some t' → PSame t t'
  | 0, _, t, t', h => by cases h; exact rfl
  | k + 1, row, t, t', h => by
    unfold Terminal.decalnRows at h
    split at h
    · cases h
    · rename_i b _
      split at h
      · cases h
      · rename_i t1 h1
        exact (PSame.trans (b := { t with buffer := b }) rfl (markDirty_pen h1)).trans
          (decalnRows_pen k (row + 1) h)

theorem ich_pen {t t' : Terminal} {n : Nat} (h : t.ich n = some t') : PSame t t' := by
  unfold Terminal.ich at h
  split at h
  · cases h
  · rename_i b _
    exact PSame.trans (b := { t with buffer := b }) rfl (markDirty_pen h)

theorem cub_pen {t t' : Terminal} {n : Nat} (h : t.cub n = some t') : PSame t t' := by
  unfold Terminal.cub at h
  exact moveCursorToRelCol_pen h

theorem cup_pen {t t' : Terminal} {r c : Nat} (h : t.cup r c = some t') : PSame t t' := by
  unfold Terminal.cup at h
  split at h
  · cases h
  · rename_i t1 h1
    exact (moveCursorToCol_pen h1).trans (moveCursorToRow_pen h)

theorem eraseWith_pen {t t' : Terminal} {m : Buffer.EraseMode} (h : t.eraseWith m = some t') :
    PSame t t' := map_pen h (fun _ => rfl)

theorem ed_pen {t t' : Terminal} {s : EdScope} (h : t.ed s = some t') : PSame t t' := by
  unfold Terminal.ed at h
  cases s with
  | savedLines => cases h; exact rfl
  | below | above | all =>
    simp only at h
    split at h
    · cases h
    · rename_i t1 h1
      exact (eraseWith_pen h1).trans (markDirtyRange_pen h)

theorem el_pen {t t' : Terminal} {s : ElScope} (h : t.el s = some t') : PSame t t' := by
  unfold Terminal.el at h
  simp only at h
  split at h
  · cases h
  · rename_i t1 h1
    exact (eraseWith_pen h1).trans (markDirty_pen h)

theorem ech_pen {t t' : Terminal} {n : Nat} (h : t.ech n = some t') : PSame t t' := by
  unfold Terminal.ech at h
  split at h
  · cases h
  · rename_i t1 h1
    exact (eraseWith_pen h1).trans (markDirty_pen h)

theorem il_pen {t t' : Terminal} {n : Nat} (h : t.il n = some t') : PSame t t' := by
  unfold Terminal.il at h
  simp only at h
  split at h
  · cases h
  · rename_i b _
    exact PSame.trans (b := { t with buffer := b }) rfl (markDirtyRange_pen h)

theorem dl_pen {t t' : Terminal} {n : Nat} (h : t.dl n = some t') : PSame t t' := by
  unfold Terminal.dl at h
  simp only at h
  split at h
  · cases h
  · rename_i b _
    exact PSame.trans (b := { t with buffer := b }) rfl (markDirtyRange_pen h)

theorem dch_pen {t t' : Terminal} {n : Nat} (h : t.dch n = some t') : PSame t t' := by
  unfold Terminal.dch at h
  simp only at h
  split at h
  · cases h
  · rename_i t1 ht1
    have h1 : PSame t t1 := by
      split at ht1
      · split at ht1
        · cases ht1
        · exact moveCursorToCol_pen ht1
      · cases ht1; exact rfl
    split at h
    · cases h
    · rename_i b _
      exact h1.trans (PSame.trans (b := { t1 with buffer := b }) rfl (markDirty_pen h))


theorem print_pen {t t' : Terminal} {ch : Nat} (h : t.print ch = some t') : PSame t t' := by
  unfold Terminal.print at h
  split at h
  · cases h
  · split at h
    · cases h
    · simp only at h
      split at h
      · cases h
      · rename_i t1 ht1
        split at h
        · cases h
        · rename_i t2 ht2
          have h1 : PSame t t1 := by
            split at ht1
            · have h0 : PSame t (t.doMoveCursorToCol 0) := rfl
              generalize t.doMoveCursorToCol 0 = t0 at ht1 h0
              split at ht1
              · split at ht1
                · cases ht1
                · rename_i b hb
                  have hb' : PSame t { t0 with buffer := b } := h0.trans rfl
                  split at ht1
                  · cases ht1
                  · rename_i t3 ht3
                    have h3 := hb'.trans (scrollUpInRegion_pen ht3)
                    split at ht1
                    · cases ht1
                    · split at ht1
                      · split at ht1
                        · cases ht1
                        · exact h3.trans (map_pen ht1 (fun _ => rfl))
                      · cases ht1; exact h3
              · split at ht1
                · cases ht1
                · split at ht1
                  · split at ht1
                    · cases ht1
                    · rename_i b hb
                      have hb' : PSame t { t0 with buffer := b } := h0.trans rfl
                      exact hb'.trans (doMoveCursorToRow_pen ht1)
                  · cases ht1; exact h0
            · cases ht1; exact rfl
          have h2 : PSame t1 t2 := by
            split at ht2
            · split at ht2
              · cases ht2
              · split at ht2
                · cases ht2
                · split at ht2
                  · cases ht2; exact rfl
                  · cases ht2; exact rfl
            · split at ht2
              · cases ht2
              · cases ht2; exact rfl
          exact (h1.trans h2).trans (markDirty_pen h)

theorem printN_pen {ch : Nat} : ∀ (k : Nat) {t t' : Terminal}, t.printN ch k = some t' → PSame t t'
  | 0, t, t', h => by cases h; exact rfl
  | k + 1, t, t', h => by
    unfold Terminal.printN at h
    split at h
    · cases h
    · rename_i t1 h1
      exact (print_pen h1).trans (printN_pen k h)

theorem rep_pen {t t' : Terminal} {n : Nat} (h : t.rep n = some t') : PSame t t' := by
  unfold Terminal.rep at h
  split at h
  · split at h
    · cases h
    · split at h
      · cases h
      · exact printN_pen _ h
  · cases h; exact rfl

theorem sm_pen (ms : List AnsiMode) : ∀ t : Terminal, PSame t (t.sm ms) := by
  induction ms with
  | nil => intro t; exact rfl
  | cons m ms ih =>
    intro t
    simp only [Terminal.sm, List.foldl_cons]
    cases m
    · exact PSame.trans (b := { t with insertMode := true }) rfl (ih _)
    · exact PSame.trans (b := { t with newLineMode := true }) rfl (ih _)

theorem rm_pen (ms : List AnsiMode) : ∀ t : Terminal, PSame t (t.rm ms) := by
  induction ms with
  | nil => intro t; exact rfl
  | cons m ms ih =>
    intro t
    simp only [Terminal.rm, List.foldl_cons]
    cases m
    · exact PSame.trans (b := { t with insertMode := false }) rfl (ih _)
    · exact PSame.trans (b := { t with newLineMode := false }) rfl (ih _)

/-! ### save / restore, the switches of screens, reflow -/

theorem saveCursor_pen {t t' : Terminal} (h : t.saveCursor = some t') : PSame t t' :=
  map_pen h (fun _ => rfl)

theorem switchToAlternateBuffer_pen {t t' : Terminal} (h : t.switchToAlternateBuffer = some t') :
    PSame t t' := by
  unfold Terminal.switchToAlternateBuffer at h
  split at h
  · simp only at h
    exact map_pen h (fun _ => rfl)
  · cases h; exact rfl

theorem switchToPrimaryBuffer_pen {t t' : Terminal} (h : t.switchToPrimaryBuffer = some t') :
    PSame t t' := by
  unfold Terminal.switchToPrimaryBuffer at h
  split at h
  · simp only at h
    exact map_pen h (fun _ => rfl)
  · cases h; exact rfl

/-- `Terminal.reflow` (the tail of every switch of screens) resizes the buffer, moves the cursor,
    flags rows and clamps the saved context — never the pen -/
theorem reflow_pen {t t' : Terminal} (h : t.reflow = some t') : PSame t t' := by
  rw [Spec.C17.reflow_eq] at h
  obtain ⟨b, col, row, d, _, rfl⟩ := Spec.C17.reflowCore_eq h
  split <;> exact rfl

/-- setting any DEC mode -/
theorem decsetOne_pen {t t' : Terminal} {m : DecMode} (h : t.decsetOne m = some t') : PSame t t' := by
  cases m <;> simp only [Terminal.decsetOne] at h
  case cursorKeys => cases h; exact rfl
  case origin => exact PSame.trans (b := { t with originMode := true }) rfl (moveCursorHome_pen h)
  case autoWrap => cases h; exact rfl
  case textCursorEnable => cases h; exact rfl
  case altScreenBuffer =>
    split at h
    · cases h
    · rename_i t1 h1
      exact (switchToAlternateBuffer_pen h1).trans (reflow_pen h)
  case saveCursor => exact saveCursor_pen h
  case saveCursorAltScreenBuffer =>
    split at h
    · cases h
    · rename_i t0 h0
      split at h
      · cases h
      · rename_i t1 h1
        exact ((saveCursor_pen h0).trans (switchToAlternateBuffer_pen h1)).trans (reflow_pen h)

/-- resetting a DEC mode other than 1048 / 1049 — leaving the alternate screen (47 / 1047) included -/
theorem decrstOne_pen {t t' : Terminal} {m : DecMode} (hm : restoresPen m = false)
    (h : t.decrstOne m = some t') : PSame t t' := by
  cases m <;> simp only [restoresPen, Bool.true_eq_false] at hm <;> simp only [Terminal.decrstOne] at h
  case cursorKeys => cases h; exact rfl
  case origin => exact PSame.trans (b := { t with originMode := false }) rfl (moveCursorHome_pen h)
  case autoWrap => cases h; exact rfl
  case textCursorEnable => cases h; exact rfl
  case altScreenBuffer =>
    split at h
    · cases h
    · rename_i t1 h1
      exact (switchToPrimaryBuffer_pen h1).trans (reflow_pen h)

/-- the fold of `decrstOne` over modes none of which restores the cursor -/
theorem foldRst_pen : ∀ (ms : List DecMode) {t t' : Terminal}, ms.any restoresPen = false →
    Terminal.foldM' Terminal.decrstOne ms t = some t' → PSame t t'
  | [], t, t', _, h => by cases h; exact rfl
  | m :: ms, t, t', hp, h => by
    simp only [List.any_cons, Bool.or_eq_false_iff] at hp
    unfold Terminal.foldM' at h
    split at h
    · rename_i t1 h1
      exact (decrstOne_pen hp.1 h1).trans (foldRst_pen ms hp.2 h)
    · cases h

/-! ### DECSTBM, resize, XTWINOPS -/

theorem decstbm_pen {t t' : Terminal} {a b : Nat} (h : t.decstbm a b = some t') : PSame t t' := by
  unfold Terminal.decstbm at h
  simp only at h
  split at h
  · cases h
  · have h1 := moveCursorHome_pen h
    refine PSame.trans ?_ h1
    split <;> exact rfl

/-- **resize**: `Terminal.resize` edits the stops, the margins, the geometry and reflows — never
    the pen -/
theorem resize_pen {t t' : Terminal} {cols rows : Nat} (h : t.resize cols rows = some t') :
    PSame t t' := by
  rw [Spec.C17.resize_eq] at h
  have e1 : PSame t (Spec.C17.resizeTabs t cols) := by
    unfold Spec.C17.resizeTabs
    split
    · exact rfl
    · split <;> exact rfl
  split at h
  · cases h
  · rename_i t2 ht2
    have e2 : PSame (Spec.C17.resizeTabs t cols) t2 := by
      unfold Spec.C17.resizeMargins at ht2
      split at ht2
      · exact map_pen ht2 (fun _ => rfl)
      · cases ht2; exact rfl
    exact (e1.trans e2).trans (PSame.trans (b := { t2 with cols := cols, rows := rows }) rfl (reflow_pen h))

theorem xtwinopsF_pen {t t' : Terminal} {c r : Nat} (h : t.xtwinopsF c r = some t') : PSame t t' := by
  unfold Terminal.xtwinopsF at h
  split at h
  · exact resize_pen h
  · cases h; exact rfl

theorem foldM_pen {α} {f : Terminal → α → Option Terminal}
    (hf : ∀ t t' a, f t a = some t' → PSame t t') :
    ∀ (as : List α) {t t' : Terminal}, Terminal.foldM' f as t = some t' → PSame t t'
  | [], t, t', h => by cases h; exact rfl
  | a :: as, t, t', h => by
    unfold Terminal.foldM' at h
    split at h
    · rename_i t1 h1
      exact (hf _ _ _ h1).trans (foldM_pen hf as h)
    · cases h

/-- **frame**: every function other than SGR, DECRC, SCORC, DECRST 1048 / 1049, DECSTR and RIS
    leaves the pen exactly as it is (all constructors of `Function`; no invariant) -/
theorem frame {t t' : Terminal} {f : Function} (hf : setsPen f = false)
    (h : t.execute f = some t') : PSame t t' := by
  cases f <;> simp only [setsPen, Bool.true_eq_false] at hf <;> simp only [Terminal.execute] at h
  case bs => exact bs_pen h
  case cbt n => exact moveCursorToPrevTab_pen h
  case cha n => exact moveCursorToCol_pen h
  case cht n => exact moveCursorToNextTab_pen h
  case cnl n =>
    cases hc : t.cursorDown (asUsize n 1) with
    | none => simp [hc] at h
    | some t1 =>
      simp only [hc, Option.map_some, Option.some.injEq] at h; subst h
      exact (cursorDown_pen hc).trans rfl
  case cpl n =>
    cases hc : t.cursorUp (asUsize n 1) with
    | none => simp [hc] at h
    | some t1 =>
      simp only [hc, Option.map_some, Option.some.injEq] at h; subst h
      exact (cursorUp_pen hc).trans rfl
  case cr => cases h; exact rfl
  case ctc op => cases h; exact ctc_pen t op
  case cub n => exact cub_pen h
  case cud n => exact cursorDown_pen h
  case cuf n => exact moveCursorToRelCol_pen h
  case cup r c => exact cup_pen h
  case cuu n => exact cursorUp_pen h
  case dch n => exact dch_pen h
  case decaln => exact decalnRows_pen _ _ h
  case decrst ms => exact foldRst_pen ms hf h
  case decsc => exact saveCursor_pen h
  case decset ms => exact foldM_pen (fun _ _ _ hh => decsetOne_pen hh) ms h
  case decstbm a b => exact decstbm_pen h
  case dl n => exact dl_pen h
  case ech n => exact ech_pen h
  case ed s => exact ed_pen h
  case el s => exact el_pen h
  case g1d4 c => cases h; exact rfl
  case gzd4 c => cases h; exact rfl
  case ht => exact moveCursorToNextTab_pen h
  case hts => cases h; exact setTab_pen t
  case ich n => exact ich_pen h
  case il n => exact il_pen h
  case lf => exact lf_pen h
  case nel => exact nel_pen h
  case print ch => exact print_pen h
  case rep n => exact rep_pen h
  case ri => exact ri_pen h
  case rm ms => cases h; exact rm_pen ms t
  case scosc => exact saveCursor_pen h
  case sd n => exact scrollDownInRegion_pen h
  case si => cases h; exact rfl
  case sm ms => cases h; exact sm_pen ms t
  case so => cases h; exact rfl
  case su n => exact scrollUpInRegion_pen h
  case tbc s => cases h; exact tbc_pen t s
  case vpa n => exact moveCursorToRow_pen h
  case vpr n => exact cursorDown_pen h
  case xtwinops c r => exact xtwinopsF_pen h

/-! ### lifted to a list of functions, and to the public calls -/

/-- the fold of `execute` over functions none of which sets the pen -/
theorem frame_many {fs : List Function} (hf : ∀ f ∈ fs, setsPen f = false) :
    ∀ {t t' : Terminal}, Terminal.foldM' Terminal.execute fs t = some t' → PSame t t' := by
  induction fs with
  | nil => intro t t' h; cases h; exact rfl
  | cons f fs ih =>
    intro t t' h
    unfold Terminal.foldM' at h
    split at h
    · rename_i t1 h1
      exact (frame (hf f (by simp)) h1).trans (ih (fun g hg => hf g (by simp [hg])) h)
    · cases h

/-- one character through `Vt.feed` -/
theorem feed_pen {v v' : Vt} {c : Nat} (hf : ∀ f ∈ Frame.emitted v.parser [c], setsPen f = false)
    (h : v.feed c = some v') : PSame v.terminal v'.terminal := by
  unfold Vt.feed at h
  split at h
  · cases h
  · cases h; exact rfl
  · rename_i p f hp
    obtain ⟨t1, h1, rfl⟩ := Option.map_eq_some_iff.mp h
    exact frame (hf f (by simp [Frame.emitted, hp])) h1

/-- a string through `Vt.feedAll` (per-character `Vt::feed`, no `changes()` / `gc()`) -/
theorem feedAll_pen : ∀ (xs : List Nat) {v v' : Vt},
    (∀ f ∈ Frame.emitted v.parser xs, setsPen f = false) → v.feedAll xs = some v' →
    PSame v.terminal v'.terminal
  | [], v, v', _, h => by cases h; exact rfl
  | c :: cs, v, v', hf, h => by
    simp only [Vt.feedAll] at h
    split at h
    · rename_i v1 h1
      rw [Frame.emitted_feed h1 cs] at hf
      exact (feed_pen (fun f hm => hf f (by simp [hm])) h1).trans
        (feedAll_pen cs (fun f hm => hf f (by simp [hm])) h)
    · cases h

/-- `changes()` + `gc()` do not touch the pen -/
theorem finish_pen (v : Vt) : PSame v.terminal v.finish.1.terminal := rfl

/-- `Vt.feedStr` -/
theorem feedStr_pen {xs : List Nat} {v v' : Vt} {ch : Changes}
    (hf : ∀ f ∈ Frame.emitted v.parser xs, setsPen f = false) (h : v.feedStr xs = some (v', ch)) :
    PSame v.terminal v'.terminal := by
  unfold Vt.feedStr at h
  obtain ⟨v1, h1, h2⟩ := Option.map_eq_some_iff.mp h
  have e : v' = v1.finish.1 := by rw [h2]
  subst e
  exact (feedAll_pen xs hf h1).trans (finish_pen v1)

/-- `Vt.resize` -/
theorem vtResize_pen {v v' : Vt} {cols rows : Nat} {ch : Changes}
    (h : v.resize cols rows = some (v', ch)) : PSame v.terminal v'.terminal := by
  unfold Vt.resize at h
  obtain ⟨t1, h1, h2⟩ := Option.map_eq_some_iff.mp h
  have e : v' = (Vt.finish { v with terminal := t1 }).1 := by rw [h2]
  subst e
  exact (resize_pen h1).trans (finish_pen { v with terminal := t1 })

end Avt.C08P
