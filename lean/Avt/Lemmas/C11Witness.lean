/-
  Avt.Lemmas.C11Witness — histories, reachability, the restore operation of property C11, and the
  evaluation harness for the known-finding witnesses (kernel-evaluated in Props/C11.lean).
-/
import Avt.Spec.C11

namespace Avt
namespace Lemmas.C11
open Avt.Spec.C11

/-- one public call -/
inductive HOp where
  | feedStr (s : List Nat)          -- `Vt::feed_str`
  | feedChars (s : List Nat)        -- `Vt::feed` per character (no `changes()`/`gc()`)
  | resize (cols rows : Nat)        -- `Vt::resize`
  deriving DecidableEq, Repr

def HOp.run (v : Vt) : HOp → Option Vt
  | .feedStr s => (v.feedStr s).map (·.1)
  | .feedChars s => v.feedAll s
  | .resize c r => (v.resize c r).map (·.1)

/-- run a history -/
def runHist (v : Vt) : List HOp → Option Vt
  | [] => some v
  | op :: rest => match op.run v with | some v' => runHist v' rest | none => none

theorem runHist_append (v : Vt) (xs ys : List HOp) :
    runHist v (xs ++ ys) = (runHist v xs).bind fun v' => runHist v' ys := by
  induction xs generalizing v with
  | nil => rfl
  | cons x xs ih =>
    simp only [List.cons_append, runHist]
    cases x.run v with
    | none => rfl
    | some v' => exact ih v'

/-- reachable: built by `Vt::new` and driven through public calls only (resizes to `≥ 1x1`) -/
def Reach (s : Vt) : Prop :=
  ∃ cols rows lim hist, 1 ≤ cols ∧ 1 ≤ rows
    ∧ (∀ op ∈ hist, ∀ c r, op = HOp.resize c r → 1 ≤ c ∧ 1 ≤ r)
    ∧ (Vt.new cols rows lim).bind (fun v => runHist v hist) = some s

/-- reachability is closed under further input -/
theorem Reach.feedAll {s s' : Vt} (h : Reach s) (xs : List Nat) (hf : s.feedAll xs = some s') : Reach s' := by
  obtain ⟨cols, rows, lim, hist, h1, h2, h3, h4⟩ := h
  refine ⟨cols, rows, lim, hist ++ [.feedChars xs], h1, h2, ?_, ?_⟩
  · intro op hop c r he
    rcases List.mem_append.mp hop with hop | hop
    · exact h3 op hop c r he
    · simp only [List.mem_singleton] at hop; subst hop; cases he
  · cases hn : Vt.new cols rows lim with
    | none => simp [hn] at h4
    | some v =>
      simp only [hn, Option.bind_some] at h4 ⊢
      rw [runHist_append, h4]
      simp [runHist, HOp.run, hf]

/-- `dump()` fed into a fresh terminal of the same size (built without scrollback limit, as the
    property says) -/
def restoreOf (s : Vt) : Option Vt :=
  match s.dump, Vt.new s.terminal.cols s.terminal.rows none with
  | some d, some f => (f.feedStr d).map (·.1)
  | _, _ => none

/-- the restored terminal is itself reachable (one `feed_str` on a fresh terminal) -/
theorem Reach.restore {s r : Vt} (hc : 1 ≤ s.terminal.cols) (hr : 1 ≤ s.terminal.rows)
    (h : restoreOf s = some r) : Reach r := by
  unfold restoreOf at h
  cases hd : s.dump with
  | none => simp [hd] at h
  | some d =>
    cases hn : Vt.new s.terminal.cols s.terminal.rows none with
    | none => simp [hd, hn] at h
    | some f =>
      simp only [hd, hn] at h
      refine ⟨s.terminal.cols, s.terminal.rows, none, [.feedStr d], hc, hr, ?_, ?_⟩
      · intro op hop c r' he
        simp only [List.mem_singleton] at hop
        subst hop; cases he
      · simp only [hn, Option.bind_some, runHist, HOp.run, h]

/-- what a witness run shows: the findings the classifier attributes to the dumped state, and
    whether original and restored agree (normal form / public observation) right after the restore
    and after an identical probe on both -/
structure Outcome where
  findings : List Finding
  sameAtRestore : Bool
  obsSameAtRestore : Bool
  sameAfterProbe : Bool
  obsSameAfterProbe : Bool
  deriving DecidableEq, Repr

def witness (cols rows : Nat) (hist : List HOp) (probe : List Nat) : Option Outcome := do
  let v0 ← Vt.new cols rows none
  let s ← runHist v0 hist
  let r ← restoreOf s
  let (s', _) ← s.feedStr probe
  let (r', _) ← r.feedStr probe
  pure { findings := findings s.terminal,
         sameAtRestore := normD s == normD r, obsSameAtRestore := obs s == obs r,
         sameAfterProbe := normD s' == normD r', obsSameAfterProbe := obs s' == obs r' }

end Lemmas.C11
end Avt
