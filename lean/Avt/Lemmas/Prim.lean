/-
  Avt.Lemmas.Prim — generic lemmas about the checked primitives of Avt/Model/Prim.lean:
  success conditions, lengths, element-wise content.
-/
import Avt.Model.Prim

namespace Avt

/-! ### csub -/

theorem csub_eq_some {a b : Nat} (h : b ≤ a) : csub a b = some (a - b) := by
  simp [csub, h]

theorem csub_eq_none {a b : Nat} (h : a < b) : csub a b = none := by
  simp [csub]; omega

theorem csub_eq_some_iff {a b k : Nat} : csub a b = some k ↔ b ≤ a ∧ k = a - b := by
  unfold csub; split <;> simp_all <;> omega

theorem csub_isSome {a b : Nat} : (csub a b).isSome = true ↔ b ≤ a := by
  unfold csub; split <;> simp_all

/-! ### setAt -/

theorem setAt_eq_some {α} {l : List α} {i : Nat} (x : α) (h : i < l.length) :
    setAt l i x = some (l.set i x) := by
  simp [setAt, h]

theorem setAt_eq_some_iff {α} {l l' : List α} {i : Nat} {x : α} :
    setAt l i x = some l' ↔ i < l.length ∧ l' = l.set i x := by
  unfold setAt; split
  · simp_all [eq_comm]
  · simp; intro h; omega

theorem setAt_length {α} {l l' : List α} {i : Nat} {x : α} (h : setAt l i x = some l') :
    l'.length = l.length := by
  obtain ⟨_, rfl⟩ := setAt_eq_some_iff.1 h; simp

theorem setAt_getElem? {α} {l l' : List α} {i j : Nat} {x : α} (h : setAt l i x = some l') :
    l'[j]? = if i = j then some x else l[j]? := by
  obtain ⟨hi, rfl⟩ := setAt_eq_some_iff.1 h
  rw [List.getElem?_set]; split
  · simp [*]
  · rfl

/-! ### modAt -/

theorem modAt_eq_some {α} {l : List α} {i : Nat} (f : α → α) (h : i < l.length) :
    modAt l i f = some (l.set i (f l[i])) := by
  simp [modAt, List.getElem?_eq_getElem h]

theorem modAt_eq_some_iff {α} {l l' : List α} {i : Nat} {f : α → α} :
    modAt l i f = some l' ↔ ∃ h : i < l.length, l' = l.set i (f l[i]) := by
  unfold modAt
  by_cases h : i < l.length
  · simp [h, eq_comm]
  · simp [h]

theorem modAt_length {α} {l l' : List α} {i : Nat} {f : α → α} (h : modAt l i f = some l') :
    l'.length = l.length := by
  obtain ⟨_, rfl⟩ := modAt_eq_some_iff.1 h; simp

/-! ### modAtM -/

theorem modAtM_eq_some {α} {l : List α} {i : Nat} {f : α → Option α} {y : α} (h : i < l.length)
    (hf : f l[i] = some y) : modAtM l i f = some (l.set i y) := by
  simp [modAtM, List.getElem?_eq_getElem h, hf]

theorem modAtM_eq_some_iff {α} {l l' : List α} {i : Nat} {f : α → Option α} :
    modAtM l i f = some l' ↔ ∃ (h : i < l.length) (y : α), f l[i] = some y ∧ l' = l.set i y := by
  unfold modAtM
  by_cases h : i < l.length
  · simp only [List.getElem?_eq_getElem h]
    cases hf : f l[i] <;> simp [h, hf]
    exact eq_comm
  · simp [h]

theorem modAtM_length {α} {l l' : List α} {i : Nat} {f : α → Option α}
    (h : modAtM l i f = some l') : l'.length = l.length := by
  obtain ⟨_, _, _, rfl⟩ := modAtM_eq_some_iff.1 h; simp

theorem modAtM_getElem? {α} {l l' : List α} {i j : Nat} {f : α → Option α}
    (h : modAtM l i f = some l') : l'[j]? = if i = j then l[i]?.bind f else l[j]? := by
  obtain ⟨hi, y, hy, rfl⟩ := modAtM_eq_some_iff.1 h
  rw [List.getElem?_set]; split
  · simp [hy, hi]
  · rfl

/-! ### fillRange -/

theorem fillRange_eq_some {α} {l : List α} {a b : Nat} (x : α) (hab : a ≤ b) (hb : b ≤ l.length) :
    fillRange l a b x = some (l.take a ++ List.replicate (b - a) x ++ l.drop b) := by
  simp [fillRange, hab, hb]

theorem fillRange_eq_some_iff {α} {l l' : List α} {a b : Nat} {x : α} :
    fillRange l a b x = some l' ↔
      a ≤ b ∧ b ≤ l.length ∧ l' = l.take a ++ List.replicate (b - a) x ++ l.drop b := by
  unfold fillRange; split <;> simp_all [eq_comm]
  · omega

theorem fillRange_length {α} {l l' : List α} {a b : Nat} {x : α}
    (h : fillRange l a b x = some l') : l'.length = l.length := by
  obtain ⟨h1, h2, rfl⟩ := fillRange_eq_some_iff.1 h
  simp; omega

theorem fillRange_getElem? {α} {l l' : List α} {a b j : Nat} {x : α}
    (h : fillRange l a b x = some l') :
    l'[j]? = if a ≤ j ∧ j < b then some x else l[j]? := by
  obtain ⟨h1, h2, rfl⟩ := fillRange_eq_some_iff.1 h
  by_cases hj1 : j < a
  · rw [List.append_assoc, List.getElem?_append_left (by simp; omega)]
    simp [hj1]; omega
  · by_cases hj2 : j < b
    · rw [List.getElem?_append_left (by simp; omega), List.getElem?_append_right (by simp; omega)]
      simp [List.getElem?_replicate]
      have : min a l.length = a := by omega
      rw [this]; simp [show j - a < b - a by omega, show a ≤ j by omega, hj2]
    · rw [List.getElem?_append_right (by simp; omega)]
      simp
      have : min a l.length = a := by omega
      rw [this, if_neg (by omega)]
      congr 1; omega

theorem fillRange_mem {α} {l l' : List α} {a b : Nat} {x y : α}
    (h : fillRange l a b x = some l') (hy : y ∈ l') : y = x ∨ y ∈ l := by
  obtain ⟨_, _, rfl⟩ := fillRange_eq_some_iff.1 h
  simp only [List.mem_append, List.mem_replicate] at hy
  rcases hy with (hy | hy) | hy
  · exact .inr (List.mem_of_mem_take hy)
  · exact .inl hy.2
  · exact .inr (List.mem_of_mem_drop hy)

/-! ### rotLRange / rotRRange -/

theorem rotLRange_eq_some {α} {l : List α} {a b n : Nat} (hab : a ≤ b) (hb : b ≤ l.length)
    (hn : n ≤ b - a) :
    rotLRange l a b n =
      some (l.take a ++ (((l.take b).drop a).drop n ++ ((l.take b).drop a).take n) ++ l.drop b) := by
  simp [rotLRange, hab, hb, hn]

theorem rotLRange_eq_some_iff {α} {l l' : List α} {a b n : Nat} :
    rotLRange l a b n = some l' ↔ a ≤ b ∧ b ≤ l.length ∧ n ≤ b - a ∧
      l' = l.take a ++ (((l.take b).drop a).drop n ++ ((l.take b).drop a).take n) ++ l.drop b := by
  unfold rotLRange; split
  · simp_all [eq_comm]
  · simp_all; omega

theorem rotLRange_length {α} {l l' : List α} {a b n : Nat} (h : rotLRange l a b n = some l') :
    l'.length = l.length := by
  obtain ⟨h1, h2, h3, rfl⟩ := rotLRange_eq_some_iff.1 h
  simp; omega

theorem rotLRange_mem {α} {l l' : List α} {a b n : Nat} {y : α}
    (h : rotLRange l a b n = some l') (hy : y ∈ l') : y ∈ l := by
  obtain ⟨_, _, _, rfl⟩ := rotLRange_eq_some_iff.1 h
  simp only [List.mem_append] at hy
  rcases hy with (hy | hy | hy) | hy
  · exact List.mem_of_mem_take hy
  · exact List.mem_of_mem_take (List.mem_of_mem_drop (List.mem_of_mem_drop hy))
  · exact List.mem_of_mem_take (List.mem_of_mem_drop (List.mem_of_mem_take hy))
  · exact List.mem_of_mem_drop hy

theorem rotRRange_eq_some {α} {l : List α} {a b n : Nat} (hab : a ≤ b) (hb : b ≤ l.length)
    (hn : n ≤ b - a) :
    rotRRange l a b n =
      some (l.take a ++ (((l.take b).drop a).drop ((b - a) - n) ++ ((l.take b).drop a).take ((b - a) - n))
        ++ l.drop b) := by
  simp [rotRRange, hab, hb, hn]

theorem rotRRange_eq_some_iff {α} {l l' : List α} {a b n : Nat} :
    rotRRange l a b n = some l' ↔ a ≤ b ∧ b ≤ l.length ∧ n ≤ b - a ∧
      l' = l.take a ++ (((l.take b).drop a).drop ((b - a) - n) ++ ((l.take b).drop a).take ((b - a) - n))
        ++ l.drop b := by
  unfold rotRRange; split
  · simp_all [eq_comm]
  · simp_all; omega

theorem rotRRange_length {α} {l l' : List α} {a b n : Nat} (h : rotRRange l a b n = some l') :
    l'.length = l.length := by
  obtain ⟨h1, h2, h3, rfl⟩ := rotRRange_eq_some_iff.1 h
  simp; omega

theorem rotRRange_mem {α} {l l' : List α} {a b n : Nat} {y : α}
    (h : rotRRange l a b n = some l') (hy : y ∈ l') : y ∈ l := by
  obtain ⟨_, _, _, rfl⟩ := rotRRange_eq_some_iff.1 h
  simp only [List.mem_append] at hy
  rcases hy with (hy | hy | hy) | hy
  · exact List.mem_of_mem_take hy
  · exact List.mem_of_mem_take (List.mem_of_mem_drop (List.mem_of_mem_drop hy))
  · exact List.mem_of_mem_take (List.mem_of_mem_drop (List.mem_of_mem_take hy))
  · exact List.mem_of_mem_drop hy

/-- element-wise content of a left rotation of the range `a..b` by `n` -/
theorem rotLRange_getElem? {α} {l l' : List α} {a b n j : Nat}
    (h : rotLRange l a b n = some l') :
    l'[j]? = if a ≤ j ∧ j < b then (if j + n < b then l[j + n]? else l[j + n - (b - a)]?) else l[j]? := by
  obtain ⟨h1, h2, h3, rfl⟩ := rotLRange_eq_some_iff.1 h
  by_cases hj1 : j < a
  · rw [List.append_assoc, List.getElem?_append_left (by simp; omega)]
    simp [hj1]; omega
  · by_cases hj2 : j < b
    · rw [List.getElem?_append_left (by simp; omega), List.getElem?_append_right (by simp; omega)]
      have e1 : (List.take a l).length = a := by simp; omega
      rw [e1, if_pos ⟨by omega, hj2⟩]
      by_cases hj3 : j + n < b
      · rw [List.getElem?_append_left (by simp; omega), if_pos hj3]
        simp [List.getElem?_drop, List.getElem?_take]
        rw [if_pos (by omega)]; congr 1; omega
      · rw [List.getElem?_append_right (by simp; omega), if_neg hj3]
        simp [List.getElem?_drop, List.getElem?_take]
        have e2 : min b l.length = b := by omega
        rw [e2, if_pos (by omega), if_pos (by omega)]; congr 1; omega
    · rw [List.getElem?_append_right (by simp; omega), if_neg (by omega)]
      simp
      have : min a l.length = a := by omega
      rw [this]; congr 1; omega

/-- element-wise content of a right rotation of the range `a..b` by `n` -/
theorem rotRRange_getElem? {α} {l l' : List α} {a b n j : Nat}
    (h : rotRRange l a b n = some l') :
    l'[j]? = if a ≤ j ∧ j < b then (if a + n ≤ j then l[j - n]? else l[j + (b - a) - n]?) else l[j]? := by
  obtain ⟨h1, h2, h3, rfl⟩ := rotRRange_eq_some_iff.1 h
  by_cases hj1 : j < a
  · rw [List.append_assoc, List.getElem?_append_left (by simp; omega)]
    simp [hj1]; omega
  · by_cases hj2 : j < b
    · rw [List.getElem?_append_left (by simp; omega), List.getElem?_append_right (by simp; omega)]
      have e1 : (List.take a l).length = a := by simp; omega
      rw [e1, if_pos ⟨by omega, hj2⟩]
      by_cases hj3 : a + n ≤ j
      · rw [List.getElem?_append_right (by simp; omega), if_pos hj3]
        simp [List.getElem?_drop, List.getElem?_take]
        have e2 : min b l.length = b := by omega
        rw [e2, if_pos (by omega), if_pos (by omega)]; congr 1; omega
      · rw [List.getElem?_append_left (by simp; omega), if_neg hj3]
        simp [List.getElem?_drop, List.getElem?_take]
        rw [if_pos (by omega)]; congr 1; omega
    · rw [List.getElem?_append_right (by simp; omega), if_neg (by omega)]
      simp
      have : min a l.length = a := by omega
      rw [this]; congr 1; omega

end Avt
